/* drive.c — correspondence harness: runs CMR (built from /repo's working tree) on case lines.
 *
 * usage: drive <api>      one case per line on stdin (blank-separated integers), one record per
 *                         case on stdout, prefixed "R ".  A record echoes the input as the library
 *                         saw it, followed by return code and outputs (matrices as raw CSR arrays),
 *                         so that the extracted Coq judge decides on exactly what was computed.
 */
#define _GNU_SOURCE
#include <stdio.h>
#include <stdlib.h>
#include <string.h>
#include <stdint.h>
#include <stdbool.h>
#include <float.h>
#include <time.h>
#include <unistd.h>
#include <sys/resource.h>
#include <stdarg.h>
#include <pthread.h>
#include <sys/mman.h>
#include <fcntl.h>
#if defined(__SANITIZE_ADDRESS__)
#include <sanitizer/asan_interface.h>
#include <sanitizer/lsan_interface.h>
size_t __sanitizer_get_current_allocated_bytes(void);
#endif
#if defined(__has_feature)
#if __has_feature(memory_sanitizer)
#include <sanitizer/msan_interface.h>
#define DRIVE_MSAN 1
#endif
#endif

#include <cmr/env.h>
#include <cmr/matrix.h>
#include <cmr/tu.h>
#include <cmr/ctu.h>
#include <cmr/regular.h>
#include <cmr/seymour.h>
#include <cmr/camion.h>
#include <cmr/graphic.h>
#include <cmr/network.h>
#include <cmr/series_parallel.h>
#include <cmr/balanced.h>
#include <cmr/equimodular.h>
#include <cmr/separation.h>
#include <cmr/matroid.h>
#include <cmr/element.h>
#include "linear_algebra_internal.h"
#include "hashtable.h"
#include <cmr/graph.h>
#include <cmr/element.h>
#include <cmr/linear_algebra.h>
#include "env_internal.h"
#include "seymour_internal.h"

/* ---------- tokens of the current case line ---------- */
static __thread long long* tok = NULL;
static __thread size_t ntok = 0, memtok = 0, ptok = 0;

/* ---------- instrumentation shared by C11 / C18 / C19 (nothing of this lives in /repo) ----------
 * clock(), _CMRallocStack and _CMRfreeStack are intercepted at link time (-Wl,--wrap=...):
 *  - clock(): deterministic; read number r returns r ticks, and from read number clk_jump_at on 2000 s more
 *    (C18: "the timeout fires at the k-th clock read");
 *  - stack allocator: optional event trace (kind, requested size, CMRgetStackUsage after the event) for the Coq
 *    StackModel, optional filling of fresh chunks with a byte pattern (C19: results must not depend on what earlier
 *    calls left in scratch memory), and under ASan poisoning of everything between live chunks (C11: exact bounds for
 *    scratch arrays, which all live inside one malloc block per stack). */
static __thread FILE* OUT = NULL;
static __thread double g_tl = DBL_MAX;
#define TL g_tl
static __thread int tl_timeouts = 0;
static __thread int tl_nonnull = 0;
static __thread int input_modified = 0;
/* parameter structs are inputs as well: their bytes are compared before and after the library call (bit 4 of the flag) */
static __thread unsigned char params_saved[512];
static __thread const void* params_ptr = NULL;
static __thread size_t params_len = 0;
static void params_guard_begin(const void* p, size_t n)
{
  if (n <= sizeof(params_saved))
  {
    memcpy(params_saved, p, n);
    params_ptr = p;
    params_len = n;
  }
}
static void params_guard_end(void)
{
  if (params_ptr && memcmp(params_saved, params_ptr, params_len))
    input_modified |= 4;
  params_ptr = NULL;
}

static void note_rc(CMR_ERROR rc, int n, ...)
{
  if (rc != CMR_ERROR_TIMEOUT)
    return;
  ++tl_timeouts;
  va_list ap;
  va_start(ap, n);
  for (int i = 0; i < n; ++i)
  {
    void* p = va_arg(ap, void*);
    if (p)
      tl_nonnull = 1;
  }
  va_end(ap);
}

static volatile long clk_reads = 0;
static volatile long clk_jump_at = -1;

clock_t __wrap_clock(void)
{
  long r = __sync_fetch_and_add(&clk_reads, 1);
  if (clk_jump_at >= 0 && r >= clk_jump_at)
    return (clock_t) 2000 * CLOCKS_PER_SEC + (clock_t) r;
  return (clock_t) r;
}

typedef struct
{
  long long kind, size, usage;
} STACK_EVENT;
#define MAX_TRACE 20000
static __thread STACK_EVENT* trace = NULL;
static __thread size_t ntrace = 0;
static __thread bool tracing = false, trace_overflow = false;
static int poison_byte = -1;
typedef struct
{
  char* ptr;
  size_t size;
} SHADOW;
static __thread SHADOW* shadow = NULL;
static __thread size_t nshadow = 0, memshadow = 0;

CMR_ERROR __real__CMRallocStack(CMR* cmr, void** ptr, size_t size);
CMR_ERROR __real__CMRfreeStack(CMR* cmr, void** ptr);

static void trace_event(long long kind, size_t size, size_t usage)
{
  if (!tracing)
    return;
  if (!trace)
    trace = malloc(MAX_TRACE * sizeof(STACK_EVENT));
  if (ntrace >= MAX_TRACE)
  {
    trace_overflow = true;
    return;
  }
  trace[ntrace].kind = kind;
  trace[ntrace].size = (long long) size;
  trace[ntrace].usage = (long long) usage;
  ++ntrace;
}

CMR_ERROR __wrap__CMRallocStack(CMR* cmr, void** ptr, size_t size)
{
  CMR_ERROR e = __real__CMRallocStack(cmr, ptr, size);
  if (!e && *ptr)
  {
    size_t real = size < 4 ? 4 : size;
#if defined(__SANITIZE_ADDRESS__)
    /* bookkeeping bytes in front of the chunk and the padding behind it are made inaccessible (env.c itself is
     * compiled without ASan instrumentation); only the requested bytes are addressable */
    {
#if defined(NDEBUG)
      size_t ovh = sizeof(void*);
#else
      size_t ovh = 2 * sizeof(void*);
#endif
      ASAN_POISON_MEMORY_REGION((char*) *ptr - ovh, ovh + (real + 7) / 8 * 8);
      ASAN_UNPOISON_MEMORY_REGION(*ptr, size);
    }
#endif
    if (poison_byte >= 0)
      memset(*ptr, poison_byte, size);
#if defined(DRIVE_MSAN)
    __msan_poison(*ptr, size);
#endif
    if (nshadow == memshadow)
    {
      memshadow = memshadow ? 2 * memshadow : 256;
      shadow = realloc(shadow, memshadow * sizeof(SHADOW));
    }
    shadow[nshadow].ptr = (char*) *ptr;
    shadow[nshadow].size = (real + 7) / 8 * 8;
    ++nshadow;
  }
  trace_event(1, size, CMRgetStackUsage(cmr));
  return e;
}

CMR_ERROR __wrap__CMRfreeStack(CMR* cmr, void** ptr)
{
  char* p = ptr ? (char*) *ptr : NULL;
  CMR_ERROR e = __real__CMRfreeStack(cmr, ptr);
  if (nshadow > 0)
  {
    --nshadow;
#if defined(__SANITIZE_ADDRESS__)
    /* the freed chunk (LIFO: the most recent one) becomes inaccessible until it is handed out again */
    ASAN_POISON_MEMORY_REGION(shadow[nshadow].ptr, shadow[nshadow].size);
#endif
    if (p != shadow[nshadow].ptr)
      input_modified |= 2;   /* freed out of order */
  }
  trace_event(2, 0, CMRgetStackUsage(cmr));
  return e;
}

static bool read_case(FILE* f)
{
  static char* line = NULL;
  static size_t cap = 0;
  ssize_t len;
  do
  {
    len = getline(&line, &cap, f);
    if (len < 0)
      return false;
  } while (len <= 1);
  ntok = 0;
  ptok = 0;
  char* p = line;
  while (*p)
  {
    while (*p == ' ' || *p == '\n' || *p == '\t' || *p == '\r')
      ++p;
    if (!*p)
      break;
    char* e;
    long long v = strtoll(p, &e, 10);
    if (e == p)
    {
      fprintf(stderr, "drive: bad token in case line\n");
      exit(3);
    }
    if (ntok == memtok)
    {
      memtok = memtok ? 2 * memtok : 1024;
      tok = realloc(tok, memtok * sizeof(long long));
    }
    tok[ntok++] = v;
    p = e;
  }
  return true;
}

static long long nx(void)
{
  if (ptok >= ntok)
  {
    fprintf(stderr, "drive: case line too short\n");
    exit(3);
  }
  return tok[ptok++];
}

static bool more(void)
{
  return ptok < ntok;
}

/* ---------- record output ---------- */
static void oi(long long x)
{
  fprintf(OUT, " %lld", x);
}

static void osz(size_t x)
{
  if (x == SIZE_MAX)
    fprintf(OUT, " -1");
  else
    fprintf(OUT, " %zu", x);
}

static void rec_begin(void)
{
  fprintf(OUT, "R");
}

static void rec_end(void)
{
  fprintf(OUT, "\n");
  fflush(OUT);
}

static void die_on(CMR_ERROR e, const char* what)
{
  if (e)
  {
    fprintf(stderr, "drive: internal error %d in %s\n", (int) e, what);
    exit(4);
  }
}

/* ---------- C19: input matrices must not be modified ----------
 * every matrix built from a case line is registered with a deep copy; when the handler releases it (CMRchrmatFree is
 * routed through checked_chrmat_free below) it is compared bitwise with that copy. */
typedef struct
{
  CMR_CHRMAT* mat;
  size_t numRows, numColumns, numNonzeros;
  size_t* rowSlice;
  size_t* entryColumns;
  char* entryValues;
} SNAP;
#define MAX_SNAP 16
static __thread SNAP snaps[MAX_SNAP];
static __thread size_t nsnaps = 0;

static void snap_fill(SNAP* sn, CMR_CHRMAT* mat)
{
  sn->mat = mat;
  sn->numRows = mat->numRows;
  sn->numColumns = mat->numColumns;
  sn->numNonzeros = mat->numNonzeros;
  sn->rowSlice = malloc((mat->numRows + 1) * sizeof(size_t));
  memcpy(sn->rowSlice, mat->rowSlice, (mat->numRows + 1) * sizeof(size_t));
  sn->entryColumns = malloc((mat->numNonzeros + 1) * sizeof(size_t));
  sn->entryValues = malloc(mat->numNonzeros + 1);
  if (mat->numNonzeros)
  {
    memcpy(sn->entryColumns, mat->entryColumns, mat->numNonzeros * sizeof(size_t));
    memcpy(sn->entryValues, mat->entryValues, mat->numNonzeros);
  }
}

static void snap_release(SNAP* sn)
{
  free(sn->rowSlice);
  free(sn->entryColumns);
  free(sn->entryValues);
  sn->mat = NULL;
}

static void snap_chrmat(CMR_CHRMAT* mat)
{
  if (nsnaps < MAX_SNAP)
    snap_fill(&snaps[nsnaps++], mat);
}

/* the documented in-place signing was applied: take a new snapshot */
static void resnap_chrmat(CMR_CHRMAT* mat)
{
  for (size_t i = 0; i < nsnaps; ++i)
    if (snaps[i].mat == mat)
    {
      snap_release(&snaps[i]);
      snap_fill(&snaps[i], mat);
    }
}

static CMR_ERROR checked_chrmat_free(CMR* cmr, CMR_CHRMAT** pmat)
{
  if (pmat && *pmat)
    for (size_t i = 0; i < nsnaps; ++i)
      if (snaps[i].mat == *pmat)
      {
        CMR_CHRMAT* mat = *pmat;
        SNAP* sn = &snaps[i];
        if (mat->numRows != sn->numRows || mat->numColumns != sn->numColumns || mat->numNonzeros != sn->numNonzeros
          || memcmp(mat->rowSlice, sn->rowSlice, (sn->numRows + 1) * sizeof(size_t))
          || (sn->numNonzeros && (memcmp(mat->entryColumns, sn->entryColumns, sn->numNonzeros * sizeof(size_t))
            || memcmp(mat->entryValues, sn->entryValues, sn->numNonzeros))))
          input_modified |= 1;
        snap_release(sn);
        snaps[i] = snaps[--nsnaps];
        break;
      }
  return CMRchrmatFree(cmr, pmat);
}

/* dense input "m n e11 ... emn" -> CMR_CHRMAT (entries are stored as given, truncated to char by the caller's choice) */
static CMR_CHRMAT* read_chrmat(CMR* cmr)
{
  size_t m = nx(), n = nx();
  size_t start = ptok;
  size_t nnz = 0;
  for (size_t i = 0; i < m * n; ++i)
    if (nx() != 0)
      ++nnz;
  CMR_CHRMAT* mat = NULL;
  die_on(CMRchrmatCreate(cmr, &mat, m, n, nnz), "CMRchrmatCreate");
  size_t e = 0;
  for (size_t r = 0; r < m; ++r)
  {
    mat->rowSlice[r] = e;
    for (size_t c = 0; c < n; ++c)
    {
      long long v = tok[start + r * n + c];
      if (v != 0)
      {
        mat->entryColumns[e] = c;
        mat->entryValues[e] = (char) v;
        ++e;
      }
    }
  }
  mat->rowSlice[m] = e;
  snap_chrmat(mat);
  return mat;
}

#define CMRchrmatFree(cmr, pmat) checked_chrmat_free(cmr, pmat)

static CMR_INTMAT* read_intmat(CMR* cmr)
{
  size_t m = nx(), n = nx();
  size_t start = ptok;
  size_t nnz = 0;
  for (size_t i = 0; i < m * n; ++i)
    if (nx() != 0)
      ++nnz;
  CMR_INTMAT* mat = NULL;
  die_on(CMRintmatCreate(cmr, &mat, m, n, nnz), "CMRintmatCreate");
  size_t e = 0;
  for (size_t r = 0; r < m; ++r)
  {
    mat->rowSlice[r] = e;
    for (size_t c = 0; c < n; ++c)
    {
      long long v = tok[start + r * n + c];
      if (v != 0)
      {
        mat->entryColumns[e] = c;
        mat->entryValues[e] = (int) v;
        ++e;
      }
    }
  }
  mat->rowSlice[m] = e;
  return mat;
}

/* echo a matrix densely, as the library's structure holds it */
static void o_chr_dense(CMR_CHRMAT* mat)
{
  osz(mat->numRows);
  osz(mat->numColumns);
  for (size_t r = 0; r < mat->numRows; ++r)
  {
    size_t e = mat->rowSlice[r], b = mat->rowSlice[r + 1];
    for (size_t c = 0; c < mat->numColumns; ++c)
    {
      if (e < b && mat->entryColumns[e] == c)
        oi(mat->entryValues[e++]);
      else
        oi(0);
    }
  }
}

static void o_int_dense(CMR_INTMAT* mat)
{
  osz(mat->numRows);
  osz(mat->numColumns);
  for (size_t r = 0; r < mat->numRows; ++r)
  {
    size_t e = mat->rowSlice[r], b = mat->rowSlice[r + 1];
    for (size_t c = 0; c < mat->numColumns; ++c)
    {
      if (e < b && mat->entryColumns[e] == c)
        oi(mat->entryValues[e++]);
      else
        oi(0);
    }
  }
}

/* raw CSR arrays: rows cols nnz slice[0..rows] cols[..] vals[..] (nnz is taken from rowSlice[numRows],
 * which is what every consumer in the library uses; numNonzeros is printed by o_chr_csr_nnz) */
static void o_chr_csr(CMR_CHRMAT* mat)
{
  osz(mat->numRows);
  osz(mat->numColumns);
  osz(mat->numNonzeros);
  for (size_t r = 0; r <= mat->numRows; ++r)
    osz(mat->rowSlice[r]);
  for (size_t e = 0; e < mat->numNonzeros; ++e)
    osz(mat->entryColumns[e]);
  for (size_t e = 0; e < mat->numNonzeros; ++e)
    oi(mat->entryValues[e]);
}

static void o_int_csr(CMR_INTMAT* mat)
{
  osz(mat->numRows);
  osz(mat->numColumns);
  osz(mat->numNonzeros);
  for (size_t r = 0; r <= mat->numRows; ++r)
    osz(mat->rowSlice[r]);
  for (size_t e = 0; e < mat->numNonzeros; ++e)
    osz(mat->entryColumns[e]);
  for (size_t e = 0; e < mat->numNonzeros; ++e)
    oi(mat->entryValues[e]);
}

static void o_submat(CMR_SUBMAT* s)
{
  osz(s->numRows);
  for (size_t i = 0; i < s->numRows; ++i)
    osz(s->rows[i]);
  osz(s->numColumns);
  for (size_t i = 0; i < s->numColumns; ++i)
    osz(s->columns[i]);
}

/* echo all remaining tokens of the case line (witness data for the judge) */
static void o_rest(void)
{
  while (more())
    oi(nx());
}

static size_t opt_index(long long v)
{
  return v < 0 ? SIZE_MAX : (size_t) v;
}

/* ---------- C15: complement ---------- */

/* case: M r c      record: M r c rc [result csr] */
static void do_ctu_compl(CMR* cmr)
{
  CMR_CHRMAT* M = read_chrmat(cmr);
  long long r = nx(), c = nx();
  CMR_CHRMAT* result = NULL;
  CMR_ERROR rc = CMRctuComplementRowColumn(cmr, M, opt_index(r), opt_index(c), &result);
  rec_begin();
  o_chr_dense(M);
  oi(r);
  oi(c);
  oi(rc);
  if (!rc && result)
    o_chr_csr(result);
  rec_end();
  if (result)
    CMRchrmatFree(cmr, &result);
  CMRchrmatFree(cmr, &M);
}

/* case: M     record: M rc verdict r c */
static void do_ctu_test(CMR* cmr)
{
  CMR_CHRMAT* M = read_chrmat(cmr);
  bool isCTU = false;
  size_t r = SIZE_MAX - 1, c = SIZE_MAX - 1;
  CMR_ERROR rc = CMRctuTest(cmr, M, &isCTU, &r, &c, NULL, NULL, TL);
  note_rc(rc, 0);
  rec_begin();
  o_chr_dense(M);
  oi(rc);
  oi(isCTU ? 1 : 0);
  /* "none" is documented as SIZE_MAX; the implementation stores its loop index (numRows / numColumns).
   * Both are mapped to -1; anything else out of range is passed through and rejected by the judge. */
  if (r == M->numRows)
    r = SIZE_MAX;
  if (c == M->numColumns)
    c = SIZE_MAX;
  if (r == SIZE_MAX - 1)
    oi(isCTU ? -1 : -2);
  else
    osz(r);
  if (c == SIZE_MAX - 1)
    oi(isCTU ? -1 : -2);
  else
    osz(c);
  rec_end();
  CMRchrmatFree(cmr, &M);
}

/* ---------- C01 / C07: total unimodularity ---------- */

#define NCFG 17
/* cfg: algorithm ternary camionFirst naiveSubmatrix | stopWhenIrregular stopWhenNongraphic stopWhenNoncographic
 *      stopWhenNeitherGraphicNorCoGraphic seriesParallel planarityCheck directGraphicness preferGraphicness
 *      decomposeStrategy constructLeafGraphs constructAllGraphs | wantSubmatrix wantTree */
static __thread long long cfg[NCFG];

static void read_cfg(void)
{
  for (int i = 0; i < NCFG; ++i)
    cfg[i] = nx();
}

static void o_cfg(void)
{
  oi(NCFG);
  for (int i = 0; i < NCFG; ++i)
    oi(cfg[i]);
}

static void seymour_params_from_cfg(CMR_SEYMOUR_PARAMS* sp)
{
  CMRseymourParamsInit(sp);
  sp->stopWhenIrregular = cfg[4];
  sp->stopWhenNongraphic = cfg[5];
  sp->stopWhenNoncographic = cfg[6];
  sp->stopWhenNeitherGraphicNorCoGraphic = cfg[7];
  sp->seriesParallel = cfg[8];
  sp->planarityCheck = cfg[9];
  sp->directGraphicness = cfg[10];
  sp->preferGraphicness = cfg[11];
  sp->decomposeStrategy = (int) cfg[12];
  sp->constructLeafGraphs = cfg[13];
  sp->constructAllGraphs = cfg[14];
}

static void tu_params_from_cfg(CMR_TU_PARAMS* params)
{
  CMRtuParamsInit(params);
  params->algorithm = (CMR_TU_ALGORITHM) cfg[0];
  params->ternary = cfg[1];
  params->camionFirst = cfg[2];
  params->naiveSubmatrix = cfg[3];
  seymour_params_from_cfg(&params->seymour);
}

/* case: cfg M     record: ncfg cfg M rc verdict(0/1, 2 = not written) hasSub [submatrix] */
static __thread bool tu_presign = false;

static __thread bool tu_echo_rest = false;
static void do_tu(CMR* cmr)
{
  read_cfg();
  CMR_CHRMAT* M = read_chrmat(cmr);
  if (tu_presign)
  {
    /* api tu_signed: the input is replaced by its Camion signing first (the record echoes the signed matrix) */
    bool was;
    die_on(CMRcamionComputeSigns(cmr, M, &was, NULL, NULL, DBL_MAX), "CMRcamionComputeSigns");
    resnap_chrmat(M);
  }
  CMR_TU_PARAMS params;
  memset(&params, 0, sizeof(params));   /* padding bytes defined: the struct is compared bytewise */
  tu_params_from_cfg(&params);
  unsigned char flag = 2;
  CMR_SUBMAT* sub = NULL;
  params_guard_begin(&params, sizeof(params));
  CMR_ERROR rc = CMRtuTest(cmr, M, (bool*) &flag, NULL, cfg[15] ? &sub : NULL, &params, NULL, TL);
  params_guard_end();
  note_rc(rc, 1, sub);
  rec_begin();
  o_cfg();
  o_chr_dense(M);
  oi(rc);
  oi(flag);
  oi(sub ? 1 : 0);
  if (sub)
    o_submat(sub);
  if (tu_echo_rest)
    o_rest();       /* api tu_net: the generator's witness (a digraph certificate) is echoed for the judge */
  rec_end();
  if (sub)
    CMRsubmatFree(cmr, &sub);
  CMRchrmatFree(cmr, &M);
}

static void do_tu_net(CMR* cmr)
{
  tu_echo_rest = true;
  do_tu(cmr);
  tu_echo_rest = false;
}

static void do_tu_signed(CMR* cmr)
{
  tu_presign = true;
  do_tu(cmr);
  tu_presign = false;
}

/* ---------- C02: regularity ---------- */

/* case: cfg M     record: ncfg cfg M rc verdict(0/1/2) */
static __thread bool regular_echo_rest = false;
static void do_regular(CMR* cmr)
{
  read_cfg();
  CMR_CHRMAT* M = read_chrmat(cmr);
  CMR_REGULAR_PARAMS params;
  memset(&params, 0, sizeof(params));   /* padding bytes defined: the struct is compared bytewise */
  CMRregularParamsInit(&params);
  seymour_params_from_cfg(&params.seymour);
  unsigned char flag = 2;
  params_guard_begin(&params, sizeof(params));
  CMR_ERROR rc = CMRregularTest(cmr, M, (bool*) &flag, NULL, NULL, &params, NULL, TL);
  params_guard_end();
  note_rc(rc, 0);
  rec_begin();
  o_cfg();
  o_chr_dense(M);
  oi(rc);
  oi(flag);
  if (regular_echo_rest)
    o_rest();       /* api regular_cert: orientation flag and the generator's graph witness, echoed for the judge */
  rec_end();
  CMRchrmatFree(cmr, &M);
}

static void do_regular_cert(CMR* cmr)
{
  regular_echo_rest = true;
  do_regular(cmr);
  regular_echo_rest = false;
}

/* ---------- C13: pivots ---------- */

static CMR_ERROR pivots_call(CMR* cmr, long long q, CMR_CHRMAT* M, size_t np, size_t* pr, size_t* pc, CMR_SUBMAT** pviol,
  CMR_CHRMAT** pres)
{
  if (q == 2)
    return np == 1 ? CMRchrmatBinaryPivot(cmr, M, pr[0], pc[0], pres) : CMRchrmatBinaryPivots(cmr, M, np, pr, pc, pres);
  if (q == 3)
    return np == 1 ? CMRchrmatTernaryPivot(cmr, M, pr[0], pc[0], pres) : CMRchrmatTernaryPivots(cmr, M, np, pr, pc, pres);
  return np == 1 ? CMRchrmatRegularPivot(cmr, M, pr[0], pc[0], pviol, pres)
    : CMRchrmatRegularPivots(cmr, M, np, pr, pc, pviol, pres);
}

static void o_pivot_result(CMR_ERROR rc, CMR_CHRMAT* res, CMR_SUBMAT* viol)
{
  oi(rc);
  oi(res ? 1 : 0);
  if (res)
    o_chr_csr(res);
  oi(viol ? 1 : 0);
  if (viol)
    o_submat(viol);
}

/* case: q M np rows.. np cols..    record: q M np rows np cols | rc hasRes [csr] hasViol [sub] | (one-by-one) rc hasRes [csr] hasViol [sub] */
static void do_pivot(CMR* cmr)
{
  long long q = nx();
  CMR_CHRMAT* M = read_chrmat(cmr);
  size_t np = nx();
  size_t* pr = malloc((np + 1) * sizeof(size_t));
  size_t* pc = malloc((np + 1) * sizeof(size_t));
  for (size_t i = 0; i < np; ++i)
    pr[i] = nx();
  size_t np2 = nx();
  for (size_t i = 0; i < np2 && i < np; ++i)
    pc[i] = nx();
  CMR_CHRMAT* res = NULL;
  CMR_SUBMAT* viol = NULL;
  CMR_ERROR rc = np ? pivots_call(cmr, q, M, np, pr, pc, &viol, &res) : CMR_OKAY;
  if (!np)
    CMRchrmatCopy(cmr, M, &res);
  rec_begin();
  oi(q);
  o_chr_dense(M);
  osz(np);
  for (size_t i = 0; i < np; ++i)
    osz(pr[i]);
  osz(np);
  for (size_t i = 0; i < np; ++i)
    osz(pc[i]);
  o_pivot_result(rc, rc ? NULL : res, rc ? NULL : viol);
  if (res)
    CMRchrmatFree(cmr, &res);
  if (viol)
    CMRsubmatFree(cmr, &viol);

  /* the same pivots one at a time */
  CMR_CHRMAT* cur = NULL;
  CMRchrmatCopy(cmr, M, &cur);
  CMR_ERROR rc1 = CMR_OKAY;
  CMR_SUBMAT* viol1 = NULL;
  for (size_t i = 0; i < np && !rc1 && cur; ++i)
  {
    CMR_CHRMAT* next = NULL;
    rc1 = pivots_call(cmr, q, cur, 1, &pr[i], &pc[i], &viol1, &next);
    CMRchrmatFree(cmr, &cur);
    cur = rc1 ? NULL : next;
    if (rc1 && next)
      CMRchrmatFree(cmr, &next);
  }
  o_pivot_result(rc1, rc1 ? NULL : cur, rc1 ? NULL : viol1);
  rec_end();
  if (cur)
    CMRchrmatFree(cmr, &cur);
  if (viol1)
    CMRsubmatFree(cmr, &viol1);
  free(pr);
  free(pc);
  CMRchrmatFree(cmr, &M);
}

/* ---------- C08: series-parallel ---------- */

static void o_opt_submat(CMR_SUBMAT* s)
{
  oi(s ? 1 : 0);
  if (s)
    o_submat(s);
}

/* case: ternary api maxRed wantVerdict wantReds wantReduced wantViolator wantSepa preCount M
 * record: the 8 request ints, M, rc, verdict(0/1/2), numReds(-1 SIZE_MAX, -2 not requested), k pairs.., reduced, violator, sepa
 * preCount: value stored in the caller's reduction counter before the call (stale-counter probe). */
static void do_sp(CMR* cmr)
{
  long long tern = nx(), api = nx(), maxred = nx(), wv = nx(), wr = nx(), wd = nx(), wviol = nx(), ws = nx(), pre = nx();
  CMR_CHRMAT* M = read_chrmat(cmr);
  unsigned char flag = 2;
  size_t numReds = (size_t) pre;
  CMR_SP_REDUCTION* reds = NULL;
  if (wr)
    reds = malloc((M->numRows + M->numColumns + 1) * sizeof(CMR_SP_REDUCTION));
  CMR_SUBMAT* reduced = NULL;
  CMR_SUBMAT* viol = NULL;
  CMR_SEPA* sepa = NULL;
  CMR_ERROR rc;
  size_t mr = maxred < 0 ? SIZE_MAX : (size_t) maxred;
  if (api == 0)
  {
    if (tern)
      rc = CMRspTestTernary(cmr, M, wv ? (bool*) &flag : NULL, reds, wr ? &numReds : NULL, wd ? &reduced : NULL,
        wviol ? &viol : NULL, NULL, TL);
    else
      rc = CMRspTestBinary(cmr, M, wv ? (bool*) &flag : NULL, reds, wr ? &numReds : NULL, wd ? &reduced : NULL,
        wviol ? &viol : NULL, NULL, TL);
  }
  else
  {
    if (tern)
      rc = CMRspDecomposeTernary(cmr, M, wv ? (bool*) &flag : NULL, reds, mr, wr ? &numReds : NULL, wd ? &reduced : NULL,
        wviol ? &viol : NULL, ws ? &sepa : NULL, NULL, TL);
    else
      rc = CMRspDecomposeBinary(cmr, M, wv ? (bool*) &flag : NULL, reds, mr, wr ? &numReds : NULL, wd ? &reduced : NULL,
        wviol ? &viol : NULL, ws ? &sepa : NULL, NULL, TL);
  }
  note_rc(rc, 3, reduced, viol, sepa);
  rec_begin();
  oi(tern); oi(api); oi(maxred); oi(wv); oi(wr); oi(wd); oi(wviol); oi(ws);
  o_chr_dense(M);
  oi(rc);
  oi(flag);
  if (!wr)
  {
    oi(-2);
    oi(0);
  }
  else if (numReds == SIZE_MAX)
  {
    /* the count is not reported; the array holds at most maxRed valid entries */
    oi(-1);
    size_t k = (maxred < 0) ? 0 : (size_t) maxred;
    if (k > M->numRows + M->numColumns)
      k = M->numRows + M->numColumns;
    osz(k);
    for (size_t i = 0; i < k; ++i)
    {
      oi(reds[i].element);
      oi(reds[i].mate);
    }
  }
  else
  {
    size_t k = numReds;
    if (k > M->numRows + M->numColumns)
      k = M->numRows + M->numColumns + 1; /* nonsense count: make the record fail to decode */
    osz(numReds);
    osz(k);
    for (size_t i = 0; i < k && i < M->numRows + M->numColumns; ++i)
    {
      oi(reds[i].element);
      oi(reds[i].mate);
    }
  }
  o_opt_submat(rc ? NULL : reduced);
  o_opt_submat(rc ? NULL : viol);
  if (!rc && sepa)
  {
    oi(1);
    osz(sepa->numRows);
    for (size_t i = 0; i < sepa->numRows; ++i)
      oi(sepa->rowsFlags[i]);
    osz(sepa->numColumns);
    for (size_t i = 0; i < sepa->numColumns; ++i)
      oi(sepa->columnsFlags[i]);
    oi(sepa->type);
  }
  else
    oi(0);
  rec_end();
  if (reduced)
    CMRsubmatFree(cmr, &reduced);
  if (viol)
    CMRsubmatFree(cmr, &viol);
  if (sepa)
    CMRsepaFree(cmr, &sepa);
  free(reds);
  CMRchrmatFree(cmr, &M);
}

/* ---------- C17: balanced ---------- */

/* case: algorithm seriesParallel wantSub M   record: same + rc verdict(0/1/2) hasSub [sub] */
static __thread bool balanced_echo_rest = false;
static void do_balanced(CMR* cmr)
{
  long long alg = nx(), sp = nx(), ws = nx();
  CMR_CHRMAT* M = read_chrmat(cmr);
  CMR_BALANCED_PARAMS params;
  memset(&params, 0, sizeof(params));   /* padding bytes defined: the struct is compared bytewise */
  CMRbalancedParamsInit(&params);
  params.algorithm = (CMR_BALANCED_ALGORITHM) alg;
  params.seriesParallel = sp;
  unsigned char flag = 2;
  CMR_SUBMAT* sub = NULL;
  params_guard_begin(&params, sizeof(params));
  CMR_ERROR rc = CMRbalancedTest(cmr, M, (bool*) &flag, ws ? &sub : NULL, &params, NULL, TL);
  params_guard_end();
  note_rc(rc, 1, sub);
  rec_begin();
  oi(alg); oi(sp); oi(ws);
  o_chr_dense(M);
  oi(rc);
  oi(flag);
  o_opt_submat(rc ? NULL : sub);
  if (balanced_echo_rest)
    o_rest();       /* api balanced_cert: the generator's witness (a digraph certificate or none) is echoed for the judge */
  rec_end();
  if (sub)
    CMRsubmatFree(cmr, &sub);
  CMRchrmatFree(cmr, &M);
}

static void do_balanced_cert(CMR* cmr)
{
  balanced_echo_rest = true;
  do_balanced(cmr);
  balanced_echo_rest = false;
}

/* ---------- C05 / C06 / C14: graphs ---------- */

/* graph dump: nv nodes..  ne (id u v).. */
static void o_graph(CMR_GRAPH* g)
{
  size_t nv = 0;
  for (CMR_GRAPH_NODE v = CMRgraphNodesFirst(g); CMRgraphNodesValid(g, v); v = CMRgraphNodesNext(g, v))
    ++nv;
  osz(nv);
  for (CMR_GRAPH_NODE v = CMRgraphNodesFirst(g); CMRgraphNodesValid(g, v); v = CMRgraphNodesNext(g, v))
    oi(v);
  size_t ne = 0;
  for (CMR_GRAPH_ITER i = CMRgraphEdgesFirst(g); CMRgraphEdgesValid(g, i); i = CMRgraphEdgesNext(g, i))
    ++ne;
  osz(ne);
  for (CMR_GRAPH_ITER i = CMRgraphEdgesFirst(g); CMRgraphEdgesValid(g, i); i = CMRgraphEdgesNext(g, i))
  {
    CMR_GRAPH_EDGE e = CMRgraphEdgesEdge(g, i);
    oi(e);
    oi(CMRgraphEdgeU(g, e));
    oi(CMRgraphEdgeV(g, e));
  }
}

/* case: transposed M     record: transposed M rc verdict hasGraph [graph, m forest.., n coforest..] */
static void do_graphic(CMR* cmr)
{
  long long tr = nx();
  CMR_CHRMAT* M = read_chrmat(cmr);
  unsigned char flag = 2;
  CMR_GRAPH* g = NULL;
  CMR_GRAPH_EDGE* forest = NULL;
  CMR_GRAPH_EDGE* coforest = NULL;
  CMR_ERROR rc;
  if (tr)
    rc = CMRgraphicTestTranspose(cmr, M, (bool*) &flag, &g, &forest, &coforest, NULL, NULL, TL);
  else
    rc = CMRgraphicTestMatrix(cmr, M, (bool*) &flag, &g, &forest, &coforest, NULL, NULL, TL);
  note_rc(rc, 3, g, forest, coforest);
  rec_begin();
  oi(tr);
  o_chr_dense(M);
  oi(rc);
  oi(flag);
  if (!rc && g && forest && coforest)
  {
    /* for the transposed call the forest is indexed by the columns of M and the coforest by its rows */
    size_t nf = tr ? M->numColumns : M->numRows;
    size_t nc = tr ? M->numRows : M->numColumns;
    oi(1);
    o_graph(g);
    osz(nf);
    for (size_t i = 0; i < nf; ++i)
      oi(forest[i]);
    osz(nc);
    for (size_t i = 0; i < nc; ++i)
      oi(coforest[i]);
  }
  else
    oi(0);
  o_rest();
  rec_end();
  if (g)
    CMRgraphFree(cmr, &g);
  if (forest)
    CMRfreeBlockArray(cmr, &forest);
  if (coforest)
    CMRfreeBlockArray(cmr, &coforest);
  CMRchrmatFree(cmr, &M);
}

/* case: transposed M    record: transposed M rc verdict supportGraphic hasGraph [graph forest coforest nrev revIds] hasSub [sub] */
static void do_network(CMR* cmr)
{
  long long tr = nx();
  CMR_CHRMAT* M = read_chrmat(cmr);
  unsigned char flag = 2, sflag = 2;
  CMR_GRAPH* g = NULL;
  CMR_GRAPH_EDGE* forest = NULL;
  CMR_GRAPH_EDGE* coforest = NULL;
  bool* reversed = NULL;
  CMR_SUBMAT* sub = NULL;
  CMR_ERROR rc;
  if (tr)
    rc = CMRnetworkTestTranspose(cmr, M, (bool*) &flag, (bool*) &sflag, &g, &forest, &coforest, &reversed, &sub, NULL, TL);
  else
    rc = CMRnetworkTestMatrix(cmr, M, (bool*) &flag, (bool*) &sflag, &g, &forest, &coforest, &reversed, &sub, NULL, TL);
  note_rc(rc, 5, g, forest, coforest, reversed, sub);
  rec_begin();
  oi(tr);
  o_chr_dense(M);
  oi(rc);
  oi(flag);
  oi(sflag);
  if (!rc && g && forest && coforest && reversed)
  {
    size_t nf = tr ? M->numColumns : M->numRows;
    size_t nc = tr ? M->numRows : M->numColumns;
    oi(1);
    o_graph(g);
    osz(nf);
    for (size_t i = 0; i < nf; ++i)
      oi(forest[i]);
    osz(nc);
    for (size_t i = 0; i < nc; ++i)
      oi(coforest[i]);
    size_t nrev = 0;
    for (CMR_GRAPH_ITER i = CMRgraphEdgesFirst(g); CMRgraphEdgesValid(g, i); i = CMRgraphEdgesNext(g, i))
      if (reversed[CMRgraphEdgesEdge(g, i)])
        ++nrev;
    osz(nrev);
    for (CMR_GRAPH_ITER i = CMRgraphEdgesFirst(g); CMRgraphEdgesValid(g, i); i = CMRgraphEdgesNext(g, i))
      if (reversed[CMRgraphEdgesEdge(g, i)])
        oi(CMRgraphEdgesEdge(g, i));
  }
  else
    oi(0);
  o_opt_submat(rc ? NULL : sub);
  o_rest();
  rec_end();
  if (g)
    CMRgraphFree(cmr, &g);
  if (forest)
    CMRfreeBlockArray(cmr, &forest);
  if (coforest)
    CMRfreeBlockArray(cmr, &coforest);
  if (reversed)
    CMRfreeBlockArray(cmr, &reversed);
  if (sub)
    CMRsubmatFree(cmr, &sub);
  CMRchrmatFree(cmr, &M);
}

/* case: signed nv ne (u v)*ne  nrev (edge index)*  hasForest [k idx..] hasCoforest [k idx..]
 * nodes are 0..nv-1, edges are numbered in input order; the graph is built with CMRgraphAddNode/AddEdge and the
 * record uses the identifiers the library assigned.
 * record: signed graph nrev revIds hasForest [k ids] hasCoforest [k ids] rc correctForest hasM [csr] hasMt [csr] */
static void repmat_common(CMR* cmr, bool roundtrip)
{
  long long sgn = nx();
  size_t nv = nx(), ne = nx();
  CMR_GRAPH* g = NULL;
  die_on(CMRgraphCreateEmpty(cmr, &g, nv ? nv : 1, ne ? ne : 1), "CMRgraphCreateEmpty");
  CMR_GRAPH_NODE* nodes = malloc((nv + 1) * sizeof(CMR_GRAPH_NODE));
  CMR_GRAPH_EDGE* edges = malloc((ne + 1) * sizeof(CMR_GRAPH_EDGE));
  for (size_t v = 0; v < nv; ++v)
    die_on(CMRgraphAddNode(cmr, g, &nodes[v]), "CMRgraphAddNode");
  int maxEdge = -1;
  for (size_t e = 0; e < ne; ++e)
  {
    size_t u = nx(), v = nx();
    die_on(CMRgraphAddEdge(cmr, g, nodes[u], nodes[v], &edges[e]), "CMRgraphAddEdge");
    if (edges[e] > maxEdge)
      maxEdge = edges[e];
  }
  size_t nrev = nx();
  bool* reversed = calloc(maxEdge + 2, sizeof(bool));
  size_t* revIdx = malloc((nrev + 1) * sizeof(size_t));
  for (size_t i = 0; i < nrev; ++i)
  {
    revIdx[i] = nx();
    reversed[edges[revIdx[i]]] = true;
  }
  long long hasF = nx();
  size_t kf = 0;
  CMR_GRAPH_EDGE* forest = NULL;
  if (hasF)
  {
    kf = nx();
    forest = malloc((kf + 1) * sizeof(CMR_GRAPH_EDGE));
    for (size_t i = 0; i < kf; ++i)
      forest[i] = edges[nx()];
  }
  long long hasC = nx();
  size_t kc = 0;
  CMR_GRAPH_EDGE* coforest = NULL;
  if (hasC)
  {
    kc = nx();
    coforest = malloc((kc + 1) * sizeof(CMR_GRAPH_EDGE));
    for (size_t i = 0; i < kc; ++i)
      coforest[i] = edges[nx()];
  }
  CMR_CHRMAT* M = NULL;
  CMR_CHRMAT* Mt = NULL;
  unsigned char cf = 2;
  CMR_ERROR rc;
  if (sgn)
    rc = CMRnetworkComputeMatrix(cmr, g, &M, &Mt, reversed, kf, forest, kc, coforest, (bool*) &cf);
  else
    rc = CMRgraphicComputeMatrix(cmr, g, &M, &Mt, kf, forest, kc, coforest, (bool*) &cf);
  if (roundtrip)
  {
    /* C14: the constructed matrix goes through recognition and the returned graph through construction again
     * record: signed rc correctForest hasM [csr M] rc2 verdict rc3 hasM2 [csr M2] */
    unsigned char flag = 2, sflag = 2;
    CMR_GRAPH* g2 = NULL;
    CMR_GRAPH_EDGE* f2 = NULL;
    CMR_GRAPH_EDGE* c2 = NULL;
    bool* r2 = NULL;
    CMR_CHRMAT* M2 = NULL;
    CMR_ERROR rc2 = CMR_OKAY, rc3 = CMR_OKAY;
    if (!rc && M)
    {
      if (sgn)
        rc2 = CMRnetworkTestMatrix(cmr, M, (bool*) &flag, (bool*) &sflag, &g2, &f2, &c2, &r2, NULL, NULL, TL);
      else
        rc2 = CMRgraphicTestMatrix(cmr, M, (bool*) &flag, &g2, &f2, &c2, NULL, NULL, TL);
      if (!rc2 && flag == 1 && g2)
      {
        if (sgn)
          rc3 = CMRnetworkComputeMatrix(cmr, g2, &M2, NULL, r2, M->numRows, f2, M->numColumns, c2, NULL);
        else
          rc3 = CMRgraphicComputeMatrix(cmr, g2, &M2, NULL, M->numRows, f2, M->numColumns, c2, NULL);
      }
    }
    rec_begin();
    oi(sgn);
    oi(rc);
    oi(cf);
    oi((!rc && M) ? 1 : 0);
    if (!rc && M)
      o_chr_csr(M);
    oi(rc2);
    oi(flag);
    oi(rc3);
    oi((!rc3 && M2) ? 1 : 0);
    if (!rc3 && M2)
      o_chr_csr(M2);
    rec_end();
    if (M2)
      CMRchrmatFree(cmr, &M2);
    if (g2)
      CMRgraphFree(cmr, &g2);
    if (f2)
      CMRfreeBlockArray(cmr, &f2);
    if (c2)
      CMRfreeBlockArray(cmr, &c2);
    if (r2)
      CMRfreeBlockArray(cmr, &r2);
    if (M)
      CMRchrmatFree(cmr, &M);
    if (Mt)
      CMRchrmatFree(cmr, &Mt);
    free(nodes); free(edges); free(reversed); free(revIdx); free(forest); free(coforest);
    CMRgraphFree(cmr, &g);
    return;
  }
  rec_begin();
  oi(sgn);
  o_graph(g);
  osz(nrev);
  for (size_t i = 0; i < nrev; ++i)
    oi(edges[revIdx[i]]);
  oi(hasF ? 1 : 0);
  if (hasF)
  {
    osz(kf);
    for (size_t i = 0; i < kf; ++i)
      oi(forest[i]);
  }
  oi(hasC ? 1 : 0);
  if (hasC)
  {
    osz(kc);
    for (size_t i = 0; i < kc; ++i)
      oi(coforest[i]);
  }
  oi(rc);
  oi(cf);
  oi((!rc && M) ? 1 : 0);
  if (!rc && M)
    o_chr_csr(M);
  oi((!rc && Mt) ? 1 : 0);
  if (!rc && Mt)
    o_chr_csr(Mt);
  rec_end();
  if (M)
    CMRchrmatFree(cmr, &M);
  if (Mt)
    CMRchrmatFree(cmr, &Mt);
  free(nodes); free(edges); free(reversed); free(revIdx); free(forest); free(coforest);
  CMRgraphFree(cmr, &g);
}

static void do_repmat(CMR* cmr) { repmat_common(cmr, false); }
static void do_reprt(CMR* cmr) { repmat_common(cmr, true); }

/* ---------- C09: Camion signing ---------- */

/* case: M   record: see CamionModel.judge_camion */
static __thread bool camion_echo_rest = false;
static void do_camion(CMR* cmr)
{
  CMR_CHRMAT* M = read_chrmat(cmr);
  rec_begin();
  o_chr_dense(M);
  unsigned char v = 2;
  CMR_SUBMAT* viol = NULL;
  CMR_ERROR rc = CMRcamionTestSigns(cmr, M, (bool*) &v, &viol, NULL, TL);
  note_rc(rc, 1, viol);
  oi(rc); oi(v); o_opt_submat(rc ? NULL : viol);
  if (viol)
    CMRsubmatFree(cmr, &viol);
  CMR_CHRMAT* S = NULL;
  CMRchrmatCopy(cmr, M, &S);
  unsigned char was = 2;
  rc = CMRcamionComputeSigns(cmr, S, (bool*) &was, &viol, NULL, TL);
  note_rc(rc, 1, viol);
  oi(rc); oi(was);
  oi(rc ? 0 : 1);
  if (!rc)
    o_chr_csr(S);
  o_opt_submat(rc ? NULL : viol);
  if (viol)
    CMRsubmatFree(cmr, &viol);
  unsigned char v2 = 2;
  rc = CMRcamionTestSigns(cmr, S, (bool*) &v2, NULL, NULL, TL);
  note_rc(rc, 0);
  oi(rc); oi(v2);
  CMR_CHRMAT* S2 = NULL;
  CMRchrmatCopy(cmr, S, &S2);
  unsigned char was2 = 2;
  rc = CMRcamionComputeSigns(cmr, S2, (bool*) &was2, NULL, NULL, TL);
  note_rc(rc, 0);
  oi(rc); oi(was2);
  oi(rc ? 0 : 1);
  if (!rc)
    o_chr_csr(S2);
  if (camion_echo_rest)
    o_rest();       /* api camion_cert: a certified totally unimodular matrix with the same support and its witness, echoed */
  rec_end();
  CMRchrmatFree(cmr, &S2);
  CMRchrmatFree(cmr, &S);
  CMRchrmatFree(cmr, &M);
}

static void do_camion_cert(CMR* cmr)
{
  camion_echo_rest = true;
  do_camion(cmr);
  camion_echo_rest = false;
}

/* ---------- C12: k-sums ---------- */

static size_t read_list(size_t* out, size_t cap)
{
  size_t k = nx();
  for (size_t i = 0; i < k; ++i)
  {
    size_t v = nx();
    if (i < cap)
      out[i] = v;
  }
  return k;
}

static void o_list(size_t k, size_t* l)
{
  osz(k);
  for (size_t i = 0; i < k; ++i)
    osz(l[i]);
}

static CMR_ERROR ksum_compose(CMR* cmr, long long kind, int p, CMR_CHRMAT* A, CMR_CHRMAT* B, size_t nfsr, size_t* fsr,
  size_t nfsc, size_t* fsc, size_t nssr, size_t* ssr, size_t nssc, size_t* ssc, CMR_CHRMAT** pres)
{
  if (kind == 2)
    return CMRtwosumCompose(cmr, A, B, nfsr ? fsr : NULL, nfsc ? fsc : NULL, nssr ? ssr : NULL, nssc ? ssc : NULL, p, pres);
  if (kind == 3)
    return CMRdeltasumCompose(cmr, A, B, fsr, fsc, ssr, ssc, p, pres);
  if (kind == 4)
    return CMRysumCompose(cmr, A, B, fsr, fsc, ssr, ssc, p, pres);
  return CMRthreesumCompose(cmr, A, B, fsr, fsc, ssr, ssc, p, pres);
}

/* case: kind p M1 M2 fsr fsc ssr ssc (length-prefixed)   record: the same + rc hasResult [csr] */
static void do_kcompose(CMR* cmr)
{
  long long kind = nx(), p = nx();
  CMR_CHRMAT* A = read_chrmat(cmr);
  CMR_CHRMAT* B = read_chrmat(cmr);
  size_t fsr[4], fsc[4], ssr[4], ssc[4];
  size_t nfsr = read_list(fsr, 4), nfsc = read_list(fsc, 4), nssr = read_list(ssr, 4), nssc = read_list(ssc, 4);
  CMR_CHRMAT* res = NULL;
  CMR_ERROR rc = ksum_compose(cmr, kind, (int) p, A, B, nfsr, fsr, nfsc, fsc, nssr, ssr, nssc, ssc, &res);
  rec_begin();
  oi(kind); oi(p);
  o_chr_dense(A);
  o_chr_dense(B);
  o_list(nfsr, fsr); o_list(nfsc, fsc); o_list(nssr, ssr); o_list(nssc, ssc);
  oi(rc);
  oi((!rc && res) ? 1 : 0);
  if (!rc && res)
    o_chr_csr(res);
  rec_end();
  if (res)
    CMRchrmatFree(cmr, &res);
  CMRchrmatFree(cmr, &A);
  CMRchrmatFree(cmr, &B);
}

static void o_component(CMR_ERROR rc, CMR_CHRMAT* X, size_t* rowsOrigin, size_t* colsOrigin, size_t nsr, size_t* sr,
  size_t nsc, size_t* sc)
{
  oi(rc);
  if (rc || !X)
  {
    oi(0); oi(0); oi(0); oi(0); oi(0);
    return;
  }
  oi(1);
  o_chr_csr(X);
  osz(X->numRows);
  for (size_t i = 0; i < X->numRows; ++i)
    osz(rowsOrigin[i]);
  osz(X->numColumns);
  for (size_t i = 0; i < X->numColumns; ++i)
    osz(colsOrigin[i]);
  o_list(nsr, sr);
  o_list(nsc, sc);
}

/* case: kind p M rowpart(m values 0/1) colpart(n values 0/1)
 * record: kind p M ok eps beta gamma | first component | second component | compose rc hasResult [csr] */
static void do_kdecomp(CMR* cmr)
{
  long long kind = nx(), p = nx();
  CMR_CHRMAT* M = read_chrmat(cmr);
  size_t m = M->numRows, n = M->numColumns;
  CMR_CHRMAT* Mt = NULL;
  die_on(CMRchrmatTranspose(cmr, M, &Mt), "CMRchrmatTranspose");
  CMR_SEPA* sepa = NULL;
  die_on(CMRsepaCreate(cmr, m, n, &sepa), "CMRsepaCreate");
  for (size_t r = 0; r < m; ++r)
    sepa->rowsFlags[r] = nx() ? CMR_SEPA_SECOND : CMR_SEPA_FIRST;
  for (size_t c = 0; c < n; ++c)
    sepa->columnsFlags[c] = nx() ? CMR_SEPA_SECOND : CMR_SEPA_FIRST;
  /* optional trailing tokens: 3-connectivity flag (see below) and a mask of optional output arrays: bits 0..3 pass NULL
   * for rowsOrigin / columnsOrigin of the first / second component, bits 4, 5 pass arrays for rowsTo* / columnsTo*
   * (NULL otherwise).  With a non-zero mask only the resource behaviour is of interest (ok = 3: nothing is judged). */
  int threeConnected = more() ? (int) nx() : 1;
  int nullmask = more() ? (int) nx() : 0;
  int ok = 1; /* 0: not a separation of the requested type, 1: decomposed, 2: refused by the epsilon / connecting-matrix search */
  bool swapped = false;
  CMR_SUBMAT* viol = NULL;
  CMR_ERROR rc = CMRsepaFindBinaryRepresentatives(cmr, sepa, M, Mt, &swapped, p == 3 ? &viol : NULL);
  if (rc || viol)
    ok = 0;
  if (viol)
    CMRsubmatFree(cmr, &viol);
  if (ok && p == 3 && sepa->type == CMR_SEPA_TYPE_TWO)
  {
    /* CMRsepaCheckTernary only implements the check for 2-separations; for 3-separations the generator supplies
     * partitions whose GF(2) and GF(3) rank profiles agree */
    bool isTernary = false;
    rc = CMRsepaCheckTernary(cmr, sepa, M, &isTernary, NULL);
    if (rc || !isTernary)
      ok = 0;
  }
  if (ok)
  {
    if (kind == 2 && sepa->type != CMR_SEPA_TYPE_TWO)
      ok = 0;
    if ((kind == 3 || kind == 4) && sepa->type != CMR_SEPA_TYPE_THREE_DISTRIBUTED_RANKS)
      ok = 0;
    if (kind == 5 && sepa->type != CMR_SEPA_TYPE_THREE_CONCENTRATED_RANK)
      ok = 0;
  }
  size_t cap = m + n + 8;
  size_t* ro1 = malloc(cap * sizeof(size_t)); size_t* co1 = malloc(cap * sizeof(size_t));
  size_t* ro2 = malloc(cap * sizeof(size_t)); size_t* co2 = malloc(cap * sizeof(size_t));
  size_t* rt1 = malloc(cap * sizeof(size_t)); size_t* ct1 = malloc(cap * sizeof(size_t));
  size_t* rt2 = malloc(cap * sizeof(size_t)); size_t* ct2 = malloc(cap * sizeof(size_t));
  for (size_t i = 0; i < cap; ++i)
    ro1[i] = co1[i] = ro2[i] = co2[i] = SIZE_MAX;
  size_t* P_RO1 = (nullmask & 1) ? NULL : ro1;
  size_t* P_CO1 = (nullmask & 2) ? NULL : co1;
  size_t* P_RO2 = (nullmask & 4) ? NULL : ro2;
  size_t* P_CO2 = (nullmask & 8) ? NULL : co2;
  size_t* P_RT1 = (nullmask & 16) ? rt1 : NULL;
  size_t* P_CT1 = (nullmask & 16) ? ct1 : NULL;
  size_t* P_RT2 = (nullmask & 32) ? rt2 : NULL;
  size_t* P_CT2 = (nullmask & 32) ? ct2 : NULL;
  size_t fsr[4] = {0, 0, 0, 0}, fsc[4] = {0, 0, 0, 0}, ssr[4] = {0, 0, 0, 0}, ssc[4] = {0, 0, 0, 0};
  size_t nfsr = 0, nfsc = 0, nssr = 0, nssc = 0;
  char eps = 0, beta = 0, gamma = 0;
  CMR_CHRMAT* X1 = NULL;
  CMR_CHRMAT* X2 = NULL;
  CMR_ERROR rc1 = CMR_OKAY, rc2 = CMR_OKAY;
  if (ok)
  {
    if (kind == 2)
    {
      size_t a[1] = {SIZE_MAX}, b[1] = {SIZE_MAX}, c[1] = {SIZE_MAX}, d[1] = {SIZE_MAX};
      rc1 = CMRtwosumDecomposeFirst(cmr, M, sepa, &X1, P_RO1, P_CO1, P_RT1, P_CT1, a, b);
      rc2 = CMRtwosumDecomposeSecond(cmr, M, sepa, &X2, P_RO2, P_CO2, P_RT2, P_CT2, c, d);
      if (a[0] != SIZE_MAX) { fsr[0] = a[0]; nfsr = 1; }
      if (b[0] != SIZE_MAX) { fsc[0] = b[0]; nfsc = 1; }
      if (c[0] != SIZE_MAX) { ssr[0] = c[0]; nssr = 1; }
      if (d[0] != SIZE_MAX) { ssc[0] = d[0]; nssc = 1; }
    }
    else if (kind == 3)
    {
      rc1 = CMRdeltasumDecomposeEpsilon(cmr, M, Mt, sepa, &eps);
      if (rc1)
        ok = 2;
      if (!rc1)
      {
        rc1 = CMRdeltasumDecomposeFirst(cmr, M, sepa, eps, &X1, P_RO1, P_CO1, P_RT1, P_CT1, fsr, fsc);
        rc2 = CMRdeltasumDecomposeSecond(cmr, M, sepa, eps, &X2, P_RO2, P_CO2, P_RT2, P_CT2, ssr, ssc);
      }
      nfsr = 1; nfsc = 2; nssr = 1; nssc = 2;
    }
    else if (kind == 4)
    {
      rc1 = CMRysumDecomposeEpsilon(cmr, M, Mt, sepa, &eps);
      if (rc1)
        ok = 2;
      if (!rc1)
      {
        rc1 = CMRysumDecomposeFirst(cmr, M, sepa, eps, &X1, P_RO1, P_CO1, P_RT1, P_CT1, fsr, fsc);
        rc2 = CMRysumDecomposeSecond(cmr, M, sepa, eps, &X2, P_RO2, P_CO2, P_RT2, P_CT2, ssr, ssc);
      }
      nfsr = 2; nfsc = 1; nssr = 2; nssc = 1;
    }
    else
    {
      size_t sr[2] = {SIZE_MAX, SIZE_MAX}, sc[2] = {SIZE_MAX, SIZE_MAX};
      rc1 = CMRthreesumDecomposeSearchConnecting(cmr, M, Mt, sepa, sr, sc, &gamma, &beta);
      if (rc1)
        ok = 2;
      if (!rc1)
      {
        rc1 = CMRthreesumDecomposeFirst(cmr, M, sepa, sr, sc, beta, &X1, P_RO1, P_CO1, P_RT1, P_CT1, fsr, fsc);
        rc2 = CMRthreesumDecomposeSecond(cmr, M, sepa, sr, sc, gamma, &X2, P_RO2, P_CO2, P_RT2, P_CT2, ssr, ssc);
      }
      nfsr = 2; nfsc = 3; nssr = 3; nssc = 2;
    }
  }
  /* For Delta- and Y-sums the components are minors of M only if the connecting path also exists in the other part:
   * ask the library for epsilon on the separation with the two parts exchanged. */
  /* ... and the theorem "components of a TU matrix are TU" needs a 3-connected matrix: the case line may end with a
   * flag (computed by the generator by enumerating all bipartitions) that withdraws the demand when it is 0. */
  int both = 0;
  if (ok == 1 && (kind == 3 || kind == 4) && threeConnected)
  {
    CMR_SEPA* swappedSepa = NULL;
    die_on(CMRsepaCreate(cmr, m, n, &swappedSepa), "CMRsepaCreate");
    for (size_t r = 0; r < m; ++r)
      swappedSepa->rowsFlags[r] = ((sepa->rowsFlags[r] & CMR_SEPA_MASK_CHILD) == CMR_SEPA_FIRST) ? CMR_SEPA_SECOND : CMR_SEPA_FIRST;
    for (size_t c = 0; c < n; ++c)
      swappedSepa->columnsFlags[c] = ((sepa->columnsFlags[c] & CMR_SEPA_MASK_CHILD) == CMR_SEPA_FIRST) ? CMR_SEPA_SECOND : CMR_SEPA_FIRST;
    bool sw2 = false;
    if (!CMRsepaFindBinaryRepresentatives(cmr, swappedSepa, M, Mt, &sw2, NULL)
      && swappedSepa->type == CMR_SEPA_TYPE_THREE_DISTRIBUTED_RANKS)
    {
      char eps2 = 0;
      CMR_ERROR rce = (kind == 3) ? CMRdeltasumDecomposeEpsilon(cmr, M, Mt, swappedSepa, &eps2)
        : CMRysumDecomposeEpsilon(cmr, M, Mt, swappedSepa, &eps2);
      if (!rce)
        both = 1;
    }
    CMRsepaFree(cmr, &swappedSepa);
  }
  /* 3-sums (concentrated rank): the connecting path search succeeded; for a 3-connected matrix (generator's flag) the
   * components are minors up to signs the decomposition chooses, so they inherit total unimodularity. */
  if (ok == 1 && kind == 5 && threeConnected)
    both = 1;
  if (ok == 1 && nullmask)
    ok = 3;
  rec_begin();
  oi(kind); oi(p);
  o_chr_dense(M);
  oi(ok);
  oi(eps); oi(beta); oi(gamma); oi(both);
  o_component(ok == 1 ? rc1 : 1, X1, ro1, co1, nfsr, fsr, nfsc, fsc);
  o_component(ok == 1 ? rc2 : 1, X2, ro2, co2, nssr, ssr, nssc, ssc);
  CMR_CHRMAT* res = NULL;
  CMR_ERROR rcc = CMR_ERROR_INPUT;
  if (ok == 1 && !rc1 && !rc2 && X1 && X2)
    rcc = ksum_compose(cmr, kind, (int) p, X1, X2, nfsr, fsr, nfsc, fsc, nssr, ssr, nssc, ssc, &res);
  oi(rcc);
  oi((!rcc && res) ? 1 : 0);
  if (!rcc && res)
    o_chr_csr(res);
  rec_end();
  if (res)
    CMRchrmatFree(cmr, &res);
  if (X1)
    CMRchrmatFree(cmr, &X1);
  if (X2)
    CMRchrmatFree(cmr, &X2);
  free(ro1); free(co1); free(ro2); free(co2);
  free(rt1); free(ct1); free(rt2); free(ct2);
  CMRsepaFree(cmr, &sepa);
  CMRchrmatFree(cmr, &Mt);
  CMRchrmatFree(cmr, &M);
}

/* ---------- C03 / C04: decomposition trees ---------- */

static void o_gcert(CMR_GRAPH* g, CMR_GRAPH_EDGE* forest, size_t nf, CMR_GRAPH_EDGE* coforest, size_t nc, bool* reversed)
{
  if (!g || !forest || !coforest)
  {
    oi(0);
    return;
  }
  oi(1);
  o_graph(g);
  osz(nf);
  for (size_t i = 0; i < nf; ++i)
    oi(forest[i]);
  osz(nc);
  for (size_t i = 0; i < nc; ++i)
    oi(coforest[i]);
  size_t nrev = 0;
  if (reversed)
    for (CMR_GRAPH_ITER i = CMRgraphEdgesFirst(g); CMRgraphEdgesValid(g, i); i = CMRgraphEdgesNext(g, i))
      if (reversed[CMRgraphEdgesEdge(g, i)])
        ++nrev;
  osz(nrev);
  if (reversed)
    for (CMR_GRAPH_ITER i = CMRgraphEdgesFirst(g); CMRgraphEdgesValid(g, i); i = CMRgraphEdgesNext(g, i))
      if (reversed[CMRgraphEdgesEdge(g, i)])
        oi(CMRgraphEdgesEdge(g, i));
}

static size_t num_special(CMR_SEYMOUR_NODE_TYPE type, size_t child, bool rows)
{
  switch (type)
  {
  case CMR_SEYMOUR_NODE_TYPE_DELTASUM:
    return rows ? 1 : 2;
  case CMR_SEYMOUR_NODE_TYPE_YSUM:
    return rows ? 2 : 1;
  case CMR_SEYMOUR_NODE_TYPE_THREESUM:
    return child == 0 ? (rows ? 2 : 3) : (rows ? 3 : 2);
  default:
    return 0;
  }
}

static void o_tree(CMR_SEYMOUR_NODE* node)
{
  oi(node->type);
  oi(node->isTernary ? 1 : 0);
  oi(node->regularity);
  oi(node->graphicness);
  oi(node->cographicness);
  o_chr_dense(node->matrix);
  osz(node->numChildren);
  for (size_t c = 0; c < node->numChildren; ++c)
  {
    CMR_SEYMOUR_NODE* child = node->children[c];
    size_t cr = child ? child->numRows : 0, cc = child ? child->numColumns : 0;
    if (node->childRowsToParent && node->childRowsToParent[c])
    {
      osz(cr);
      for (size_t i = 0; i < cr; ++i)
        oi(node->childRowsToParent[c][i]);
    }
    else
      oi(0);
    if (node->childColumnsToParent && node->childColumnsToParent[c])
    {
      osz(cc);
      for (size_t i = 0; i < cc; ++i)
        oi(node->childColumnsToParent[c][i]);
    }
    else
      oi(0);
    size_t nsr = (node->childSpecialRows && node->childSpecialRows[c]) ? num_special(node->type, c, true) : 0;
    osz(nsr);
    for (size_t i = 0; i < nsr; ++i)
      osz(node->childSpecialRows[c][i]);
    size_t nsc = (node->childSpecialColumns && node->childSpecialColumns[c]) ? num_special(node->type, c, false) : 0;
    osz(nsc);
    for (size_t i = 0; i < nsc; ++i)
      osz(node->childSpecialColumns[c][i]);
  }
  size_t np = node->type == CMR_SEYMOUR_NODE_TYPE_PIVOTS ? node->numPivots : 0;
  osz(np);
  for (size_t i = 0; i < np; ++i)
    osz(node->pivotRows[i]);
  osz(np);
  for (size_t i = 0; i < np; ++i)
    osz(node->pivotColumns[i]);
  size_t nred = node->type == CMR_SEYMOUR_NODE_TYPE_SERIES_PARALLEL ? node->numSeriesParallelReductions : 0;
  osz(nred);
  for (size_t i = 0; i < nred; ++i)
  {
    oi(node->seriesParallelReductions[i].element);
    oi(node->seriesParallelReductions[i].mate);
  }
  o_gcert(node->graph, node->graphForest, node->matrix->numRows, node->graphCoforest, node->matrix->numColumns,
    node->graphArcsReversed);
  o_gcert(node->cograph, node->cographForest, node->matrix->numColumns, node->cographCoforest, node->matrix->numRows,
    node->cographArcsReversed);
  osz(node->numMinors);
  for (size_t i = 0; i < node->numMinors; ++i)
  {
    CMR_MINOR* mn = node->minors[i];
    oi(mn->type);
    osz(mn->numPivots);
    for (size_t k = 0; k < mn->numPivots; ++k)
      osz(mn->pivotRows[k]);
    osz(mn->numPivots);
    for (size_t k = 0; k < mn->numPivots; ++k)
      osz(mn->pivotColumns[k]);
    o_opt_submat(mn->remainingSubmatrix);
  }
  for (size_t c = 0; c < node->numChildren; ++c)
    o_tree(node->children[c]);
}

/* case: cfg entry(0 = CMRtuTest, 1 = CMRregularTest) M [script: nsteps (op path_len path.. )...]
 * record: ncfg cfg binaryOfTernary M rc hasTree [tree]   (the tree after all script steps)
 * script ops: 1 / 2 = complete / refine the k-th unknown leaf (k = first path entry), 3 / 4 = complete / refine the
 * (possibly already decomposed) node at the child-index path. */
static CMR_SEYMOUR_NODE* node_at(CMR_SEYMOUR_NODE* root, size_t len, long long* path)
{
  CMR_SEYMOUR_NODE* cur = root;
  for (size_t i = 0; i < len && cur; ++i)
  {
    if (cur->numChildren == 0)
      break;
    cur = cur->children[(size_t) path[i] % cur->numChildren];
  }
  return cur;
}

static void count_unknown(CMR_SEYMOUR_NODE* node, size_t* pcount)
{
  if (node->type == CMR_SEYMOUR_NODE_TYPE_UNKNOWN && node->numChildren == 0)
    ++(*pcount);
  for (size_t c = 0; c < node->numChildren; ++c)
    count_unknown(node->children[c], pcount);
}

static CMR_SEYMOUR_NODE* kth_unknown(CMR_SEYMOUR_NODE* node, size_t* pk)
{
  if (node->type == CMR_SEYMOUR_NODE_TYPE_UNKNOWN && node->numChildren == 0)
  {
    if (*pk == 0)
      return node;
    --(*pk);
  }
  for (size_t c = 0; c < node->numChildren; ++c)
  {
    CMR_SEYMOUR_NODE* r = kth_unknown(node->children[c], pk);
    if (r)
      return r;
  }
  return NULL;
}

static void do_tree(CMR* cmr)
{
  read_cfg();
  long long entry = nx();
  CMR_CHRMAT* M = read_chrmat(cmr);
  CMR_SEYMOUR_NODE* root = NULL;
  CMR_ERROR rc;
  unsigned char flag = 2;
  CMR_TU_PARAMS tup;
  tu_params_from_cfg(&tup);
  tup.algorithm = CMR_TU_ALGORITHM_DECOMPOSITION;
  CMR_REGULAR_PARAMS rp;
  CMRregularParamsInit(&rp);
  seymour_params_from_cfg(&rp.seymour);
  if (entry == 0)
    rc = CMRtuTest(cmr, M, (bool*) &flag, &root, NULL, &tup, NULL, TL);
  else
    rc = CMRregularTest(cmr, M, (bool*) &flag, &root, NULL, &rp, NULL, TL);
  note_rc(rc, 1, root);
  size_t nsteps = more() ? (size_t) nx() : 0;
  for (size_t step = 0; step <= nsteps; ++step)
  {
    if (step > 0)
    {
      long long op = nx();
      size_t len = nx();
      long long path[64];
      for (size_t i = 0; i < len; ++i)
      {
        long long v = nx();
        if (i < 64)
          path[i] = v;
      }
      if (rc || !root)
        continue;
      CMR_SEYMOUR_NODE* target = NULL;
      if (op == 1 || op == 2)
      {
        /* the k-th unknown leaf in pre-order (k = first path entry modulo their number) */
        size_t count = 0;
        count_unknown(root, &count);
        if (count == 0)
          continue;
        size_t k = (len ? (size_t) path[0] : 0) % count;
        target = kth_unknown(root, &k);
        if (!target)
          continue;
      }
      else
      {
        target = node_at(root, len < 64 ? len : 64, path);
        op -= 2;
      }
      /* later steps run with default stop flags so that the tree gets completed */
      tup.seymour.stopWhenIrregular = tup.seymour.stopWhenNongraphic = tup.seymour.stopWhenNoncographic = false;
      tup.seymour.stopWhenNeitherGraphicNorCoGraphic = false;
      rp.seymour = tup.seymour;
      if (op == 1)
        rc = (entry == 0 && CMRseymourIsTernary(root)) ? CMRtuCompleteDecomposition(cmr, target, &tup, NULL, TL)
          : CMRregularCompleteDecomposition(cmr, target, &rp, NULL, TL);
      else
      {
        CMR_SEYMOUR_NODE* nodes[1] = { target };
        rc = CMRregularRefineDecomposition(cmr, 1, nodes, &rp, NULL, TL);
      }
      note_rc(rc, 0);
    }
  }
  rec_begin();
  o_cfg();
  oi((entry == 0 && root && !CMRseymourIsTernary(root)) ? 1 : 0);
  o_chr_dense(M);
  oi(rc);
  oi((!rc && root) ? 1 : 0);
  if (!rc && root)
    o_tree(root);
  rec_end();
  if (root)
    CMRseymourRelease(cmr, &root);
  CMRchrmatFree(cmr, &M);
}

/* ---------- C20: text formats ---------- */

/* case: fmt(0 dense, 1 sparse) ty(0 char, 1 int) nbytes bytes...    record: fmt ty nbytes bytes.. rc hasM [csr] */
static void do_textread(CMR* cmr)
{
  long long fmt = nx(), ty = nx();
  size_t nb = nx();
  char* buf = malloc(nb + 1);
  for (size_t i = 0; i < nb; ++i)
    buf[i] = (char) nx();
  buf[nb] = 0;
  FILE* f = nb ? fmemopen(buf, nb, "r") : fopen("/dev/null", "r");
  CMR_CHRMAT* cm = NULL;
  CMR_INTMAT* im = NULL;
  CMR_ERROR rc;
  if (ty == 0)
    rc = fmt ? CMRchrmatCreateFromSparseStream(cmr, f, &cm) : CMRchrmatCreateFromDenseStream(cmr, f, &cm);
  else
    rc = fmt ? CMRintmatCreateFromSparseStream(cmr, f, &im) : CMRintmatCreateFromDenseStream(cmr, f, &im);
  fclose(f);
  rec_begin();
  oi(fmt); oi(ty);
  osz(nb);
  for (size_t i = 0; i < nb; ++i)
    oi((unsigned char) buf[i]);
  oi(rc);
  if (!rc && cm)
  {
    oi(1);
    o_chr_csr(cm);
  }
  else if (!rc && im)
  {
    oi(1);
    o_int_csr(im);
  }
  else
    oi(0);
  rec_end();
  if (cm)
    CMRchrmatFree(cmr, &cm);
  if (im)
    CMRintmatFree(cmr, &im);
  free(buf);
}

/* ---------- pure leaf functions, called directly (tie of the translated definitions, LeafGen.v) ----------
 * case: fn args..   record: fn nargs args.. result */
/* verif hook of /repo (linear_algebra.c, guarded by DISCOPT_CMR_VERIF): the static gcdExt with external linkage */
int64_t CMRverifGcdExt(int64_t a, int64_t b, int64_t* ps, int64_t* pt);

static void do_leaf(CMR* cmr)
{
  (void) cmr;
  long long fn = nx();
  long long a = nx();
  int two = (fn <= 1) || (fn >= 11 && fn <= 13);
  long long b = two ? nx() : 0;
  long long r = 0;
  int64_t gs = 0, gt = 0;
  switch (fn)
  {
    case 11: r = CMRverifGcdExt(a, b, &gs, &gt); break;
    case 12: (void) CMRverifGcdExt(a, b, &gs, &gt); r = gs; break;
    case 13: (void) CMRverifGcdExt(a, b, &gs, &gt); r = gt; break;
    case 14: r = (long long) nextPower2((size_t) a); break;   /* printed unsigned below */
    case 0: r = moduloNonnegative((int) a, (int) b); break;
    case 1: r = moduloTernary((int) a, (int) b); break;
    case 2: r = projectSignedHash(a); break;
    case 3: r = CMRelementIsValid((CMR_ELEMENT) a) ? 1 : 0; break;
    case 4: r = CMRrowToElement((size_t) a); break;
    case 5: r = CMRcolumnToElement((size_t) a); break;
    case 6: r = CMRelementIsRow((CMR_ELEMENT) a) ? 1 : 0; break;
    case 7: r = (long long) CMRelementToRowIndex((CMR_ELEMENT) a); break;
    case 8: r = CMRelementIsColumn((CMR_ELEMENT) a) ? 1 : 0; break;
    case 9: r = (long long) CMRelementToColumnIndex((CMR_ELEMENT) a); break;
    case 10: r = CMRelementTranspose((CMR_ELEMENT) a); break;
    default: r = 0;
  }
  rec_begin();
  oi(fn);
  oi(two ? 2 : 1);
  oi(a);
  if (two)
    oi(b);
  if (fn == 14)
    osz((size_t) r);
  else
    oi(r);
  rec_end();
}

/* case: wantlabels nbytes bytes...   record: nbytes bytes.. rc nnodes haslabels [nn (len bytes..)*] nedges (u v element)* */
static void do_edgelist(CMR* cmr)
{
  long long wl = nx();
  size_t nb = nx();
  char* buf = malloc(nb + 1);
  for (size_t i = 0; i < nb; ++i)
    buf[i] = (char) nx();
  buf[nb] = 0;
  FILE* f = nb ? fmemopen(buf, nb, "r") : fopen("/dev/null", "r");
  CMR_GRAPH* g = NULL;
  CMR_ELEMENT* elements = NULL;
  char** labels = NULL;
  CMR_ERROR rc = CMRgraphCreateFromEdgeList(cmr, &g, &elements, wl ? &labels : NULL, f);
  fclose(f);
  rec_begin();
  osz(nb);
  for (size_t i = 0; i < nb; ++i)
    oi((unsigned char) buf[i]);
  oi(rc);
  if (!rc && g)
  {
    size_t nn = CMRgraphNumNodes(g);
    osz(nn);
    oi(wl ? 1 : 0);
    if (wl)
    {
      osz(nn);
      for (size_t v = 0; v < nn; ++v)
      {
        size_t len = strlen(labels[v]);
        osz(len);
        for (size_t i = 0; i < len; ++i)
          oi((unsigned char) labels[v][i]);
      }
    }
    size_t ne = CMRgraphNumEdges(g);
    osz(ne);
    for (size_t e = 0; e < ne; ++e)
    {
      oi(CMRgraphEdgeU(g, (CMR_GRAPH_EDGE) e));
      oi(CMRgraphEdgeV(g, (CMR_GRAPH_EDGE) e));
      oi(elements[e]);
    }
  }
  else
  {
    oi(0); oi(0); oi(0);
  }
  rec_end();
  if (labels && g)
  {
    for (size_t v = 0; v < CMRgraphNumNodes(g); ++v)
      free(labels[v]);
    CMRfreeBlockArray(cmr, &labels);
  }
  if (elements)
    CMRfreeBlockArray(cmr, &elements);
  if (g)
    CMRgraphFree(cmr, &g);
  free(buf);
}

/* case: fmt ty M     record: fmt ty M nbytes bytes(printed by the library) rc2 hasM2 [csr re-read] */
static void do_textwrite(CMR* cmr)
{
  long long fmt = nx(), ty = nx();
  CMR_CHRMAT* cm = NULL;
  CMR_INTMAT* im = NULL;
  if (ty == 0)
    cm = read_chrmat(cmr);
  else
    im = read_intmat(cmr);
  char* buf = NULL;
  size_t len = 0;
  FILE* f = open_memstream(&buf, &len);
  if (ty == 0)
    fmt ? CMRchrmatPrintSparse(cmr, cm, f) : CMRchrmatPrintDense(cmr, cm, f, '0', false);
  else
    fmt ? CMRintmatPrintSparse(cmr, im, f) : CMRintmatPrintDense(cmr, im, f, '0', false);
  fclose(f);
  rec_begin();
  oi(fmt); oi(ty);
  if (ty == 0)
    o_chr_dense(cm);
  else
    o_int_dense(im);
  osz(len);
  for (size_t i = 0; i < len; ++i)
    oi((unsigned char) buf[i]);
  FILE* g = len ? fmemopen(buf, len, "r") : fopen("/dev/null", "r");
  CMR_CHRMAT* cm2 = NULL;
  CMR_INTMAT* im2 = NULL;
  CMR_ERROR rc;
  if (ty == 0)
    rc = fmt ? CMRchrmatCreateFromSparseStream(cmr, g, &cm2) : CMRchrmatCreateFromDenseStream(cmr, g, &cm2);
  else
    rc = fmt ? CMRintmatCreateFromSparseStream(cmr, g, &im2) : CMRintmatCreateFromDenseStream(cmr, g, &im2);
  fclose(g);
  oi(rc);
  if (!rc && cm2)
  {
    oi(1);
    o_chr_csr(cm2);
  }
  else if (!rc && im2)
  {
    oi(1);
    o_int_csr(im2);
  }
  else
    oi(0);
  rec_end();
  if (cm) CMRchrmatFree(cmr, &cm);
  if (im) CMRintmatFree(cmr, &im);
  if (cm2) CMRchrmatFree(cmr, &cm2);
  if (im2) CMRintmatFree(cmr, &im2);
  free(buf);
}

/* ---------- C10: verdict relations ---------- */

static bool chr_is_binary(CMR_CHRMAT* M)
{
  for (size_t e = 0; e < M->numNonzeros; ++e)
    if (M->entryValues[e] != 1)
      return false;
  return true;
}

static bool chr_is_ternary(CMR_CHRMAT* M)
{
  for (size_t e = 0; e < M->numNonzeros; ++e)
    if (M->entryValues[e] != 1 && M->entryValues[e] != -1)
      return false;
  return true;
}

/* the ten verdicts: TU REG GRA COG NET CONET SPT SPB BAL CAM; 2 = not applicable / undetermined / error */
static void o_verdicts(CMR* cmr, CMR_CHRMAT* M, int strategy, bool first)
{
  bool bin = chr_is_binary(M), tern = chr_is_ternary(M);
  unsigned char f;
  CMR_TU_PARAMS tup;
  CMRtuParamsInit(&tup);
  CMR_REGULAR_PARAMS rp;
  CMRregularParamsInit(&rp);
  /* strategy >= 1000 selects the TU algorithm for the first verdict instead (1001 Eulerian, 1002 partition; both are
   * exponential and only run up to 8x8) */
  bool skipTU = false;
  /* strategy >= 2000: parameter independence - the FIRST matrix of a pair is tested with non-default parameters
   * (bit 0: directGraphicness off, bit 1: seriesParallel off, bit 2: planarityCheck on, bits 3..: index of the decompose
   * strategy), the second one with the defaults */
  if (strategy >= 2000)
  {
    int x = strategy - 2000;
    if (first)
    {
      static const int strategies[5] = { CMR_SEYMOUR_DECOMPOSE_FLAG_DISTRIBUTED_DELTASUM | CMR_SEYMOUR_DECOMPOSE_FLAG_CONCENTRATED_PIVOT,
        CMR_SEYMOUR_DECOMPOSE_FLAG_DISTRIBUTED_YSUM | CMR_SEYMOUR_DECOMPOSE_FLAG_CONCENTRATED_PIVOT,
        CMR_SEYMOUR_DECOMPOSE_FLAG_DISTRIBUTED_PIVOT | CMR_SEYMOUR_DECOMPOSE_FLAG_CONCENTRATED_THREESUM,
        CMR_SEYMOUR_DECOMPOSE_FLAG_DISTRIBUTED_DELTASUM | CMR_SEYMOUR_DECOMPOSE_FLAG_CONCENTRATED_THREESUM,
        CMR_SEYMOUR_DECOMPOSE_FLAG_DISTRIBUTED_YSUM | CMR_SEYMOUR_DECOMPOSE_FLAG_CONCENTRATED_THREESUM };
      tup.seymour.directGraphicness = rp.seymour.directGraphicness = !(x & 1);
      tup.seymour.seriesParallel = rp.seymour.seriesParallel = !(x & 2);
      tup.seymour.planarityCheck = rp.seymour.planarityCheck = (x & 4) != 0;
      tup.seymour.decomposeStrategy = rp.seymour.decomposeStrategy = strategies[(x >> 3) % 5];
    }
  }
  else if (strategy >= 1000)
  {
    tup.algorithm = (CMR_TU_ALGORITHM) (strategy - 1000);
    skipTU = M->numRows > 8 || M->numColumns > 8;
  }
  else
  {
    tup.seymour.decomposeStrategy = strategy;
    rp.seymour.decomposeStrategy = strategy;
  }
  f = 2; if (!skipTU) { if (CMRtuTest(cmr, M, (bool*) &f, NULL, NULL, &tup, NULL, DBL_MAX)) f = 2; } oi(f);
  f = 2; if (bin) { if (CMRregularTest(cmr, M, (bool*) &f, NULL, NULL, &rp, NULL, DBL_MAX)) f = 2; } oi(f);
  f = 2; if (bin) { if (CMRgraphicTestMatrix(cmr, M, (bool*) &f, NULL, NULL, NULL, NULL, NULL, DBL_MAX)) f = 2; } oi(f);
  f = 2; if (bin) { if (CMRgraphicTestTranspose(cmr, M, (bool*) &f, NULL, NULL, NULL, NULL, NULL, DBL_MAX)) f = 2; } oi(f);
  f = 2; if (tern) { if (CMRnetworkTestMatrix(cmr, M, (bool*) &f, NULL, NULL, NULL, NULL, NULL, NULL, NULL, DBL_MAX)) f = 2; } oi(f);
  f = 2; if (tern) { if (CMRnetworkTestTranspose(cmr, M, (bool*) &f, NULL, NULL, NULL, NULL, NULL, NULL, NULL, DBL_MAX)) f = 2; } oi(f);
  f = 2; if (tern) { if (CMRspTestTernary(cmr, M, (bool*) &f, NULL, NULL, NULL, NULL, NULL, DBL_MAX)) f = 2; } oi(f);
  f = 2;
  if (bin)
  {
    CMR_SP_REDUCTION* reds = malloc((M->numRows + M->numColumns + 1) * sizeof(CMR_SP_REDUCTION));
    size_t nr = 0;
    if (CMRspTestBinary(cmr, M, (bool*) &f, reds, &nr, NULL, NULL, NULL, DBL_MAX))
      f = 2;
    free(reds);
  }
  oi(f);
  /* the balancedness test enumerates submatrices (exponential): only on small shapes */
  size_t small = M->numRows < M->numColumns ? M->numRows : M->numColumns;
  size_t large = M->numRows < M->numColumns ? M->numColumns : M->numRows;
  f = 2; if (tern && small <= 7 && large <= 12) { if (CMRbalancedTest(cmr, M, (bool*) &f, NULL, NULL, NULL, DBL_MAX)) f = 2; } oi(f);
  f = 2; if (tern) { if (CMRcamionTestSigns(cmr, M, (bool*) &f, NULL, NULL, DBL_MAX)) f = 2; } oi(f);
}

/* case: strategy kind p1(list) p2(list) M M'    record: kind p1 p2 M M' v(10) v'(10) */
static void do_rel(CMR* cmr)
{
  int strategy = (int) nx();
  long long kind = nx();
  size_t k1 = nx();
  long long* p1 = malloc((k1 + 1) * sizeof(long long));
  for (size_t i = 0; i < k1; ++i)
    p1[i] = nx();
  size_t k2 = nx();
  long long* p2 = malloc((k2 + 1) * sizeof(long long));
  for (size_t i = 0; i < k2; ++i)
    p2[i] = nx();
  CMR_CHRMAT* M = read_chrmat(cmr);
  CMR_CHRMAT* N = read_chrmat(cmr);
  rec_begin();
  oi(kind);
  osz(k1);
  for (size_t i = 0; i < k1; ++i)
    oi(p1[i]);
  osz(k2);
  for (size_t i = 0; i < k2; ++i)
    oi(p2[i]);
  o_chr_dense(M);
  o_chr_dense(N);
  o_verdicts(cmr, M, strategy, true);
  o_verdicts(cmr, N, strategy, false);
  rec_end();
  free(p1);
  free(p2);
  CMRchrmatFree(cmr, &M);
  CMRchrmatFree(cmr, &N);
}

/* ---------- C20: matrix utilities ----------
 * case: op ty(0 char, 1 int) M params..      record: op ty M params.. rc kind(0 none, 1 csr, 2 value, 3 submatrix) result
 * ops: 1 transpose | 2 permute nr rows.. nc cols.. (count -1 = NULL) | 3 slice nr rows.. nc cols.. | 4 support
 *      5 signed support | 6 determinant | 7 convert to the other value type | 8 check equal M2 | 9 check transpose M2
 *      10 1-sum of M and M2 (char) | 11 submatrix text round trip: nr rows.. nc cols.. (print, read back)
 *      12 CMRsubmatSlice / 13 CMRsubmatUnslice: base nr rows.. nc cols.., input nr rows.. nc cols.. */
static void o_list_z(size_t k, size_t* l)
{
  osz(k);
  for (size_t i = 0; i < k; ++i)
    osz(l[i]);
}

static size_t* read_idx_list(long long* pcount)
{
  long long k = nx();
  *pcount = k;
  if (k < 0)
    return NULL;
  size_t* l = malloc((k + 1) * sizeof(size_t));
  for (long long i = 0; i < k; ++i)
    l[i] = (size_t) nx();
  return l;
}

static CMR_SUBMAT* read_submat(CMR* cmr)
{
  long long nr, nc;
  size_t* rows = read_idx_list(&nr);
  size_t* cols = read_idx_list(&nc);
  CMR_SUBMAT* sub = NULL;
  die_on(CMRsubmatCreate(cmr, nr < 0 ? 0 : nr, nc < 0 ? 0 : nc, &sub), "CMRsubmatCreate");
  for (long long i = 0; i < nr; ++i)
    sub->rows[i] = rows[i];
  for (long long i = 0; i < nc; ++i)
    sub->columns[i] = cols[i];
  free(rows);
  free(cols);
  return sub;
}

static void do_matutil(CMR* cmr)
{
  long long op = nx(), ty = nx();
  CMR_CHRMAT* C = NULL;
  CMR_INTMAT* I = NULL;
  if (ty == 0)
    C = read_chrmat(cmr);
  else
    I = read_intmat(cmr);
  rec_begin();
  oi(op);
  oi(ty);
  if (C)
    o_chr_dense(C);
  else
    o_int_dense(I);
  CMR_CHRMAT* RC = NULL;
  CMR_INTMAT* RI = NULL;
  CMR_ERROR rc = CMR_OKAY;
  if (op == 1)
  {
    rc = C ? CMRchrmatTranspose(cmr, C, &RC) : CMRintmatTranspose(cmr, I, &RI);
  }
  else if (op == 2)
  {
    long long nr, nc;
    size_t* rows = read_idx_list(&nr);
    size_t* cols = read_idx_list(&nc);
    oi(nr);
    for (long long i = 0; i < nr; ++i)
      osz(rows[i]);
    oi(nc);
    for (long long i = 0; i < nc; ++i)
      osz(cols[i]);
    rc = C ? CMRchrmatPermute(cmr, C, rows, cols, &RC) : CMRintmatPermute(cmr, I, rows, cols, &RI);
    free(rows);
    free(cols);
  }
  else if (op == 3)
  {
    CMR_SUBMAT* sub = read_submat(cmr);
    o_list_z(sub->numRows, sub->rows);
    o_list_z(sub->numColumns, sub->columns);
    rc = C ? CMRchrmatSlice(cmr, C, sub, &RC) : CMRintmatSlice(cmr, I, sub, &RI);
    CMRsubmatFree(cmr, &sub);
  }
  else if (op == 4)
    rc = C ? CMRchrmatSupport(cmr, C, &RC) : CMRintmatSupport(cmr, I, &RC);
  else if (op == 5)
    rc = C ? CMRchrmatSignedSupport(cmr, C, &RC) : CMRintmatSignedSupport(cmr, I, &RC);
  else if (op == 6)
  {
    int64_t det = 0;
    rc = C ? CMRchrmatDeterminant(cmr, C, &det) : CMRintmatDeterminant(cmr, I, &det);
    oi(rc);
    oi(2);
    oi(det);
    goto done;
  }
  else if (op == 7)
    rc = C ? CMRchrmatToInt(cmr, C, &RI) : CMRintmatToChr(cmr, I, &RC);
  else if (op == 8 || op == 9 || op == 10)
  {
    CMR_CHRMAT* C2 = NULL;
    CMR_INTMAT* I2 = NULL;
    if (C)
    {
      C2 = read_chrmat(cmr);
      o_chr_dense(C2);
    }
    else
    {
      I2 = read_intmat(cmr);
      o_int_dense(I2);
    }
    bool b = false;
    if (op == 8)
      b = C ? CMRchrmatCheckEqual(C, C2) : CMRintmatCheckEqual(I, I2);
    else if (op == 9)
      rc = C ? CMRchrmatCheckTranspose(cmr, C, C2, &b) : CMRintmatCheckTranspose(cmr, I, I2, &b);
    else if (C)
    {
      CMR_CHRMAT* both[2] = { C, C2 };
      rc = CMRonesumCompose(cmr, 2, both, &RC);
    }
    if (C2)
      CMRchrmatFree(cmr, &C2);
    if (I2)
      CMRintmatFree(cmr, &I2);
    if (op != 10)
    {
      oi(rc);
      oi(2);
      oi(b ? 1 : 0);
      goto done;
    }
  }
  else if (op == 11)
  {
    CMR_SUBMAT* sub = read_submat(cmr);
    o_list_z(sub->numRows, sub->rows);
    o_list_z(sub->numColumns, sub->columns);
    size_t m = C ? C->numRows : I->numRows, n = C ? C->numColumns : I->numColumns;
    char* text = NULL;
    size_t len = 0;
    FILE* f = open_memstream(&text, &len);
    rc = CMRsubmatPrint(cmr, sub, m, n, f);
    fclose(f);
    CMR_SUBMAT* back = NULL;
    size_t m2 = SIZE_MAX, n2 = SIZE_MAX;
    CMR_ERROR rc2 = CMR_OKAY;
    if (!rc)
    {
      FILE* g = fmemopen(text, len, "r");
      rc2 = CMRsubmatReadFromStream(cmr, &back, &m2, &n2, g);
      fclose(g);
    }
    free(text);
    oi(rc ? rc : rc2);
    if (!rc && !rc2 && back)
    {
      oi(3);
      osz(m2);
      osz(n2);
      o_list_z(back->numRows, back->rows);
      o_list_z(back->numColumns, back->columns);
    }
    else
      oi(0);
    if (back)
      CMRsubmatFree(cmr, &back);
    CMRsubmatFree(cmr, &sub);
    goto done;
  }
  else if (op == 12 || op == 13)
  {
    CMR_SUBMAT* base = read_submat(cmr);
    CMR_SUBMAT* input = read_submat(cmr);
    o_list_z(base->numRows, base->rows);
    o_list_z(base->numColumns, base->columns);
    o_list_z(input->numRows, input->rows);
    o_list_z(input->numColumns, input->columns);
    CMR_SUBMAT* out = NULL;
    rc = op == 12 ? CMRsubmatSlice(cmr, base, input, &out) : CMRsubmatUnslice(cmr, base, input, &out);
    oi(rc);
    if (!rc && out)
    {
      oi(3);
      osz(0);
      osz(0);
      o_list_z(out->numRows, out->rows);
      o_list_z(out->numColumns, out->columns);
    }
    else
      oi(0);
    if (out)
      CMRsubmatFree(cmr, &out);
    CMRsubmatFree(cmr, &base);
    CMRsubmatFree(cmr, &input);
    goto done;
  }
  else
    rc = CMR_ERROR_INVALID;
  oi(rc);
  if (!rc && RC)
  {
    oi(1);
    oi(0);
    o_chr_csr(RC);
  }
  else if (!rc && RI)
  {
    oi(1);
    oi(1);
    o_int_csr(RI);
  }
  else
    oi(0);
done:
  rec_end();
  if (RC)
    CMRchrmatFree(cmr, &RC);
  if (RI)
    CMRintmatFree(cmr, &RI);
  if (C)
    CMRchrmatFree(cmr, &C);
  if (I)
    CMRintmatFree(cmr, &I);
}

/* ---------- C16: equimodularity ---------- */

/* case: variant(0 equimodular, 1 strongly equimodular, 2 unimodular, 3 strongly unimodular) kin M
 * record: variant kin M rc verdict(0/1, 2 = not written) kout */
static __thread bool equimod_echo_rest = false;
static void do_equimod(CMR* cmr)
{
  long long variant = nx(), kin = nx();
  CMR_INTMAT* M = read_intmat(cmr);
  unsigned char flag = 2;
  int64_t k = kin;
  CMR_ERROR rc;
  if (variant == 0)
    rc = CMRequimodularTest(cmr, M, (bool*) &flag, &k, NULL, NULL, TL);
  else if (variant == 1)
    rc = CMRequimodularTestStrong(cmr, M, (bool*) &flag, &k, NULL, NULL, TL);
  else if (variant == 2)
    rc = CMRunimodularTest(cmr, M, (bool*) &flag, NULL, NULL, TL);
  else
    rc = CMRunimodularTestStrong(cmr, M, (bool*) &flag, NULL, NULL, TL);
  note_rc(rc, 0);
  rec_begin();
  oi(variant);
  oi(kin);
  o_int_dense(M);
  oi(rc);
  oi(flag);
  oi(variant < 2 ? k : 0);
  if (equimod_echo_rest)
    o_rest();       /* api equi_cert: the generator's factorisation certificate is echoed for the judge */
  rec_end();
  CMRintmatFree(cmr, &M);
}

static void do_equi_cert(CMR* cmr)
{
  equimod_echo_rest = true;
  do_equimod(cmr);
  equimod_echo_rest = false;
}

/* ---------- dispatch ---------- */

typedef void (*handler)(CMR*);
static void do_tlimit(CMR* cmr);
/* between the calls of a history the heap is used and partly released, so that the addresses malloc hands out to the
 * library differ from those of the reference run: an answer must not depend on them */
#define MAX_KEPT 4096
static __thread void* kept_blocks[MAX_KEPT];
static __thread int num_kept = 0;
static void heap_scramble(unsigned seed)
{
  void* tmp[48];
  for (int j = 0; j < 48; ++j)
    tmp[j] = malloc(16 + ((seed * 2654435761u + (unsigned) j * 40503u) >> 7) % 700);
  for (int j = 0; j < 48; ++j)
  {
    if (j % 3 == 0 && num_kept < MAX_KEPT)
      kept_blocks[num_kept++] = tmp[j];
    else
      free(tmp[j]);
  }
}
static void heap_unscramble(void)
{
  while (num_kept > 0)
    free(kept_blocks[--num_kept]);
}

static void do_hist(CMR* cmr);
static void do_threads(CMR* cmr);
static struct
{
  const char* name;
  handler fn;
} apis[] = {
  {"ctu_compl", do_ctu_compl},    /* 0 */
  {"ctu_test", do_ctu_test},      /* 1 */
  {"tu", do_tu},                  /* 2 */
  {"tu_signed", do_tu_signed},    /* 3 */
  {"regular", do_regular},        /* 4 */
  {"pivot", do_pivot},            /* 5 */
  {"sp", do_sp},                  /* 6 */
  {"balanced", do_balanced},      /* 7 */
  {"graphic", do_graphic},        /* 8 */
  {"network", do_network},        /* 9 */
  {"repmat", do_repmat},          /* 10 */
  {"camion", do_camion},          /* 11 */
  {"kcompose", do_kcompose},      /* 12 */
  {"kdecomp", do_kdecomp},        /* 13 */
  {"tree", do_tree},              /* 14 */
  {"textread", do_textread},      /* 15 */
  {"rel", do_rel},                /* 16 */
  {"textwrite", do_textwrite},    /* 17 */
  {"equimod", do_equimod},        /* 18 */
  {"matutil", do_matutil},        /* 19 */
  {"edgelist", do_edgelist},      /* 20 */
  {"leaf", do_leaf},              /* 21 */
  {"reprt", do_reprt},            /* 22 */
  {"tu_net", do_tu_net},          /* 23 */
  {"regular_cert", do_regular_cert}, /* 24 */
  {"equi_cert", do_equi_cert},    /* 25 */
  {"balanced_cert", do_balanced_cert}, /* 26 */
  {"camion_cert", do_camion_cert}, /* 27 */
  {"tlimit", do_tlimit},
  {"hist", do_hist},
  {"threads", do_threads},
  {NULL, NULL}
};
#define NUM_SUB_APIS 28

/* ---------- running a handler with its record captured in memory ---------- */

typedef struct
{
  char* text;          /* the record line (malloc'ed) */
  size_t len;
  int timeouts, nonnull, modified;
  size_t usage;
} CAPTURE;

/* runs apis[sub].fn on `cmr` with the tokens [start, end) of the current case line */
static void run_captured(CMR* cmr, int sub, size_t start, size_t end, CAPTURE* cap)
{
  size_t savedNtok = ntok;
  FILE* savedOut = OUT;
  cap->text = NULL;
  cap->len = 0;
  OUT = open_memstream(&cap->text, &cap->len);
  ptok = start;
  ntok = end;
  tl_timeouts = 0;
  tl_nonnull = 0;
  input_modified = 0;
  apis[sub].fn(cmr);
  fclose(OUT);
  OUT = savedOut;
  ntok = savedNtok;
  cap->timeouts = tl_timeouts;
  cap->nonnull = tl_nonnull;
  cap->modified = input_modified;
  cap->usage = CMRgetStackUsage(cmr);
}

static bool same_capture(CAPTURE* a, CAPTURE* b)
{
  return a->len == b->len && !memcmp(a->text, b->text, a->len);
}

static size_t heap_bytes(void)
{
#if defined(__SANITIZE_ADDRESS__)
  return __sanitizer_get_current_allocated_bytes();
#else
  return 0;
#endif
}

/* ---------- C18: time limits ----------
 * case: sub maxk rest-of-the-sub-api's-case
 * The sub-api's handler is run (a) without limit on a fresh environment (reference record A, N clock reads), then for
 * every k in 0..N (at most maxk of them, evenly spread) on a fresh environment (b) with a 1000 s limit and a clock that
 * jumps by 2000 s at its k-th read (record B) and (c) again without limit on the same environment (record C).
 * record: sub N nk (k timeouts nonnull sameB sameC usageB usageC leaked modified)*nk */
/* stderr of one injected run is captured to find the first "Time limit exceeded in <file>:<line>" message the
 * library's CMR_CALL macro prints: it names the timeout exit that was taken (used as call-site key of findings) */
static int err_fd = -1, err_saved = -1;

static void err_capture_begin(void)
{
  fflush(stderr);
  if (err_fd < 0)
    err_fd = memfd_create("drive-stderr", 0);
  if (err_fd < 0)
    return;
  ftruncate(err_fd, 0);
  lseek(err_fd, 0, SEEK_SET);
  err_saved = dup(2);
  dup2(err_fd, 2);
}

static void err_capture_end(char* site, size_t cap)
{
  site[0] = 0;
  if (err_fd < 0 || err_saved < 0)
    return;
  fflush(stderr);
  dup2(err_saved, 2);
  close(err_saved);
  err_saved = -1;
  char buf[4096];
  lseek(err_fd, 0, SEEK_SET);
  ssize_t n = read(err_fd, buf, sizeof(buf) - 1);
  if (n <= 0)
    return;
  buf[n] = 0;
  char* p = strstr(buf, "Time limit exceeded in ");
  if (!p)
    return;
  p += strlen("Time limit exceeded in ");
  char* slash = p;
  for (char* q = p; *q && *q != '\n'; ++q)
    if (*q == '/')
      slash = q + 1;
  size_t i = 0;
  for (char* q = slash; *q && *q != '\n' && *q != ' ' && i + 1 < cap; ++q)
    if (*q != '.' || q[1] != '\n')
      site[i++] = *q;
  site[i] = 0;
}

static void do_tlimit(CMR* cmr)
{
  int sub = (int) nx();
  long long maxk = nx();
  size_t start = ptok, end = ntok;
  if (sub < 0 || sub >= NUM_SUB_APIS)
    exit(3);
  CAPTURE A;
  clk_reads = 0;
  clk_jump_at = -1;
  g_tl = DBL_MAX;
  run_captured(cmr, sub, start, end, &A);
  long N = clk_reads;
  long nk = N + 1;
  if (maxk > 0 && nk > maxk)
    nk = maxk;
  rec_begin();
  oi(sub);
  oi(N);
  oi(nk);
  char* sites = malloc((size_t) nk * 80 + 16);
  size_t sitesLen = 0;
  sites[0] = 0;
  for (long j = 0; j < nk; ++j)
  {
    long k = (nk == N + 1) ? j : (long) ((double) j * N / (nk - 1));
    size_t heap0 = heap_bytes();
    CMR* env = NULL;
    die_on(CMRcreateEnvironment(&env), "CMRcreateEnvironment");
    nshadow = 0;
    CAPTURE B, C;
    clk_reads = 0;
    clk_jump_at = k;
    g_tl = 1000.0;
    char site[64];
    err_capture_begin();
    run_captured(env, sub, start, end, &B);
    err_capture_end(site, sizeof(site));
    clk_jump_at = -1;
    g_tl = DBL_MAX;
    run_captured(env, sub, start, end, &C);
    CMRfreeEnvironment(&env);
    int sameB = same_capture(&A, &B), sameC = same_capture(&A, &C);
    oi(k);
    oi(B.timeouts);
    oi(B.nonnull);
    oi(sameB);
    oi(sameC);
    osz(B.usage);
    osz(C.usage);
    int modified = B.modified | C.modified;
    free(B.text);
    free(C.text);
    size_t heap1 = heap_bytes();
    oi(heap1 > heap0 ? (long long) (heap1 - heap0) : 0);
    oi(modified);
    sitesLen += (size_t) sprintf(sites + sitesLen, " %ld=%s", k, site[0] ? site : "-");
  }
  rec_end();
  /* flag line X: for every injected k the timeout exit that was taken ("-" if none) */
  printf("X%s\n", sites);
  free(sites);
  free(A.text);
  ptok = end;
}

/* ---------- C19: histories on one environment ----------
 * case: ncalls (sub k len tokens..)*ncalls
 * Every call is run (a) alone on a fresh environment (reference), (b) alone on fresh environments with fresh scratch
 * chunks filled with 0x00 and with 0xff instead of the 0xa5 default, and (c) in sequence, each call twice, on one
 * shared environment; a call with k >= 0 is run with a 1000 s limit and the clock jumping at read k (its own result
 * is then not compared, but it is part of the history of the later ones).
 * record: ncalls (sub k sameHist sameRepeat samePoison00 samePoisonFF modified usageAfter)*ncalls */
#define MAX_CALLS 64
static void do_hist(CMR* cmr)
{
  size_t ncalls = (size_t) nx();
  if (ncalls > MAX_CALLS)
    exit(3);
  int sub[MAX_CALLS];
  long long kk[MAX_CALLS];
  size_t st[MAX_CALLS], en[MAX_CALLS];
  for (size_t i = 0; i < ncalls; ++i)
  {
    sub[i] = (int) nx();
    kk[i] = nx();
    size_t len = (size_t) nx();
    st[i] = ptok;
    en[i] = ptok + len;
    ptok += len;
    if (sub[i] < 0 || sub[i] >= NUM_SUB_APIS || en[i] > ntok)
      exit(3);
  }
  size_t endAll = ptok;
  CAPTURE A[MAX_CALLS];
  int samePoison[2][MAX_CALLS];
  int savedPoison = poison_byte;
  g_tl = DBL_MAX;
  clk_jump_at = -1;
  for (size_t i = 0; i < ncalls; ++i)
  {
    CMR* env = NULL;
    die_on(CMRcreateEnvironment(&env), "CMRcreateEnvironment");
    nshadow = 0;
    poison_byte = 0xa5;
    run_captured(env, sub[i], st[i], en[i], &A[i]);
    CMRfreeEnvironment(&env);
    for (int p = 0; p < 2; ++p)
    {
      CAPTURE P;
      die_on(CMRcreateEnvironment(&env), "CMRcreateEnvironment");
      nshadow = 0;
      poison_byte = p ? 0xff : 0x00;
      run_captured(env, sub[i], st[i], en[i], &P);
      CMRfreeEnvironment(&env);
      samePoison[p][i] = same_capture(&A[i], &P);
      free(P.text);
    }
  }
  poison_byte = 0xa5;
  nshadow = 0;
  rec_begin();
  osz(ncalls);
  for (size_t i = 0; i < ncalls; ++i)
  {
    CAPTURE H1, H2;
    heap_scramble(2 * (unsigned) i + 1);
    if (kk[i] >= 0)
    {
      clk_reads = 0;
      clk_jump_at = kk[i];
      g_tl = 1000.0;
    }
    run_captured(cmr, sub[i], st[i], en[i], &H1);
    clk_jump_at = -1;
    g_tl = DBL_MAX;
    int timedOut = H1.timeouts > 0;
    heap_scramble(2 * (unsigned) i + 2);
    run_captured(cmr, sub[i], st[i], en[i], &H2);
    oi(sub[i]);
    oi(kk[i]);
    oi(timedOut ? 1 : same_capture(&A[i], &H1));
    oi(same_capture(&A[i], &H2));
    oi(samePoison[0][i]);
    oi(samePoison[1][i]);
    oi(A[i].modified | H1.modified | H2.modified);
    osz(H2.usage);
    free(H1.text);
    free(H2.text);
  }
  rec_end();
  for (size_t i = 0; i < ncalls; ++i)
    free(A[i].text);
  heap_unscramble();
  poison_byte = savedPoison;
  ptok = endAll;
}

/* ---------- C19: concurrent environments ----------
 * case: nthreads ncalls (sub k len tokens..)*ncalls      (k is ignored)
 * reference records are computed sequentially, then nthreads threads each run all calls (thread t starts at call t)
 * on an environment of their own; record: nthreads ncalls totalRuns mismatches modified */
typedef struct
{
  size_t ncalls, first;
  int* sub;
  size_t* st;
  size_t* en;
  long long* tokens;
  size_t numTokens;
  CAPTURE* ref;
  int mismatches, modified;
} THREAD_JOB;

static void* thread_main(void* arg)
{
  THREAD_JOB* job = (THREAD_JOB*) arg;
  tok = job->tokens;
  ntok = job->numTokens;
  OUT = stdout;
  g_tl = DBL_MAX;
  CMR* env = NULL;
  if (CMRcreateEnvironment(&env))
    return NULL;
  nshadow = 0;
  for (size_t j = 0; j < job->ncalls; ++j)
  {
    size_t i = (job->first + j) % job->ncalls;
    CAPTURE T;
    run_captured(env, job->sub[i], job->st[i], job->en[i], &T);
    if (!same_capture(&job->ref[i], &T))
      ++job->mismatches;
    job->modified |= T.modified;
    free(T.text);
  }
  CMRfreeEnvironment(&env);
  free(shadow);
  shadow = NULL;
  memshadow = 0;
  return NULL;
}

static void do_threads(CMR* cmr)
{
  size_t nthreads = (size_t) nx();
  size_t ncalls = (size_t) nx();
  if (ncalls > MAX_CALLS || nthreads > 32)
    exit(3);
  int sub[MAX_CALLS];
  size_t st[MAX_CALLS], en[MAX_CALLS];
  for (size_t i = 0; i < ncalls; ++i)
  {
    sub[i] = (int) nx();
    nx();
    size_t len = (size_t) nx();
    st[i] = ptok;
    en[i] = ptok + len;
    ptok += len;
    if (sub[i] < 0 || sub[i] >= NUM_SUB_APIS || en[i] > ntok)
      exit(3);
  }
  size_t endAll = ptok;
  CAPTURE A[MAX_CALLS];
  clk_jump_at = -1;
  g_tl = DBL_MAX;
  for (size_t i = 0; i < ncalls; ++i)
    run_captured(cmr, sub[i], st[i], en[i], &A[i]);
  pthread_t th[32];
  THREAD_JOB jobs[32];
  for (size_t t = 0; t < nthreads; ++t)
  {
    jobs[t].ncalls = ncalls;
    jobs[t].first = t;
    jobs[t].sub = sub;
    jobs[t].st = st;
    jobs[t].en = en;
    jobs[t].tokens = tok;
    jobs[t].numTokens = ntok;
    jobs[t].ref = A;
    jobs[t].mismatches = 0;
    jobs[t].modified = 0;
    pthread_create(&th[t], NULL, thread_main, &jobs[t]);
  }
  int mism = 0, modified = 0;
  for (size_t t = 0; t < nthreads; ++t)
  {
    pthread_join(th[t], NULL);
    mism += jobs[t].mismatches;
    modified |= jobs[t].modified;
  }
  rec_begin();
  osz(nthreads);
  osz(ncalls);
  osz(nthreads * ncalls);
  oi(mism);
  oi(modified);
  rec_end();
  for (size_t i = 0; i < ncalls; ++i)
    free(A[i].text);
  ptok = endAll;
}

int main(int argc, char** argv)
{
  if (argc < 2)
  {
    fprintf(stderr, "usage: drive <api>\n");
    return 2;
  }
  OUT = stdout;
  handler fn = NULL;
  for (int i = 0; apis[i].name; ++i)
    if (!strcmp(apis[i].name, argv[1]))
      fn = apis[i].fn;
  if (!fn)
  {
    fprintf(stderr, "drive: unknown api %s\n", argv[1]);
    return 2;
  }
  /* per-case watchdog: a case that runs longer than DRIVE_CASE_SECONDS (default 20) or needs more than
   * DRIVE_MEM_MB (default 2048, non-sanitized builds only) kills the process; the caller records it as "no result". */
  unsigned caseSeconds = getenv("DRIVE_CASE_SECONDS") ? atoi(getenv("DRIVE_CASE_SECONDS")) : 20;
#if !defined(__SANITIZE_ADDRESS__) && !defined(DRIVE_MSAN) && !defined(__SANITIZE_THREAD__)
  {
    struct rlimit rl;
    size_t mb = getenv("DRIVE_MEM_MB") ? atol(getenv("DRIVE_MEM_MB")) : 2048;
    rl.rlim_cur = rl.rlim_max = mb << 20;
    setrlimit(RLIMIT_AS, &rl);
  }
#endif
  bool wantTrace = getenv("DRIVE_STACK_TRACE") != NULL;
  if (getenv("DRIVE_POISON"))
    poison_byte = atoi(getenv("DRIVE_POISON"));
  /* everything the harness itself keeps across cases is allocated before heap accounting starts */
  static char outbuf[1 << 16];
  setvbuf(stdout, outbuf, _IOFBF, sizeof(outbuf));
  trace = malloc(MAX_TRACE * sizeof(STACK_EVENT));
  memshadow = 1 << 16;
  shadow = malloc(memshadow * sizeof(SHADOW));
  bool leakCheck = strcmp(argv[1], "threads") != 0;   /* thread stacks and TLS blocks are cached by libc */
  while (read_case(stdin))
  {
    alarm(caseSeconds);
    size_t heap0 = heap_bytes();
    CMR* cmr = NULL;
    die_on(CMRcreateEnvironment(&cmr), "CMRcreateEnvironment");
    nshadow = 0;
    ntrace = 0;
    trace_overflow = false;
    tracing = wantTrace;
    input_modified = 0;
    fn(cmr);
    tracing = false;
    size_t usage = CMRgetStackUsage(cmr);
    CMRfreeEnvironment(&cmr);
    size_t heap1 = heap_bytes();
    /* flag lines follow the record of the case they belong to:
     *  S u   scratch stack not back at its pre-call level (u bytes in use when the handler returned)
     *  M f   an input matrix was modified (1) / stack chunks were freed out of order (2)
     *  L b   b bytes of heap memory are still allocated after everything was released (ASan builds)
     *  T ..  the stack event trace (DRIVE_STACK_TRACE): dbg n (kind size usage)*n, or "T overflow" */
    if (usage)
      printf("S %zu\n", usage);
    if (input_modified)
      printf("M %d\n", input_modified);
    if (wantTrace)
    {
      if (trace_overflow)
        printf("T overflow\n");
      else
      {
#if defined(NDEBUG)
        printf("T 0 %zu", ntrace);
#else
        printf("T 1 %zu", ntrace);
#endif
        for (size_t i = 0; i < ntrace; ++i)
          printf(" %lld %lld %lld", trace[i].kind, trace[i].size, trace[i].usage);
        printf("\n");
      }
    }
    if (leakCheck && heap1 > heap0)
    {
      printf("L %zu\n", heap1 - heap0);
      fflush(stdout);
#if defined(__SANITIZE_ADDRESS__)
      /* print where the lost blocks were allocated, then restart (LeakSanitizer reports are cumulative) */
      __lsan_do_recoverable_leak_check();
      _exit(7);
#endif
    }
    fflush(stdout);
  }
  return 0;
}
