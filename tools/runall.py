#!/usr/bin/env python3
"""runall.py [quick|thorough] [ids...] — run the registered checks one after the other on the current tree and print one line each."""
import subprocess, sys, os, json, time
VERIF = os.path.dirname(os.path.dirname(os.path.abspath(__file__)))
tier = sys.argv[1] if len(sys.argv) > 1 and sys.argv[1] in ("quick", "thorough") else "quick"
ids = [a.upper() for a in sys.argv[1:] if a not in ("quick", "thorough")] or \
      [c["property_id"] for c in json.load(open(os.path.join(VERIF, "MANIFEST.json")))["checks"]]
bad = 0
for i in ids:
    t0 = time.time()
    r = subprocess.run(["python3", os.path.join(VERIF, "tools", "check.py"), i, tier], cwd=VERIF, capture_output=True, text=True)
    last = [l for l in r.stdout.strip().split("\n") if l][-1:] or [""]
    kf = sum(1 for l in r.stdout.split("\n") if l.startswith("KNOWN-FINDING"))
    print("%s exit=%d known=%d %5.0fs  %s" % (i, r.returncode, kf, time.time() - t0, last[0][:150]))
    sys.stdout.flush()
    bad += r.returncode != 0
sys.exit(1 if bad else 0)
