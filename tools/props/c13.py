"""C13 — pivots."""
import itertools, vlib, gen
from vlib import mat_line, all_matrices, rand_matrix

RULE = ("all 0/1 (binary pivot) and {-1,0,1} (ternary, regular pivot) matrices with m*n <= bound x all positions "
        "(zero positions exercise the error path) x all pivot sequences with pairwise distinct rows/columns up to "
        "length 3 (sampled beyond the bound); result compared exactly with the Coq pivot model, and the sequence call "
        "with the same pivots applied one at a time; non-trivial = distinct case with a nonzero pivot entry")
CODES = {1: "malformed record / ill-formed CSR", 40: "zero pivot entry must give CMR_ERROR_INPUT",
         41: "pivot call failed", 42: "pivot result differs from the field-arithmetic model",
         43: "one-by-one pivot call failed", 44: "one-by-one pivots differ from the model (sequence != one by one)",
         45: "violator reported although the pivots stay within {-1,0,1}", 46: "regular pivot call failed",
         47: "regular pivot violator is not a submatrix with |det| >= 2",
         48: "rational pivot leaves {-1,0,1} but a matrix (or no violator) was returned"}


def seqs(m, n, maxlen):
    for k in range(1, maxlen + 1):
        for rs in itertools.permutations(range(m), k):
            for cs in itertools.permutations(range(n), k):
                yield rs, cs


def keyfn(line, code):
    t = line.split()
    q, m, n = int(t[0]), int(t[1]), int(t[2])
    np = int(t[3 + m * n])
    if q == -3 and np >= 2 and code in (46, 47, 48):
        return "CMRchrmatRegularPivots:numPivots>=2:intermediate-entry-leaves-range"
    return line


def run(ctx):
    ctx.stream("leaf", gen.leaf_lines(ctx.rng.fork("leaf"), (0, 1), 2000 if ctx.quick else 100000),
               "leaf functions (moduloNonnegative / moduloTernary): compiled C vs. the definition translated from the C text vs. the specification",
               describe=lambda c: gen.LEAF_CODES.get(c, str(c)))
    lines = []
    bound = 6 if ctx.quick else 9
    for q, alpha in ((2, (0, 1)), (3, (-1, 0, 1)), (-3, (-1, 0, 1))):
        for m in range(1, 4):
            for n in range(1, 4):
                if m * n > bound:
                    continue
                for M in all_matrices(m, n, alpha):
                    base = "%d %s" % (q, mat_line(M, m, n))
                    for rs, cs in seqs(m, n, 2 if m * n > 6 else 3):
                        k = len(rs)
                        lines.append("%s %d %s %d %s" % (base, k, " ".join(map(str, rs)), k, " ".join(map(str, cs))))
    rng = ctx.rng.fork("pivot")
    for _ in range(3000 if ctx.quick else 40000):
        q = rng.choice([2, 3, -3])
        m, n = 2 + rng.below(6), 2 + rng.below(6)
        M = rand_matrix(rng, m, n, (0, 1) if q == 2 else (-1, 0, 1), 3 + rng.below(6), 10)
        k = 1 + rng.below(min(m, n, 4))
        rs = rng.shuffle(list(range(m)))[:k]
        cs = rng.shuffle(list(range(n)))[:k]
        lines.append("%d %s %d %s %d %s" % (q, mat_line(M, m, n), k, " ".join(map(str, rs)), k, " ".join(map(str, cs))))
    # dense matrices with long pivot sequences (aggregated values grow with every pivot)
    for _ in range(1500 if ctx.quick else 30000):
        q = rng.choice([2, 3, 3])
        m, n = 4 + rng.below(5), 4 + rng.below(5)
        M = rand_matrix(rng, m, n, (0, 1) if q == 2 else (-1, 1, -1, 1, 0), 9 + rng.below(2), 10)
        k = 3 + rng.below(min(m, n) - 2)
        rs = rng.shuffle(list(range(m)))[:k]
        cs = rng.shuffle(list(range(n)))[:k]
        lines.append("%d %s %d %s %d %s" % (q, mat_line(M, m, n), k, " ".join(map(str, rs)), k, " ".join(map(str, cs))))
    ctx.stream("pivot", lines, "pivots: exhaustive small + random", describe=lambda c: CODES.get(c, str(c)),
               nontrivial=lambda l, r: " 1 " in r, keyfn=keyfn)
