"""C18 — a time limit never changes an answer: correct result or a clean timeout.

Harness mode `tlimit` (harness/drive.c): clock() is intercepted at link time.  For a case of one of the time-limited
entry points the handler is run without limit on a fresh environment (reference record, N clock reads), then for every
k = 0..N on a fresh environment with a 1000 s limit and a clock that jumps by 2000 s at its k-th read, then once more
without limit on that same environment.  The extracted Coq judge_tlimit decides every injected run.
The reference records themselves are judged against the definitions by the functional properties (same generators).
"""
import importlib, hashlib, os
import vlib
from props import c11

LEVEL = "proof"
RULE = ("cases of the generators of C01/C02/C03/C05/C06/C08/C09/C15/C17 (entry points CMRtuTest, CMRregularTest, "
        "CMRtuCompleteDecomposition / CMRregularCompleteDecomposition / CMRregularRefineDecomposition, "
        "CMRgraphicTest*, CMRnetworkTest*, CMRspTest*/CMRspDecompose*, CMRcamionTestSigns/ComputeSigns, CMRctuTest, "
        "CMRbalancedTest), sampled per stream; for each: every k in 0..N (N = clock reads of the unlimited run; quick "
        "tier: at most 64, thorough tier at most 1200 evenly spread k per case; all k for the deep 3-sum family) on the ASan+UBSan build; non-trivial = distinct (case, k) in which the "
        "limited call actually returned CMR_ERROR_TIMEOUT")
TRUSTED = ["link-time interception of clock() (-Wl,--wrap=clock): read r returns r ticks, from read k on 2000 s more; "
           "TimeoutModel.v states this schedule and the remaining-time rule by hand (not translated from the 88 call sites)",
           "record comparison is textual equality of the harness records (verdicts, certificates, trees, statistics excluded)"]
ASSUMPTIONS = ["the cleanup code on the timeout exits is exercised, not modelled: leaks and unbalanced stacks are runtime "
               "observations (heap byte accounting + LeakSanitizer, CMRgetStackUsage); the theorems cover the injection "
               "schedule, the decision rule and the allocator discipline",
               "only the clock reads that the unlimited run of a case performs are injection points (as the property's "
               "quantifier says); time-limited functions not driven by the harness (equimodular/unimodular tests are "
               "covered by C16's stream) are listed in DESIGN.md"]
SUBS = {"ctu_test": 1, "tu": 2, "regular": 4, "sp": 6, "balanced": 7, "graphic": 8, "network": 9, "camion": 11, "tree": 14, "equimod": 18}
SOURCES = ["c15", "c01", "c02", "c08", "c17", "c05", "c06", "c09", "c03", "c16"]
CODES = {1: "malformed record", 60: "after a timeout the same environment no longer reproduces the reference answer",
         61: "scratch stack not balanced after the time-limited call", 62: "scratch stack not balanced after the retry",
         63: "heap memory lost", 64: "an input matrix was modified",
         65: "call under a time limit succeeded with an answer different from the unlimited run",
         66: "timeout, but an output object was handed out (output pointer not NULL)"}


class Collector:
    def __init__(self, ctx, cap, maxk):
        self.ctx, self.cap, self.maxk = ctx, cap, maxk
        self.quick = ctx.quick
        self.rng = ctx.rng.fork("c18-collector")
        self.notes = []
        self.drive = ctx.drive
        self.lines = []

    def stream(self, api, lines, family, cfg="rel", judge_api=None, describe=None, nontrivial=None,
               extra_defs=(), tag=None, env=None, drive_api=None, keyfn=None, ignore_codes=()):
        if not lines:
            return [], []
        api = drive_api or api
        if api in SUBS and not extra_defs:
            idx = list(range(len(lines)))
            r = self.rng.fork(family)
            idx = r.shuffle(idx)[:(1 if "corpus" in family else self.cap)]
            for i in idx:
                self.lines.append(("%d %d %s" % (SUBS[api], self.maxk, lines[i]), api, keyfn))
        return [None] * len(lines), [0] * len(lines)


def first_bad_k(rec):
    """the k of the first injected run that breaks the decision rule (only used to look up the call-site key)"""
    t = [int(x) for x in rec.split()]
    for j in range(t[2]):
        k, to, nn, sb, sc, ub, uc, lk, md = t[3 + 9 * j: 12 + 9 * j]
        if ub or lk or (to == 0 and sb != 1) or (to and nn) or md or uc or sc != 1:
            return k
    return None


def tl_key(api, keyfn, line, code, rec, xline):
    inner = line.split(None, 2)[2]
    if keyfn:
        k = keyfn(inner, "crash")
        if k != inner:
            return "tlimit:%s|%s|%s" % (api, code, k)
    k = first_bad_k(rec)
    sites = dict(p.split("=", 1) for p in (xline or "").split() if "=" in p)
    site = sites.get(str(k), "-")
    if site != "-":
        # the timeout exit (file:line of the innermost CMR_CALL that passed the timeout on) identifies the finding
        return "tlimit:%s|%s|exit=%s" % (api, code, site.split(":")[0] + ":" + site.split(":")[1] if ":" in site else site)
    return "tlimit:%s|%s|%s" % (api, code, inner)


def run(ctx):
    cap = 40 if ctx.quick else 600
    maxk = 64 if ctx.quick else 1200      # at most this many (evenly spread) injection points per case
    col = Collector(ctx, cap, maxk)
    for name in SOURCES:
        importlib.import_module("props." + name).run(col)
    # deep decompositions: 3-sums of a graphic and a cographic matroid (regular, 3-connected, neither graphic nor
    # cographic) drive the nested-minor sequence and the 3-separation search, whose clock reads come late (read 300 of
    # 325, say); every k is injected for them
    import gen
    drng = ctx.rng.fork("c18-deep")
    want = 30 if ctx.quick else 300
    tries = 0
    deep = 0
    while deep < want and tries < 50 * want:
        tries += 1
        M = gen.threesum_graphic_cographic(drng)
        if not M or len(M) * len(M[0]) > (80 if ctx.quick else 140):
            continue
        c = gen.rand_cfg(drng, stopflags=False, wantSub=0)
        c[0], c[1] = 0, 0
        api = ["regular", "tu", "tree"][deep % 3]
        inner = gen.cfg_line(c) + (" %d " % (deep % 2) if api == "tree" else " ") + vlib.mat_line(M)
        col.lines.append(("%d 0 %s" % (SUBS[api], inner), api, None))
        deep += 1
    # the strong variants run a second phase on the transpose: tall matrices of full column rank are equimodular (basis = all
    # columns, X = I) while their transpose usually is not, so the answer is decided in the second phase; every k is injected
    erng = ctx.rng.fork("c18-equistrong")
    for _ in range(60 if ctx.quick else 900):
        n = 2 + erng.below(3)
        extra = 2 + erng.below(3)
        M = [[1 if a == b else 0 for b in range(n)] for a in range(n)]          # an identity block: determinant gcd 1
        alpha = [-1, 1, 1, 0] if erng.below(4) else [-2, -1, 0, 1, 2, 3]    # ternary rows: the TU test of the transpose's X runs deep
        M += [[erng.choice(alpha) for _ in range(n)] for _ in range(extra)]
        M = erng.shuffle(M)
        m = len(M)
        col.lines.append(("%d 0 %d 0 %s" % (SUBS["equimod"], erng.choice([1, 3]), vlib.mat_line(M, m, n)), "equimod", None))
    evaluate(ctx, col.lines)


def evaluate(ctx, items):
    """run `tlimit` cases (line, api, keyfn) on the assertion + sanitizer build with the injected clock and judge them"""
    lines = [l for l, _, _ in items]
    exe = ctx.drive("dbg")
    env = dict(os.environ)
    env["ASAN_OPTIONS"] = "detect_leaks=1:allocator_may_return_null=1"
    env["DRIVE_CASE_SECONDS"] = "120" if ctx.quick else "900"   # a case is N+1 runs of the call (N clock reads), on a loaded machine
    flags = {}
    recs, crashes = vlib.run_drive(exe, "tlimit", lines, env=env, flags=flags)
    codes = vlib.run_judge("tlimit", recs)
    crashed = {i: (rc, err) for i, rc, err in crashes}
    ctx.evaluations += len(lines)
    runs = timeouts = 0
    for i, (line, api, keyfn) in enumerate(items):
        fam = ctx.families.setdefault("tlimit:" + api, {"cases": 0, "injected_runs": 0, "timeouts": 0, "rejected": 0,
                                                         "crashes": 0, "codes": {}})
        fam["cases"] += 1
        if recs[i] is None and i in vlib.LAST_SKIPPED:
            continue
        if recs[i] is None:
            rc, err = crashed.get(i, (None, ""))
            fam["crashes"] += 1
            inner = line.split(None, 2)[2]
            site = keyfn(inner, "crash") if keyfn else inner
            ck = vlib.refine_crash_key(c11.crash_key(rc, err), api, inner)
            ctx.violate("tlimit:%s|crash|%s" % (api, site if site != inner else ck),
                        "the process died under clock injection (exit %s): %s" % (rc, ck), "tlimit", line, None, "crash", "dbg", (), err)
            continue
        t = recs[i].split()
        nk = int(t[2])
        fam["injected_runs"] += nk
        runs += nk
        for j in range(nk):
            k, to = t[3 + 9 * j], int(t[4 + 9 * j])
            if to:
                fam["timeouts"] += 1
                timeouts += 1
                ctx.nontrivial.add(hashlib.md5((line + "|" + k).encode()).digest()[:8])
        f = flags.get(i, {})
        code = codes[i]
        if code != 0:
            fam["rejected"] += 1
            fam["codes"][str(code)] = fam["codes"].get(str(code), 0) + 1
            ctx.violate(tl_key(api, keyfn, line, code, recs[i], f.get("X")), CODES.get(code, str(code)) +
                        " [k=%s, timeout exit %s]" % (first_bad_k(recs[i]), f.get("X", "")[:200]), "tlimit", line, recs[i], code,
                        "dbg", (), f.get("Lreport", ""))
        for fl, what in (("S", "scratch stack unbalanced at the end of the case"), ("L", "heap memory lost in the reference run")):
            if fl in f and code == 0:
                ctx.violate("tlimit:%s|%s|%s" % (api, fl, line), what, "tlimit", line, recs[i], fl, "dbg", (), f.get("Lreport", ""))
    ctx.notes.append("%d injected runs, %d of them timed out" % (runs, timeouts))
    if lines:
        for k in (0, len(lines) // 2, len(lines) - 1):
            ctx.samples.append({"api": "tlimit", "case": lines[k][:300], "record": (recs[k] or "")[:300], "judge_code": codes[k]})
