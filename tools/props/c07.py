"""C07 — every 'not TU' answer carries a valid (and, for ternary input, minimal) violating submatrix."""
from props import c01
import gen

RULE = ("same streams as C01 with the violating submatrix requested, greedy and naive search alternating; the Coq "
        "checker check_violator (square, in range, duplicate-free, |det| >= 2) and, for ternary input under the "
        "decomposition algorithm, check_min_violator (|det| = 2, every matrix obtained by deleting one row or one column "
        "is TU) decide each returned submatrix; non-ternary input must yield a single entry; "
        "non-trivial = distinct case with >= 2 rows, >= 2 columns, >= 3 nonzeros")
CODES = c01.CODES
JUDGE_API = {}


def run(ctx):
    import clilib as _cls
    _cls.stream(ctx, "clisub", gen.cliverdict_lines(ctx.rng.fork("clisub0"), 0, 1, 300 if ctx.quick else 8000, (-1, 0, 1), 5, 5, 20, True, variants=[0, 1, 3, 4, 5, 6], tool_id=None),
                "cmr-tu -N: the written submatrix file vs. the matrix parsed from the input bytes",
                lambda c: gen.CLISUB_CODES.get(c, str(c)))
    ctx.stream("tu", c01.deep_cert_lines(ctx), "large 3-sum matrices, 'no' answers certified by their submatrix",
               judge_api="tu_cert", describe=lambda c: CODES.get(c, str(c)), nontrivial=c01.nontrivial, keyfn=c01.keyfn)
    lines = c01.tu_lines(ctx, 1)
    ctx.stream("tu", lines, "tu with violator requested", describe=lambda c: CODES.get(c, str(c)),
               nontrivial=c01.nontrivial, keyfn=c01.keyfn,
               ignore_codes=(31, 32))  # verdict errors are C01's business; C07 is conditional on the answer 'no'
