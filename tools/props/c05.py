"""C05 — graphic / cographic recognition is exact; the returned graph reproduces the matrix."""
import vlib, gen
from vlib import mat_line, all_matrices, rand_matrix, transpose

RULE = ("CMRgraphicTestMatrix and CMRgraphicTestTranspose with graph, forest and coforest requested: all 0/1 matrices with "
        "at most 4 rows (resp. columns for the transposed entry point) and m*n <= bound, verdict vs. the Coq brute-force "
        "definition graphic_bf; every 'yes' certified by the Coq-verified checker check_graph_cert (T acyclic, one edge per "
        "row/column, every column's support is the simple T-path between the ends of its coforest edge); matrices M(G,T) of "
        "random multigraphs (loops, parallel edges, isolated nodes, several components) with random forests and line orders, "
        "and of graphs glued from 3-connected pieces, polygons and bonds along edges, with the generating graph as a witness the judge verifies (expected yes); random matrices around non-graphic cores "
        "verified by the oracle (expected no); single-entry corruptions; non-trivial = distinct case with >= 2 rows and columns "
        "and >= 3 nonzeros")
CODES = {1: "malformed record", 90: "call failed", 91: "verdict not written", 92: "verdict differs from the definition (brute force, <= 4 rows)",
         93: "returned graph/forest/coforest do not reproduce the matrix", 94: "graphic but no graph returned", 95: "graph returned for a non-graphic matrix",
         96: "matrix with a verified graph witness reported non-(co)graphic", 97: "matrix containing a verified non-graphic submatrix reported (co)graphic"}


def nontrivial(line, rec):
    t = line.split()
    m, n = int(t[1]), int(t[2])
    return m >= 2 and n >= 2 and sum(1 for x in t[3:3 + m * n] if x != "0") >= 3


def run(ctx):
    ctx.stream("regular_cert", gen.regular_cert_lines(ctx.rng.fork("regular_cert"), 800 if ctx.quick else 20000),
               "CMRregularTest on graphic / cographic matrices of every size, certified by their graph (graphic => regular: GraphicRegular.v)",
               describe=lambda c: gen.REGULAR_CERT_CODES.get(c, str(c)), nontrivial=lambda l, r: True)
    import clilib as _cl
    _cl.stream(ctx, "cligraphout", gen.cligraphout_lines(ctx.rng.fork("cligraphout"), 500 if ctx.quick else 12000, 0),
               "cmr-graphic [-t] -G: the written graph file, parsed by the Coq edge-list grammar, is a certificate for the matrix parsed from the input bytes",
               lambda c: gen.CLIGRAPHOUT_CODES.get(c, str(c)))
    import clilib
    clilib.stream(ctx, "cliverdict", gen.cliverdict_lines(ctx.rng.fork("cliverdict"), 2, 2, 400 if ctx.quick else 8000, (0, 1), 4, 4, 16, False),
                  "cmr-graphic [-t]: verdict line vs. the definition-level oracle on the matrix parsed from the input bytes",
                  lambda c: gen.CLIVERDICT_CODES.get(c, str(c)))
    q = ctx.quick
    lines = []
    bound = 12 if q else 20
    for m in range(0, 5):
        for n in range(0, 7):
            if m * n > bound:
                continue
            for M in all_matrices(m, n, (0, 1)):
                lines.append("0 %s 0" % mat_line(M, m, n))
                lines.append("1 %s 0" % mat_line(transpose(M, m, n), n, m))
    rng = ctx.rng.fork("graphic")
    for _ in range(600 if q else 6000):
        nv = 2 + rng.below(12 if q else 40)
        ne = nv + rng.below(2 * nv if q else 4 * nv)
        M, w = gen.graph_instance(rng, nv, ne, False)
        if not M or not M[0]:
            continue
        m, n = len(M), len(M[0])
        tr = rng.below(2)
        if tr:
            lines.append("1 %s %s" % (mat_line(transpose(M, m, n), n, m), w))
        else:
            lines.append("0 %s %s" % (mat_line(M, m, n), w))
        if rng.below(3) == 0:
            C = gen.corrupt(rng, M, (0, 1))
            lines.append("%d %s 0" % (0, mat_line(C, m, n)))
    # graphs glued from 3-connected pieces, polygons and bonds along edges: the member types and path configurations
    # the typing code of the column-addition algorithm distinguishes (expected yes, witness verified by the judge)
    for _ in range(3000 if q else 40000):
        nv, E = gen.glued_graph(rng)
        M, w = gen.graph_instance(rng, nv, len(E), False, loops=False, edges=E)
        if not M or not M[0]:
            continue
        m, n = len(M), len(M[0])
        if rng.below(2):
            lines.append("1 %s %s" % (mat_line(transpose(M, m, n), n, m), w))
        else:
            lines.append("0 %s %s" % (mat_line(M, m, n), w))
    # larger ones: 6..14 pieces, where members get several children and components are re-rooted between columns
    for _ in range(4000 if q else 50000):
        nv, E = gen.glued_graph(rng, 6 + rng.below(9))
        M, w = gen.graph_instance(rng, nv, len(E), False, loops=False, edges=E)
        if not M or not M[0]:
            continue
        m, n = len(M), len(M[0])
        if rng.below(2):
            lines.append("1 %s %s" % (mat_line(transpose(M, m, n), n, m), w))
        else:
            lines.append("0 %s %s" % (mat_line(M, m, n), w))
    # long polygons with pieces glued onto several of their edges: large series members with several children (the root-series
    # cases of the apply phase: paths through two or more consecutive series edges between two children)
    for _ in range(8000 if q else 120000):
        nv, E = gen.polygon_hub_graph(rng)
        M, w = gen.graph_instance(rng, nv, len(E), False, loops=False, edges=E)
        if not M or not M[0]:
            continue
        m, n = len(M), len(M[0])
        if rng.below(2):
            lines.append("1 %s %s" % (mat_line(transpose(M, m, n), n, m), w))
        else:
            lines.append("0 %s %s" % (mat_line(M, m, n), w))
    # perturbed structured matrices: one to three flipped entries in M(G,T) of glued graphs - mostly non-graphic, so the
    # column-addition algorithm has to REJECT a column inside a rich decomposition (every path/typing rule on its "no" side);
    # a wrong "yes" is caught by its certificate (code 93), a "no" is compared with the oracle up to 4 rows
    for _ in range(30000 if q else 300000):
        nv, E = gen.glued_graph(rng, 2 + rng.below(9))
        M, w = gen.graph_instance(rng, nv, len(E), False, loops=False, edges=E)
        if not M or not M[0]:
            continue
        for _k in range(1 + rng.below(3)):
            M = gen.corrupt(rng, M, (0, 1))
        m, n = len(M), len(M[0])
        if rng.below(2):
            lines.append("1 %s 0" % mat_line(transpose(M, m, n), n, m))
        else:
            lines.append("0 %s 0" % mat_line(M, m, n))
    cores = [gen.F7, gen.F7T, gen.K33_DUAL]
    for _ in range(300 if q else 3000):
        core = rng.choice(cores)
        M, rs, cs = gen.embed_core(rng, core, rng.below(5), rng.below(5))
        w = "2 %d %s %d %s" % (len(rs), " ".join(map(str, rs)), len(cs), " ".join(map(str, cs)))
        tr = rng.below(2)
        m, n = len(M), len(M[0])
        if tr:
            lines.append("1 %s %s" % (mat_line(transpose(M, m, n), n, m), w))
        else:
            lines.append("0 %s %s" % (mat_line(M, m, n), w))
    ctx.stream("graphic", lines, "graphic: exhaustive <= 4 rows, constructed with witnesses, cores, corruptions",
               describe=lambda c: CODES.get(c, str(c)), nontrivial=nontrivial)
