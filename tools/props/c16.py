"""C16 — equimodular / unimodular verdict and determinant gcd follow the documentation."""
import itertools, os, vlib
from vlib import mat_line, all_matrices, rand_matrix

LEVEL = "proof"
RULE = ("CMRequimodularTest / TestStrong (no k, the right k, a wrong k) and CMRunimodularTest / TestStrong vs. the Coq "
        "definition-level oracle equimod_all (all column bases x ternary solutions X x TU oracle): all integer matrices "
        "with entries in {-2..2} up to m*n <= bound, all {-3..3} 2x2, random matrices up to 4x5 with entries up to 6 incl. "
        "rank-deficient ones (random row/column combinations), products B*X of a random basis with a network matrix "
        "(equimodular by construction with k > 1), nonsingular square matrices, and matrices with entries near 2^31 "
        "(only CMR_OKAY with the right answer or CMR_ERROR_OVERFLOW is accepted); "
        "non-trivial = distinct case with at least 2 rows, 2 columns, 3 nonzeros")
CODES = {1: "malformed record", 80: "call failed", 81: "verdict not written",
         82: "equimodular/unimodular verdict differs from the definition",
         83: "reported determinant gcd is not the gcd of the definition",
         84: "CMR_ERROR_OVERFLOW although all entries are small"}


def nontrivial(line, rec):
    t = line.split()
    m, n = int(t[2]), int(t[3])
    return m >= 2 and n >= 2 and sum(1 for x in t[4:] if x != "0") >= 3


# Recorded finding: the back-substitution of CMRequimodularTest uses the wrong entries.  A rejected case is attributed
# to that finding only if the library built with the recorded two-line repair (known_patches/c16-backsubstitution.diff,
# which cannot be committed because the pinned test Equimodular.GMP asserts the wrong answer) is accepted by the judge
# on the very same case; every other rejection keeps its own key and is reported.
REPAIR = os.path.join(vlib.VERIF, "known_patches", "c16-backsubstitution.diff")
EXPLAINED = set()


def attribute(ctx, lines, api="equimod", badcodes=(82, 83)):
    """run the stream once, re-run the rejected cases on the repaired build, remember those that pass there"""
    exe = ctx.drive("rel")
    recs, _ = vlib.run_drive(exe, api, lines)
    codes = vlib.run_judge(api, recs)
    bad = [l for l, r, c in zip(lines, recs, codes) if r is not None and c in badcodes]
    if not bad:
        return
    fixed = vlib.build_drive("rel", tag="c16repair", repair=REPAIR)
    recs2, _ = vlib.run_drive(fixed, api, bad)
    codes2 = vlib.run_judge(api, recs2)
    for l, r, c in zip(bad, recs2, codes2):
        if r is not None and c == 0:
            EXPLAINED.add(l)
    ctx.notes.append("%d rejected case(s), %d of them accepted on the build with the recorded back-substitution repair"
                     % (len(bad), len(EXPLAINED)))


def keyfn(line, code):
    if code in (82, 83, 452, 453) and line in EXPLAINED:
        return "back-substitution"
    return line


def lines_for(M, m, n, rng, ks=(0,)):
    ml = mat_line(M, m, n)
    out = []
    for variant in (0, 1, 2, 3):
        for k in (ks if variant < 2 else (0,)):
            out.append("%d %d %s" % (variant, k, ml))
    return out


def run(ctx):
    import gen as _gen
    ctx.stream("leaf", _gen.leaf_lines(ctx.rng.fork("leaf-gcd"), (11, 12, 13), 3000 if ctx.quick else 150000),
               "gcdExt of the int64 row reduction (through the hook CMRverifGcdExt): compiled function vs. the Gallina function generated "
               "from its C text (while loop, out-pointers) and vs. its proved specification (gcd, Bezout identity, zero cofactors)",
               describe=lambda c: {1: "malformed record", 340: "call undefined by the translated C text", 341: "translated and compiled "
                                   "function disagree", 342: "specification violated"}.get(c, str(c)), nontrivial=lambda l, r: True)
    cert = _gen.equi_cert_lines(ctx.rng.fork("equi_cert"), 1500 if ctx.quick else 40000, 10 if ctx.quick else 14)
    attribute(ctx, cert, "equi_cert", (452, 453))
    ctx.stream("equi_cert", cert, "equimodular / unimodular tests on certified matrices L*X of every size (|det L| from the row "
               "operations, X a network matrix with identity columns; value unique: EquiUnique.v)",
               describe=lambda c: _gen.EQUI_CERT_CODES.get(c, str(c)), nontrivial=lambda l, r: True, keyfn=keyfn)
    q = ctx.quick
    rng = ctx.rng.fork("equimod")
    lines = []
    bound = 4 if q else 6
    for m in range(1, 4):
        for n in range(1, 4):
            if m * n > bound:
                continue
            for M in all_matrices(m, n, (-2, -1, 0, 1, 2)):
                lines += lines_for(M, m, n, rng, (0, 1, 2))
    for M in all_matrices(2, 2, (-3, -2, -1, 0, 1, 2, 3)):
        lines += lines_for(M, 2, 2, rng, (0, 3))
    for M in all_matrices(2, 3, (-1, 0, 1)):
        lines += lines_for(M, 2, 3, rng, (0, 1))
    for M in all_matrices(3, 3, (0, 1)):
        lines += lines_for(M, 3, 3, rng, (0, 2))
    import gen
    for _ in range(400 if q else 8000):
        m, n = 2 + rng.below(3), 2 + rng.below(4)
        kind = rng.below(5)
        if kind == 0:
            M = rand_matrix(rng, m, n, tuple(range(-6, 7)), 4 + rng.below(5), 10)
        elif kind == 1:
            # rank-deficient: rows are combinations of fewer rows
            r = 1 + rng.below(min(m, n))
            base = rand_matrix(rng, r, n, (-2, -1, 0, 1, 2), 6, 10)
            M = []
            for i in range(m):
                co = [rng.below(5) - 2 for _ in range(r)]
                M.append([sum(co[a] * base[a][j] for a in range(r)) for j in range(n)])
        elif kind == 2:
            # B * X with X = [I | network-ish TU part], B a random nonsingular-ish r x r block stacked with combinations
            r = 1 + rng.below(min(m, n))
            X = [[1 if i == j else 0 for j in range(r)] for i in range(r)]
            N = gen.network_matrix(rng, r + 1, n - r) if n > r else [[] for _ in range(r)]
            X = [X[i] + list(N[i])[:n - r] for i in range(r)]
            Bm = rand_matrix(rng, m, r, (-3, -2, -1, 0, 1, 2, 3), 7, 10)
            M = [[sum(Bm[i][a] * X[a][j] for a in range(r)) for j in range(n)] for i in range(m)]
            perm = rng.shuffle(list(range(n)))
            M = [[row[p] for p in perm] for row in M]
        elif kind == 3:
            s = 2 + rng.below(3)
            m = n = s
            M = rand_matrix(rng, s, s, (-3, -2, -1, 0, 1, 2, 3), 6, 10)
        else:
            M = rand_matrix(rng, m, n, (-1, 0, 1), 5, 10)
        if not M or not M[0]:
            continue
        lines += lines_for(M, len(M), len(M[0]), rng, (0, 1 + rng.below(4)))
    big = []
    for _ in range(60 if q else 1500):
        m, n = 2 + rng.below(2), 2 + rng.below(2)
        M = [[(rng.choice([-1, 1]) * (2 ** (20 + rng.below(11)) - rng.below(3))) if rng.below(3) else rng.below(3) - 1
              for _ in range(n)] for _ in range(m)]
        big += lines_for(M, m, n, rng, (0,))
    attribute(ctx, lines + big)
    ctx.stream("equimod", lines, "equimodular/unimodular: exhaustive small, random, constructed, nonsingular",
               describe=lambda c: CODES.get(c, str(c)), nontrivial=nontrivial, keyfn=keyfn)
    ctx.stream("equimod", big, "entries near the 32/64-bit boundary", describe=lambda c: CODES.get(c, str(c)),
               nontrivial=nontrivial, keyfn=keyfn)
