"""C09 — Camion signing keeps support, is idempotent, gives TU on regular supports."""
import vlib, gen
from vlib import mat_line, all_matrices, rand_matrix

RULE = ("CMRcamionTestSigns / CMRcamionComputeSigns (on a copy), then the test and the signing again on the output: all "
        "{-1,0,1} matrices with m*n <= bound (all signings of all supports, both orientations), random up to 6x6, structured "
        "(network, R10, R12, F7, sums; scaled, permuted, corrupted): support and shape kept, test = 'signing changes nothing', "
        "output passes the test, signing twice is the identity, TU => test yes, regular support (Coq oracle) => output TU and "
        "(test yes => TU); violators: two nonzeros per line and determinant +-2; non-trivial = distinct case with >= 2 rows and "
        "columns and >= 4 nonzeros")
CODES = {1: "malformed record", 120: "a call failed", 121: "a verdict flag was not written", 122: "signing changed shape or support",
         123: "test verdict differs from 'signing leaves the matrix unchanged'", 124: "wasCamionSigned flag differs from 'unchanged'",
         125: "signed output does not pass the test", 126: "signing is not idempotent", 127: "a TU matrix is reported not Camion-signed",
         128: "regular support but signed output is not TU", 129: "regular support, test says yes, but the matrix is not TU",
         130: "violator is not a square submatrix with two nonzeros per line and determinant +-2", 131: "violator returned although Camion-signed",
         132: "signed matrix missing"}


def run(ctx):
    q = ctx.quick
    lines = []
    bound = 9 if q else 12
    for m in range(0, 5):
        for n in range(0, 5):
            if m * n <= bound:
                for M in all_matrices(m, n, (-1, 0, 1)):
                    lines.append(mat_line(M, m, n))
    rng = ctx.rng.fork("camion")
    for _ in range(3000 if q else 40000):
        m, n = 2 + rng.below(5), 2 + rng.below(5)
        if m * n > 20:
            n = 20 // m
        lines.append(mat_line(rand_matrix(rng, m, n, (-1, 0, 1), 3 + rng.below(6), 10), m, n))
    for _ in range(3000 if q else 40000):
        M = gen.structured(rng, 6, True)
        if M and M[0]:
            lines.append(mat_line(M))
    # large connected blocks (>= 100 rows and columns in both orientations): network matrices, a third with one or two
    # signs corrupted; decided without the TU oracle (support kept, test = unchanged, idempotent, violators are +-2 holes)
    big = []
    for i in range(16 if q else 300):
        nn, nc = 101 + rng.below(60), 100 + rng.below(80)
        M = gen.network_matrix(rng, nn, nc)
        if i % 3 == 1:
            M = gen.corrupt(rng, gen.corrupt(rng, M, (-1, 1)), (-1, 1))
        if i % 2:
            M = gen.scale(rng, gen.permute(rng, M))
        if i % 4 == 2:
            M = [list(r) for r in zip(*M)]
        big.append(mat_line(M))
    # a signing / test call that returns successfully under a finite time limit owes the same answer: every clock read of the
    # call is made the moment the limit expires (C18's injection, judge_tlimit) on multi-block matrices of unsigned and signed
    # network blocks - a block that ran out of time must come back as an error, never as "is Camion-signed"
    if hasattr(ctx, "families"):
        from props import c18 as _c18
        trng = ctx.rng.fork("camion-tlimit")
        items = []
        for i in range(24 if q else 400):
            M = None
            for _b in range(1 + trng.below(3)):
                B = gen.network_matrix(trng, 3 + trng.below(5), 3 + trng.below(5))
                if trng.below(2):
                    B = [[abs(x) for x in r] for r in B]
                M = B if M is None else gen.block_diag(M, B)
            if i % 2:
                M = gen.permute(trng, M)
            if i % 3 == 2:
                M = [list(r) for r in zip(*M)]
            items.append(("%d %d %s" % (_c18.SUBS["camion"], 0, mat_line(M)), "camion", None))
        _c18.evaluate(ctx, items)
    ctx.stream("camion_cert", gen.camion_cert_lines(rng.fork("camion_cert") if hasattr(rng, "fork") else ctx.rng.fork("camion_cert"),
                                                    1500 if q else 40000),
               "camion signing / test on matrices with certified regular support of every size: the output must be a scaling of the "
               "certified TU matrix, the test says yes exactly for scalings (Camion's theorem: CamionUnique.v)",
               describe=lambda c: gen.CAMION_CERT_CODES.get(c, str(c)), nontrivial=lambda l, r: True)
    ctx.stream("camion", big, "camion: large network blocks (>= 100 x 100)", describe=lambda c: CODES.get(c, str(c)),
               nontrivial=lambda l, r: True)
    ctx.stream("camion", lines, "camion: exhaustive small, random, structured", describe=lambda c: CODES.get(c, str(c)),
               nontrivial=lambda l, r: int(l.split()[0]) >= 2 and int(l.split()[1]) >= 2 and sum(1 for x in l.split()[2:] if x != "0") >= 4)
