"""C19 — recognition is pure: inputs untouched, results independent of history, repetition, scratch contents, threads.

Harness modes (harness/drive.c):
  hist     a sequence of calls (any of the harness' entry points, some of them ended by an injected timeout) is run on
           ONE environment, each call twice in a row; every record is compared byte for byte with the record of the
           same call on a fresh environment; the same call is also run with fresh scratch chunks filled with 0x00 and
           0xff instead of 0xa5; input matrices are compared bitwise with a snapshot taken before the call
  threads  the same calls run concurrently on N threads with an environment each (ThreadSanitizer build and plain
           build) and are compared with the sequential reference
The extracted Coq judges judge_hist / judge_threads decide the records.
"""
import importlib, hashlib, os
import vlib
from props import c11

LEVEL = "proof"
RULE = ("histories of 2..8 calls drawn from the case streams of all functional generators (C01..C20), each call also "
        "repeated, about a quarter of the calls cut short by a timeout injected at a random clock read; run on the "
        "ASan+UBSan build and on the MemorySanitizer build (scratch chunks re-poisoned on every allocation); thread "
        "workloads of 4..8 threads x 4..12 calls on the ThreadSanitizer build and the -O2 build; "
        "non-trivial = distinct (history, position) whose call was preceded by at least one other call")
TRUSTED = ["harness: byte-wise record comparison, input snapshots (CSR arrays), scratch-chunk fill patterns, pthreads driver",
           "gcc ThreadSanitizer / clang MemorySanitizer runtimes"]
ASSUMPTIONS = ["that no code path reads scratch or heap bytes before writing them, and that distinct environments share no "
               "mutable state, are runtime facts the Coq model cannot exhibit: they are observed on the explored histories "
               "and schedules (three fill patterns, MSan, TSan), not proved; the theorems cover the allocator state and "
               "the decision rules",
               "the two static string buffers (CMRelementString / CMRspReductionString with a NULL buffer) are only "
               "reachable through printing functions that recognition never calls with NULL outside debug output"]
SOURCES = ["c15", "c13", "c01", "c02", "c08", "c17", "c05", "c06", "c14", "c09", "c12", "c03", "c10", "c16", "c20"]
APIS = ["ctu_compl", "ctu_test", "tu", "tu_signed", "regular", "pivot", "sp", "balanced", "graphic", "network", "repmat",
        "camion", "kcompose", "kdecomp", "tree", "textread", "rel", "textwrite", "equimod"]
CODES = {1: "malformed record", 70: "result depends on the calls made before on the same environment",
         71: "the second of two identical calls in a row answers differently",
         72: "result depends on the bytes found in fresh scratch memory (uninitialised read)",
         73: "an input matrix was modified / scratch chunks freed out of order",
         74: "scratch stack not balanced after the call", 75: "a concurrent result differs from the sequential reference"}


class Pool:
    def __init__(self, ctx, cap):
        self.ctx, self.cap = ctx, cap
        self.quick = ctx.quick
        self.rng = ctx.rng.fork("c19-pool")
        self.notes = []
        self.drive = ctx.drive
        self.items = []

    def stream(self, api, lines, family, cfg="rel", judge_api=None, describe=None, nontrivial=None,
               extra_defs=(), tag=None, env=None, drive_api=None, keyfn=None, ignore_codes=()):
        if not lines:
            return [], []
        api = drive_api or api
        if api in APIS and not extra_defs:
            r = self.rng.fork(family)
            for i in r.shuffle(list(range(len(lines))))[:(1 if "corpus" in family else self.cap)]:
                if len(lines[i].split()) <= 400:
                    self.items.append((APIS.index(api), lines[i], keyfn))
        return [None] * len(lines), [0] * len(lines)


def call_tokens(sub, k, line):
    t = line.split()
    return "%d %d %d %s" % (sub, k, len(t), " ".join(t))


def known_site(calls):
    """a history containing a call that hits a recorded call-site finding keeps that key"""
    for sub, k, line, keyfn in calls:
        if keyfn:
            s = keyfn(line, "crash")
            if s != line:
                return s
    return None


def run(ctx):
    # the decomposition must not modify the matrices of its nodes either: trees of sign-scrambled R10 supports (the R10 step
    # judges signs on the node's own matrix) with re-completion scripts, decided by the tree judge (root matrix = input,
    # every node recomposes) - a second use of the same node must see the same matrix
    import gen as _gen
    from props import c03 as _c03
    trng = ctx.rng.fork("c19-r10")
    tl = []
    for M in _gen.r10_sign_scrambles(trng, 300 if ctx.quick else 6000):
        c = _gen.rand_cfg(trng, algorithm=0, stopflags=False, wantSub=0)
        c[1], c[16] = 1, 1
        k = 1 + trng.below(3)
        sc = "%d %s" % (k, " ".join("%d 1 %d" % (trng.choice([1, 2]), trng.below(3)) for _ in range(k)))
        tl.append("%s 0 %s %s" % (_gen.cfg_line(c), vlib.mat_line(M), sc))
    # re-completion histories on general trees: a subtree is reset and decomposed again (ops 1..4 of the script); whatever the
    # first decomposition left in the nodes must not leak into the second one (every node must still recompose)
    gen_tl = [l for l in _c03.tree_lines(ctx, "c19") if _c03.script_ops(l)]
    tl += gen_tl[:(4000 if ctx.quick else 60000)]
    ctx.stream("tree", tl, "node matrices stay untouched: sign-scrambled R10 supports with re-completion scripts",
               describe=lambda c: _c03.CODES.get(c, str(c)), ignore_codes=tuple(_c03.FLAGS), keyfn=_c03.keyfn)
    pool = Pool(ctx, 25 if ctx.quick else 200)
    for name in SOURCES:
        importlib.import_module("props." + name).run(pool)
    # matrices with several unbalanced blocks of different sizes: which block's violator is returned must not depend on
    # the heap addresses the blocks happen to get (the histories use and release heap memory between the calls)
    brng = ctx.rng.fork("c19-blocks")
    holes = [[[1, 1], [1, -1]], [[1, 1, 0], [0, 1, 1], [1, 0, 1]], [[1, 1, 0, 0], [0, 1, 1, 0], [0, 0, 1, 1], [1, 0, 0, -1]],
             [[1, -1, 0], [0, 1, 1], [1, 0, -1]]]
    for _ in range(40 if ctx.quick else 600):
        M = []
        for _k in range(2 + brng.below(3)):
            B = [r[:] for r in brng.choice(holes)]
            M = _gen.block_diag(M, B) if M else B
        pool.items.append((APIS.index("balanced"), "%d %d 1 %s" % (brng.choice([0, 1]), brng.below(2), vlib.mat_line(M)), None))
    rng = ctx.rng.fork("c19-hist")
    nh = 500 if ctx.quick else 12000
    hists = []
    for _ in range(nh):
        n = 2 + rng.below(7)
        calls = []
        for _ in range(n):
            sub, line, keyfn = pool.items[rng.below(len(pool.items))]
            k = rng.below(40) if rng.below(4) == 0 else -1
            calls.append((sub, k, line, keyfn))
        hists.append(calls)
    lines = ["%d %s" % (len(c), " ".join(call_tokens(s, k, l) for s, k, l, _ in c)) for c in hists]
    env = dict(os.environ)
    env["ASAN_OPTIONS"] = "detect_leaks=1:allocator_may_return_null=1"
    env["DRIVE_CASE_SECONDS"] = "120"
    for cfg, sub_n in (("dbg", len(lines)), ("msan", len(lines) // 4)):
        exe = ctx.drive(cfg)
        ls = lines[:sub_n]
        flags = {}
        recs, crashes = vlib.run_drive(exe, "hist", ls, env=env, flags=flags)
        codes = vlib.run_judge("hist", recs)
        crashed = {i: (rc, err) for i, rc, err in crashes}
        fam = ctx.families.setdefault("hist [%s]" % cfg, {"histories": 0, "calls": 0, "with_injected_timeout": 0,
                                                          "rejected": 0, "crashes": 0, "codes": {}})
        fam["histories"] += len(ls)
        ctx.evaluations += len(ls)
        for i, line in enumerate(ls):
            calls = hists[i]
            fam["calls"] += len(calls)
            fam["with_injected_timeout"] += sum(1 for c in calls if c[1] >= 0)
            site = known_site(calls)
            if recs[i] is None and i in vlib.LAST_SKIPPED:
                continue
            if recs[i] is None:
                rc, err = crashed.get(i, (None, ""))
                fam["crashes"] += 1
                ctx.violate("hist|crash|%s" % (site or vlib.refine_crash_key(c11.crash_key(rc, err), "hist", line)),
                            "%s build: the process died on a history (exit %s): %s" % (cfg, rc, c11.crash_key(rc, err)),
                            "hist", line, None, "crash", cfg, (), err)
                continue
            for j in range(1, len(calls)):
                ctx.nontrivial.add(hashlib.md5(("%s|%d" % (line, j)).encode()).digest()[:8])
            f = flags.get(i, {})
            if codes[i] != 0:
                fam["rejected"] += 1
                fam["codes"][str(codes[i])] = fam["codes"].get(str(codes[i]), 0) + 1
                # which call failed: first tuple that is not (.., .., 1,1,1,1,0,0)
                t = recs[i].split()
                bad = next((j for j in range(int(t[0])) if t[3 + 8 * j: 9 + 8 * j] != ["1", "1", "1", "1", "0", "0"]), 0)
                sub, k, cl, keyfn = calls[bad]
                key = "hist|%d|%s" % (codes[i], site or ("%s %s" % (APIS[sub], cl)))
                ctx.violate(key, CODES.get(codes[i], str(codes[i])) + " [call %d of the history: %s]" % (bad, APIS[sub]),
                            "hist", line, recs[i], codes[i], cfg)
            for fl, what in (("S", "scratch stack unbalanced at the end of the history"), ("L", "heap memory lost over the history")):
                if fl in f:
                    lk = c11.leak_key(f.get("Lreport", "")) if fl == "L" else "stack"
                    ctx.violate("hist|%s|%s" % (fl, site or lk), what + ": " + lk, "hist", line, recs[i], fl, cfg, (), f.get("Lreport", ""))
        if ls:
            k = len(ls) // 2
            ctx.samples.append({"api": "hist", "cfg": cfg, "case": ls[k][:400], "record": (recs[k] or "")[:300], "judge_code": codes[k]})
    # ---- threads -------------------------------------------------------------------------------------------
    trng = ctx.rng.fork("c19-threads")
    nt = 60 if ctx.quick else 1500
    tl, th = [], []
    for _ in range(nt):
        nthreads = 4 + trng.below(5)
        n = 4 + trng.below(9)
        calls = []
        for _ in range(n):
            sub, line, keyfn = pool.items[trng.below(len(pool.items))]
            if len(line.split()) > 150:
                continue
            calls.append((sub, -1, line, keyfn))
        if not calls or known_site(calls):
            continue
        th.append(calls)
        tl.append("%d %d %s" % (nthreads, len(calls), " ".join(call_tokens(s, k, l) for s, k, l, _ in calls)))
    tenv = dict(os.environ)
    tenv["TSAN_OPTIONS"] = "halt_on_error=1:exitcode=66"
    tenv["DRIVE_CASE_SECONDS"] = "120"
    for cfg in ("tsan", "rel"):
        exe = ctx.drive(cfg)
        recs, crashes = vlib.run_drive(exe, "threads", tl, env=tenv, shards=4 if cfg == "tsan" else vlib.NCPU)
        codes = vlib.run_judge("threads", recs)
        crashed = {i: (rc, err) for i, rc, err in crashes}
        fam = ctx.families.setdefault("threads [%s]" % cfg, {"workloads": 0, "thread_runs": 0, "rejected": 0, "crashes": 0})
        fam["workloads"] += len(tl)
        ctx.evaluations += len(tl)
        for i, line in enumerate(tl):
            if recs[i] is None:
                rc, err = crashed.get(i, (None, ""))
                fam["crashes"] += 1
                m = None
                import re
                m = re.search(r"WARNING: ThreadSanitizer: ([\w -]+) \(", err)
                loc = re.findall(r"#0 (\w+) /repo/src/cmr/([\w.]+):", err)
                key = "threads|crash|%s" % ((m.group(1).strip() + ":" + ",".join(sorted(set(a for a, _ in loc[:2])))) if m
                                            else vlib.refine_crash_key(c11.crash_key(rc, err), "threads", line))
                ctx.violate(key, "%s build: the concurrent workload died (exit %s): %s" % (cfg, rc, key), "threads", line, None,
                            "crash", cfg, (), err)
                continue
            fam["thread_runs"] += int(recs[i].split()[2])
            ctx.nontrivial.add(hashlib.md5(("threads|" + line).encode()).digest()[:8])
            if codes[i] != 0:
                fam["rejected"] += 1
                ctx.violate("threads|%d|%s" % (codes[i], line), CODES.get(codes[i], str(codes[i])), "threads", line, recs[i],
                            codes[i], cfg)
        if tl:
            ctx.samples.append({"api": "threads", "cfg": cfg, "case": tl[0][:400], "record": recs[0], "judge_code": codes[0]})
