"""C06 — network / conetwork recognition is exact, with a sign-correct digraph certificate."""
import vlib, gen
from vlib import mat_line, all_matrices, rand_matrix, transpose

RULE = ("CMRnetworkTestMatrix / CMRnetworkTestTranspose with digraph, forest, coforest, arc reversals and violator "
        "requested: all {-1,0,1} matrices with m*n <= bound (both entry points); every 'yes' certified by the Coq-verified "
        "checker check_network_cert (signs along the tail-to-head path of every coforest arc), the reported graphicness of the "
        "support compared with the brute-force oracle for <= 4 rows; network matrices M(D,T) of random multi-digraphs with random "
        "forests, reversals and line orders, with the generating digraph as a witness the judge verifies (expected yes); "
        "single sign corruptions; matrices around non-graphic cores (expected no); returned violators must lie inside the matrix; "
        "non-trivial = distinct case with >= 2 rows and columns and >= 3 nonzeros")
CODES = {1: "malformed record", 100: "call failed", 101: "verdict not written", 102: "reported support graphicness differs from the definition",
         103: "network but support reported non-graphic", 104: "returned digraph / reversals / forest / coforest do not reproduce the matrix with signs",
         105: "network but no digraph returned", 106: "violating submatrix outside the matrix or with repeated lines",
         107: "matrix with a verified digraph witness reported non-network", 108: "matrix containing a verified non-graphic core reported network"}


def nontrivial(line, rec):
    t = line.split()
    m, n = int(t[1]), int(t[2])
    return m >= 2 and n >= 2 and sum(1 for x in t[3:3 + m * n] if x != "0") >= 3


def run(ctx):
    # deep forests (paths and long-armed spiders with 260..700 arcs): the searches along the forest pass depth 255; judged
    # through CMRtuTest with the digraph as witness (the expected "TU" is accepted at once, the certificate is only evaluated
    # to refute another answer)
    drng = ctx.rng.fork("deep-forest")
    deep = []
    for _ in range(24 if ctx.quick else 600):
        M, w = gen.deep_forest_network(drng, 260 + drng.below(440), 60 + drng.below(140))
        if M and M[0]:
            c = gen.cfg(algorithm=0, ternary=1, wantSub=0)
            deep.append("%s %s %s" % (gen.cfg_line(c), mat_line(M), w))
    ctx.stream("tu_net", deep, "CMRtuTest on network matrices with deep forests (depth > 255)",
               describe=lambda c: gen.TU_NET_CODES.get(c, str(c)), nontrivial=lambda l, r: True)
    ctx.stream("tu_net", gen.tu_net_lines(ctx.rng.fork("tu_net"), 800 if ctx.quick else 20000),
               "CMRtuTest on network matrices of every size, certified by their digraph (network => TU is proved: NetworkTU.v)",
               describe=lambda c: gen.TU_NET_CODES.get(c, str(c)), nontrivial=lambda l, r: True)
    import clilib as _cl
    _cl.stream(ctx, "cligraphout", gen.cligraphout_lines(ctx.rng.fork("cligraphout"), 500 if ctx.quick else 12000, 1),
               "cmr-network [-t] -G: the written graph file, parsed by the Coq edge-list grammar, is a certificate for the matrix parsed from the input bytes",
               lambda c: gen.CLIGRAPHOUT_CODES.get(c, str(c)))
    q = ctx.quick
    lines = []
    bound = 9 if q else 12
    for m in range(0, 5):
        for n in range(0, 5):
            if m * n > bound:
                continue
            for M in all_matrices(m, n, (-1, 0, 1)):
                lines.append("0 %s 0" % mat_line(M, m, n))
                if (m * n) % 2 == 0 or not q:
                    lines.append("1 %s 0" % mat_line(transpose(M, m, n), n, m))
    rng = ctx.rng.fork("network")
    for _ in range(700 if q else 7000):
        nv = 2 + rng.below(12 if q else 40)
        ne = nv + rng.below(2 * nv if q else 4 * nv)
        M, w = gen.graph_instance(rng, nv, ne, True)
        if not M or not M[0]:
            continue
        m, n = len(M), len(M[0])
        tr = rng.below(2)
        if tr:
            lines.append("1 %s %s" % (mat_line(transpose(M, m, n), n, m), w))
        else:
            lines.append("0 %s %s" % (mat_line(M, m, n), w))
        if rng.below(2) == 0:
            # single sign corruption
            nz = [(i, j) for i in range(m) for j in range(n) if M[i][j] != 0]
            if nz:
                i, j = rng.choice(nz)
                C = [r[:] for r in M]
                C[i][j] = -C[i][j]
                lines.append("%d %s 0" % (rng.below(2) * 0, mat_line(C, m, n)))
    # digraphs on graphs glued from 3-connected pieces, polygons and bonds (see C05), random arc orientations
    for _ in range(2500 if q else 30000):
        nv, E = gen.glued_graph(rng)
        M, w = gen.graph_instance(rng, nv, len(E), True, loops=False, edges=E)
        if not M or not M[0]:
            continue
        m, n = len(M), len(M[0])
        if rng.below(2):
            lines.append("1 %s %s" % (mat_line(transpose(M, m, n), n, m), w))
        else:
            lines.append("0 %s %s" % (mat_line(M, m, n), w))
    # larger ones: 6..14 pieces, where members get several children and components are re-rooted between columns
    for _ in range(3000 if q else 40000):
        nv, E = gen.glued_graph(rng, 6 + rng.below(9))
        M, w = gen.graph_instance(rng, nv, len(E), True, loops=False, edges=E)
        if not M or not M[0]:
            continue
        m, n = len(M), len(M[0])
        if rng.below(2):
            lines.append("1 %s %s" % (mat_line(transpose(M, m, n), n, m), w))
        else:
            lines.append("0 %s %s" % (mat_line(M, m, n), w))
    cores = [gen.F7, gen.F7T, gen.K33_DUAL]
    for _ in range(300 if q else 3000):
        core = gen.scale(rng, rng.choice(cores))
        M, rs, cs = gen.embed_core(rng, core, rng.below(5), rng.below(5), (-1, 0, 1))
        w = "2 %d %s %d %s" % (len(rs), " ".join(map(str, rs)), len(cs), " ".join(map(str, cs)))
        m, n = len(M), len(M[0])
        lines.append("0 %s %s" % (mat_line(M, m, n), w))
    ctx.stream("network", lines, "network: exhaustive small, constructed with witnesses, corruptions, cores",
               describe=lambda c: CODES.get(c, str(c)), nontrivial=nontrivial)
