"""C02 — regularity verdict of 0/1 matrices equals signability to a TU matrix."""
import vlib, gen
from vlib import mat_line, all_matrices, rand_matrix

RULE = ("CMRregularTest verdict vs. the Coq oracle regular_bf (exists a signing of the nonzeros that is TU by the proved "
        "determinant oracle): all 0/1 matrices with m*n <= bound under a covering set of strategy x directGraphicness x "
        "seriesParallel x planarityCheck, random 0/1 matrices up to 6x6 and supports of structured instances (network, R10, "
        "R12, F7, sums, corrupted) with random parameter vectors incl. stop flags; matrices with an entry outside {0,1} must "
        "be reported not regular; non-trivial = distinct case with >= 2 rows, >= 2 columns, >= 3 nonzeros")
CODES = {1: "malformed record", 50: "CMRregularTest failed", 51: "verdict not written although no stop flag is set",
         52: "regularity verdict differs from the definition (signable to TU)"}


def cfgs():
    out = []
    for strat in gen.STRATEGIES.values():
        for direct in (0, 1):
            for sp in (0, 1):
                for planar in (0, 1):
                    out.append(gen.cfg(strategy=strat, direct=direct, sp=sp, planar=planar))
    return out


def nontrivial(line, rec):
    t = line.split()
    m, n = int(t[17]), int(t[18])
    return m >= 2 and n >= 2 and sum(1 for x in t[19:] if x != "0") >= 3


def keyfn(line, code):
    t = line.split()
    m, n = int(t[17]), int(t[18])
    if code == 52 and m == 5 and n == 5 and gen.passes_r10_count(t[19:]):
        return "R10-count-test-accepts-non-R10-5x5"
    return line


def run(ctx):
    ctx.stream("regular_cert", gen.regular_cert_lines(ctx.rng.fork("regular_cert"), 1500 if ctx.quick else 40000),
               "CMRregularTest on graphic / cographic matrices of every size, certified by their graph (graphic => regular: GraphicRegular.v)",
               describe=lambda c: gen.REGULAR_CERT_CODES.get(c, str(c)), nontrivial=lambda l, r: True)
    ctx.stream("regular_cert", gen.sp_cert_lines(ctx.rng.fork("regular_sp"), 800 if ctx.quick else 20000, False),
               "CMRregularTest on series-parallel 0/1 matrices of every size, certified by the reduction model (SP => regular: SpTU.v)",
               describe=lambda c: gen.REGULAR_CERT_CODES.get(c, str(c)), nontrivial=lambda l, r: True)
    from props import c10 as _c10
    ctx.stream("rel", gen.param_independence_lines(ctx.rng.fork("params"), 5000 if ctx.quick else 120000),
               "same verdict for every parameter combination: non-default parameters vs. defaults on permuted presentations (judge_rel, kind 1)",
               describe=lambda c: _c10.CODES.get(c, str(c)), nontrivial=lambda l, r: True)
    import clilib
    clilib.stream(ctx, "cliverdict", gen.cliverdict_lines(ctx.rng.fork("cliverdict"), 1, 5, 400 if ctx.quick else 8000, (0, 1), 4, 4, 16, False),
                  "cmr-regular: verdict line vs. the definition-level oracle on the matrix parsed from the input bytes",
                  lambda c: gen.CLIVERDICT_CODES.get(c, str(c)))
    q = ctx.quick
    cs = cfgs()
    lines = []
    bound = 12 if q else 16
    for m in range(0, 6):
        for n in range(0, 6):
            if m * n > bound:
                continue
            for idx, M in enumerate(all_matrices(m, n, (0, 1))):
                ml = mat_line(M, m, n)
                k = 4 if m * n <= 9 else 1
                for j in range(k):
                    lines.append(gen.cfg_line(cs[(idx * 5 + j * 11) % len(cs)]) + " " + ml)
    # every 5x5 0/1 matrix that passes the row/column count test of the R10 shortcut
    for idx, M in enumerate(gen.r10_pattern_matrices()):
        for j in range(2 if q else 6):
            lines.append(gen.cfg_line(cs[(idx * 3 + j * 7) % len(cs)]) + " " + mat_line(M, 5, 5))
    rng = ctx.rng.fork("regular")
    for _ in range(1500 if q else 30000):
        m, n = 3 + rng.below(4), 3 + rng.below(4)
        if rng.below(10) == 0:
            M = rand_matrix(rng, m, n, (-1, 0, 1, 2), 3 + rng.below(5), 10)
        else:
            M = rand_matrix(rng, m, n, (0, 1), 2 + rng.below(6), 10)
        c = gen.rand_cfg(rng, algorithm=0, stopflags=rng.below(5) == 0, wantSub=0)
        lines.append(gen.cfg_line(c) + " " + mat_line(M, m, n))
    for _ in range(2500 if q else 40000):
        M = gen.structured(rng, 7, False)
        if not M or not M[0]:
            continue
        c = gen.rand_cfg(rng, algorithm=0, stopflags=rng.below(6) == 0, wantSub=0)
        lines.append(gen.cfg_line(c) + " " + mat_line(M))
    # supports of pivoted / permuted presentations of regular matroids that need 3-sums (R12, 3-sums of a graphic and a
    # cographic matroid, up to 7x7), a third corrupted: they reach the 3-separation search of the decomposition
    seeds = gen.library_signed(ctx.drive("rel"), gen.deep_binary_seeds(rng, 30 if q else 200, 36))
    for _ in range(2500 if q else 40000):
        M = gen.pivoted_presentation(rng, [r[:] for r in rng.choice(seeds)], rng.below(4))
        M = [[abs(x) for x in r] for r in M]
        if rng.below(3) == 0:
            M = gen.corrupt(rng, M, (0, 1))
        c = gen.rand_cfg(rng, algorithm=0, stopflags=False, wantSub=0)
        lines.append(gen.cfg_line(c) + " " + mat_line(M))
    ctx.stream("regular", lines, "regular verdict: exhaustive small x parameter cover, random, structured supports",
               describe=lambda c: CODES.get(c, str(c)), nontrivial=nontrivial, keyfn=keyfn)
