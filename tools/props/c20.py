"""C20 — produced matrices are well-formed; text formats round-trip; bad text rejected."""
import vlib, gen
from vlib import mat_line, all_matrices, rand_matrix

RULE = ("(a) every matrix returned by any call in the streams of C01-C19 is decoded from its raw CSR arrays and must satisfy "
        "the Coq predicate csr_wf (slices monotone from 0 to nnz, columns in range and strictly increasing per row, no stored "
        "zero) - enforced inside every judge; (b) CMR{chr,int}matPrintDense/PrintSparse: the printed bytes must parse by the "
        "documented grammar (Coq parser) to the same matrix and be read back equal by the library; (c) CMR{chr,int}matCreateFrom"
        "{Dense,Sparse}Stream on byte strings: all printed small matrices, then a grammar-based malformed stream (token "
        "deletion, duplication, truncation, index 0 / out of range, duplicate positions, non-numeric tokens, values outside the "
        "target type): the reader must accept exactly the inputs the Coq parser accepts, with the same matrix; "
        "non-trivial = distinct byte string")
CODES = {1: "malformed record / returned CSR ill-formed", 301: "reader rejected a text of the documented format",
         302: "reader returned a different matrix than the text denotes", 303: "reader accepted malformed text",
         310: "printed text does not follow the documented format", 311: "printed text denotes a different matrix",
         312: "library cannot read back its own output", 313: "matrix read back differs from the one written"}


def tob(s):
    return [ord(c) for c in s]


def dense_text(M, m, n):
    return "%d %d\n" % (m, n) + "".join(" ".join(str(x) for x in r) + "\n" for r in M)


def sparse_text(M, m, n, rng=None):
    tr = [(i + 1, j + 1, M[i][j]) for i in range(m) for j in range(n) if M[i][j] != 0]
    if rng is not None:
        rng.shuffle(tr)
    return "%d %d %d\n" % (m, n, len(tr)) + "".join("%d %d %d\n" % t for t in tr)


def mutate(rng, text, ty):
    toks = text.split()
    if not toks:
        return text
    k = rng.below(12)
    i = rng.below(len(toks))
    big = ["128", "-129", "127", "-128", "300", "2147483648", "-2147483649", "2147483647", "99999999999"]
    if k == 0:
        del toks[i]
    elif k == 1:
        toks.insert(i, toks[i])
    elif k == 2:
        toks = toks[:i]
    elif k == 3:
        toks[i] = "0"
    elif k == 4 and i >= 2:
        toks[i] = rng.choice(big)          # never on the row/column counts: huge dimensions are legal text
    elif k == 5:
        toks[i] = rng.choice(["abc", "x", "-", "?"])
    elif k == 6:
        toks[i] = str(int(toks[i]) + 1) if toks[i].lstrip("-").isdigit() else "7"
    elif k == 7 and i >= 3:
        toks[i] = "-" + toks[i].lstrip("-")      # header counts are never negated: "%zu" accepts "-1" as a huge count
    elif k == 8 and len(toks) > 4:
        j = 3 + rng.below(len(toks) - 3)
        toks[j] = toks[3] if j != 3 else toks[j]
    elif k == 9:
        toks.append(rng.choice(["1", "0", "junk"]))
    elif k == 10:
        toks[i] = toks[i] + "\t\n "
    sep = rng.choice([" ", "\n", "  ", "\t"])
    return sep.join(toks) + rng.choice(["", "\n", " "])


def keyfn(line, code):
    t = line.split()
    txt = "".join(chr(int(x)) for x in t[3:])
    head = txt.split()[:(2 if t[0] == "0" else 3)]
    if code in (1, "crash", 303) and any(h.startswith("-") and h[1:].isdigit() for h in head):
        return "reader-takes-negative-header-count-as-huge-unsigned"
    if t[0] == "1" and len(head) == 3 and head[2].isdigit() and int(head[2]) > 100000 and code in ("crash", 1, 303):
        return "sparse-reader-huge-nonzero-count"
    if code == 303 and t[1] == "1":
        txt = "".join(chr(int(x)) for x in t[3:])
        if any(tok.lstrip("-").isdigit() and not (-2147483648 <= int(tok) <= 2147483647) for tok in txt.split()):
            return "int-reader-accepts-values-outside-int"
    return line


MCODES = {1: "malformed record / result is not a consistent sparse matrix", 300: "call failed",
          301: "result differs from the dense model of the operation", 302: "wrong kind of result",
          303: "an invalid request (index out of range, non-square determinant, value outside char, not a sub-submatrix) was not refused",
          304: "determinant differs from the definition"}


def ckeyfn(rc, err, line=None):
    return "crash"


def climat_key(line, code):
    t = line.split()
    p = 5
    p += 1 + int(t[p])
    p += 1 + int(t[p])
    txt = "".join(chr(int(x)) for x in t[p + 1:])
    head = txt.split()[:3]
    if t[0] == "1" and len(head) == 3 and head[2].isdigit() and int(head[2]) > 100000:
        return "sparse-reader-huge-nonzero-count"
    return line


def mkeyfn(line, code):
    t = line.split()
    if code == 304 and t[0] == "6":
        return "determinant-is-returned-without-its-sign"
    return line


def idx(l):
    return "%d %s" % (len(l), " ".join(map(str, l)))


def matutil_lines(ctx, mats):
    """ops of harness api `matutil` (see drive.c) on all small matrices and random larger ones, char and int"""
    rng = ctx.rng.fork("matutil")
    q = ctx.quick
    out = []
    pool = list(mats)
    for _ in range(300 if q else 4000):
        m, n = rng.below(7), rng.below(7)
        pool.append((rand_matrix(rng, m, n, (-3, -2, -1, 0, 0, 1, 1, 2, 5, 127, -128), 3 + rng.below(6), 10), m, n))
    for k, (M, m, n) in enumerate(pool):
        ml = mat_line(M, m, n)
        for ty in (0, 1):
            Mt = M
            if ty == 1 and k % 3 == 0:
                Mt = [[x * rng.choice([1, 1, 300, -70000]) for x in r] for r in M]
            mlt = mat_line(Mt, m, n)
            for op in (1, 4, 5, 7):
                out.append("%d %d %s" % (op, ty, mlt))
            # (op 6, the determinant, is driven by the harness but not part of this stream: CMRchrmatDeterminant /
            #  CMRintmatDeterminant return the determinant without its sign, and no property speaks about them)
            # permutations (NULL = identity) and slices, now and then with an out-of-range index
            rp = rng.shuffle(list(range(m)))
            cp = rng.shuffle(list(range(n)))
            out.append("2 %d %s %s %s" % (ty, mlt, idx(rp) if rng.below(4) else "-1", idx(cp) if rng.below(4) else "-1"))
            rs = rng.shuffle(list(range(m)))[:rng.below(m + 1)]
            cs = rng.shuffle(list(range(n)))[:rng.below(n + 1)]
            if rng.below(2):
                rs, cs = sorted(rs), sorted(cs)
            out.append("3 %d %s %s %s" % (ty, mlt, idx(rs), idx(cs)))
            out.append("11 %d %s %s %s" % (ty, mlt, idx(sorted(rs)), idx(sorted(cs))))
            # equality / transpose tests against an equal, a transposed and a perturbed second matrix
            T = [[Mt[i][j] for i in range(m)] for j in range(n)]
            P = [r[:] for r in Mt]
            if m and n:
                P[rng.below(m)][rng.below(n)] += 1
            for M2, m2, n2 in ((Mt, m, n), (T, n, m), (P, m, n)):
                out.append("8 %d %s %s" % (ty, mlt, mat_line(M2, m2, n2)))
                out.append("9 %d %s %s" % (ty, mlt, mat_line(M2, m2, n2)))
            if ty == 0:
                M2, m2, n2 = pool[rng.below(len(pool))]
                out.append("10 0 %s %s" % (ml, mat_line(M2, m2, n2)))
            # sub-submatrices: slice (express input in base numbering) and unslice, valid and invalid
            brs = sorted(rng.shuffle(list(range(m + 2)))[:rng.below(m + 2)])
            bcs = sorted(rng.shuffle(list(range(n + 2)))[:rng.below(n + 2)])
            irs = [x for x in brs if rng.below(2)]
            ics = [x for x in bcs if rng.below(2)]
            if rng.below(6) == 0 and m:
                irs = irs + [m + 5]
            out.append("12 %d %s %s %s %s %s" % (ty, mlt, idx(brs), idx(bcs), idx(irs), idx(ics)))
            krs = sorted(rng.shuffle(list(range(len(brs))))[:rng.below(len(brs) + 1)])
            kcs = sorted(rng.shuffle(list(range(len(bcs))))[:rng.below(len(bcs) + 1)])
            out.append("13 %d %s %s %s %s %s" % (ty, mlt, idx(brs), idx(bcs), idx(krs), idx(kcs)))
    return out


def run(ctx):
    import clilib
    clilib.stream(ctx, "cliverdict", gen.cliverdict_lines(ctx.rng.fork("cliverdict"), 8, 3, 400 if ctx.quick else 8000, (-2, -1, 0, 1, 1, 2), 4, 4, 16, None),
                  "cmr-k-ary: verdict line vs. the definition-level oracle on the matrix parsed from the input bytes",
                  lambda c: gen.CLIVERDICT_CODES.get(c, str(c)))
    q = ctx.quick
    rng = ctx.rng.fork("text")
    wl = []
    rl = []
    mats = []
    for m in range(0, 4):
        for n in range(0, 4):
            if m * n <= (4 if q else 6):
                for M in all_matrices(m, n, (-1, 0, 1)):
                    mats.append((M, m, n))
    for _ in range(400 if q else 5000):
        m, n = rng.below(6), rng.below(6)
        vals = (-128, -5, -1, 0, 0, 0, 1, 2, 100, 127)
        mats.append((rand_matrix(rng, m, n, vals, 5, 10), m, n))
    for M, m, n in mats:
        for fmt in (0, 1):
            for ty in (0, 1):
                wl.append("%d %d %s" % (fmt, ty, mat_line(M, m, n)))
        dt, st = dense_text(M, m, n), sparse_text(M, m, n, rng)
        for fmt, text in ((0, dt), (1, st)):
            for ty in (0, 1):
                b = tob(text)
                rl.append("%d %d %d %s" % (fmt, ty, len(b), " ".join(map(str, b))))
                for _ in range(2 if q else 6):
                    b2 = tob(mutate(rng, text, ty))
                    rl.append("%d %d %d %s" % (fmt, ty, len(b2), " ".join(map(str, b2))))
    # matrices with more than 256 / 512 nonzeros (the sparse readers grow their buffer of nonzeros in steps)
    for k in range(6 if q else 40):
        m, n = 17 + rng.below(12), 17 + rng.below(12)
        M = [[rng.choice((-1, 1, 1, 2, 0)) for _ in range(n)] for _ in range(m)]
        for fmt in (0, 1):
            text = dense_text(M, m, n) if fmt == 0 else sparse_text(M, m, n, rng)
            for ty in (0, 1):
                b = tob(text)
                rl.append("%d %d %d %s" % (fmt, ty, len(b), " ".join(map(str, b))))
    # int-typed matrices with large values
    for _ in range(200 if q else 3000):
        m, n = 1 + rng.below(3), 1 + rng.below(3)
        vals = (-2147483648, -70000, -129, 0, 0, 128, 300, 65536, 2147483647)
        M = rand_matrix(rng, m, n, vals, 6, 10)
        for fmt in (0, 1):
            wl.append("%d 1 %s" % (fmt, mat_line(M, m, n)))
            text = dense_text(M, m, n) if fmt == 0 else sparse_text(M, m, n, rng)
            for ty in (0, 1):
                b = tob(text)
                rl.append("%d %d %d %s" % (fmt, ty, len(b), " ".join(map(str, b))))
    import clilib
    cl = []
    crng = ctx.rng.fork("climat")
    cmats = [x for x in mats if x[1] * x[2] >= 1]
    for _ in range(1500 if q else 40000):
        M, m, n = crng.choice(cmats)
        if crng.below(6) == 0:
            m, n = 1 + crng.below(4), 1 + crng.below(4)
            M = rand_matrix(crng, m, n, (-2147483648, -70000, -129, 0, 0, 128, 300, 65536, 2147483647), 6, 10)
        infmt = crng.below(2)
        text = dense_text(M, m, n) if infmt == 0 else sparse_text(M, m, n, crng)
        if crng.below(8) == 0:
            text = mutate(crng, text, 1)
        hasS = 1 if crng.below(3) == 0 else 0
        rs = crng.shuffle(list(range(m)))[:crng.below(m + 1)] if hasS else []
        cs = crng.shuffle(list(range(n)))[:crng.below(n + 1)] if hasS else []
        b = tob(text)
        cl.append("%d %d %d %d %d %s %s %d %s" % (infmt, crng.below(2), crng.below(2), crng.below(3), hasS, idx(rs), idx(cs),
                                                 len(b), " ".join(map(str, b))))
    # double-valued files through cmr-matrix -d: support / signed support with tolerance 1e-9 (values as decimal tokens
    # with fractions and exponents; tiny nonzero values are dropped by the tool and must be dropped consistently)
    dl = []
    drng = ctx.rng.fork("climatd")
    toks = ["0", "0", "0", "1", "-1", "2.5", "-0.75", "1e-12", "-3e-10", "9.9e-10", "1e-9", "1.5e-9", "-2e-9", "1E3", "-4.0e+2",
            "0.000001", "123456", "-0.0", "7.", ".5", "3e-13", "1e-300"]
    for _ in range(800 if q else 20000):
        m, n = 1 + drng.below(7), 1 + drng.below(7)
        if drng.below(12) == 0:
            m, n = 8 + drng.below(20), 8 + drng.below(20)
        dens = 2 + drng.below(8)
        E = [[(drng.choice(toks) if drng.below(10) < dens else "0") for _ in range(n)] for _ in range(m)]
        infmt = drng.below(2)
        if infmt == 0:
            text = "%d %d\n" % (m, n) + "".join(" ".join(r) + "\n" for r in E)
        else:
            tr = [(i + 1, j + 1, E[i][j]) for i in range(m) for j in range(n) if E[i][j] != "0" or drng.below(15) == 0]
            drng.shuffle(tr)
            text = "%d %d %d\n" % (m, n, len(tr)) + "".join("%d %d %s\n" % t for t in tr)
        hasS = 1 if drng.below(4) == 0 else 0
        rs = drng.shuffle(list(range(m)))[:drng.below(m + 1)] if hasS else []
        cs = drng.shuffle(list(range(n)))[:drng.below(n + 1)] if hasS else []
        b = tob(text)
        dl.append("%d %d %d %d %d %s %s %d %s" % (infmt, drng.below(2), drng.below(2), 1 + drng.below(2), hasS, idx(rs), idx(cs),
                                                 len(b), " ".join(map(str, b))))
    clilib.stream(ctx, "climatd", dl, "cmr-matrix -d: (signed) support of double-valued input files with tolerance 1e-9",
                  lambda c: gen.CLIMAT_CODES.get(c, str(c)))
    clilib.stream(ctx, "climat", cl, "cmr-matrix: output bytes vs. slice / transpose / support of the parsed input",
                  lambda c: gen.CLIMAT_CODES.get(c, str(c)), keyfn=climat_key)
    ctx.stream("edgelist", gen.edgelist_lines(ctx.rng.fork("edgelist"), 3000 if q else 60000),
               "edge-list reader vs. the documented grammar (Coq parser)", describe=lambda c: gen.EDGELIST_CODES.get(c, str(c)))
    # the matrices returned by the k-sum compose functions (special lines at random positions and in either order) must be
    # consistent sparse matrices too: judge_kcompose decodes the raw CSR arrays under csr_wf and compares with the block formula
    from props import c12 as _c12
    ctx.stream("kcompose", _c12.compose_lines(ctx.rng.fork("c20-ksum"), 4000 if q else 60000),
               "sums: matrices returned by the 2-/Delta-/Y-/3-sum compose functions", describe=lambda c: _c12.CODES.get(c, str(c)),
               ignore_codes=(140, 142))
    ctx.stream("matutil", matutil_lines(ctx, mats), "matrix and submatrix utilities vs. their dense models",
               describe=lambda c: MCODES.get(c, str(c)), keyfn=mkeyfn)
    ctx.stream("textwrite", wl, "writers: print, parse by the documented grammar, read back", describe=lambda c: CODES.get(c, str(c)))
    ctx.stream("textread", rl, "readers: valid and malformed byte strings", describe=lambda c: CODES.get(c, str(c)), keyfn=keyfn)
