"""C12 — k-sum decomposition and composition are mutually inverse and preserve TU."""
import vlib, gen
from vlib import mat_line, rand_matrix, all_matrices

RULE = ("CMR{twosum,deltasum,ysum,threesum}Compose on operands with valid and deliberately invalid special-line choices "
        "(characteristic 2 and 3): the result must equal the Coq block formula and malformed operands must be refused with an "
        "error; for matrices with a 2-/3-separation (all bipartitions of the lines of small matrices with the required rank "
        "profile, random larger ones): CMRsepaFindBinaryRepresentatives + CMRsepaCheckTernary, Decompose{Epsilon,SearchConnecting}, "
        "DecomposeFirst/Second, then Compose: the components must have the documented shape, recompose (Coq formula) to the "
        "original matrix under the returned origin maps, and the library's own Compose must return the same matrix; components of TU "
        "matrices and sums of TU components must be TU (Coq oracle, <= 7x7); non-trivial = distinct case")
CODES = {1: "malformed record", 140: "compose failed on operands of the documented shape", 141: "composed matrix differs from the block formula",
         142: "operands without the documented shape were accepted", 143: "sum of TU components is not TU",
         150: "decompose call failed", 151: "components do not have the documented shape", 152: "origin maps are not a bijection onto the lines of the matrix",
         153: "recomposed components differ from the original matrix", 154: "library compose failed on its own components",
         155: "library compose differs from the block formula", 156: "component of a TU matrix is not TU"}


def rnd_vec(rng, k, alpha, dens=6):
    nz = [a for a in alpha if a != 0]
    return [(rng.choice(nz) if rng.chance(dens, 10) else 0) for _ in range(k)]


def operands(rng, kind, p):
    alpha = (0, 1) if p == 2 else (-1, 0, 1)
    ma, na, md, nd = 1 + rng.below(3), 1 + rng.below(3), 1 + rng.below(3), 1 + rng.below(3)
    A = rand_matrix(rng, ma, na, alpha, 5, 10)
    D = rand_matrix(rng, md, nd, alpha, 5, 10)
    a, c = rnd_vec(rng, ma, alpha), rnd_vec(rng, na, alpha)
    b, d = rnd_vec(rng, nd, alpha), rnd_vec(rng, md, alpha)
    eps = 1 if p == 2 else rng.choice([1, -1])
    if kind == 2:
        if rng.below(2):
            r1 = rng.below(ma + 1)
            M1 = gen.insert_line(A, r1, c, True)
            c2 = rng.below(nd + 1)
            M2 = gen.insert_line(D, c2, d, False)
            return M1, M2, [r1], [], [], [c2]
        c1 = rng.below(na + 1)
        M1 = gen.insert_line(A, c1, a, False)
        r2 = rng.below(md + 1)
        M2 = gen.insert_line(D, r2, b, True)
        return M1, M2, [], [c1], [r2], []
    if kind == 3:
        # M1 = [A a a; c 0 eps]
        M1 = [A[i] + [a[i], a[i]] for i in range(ma)] + [c + [0, eps]]
        M2 = [[eps, 0] + b] + [[d[i], d[i]] + D[i] for i in range(md)]
        return M1, M2, [ma], [na, na + 1], [0], [0, 1]
    if kind == 4:
        M1 = [A[i] + [a[i]] for i in range(ma)] + [c + [0], c + [eps]]
        M2 = [[eps] + b, [0] + b] + [[d[i]] + D[i] for i in range(md)]
        return M1, M2, [ma, ma + 1], [na], [0, 1], [0]
    # 3-sum: M1 = [A 0; Ci alpha; Cj beta], real columns k1,l1 inside A's columns; M2 = [gamma delta 0; Ck Cl D]
    na = max(na, 2)
    A = rand_matrix(rng, ma, na, alpha, 5, 10)
    k1, l1 = rng.shuffle(list(range(na)))[:2]
    Ci, Cj = rnd_vec(rng, na, alpha, 7), rnd_vec(rng, na, alpha, 7)
    al, be, ga, de = [(1 if p == 2 else rng.choice([1, -1])) for _ in range(4)]
    M1 = [A[i] + [0] for i in range(ma)] + [Ci + [al], Cj + [be]]
    md = max(md, 2)
    D = rand_matrix(rng, md, nd, alpha, 5, 10)
    i2, j2 = rng.shuffle(list(range(md)))[:2]
    Ck, Cl = rnd_vec(rng, md, alpha, 7), rnd_vec(rng, md, alpha, 7)
    if rng.below(4):
        # make the 2x2 blocks consistent
        Ck[i2], Cl[i2], Ck[j2], Cl[j2] = Ci[k1], Ci[l1], Cj[k1], Cj[l1]
    M2 = [[ga, de] + [0] * nd] + [[Ck[i], Cl[i]] + D[i] for i in range(md)]
    return M1, M2, [ma, ma + 1], [k1, l1, na], [0, 1 + i2, 1 + j2], [0, 1]


def fmt(l):
    return "%d %s" % (len(l), " ".join(map(str, l)))


def compose_lines(rng, count):
    """valid and invalid operand pairs for the four compose functions, special lines at random positions and in either
    order; one in five corrupted (an entry, or an index out of range)"""
    lines = []
    for _ in range(count):
        kind = rng.choice([2, 3, 4, 5, 5])
        p = rng.choice([2, 3])
        M1, M2, fsr, fsc, ssr, ssc = operands(rng, kind, p)
        r = rng.below(10)
        if r == 0:
            M1 = gen.corrupt(rng, M1, (0, 1) if p == 2 else (-1, 0, 1))
        elif r == 1:
            M2 = gen.corrupt(rng, M2, (0, 1) if p == 2 else (-1, 0, 1))
        elif r == 2 and fsc:
            fsc = fsc[:]
            fsc[0] = rng.below(len(M1[0]) + 1)
        elif r == 3 and ssr:
            ssr = ssr[:]
            ssr[0] = rng.below(len(M2) + 1)
        lines.append("%d %d %s %s %s %s %s %s" % (kind, p, mat_line(M1), mat_line(M2), fmt(fsr), fmt(fsc), fmt(ssr), fmt(ssc)))
    return lines


def run(ctx):
    q = ctx.quick
    rng = ctx.rng.fork("ksum")
    lines = compose_lines(rng, 12000 if q else 150000)
    def keyfn(line, code):
        t = line.split()
        if code == 140 and t[0] == "5" and t[1] == "2":
            return "threesum-compose-char2-integer-TU-test"
        if code == 142 and t[0] == "5":
            # special-line lists are the last four length-prefixed lists
            vals = list(map(int, t))
            pos = 2
            for _ in range(2):
                m, n = vals[pos], vals[pos + 1]
                pos += 2 + m * n
            lists = []
            for _ in range(4):
                k = vals[pos]
                lists.append(vals[pos + 1:pos + 1 + k])
                pos += 1 + k
            if any(len(set(l)) != len(l) for l in lists):
                return "threesum-compose-accepts-repeated-special-lines"
        return line
    recs, codes = ctx.stream("kcompose", lines, "compose: valid and invalid operands", describe=lambda c: CODES.get(c, str(c)), keyfn=keyfn)
    acc = {}
    for l, r in zip(lines, recs):
        if r is not None:
            t = r.split()
            key = "kind %s p %s %s" % (t[0], t[1], "composed" if t[-1] != "0" or len(t) > 0 and "1" == t[-1] else "refused")
            acc[key] = acc.get(key, 0) + 1
    ctx.notes.append({"kcompose outcomes (composed = library returned a matrix)": acc})

    dl = []
    want = {(0, 1): [2], (1, 0): [2], (1, 1): [3, 4], (0, 2): [5], (2, 0): [5]}

    def add_partitions(M, p, exhaustive):
        m, n = len(M), len(M[0])
        if exhaustive:
            parts = [(rp, cp) for rp in range(1 << m) for cp in range(1 << n)]
        else:
            parts = [(rng.below(1 << m), rng.below(1 << n)) for _ in range(6)]
        for rp, cp in parts:
            rowpart = [(rp >> i) & 1 for i in range(m)]
            colpart = [(cp >> j) & 1 for j in range(n)]
            prof = gen.sepa_profile(M, rowpart, colpart, p)
            if prof is None:
                continue
            ranks, sizes = prof
            if ranks not in want:
                continue
            if sizes[0] + sizes[1] < 2 or sizes[2] + sizes[3] < 2:
                continue
            for kind in want[ranks]:
                # for Delta- and Y-sums the last token tells the harness whether the matrix is 3-connected (only then
                # are the components of a TU matrix minors of it, hence TU); it can only withdraw that one demand
                tc = " %d" % gen.three_connected(M, p) if kind in (3, 4, 5) else ""
                dl.append("%d %d %s %s %s%s" % (kind, p, mat_line(M), " ".join(map(str, rowpart)), " ".join(map(str, colpart)), tc))
                # the same call with some of the optional output arrays NULL / given (nothing but the resource
                # behaviour is judged then: this feeds C11, C18, C19 through their collectors)
                if rng.below(4) == 0:
                    dl.append("%d %d %s %s %s 1 %d" % (kind, p, mat_line(M), " ".join(map(str, rowpart)),
                                                      " ".join(map(str, colpart)), 1 + rng.below(63)))

    for p, alpha in ((2, (0, 1)), (3, (-1, 0, 1))):
        for (m, n) in ((2, 2), (2, 3), (3, 2)) + (((3, 3),) if (p == 2 or not q) else ()):
            for M in all_matrices(m, n, alpha):
                add_partitions(M, p, True)
    for _ in range(1500 if q else 20000):
        p = rng.choice([2, 3])
        m, n = 3 + rng.below(4), 3 + rng.below(4)
        M = rand_matrix(rng, m, n, (0, 1) if p == 2 else (-1, 0, 1), 2 + rng.below(4), 10)
        add_partitions(M, p, False)
    for _ in range(800 if q else 10000):
        M = gen.structured(rng, 7, True)
        if M and M[0] and len(M) >= 2 and len(M[0]) >= 2:
            p = rng.choice([2, 3])
            if p == 2:
                M = [[abs(x) for x in r] for r in M]
            add_partitions(M, p, False)
    # ternary presentations (pivots, permutations, +-1 scalings) of Camion-signed regular matroids that have 3-separations
    # (R12 and small 3-sums of a graphic and a cographic matroid, signed by the library itself): all bipartitions, so that
    # every concentrated-rank 3-separation reaches the connecting-path search with paths of either sign
    dseeds = [S for S in gen.library_signed(ctx.drive("rel"), gen.deep_binary_seeds(rng, 10 if q else 60, 49))
              if len(S) + len(S[0]) <= 13]
    for _ in range(50 if q else 1200):
        if not dseeds:
            break
        M = gen.pivoted_presentation(rng, [r[:] for r in rng.choice(dseeds)], rng.below(3))
        add_partitions(M, 3, True)
    recs, codes = ctx.stream("kdecomp", dl, "decompose then compose along all separations of small matrices, random, structured",
                             describe=lambda c: CODES.get(c, str(c)))
    acc = {}
    for r in recs:
        if r is not None:
            t = r.split()
            m, n = int(t[2]), int(t[3])
            ok = t[4 + m * n]
            key = "kind %s p %s %s" % (t[0], t[1], {"0": "not a typed separation", "1": "decomposed and recomposed",
                                                    "2": "refused by epsilon/connecting search"}.get(ok, ok))
            acc[key] = acc.get(key, 0) + 1
    ctx.notes.append({"kdecomp outcomes": acc})
