"""C03 — every returned Seymour decomposition tree recomposes to the matrices it claims."""
import vlib, gen
from vlib import mat_line, all_matrices, rand_matrix

RULE = ("trees returned through proot by CMRtuTest (ternary and binary+Camion) and CMRregularTest, dumped node by node "
        "(type, matrix, child-to-parent element maps, special rows/columns, pivots, SP reductions, graphs, minors) and checked "
        "by the Coq checker check_tree: 1-sums are block diagonal under jointly bijective maps, 2-/Delta-/Y-/3-sum nodes "
        "recompose by the block formulas (KsumModel) with the recorded special lines, pivot children equal the pivot model, "
        "SP children are the submatrix left by genuine reductions, arities and leaf types as documented; all parameter "
        "combinations incl. stop flags (partial trees), and histories of complete/refine steps on nodes addressed by child-index "
        "paths; inputs: all small matrices, random and structured matrices up to 9x9 (sums of network/R10/R12/F7 pieces), "
        "non-trivial = distinct case whose tree has at least one inner node")
CODES = {1: "malformed record", 201: "children of a sum node do not have the documented shape", 202: "a kept child line does not map to a parent line of the same kind",
         203: "sum node: recomposed children differ from the parent matrix", 210: "1-sum with fewer than two children", 211: "1-sum: a child line maps to nothing",
         212: "1-sum: parent is not the block-diagonal matrix of the children under the maps", 220: "pivot node: pivots not pairwise distinct / out of range",
         221: "pivot node: child is not the parent after the recorded pivots", 222: "pivot node: element maps wrong", 223: "pivot node: zero pivot entry",
         230: "SP node: a recorded reduction is not genuine at its position", 231: "SP node without child but lines remain",
         232: "SP node: child line maps to nothing", 233: "SP node: child lines out of range or repeated", 234: "SP node: child is not what the reductions leave",
         235: "SP node: child matrix is not the recorded submatrix", 236: "SP node with more than one child",
         240: "stored graph does not reproduce the node's matrix", 241: "stored cograph does not reproduce the transpose", 242: "stored violator minor has |det| < 2", 243: "stored violator minor is not a square in-range duplicate-free submatrix of the node's matrix",
         244: "node typed R10 does not represent R10", 245: "regularity flag positive but matrix is not regular/TU", 246: "regularity flag negative but matrix is regular/TU",
         247: "irregular node is regular/TU", 248: "graphicness flag positive but not graphic", 249: "graphicness flag negative but graphic",
         250: "cographicness flag positive but not cographic", 251: "cographicness flag negative but cographic", 252: "graph/planar node is not graphic",
         253: "cograph/planar node is not cographic", 254: "flags of an inner node contradict the flags of its children", 260: "node matrix malformed or outside its field", 261: "number of links differs from number of children",
         262: "child shape / field inconsistent with the maps", 263: "wrong number of children for the node type",
         265: "leaf node with children", 270: "root matrix differs from the input"}
STRUCT = set(range(201, 237)) | {260, 261, 262, 263, 264, 265, 270}
FLAGS = set(range(240, 255))


def tree_lines(ctx, label, sizes=True):
    q = ctx.quick
    rng = ctx.rng.fork("tree-" + label)
    lines = []

    def cfgs_for(M, ternary_ok):
        out = []
        for _ in range(2):
            c = gen.rand_cfg(rng, algorithm=0, stopflags=rng.below(4) == 0, wantSub=0)
            c[13], c[14] = rng.below(2), rng.below(2) if rng.below(3) == 0 else 0
            c[16] = 1
            entry = rng.below(2)
            if entry == 1:
                Mb = [[abs(x) for x in r] for r in M]
                out.append((c, 1, Mb))
            else:
                out.append((c, 0, M))
        return out

    def script():
        if rng.below(3):
            return "0"
        k = 1 + rng.below(3)
        parts = []
        for _ in range(k):
            ln = rng.below(4)
            parts.append("%d %d %s" % (rng.choice([1, 1, 2, 2, 3, 4]), max(ln, 1), " ".join(str(rng.below(3)) for _ in range(max(ln, 1)))))
        return "%d %s" % (k, " ".join(parts))

    bound = 6 if q else 9
    for m in range(1, 4):
        for n in range(1, 4):
            if m * n > bound:
                continue
            for idx, M in enumerate(all_matrices(m, n, (-1, 0, 1))):
                if idx % (3 if q else 1):
                    continue
                for c, entry, MM in cfgs_for(M, True)[:1]:
                    lines.append("%s %d %s %s" % (gen.cfg_line(c), entry, mat_line(MM, m, n), script()))
    for _ in range(2500 if q else 40000):
        kind = rng.below(4)
        if kind == 0:
            m, n = 3 + rng.below(5), 3 + rng.below(5)
            M = rand_matrix(rng, m, n, (-1, 0, 1), 2 + rng.below(5), 10)
        else:
            M = gen.structured(rng, 9 if not q else 8, True)
        if not M or not M[0]:
            continue
        for c, entry, MM in cfgs_for(M, True):
            lines.append("%s %d %s %s" % (gen.cfg_line(c), entry, mat_line(MM), script()))
    # larger sums (no oracle needed for recomposition)
    for _ in range(300 if q else 5000):
        A = gen.network_matrix(rng, 5 + rng.below(6), 4 + rng.below(6))
        B = rng.choice([gen.R10, gen.R12, gen.network_matrix(rng, 5 + rng.below(5), 4 + rng.below(5))])
        B = [r[:] for r in B]
        k = rng.below(3)
        if k == 0:
            M = gen.block_diag(A, B)
        else:
            M = gen.two_sum(A, B, rng.below(len(A)), rng.below(len(B[0])))
        M = gen.permute(rng, M)
        if rng.below(4) == 0:
            M = gen.corrupt(rng, M)
        for c, entry, MM in cfgs_for(M, True)[:1]:
            lines.append("%s %d %s %s" % (gen.cfg_line(c), entry, mat_line(MM), script()))
    # binary 3-sums of a graphic and a cographic matroid: 3-connected, usually neither graphic nor cographic, so the
    # tree contains 3-sum / pivot nodes found by the nested-minor 3-separation search (both as regular and as TU input)
    for _ in range(150 if q else 3000):
        M = gen.threesum_graphic_cographic(rng)
        if not M:
            continue
        if rng.below(4) == 0:
            M = gen.corrupt(rng, M, (0, 1))
        for c, entry, MM in cfgs_for(M, True)[:1]:
            lines.append("%s %d %s %s" % (gen.cfg_line(c), entry, mat_line(MM), script()))
    # 2-sums (and 2-sums of 2-sums) of pieces that are neither graphic nor cographic — pivoted ternary presentations of
    # Camion-signed R10 / R12 / 3-sum matroids (signed by the library itself) and network pieces: the direct graphicness
    # tests fail, so the 2-separations are found while the sequence of nested minors is extended, after pivots
    deep = gen.library_signed(ctx.drive("rel"), gen.deep_binary_seeds(rng, 14 if q else 120, 90))
    for _ in range(2600 if q else 60000):
        if not deep:
            break
        P = [gen.pivoted_presentation(rng, [r[:] for r in rng.choice(deep)], rng.below(3)) for _ in range(2 + rng.below(2))]
        if rng.below(3) == 0:
            P[rng.below(len(P))] = gen.network_matrix(rng, 4 + rng.below(5), 3 + rng.below(5))
        M = P[0]
        for B in P[1:]:
            ra = rng.choice([i for i in range(len(M)) if any(M[i])] or [0])
            cb = rng.choice([j for j in range(len(B[0])) if any(B[i][j] for i in range(len(B)))] or [0])
            M = gen.two_sum(M, B, ra, cb)
        if len(M) * len(M[0]) > 700:
            continue
        for _ in range(rng.below(3)):
            nz = [(i, j) for i in range(len(M)) for j in range(len(M[0])) if M[i][j] != 0]
            r, c = rng.choice(nz)
            M = gen.ternary_pivot(M, r, c)
        M = gen.permute(rng, M)
        c = gen.rand_cfg(rng, algorithm=0, stopflags=rng.below(5) == 0, wantSub=0)
        c[13], c[14] = rng.below(2), 0
        c[16] = 1
        lines.append("%s 0 %s %s" % (gen.cfg_line(c), mat_line(M), "0"))
    # R10 supports with random signs (alone and inside sums), followed by re-completion of leaves: the R10 step has to
    # judge the signs without touching the node's matrix
    for M in gen.r10_sign_scrambles(rng, 400 if q else 8000):
        c = gen.rand_cfg(rng, algorithm=0, stopflags=False, wantSub=0)
        c[1], c[16] = 1, 1
        lines.append("%s 0 %s %s" % (gen.cfg_line(c), mat_line(M), script()))
    # every 5x5 0/1 matrix that passes the row/column count test of the R10 shortcut (most of them are not R10: the ones with
    # two equal rows or columns in any position), alone and as a block of a permuted 1-sum with a network matrix
    pats = gen.r10_pattern_matrices()
    for idx, M in enumerate(pats):
        if q and idx % 3:
            continue
        c = gen.rand_cfg(rng, algorithm=0, stopflags=False, wantSub=0)
        c[1], c[16] = 0, 1
        c[8], c[10] = (idx // 3) % 2, (idx // 6) % 2
        lines.append("%s 1 %s %s" % (gen.cfg_line(c), mat_line(M, 5, 5), script()))
        if idx % (12 if q else 3) == 0:
            A = [[abs(x) for x in r] for r in gen.network_matrix(rng, 3 + rng.below(3), 2 + rng.below(3))]
            S = gen.permute(rng, gen.block_diag(A, M))
            lines.append("%s 1 %s 0" % (gen.cfg_line(c), mat_line(S)))
    # 2-sums of network matrices with the direct graphicness test switched off: the node is not recognized at once, gets a
    # sequence of nested minors, and its 2-separation is found while that sequence is extended (after pivots of the dense
    # working matrix) - a path of the decomposition the default parameters almost never take
    for _ in range(4000 if q else 80000):
        A = gen.network_matrix(rng, 5 + rng.below(6), 5 + rng.below(8))
        B = gen.network_matrix(rng, 5 + rng.below(6), 5 + rng.below(8))
        M = gen.permute(rng, gen.two_sum(A, B, rng.below(len(A)), rng.below(len(B[0]))))
        if rng.below(6) == 0:
            M = gen.corrupt(rng, M)
        c = gen.rand_cfg(rng, algorithm=0, stopflags=False, wantSub=0)
        c[1], c[4], c[8], c[10], c[16] = 1, 0, 1, 0, 1
        lines.append("%s 0 %s 0" % (gen.cfg_line(c), mat_line(M)))
    return lines


def has_inner(line, rec):
    t = rec.split()
    try:
        ncfg = int(t[0])
        pos = 1 + ncfg + 1
        m, n = int(t[pos]), int(t[pos + 1])
        pos += 2 + m * n
        rc, has = int(t[pos]), int(t[pos + 1])
        if rc != 0 or not has:
            return False
        ty = int(t[pos + 2])
        return ty not in (-1, 0, 3, 4, 5, 6)
    except Exception:
        return False


def script_ops(line):
    t = line.split()
    m, n = int(t[18]), int(t[19])
    pos = 20 + m * n
    ops = []
    if pos < len(t):
        k = int(t[pos])
        pos += 1
        for _ in range(k):
            op, ln = int(t[pos]), int(t[pos + 1])
            ops.append(op)
            pos += 2 + ln
    return ops


def keyfn(line, code):
    if code == 244:
        return "R10-count-test-accepts-non-R10-5x5"
    if code == 242:
        return "stored-determinant-minor-is-not-a-violator"
    return line


def run(ctx):
    lines = tree_lines(ctx, "c03")
    ctx.stream("tree", lines, "decomposition trees incl. complete/refine histories", describe=lambda c: CODES.get(c, str(c)),
               nontrivial=has_inner, ignore_codes=tuple(FLAGS), keyfn=keyfn)
