"""C08 — series-parallel test: verdict, reductions, reduced matrix, violators, separations."""
import os, vlib, gen
from vlib import mat_line, all_matrices, rand_matrix

RULE = ("CMRspTestBinary/Ternary and CMRspDecomposeBinary/Ternary on all {0,1} resp. {-1,0,1} matrices with m*n <= "
        "bound x subsets of the optional outputs (verdict, reductions, reduced submatrix, violator, separation) x "
        "maxNumReductions x stale values in the caller's reduction counter, SP matrices built by random extension "
        "sequences (up to 60 lines, yes by construction) with embedded wheels (no by heredity), wide matrices (> 40 "
        "lines, hash-vector wrap-around); every stream also on builds with the signed hash range forced to 2, 3, 5, 17 "
        "(hook DISCOPT_CMR_VERIF_HASH_RANGE). Decided by the Coq certificate checker judge_sp (each reduction genuine in "
        "order, reduced = what is left and irreducible, verdict = greedy oracle, violator pattern, 2-separation ranks); "
        "non-trivial = distinct case with >= 2 rows, >= 2 columns, >= 3 nonzeros")
CODES = {1: "malformed record", 70: "call failed", 71: "verdict flag not written", 72: "verdict differs from SP-reducibility",
         73: "a reported reduction is not a genuine zero/unit/copy reduction at its position", 74: "reduction count differs from the list",
         75: "reductions are not maximal: a further reduction is possible", 76: "verdict inconsistent with what the reductions leave",
         78: "reduced submatrix out of range or with repeated lines", 79: "reduced submatrix admits a further reduction",
         80: "reduced submatrix is not what the reductions leave", 81: "reduced submatrix emptiness disagrees with SP verdict",
         82: "violator returned for a series-parallel matrix", 83: "violator is not a wheel / M2 submatrix",
         84: "separation returned for a series-parallel matrix", 85: "separation is not a 2-separation of the reduced matrix",
         86: "no violator returned for a non-series-parallel matrix", 87: "reduced submatrix not returned"}
HASH_RANGES = (3, 5, 17, 2)


def nontrivial(line, rec):
    t = line.split()
    m, n = int(t[9]), int(t[10])
    return m >= 2 and n >= 2 and sum(1 for x in t[11:] if x != "0") >= 3


def requests(rng, api):
    wv, wr, wd, wviol = rng.below(2), rng.below(2), rng.below(2), rng.below(2)
    ws = rng.below(2) if api == 1 else 0
    if ws:
        wd = 1
    return wv, wr, wd, wviol, ws


def keyfn(line, code):
    return line


def keyfn_forced(line, code):
    t = line.split()
    if code == "crash" and t[6] == "1":
        return "forced-hash-range:violator-search-crash"
    return line


def sp_lines(ctx, label):
    q = ctx.quick
    rng = ctx.rng.fork("sp-" + label)
    lines = []
    pres = [0, 0, 1, 6, 1000]

    def add(tern, M, m=None, n=None, full=False):
        ml = mat_line(M, m, n)
        api = rng.below(2)
        combos = []
        if full:
            for a in (0, 1):
                for bits in range(16):
                    combos.append((a, -1, (bits >> 3) & 1, (bits >> 2) & 1, (bits >> 1) & 1, bits & 1, 0))
                combos.append((1, -1, 1, 1, 1, 1, 1))
                combos.append((1, -1, 0, 0, 1, 0, 1))
            for mr in (0, 1, 2):
                combos.append((1, mr, 1, 1, 0, 0, 0))
        else:
            for _ in range(2):
                api = rng.below(2)
                wv, wr, wd, wviol, ws = requests(rng, api)
                mr = -1
                if api == 1 and rng.below(5) == 0:
                    mr = rng.below(4)
                    wd, wviol, ws = 0, 0, 0
                combos.append((api, mr, wv, wr, wd, wviol, ws))
            combos.append((rng.below(2), -1, 1, 1, 1, 1, 0))
        for (a, mr, wv, wr, wd, wviol, ws) in combos:
            lines.append("%d %d %d %d %d %d %d %d %d %s" % (tern, a, mr, wv, wr, wd, wviol, ws, rng.choice(pres), ml))

    tb = 9 if q else 12
    for m in range(0, 5):
        for n in range(0, 5):
            if m * n > tb:
                continue
            for M in all_matrices(m, n, (-1, 0, 1)):
                add(1, M, m, n, full=(m * n <= 4))
    bb = 12 if q else 16
    for m in range(0, 5):
        for n in range(0, 5):
            if m * n > bb:
                continue
            for M in all_matrices(m, n, (0, 1)):
                add(0, M, m, n, full=(m * n <= 4))
    # constructed: SP by extension sequences, optionally around a wheel core
    for _ in range(600 if q else 8000):
        tern = rng.below(2)
        core_kind = rng.below(3)
        if core_kind == 0:
            M = [[1]]
        else:
            k = 3 + rng.below(4)
            M = [[1 if (j == i or j == (i - 1) % k) else 0 for j in range(k)] for i in range(k)]
            if core_kind == 2 and tern:
                M[0][0] = -1
        M = gen.add_sp_lines(rng, M, 2 + rng.below(10 if q else 40), bool(tern))
        if rng.below(2):
            M = gen.permute(rng, M)
        add(tern, M)
    # wide matrices: more than 40 lines
    for _ in range(40 if q else 600):
        tern = rng.below(2)
        M = gen.add_sp_lines(rng, [[1, 1], [1, -1 if tern else 0]], 45 + rng.below(30), bool(tern))
        add(tern, M)
    for _ in range(800 if q else 10000):
        tern = rng.below(2)
        m, n = 2 + rng.below(6), 2 + rng.below(6)
        M = rand_matrix(rng, m, n, (-1, 0, 1) if tern else (0, 1), 2 + rng.below(5), 10)
        add(tern, M, m, n)
    # graphic / cographic matrices of 3-connected graphs (binary and, with the ternary entry points, as ternary input): not
    # series-parallel, with 2-separations that appear only after reductions - the wheel search has to restrict itself to a
    # part of a 2-separation several times
    for _ in range(600 if q else 12000):
        nn, E = gen.threeconn_graph(rng)
        M, _w = gen.graph_instance(rng, nn, len(E), False, loops=False, edges=E)
        if not M or not M[0]:
            continue
        if rng.below(2):
            M = [list(r) for r in zip(*M)]
        if rng.below(3) == 0:
            M = gen.add_sp_lines(rng, M, 1 + rng.below(4), False)
        add(rng.below(2), M)
    # every value of maxNumReductions from 0 to m + n (so also exactly the number of reductions the matrix admits, and
    # one less / one more): SIZE_MAX must be reported exactly when the bound is exceeded
    for _ in range(250 if q else 4000):
        tern = rng.below(2)
        if rng.below(2):
            m, n = 2 + rng.below(5), 2 + rng.below(5)
            M = rand_matrix(rng, m, n, (-1, 0, 1) if tern else (0, 1), 2 + rng.below(5), 10)
        else:
            k = 3 + rng.below(2)
            core = [[1 if (j == i or j == (i - 1) % k) else 0 for j in range(k)] for i in range(k)] if rng.below(2) else [[1]]
            M = gen.add_sp_lines(rng, core, 2 + rng.below(7), bool(tern))
            if rng.below(2):
                M = gen.permute(rng, M)
        ml = mat_line(M)
        for mr in range(0, len(M) + len(M[0]) + 2):
            lines.append("%d 1 %d 1 %d 0 0 0 %d %s" % (tern, mr, rng.below(2), rng.choice(pres), ml))
    return lines


def run(ctx):
    import clilib as _cls
    _cls.stream(ctx, "clisub", gen.cliverdict_lines(ctx.rng.fork("clisub0"), 4, 1, 300 if ctx.quick else 8000, (0, 1), 6, 6, 36, False, variants=[0, 1], tool_id=None),
                "cmr-series-parallel [-b] -N: the written submatrix file vs. the matrix parsed from the input bytes",
                lambda c: gen.CLISUB_CODES.get(c, str(c)))
    import clilib as _cls
    _cls.stream(ctx, "clisub", gen.cliverdict_lines(ctx.rng.fork("clisub1"), 4, 1, 300 if ctx.quick else 8000, (0, 1), 6, 6, 36, False, variants=[0, 1], tool_id=14),
                "cmr-series-parallel [-b] -R: the written submatrix file vs. the matrix parsed from the input bytes",
                lambda c: gen.CLISUB_CODES.get(c, str(c)))
    import clilib as _cls
    _cls.stream(ctx, "clisub", gen.cliverdict_lines(ctx.rng.fork("clisub2"), 4, 1, 300 if ctx.quick else 8000, (-1, 0, 1), 6, 6, 36, True, variants=[0], tool_id=None),
                "cmr-series-parallel -N (ternary): the written submatrix file vs. the matrix parsed from the input bytes",
                lambda c: gen.CLISUB_CODES.get(c, str(c)))
    import clilib
    clilib.stream(ctx, "cliverdict", gen.cliverdict_lines(ctx.rng.fork("cliverdict"), 4, 2, 400 if ctx.quick else 8000, (0, 1), 6, 6, 36, False),
                  "cmr-series-parallel [-b]: verdict line vs. the definition-level oracle on the matrix parsed from the input bytes",
                  lambda c: gen.CLIVERDICT_CODES.get(c, str(c)))
    ctx.stream("leaf", gen.leaf_lines(ctx.rng.fork("leaf"), (2,), 2000 if ctx.quick else 100000),
               "leaf functions (projectSignedHash): compiled C vs. the definition translated from the C text vs. the specification",
               describe=lambda c: gen.LEAF_CODES.get(c, str(c)))
    corpus = [l.strip() for l in open(os.path.join(vlib.VERIF, "tools", "corpus", "C08.sp.txt")) if l.strip() and not l.startswith("#")]
    ctx.stream("sp", corpus, "sp: corpus of earlier failures", describe=lambda c: CODES.get(c, str(c)), nontrivial=nontrivial, keyfn=keyfn)
    lines = sp_lines(ctx, "main")
    ctx.stream("sp", lines, "sp: real hash range", describe=lambda c: CODES.get(c, str(c)), nontrivial=nontrivial, keyfn=keyfn)
    ranges = HASH_RANGES[:2] if ctx.quick else HASH_RANGES
    for R in ranges:
        ctx.stream("sp", lines, "sp: hash range forced to %d" % R, describe=lambda c: CODES.get(c, str(c)),
                   nontrivial=nontrivial, keyfn=keyfn_forced, extra_defs=("-DDISCOPT_CMR_VERIF_HASH_RANGE=%d" % R,), tag="hash%d" % R)
