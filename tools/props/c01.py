"""C01 — TU verdict equals the definition for every algorithm and parameter setting."""
import vlib, gen
from vlib import mat_line, all_matrices, rand_matrix

RULE = ("CMRtuTest verdict vs. the Coq brute-force determinant oracle (tu_bf, proved equal to the definition): all "
        "{-1,0,1} matrices with m*n <= bound under a covering set of (ternary/binary+Camion first/last) x strategy x "
        "directGraphicness x seriesParallel, all three algorithms; all 0/1 matrices up to a larger bound; matrices with "
        "entries outside {-1,0,1}; random and structured (network, R10, R12, F7, 1-/2-sums, SP extensions, permuted, "
        "scaled, corrupted) matrices up to 7x7 with random full parameter vectors incl. stop flags; "
        "non-trivial = distinct (cfg, matrix) with at least 2 rows, 2 columns and 3 nonzeros")
JUDGE_API = {"tu_signed": "tu"}   # (replays of the deep-cert family re-judge with the oracle-free judge by size, see check.replay)
CODES = {1: "malformed record", 30: "CMRtuTest failed", 31: "verdict not written although no stop flag is set",
         32: "TU verdict differs from the definition", 33: "no violating submatrix returned", 34: "violating submatrix invalid",
         35: "violator not minimal (|det| != 2 or a proper submatrix is not TU)", 36: "non-ternary input: violator is not a single entry",
         37: "submatrix returned for a TU matrix"}


def nontrivial(line, rec):
    t = line.split()
    m, n = int(t[17]), int(t[18])
    return m >= 2 and n >= 2 and sum(1 for x in t[19:] if x != "0") >= 3


def keyfn(line, code):
    t = line.split()
    if code == 33 and t[0] == "2":
        return "algorithm=partition:no-submatrix"
    if code == 32 and t[17] == "5" and t[18] == "5" and gen.passes_r10_count(t[19:]):
        return "R10-count-test-accepts-non-R10-5x5"
    if code == 32 and t[0] == "0" and t[1] == "0" and t[2] == "1" and (t[5] != "0" or t[6] != "0" or t[7] != "0"):
        return "binary+camionFirst+stopflag:verdict-left-from-camion-test"
    return line


def tu_lines(ctx, want_sub):
    lines = []
    q = ctx.quick
    tb = 9 if q else 12
    cfgs = gen.decomposition_cfgs()
    algs = [gen.cfg(algorithm=1), gen.cfg(algorithm=2)]
    for m in range(0, 5):
        for n in range(0, 5):
            if m * n > tb:
                continue
            full = m * n <= (6 if q else 9)
            for idx, M in enumerate(all_matrices(m, n, (-1, 0, 1))):
                ml = mat_line(M, m, n)
                use = (cfgs + algs) if full else [cfgs[idx % len(cfgs)], cfgs[(idx * 7 + 3) % len(cfgs)], algs[idx % 2]]
                for c in use:
                    c = c[:]
                    c[15] = want_sub
                    c[3] = idx % 2
                    lines.append(gen.cfg_line(c) + " " + ml)
    bb = 12 if q else 16
    for m in range(1, 6):
        for n in range(1, 6):
            if m * n > bb or m * n <= tb:
                continue
            for idx, M in enumerate(all_matrices(m, n, (0, 1))):
                c = (cfgs + algs)[idx % (len(cfgs) + 2)][:]
                c[15] = want_sub
                lines.append(gen.cfg_line(c) + " " + mat_line(M, m, n))
    rng = ctx.rng.fork("tu-rnd%d" % want_sub)
    for _ in range(1500 if q else 30000):
        m, n = 2 + rng.below(5), 2 + rng.below(5)
        if rng.below(8) == 0:
            M = rand_matrix(rng, m, n, (-3, -2, -1, 0, 1, 2, 3), 2 + rng.below(5), 10)
        else:
            M = rand_matrix(rng, m, n, (-1, 0, 1), 2 + rng.below(6), 10)
        c = gen.rand_cfg(rng, stopflags=rng.below(4) == 0, wantSub=want_sub)
        lines.append(gen.cfg_line(c) + " " + mat_line(M, m, n))
    for _ in range(2500 if q else 40000):
        M = gen.structured(rng, 7, True)
        if not M or not M[0]:
            continue
        c = gen.rand_cfg(rng, stopflags=rng.below(5) == 0, wantSub=want_sub)
        if c[0] != 0 and len(M) * len(M[0]) > 36:
            c[0] = 0
        lines.append(gen.cfg_line(c) + " " + mat_line(M))
    return lines


def r10_lines(ctx, want_sub):
    """Camion-signed versions (signed by the library itself, echoed in the record) of every 5x5 0/1 matrix that passes
    the row/column count test of the R10 shortcut"""
    cfgs = gen.decomposition_cfgs()
    out = []
    for idx, M in enumerate(gen.r10_pattern_matrices()):
        for j in range(1 if ctx.quick else 4):
            c = cfgs[(idx * 3 + j * 7) % len(cfgs)][:]
            c[15] = want_sub
            out.append(gen.cfg_line(c) + " " + mat_line(M, 5, 5))
    return out


def pivoted_lines(ctx, want_sub):
    """presentations (random ternary pivots, permutations, scalings) of Camion-signed regular matroids up to 7x7 —
    R10, R12 and 3-sums of a graphic and a cographic matroid: they reach the ternary 3-sum / pivot code of the
    decomposition under all five strategies; about a third are corrupted in one entry"""
    rng = ctx.rng.fork("tu-pivoted%d" % want_sub)
    seeds = gen.library_signed(ctx.drive("rel"), gen.deep_binary_seeds(rng, 10 if ctx.quick else 60, 49))
    out = []
    strategies = list(gen.STRATEGIES.values())
    for _ in range(1500 if ctx.quick else 40000):
        M = gen.pivoted_presentation(rng, [r[:] for r in rng.choice(seeds)], rng.below(4))
        if rng.below(3) == 0:
            M = gen.corrupt(rng, M, (-1, 0, 1))
        c = gen.cfg(algorithm=0, ternary=1 if rng.below(4) else 0, camionFirst=rng.below(2), strategy=rng.choice(strategies),
                    direct=rng.below(2), sp=rng.below(2), wantSub=want_sub)
        out.append(gen.cfg_line(c) + " " + mat_line(M))
    return out


def deep_cert_lines(ctx):
    """large matrices (beyond the brute-force oracle) with the violating submatrix requested: binary 3-sums of a graphic
    and a cographic matroid (TU by construction in the classical theory, not by a theorem of this development) and
    pivoted ternary presentations of their Camion signings, a third of them corrupted; judged by judge_tu_cert: every
    'not TU' answer must be certified by its submatrix"""
    rng = ctx.rng.fork("tu-deep-cert")
    q = ctx.quick
    seeds = gen.deep_binary_seeds(rng, 40 if q else 400, 160)
    signed = gen.library_signed(ctx.drive("rel"), seeds)
    strategies = list(gen.STRATEGIES.values())
    out = []
    for i in range(1200 if q else 30000):
        if i % 2 == 0:
            M = gen.permute(rng, [r[:] for r in rng.choice(seeds)])
            tern = 0
            alpha = (0, 1)
        else:
            M = gen.pivoted_presentation(rng, [r[:] for r in rng.choice(signed)], rng.below(3))
            tern = 1
            alpha = (-1, 0, 1)
        if rng.below(3) == 0:
            M = gen.corrupt(rng, M, alpha)
        c = gen.cfg(algorithm=0, ternary=tern, camionFirst=rng.below(2), naive=0, strategy=rng.choice(strategies),
                    direct=rng.below(2), sp=rng.below(2), wantSub=1)
        out.append(gen.cfg_line(c) + " " + mat_line(M))
    return out


def run(ctx):
    ctx.stream("tu_net", gen.tu_net_lines(ctx.rng.fork("tu_net"), 1500 if ctx.quick else 40000),
               "CMRtuTest on network matrices of every size, certified by their digraph (network => TU is proved: NetworkTU.v)",
               describe=lambda c: gen.TU_NET_CODES.get(c, str(c)), nontrivial=lambda l, r: True)
    ctx.stream("tu_net", gen.sp_cert_lines(ctx.rng.fork("tu_sp"), 800 if ctx.quick else 20000, True),
               "CMRtuTest on series-parallel {-1,0,1} matrices of every size, certified by the reduction model (SP => TU is proved: SpTU.v)",
               describe=lambda c: gen.TU_NET_CODES.get(c, str(c)), nontrivial=lambda l, r: True)
    import clilib
    clilib.stream(ctx, "cliverdict", gen.cliverdict_lines(ctx.rng.fork("cliverdict"), 0, 7, 400 if ctx.quick else 8000, (-1, 0, 1), 5, 5, 20, True),
                  "cmr-tu: verdict line vs. the definition-level oracle on the matrix parsed from the input bytes",
                  lambda c: gen.CLIVERDICT_CODES.get(c, str(c)))
    ctx.stream("tu", deep_cert_lines(ctx), "large 3-sum matrices, 'no' answers certified by their submatrix",
               judge_api="tu_cert", describe=lambda c: CODES.get(c, str(c)), nontrivial=nontrivial, keyfn=keyfn)
    ctx.stream("tu", pivoted_lines(ctx, 0), "pivoted presentations of signed regular matroids (R10, R12, 3-sums)",
               describe=lambda c: CODES.get(c, str(c)), nontrivial=nontrivial, keyfn=keyfn)
    ctx.stream("tu_signed", r10_lines(ctx, 0), "Camion-signed 5x5 matrices passing the R10 count test", judge_api="tu",
               describe=lambda c: CODES.get(c, str(c)), nontrivial=nontrivial, keyfn=keyfn)
    lines = tu_lines(ctx, 0)
    ctx.stream("tu", lines, "tu verdict: exhaustive small x parameter cover, random, structured",
               describe=lambda c: CODES.get(c, str(c)), nontrivial=nontrivial, keyfn=keyfn)
