"""C04 — node flags and leaf certificates in a decomposition tree never lie."""
from props import c03

RULE = ("the trees of C03 (with constructLeafGraphs / constructAllGraphs / planarityCheck and the stopWhenNongraphic / "
        "Noncographic modes in the parameter product): at every node, a stored graph / cograph with forest, coforest and arc "
        "reversals must pass the Coq-verified certificate checkers against the node's matrix (transpose), every stored "
        "determinant-type minor must have |det| >= 2 inside the node's matrix, an R10 node must represent R10, and every non-zero "
        "regularity / graphicness / cographicness flag is compared with the Coq oracles on nodes where they apply (<= 36 entries for "
        "regularity, <= 4 rows resp. columns for (co)graphicness); non-trivial = distinct case whose tree has an inner node")
CODES = c03.CODES


def run(ctx):
    from props import c10 as _c10
    ctx.stream("rel", _c10.presentation_lines(ctx, "c04-presentations", 30 if ctx.quick else 300, 300 if ctx.quick else 1200),
               "regularity / TU flags of the decomposition root under many presentations of the same matroid (judge_rel, kind 1)",
               describe=lambda c: _c10.CODES.get(c, str(c)), nontrivial=lambda l, r: True)
    lines = c03.tree_lines(ctx, "c04")
    ctx.stream("tree", lines, "flags and certificates at every node", describe=lambda c: CODES.get(c, str(c)),
               nontrivial=c03.has_inner, ignore_codes=tuple(c03.STRUCT), keyfn=c03.keyfn)
