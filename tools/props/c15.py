"""C15 — complement operations and the complement-TU test."""
import vlib, gen
from vlib import mat_line, all_matrices, rand_matrix

RULE = ("all 0/1 matrices of every shape with m*n <= bound x all (row, column) choices incl. 'none' for "
        "CMRctuComplementRowColumn (result compared entry for entry with the Coq model proved equal to the "
        "definition in doc/ctu.md); CMRctuTest verdict and reported pair against the Coq brute-force definition; "
        "random larger 0/1 matrices; non-trivial = distinct case whose matrix has a nonzero and some complement line")
TRUSTED = ["tools/c2gallina.py translation of the flip rule of ctu.c (both copies) into coq/Gen/CtuGen.v"]
ASSUMPTIONS = ["CMRctuTest reports 'none' by its loop index (numRows/numColumns); the harness maps it to 'none'"]

CODES = {1: "record malformed / returned matrix not a well-formed CSR", 10: "complement call failed",
         11: "result has wrong shape", 12: "complemented matrix differs from the definition",
         20: "CMRctuTest failed", 21: "complement-TU verdict differs from the definition",
         22: "reported row/column out of range", 23: "reported complement is TU (not a witness)"}


def run(ctx):
    import clilib as _clc
    _clc.stream(ctx, "clictu", gen.clictu_lines(ctx.rng.fork("clictu"), 600 if ctx.quick else 15000),
                "cmr-ctu -r/-c and -N: written matrix vs. the complement model on the matrix parsed from the input bytes",
                lambda c: gen.CLICTU_CODES.get(c, str(c)))
    import clilib
    clilib.stream(ctx, "cliverdict", gen.cliverdict_lines(ctx.rng.fork("cliverdict"), 6, 1, 400 if ctx.quick else 8000, (0, 1), 4, 4, 12, False),
                  "cmr-ctu: verdict line vs. the definition-level oracle on the matrix parsed from the input bytes",
                  lambda c: gen.CLIVERDICT_CODES.get(c, str(c)))
    bound = 9 if ctx.quick else 12
    lines = []
    shapes = [(m, n) for m in range(0, 5) for n in range(0, 5) if m * n <= bound]
    for m, n in shapes:
        for M in all_matrices(m, n, (0, 1)):
            base = mat_line(M, m, n)
            for r in [-1] + list(range(m)):
                for c in [-1] + list(range(n)):
                    lines.append("%s %d %d" % (base, r, c))
    rng = ctx.rng.fork("compl")
    for _ in range(300 if ctx.quick else 3000):
        m, n = 1 + rng.below(9), 1 + rng.below(9)
        M = rand_matrix(rng, m, n, (0, 1), 1 + rng.below(8), 10)
        lines.append("%s %d %d" % (mat_line(M, m, n), rng.below(m + 1) - 1, rng.below(n + 1) - 1))
    nt = lambda l, r: (" 1" in l[3:]) and not l.endswith("-1 -1")
    ctx.stream("ctu_compl", lines, "complement: exhaustive small + random", describe=lambda c: CODES.get(c, str(c)), nontrivial=nt)

    tl = []
    tb = 9 if ctx.quick else 12
    for m in range(0, 5):
        for n in range(0, 5):
            if m * n <= tb:
                for M in all_matrices(m, n, (0, 1)):
                    tl.append(mat_line(M, m, n))
    rng = ctx.rng.fork("test")
    for _ in range(200 if ctx.quick else 3000):
        m, n = 2 + rng.below(4), 2 + rng.below(4)
        tl.append(mat_line(rand_matrix(rng, m, n, (0, 1), 2 + rng.below(6), 10), m, n))
    # the answer of CMRctuTest must not depend on a time limit either: every clock read of the call is made the moment the
    # limit expires (C18's injection, judge_tlimit) - an error of one of the inner TU tests must come back as an error
    if hasattr(ctx, "families"):
        from props import c18 as _c18
        trng = ctx.rng.fork("ctu-tlimit")
        items = []
        for _ in range(40 if ctx.quick else 600):
            m, n = 3 + trng.below(3), 3 + trng.below(3)
            items.append(("%d %d %s" % (_c18.SUBS["ctu_test"], 0 if m * n <= 16 else 64,
                                       mat_line(rand_matrix(trng, m, n, (0, 1), 3 + trng.below(5), 10), m, n)), "ctu_test", None))
        _c18.evaluate(ctx, items)
    ctx.stream("ctu_test", tl, "ctu test: exhaustive small + random", describe=lambda c: CODES.get(c, str(c)),
               nontrivial=lambda l, r: " 1" in l[3:])
