"""C10 — verdicts are invariant under each class's symmetries and closure operations."""
import vlib, gen
from vlib import mat_line, rand_matrix, transpose

RULE = ("families (M, M') where the Coq judge first verifies that M' is the stated transform of M (row/column permutation, +-1 "
        "scaling, transposition, adding one zero/unit/(negated) duplicate line, taking a submatrix, a ternary or binary pivot) and "
        "then checks the relation between the ten verdicts (TU, regular, graphic, cographic, network, conetwork, SP ternary/binary, "
        "balanced, Camion-signed) of M and M': equal, swapped under transposition (graphic/cographic, network/conetwork), or yes => "
        "yes for submatrices; seeds: network matrices of 10-120 arcs, R10/R12/F7 and 1-/2-sums thereof, with and without a random "
        "corruption, random sparse matrices; all five decomposition strategies, and for matrices up to 8x8 also the Eulerian and the partition TU algorithm; non-trivial = distinct pair with >= 3 rows and columns")
CODES = {1: "malformed record", 400: "generator produced a pair that is not the stated transform (harness defect)",
         401: "verdict changes under a row/column permutation", 402: "verdict changes under +-1 scaling of lines",
         403: "verdicts not preserved / swapped under transposition", 404: "verdict changes when a zero/unit/duplicate line is added",
         405: "a submatrix of a yes-instance is reported as a no-instance", 406: "verdict changes under a pivot"}


def fmt(l):
    return "%d %s" % (len(l), " ".join(map(str, l)))


def seed(rng, big):
    k = rng.below(6)
    if k <= 1:
        nn = 4 + rng.below(40 if big else 8)
        M = gen.network_matrix(rng, nn, 3 + rng.below(60 if big else 8))
    elif k == 2:
        M = gen.structured(rng, 9, True)
    elif k == 3:
        A = gen.network_matrix(rng, 4 + rng.below(10 if big else 4), 3 + rng.below(10 if big else 4))
        B = [r[:] for r in rng.choice([gen.R10, gen.R12, gen.R10_CYC])]
        M = gen.two_sum(A, B, rng.below(len(A)), rng.below(len(B[0]))) if rng.below(2) else gen.block_diag(A, B)
    elif k == 4:
        m, n = 3 + rng.below(6), 3 + rng.below(6)
        M = rand_matrix(rng, m, n, (-1, 0, 1), 2 + rng.below(4), 10)
    else:
        M = [[abs(x) for x in r] for r in gen.structured(rng, 9, True)]
    if not M or not M[0]:
        M = [[1, 0], [1, 1]]
    if rng.below(3) == 0:
        M = gen.corrupt(rng, M)
    if rng.below(3) == 0:
        M = [[abs(x) for x in r] for r in M]
    return M


def presentation_lines(ctx, label, nseeds, per):
    """(M, permuted M) pairs, kind 1, for many presentations (binary pivots, then row/column permutations) of the same
    regular matroids that need 3-sums: the decomposition's search for 3-separations depends on the order of rows and
    columns, the verdicts (and hence the flags of the decomposition's root) must not"""
    strategies = list(gen.STRATEGIES.values())
    plines = []
    prng = ctx.rng.fork(label)
    pseeds = [S for S in gen.deep_binary_seeds(prng, nseeds, 400) if len(S) >= 6]
    for S in pseeds:
        for k in range(per):
            if k % 25 == 0:
                B = [r[:] for r in S]
                for _ in range(prng.below(4)):
                    nz = [(i, j) for i in range(len(B)) for j in range(len(B[0])) if B[i][j]]
                    r, c = prng.choice(nz)
                    B = [[(B[i][j] + (B[i][c] * B[r][j] if i != r and j != c else 0)) % 2 for j in range(len(B[0]))]
                         for i in range(len(B))]
                m, n = len(B), len(B[0])
            rp = prng.shuffle(list(range(m)))
            cp = prng.shuffle(list(range(n)))
            N = [[B[i][j] for j in cp] for i in rp]
            plines.append("%d 1 %s %s %s %s" % (prng.choice(strategies), fmt(rp), fmt(cp), mat_line(B, m, n), mat_line(N)))
    return plines


def run(ctx):
    q = ctx.quick
    rng = ctx.rng.fork("rel")
    lines = []
    strategies = list(gen.STRATEGIES.values())
    # ternary presentations of regular matroids that need 3-sums (signed by the library itself; the judge only compares
    # presentations with each other, so nothing about the seeds is trusted)
    deep = gen.library_signed(ctx.drive("rel"), gen.deep_binary_seeds(rng, 12 if q else 80, 120))
    for it in range(1200 if q else 20000):
        if deep and it % 3 == 0:
            M = gen.pivoted_presentation(rng, [r[:] for r in rng.choice(deep)], rng.below(3))
            if rng.below(4) == 0:
                M = gen.corrupt(rng, M, (-1, 0, 1))
        else:
            M = seed(rng, big=(it % 6 == 0))
        m, n = len(M), len(M[0])
        strat = rng.choice(strategies)
        if m <= 8 and n <= 8 and rng.below(3) == 0:
            strat = 1000 + rng.choice([1, 2])     # first verdict by the Eulerian / Ghouila-Houri algorithm instead
        for _ in range(2 if q else 4):
            kind = rng.choice([1, 1, 2, 3, 4, 4, 5, 6, 7])
            if kind == 1:
                rp = rng.shuffle(list(range(m)))
                cp = rng.shuffle(list(range(n)))
                N = [[M[i][j] for j in cp] for i in rp]
                p1, p2 = rp, cp
            elif kind == 2:
                rs = [rng.choice([1, -1]) for _ in range(m)]
                cs = [rng.choice([1, -1]) for _ in range(n)]
                N = [[rs[i] * cs[j] * M[i][j] for j in range(n)] for i in range(m)]
                p1, p2 = rs, cs
            elif kind == 3:
                N = transpose(M, m, n)
                p1, p2 = [], []
            elif kind == 4:
                isrow = rng.below(2)
                pos = rng.below((m if isrow else n) + 1)
                t = rng.below(3)
                binary = all(x in (0, 1) for r in M for x in r)
                sg = 1 if binary else rng.choice([1, -1])
                if isrow:
                    if t == 0:
                        line = [0] * n
                    elif t == 1:
                        line = [0] * n
                        line[rng.below(n)] = sg
                    else:
                        line = [sg * x for x in M[rng.below(m)]]
                    N = M[:pos] + [line] + M[pos:]
                else:
                    if t == 0:
                        line = [0] * m
                    elif t == 1:
                        line = [0] * m
                        line[rng.below(m)] = sg
                    else:
                        j = rng.below(n)
                        line = [sg * M[i][j] for i in range(m)]
                    N = [M[i][:pos] + [line[i]] + M[i][pos:] for i in range(m)]
                p1, p2 = [isrow, pos], []
            elif kind == 5:
                rsel = sorted(rng.shuffle(list(range(m)))[:max(1, m - rng.below(3))])
                csel = sorted(rng.shuffle(list(range(n)))[:max(1, n - rng.below(3))])
                N = [[M[i][j] for j in csel] for i in rsel]
                p1, p2 = rsel, csel
            else:
                tern = kind == 6
                if (not tern) and not all(x in (0, 1) for r in M for x in r):
                    continue
                nz = [(i, j) for i in range(m) for j in range(n) if M[i][j] != 0]
                if not nz:
                    continue
                r, c = rng.choice(nz)
                pv = M[r][c]
                N = [[0] * n for _ in range(m)]
                for i in range(m):
                    for j in range(n):
                        if i == r and j == c:
                            v = -pv
                        elif i == r or j == c:
                            v = -M[i][j] if pv == -1 else M[i][j]
                        else:
                            v = M[i][j] - pv * M[i][c] * M[r][j]
                        if tern:
                            v = ((v % 3) + 3) % 3
                            v = -1 if v == 2 else v
                        else:
                            v = v % 2
                        N[i][j] = v
                p1, p2 = [r, c], []
            lines.append("%d %d %s %s %s %s" % (strat, kind, fmt(p1), fmt(p2), mat_line(M, m, n), mat_line(N)))
    plines = presentation_lines(ctx, "presentations", 30 if q else 300, 300 if q else 1200)
    ctx.stream("rel", plines, "many presentations of regular matroids that need 3-sums", describe=lambda c: CODES.get(c, str(c)),
               nontrivial=lambda l, r: True)
    ctx.stream("rel", lines, "verdict relations on transformed presentations", describe=lambda c: CODES.get(c, str(c)),
               nontrivial=lambda l, r: True)
