"""C17 — balancedness verdict equals the definition, is always written; violator valid."""
import vlib, gen
from vlib import mat_line, all_matrices, rand_matrix

RULE = ("CMRbalancedTest on all {-1,0,1} matrices with m*n <= bound x algorithm {auto, submatrix, graph} x seriesParallel "
        "x violator requested or not, matrices with other integer entries, random multi-block and structured matrices up "
        "to 7x7; verdict flag pre-set to a sentinel to detect 'not written'; verdict compared with the Coq brute-force "
        "definition balanced_bf, violators with check_unbalanced; non-trivial = distinct case with >= 2 rows and columns "
        "and >= 4 nonzeros")
CODES = {1: "malformed record", 60: "CMRbalancedTest failed", 61: "verdict not written on a successful return",
         62: "matrix with an entry outside {-1,0,1} reported balanced", 63: "balancedness verdict differs from the definition",
         64: "no violating submatrix returned", 65: "violator is not a square submatrix with two nonzeros per line and sum = 2 mod 4",
         66: "non-ternary input: violator is not the offending entry", 67: "submatrix returned for a balanced matrix"}


def nontrivial(line, rec):
    t = line.split()
    m, n = int(t[3]), int(t[4])
    return m >= 2 and n >= 2 and sum(1 for x in t[5:] if x != "0") >= 4


def run(ctx):
    import clilib as _cls
    _cls.stream(ctx, "clisub", gen.cliverdict_lines(ctx.rng.fork("clisub0"), 5, 1, 300 if ctx.quick else 8000, (-1, 0, 1), 5, 5, 20, True, variants=[0, 1, 2], tool_id=None),
                "cmr-balanced -N: the written submatrix file vs. the matrix parsed from the input bytes",
                lambda c: gen.CLISUB_CODES.get(c, str(c)))
    import clilib
    clilib.stream(ctx, "cliverdict", gen.cliverdict_lines(ctx.rng.fork("cliverdict"), 5, 3, 400 if ctx.quick else 8000, (-1, 0, 1), 5, 5, 20, True),
                  "cmr-balanced: verdict line vs. the definition-level oracle on the matrix parsed from the input bytes",
                  lambda c: gen.CLIVERDICT_CODES.get(c, str(c)))
    import os as _os
    _cp = _os.path.join(vlib.VERIF, "tools", "corpus", "C17.balanced_cert.txt")
    if _os.path.exists(_cp):
        ctx.stream("balanced_cert", [l.strip() for l in open(_cp) if l.strip() and not l.startswith("#")],
                   "balanced_cert: corpus of earlier failures (run first)", describe=lambda c: gen.BALANCED_CERT_CODES.get(c, str(c)),
                   nontrivial=lambda l, r: True)
    ctx.stream("balanced_cert", gen.balanced_cert_lines(ctx.rng.fork("balanced_cert"), 1500 if ctx.quick else 40000),
               "CMRbalancedTest on certified totally unimodular matrices of every size (network by digraph, series-parallel by the "
               "reduction model; TU => balanced is proved: TuBalanced.v)",
               describe=lambda c: gen.BALANCED_CERT_CODES.get(c, str(c)), nontrivial=lambda l, r: True)
    q = ctx.quick
    lines = []
    bound = 9 if q else 12
    combos = [(a, sp, ws) for a in (0, 1, 2) for sp in (0, 1) for ws in (0, 1)]
    for m in range(0, 5):
        for n in range(0, 5):
            if m * n > bound:
                continue
            for idx, M in enumerate(all_matrices(m, n, (-1, 0, 1))):
                ml = mat_line(M, m, n)
                use = combos if m * n <= 6 else [combos[idx % 12], combos[(idx * 5 + 7) % 12]]
                for a, sp, ws in use:
                    lines.append("%d %d %d %s" % (a, sp, ws, ml))
    rng = ctx.rng.fork("balanced")
    for _ in range(2000 if q else 30000):
        m, n = 2 + rng.below(5), 2 + rng.below(5)
        if rng.below(8) == 0:
            M = rand_matrix(rng, m, n, (-2, -1, 0, 1, 2, 3), 3 + rng.below(5), 10)
        else:
            M = rand_matrix(rng, m, n, (-1, 0, 1), 2 + rng.below(6), 10)
        lines.append("%d %d %d %s" % (rng.choice([0, 0, 1, 1, 2]), rng.below(2), rng.below(2), mat_line(M, m, n)))
    for _ in range(2000 if q else 30000):
        M = gen.structured(rng, 7, True)
        if rng.below(2):
            A = rand_matrix(rng, 2 + rng.below(2), 2 + rng.below(2), (-1, 0, 1), 7, 10)
            M = gen.block_diag(M, A)
            M = gen.permute(rng, M)
            M = [r[:7] for r in M[:7]]
        if not M or not M[0]:
            continue
        lines.append("%d %d %d %s" % (rng.choice([0, 1]), rng.below(2), rng.below(2), mat_line(M)))
    # multi-block matrices (blocks in their given order, no permutation): dense random blocks (mostly unbalanced and not
    # series-parallel) next to series-parallel blocks, under every algorithm incl. the unimplemented graph-based one (an error of
    # one block must stay the status of the call) with series-parallel preprocessing on and off
    for _ in range(4000 if q else 60000):
        M = None
        for _b in range(2 + rng.below(2)):
            if rng.below(2):
                B = rand_matrix(rng, 3, 3 + rng.below(2), (-1, 0, 1), 7, 10)
            else:
                B = gen.add_sp_lines(rng, [[rng.choice([1, -1])]], 1 + rng.below(3), True)
            if not B or not B[0]:
                continue
            M = B if M is None else gen.block_diag(M, B)
        if M is None or len(M) > 8 or len(M[0]) > 8:
            continue
        lines.append("%d %d %d %s" % (rng.choice([2, 2, 0, 1]), 1 if rng.below(4) else 0, rng.below(2), mat_line(M)))
    ctx.stream("balanced", lines, "balanced: exhaustive small x algorithm x SP, random, structured",
               describe=lambda c: CODES.get(c, str(c)), nontrivial=nontrivial)
