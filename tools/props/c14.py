"""C14 — representation-matrix construction is exact and round-trips through recognition."""
import itertools, vlib, gen
from vlib import mat_line

RULE = ("CMRgraphicComputeMatrix / CMRnetworkComputeMatrix on all multigraphs with <= 4 nodes and <= 4 edges (loops, parallel "
        "edges, isolated nodes, several components) x every ordered edge subset offered as forest (forests, non-forests, partial "
        "forests) x coforest order given or not x all reversal vectors (sampled for 4 edges), and random larger graphs: "
        "matrix and transpose outputs must be transposes; the spanning-forest flag must equal the Coq definition "
        "is_spanning_forest; for a correct forest the matrix must equal the Coq rep_matrix in forest / coforest order with "
        "signs; then the constructed matrix is fed to the recognizers (C05/C06 judges with the input graph as witness); "
        "non-trivial = distinct case with >= 2 edges")
CODES = {1: "malformed record", 110: "call failed", 111: "matrix and transpose outputs are not transposes of each other",
         112: "spanning-forest flag differs from the definition", 113: "matrix differs from the fundamental-cycle / network matrix of the given forest",
         114: "columns are not the fundamental cycles of the non-forest edges", 115: "matrix outputs missing"}
JUDGE_API = {}


def graphs(maxv, maxe):
    for nv in range(1, maxv + 1):
        pairs = [(u, v) for u in range(nv) for v in range(u, nv)]
        for ne in range(0, maxe + 1):
            for es in itertools.combinations_with_replacement(pairs, ne):
                yield nv, list(es)


def run(ctx):
    ctx.stream("leaf", gen.leaf_lines(ctx.rng.fork("leaf"), (3, 4, 5, 6, 7, 8, 9, 10, 14), 2000 if ctx.quick else 100000),
               "leaf functions (element encoding): compiled C vs. the definition translated from the C text vs. the specification",
               describe=lambda c: gen.LEAF_CODES.get(c, str(c)))
    q = ctx.quick
    rng = ctx.rng.fork("repmat")
    lines = []
    for nv, es in graphs(4, 3 if q else 4):
        ne = len(es)
        for signed in (0, 1):
            orient = [rng.below(2) for _ in es]
            edges = [((v, u) if o else (u, v)) for (u, v), o in zip(es, orient)] if signed else es
            etoks = " ".join("%d %d" % e for e in edges)
            revs = [[]]
            if signed and ne:
                revs = [[e for e in range(ne) if (mask >> e) & 1] for mask in ([0, (1 << ne) - 1, rng.below(1 << ne)])]
            for k in range(0, ne + 1):
                subs = list(itertools.permutations(range(ne), k))
                if len(subs) > 8:
                    subs = [subs[rng.below(len(subs))] for _ in range(8)]
                for f in subs:
                    for rev in revs:
                        co = [e for e in range(ne) if e not in f]
                        rng.shuffle(co)
                        for hasC in (0, 1):
                            lines.append("%d %d %d %s %d %s 1 %d %s %d %s" % (
                                signed, nv, ne, etoks, len(rev), " ".join(map(str, rev)),
                                len(f), " ".join(map(str, f)), hasC,
                                ("%d %s" % (len(co), " ".join(map(str, co)))) if hasC else ""))
            lines.append("%d %d %d %s 0 0 0" % (signed, nv, ne, etoks))
    for _ in range(300 if q else 4000):
        nv = 2 + rng.below(10)
        ne = nv + rng.below(2 * nv)
        signed = rng.below(2)
        edges = [(rng.below(nv), rng.below(nv)) for _ in range(ne)]
        rev = [e for e in range(ne) if signed and rng.below(3) == 0]
        comp = list(range(nv))

        def find(x):
            while comp[x] != x:
                comp[x] = comp[comp[x]]
                x = comp[x]
            return x
        forest = []
        for e in rng.shuffle(list(range(ne))):
            a, b = find(edges[e][0]), find(edges[e][1])
            if a != b:
                comp[a] = b
                forest.append(e)
        if rng.below(4) == 0 and forest:
            forest = forest[:-1]            # partial forest
        if rng.below(6) == 0:
            extra = [e for e in range(ne) if e not in forest]
            if extra:
                forest = forest + [rng.choice(extra)]   # a non-forest (closes a cycle); edge lists never repeat an edge
        co = [e for e in rng.shuffle(list(range(ne))) if e not in forest]
        hasC = rng.below(2)
        lines.append("%d %d %d %s %d %s 1 %d %s %d %s" % (
            signed, nv, ne, " ".join("%d %d" % e for e in edges), len(rev), " ".join(map(str, rev)),
            len(forest), " ".join(map(str, forest)), hasC,
            ("%d %s" % (len(co), " ".join(map(str, co)))) if hasC else ""))
    ctx.stream("edgelist", gen.edgelist_lines(ctx.rng.fork("edgelist14"), 2000 if ctx.quick else 40000),
               "edge-list files as read by the tools: nodes, edges and forest/coforest labels vs. the documented grammar",
               describe=lambda c: gen.EDGELIST_CODES.get(c, str(c)))
    import clilib
    clilib.stream(ctx, "cligraph", gen.cligraph_lines(ctx.rng.fork("cligraph"), 1200 if ctx.quick else 30000),
                  "cmr-graphic -c / cmr-network -c: output bytes vs. the representation matrix of the parsed edge list",
                  lambda c: gen.CLIGRAPH_CODES.get(c, str(c)))
    ctx.stream("reprt", gen.reprt_lines(ctx.rng.fork("reprt"), 12000 if ctx.quick else 300000),
               "constructed matrices of larger (di)graphs go through recognition and construction again",
               describe=lambda c: gen.REPRT_CODES.get(c, str(c)))
    ctx.stream("repmat", lines, "representation matrices: exhaustive small multigraphs x forests x reversals, random",
               describe=lambda c: CODES.get(c, str(c)), nontrivial=lambda l, r: int(l.split()[2]) >= 2)
