"""C11 — no crash, failed assertion, undefined behaviour or leak; scratch stack balanced after every call.

The case streams of all functional properties (every public entry point the harness drives, with their parameter
covers) are replayed on the assertion-enabled ASan+UBSan build, with
  * every scratch-stack chunk fenced by ASan poison (exact bounds for CMRallocStackArray arrays),
  * CMRgetStackUsage compared before/after every case (flag S),
  * heap bytes compared before/after every case, LeakSanitizer report on a difference (flag L),
  * the _CMRallocStack/_CMRfreeStack event trace of every case replayed through the Coq StackModel (judge_stack),
and (a sample) on the MemorySanitizer build, where fresh scratch chunks are re-poisoned on every allocation.
"""
import importlib, re, hashlib, os
import vlib

LEVEL = "proof"
RULE = ("every case stream of C01..C20's generators (sampled down to a per-stream cap) on the -O1 ASan+UBSan build with "
        "assertions enabled: a case is a failure if the process dies (signal, sanitizer report, failed assertion, "
        "watchdog), if CMRgetStackUsage is not 0 when the handler returns, if heap bytes remain allocated after the "
        "environment was released, if scratch chunks are freed out of order, or if the extracted Coq judge_stack "
        "rejects the case's allocator event trace; plus the MSan build on a smaller sample; "
        "non-trivial = distinct case whose record was produced")
TRUSTED = ["gcc ASan/UBSan/LSan and clang MSan runtimes; harness wrappers around _CMRallocStack/_CMRfreeStack "
           "(link-time --wrap, nothing in /repo); src/cmr/env.c is compiled without ASan instrumentation in the dbg build "
           "because the harness poisons the allocator's own bookkeeping bytes",
           "modelled, not verified: StackModel.v is a hand-written model of _CMRallocStack/_CMRfreeStack/CMRgetStackUsage; "
           "it is tied to env.c by replaying every traced event and comparing the usage figure after each one"]
ASSUMPTIONS = ["crashes, assertion failures, out-of-bounds / uninitialised accesses and heap leaks are runtime behaviour the "
               "Coq model cannot exhibit: for them this check is a sanitized exploration of the listed streams, not a proof",
               "CLI tools (src/main/*.c) are exercised by tools/props/c11.py:cli_stream on generated files only"]
SOURCES = ["c01", "c02", "c03", "c05", "c06", "c08", "c09", "c10", "c12", "c13", "c14", "c15", "c16", "c17", "c20"]
CODES = {2: "usage reported by CMRgetStackUsage differs from the StackModel", 3: "free with nothing allocated",
         4: "trace ends with chunks still allocated", 1: "malformed trace"}


def crash_key(rc, err):
    """call-site key of a crash: assertion text / sanitizer summary, without line numbers and addresses"""
    m = re.search(r"([\w./-]+\.c):\d+: (.*?): Assertion `(.*?)' failed", err)
    if m:
        fn = re.search(r"(\w+)\s*\(", m.group(2) + "(")      # clang prints the whole signature
        return "assert:%s:%s:%s" % (os.path.basename(m.group(1)), fn.group(1) if fn else m.group(2), m.group(3)[:80])
    m = re.search(r"SUMMARY: (\w+Sanitizer): ([\w-]+) \S*?([\w.]+\.c):\d+(?::\d+)? in (\w+)", err)
    if m:
        return "%s:%s:%s:%s" % (m.group(1), m.group(2), m.group(3), m.group(4))
    m = re.search(r"([\w./-]+\.c):\d+:\d+: runtime error: (.*)", err)
    if m:
        msg = re.sub(r"0x[0-9a-f]+", "ADDR", m.group(2))
        msg = re.sub(r"-?\d+", "N", msg)
        return "ubsan:%s:%s" % (os.path.basename(m.group(1)), msg[:80])
    m = re.search(r"SUMMARY: (\w+Sanitizer): ([\w-]+)", err)
    if m:
        return "%s:%s" % (m.group(1), m.group(2))
    if rc == -14:
        return "watchdog"
    return "exit%s" % rc


def leak_key(report):
    """the innermost three library functions of the first leaked allocation"""
    fr = re.findall(r"#\d+ 0x[0-9a-f]+ in (\w+) /repo/src/cmr/([\w.]+):\d+", report)
    fr = [f for f in fr if not f[0].startswith("_CMR")]
    return "leak:" + ">".join("%s" % f[0] for f in fr[:3]) if fr else "leak:unknown"


class Collector:
    """stands in for check.Ctx when a functional module's run() is replayed: executes a sample of each stream on
    the sanitized build and records failures in the real ctx"""

    def __init__(self, ctx, cap, cfg="dbg", trace=True):
        self.ctx, self.cap, self.cfg, self.trace = ctx, cap, cfg, trace
        self.quick = ctx.quick
        self.rng = ctx.rng.fork("collector")
        self.notes = []
        self.drive = ctx.drive

    def stream(self, api, lines, family, cfg="rel", judge_api=None, describe=None, nontrivial=None,
               extra_defs=(), tag=None, env=None, drive_api=None, keyfn=None, ignore_codes=()):
        if not lines:
            return [], []
        if extra_defs:
            return [None] * len(lines), [0] * len(lines)     # forced-hash builds belong to C08
        idx = list(range(len(lines)))
        cap = 2 if "corpus" in family else self.cap
        if len(idx) > cap:
            r = self.rng.fork(family)
            idx = sorted(r.shuffle(idx)[:cap])
        sub = [lines[i] for i in idx]
        recs = run_sanitized(self.ctx, drive_api or api, sub, family, self.cfg, self.trace, keyfn)
        full = [None] * len(lines)
        for i, r in zip(idx, recs):
            full[i] = r
        return full, [0] * len(lines)


def run_sanitized(ctx, api, lines, family, cfg="dbg", trace=True, keyfn=None):
    def site(line, what):
        """a finding recorded by the functional property under a call-site key keeps that key here"""
        if keyfn:
            k = keyfn(line, "crash")
            if k != line:
                return k
        return what

    exe = ctx.drive(cfg)
    env = dict(os.environ)
    env["ASAN_OPTIONS"] = "detect_leaks=1:abort_on_error=0:allocator_may_return_null=1"
    env["UBSAN_OPTIONS"] = "print_stacktrace=1"
    env["DRIVE_POISON"] = "165"
    if trace:
        env["DRIVE_STACK_TRACE"] = "1"
    flags = {}
    recs, crashes = vlib.run_drive(exe, api, lines, env=env, flags=flags)
    fam = ctx.families.setdefault("%s [%s]" % (family, cfg), {"cases": 0, "crashes": 0, "stack_unbalanced": 0, "leaks": 0,
                                                             "out_of_order": 0, "traces_judged": 0, "trace_rejected": 0,
                                                             "trace_overflow": 0})
    fam["cases"] += len(lines)
    ctx.evaluations += len(lines)
    crashed = {i: (rc, err) for i, rc, err in crashes}
    traces, tidx = [], []
    for i, line in enumerate(lines):
        if recs[i] is None and i in vlib.LAST_SKIPPED:
            continue
        if recs[i] is None:
            rc, err = crashed.get(i, (None, ""))
            fam["crashes"] += 1
            ctx.violate("%s|crash|%s" % (api, site(line, vlib.refine_crash_key(crash_key(rc, err), api, line))),
                        "%s build: the process died (exit %s): %s" % (cfg, rc, crash_key(rc, err)),
                        api, line, None, "crash", cfg, (), err)
            continue
        ctx.nontrivial.add(hashlib.md5((api + "|" + line).encode()).digest()[:8])
        f = flags.get(i, {})
        if "S" in f:
            fam["stack_unbalanced"] += 1
            ctx.violate("%s|stack|%s" % (api, site(line, line)), "scratch stack not back at its pre-call level: %s bytes in use" % f["S"],
                        api, line, recs[i], "S", cfg)
        if "M" in f and int(f["M"]) & 2:
            fam["out_of_order"] += 1
            ctx.violate("%s|order|%s" % (api, line), "scratch chunks freed out of order", api, line, recs[i], "M", cfg)
        if "L" in f:
            fam["leaks"] += 1
            ctx.violate("%s|%s" % (api, site(line, leak_key(f.get("Lreport", "")))),
                        "%s bytes of heap memory lost: %s" % (f["L"], leak_key(f.get("Lreport", ""))),
                        api, line, recs[i], "L", cfg, (), f.get("Lreport", ""))
        if "T" in f:
            if f["T"].startswith("overflow"):
                fam["trace_overflow"] += 1
            else:
                traces.append(f["T"])
                tidx.append(i)
    if traces:
        codes = vlib.run_judge("stack", traces)
        fam["traces_judged"] += len(traces)
        for i, t, c in zip(tidx, traces, codes):
            if c != 0:
                fam["trace_rejected"] += 1
                ctx.violate("%s|stacktrace%d|%s" % (api, c, site(lines[i], lines[i])), "allocator trace: " + CODES.get(c, str(c)),
                            api, lines[i], t[:2000], c, cfg)
    if len(ctx.samples) < 12:
        k = ctx.rng.below(len(lines))
        ctx.samples.append({"family": family, "api": api, "cfg": cfg, "case": lines[k][:300],
                            "record": (recs[k] or "")[:300], "flags": {a: b[:120] for a, b in flags.get(k, {}).items()}})
    return recs


def run(ctx):
    cap = 1500 if ctx.quick else 20000
    for name in SOURCES:
        mod = importlib.import_module("props." + name)
        col = Collector(ctx, cap, "dbg", True)
        mod.run(col)
    # uninitialised reads: MemorySanitizer build on a smaller sample (no traces; chunks are re-poisoned on allocation)
    mcap = 200 if ctx.quick else 4000
    for name in SOURCES:
        if name == "c20":
            continue        # the text readers go through fmemopen/fscanf, which MSan's libc interceptors do not model
        mod = importlib.import_module("props." + name)
        col = Collector(ctx, mcap, "msan", False)
        mod.run(col)
    cli_stream(ctx)


# ---------------------------------------------------------------------------------------------------------------
# command line tools: every option combination on generated files must end with an exit status (no signal, no
# sanitizer report, no failed assertion) — src/main/*.c built against the dbg library

CLI = {
    "cmr-tu": (["", "--algo eulerian", "--algo partition", "--no-direct-graphic", "--no-series-parallel",
                "--no-direct-graphic --no-series-parallel", "--no-planarity", "--decompose DP", "--decompose YP",
                "--decompose P3", "--decompose Y3", "--naive-submatrix", "--stats", "--time-limit 100"],
               ["", "-D @out", "-N @out", "-D @out -N @out2"], "ternary"),
    "cmr-regular": (["", "--no-direct-graphic", "--no-series-parallel", "--no-direct-graphic --no-series-parallel",
                     "--decompose DP", "--decompose YP", "--decompose Y3", "--stats"], ["", "-D @out", "-N @out"], "binary"),
    "cmr-graphic": (["", "-t", "--stats"], ["", "-G @out", "-G @out -T @out2", "-G @out -D @out2"], "binary"),
    "cmr-network": (["", "-t", "--stats"], ["", "-G @out", "-G @out -T @out2", "-N @out", "-G @out -D @out2"], "ternary"),
    "cmr-series-parallel": (["", "-b", "--stats"], ["", "-S @out", "-R @out", "-N @out", "-S @out -R @out2"], "ternary"),
    "cmr-camion": (["", "--stats"], ["", "-N @out", "-o sparse"], "ternary"),
    "cmr-ctu": (["", "--stats"], ["", "-n @out", "-N @out", "-r 1", "-c 1", "-r 1 -c 1"], "binary"),
    "cmr-balanced": (["", "--algorithm submatrix", "--algorithm graph", "--no-series-parallel", "--stats"], ["", "-N @out"], "ternary"),
    "cmr-equimodular": (["", "-t", "-s", "-u", "-s -u", "--stats"], [""], "integer"),
    "cmr-k-ary": (["-b", "-t", "-I", "-b --stats"], [""], "integer"),
    "cmr-matrix": (["", "-t", "-c", "-C", "-o sparse", "-t -c", "-d"], [""], "integer"),
}


def cli_stream(ctx):
    import subprocess, tempfile, shutil
    from concurrent.futures import ThreadPoolExecutor
    tools = vlib.build_tools("dbg")
    rng = ctx.rng.fork("cli")
    work = os.path.join(vlib.WORK, "cli-%d" % os.getpid())
    shutil.rmtree(work, ignore_errors=True)
    os.makedirs(work)
    import gen
    nfiles = 12 if ctx.quick else 120
    files = {"binary": [], "ternary": [], "integer": []}
    for kind, alpha in (("binary", (0, 1)), ("ternary", (-1, 0, 1)), ("integer", (-3, -2, -1, 0, 1, 2, 3))):
        for i in range(nfiles):
            if kind != "integer" and i % 3 == 0:
                M = gen.structured(rng, 6, kind == "ternary")
            else:
                m, n = 1 + rng.below(6), 1 + rng.below(6)
                M = vlib.rand_matrix(rng, m, n, alpha, 3 + rng.below(6), 10)
            if not M or not M[0]:
                M = [[1]]
            m, n = len(M), len(M[0])
            dense = os.path.join(work, "%s%d.dense" % (kind, i))
            open(dense, "w").write("%d %d\n" % (m, n) + "\n".join(" ".join(str(x) for x in r) for r in M) + "\n")
            sparse = os.path.join(work, "%s%d.sparse" % (kind, i))
            nz = [(r + 1, c + 1, M[r][c]) for r in range(m) for c in range(n) if M[r][c]]
            open(sparse, "w").write("%d %d %d\n" % (m, n, len(nz)) + "".join("%d %d %d\n" % t for t in nz))
            files[kind].append((dense, sparse))
    jobs = []
    for tool, (opts, outs, kind) in CLI.items():
        if tool not in tools:
            continue
        for fi, (dense, sparse) in enumerate(files[kind]):
            for oi_, o in enumerate(opts):
                for ui, u in enumerate(outs):
                    if (fi + oi_ + ui) % (1 if not ctx.quick else 2) != 0 and o and u:
                        continue
                    fmt_sparse = (fi + oi_) % 3 == 0
                    src = sparse if fmt_sparse else dense
                    tag = "%s-%d-%d-%d" % (tool, fi, oi_, ui)
                    out1, out2 = os.path.join(work, tag + ".o1"), os.path.join(work, tag + ".o2")
                    args = [tools[tool], src] + (["-i", "sparse"] if fmt_sparse else []) + o.split() + \
                           u.replace("@out2", out2).replace("@out", out1).split()
                    jobs.append((tool, args))
    env = dict(os.environ)
    env["ASAN_OPTIONS"] = "detect_leaks=1"
    env["LSAN_OPTIONS"] = "exitcode=0"      # the exit status stays the tool's own; leak reports are read from stderr
    env["UBSAN_OPTIONS"] = "print_stacktrace=1"

    def run(job):
        tool, args = job
        try:
            r = subprocess.run(args, capture_output=True, text=True, env=env, timeout=60)
            return tool, args, r.returncode, r.stderr[:4000] + ("\n...\n" + r.stderr[-4000:] if len(r.stderr) > 8000 else r.stderr[4000:])
        except subprocess.TimeoutExpired:
            return tool, args, -14, "timeout"
    fam = ctx.families.setdefault("command line tools [dbg]", {"runs": 0, "failures": 0, "exit_codes": {}})
    with ThreadPoolExecutor(vlib.NCPU) as ex:
        for tool, args, rc, err in ex.map(run, jobs):
            fam["runs"] += 1
            ctx.evaluations += 1
            fam["exit_codes"][str(rc)] = fam["exit_codes"].get(str(rc), 0) + 1
            line = " ".join(a.replace(work + "/", "") for a in args[1:])
            # memory still allocated when a tool gives up with an error status is returned to the system by the exit
            # itself; only a run that ends with status 0 is required to have released everything
            gave_up = rc != 0 or re.search(r"(User input error|Error when writing user output|Memory \(re\)allocation failed|"
                                           r"Invalid input|Time limit exceeded|Integer overflow|Invalid matrix structure|"
                                           r"Inconsistent input|Invalid parameters|Unknown error) in \S+_main\.c:\d+\.", err)
            if gave_up and "LeakSanitizer" in err and not re.search(r"AddressSanitizer: (?!.*leak)|runtime error:|Assertion `", err):
                err = ""
            bad = rc < 0 or re.search(r"Sanitizer|runtime error:|Assertion `", err)
            ctx.nontrivial.add(hashlib.md5((tool + line).encode()).digest()[:8])
            if bad:
                fam["failures"] += 1
                key = crash_key(rc, err)
                if "LeakSanitizer" in err and "leak" not in key:
                    key = leak_key(err)
                inp = open(args[1]).read()
                ctx.violate("cli:%s|%s" % (tool, key), "%s %s ended abnormally (exit %s): %s" % (tool, line, rc, key),
                            "cli", "%s %s   <input file: %s>" % (tool, line, inp.replace("\n", " / ")), None, "crash", "dbg", (), err)
    if jobs:
        ctx.samples.append({"family": "command line tools", "case": " ".join(a.replace(work + "/", "") for a in jobs[len(jobs) // 2][1][1:]),
                            "tool": jobs[len(jobs) // 2][0]})
    shutil.rmtree(work, ignore_errors=True)
