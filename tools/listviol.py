#!/usr/bin/env python3
"""listviol.py <id> [tier] — developer helper: run a property module and list all distinct violation keys with counts"""
import sys, os, importlib, collections
sys.path.insert(0, os.path.dirname(os.path.abspath(__file__)))
import vlib, check
prop = sys.argv[1].upper()
tier = sys.argv[2] if len(sys.argv) > 2 else "quick"
ctx = check.Ctx(prop, tier, vlib.seed_from_env())
check.prove(prop, ctx)
vlib.build_judge()
mod = importlib.import_module("props." + prop.lower())
mod.run(ctx)
known = check.load_known()
by = collections.OrderedDict()
for v in ctx.violations:
    by.setdefault(v.key, []).append(v)
for k, vs in by.items():
    kn = check.match_known(known, prop, k)
    print("%s %4d  %s" % ("KNOWN" if kn else "NEW  ", len(vs), k[:200]))
    if not kn or os.environ.get("SHOWKNOWN"):
        t = vs[0].replay_text
        for field in ("what", "case", "stderr_tail"):
            import re
            m = re.search(r"^%s: (.*)$" % field, t, re.M)
            if m:
                print("        %s: %s" % (field, m.group(1)[:600]))
