#!/usr/bin/env python3
"""Shared machinery for the cmr verification checks.

Pipeline pieces (see DESIGN.md section 1):
  build_lib(cfg)     compile /repo/src/cmr/*.c (working tree) into _work/lib-<cfg>/libcmr.a
  build_drive(cfg)   compile harness/drive.c against that library
  build_coq()        coq_makefile + make of coq/ (full .vo build) and extraction to OCaml
  build_judge()      compile ocaml/judge (extracted model + glue)
  run_drive / run_judge   run case streams through implementation and model
"""
import os, sys, subprocess, hashlib, json, time, re, shutil, random, itertools
from concurrent.futures import ThreadPoolExecutor

VERIF = os.path.dirname(os.path.dirname(os.path.abspath(__file__)))
REPO = os.environ.get("VERIF_REPO", "/repo")
WORK = os.path.join(VERIF, "_work")
COQ = os.path.join(VERIF, "coq")
NCPU = min(16, os.cpu_count() or 4)

CFGS = {
    # fast build used by the functional correspondence checks (same flavour as the suite: NDEBUG)
    "rel": ["-O2", "-DNDEBUG"],
    # assertion-enabled, sanitized build (C11 and replay confirmation)
    "dbg": ["-O1", "-g", "-fsanitize=address,undefined", "-fno-sanitize-recover=all",
            "-fno-omit-frame-pointer"],
    # uninitialised reads (clang MemorySanitizer; scratch chunks are re-poisoned by the harness on every allocation)
    "msan": ["-O1", "-g", "-fsanitize=memory", "-fno-omit-frame-pointer", "-fsanitize-memory-track-origins"],
    # data races between environments used on different threads
    "tsan": ["-O1", "-g", "-fsanitize=thread"],
}
COMPILER = {"msan": "clang"}
WRAPS = ["-Wl,--wrap=clock", "-Wl,--wrap=_CMRallocStack", "-Wl,--wrap=_CMRfreeStack"]
GUARD = "-DDISCOPT_CMR_VERIF"


def sh(cmd, **kw):
    return subprocess.run(cmd, shell=isinstance(cmd, str), **kw)


def lib_sources():
    """The file list of add_library(cmr ...) in /repo/CMakeLists.txt (regular_dec.c is dead code)."""
    txt = open(os.path.join(REPO, "CMakeLists.txt")).read()
    m = re.search(r"add_library\(cmr\s+(.*?)\)", txt, re.S)
    files = [f for f in m.group(1).split() if f.endswith(".c")]
    return [os.path.join(REPO, f) for f in files]


def tree_fingerprint(extra=""):
    h = hashlib.sha256()
    for root in ("src/cmr", "include/cmr"):
        d = os.path.join(REPO, root)
        for fn in sorted(os.listdir(d)):
            p = os.path.join(d, fn)
            if os.path.isfile(p):
                h.update(fn.encode())
                h.update(open(p, "rb").read())
    h.update(open(os.path.join(REPO, "CMakeLists.txt"), "rb").read())
    h.update(extra.encode())
    return h.hexdigest()[:16]


def write_config(incdir, with_gmp=True):
    os.makedirs(os.path.join(incdir, "cmr"), exist_ok=True)
    txt = open(os.path.join(REPO, "CMakeLists.txt")).read()
    ver = re.search(r"project\(\s*CMR\s+VERSION\s+(\d+)\.(\d+)\.(\d+)", txt)
    v = ver.groups() if ver else ("1", "3", "0")
    with open(os.path.join(incdir, "cmr", "config.h"), "w") as f:
        f.write('#define CMR_CMAKE_BUILD_TYPE "Verif"\n#define CMR_VERSION_MAJOR %s\n'
                '#define CMR_VERSION_MINOR %s\n#define CMR_VERSION_PATCH %s\n%s' % (v + ("#define CMR_WITH_GMP\n" if with_gmp else "",)))
    with open(os.path.join(incdir, "cmr", "export.h"), "w") as f:
        f.write("#ifndef CMR_EXPORT_H\n#define CMR_EXPORT_H\n#define CMR_EXPORT\n#define CMR_NO_EXPORT\n"
                "#define CMR_DEPRECATED\n#endif\n")


def apply_edits(text, edits):
    """edits: list of (old_line, new_line) that must each occur exactly once (a recorded repair, see known_patches/)"""
    for old, new in edits:
        if text.count(old) != 1:
            raise BuildError("recorded repair does not apply: %r occurs %d times" % (old.strip()[:60], text.count(old)))
        text = text.replace(old, new)
    return text


def read_edits(path):
    """parse a known_patches/*.diff file: '--- a/<file>' names the file, each '-line' / '+line' pair is one edit"""
    fn, edits, old = None, [], None
    for l in open(path):
        l = l.rstrip("\n")
        if l.startswith("--- a/"):
            fn = l[6:]
        elif l.startswith("+++") or l.startswith("@@"):
            continue
        elif l.startswith("-"):
            old = l[1:] + "\n"
        elif l.startswith("+") and old is not None:
            edits.append((old, l[1:] + "\n"))
            old = None
    return fn, edits


def build_lib(cfg="rel", extra_defs=(), tag=None, repair=None):
    """Compile the library from /repo's *current working tree*. Returns the build directory.
    repair: path of a recorded repair (known_patches/*.diff) that is applied to a private copy of the one source file it
    names; used only to attribute violations to a known finding (they must disappear with the repair)."""
    name = "lib-" + cfg + ("-" + tag if tag else "")
    out = os.path.join(WORK, name)
    flags = CFGS[cfg] + [GUARD] + list(extra_defs)
    fp = tree_fingerprint(" ".join(flags) + " buildrules-v3" + (open(repair).read() if repair else ""))
    stamp = os.path.join(out, "stamp")
    if os.path.exists(stamp) and open(stamp).read() == fp and os.path.exists(os.path.join(out, "libcmr.a")):
        return out
    shutil.rmtree(out, ignore_errors=True)
    os.makedirs(out)
    # libgmp is not MSan-instrumented (every mpz value would look uninitialised): the msan build is configured without GMP
    write_config(os.path.join(out, "inc"), with_gmp=(cfg != "msan"))
    srcs = lib_sources()
    inc = ["-I" + os.path.join(REPO, "include"), "-I" + os.path.join(out, "inc"),
           "-I" + os.path.join(REPO, "src/cmr")]

    if repair:
        fn, edits = read_edits(repair)
        patched = os.path.join(out, "patched-" + os.path.basename(fn))
        open(patched, "w").write(apply_edits(open(os.path.join(REPO, fn)).read(), edits))
        srcs = [patched if os.path.abspath(s_) == os.path.abspath(os.path.join(REPO, fn)) else s_ for s_ in srcs]

    def cc(src):
        obj = os.path.join(out, os.path.basename(src)[:-2].replace("patched-", "") + ".o")
        fl = flags
        if cfg == "dbg" and os.path.basename(src) == "env.c":
            # the stack allocator's own bookkeeping bytes are poisoned by the harness (exact bounds for scratch
            # arrays); env.c is therefore the one file compiled without ASan instrumentation
            fl = [f.replace("address,undefined", "undefined") for f in flags]
        r = sh([COMPILER.get(cfg, "gcc"), "-std=gnu99", "-w", "-c", src, "-o", obj] + fl + inc,
               capture_output=True, text=True)
        return (src, r.returncode, r.stderr)

    with ThreadPoolExecutor(NCPU) as ex:
        res = list(ex.map(cc, srcs))
    bad = [r for r in res if r[1] != 0]
    if bad:
        raise BuildError("library does not compile: %s\n%s" % (bad[0][0], bad[0][2][:2000]))
    objs = [os.path.join(out, os.path.basename(s)[:-2].replace("patched-", "") + ".o") for s in srcs]
    sh(["ar", "rcs", os.path.join(out, "libcmr.a")] + objs, check=True)
    open(stamp, "w").write(fp)
    return out


class BuildError(Exception):
    pass


def build_drive(cfg="rel", extra_defs=(), tag=None, wrap_clock=False, repair=None):
    lib = build_lib(cfg, extra_defs, tag, repair)
    exe = os.path.join(lib, "drive" + ("-clk" if wrap_clock else ""))
    src = os.path.join(VERIF, "harness", "drive.c")
    deps = [src, os.path.join(lib, "libcmr.a")]
    if os.path.exists(exe) and all(os.path.getmtime(exe) >= os.path.getmtime(d) for d in deps):
        return exe
    flags = CFGS[cfg] + [GUARD] + list(extra_defs)
    cmd = [COMPILER.get(cfg, "gcc"), "-std=gnu99", "-w", src, "-o", exe] + flags + [
        "-I" + os.path.join(REPO, "include"), "-I" + os.path.join(lib, "inc"),
        "-I" + os.path.join(REPO, "src/cmr"), os.path.join(lib, "libcmr.a"), "-lm", "-lgmp", "-lpthread"] + WRAPS
    r = sh(cmd, capture_output=True, text=True)
    if r.returncode != 0:
        raise BuildError("drive does not compile:\n" + r.stderr[:3000])
    return exe


def build_tools(cfg="rel"):
    """Build the cmr-* command line tools from the working tree against our library build."""
    lib = build_lib(cfg)
    outs = {}
    maind = os.path.join(REPO, "src/main")
    flags = CFGS[cfg] + [GUARD]

    def one(fn):
        name = "cmr-" + fn[:-len("_main.c")].replace("_", "-")
        exe = os.path.join(lib, name)
        src = os.path.join(maind, fn)
        if not (os.path.exists(exe) and os.path.getmtime(exe) >= max(os.path.getmtime(src),
                os.path.getmtime(os.path.join(lib, "libcmr.a")))):
            r = sh(["gcc", "-std=gnu99", "-w", src, "-o", exe] + flags + [
                "-I" + os.path.join(REPO, "include"), "-I" + os.path.join(lib, "inc"),
                os.path.join(lib, "libcmr.a"), "-lm", "-lgmp"], capture_output=True, text=True)
            if r.returncode != 0:
                return (name, None, r.stderr)
        return (name, exe, "")
    with ThreadPoolExecutor(NCPU) as ex:
        for name, exe, err in ex.map(one, sorted(f for f in os.listdir(maind) if f.endswith("_main.c"))):
            if exe is None:
                raise BuildError("tool %s does not compile:\n%s" % (name, err[:2000]))
            outs[name] = exe
    return outs


# ---------------------------------------------------------------------------------------------
# Coq and OCaml

FORBIDDEN = re.compile(r"\b(Admitted|admit|Axiom|Axioms|Parameter|Parameters|Conjecture|Conjectures|"
                       r"Admit Obligations|Unset Guard Checking|Unset Positivity Checking|"
                       r"Unset Universe Checking|bypass_check|Guard Checking|type-in-type|impredicative-set)\b")


def coq_hygiene():
    """grep the development for anything that declares an axiom or disables a kernel check."""
    hits = []
    for root, _, files in os.walk(COQ):
        if "/Gen" in root and False:
            continue
        for fn in files:
            if not fn.endswith(".v"):
                continue
            p = os.path.join(root, fn)
            txt = open(p).read()
            # strip comments (non-nested is enough for our files; nested handled by loop)
            prev = None
            while prev != txt:
                prev = txt
                txt = re.sub(r"\(\*[^()]*?\*\)", "", txt, flags=re.S)
            for i, line in enumerate(txt.split("\n")):
                if FORBIDDEN.search(line):
                    hits.append("%s:%d:%s" % (p, i + 1, line.strip()))
                if re.match(r"\s*(Variable|Variables|Hypothesis|Hypotheses)\b", line):
                    # allowed only inside a Section: checked coarsely by requiring a Section in the file
                    if not re.search(r"^\s*Section\b", txt, re.M):
                        hits.append("%s:%d:%s" % (p, i + 1, line.strip()))
    for p in (os.path.join(COQ, "_CoqProject"),):
        if os.path.exists(p) and re.search(r"type-in-type|impredicative-set", open(p).read()):
            hits.append(p + ": forbidden flag")
    return hits


def build_coq(targets=None, timeout=1500):
    """Full .vo build of coq/ (or of selected targets, with -k). Returns (ok, log)."""
    if not os.path.exists(os.path.join(COQ, "Makefile")) or \
            os.path.getmtime(os.path.join(COQ, "Makefile")) < os.path.getmtime(os.path.join(COQ, "_CoqProject")):
        sh("coq_makefile -f _CoqProject -o Makefile", cwd=COQ, capture_output=True)
    cmd = ["timeout", str(timeout), "make", "-k", "-j%d" % NCPU] + (targets or [])
    r = sh(cmd, cwd=COQ, capture_output=True, text=True)
    return r.returncode == 0, r.stdout + r.stderr


def build_judge():
    """Compile the extracted model (coq/Extract.v writes ocaml/cmr_model.ml[i]) with the glue."""
    od = os.path.join(VERIF, "ocaml")
    exe = os.path.join(WORK, "judge")
    srcs = [os.path.join(WORK, "cmr_model.mli"), os.path.join(WORK, "cmr_model.ml"), os.path.join(od, "judge.ml")]
    for s in srcs[:2]:
        if not os.path.exists(s):
            raise BuildError("extraction output missing: " + s)
    if os.path.exists(exe) and all(os.path.getmtime(exe) >= os.path.getmtime(s) for s in srcs):
        return exe
    bd = os.path.join(WORK, "judge-build")
    shutil.rmtree(bd, ignore_errors=True)
    os.makedirs(bd)
    for s in srcs:
        shutil.copy(s, bd)
    r = sh(["ocamlfind", "ocamlopt", "-O3", "-unboxed-types"] if False else
           ["ocamlfind", "ocamlopt", "-w", "-a", "-inline", "100", "cmr_model.mli", "cmr_model.ml", "judge.ml", "-o", exe],
           cwd=bd, capture_output=True, text=True)
    if r.returncode != 0:
        raise BuildError("judge does not compile:\n" + (r.stdout + r.stderr)[:3000])
    return exe


# ---------------------------------------------------------------------------------------------
# deterministic PRNG (splitmix64) so that every random choice derives from VERIF_SEED

class Rng:
    def __init__(self, seed):
        self.s = seed & 0xFFFFFFFFFFFFFFFF

    def next(self):
        self.s = (self.s + 0x9E3779B97F4A7C15) & 0xFFFFFFFFFFFFFFFF
        z = self.s
        z = ((z ^ (z >> 30)) * 0xBF58476D1CE4E5B9) & 0xFFFFFFFFFFFFFFFF
        z = ((z ^ (z >> 27)) * 0x94D049BB133111EB) & 0xFFFFFFFFFFFFFFFF
        return z ^ (z >> 31)

    def below(self, n):
        return self.next() % n if n > 0 else 0

    def chance(self, num, den):
        return self.below(den) < num

    def choice(self, xs):
        return xs[self.below(len(xs))]

    def shuffle(self, xs):
        for i in range(len(xs) - 1, 0, -1):
            j = self.below(i + 1)
            xs[i], xs[j] = xs[j], xs[i]
        return xs

    def fork(self, label):
        h = int(hashlib.sha256(("%d/%s" % (self.s, label)).encode()).hexdigest()[:16], 16)
        return Rng(h)


def seed_from_env():
    try:
        return int(os.environ.get("VERIF_SEED", "1"))
    except ValueError:
        return 1


# ---------------------------------------------------------------------------------------------
# running case streams

def chunks(lst, n):
    """n interleaved parts (round-robin): expensive cases usually sit next to each other in a stream"""
    n = max(1, min(n, len(lst)))
    return [lst[i::n] for i in range(n)]


LAST_SKIPPED = set()


def run_drive(exe, api, lines, shards=NCPU, env=None, timeout=3600, flags=None):
    """Feed case lines to `drive <api>`; returns (records, crashes).
    records[i] is the output line for case i or None if the process died on it.
    A crash on case i is recorded as (i, returncode, stderr tail) and the stream resumes after it.
    If `flags` is a dict it receives, per case index, the flag lines the harness printed after the record:
    {"S": usage, "M": bits, "L": bytes (+ "Lreport": LeakSanitizer text), "T": trace record}."""
    if not lines:
        return [], []
    LAST_SKIPPED.clear()
    parts = chunks(list(enumerate(lines)), shards)

    def work(part):
        out = {}
        fl = {}
        crashes = []
        pos = 0
        while pos < len(part):
            inp = "\n".join(l for _, l in part[pos:]) + "\n"
            r = subprocess.run([exe, api], input=inp, capture_output=True, text=True, env=env, timeout=timeout)
            outl = r.stdout.split("\n")
            if outl and not r.stdout.endswith("\n"):
                outl = outl[:-1]          # a partial last line means the process died while printing it
            got = 0
            leaked_exit = False
            for l in outl:
                if l.startswith("R "):
                    if pos + got < len(part):
                        out[part[pos + got][0]] = l[2:]
                    got += 1
                elif l[:2] in ("S ", "M ", "L ", "T ", "X ") and got > 0 and pos + got - 1 < len(part):
                    d = fl.setdefault(part[pos + got - 1][0], {})
                    d[l[0]] = l[2:]
                    if l[0] == "L":
                        d["Lreport"] = r.stderr[-3000:]
                        leaked_exit = True
            if r.returncode == 0 and got >= len(part) - pos:
                break
            if r.returncode == 7 and leaked_exit:
                # the harness stopped after reporting lost heap memory on its last case: resume behind it
                pos += got
                continue
            # died on case pos+got
            bad = pos + got
            if bad >= len(part):
                break
            crashes.append((part[bad][0], r.returncode, r.stderr[-1500:]))
            pos = bad + 1
            # a defect that makes many cases hang would cost 20 s per case: after 6 watchdog kills in one shard the
            # rest of the shard is not run (the kills themselves are reported; skipped cases are marked as such)
            if sum(1 for _, rc, _ in crashes if rc == -14) >= 6:
                for k in range(pos, len(part)):
                    fl.setdefault(part[k][0], {})["skipped"] = "1"
                break
        return out, crashes, fl

    records = [None] * len(lines)
    crashes = []
    with ThreadPoolExecutor(shards) as ex:
        for out, cr, fl in ex.map(work, parts):
            for i, l in out.items():
                records[i] = l
            crashes += cr
            if flags is not None:
                flags.update(fl)
            LAST_SKIPPED.update(i for i, d in fl.items() if "skipped" in d)
    return records, crashes


def run_judge(api, records, shards=NCPU, timeout=3600):
    """Run the extracted Coq judge `api` on every record; returns a list of integer codes (0 = accepted)."""
    exe = build_judge()
    idx = [i for i, r in enumerate(records) if r is not None]
    parts = chunks(idx, shards)

    def work(part):
        inp = "\n".join(records[i] for i in part) + "\n"
        r = subprocess.run([exe, api], input=inp, capture_output=True, text=True, timeout=timeout)
        if r.returncode != 0:
            raise RuntimeError("judge failed: " + r.stderr[:500])
        codes = [int(x) for x in r.stdout.split()]
        if len(codes) != len(part):
            raise RuntimeError("judge produced %d verdicts for %d records" % (len(codes), len(part)))
        return list(zip(part, codes))

    codes = [None] * len(records)
    if not idx:
        return codes
    with ThreadPoolExecutor(shards) as ex:
        for res in ex.map(work, parts):
            for i, c in res:
                codes[i] = c
    return codes


# ---------------------------------------------------------------------------------------------
# matrix helpers for generators

def mat_line(M, m=None, n=None):
    m = len(M) if m is None else m
    n = (len(M[0]) if M else 0) if n is None else n
    return "%d %d %s" % (m, n, " ".join(str(x) for r in M for x in r))


def all_matrices(m, n, alphabet):
    for t in itertools.product(alphabet, repeat=m * n):
        yield [list(t[i * n:(i + 1) * n]) for i in range(m)]


def rand_matrix(rng, m, n, alphabet, density_num=5, density_den=10):
    nz = [a for a in alphabet if a != 0]
    return [[(rng.choice(nz) if rng.chance(density_num, density_den) else 0) for _ in range(n)] for _ in range(m)]


def transpose(M, m, n):
    return [[M[i][j] for i in range(m)] for j in range(n)]


# ---------------------------------------------------------------------------------------------
# call site of a crash: the case is run once more on the assertion + sanitizer build under gdb; the key names the failed
# assertion / signal and the innermost two library functions on the stack (no line numbers, no addresses)

_site_cache = {}


def crash_site(api, line, extra_defs=()):
    k = (api, line, tuple(extra_defs))
    if k in _site_cache:
        return _site_cache[k]
    site = None
    try:
        exe = build_drive("dbg", extra_defs, tag=("x" + hashlib.md5(" ".join(extra_defs).encode()).hexdigest()[:6]) if extra_defs else None)
        d = os.path.join(WORK, "site-%d" % os.getpid())
        os.makedirs(d, exist_ok=True)
        inp = os.path.join(d, "case.txt")
        open(inp, "w").write(line + "\n")
        env = dict(os.environ)
        env["ASAN_OPTIONS"] = "detect_leaks=0:abort_on_error=1"
        r = subprocess.run(["gdb", "-batch", "-ex", "run %s < %s" % (api, inp), "-ex", "bt 24", exe],
                           capture_output=True, text=True, timeout=300, env=env)
        out = r.stdout + r.stderr
        what = None
        ms = [x for x in re.findall(r"Assertion `(.*?)' failed", out) if "%" not in x]
        m = None
        if ms:
            what = "assert:" + ms[0][:60]
        else:
            m = re.search(r"ERROR: AddressSanitizer: ([\w-]+)", out) or re.search(r"runtime error: ([^\n]{0,60})", out)
            if m:
                what = "san:" + re.sub(r"0x[0-9a-f]+|-?\d+", "N", m.group(1))
            else:
                m = re.search(r"received signal (SIG\w+)", out)
                if m:
                    what = m.group(1)
        fr = re.findall(r"^#\d+\s+(?:0x[0-9a-f]+ in )?(\w+) \(.*?\) at /repo/src/cmr/[\w.]+:\d+", out, re.M)
        fr = [f for f in fr if not f.startswith("_CMR")]
        if what and fr:
            site = "%s@%s" % (what, "<".join(fr[:2]))
        shutil.rmtree(d, ignore_errors=True)
    except Exception:
        site = None
    _site_cache[k] = site
    return site


def refine_crash_key(key, api, line, extra_defs=()):
    """a crash key that only names an assertion of an inline header function (or a bare exit status) is replaced by the call
    site found under gdb, so that a known finding names the library function that misbehaves"""
    if key.startswith("assert:element.h") or key.startswith("exit") or key == "watchdog":
        if key == "watchdog":
            return key
        site = crash_site(api, line, extra_defs)
        if site:
            return site
    return key
