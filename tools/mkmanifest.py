#!/usr/bin/env python3
"""Writes /verif/MANIFEST.json from the table below (kept in one place so it stays valid)."""
import json, os
VERIF = os.path.dirname(os.path.dirname(os.path.abspath(__file__)))

NOTE_COMMON = ("trusted: Coq 8.16.1 kernel; extraction with ExtrOcamlBasic only; ocaml/judge.ml glue; harness/drive.c; "
               "case generators. The C sources are code under test, tied to the Coq model by the correspondence run "
               "(implementation output decided by the extracted judge), not by a refinement proof; the pure leaf functions "
               "(moduloTernary, moduloNonnegative, projectSignedHash, element encoding) are regenerated from the C text on "
               "every run by tools/c2gallina.py and their specifications proved about the generated definitions. Where the "
               "property names a command line tool as observation point, the tool is run on files and judged byte file to "
               "byte file by extracted judges (coq/CliModel.v, tools/clilib.py). ")

P = {}
P["C01"] = dict(cat="proof",
    text="Coq: the brute-force oracle tu_bf equals the definition 'every square submatrix has determinant in {-1,0,1}' for "
         "MathComp's \\det over Z, for all matrices of all shapes (tu_bfP); judge acceptance implies the reported verdict is the "
         "definition's and that an unwritten verdict only occurs under a (co)graphicness stop flag. Tie: every CMRtuTest call on "
         "all small ternary matrices x a covering set of algorithm/ternary-binary/strategy/directGraphicness/seriesParallel "
         "parameters, plus random and structured 4x4..7x7 matrices with random full parameter vectors, is decided by the extracted judge.",
    note=NOTE_COMMON + "Seymour's theorem is not formalised: the decomposition engine is tied by exhaustive/random differential "
         "correspondence against the proved oracle (oracle practical up to about 8x8); beyond that size the verdict is decided for network "
         "matrices (proved TU from their digraph certificate, NetworkTU.v) and for certified 'no' answers (judge_tu_cert).",
    tech="Coq proof (oracle = determinant definition, judge soundness) + extracted judge run against CMRtuTest", ref="DESIGN.md C01")
P["C07"] = dict(cat="proof",
    text="Coq: check_violator is sound for every matrix and index lists (acceptance implies a square in-range duplicate-free "
         "submatrix with |det| >= 2, hence not TU, via detE = MathComp \\det); check_min_violator gives |det| = 2 and TU after deleting "
         "any row or column; the oracle-free judge judge_tu_cert certifies every accepted 'not TU' answer at any size. Tie: every violator "
         "returned by CMRtuTest on the C01 streams (greedy and naive search) and on large 3-sum families is checked.",
    note=NOTE_COMMON, tech="Coq-verified certificate checker run on every returned submatrix", ref="DESIGN.md C07")
P["C13"] = dict(cat="proof",
    text="Coq: the pivot model is the GF(2)/GF(3) basis exchange (up to negating the pivot column), binary pivot is an involution, "
         "ternary pivot twice negates pivot row and column, regular-pivot violators are 2x2 with det +-2, sequences are one-by-one; "
         "judge soundness. Tie: all small matrices x all pivot positions and sequences (length <= 3), random larger ones; sequence call "
         "compared with one-by-one calls on the implementation too.",
    note=NOTE_COMMON, tech="Coq proof of algebraic laws on the model + exact differential correspondence", ref="DESIGN.md C13")
P["C15"] = dict(cat="proof",
    text="Coq: the entry-wise complement rule equals the definition of doc/ctu.md (row operation then column operation), is an "
         "involution, row/column operations commute; the CTU oracle is the definition over the proved TU oracle; judge soundness. "
         "Tie: CMRctuComplementRowColumn / CMRctuTest on all small 0/1 matrices x all line choices incl. none, random larger ones.",
    note=NOTE_COMMON, tech="Coq proof of model = definition + extracted judge run against the implementation", ref="DESIGN.md C15")

P["C02"] = dict(cat="proof",
    text="beyond the oracle's size the verdict is decided for graphic / cographic matrices certified by their graph (proved regular: GraphicRegular.v). Coq: regular_bf decides 'exists a +-1 signing of the nonzeros that is TU' (regular_bf_spec over the proved determinant "
         "oracle, incl. the prefix-heredity lemma justifying the pruned search); judge soundness. Tie: CMRregularTest on all 0/1 "
         "matrices with m*n <= 12/16 under a covering set of strategy x directGraphicness x seriesParallel x planarityCheck, all 4290 "
         "5x5 matrices passing the R10 count test, random and structured supports with random parameter vectors incl. stop flags.",
    note=NOTE_COMMON + "Camion's theorem (regular <=> Camion-signed version is TU) is not formalised; the cross-check through Camion signing is C09's correspondence.",
    tech="Coq proof (oracle = signable-to-TU definition) + extracted judge run against CMRregularTest", ref="DESIGN.md C02")
P["C05"] = dict(cat="proof",
    text="Coq-verified certificate checker check_graph_cert (T acyclic, one edge per line, every column's support is the simple T-path "
         "between the ends of its coforest edge): every 'yes' of any size is certified; by-construction instances carry the generating "
         "graph as a witness the judge verifies (expected yes), non-graphic cores verified by the brute-force oracle give expected no "
         "by heredity; verdict vs. brute-force definition for <= 4 rows (both entry points).",
    note=NOTE_COMMON + "The brute-force oracle graphic_bf is proved sound and complete for the class the certificates define "
         "(GraphicOracle.v: graphic_bf = true <-> GraphicP, every size). The certificate checker is proved EQUIVALENT to the "
         "Prop-level specification (GraphComplete.v), and the certified class closed under submatrices (GraphicClosure.v). graphic.c "
         "(Bixby-Wagner) is not modelled.",
    tech="Coq-verified certificate checker + brute-force definition oracle (<= 4 rows) run against CMRgraphicTest*", ref="DESIGN.md C05")
P["C06"] = dict(cat="proof",
    text="Coq-verified signed certificate checker check_network_cert (signs along the tail-to-head path with arc reversals); support "
         "graphicness vs. oracle; digraph witnesses for constructed instances; violators inside the matrix.",
    note=NOTE_COMMON + "as C05; the 'no' side beyond 4 rows is covered by witnesses/cores and C10 relations only.",
    tech="Coq-verified signed certificate checker run against CMRnetworkTest*", ref="DESIGN.md C06")
P["C08"] = dict(cat="proof",
    text="Coq: SP-reducibility is hereditary (SP_hereditary, general signed-embedding form), hence an irreducible non-empty remainder "
         "refutes SP: the certificate (genuine reductions in order + irreducible remainder) decides the verdict for every size "
         "(cert_verdict); greedy oracle = definition; violator check sound; judge soundness. Tie: all four entry points x output "
         "subsets x every value of maxNumReductions (SIZE_MAX exactly when exceeded: C08_reduction_bound_reported_exactly) x stale caller "
         "counters, on the real hash range and with the range forced to 3/5 (17/2 in thorough); the C text of projectSignedHash is translated "
         "and proved overflow-free and canonical.",
    note=NOTE_COMMON + "2-separation check (ranks of the off-diagonal blocks) is executable but its soundness lemma is not stated; hash independence is "
         "established by running the same streams on forced-collision builds (hook DISCOPT_CMR_VERIF_HASH_RANGE).",
    tech="Coq proof of SP heredity + verified certificate checker run on every output, across forced hash ranges", ref="DESIGN.md C08")
P["C14"] = dict(cat="proof",
    text="Coq model rep_matrix / is_spanning_forest; exhaustive small multigraphs x offered forests (forests, non-forests, partial) x "
         "coforest orders x reversals: matrix = model, transpose output = transpose, forest flag = definition. Edge-list files: Coq grammar "
         "model (EdgeModel.v, print/parse round trip proved) against CMRgraphCreateFromEdgeList on generated files (nodes by first "
         "appearance, line order, forest/coforest labels, node labels), and against the output bytes of cmr-graphic -c / cmr-network -c "
         "(judge_cligraph: parsed output = rep_matrix of the parsed input).",
    note=NOTE_COMMON + "edge lists with a repeated edge are outside the domain (not an edge set); labels outside the documented forms are not generated.",
    tech="Coq executable definition + exhaustive differential correspondence", ref="DESIGN.md C14")
P["C17"] = dict(cat="proof",
    text="Coq: balanced_bf equals the definition over arbitrary duplicate-free index lists (incl. permutation invariance), violator check "
         "sound, judge soundness (verdict written on every successful return; non-ternary => not balanced). Tie: all small ternary "
         "matrices x algorithm x seriesParallel x violator requested, random/structured multi-block matrices. Totally unimodular => "
         "balanced is proved (TuBalanced.v), so matrices certified TU (network by digraph, series-parallel by the reduction model) of "
         "every size must be reported balanced without violator (judge_balanced_cert, proved sound).",
    note=NOTE_COMMON, tech="Coq proof (oracle = definition, TU => balanced) + extracted judges run against CMRbalancedTest", ref="DESIGN.md C17")

P["C09"] = dict(cat="proof",
    text="Coq: judge soundness: acceptance means support/shape kept, test = 'signing changes nothing' (fixpoint), output passes the test, "
         "idempotent, TU => yes, regular support => output TU and (yes => TU) for up to 20 entries, violator = two nonzeros per line with "
         "det +-2 (and thereby a TU-violator by the proved checker). Tie: all signings of all supports with m*n <= 9/12, random to 6x6, "
         "structured (network, R10, R12, sums, scaled, permuted, corrupted).",
    note=NOTE_COMMON + "Camion's uniqueness theorem IS proved (CamionUnique.v: a TU signing of a support is unique up to row/column scaling), "
         "so on supports certified regular (stream camion_cert: a certified TU matrix with the same support) 'output TU' and the test verdict are "
         "decided at every size; elsewhere 'regular support => output TU' is checked against the proved oracles (regular_bf, tu_bf) up to 20 "
         "entries; the BFS signing algorithm is not modelled structurally.",
    tech="extracted Coq judge over proved oracles (tu_bf = det definition, regular_bf = signable-to-TU) + observed fixpoint behaviour", ref="DESIGN.md C09")

P["C03"] = dict(cat="proof",
    text="Coq-verified tree checker: check_tree accepts exactly trees all of whose nodes pass check_node; an accepted node recomposes: "
         "1-sum block diagonal under bijective maps, 2-/Delta-/Y-/3-sum by the block formulas with the recorded special lines, pivot child "
         "= pivot model, SP child = submatrix left by genuine reductions; arities/leaf types as documented. Tie: every tree returned by "
         "CMRtuTest / CMRregularTest (all parameters incl. stop flags) and after complete/refine histories is dumped and checked.",
    note=NOTE_COMMON + "Y-sum children of pivot nodes are accepted although doc/seymour.md lists only leaves, Delta- and 3-sums (strategy YP produces them).",
    tech="Coq-verified certificate checker for decomposition trees run on every dumped tree", ref="DESIGN.md C03")
P["C04"] = dict(cat="proof",
    text="Coq: stored graphs/cographs of accepted nodes satisfy the fundamental-cycle / network specification (verified checkers of C05/C06), "
         "stored determinant minors have |det| >= 2, R10 nodes represent R10, non-zero flags agree with the proved oracles where these apply. "
         "Tie: every node of every dumped tree (constructLeafGraphs / constructAllGraphs / planarityCheck / stop flags in the parameter product).",
    note=NOTE_COMMON + "flags at nodes larger than the oracle bounds (36 entries; 4 rows/columns for (co)graphicness) are not compared with a definition; "
         "the bottom-up propagation rule for the regularity flag is a theorem for 1-sum, 2-sum, series-parallel and pivot nodes (OneSum.v, "
         "RegClosure.v, RegPivot.v); for Delta-, Y- and 3-sum nodes it is Seymour's theorem, which is not formalised.",
    tech="Coq-verified certificate checkers + definition-level oracles on small nodes", ref="DESIGN.md C04")
P["C10"] = dict(cat="proof",
    text="Coq (all shapes): the definition-level oracles are invariant under exactly the transforms the judge accepts - tu_bf (= the "
         "determinant definition, via MathComp) under row/column permutation, transposition, +-1 scaling, submatrices, adding a zero / "
         "unit / parallel line, block-diagonal composition, and pivots on +-1 entries (TuPivot.v: TU is preserved and reflected; the ternary "
         "pivot model of CMRchrmatTernaryPivot keeps tu_bf); sp_greedy (= SP-reducibility) and balanced_bf likewise (scaling for ternary "
         "matrices). judge_rel is proved to check that M' is the stated transform of M and to demand equal / swapped / yes=>yes verdicts. "
         "Tie: ten recognizers x five decomposition strategies on transformed presentations of random, structured and large (up to ~40x40) matrices.",
    note=NOTE_COMMON + "also proved: regularity and balancedness under zero/unit/duplicated lines, regular submatrices / transposition / 2-sums, "
         "1-sums for TU, regular, balanced, SP (OneSum.v, RegClosure.v, BalClosure.v), and graphicness - as defined by certificates - under "
         "permutation, reducible lines and submatrices (GraphicClosure.v) and network matrices under permutation, scaling, reducible lines and "
         "submatrices (NetworkClosure.v). Not formalised: Delta-/Y-/3-sums; 'Camion-signed' is compared only when a presentation is reported TU.",
    tech="Coq closure theorems for the oracles + Coq-checked transform relation + metamorphic comparison of verdicts", ref="DESIGN.md C10")
P["C11"] = dict(cat="proof",
    text="Coq: model of the LIFO scratch-stack allocator of env.c (_CMRallocStack/_CMRfreeStack/CMRgetStackUsage): invariant, alloc;free "
         "= identity on the state, every request below 1 TB is served, a well-bracketed call restores the state, any chunk left behind "
         "strictly increases CMRgetStackUsage, usage 0 = initial state; judge_stack soundness. Tie: the allocator event trace of every "
         "case (link-time wrappers, nothing in /repo) is replayed through the extracted model and the usage figure compared after each "
         "event. Crash / assertion / out-of-bounds / uninitialised / leak part: all case streams of the functional properties replayed on "
         "the -O1 ASan+UBSan assertion-enabled build (scratch chunks fenced by ASan poison, heap-byte accounting + LeakSanitizer per case) "
         "and on the clang MemorySanitizer build.",
    note=NOTE_COMMON + "PARTIAL: crashes, failed assertions, memory errors and heap leaks are runtime behaviour no Coq model of this C "
         "code exhibits; for them the check is a sanitized exploration of the listed streams (sampled per stream), not a proof. The theorems "
         "cover the stack discipline, which turns 'stack back at its pre-call level' into the observable usage comparison. CLI tools: "
         "through the command-line streams of the functional properties (tools/clilib.py) and C20's readers/writers.",
    tech="Coq proof about the allocator model + trace correspondence + sanitized replay of all streams", ref="DESIGN.md C11")
P["C16"] = dict(cat="proof",
    text="Coq: equimod_all is the definition of doc/equimodular.md made executable (for some column basis B the gcd of the r x r "
         "minors of M_B is k and the integer X with M = M_B X is TU by the proved determinant oracle): soundness and completeness with "
         "respect to the Prop-level definition for all shapes; judge soundness (verdict, requested k honoured, reported k, strong = "
         "also the transpose, unimodular = k 1, CMR_ERROR_OVERFLOW only accepted for entries >= 1000). Tie: CMRequimodularTest / "
         "TestStrong / CMRunimodularTest / TestStrong on all integer matrices with entries in {-2..2} up to m*n <= 4/6, all 2x2 over "
         "{-3..3}, random, rank-deficient, B*X-constructed and nonsingular matrices, and matrices with entries near 2^31. The determinant "
         "gcd is proved independent of the basis (EquiUnique.v); certified products L*X of every size (row operations on a diagonal "
         "matrix, network matrix with identity columns) are judged without the oracle (judge_equi_cert, proved sound).",
    note=NOTE_COMMON + "the definition-level oracle is exponential and used up to about 4x5; beyond that only certified full-row-rank "
         "products are decided (CMR_ERROR_OVERFLOW accepted there).",
    tech="Coq proof (oracle <-> definition, judge soundness) + extracted judge run against the four entry points", ref="DESIGN.md C16")
P["C18"] = dict(cat="proof",
    text="Coq: the injected clock schedule (read r returns r ticks, +2000 s from read k on) makes a check at read c of a function entered "
         "at read s give up iff s < k <= c; hence enumerating k = 0..N reaches every timeout exit the unlimited run passes; decision rule "
         "of judge_tlimit (stack balanced after the limited call and after the retry, no heap bytes lost, input untouched, timeout => no "
         "output object, no timeout => record identical to the unlimited run, retry on the same environment identical). Tie: clock() "
         "intercepted at link time; 9 time-limited entry-point families x cases of the functional generators x every k.",
    note=NOTE_COMMON + "PARTIAL: the cleanup code on the timeout exits is exercised (ASan build, heap accounting, CMRgetStackUsage), not "
         "modelled; equality with the unlimited answer is textual equality of harness records; the unlimited answers themselves are "
         "judged against the definitions by C01..C17.",
    tech="Coq theorems on the injection schedule / decision rule / allocator + deterministic timeout injection at every clock read",
    ref="DESIGN.md C18")
P["C19"] = dict(cat="proof",
    text="Coq: the environment's only call-surviving state is the scratch-stack allocator; a well-bracketed call returns it to exactly the "
         "state it found from every reachable state, so two histories of such calls leave identical states; decision rules of judge_hist / "
         "judge_threads. Tie: histories of 2..8 calls (a quarter cut short by injected timeouts) on one environment, every call repeated, "
         "compared byte-wise with fresh-environment references; fresh scratch chunks filled with 0xa5 / 0x00 / 0xff; input matrices "
         "compared bitwise with snapshots; the same on the MemorySanitizer build; concurrent workloads under ThreadSanitizer.",
    note=NOTE_COMMON + "PARTIAL: absence of reads of stale scratch bytes and of data races is observed on the explored histories and "
         "schedules (three fill patterns, MSan, TSan), not proved.",
    tech="Coq theorems on allocator state restoration + differential histories, scratch poisoning, MSan, TSan", ref="DESIGN.md C19")
P["C12"] = dict(cat="proof",
    text="Coq: the composition model is the documented block formula for 2-/Delta-/Y-/3-sums (all sizes, special lines anywhere), shapes of "
         "accepted calls, judge soundness for compose (formula result or refusal) and for the decompose-then-compose round trip (components of "
         "documented shape recompose to the original under the returned maps; library compose agrees). Tie: valid and invalid operands; "
         "all bipartitions with the required rank profile of small matrices, random and structured larger ones, characteristic 2 and 3.",
    note=NOTE_COMMON + "TU preservation is proved for 2-sums (TuTwoSum.v, both directions, all sizes); for Delta/Y/3-sums it is checked per instance by the proved oracle (<= 7x7), for Delta/Y-sums only "
         "on separations whose parts have >= 4 elements and admit the connecting path on both sides.",
    tech="Coq proof of block-formula specs + differential correspondence", ref="DESIGN.md C12")
P["C20"] = dict(cat="proof",
    text="Every returned matrix in every stream is decoded from raw CSR arrays under the Coq predicate csr_wf; writers' output is parsed by the "
         "Coq grammar of doc/file-formats.md and read back; readers are compared with the Coq parser on valid and malformed byte strings.",
    note=NOTE_COMMON + "fscanf token-prefix quirks (e.g. '1-', '+1', '1e3') and negative header counts are excluded or recorded as findings; matrix and "
         "submatrix utilities (transpose, permute, slice, support, conversions, equality tests, 1-sum, submatrix print/read/slice/unslice) "
         "and the edge-list reader are compared with dense Coq models (MatModel.v, EdgeModel.v); cmr-matrix is compared byte-file to byte-file "
         "(judge_climat: -i/-o/-S/-t/-c/-C); double-valued matrices and cmr-k-ary outputs are not compared value by value (they run under "
         "C11's sanitized CLI stream).",
    tech="Coq parser/printer model + CSR well-formedness predicate run on every output", ref="DESIGN.md C20")

ORDER = ["C%02d" % i for i in range(1, 21)]


def main():
    checks = []
    for pid in ORDER:
        if pid not in P:
            continue
        p = P[pid]
        checks.append({
            "property_id": pid,
            "quick_cmd": "python3 tools/check.py %s quick" % pid,
            "thorough_cmd": "python3 tools/check.py %s thorough" % pid,
            "evidence_file": "/verif/evidence/%s.json" % pid,
            "replay_cmd_template": "python3 tools/check.py %s --replay {path}" % pid,
            "engine": "coq-correspondence",
            "level_claimed": {"category": p["cat"], "text": p["text"], "design_ref": p["ref"]},
            "level_note": p["note"], "technique": p["tech"]})
    na = [{"property_id": pid, "reason": "check under construction in this round; not claimed yet"}
          for pid in ORDER if pid not in P]
    hooks_commits = []
    hc = os.path.join(VERIF, "hooks_commits.txt")
    if os.path.exists(hc):
        hooks_commits = [l.split()[0] for l in open(hc) if l.strip() and not l.startswith("#")]
    m = {"version": 1, "setup_cmd": "python3 tools/check.py --setup",
         "hooks": {"guard": "DISCOPT_CMR_VERIF",
                   "enable": "tools/vlib.py compiles /repo/src/cmr/*.c from the working tree with -DDISCOPT_CMR_VERIF "
                             "(plus -DDISCOPT_CMR_VERIF_HASH_RANGE=<n> for the C08 forced-collision builds)",
                   "baseline_off_cmd": "cmake --build /repo/_build && ctest --test-dir /repo/_build -j8 --timeout 900",
                   "source_commits": hooks_commits, "add_only": True},
         "engines": [{"name": "coq-correspondence", "path": "tools/check.py", "serves_properties": [c["property_id"] for c in checks],
                      "kind_free_text": "Coq 8.16 development (coq/): models, judges and theorems; judges extracted to OCaml and run on "
                                        "records produced by harness/drive.c linked against the library built from /repo's working tree"}],
         "checks": checks, "notes": "see DESIGN.md; known_findings.txt lists recorded findings and fix: commits",
         "not_applicable": na}
    json.dump(m, open(os.path.join(VERIF, "MANIFEST.json"), "w"), indent=1)


if __name__ == "__main__":
    main()
