#!/usr/bin/env python3
"""pretty-print a 'tree' record (as produced by drive tree)"""
import sys
TYPES = {-1: "IRREGULAR", 0: "UNKNOWN", 1: "SP", 2: "PIVOTS", 3: "GRAPH", 4: "COGRAPH", 5: "PLANAR", 6: "R10", 7: "ONESUM",
         8: "TWOSUM", 9: "DELTASUM", 10: "THREESUM", 11: "YSUM"}


class R:
    def __init__(self, toks):
        self.t = toks
        self.p = 0

    def nx(self):
        v = self.t[self.p]
        self.p += 1
        return v

    def lst(self):
        k = self.nx()
        return [self.nx() for _ in range(k)]

    def mat(self):
        m, n = self.nx(), self.nx()
        return [[self.nx() for _ in range(n)] for _ in range(m)]


def elem(e):
    return "r%d" % (-e - 1) if e < 0 else ("c%d" % (e - 1) if e > 0 else "N/A")


def node(r, ind, out):
    ty, tern, reg, gra, cog = r.nx(), r.nx(), r.nx(), r.nx(), r.nx()
    M = r.mat()
    out.append("%s%s %s reg=%d gra=%d cog=%d  %dx%d" % (ind, TYPES.get(ty, ty), "ternary" if tern else "binary", reg, gra, cog,
                                                       len(M), len(M[0]) if M else 0))
    for row in M:
        out.append(ind + "   " + " ".join("%2d" % x for x in row))
    nch = r.nx()
    links = []
    for c in range(nch):
        rows, cols, sr, sc = r.lst(), r.lst(), r.lst(), r.lst()
        links.append((rows, cols, sr, sc))
    pr, pc = r.lst(), r.lst()
    nred = r.nx()
    reds = [(r.nx(), r.nx()) for _ in range(nred)]
    if pr:
        out.append(ind + "  pivots: " + " ".join("(r%d,c%d)" % (a, b) for a, b in zip(pr, pc)))
    if reds:
        out.append(ind + "  reductions: " + " ".join("%s/%s" % (elem(a), elem(b)) for a, b in reds))
    for name in ("graph", "cograph"):
        if r.nx():
            nv = r.lst()
            ne = r.nx()
            es = [(r.nx(), r.nx(), r.nx()) for _ in range(ne)]
            f, co, rev = r.lst(), r.lst(), r.lst()
            out.append(ind + "  %s: nodes %s edges %s forest %s coforest %s reversed %s" % (name, nv, es, f, co, rev))
    nmin = r.nx()
    for _ in range(nmin):
        t = r.nx()
        ppr, ppc = r.lst(), r.lst()
        sub = None
        if r.nx():
            sub = (r.lst(), r.lst())
        out.append(ind + "  minor type %d pivots %s %s sub %s" % (t, ppr, ppc, sub))
    for c in range(nch):
        rows, cols, sr, sc = links[c]
        out.append(ind + "  child %d: rows->%s cols->%s specialRows %s specialCols %s" % (
            c, " ".join(map(elem, rows)), " ".join(map(elem, cols)), sr, sc))
        node(r, ind + "      ", out)


def show(rec):
    toks = list(map(int, rec.split()))
    r = R(toks)
    cfg = r.lst()
    bot = r.nx()
    M = r.mat()
    rc, has = r.nx(), r.nx()
    out = ["cfg %s binaryOfTernary %d rc %d" % (cfg, bot, rc), "input:"]
    for row in M:
        out.append("   " + " ".join("%2d" % x for x in row))
    if has:
        node(r, "", out)
    return "\n".join(out)


if __name__ == "__main__":
    print(show(sys.stdin.read().strip().lstrip("R ")))
