#!/usr/bin/env python3
"""seedprompt.py <id> <round> — create the scratch worktree /tmp/wt/<id> (detached at /repo's HEAD), write the property text
next to it and print the prompt for a fresh sub-agent (template seeded/PROMPT.txt)."""
import sys, os, json, subprocess
V = os.path.dirname(os.path.dirname(os.path.abspath(__file__)))
pid, rnd = sys.argv[1].upper(), sys.argv[2]
os.makedirs("/tmp/wt", exist_ok=True)
wt = "/tmp/wt/" + pid
if not os.path.exists(wt):
    subprocess.run(["git", "-C", "/repo", "worktree", "add", "--detach", wt, "HEAD"], check=True, capture_output=True)
prop = [json.loads(l) for l in open(os.path.join(V, "properties.jsonl")) if json.loads(l)["id"] == pid][0]
pf = "/tmp/wt/%s.property.json" % pid
json.dump(prop, open(pf, "w"), indent=1)
prev = []
for d in sorted(os.listdir(os.path.join(V, "seeded"))):
    mp = os.path.join(V, "seeded", d, "meta.json")
    if d.startswith(pid + "-") and os.path.exists(mp):
        m = json.load(open(mp))
        desc = (m.get("description") or "").split("\n")
        head = next((l for l in desc if l.strip() and not l.startswith("#")), "")[:400]
        prev.append("(%s) %s: %s" % (d, ", ".join(m["files"]), head))
txt = open(os.path.join(V, "seeded", "PROMPT.txt")).read()
txt = txt.replace("@PROP@", pf).replace("@WT@", wt).replace("@PREV@", " ;; ".join(prev) or "(none)")
open("/tmp/wt/%s.prompt_%s.txt" % (pid, rnd), "w").write(txt)
print(txt)
