"""clilib.py — functional correspondence for the command line tools: case lines -> files -> tool run -> integer records
for the extracted judges judge_climat / judge_cligraph (coq/CliModel.v).

case lines (the record is the case line followed by  rc hasout nout outbytes..):
  climat:   infmt outfmt tr task hasS nrs rs.. ncs cs.. nin inbytes..        (-S file written by us from rs/cs, 1-based)
  cligraph: signed tr outfmt nin inbytes..
"""
import os, re, subprocess, shutil, hashlib
from concurrent.futures import ThreadPoolExecutor
import vlib

FMT = {0: "dense", 1: "sparse"}
BAD = re.compile(r"Sanitizer|runtime error:|Assertion `")


def _take_list(t, p):
    k = int(t[p])
    return [int(x) for x in t[p + 1:p + 1 + k]], p + 1 + k


def _args(api, line, tools, d):
    t = line.split()
    if api in ("climat", "climatd"):
        infmt, outfmt, tr, task, hasS = (int(x) for x in t[:5])
        rs, p = _take_list(t, 5)
        cs, p = _take_list(t, p)
        inb, p = _take_list(t, p)
        open(os.path.join(d, "in"), "wb").write(bytes(inb))
        a = [tools["cmr-matrix"], os.path.join(d, "in"), os.path.join(d, "out"), "-i", FMT[infmt], "-o", FMT[outfmt]]
        if hasS:
            # the header of a submatrix file repeats the size of the matrix; it is taken from the first two tokens of the input
            hdr = bytes(inb).split()[:2]
            try:
                m, n = int(hdr[0]), int(hdr[1])
            except Exception:
                m, n = 0, 0
            open(os.path.join(d, "sub"), "w").write("%d %d %d %d\n%s\n%s\n" % (
                m, n, len(rs), len(cs), " ".join(str(r + 1) for r in rs), " ".join(str(c + 1) for c in cs)))
            a += ["-S", os.path.join(d, "sub")]
        if tr:
            a.append("-t")
        if task == 1:
            a.append("-c")
        elif task == 2:
            a.append("-C")
        if api == "climatd":
            a.append("-d")
        return a
    if api == "cligraph":
        signed, tr, outfmt = (int(x) for x in t[:3])
        inb, p = _take_list(t, 3)
        open(os.path.join(d, "in"), "wb").write(bytes(inb))
        a = [tools["cmr-network" if signed else "cmr-graphic"], "-c", os.path.join(d, "in"), os.path.join(d, "out"), "-o", FMT[outfmt]]
        if tr:
            a.append("-t")
        return a
    if api == "cligraphout":
        signed, co, infmt = (int(x) for x in t[:3])
        inb, p = _take_list(t, 3)
        open(os.path.join(d, "in"), "wb").write(bytes(inb))
        a = [tools["cmr-network" if signed else "cmr-graphic"], os.path.join(d, "in"), "-i", FMT[infmt], "-G", os.path.join(d, "out")]
        if co:
            a.append("-t")
        return a
    if api == "clictu":
        mode, r, c, infmt, outfmt = (int(x) for x in t[:5])
        inb, p = _take_list(t, 5)
        open(os.path.join(d, "in"), "wb").write(bytes(inb))
        if mode == 2:
            a = [tools["cmr-ctu"], os.path.join(d, "in"), os.path.join(d, "out"), "-i", FMT[infmt], "-o", FMT[outfmt]]
            if r >= 0:
                a += ["-r", str(r + 1)]
            if c >= 0:
                a += ["-c", str(c + 1)]
            return a
        return [tools["cmr-ctu"], os.path.join(d, "in"), "-i", FMT[infmt], "-o", FMT[outfmt], "-N", os.path.join(d, "out")]
    if api == "clisub":
        tool, variant, infmt = (int(x) for x in t[:3])
        inb, p = _take_list(t, 3)
        open(os.path.join(d, "in"), "wb").write(bytes(inb))
        name, opts = VERDICT_TOOLS[4 if tool == 14 else tool]
        return [tools[name], os.path.join(d, "in"), "-i", FMT[infmt]] + opts[variant].split() + \
               ["-R" if tool == 14 else "-N", os.path.join(d, "out")]
    if api == "cliverdict":
        tool, variant, infmt = (int(x) for x in t[:3])
        inb, p = _take_list(t, 3)
        open(os.path.join(d, "in"), "wb").write(bytes(inb))
        name, opts = VERDICT_TOOLS[tool]
        return [tools[name], os.path.join(d, "in"), "-i", FMT[infmt]] + opts[variant].split()
    raise ValueError(api)


# tool id -> (executable, option string per variant); ids as in CliModel.verdict_spec
VERDICT_TOOLS = {0: ("cmr-tu", ["", "--algo eulerian", "--algo partition", "--no-direct-graphic --no-series-parallel",
                             "--decompose YP", "--decompose P3", "--decompose Y3"]),
                 1: ("cmr-regular", ["", "--no-direct-graphic", "--no-series-parallel", "--decompose YP", "--decompose Y3"]),
                 2: ("cmr-graphic", ["", "-t"]),
                 4: ("cmr-series-parallel", ["", "-b"]),
                 5: ("cmr-balanced", ["", "--algorithm submatrix", "--no-series-parallel"]),
                 6: ("cmr-ctu", [""]),
                 8: ("cmr-k-ary", ["-I", "-t", "-b"])}


def run_cases(api, lines, cfg="dbg"):
    """returns (records, crashes): records[i] is None when the tool ended by a signal / sanitizer report / failed assertion"""
    tools = vlib.build_tools(cfg)
    work = os.path.join(vlib.WORK, "clif-%d" % os.getpid())
    shutil.rmtree(work, ignore_errors=True)
    os.makedirs(work)
    env = dict(os.environ)
    env["ASAN_OPTIONS"] = "detect_leaks=0"
    env["UBSAN_OPTIONS"] = "print_stacktrace=1"

    def one(i):
        d = os.path.join(work, str(i))
        os.makedirs(d)
        try:
            a = _args(api, lines[i], tools, d)
            try:
                r = subprocess.run(a, capture_output=True, text=True, env=env, timeout=60, errors="replace")
                rc, err = r.returncode, r.stderr
            except subprocess.TimeoutExpired:
                rc, err = -14, "timeout"
            if rc < 0 or BAD.search(err):
                return i, None, rc, err[-3000:]
            out = os.path.join(d, "out")
            if api == "cliverdict":
                tb = (r.stdout + "\n" + err).encode("utf-8", "replace") if rc != -14 else b""
                tail = "%d %s" % (len(tb), " ".join(str(b) for b in tb))
            elif os.path.exists(out):
                ob = open(out, "rb").read()
                tail = "1 %d %s" % (len(ob), " ".join(str(b) for b in ob))
            else:
                tail = "0 0"
            return i, ("%s %d %s" % (lines[i], rc, tail)).strip(), rc, err[-3000:]
        finally:
            shutil.rmtree(d, ignore_errors=True)

    recs = [None] * len(lines)
    crashes = []
    with ThreadPoolExecutor(vlib.NCPU) as ex:
        for i, rec, rc, err in ex.map(one, range(len(lines))):
            recs[i] = rec
            if rec is None:
                crashes.append((i, rc, err))
    shutil.rmtree(work, ignore_errors=True)
    return recs, crashes


def stream(ctx, api, lines, family, describe, keyfn=None, crash_key=None, cfg="dbg"):
    """like Ctx.stream, for the tool runs: api names are reported as cli:<api> (check.replay dispatches on the prefix)"""
    if not lines or not hasattr(ctx, "families"):
        return          # (the collectors of C11 / C18 / C19 harvest library case lines only)
    recs, crashes = run_cases(api, lines, cfg)
    codes = vlib.run_judge(api, recs)
    fam = ctx.families.setdefault(family, {"cases": 0, "rejected": 0, "crashes": 0, "codes": {}, "exit_codes": {}})
    fam["cases"] += len(lines)
    ctx.evaluations += len(lines)
    crashed = {i: (rc, err) for i, rc, err in crashes}
    for i, line in enumerate(lines):
        rec, code = recs[i], codes[i]
        ctx.nontrivial.add(hashlib.md5((api + "|" + line).encode()).digest()[:8])
        if rec is None:
            rc, err = crashed[i]
            fam["crashes"] += 1
            k = crash_key(rc, err) if crash_key else (keyfn(line, "crash") if keyfn else line)
            ctx.violate("cli:%s|crash|%s" % (api, k), "tool ended abnormally (exit %s): %s" % (rc, k), "cli:" + api, line, None,
                        "crash", cfg, (), err, api)
            continue
        rc = rec.split()[len(line.split())]
        fam["exit_codes"][rc] = fam["exit_codes"].get(rc, 0) + 1
        if code != 0:
            fam["rejected"] += 1
            fam["codes"][str(code)] = fam["codes"].get(str(code), 0) + 1
            ctx.violate("cli:%s|%d|%s" % (api, code, keyfn(line, code) if keyfn else line), describe(code), "cli:" + api, line, rec,
                        code, cfg, (), "", api)
    if len(ctx.samples) < 12:
        k = ctx.rng.below(len(lines))
        ctx.samples.append({"family": family, "api": "cli:" + api, "case": lines[k][:400], "record": (recs[k] or "")[:400],
                            "judge_code": codes[k]})
