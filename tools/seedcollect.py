#!/usr/bin/env python3
"""seedcollect.py <worktree> <property> <name> — confirm a seeded defect delivered by a sub-agent and store it.

Confirms, in the scratch worktree itself: (1) `git diff` touches library/tool sources only, (2) the tree builds and the
repository's test suite passes with the change, (3) the demonstration reports a violation (non-zero exit) with the
change and none (exit 0) on the unchanged tree.  On success writes /verif/seeded/<name>/{patch.diff, DEMO/*, meta.json}.
"""
import os, sys, json, subprocess, shutil

VERIF = os.path.dirname(os.path.dirname(os.path.abspath(__file__)))


def sh(cmd, cwd=None, timeout=1800):
    return subprocess.run(cmd, shell=True, cwd=cwd, capture_output=True, text=True, timeout=timeout)


def build_and_test(wt):
    r = sh("cmake -G Ninja -B _build -DCMAKE_BUILD_TYPE=RelWithDebInfo -DFETCHCONTENT_SOURCE_DIR_GTEST=/usr/src/googletest "
           ">/dev/null 2>&1; cmake --build _build 2>&1 | tail -2; ctest --test-dir _build -j8 --timeout 900 2>&1 | tail -4", wt)
    return "100% tests passed" in r.stdout, r.stdout[-600:]


def run_demo(wt):
    d = os.path.join(wt, "DEMO")
    if os.path.exists(os.path.join(d, "demo.c")):
        c = sh("gcc -std=gnu99 -I include -I _build DEMO/demo.c -L _build -lcmr -lm -lgmp -Wl,-rpath,$PWD/_build -o DEMO/demo", wt)
        if c.returncode != 0:
            return None, "demo does not compile: " + c.stderr[-800:]
        r = sh("./DEMO/demo", wt, timeout=600)
    else:
        r = sh("bash DEMO/demo.sh", wt, timeout=600)
    return r.returncode, (r.stdout + r.stderr)[-1500:]


def main():
    wt, prop, name = sys.argv[1], sys.argv[2], sys.argv[3]
    diff = sh("git diff", wt).stdout
    files = sh("git diff --name-only", wt).stdout.split()
    ok_files = bool(files) and all(f.startswith(("src/cmr/", "include/cmr/", "src/main/")) for f in files)
    res = {"property": prop, "files": files, "only_sources": ok_files}
    tests_ok, tail = build_and_test(wt)
    res["suite_passes_with_change"] = tests_ok
    rc1, out1 = run_demo(wt)
    res["demo_exit_with_change"] = rc1
    # (no `git stash`: the stash is shared by all worktrees of a repository)
    pf = os.path.join(wt, "DEMO", "seedcollect.patch")
    open(pf, "w").write(diff)
    sh("git apply -R DEMO/seedcollect.patch", wt)
    try:
        t2, _ = build_and_test(wt)
        rc0, out0 = run_demo(wt)
    finally:
        sh("git apply DEMO/seedcollect.patch", wt)
        os.remove(pf)
        build_and_test(wt)
    res["demo_exit_without_change"] = rc0
    res["confirmed"] = bool(ok_files and tests_ok and rc1 not in (0, None) and rc0 == 0)
    print(json.dumps(res, indent=1))
    print("--- demo output with change:\n" + (out1 or "")[-700:])
    if not res["confirmed"]:
        print("NOT CONFIRMED; nothing stored.  suite tail:", tail, "\n--- demo without change:", (out0 or "")[-500:])
        sys.exit(1)
    dst = os.path.join(VERIF, "seeded", name)
    shutil.rmtree(dst, ignore_errors=True)
    os.makedirs(os.path.join(dst, "DEMO"))
    open(os.path.join(dst, "patch.diff"), "w").write(diff)
    for fn in os.listdir(os.path.join(wt, "DEMO")):
        p = os.path.join(wt, "DEMO", fn)
        if os.path.isfile(p) and fn.split(".")[-1] in ("c", "sh", "md", "txt", "py", "dense", "sparse") and os.path.getsize(p) < 200000:
            shutil.copy(p, os.path.join(dst, "DEMO", fn))
    readme = os.path.join(wt, "DEMO", "README.md")
    res["description"] = open(readme).read()[:3000] if os.path.exists(readme) else ""
    res["source"] = "fresh sub-agent given only the property text and a scratch worktree"
    res["checks"] = [prop]
    json.dump(res, open(os.path.join(dst, "meta.json"), "w"), indent=1)
    print("stored in", dst)


if __name__ == "__main__":
    main()
