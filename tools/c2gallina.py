#!/usr/bin/env python3
"""c2gallina.py — translator for the pure integer leaf functions of discopt/cmr.

regenerate() dumps the clang AST (JSON) of the listed `static inline` functions from /repo's *current* headers and
writes coq/LeafGen.v: one Gallina function per C function, in the option monad of coq/LeafSem.v (every arithmetic
operation checks the range of its C type; None = undefined behaviour).  LeafProofs.v proves the specifications of these
generated definitions, so a change of the C text changes the definitions the theorems are about.

Supported C subset: parameters and locals of type int / long long / size_t / bool / CMR_ELEMENT, if / else, return,
declarations with initialiser, assignment and compound assignment statements, + - * / % unary - ! comparisons && || ?:,
integer literals, casts, parentheses; `assert` disappears with -DNDEBUG.  Anything else makes regenerate() fail (and
with it every check that depends on the generated file).
"""
import os, json, subprocess, re

VERIF = os.path.dirname(os.path.dirname(os.path.abspath(__file__)))
REPO = os.environ.get("CMR_REPO", "/repo")
OUT = os.path.join(VERIF, "coq", "LeafGen.v")

# (header to include, function)
FUNCS = [("linear_algebra_internal.h", "moduloNonnegative"), ("linear_algebra_internal.h", "moduloTernary"),
         ("hashtable.h", "projectSignedHash"),
         ("cmr/element.h", "CMRelementIsValid"), ("cmr/element.h", "CMRrowToElement"), ("cmr/element.h", "CMRcolumnToElement"),
         ("cmr/element.h", "CMRelementIsRow"), ("cmr/element.h", "CMRelementToRowIndex"), ("cmr/element.h", "CMRelementIsColumn"),
         ("cmr/element.h", "CMRelementToColumnIndex"), ("cmr/element.h", "CMRelementTranspose")]

TYPES = {"int": "I32", "long long": "I64", "long": "I64", "unsigned long": "U64", "size_t": "U64", "bool": "CB", "_Bool": "CB",
         "unsigned long long": "U64"}


class Unsupported(Exception):
    pass


def cty(node):
    t = node.get("type", {})
    q = t.get("desugaredQualType") or t.get("qualType")
    q = q.replace("const ", "").strip()
    if q not in TYPES:
        raise Unsupported("type %r" % q)
    return TYPES[q]


def ident(name):
    return "v_" + name


def expr(n):
    """Gallina term of type option Z"""
    k = n["kind"]
    inner = n.get("inner", [])
    if k == "IntegerLiteral":
        return "(Some (%s))" % n["value"]
    if k == "DeclRefExpr":
        return "(Some %s)" % ident(n["referencedDecl"]["name"])
    if k in ("ParenExpr", "ConstantExpr"):
        return expr(inner[0])
    if k == "ImplicitCastExpr" or k == "CStyleCastExpr":
        ck = n.get("castKind")
        if ck in ("LValueToRValue", "NoOp"):
            return expr(inner[0])
        if ck == "IntegralCast":
            return "(x <-- %s ;; c_cast %s x)" % (expr(inner[0]), cty(n))
        if ck == "IntegralToBoolean":
            return "(x <-- %s ;; c_bool (c_true x))" % expr(inner[0])
        raise Unsupported("cast " + str(ck))
    if k == "UnaryOperator":
        op = n["opcode"]
        if op == "-":
            return "(x <-- %s ;; c_neg %s x)" % (expr(inner[0]), cty(n))
        if op == "+":
            return expr(inner[0])
        if op == "!":
            return "(x <-- %s ;; c_bool (negb (c_true x)))" % expr(inner[0])
        raise Unsupported("unary " + op)
    if k == "BinaryOperator":
        op = n["opcode"]
        a, b = expr(inner[0]), expr(inner[1])
        ar = {"+": "c_add", "-": "c_sub", "*": "c_mul", "/": "c_div", "%": "c_rem"}
        cmp = {"<": "Z.ltb x y", ">": "Z.ltb y x", "<=": "Z.leb x y", ">=": "Z.leb y x", "==": "Z.eqb x y", "!=": "negb (Z.eqb x y)"}
        if op in ar:
            return "(x <-- %s ;; y <-- %s ;; %s %s x y)" % (a, b, ar[op], cty(n))
        if op in cmp:
            return "(x <-- %s ;; y <-- %s ;; c_bool (%s))" % (a, b, cmp[op])
        if op == "&&":
            return "(x <-- %s ;; if c_true x then (y <-- %s ;; c_bool (c_true y)) else Some 0)" % (a, b)
        if op == "||":
            return "(x <-- %s ;; if c_true x then Some 1 else (y <-- %s ;; c_bool (c_true y)))" % (a, b)
        raise Unsupported("binary " + op)
    if k == "ConditionalOperator":
        return "(x <-- %s ;; if c_true x then %s else %s)" % (expr(inner[0]), expr(inner[1]), expr(inner[2]))
    raise Unsupported("expression " + k)


def is_noop(n):
    """((void)0) left by assert under NDEBUG"""
    k = n["kind"]
    if k in ("ParenExpr",):
        return is_noop(n["inner"][0])
    if k == "CStyleCastExpr" and n.get("castKind") == "ToVoid":
        return True
    return k == "NullStmt"


def stmts(lst, rest):
    """translate a statement list followed by the continuation `rest` (a Gallina term or None = falls off the end)"""
    if not lst:
        if rest is None:
            raise Unsupported("control reaches the end of a non-void function")
        return rest
    s, tail = lst[0], lst[1:]
    k = s["kind"]
    inner = s.get("inner", [])
    if k == "CompoundStmt":
        return stmts(inner + tail, rest)
    if k == "ReturnStmt":
        return expr(inner[0])
    if k == "DeclStmt":
        out = None
        decls = inner
        body = stmts(tail, rest)
        for d in reversed(decls):
            if d["kind"] != "VarDecl" or not d.get("inner"):
                raise Unsupported("declaration without initialiser")
            body = "(%s <-- (x <-- %s ;; c_cast %s x) ;;\n  %s)" % (ident(d["name"]), expr(d["inner"][0]), cty(d), body)
        return body
    if k == "IfStmt":
        cond = expr(inner[0])
        then = stmts([inner[1]] + tail, rest)
        els = stmts(([inner[2]] if len(inner) > 2 else []) + tail, rest)
        return "(c <-- %s ;;\n  if c_true c then %s\n  else %s)" % (cond, then, els)
    if k == "BinaryOperator" and s["opcode"] == "=":
        lhs = inner[0]
        if lhs["kind"] != "DeclRefExpr":
            raise Unsupported("assignment to a non-variable")
        return "(%s <-- %s ;;\n  %s)" % (ident(lhs["referencedDecl"]["name"]), expr(inner[1]), stmts(tail, rest))
    if k == "CompoundAssignOperator":
        lhs = inner[0]
        if lhs["kind"] != "DeclRefExpr":
            raise Unsupported("assignment to a non-variable")
        op = {"+=": "c_add", "-=": "c_sub", "*=": "c_mul", "/=": "c_div", "%=": "c_rem"}.get(s["opcode"])
        if not op:
            raise Unsupported("compound " + s["opcode"])
        v = ident(lhs["referencedDecl"]["name"])
        return "(%s <-- (y <-- %s ;; %s %s %s y) ;;\n  %s)" % (v, expr(inner[1]), op, cty(s), v, stmts(tail, rest))
    if is_noop(s):
        return stmts(tail, rest)
    raise Unsupported("statement " + k)


def function(fd):
    params = [p for p in fd.get("inner", []) if p["kind"] == "ParmVarDecl"]
    body = [b for b in fd.get("inner", []) if b["kind"] == "CompoundStmt"]
    if len(body) != 1:
        raise Unsupported("no body")
    rty = fd["type"]["qualType"].split("(")[0].strip()
    rty = {"CMR_ELEMENT": "int"}.get(rty, rty)
    if rty not in TYPES:
        raise Unsupported("return type " + rty)
    args = " ".join("(%s : Z)" % ident(p["name"]) for p in params)
    sig = ", ".join("%s : %s" % (p["name"], cty(p)) for p in params)
    term = stmts(body[0].get("inner", []), None)
    return ("(* %s(%s) : %s *)\nDefinition c_%s %s : option Z :=\n  r <-- %s ;;\n  c_cast %s r.\n"
            % (fd["name"], sig, TYPES[rty], fd["name"], args, term, TYPES[rty]))


def ast_of(header, name, incs):
    src = "#include <limits.h>\n#include <stdbool.h>\n#include <stddef.h>\n#include \"%s\"\n" % header
    cmd = ["clang", "-std=gnu99", "-DNDEBUG", "-DDISCOPT_CMR_VERIF", "-x", "c", "-fsyntax-only", "-Xclang", "-ast-dump=json",
           "-Xclang", "-ast-dump-filter=" + name] + ["-I" + i for i in incs] + ["-"]
    r = subprocess.run(cmd, input=src, capture_output=True, text=True)
    if r.returncode != 0:
        raise Unsupported("clang: " + r.stderr[:300])
    dec = json.JSONDecoder()
    i, txt = 0, r.stdout
    while i < len(txt):
        while i < len(txt) and txt[i].isspace():
            i += 1
        if i >= len(txt):
            break
        o, i = dec.raw_decode(txt, i)
        if o.get("kind") == "FunctionDecl" and o.get("name") == name and any(c["kind"] == "CompoundStmt" for c in o.get("inner", [])):
            return o
    raise Unsupported("function %s not found in %s" % (name, header))


def config_inc():
    """a directory holding cmr/config.h and cmr/export.h (generated by the build); any of our library builds has one"""
    import vlib
    lib = vlib.build_lib("rel")
    return os.path.join(lib, "inc")


def regenerate():
    try:
        incs = [os.path.join(REPO, "include"), os.path.join(REPO, "src", "cmr"), config_inc()]
        parts = ["(* LeafGen.v — GENERATED by tools/c2gallina.py from the current text of /repo (include/cmr/element.h,\n"
                 "   src/cmr/linear_algebra_internal.h, src/cmr/hashtable.h); do not edit.  Semantics: LeafSem.v. *)\n"
                 "From Coq Require Import ZArith Bool.\nFrom Cmr Require Import LeafSem.\nLocal Open Scope Z_scope.\n"]
        for header, name in FUNCS:
            parts.append(function(ast_of(header, name, incs)))
        txt = "\n".join(parts)
    except Unsupported as e:
        return False, "c2gallina: " + str(e)
    if not os.path.exists(OUT) or open(OUT).read() != txt:
        open(OUT, "w").write(txt)
    return True, ""


if __name__ == "__main__":
    import sys
    sys.path.insert(0, os.path.dirname(os.path.abspath(__file__)))
    ok, msg = regenerate()
    print("ok" if ok else msg)
    if ok:
        print(open(OUT).read())
