#!/usr/bin/env python3
"""c2gallina.py — translator for the pure integer leaf functions of discopt/cmr.

regenerate() dumps the clang AST (JSON) of the listed `static inline` functions from /repo's *current* headers (and of
listed static functions of a C file: an entry whose "header" ends in .c) and writes coq/LeafGen.v: one Gallina function per C function, in the option monad of coq/LeafSem.v (every arithmetic
operation checks the range of its C type; None = undefined behaviour).  LeafProofs.v proves the specifications of these
generated definitions, so a change of the C text changes the definitions the theorems are about.

Supported C subset: parameters and locals of type int / long long / int64_t / size_t / bool / CMR_ELEMENT, if / else,
return, declarations with initialiser, assignment and compound assignment statements, + - * / % unary - ! comparisons
&& || ?:, integer literals, casts, parentheses, sizeof(type); `assert` disappears with -DNDEBUG.
  | & ^ >> << and |= &= ^= >>= <<= on size_t / unsigned long operands only (a shift count outside 0..63 is undefined).
  ++x; --x; x++; x--; as statements (the value is not used).
  for (init; cond; inc) body  is  init; while (cond) { body; inc }  with the variables of init in scope only there.
  while (cond) { body }  becomes a `Fixpoint c_<fn>_loop<k> (fuel : nat) (<every variable in scope> : Z)` returning the
    tuple of those variables when the condition fails and None when the fuel runs out; the function then takes `fuel`
    as an extra first argument.  Variables declared in the body live for one iteration.  No return / break / continue /
    nested loop / write through a pointer inside a loop.
  out-parameters `int64_t* p`: `*p = e;` binds o_p; they are not arguments of the Gallina function, which returns
    (return value, *p1, .., *pn) in parameter order.  Every out-parameter must have been written on every path to a
    return; the pointers cannot be used in any other way.
Anything else makes regenerate() fail (and with it every check that depends on the generated file).
"""
import os, json, subprocess, re

VERIF = os.path.dirname(os.path.dirname(os.path.abspath(__file__)))
REPO = os.environ.get("CMR_REPO", "/repo")
OUT = os.path.join(VERIF, "coq", "LeafGen.v")

# (header to include, function)
FUNCS = [("linear_algebra_internal.h", "moduloNonnegative"), ("linear_algebra_internal.h", "moduloTernary"),
         ("hashtable.h", "projectSignedHash"),
         ("cmr/element.h", "CMRelementIsValid"), ("cmr/element.h", "CMRrowToElement"), ("cmr/element.h", "CMRcolumnToElement"),
         ("cmr/element.h", "CMRelementIsRow"), ("cmr/element.h", "CMRelementToRowIndex"), ("cmr/element.h", "CMRelementIsColumn"),
         ("cmr/element.h", "CMRelementToColumnIndex"), ("cmr/element.h", "CMRelementTranspose"),
         ("linear_algebra.c", "gcdExt"), ("hashtable.h", "nextPower2")]

TYPES = {"int": "I32", "long long": "I64", "long": "I64", "unsigned long": "U64", "size_t": "U64", "bool": "CB", "_Bool": "CB",
         "unsigned long long": "U64", "int64_t": "I64"}
OUT_POINTERS = ("int64_t *", "long *", "long long *")
SIZEOF = {"I32": 4, "I64": 8, "U64": 8, "CB": 1}
BITWISE = {"|": "c_or", "&": "c_and", "^": "c_xor", ">>": "c_shr", "<<": "c_shl"}


def unsigned_only(op, t):
    if t != "U64":
        raise Unsupported("bitwise operator %s on the signed type %s" % (op, t))
    return t


class Unsupported(Exception):
    pass


def cty(node):
    t = node.get("type", {})
    q = t.get("desugaredQualType") or t.get("qualType") or "?"
    q = q.replace("const ", "").strip()
    if q not in TYPES:
        raise Unsupported("type %r" % q)
    return TYPES[q]


def ident(name):
    return "v_" + name


def oident(name):
    return "o_" + name


class Fn:
    """per-function state: name, out-pointer parameters (in order), return type, the loop fixpoints emitted so far"""
    def __init__(self, name, outs, rty):
        self.name, self.outs, self.rty, self.loops = name, outs, rty, []


class Cx:
    """per-path state: the variables in scope (in declaration order), the out-parameters written so far, inside a loop?"""
    def __init__(self, fn, scope, assigned=frozenset(), loop=False):
        self.fn, self.scope, self.assigned, self.loop = fn, tuple(scope), assigned, loop

    def declare(self, name):
        if name in self.scope or name in self.fn.outs:
            raise Unsupported("declaration of %s shadows a variable in scope" % name)
        return Cx(self.fn, self.scope + (name,), self.assigned, self.loop)

    def assign_out(self, name):
        return Cx(self.fn, self.scope, self.assigned | {name}, self.loop)

    def enter_loop(self):
        return Cx(self.fn, self.scope, self.assigned, True)


def expr(n):
    """Gallina term of type option Z"""
    k = n["kind"]
    inner = n.get("inner", [])
    if k == "IntegerLiteral":
        return "(Some (%s))" % n["value"]
    if k == "DeclRefExpr":
        cty(n)  # only variables of a supported integer type (in particular: no pointer)
        return "(Some %s)" % ident(n["referencedDecl"]["name"])
    if k in ("ParenExpr", "ConstantExpr"):
        return expr(inner[0])
    if k == "UnaryExprOrTypeTraitExpr":
        if n.get("name") != "sizeof" or "argType" not in n or cty(n) != "U64":
            raise Unsupported("%s of an expression" % n.get("name"))
        return "(Some (%d))" % SIZEOF[cty({"type": n["argType"]})]
    if k == "ImplicitCastExpr" or k == "CStyleCastExpr":
        ck = n.get("castKind")
        if ck in ("LValueToRValue", "NoOp"):
            return expr(inner[0])
        if ck == "IntegralCast":
            return "(x <-- %s ;; c_cast %s x)" % (expr(inner[0]), cty(n))
        if ck == "IntegralToBoolean":
            return "(x <-- %s ;; c_bool (c_true x))" % expr(inner[0])
        raise Unsupported("cast " + str(ck))
    if k == "UnaryOperator":
        op = n["opcode"]
        if op == "-":
            return "(x <-- %s ;; c_neg %s x)" % (expr(inner[0]), cty(n))
        if op == "+":
            return expr(inner[0])
        if op == "!":
            return "(x <-- %s ;; c_bool (negb (c_true x)))" % expr(inner[0])
        raise Unsupported("unary " + op)
    if k == "BinaryOperator":
        op = n["opcode"]
        a, b = expr(inner[0]), expr(inner[1])
        ar = {"+": "c_add", "-": "c_sub", "*": "c_mul", "/": "c_div", "%": "c_rem"}
        cmp = {"<": "Z.ltb x y", ">": "Z.ltb y x", "<=": "Z.leb x y", ">=": "Z.leb y x", "==": "Z.eqb x y", "!=": "negb (Z.eqb x y)"}
        if op in ar:
            return "(x <-- %s ;; y <-- %s ;; %s %s x y)" % (a, b, ar[op], cty(n))
        if op in BITWISE:
            unsigned_only(op, cty(inner[0]))
            return "(x <-- %s ;; y <-- %s ;; %s %s x y)" % (a, b, BITWISE[op], unsigned_only(op, cty(n)))
        if op in cmp:
            return "(x <-- %s ;; y <-- %s ;; c_bool (%s))" % (a, b, cmp[op])
        if op == "&&":
            return "(x <-- %s ;; if c_true x then (y <-- %s ;; c_bool (c_true y)) else Some 0)" % (a, b)
        if op == "||":
            return "(x <-- %s ;; if c_true x then Some 1 else (y <-- %s ;; c_bool (c_true y)))" % (a, b)
        raise Unsupported("binary " + op)
    if k == "ConditionalOperator":
        return "(x <-- %s ;; if c_true x then %s else %s)" % (expr(inner[0]), expr(inner[1]), expr(inner[2]))
    raise Unsupported("expression " + k)


def is_noop(n):
    """((void)0) left by assert under NDEBUG"""
    k = n["kind"]
    if k in ("ParenExpr",):
        return is_noop(n["inner"][0])
    if k == "CStyleCastExpr" and n.get("castKind") == "ToVoid":
        return True
    return k == "NullStmt"


def out_target(lhs, cx):
    """name of the out-parameter p if lhs is `*p`, else None"""
    if lhs["kind"] != "UnaryOperator" or lhs.get("opcode") != "*":
        return None
    e = lhs["inner"][0]
    while e["kind"] in ("ParenExpr",) or (e["kind"] == "ImplicitCastExpr" and e.get("castKind") == "LValueToRValue"):
        e = e["inner"][0]
    if e["kind"] == "DeclRefExpr" and e["referencedDecl"]["kind"] == "ParmVarDecl" and e["referencedDecl"]["name"] in cx.fn.outs:
        return e["referencedDecl"]["name"]
    return None


def target(lhs, cx):
    if lhs["kind"] != "DeclRefExpr":
        raise Unsupported("assignment to a non-variable")
    name = lhs["referencedDecl"]["name"]
    if name not in cx.scope:
        raise Unsupported("assignment to %s, which is not a local variable or parameter in scope" % name)
    cty(lhs)
    return ident(name)


def ret(e, cx):
    if cx.loop:
        raise Unsupported("return inside a loop")
    if not cx.fn.outs:
        return expr(e)
    missing = [o for o in cx.fn.outs if o not in cx.assigned]
    if missing:
        raise Unsupported("return reached while *%s has not been written" % missing[0])
    return "(x <-- %s ;; r <-- c_cast %s x ;;\n  Some (%s))" % (expr(e), cx.fn.rty, ", ".join(["r"] + [oident(o) for o in cx.fn.outs]))


def loop(cond, body, cx):
    """emit the fixpoint of `while (cond) body` in the scope of cx; returns (its name, the variables it carries)"""
    if cx.loop:
        raise Unsupported("nested loop")
    if not cx.scope:
        raise Unsupported("loop without variables")
    fn = cx.fn
    name = "c_%s_loop%d" % (fn.name, len(fn.loops) + 1)
    vs = [ident(v) for v in cx.scope]
    again = "(%s fuel %s)" % (name, " ".join(vs))
    term = stmts([body], again, cx.enter_loop())
    fn.loops.append(None)  # reserve the number
    fn.loops[-1] = ("Fixpoint %s (fuel : nat) (%s : Z) {struct fuel} : option (%s) :=\n  match fuel with\n  | O => None\n  | S fuel =>\n"
                    "  (c <-- %s ;;\n  if c_true c then %s\n  else Some (%s))\n  end.\n"
                    % (name, " ".join(vs), " * ".join("Z" for _ in vs), expr(cond), term, ", ".join(vs)))
    return name, vs


def stmts(lst, rest, cx):
    """translate a statement list followed by the continuation `rest` (a Gallina term, a function producing one, or
    None = falls off the end)"""
    if not lst:
        if rest is None:
            raise Unsupported("control reaches the end of a non-void function")
        return rest() if callable(rest) else rest
    s, tail = lst[0], lst[1:]
    k = s["kind"]
    inner = s.get("inner", [])
    if k == "CompoundStmt":
        return stmts(inner + tail, rest, cx)
    if k == "ReturnStmt":
        if not inner:
            raise Unsupported("return without a value")
        return ret(inner[0], cx)
    if k == "DeclStmt":
        out = None
        decls = inner
        cxs = [cx]
        for d in decls:
            if d["kind"] != "VarDecl" or not d.get("inner"):
                raise Unsupported("declaration without initialiser")
            cxs.append(cxs[-1].declare(d["name"]))
        body = stmts(tail, rest, cxs[-1])
        for d in reversed(decls):
            body = "(%s <-- (x <-- %s ;; c_cast %s x) ;;\n  %s)" % (ident(d["name"]), expr(d["inner"][0]), cty(d), body)
        return body
    if k == "IfStmt":
        if len(inner) not in (2, 3):
            raise Unsupported("if statement with %d children" % len(inner))
        cond = expr(inner[0])
        then = stmts([inner[1]] + tail, rest, cx)
        els = stmts(([inner[2]] if len(inner) > 2 else []) + tail, rest, cx)
        return "(c <-- %s ;;\n  if c_true c then %s\n  else %s)" % (cond, then, els)
    if k == "WhileStmt":
        if len(inner) != 2:
            raise Unsupported("while statement with %d children" % len(inner))
        name, vs = loop(inner[0], inner[1], cx)
        return "(st <-- %s fuel %s ;;\n  let '(%s) := st in\n  %s)" % (name, " ".join(vs), ", ".join(vs), stmts(tail, rest, cx))
    if k == "ForStmt":
        if len(inner) != 5 or inner[1] or not inner[2]:
            raise Unsupported("for statement with a condition variable or without a condition")
        init, _, cond, inc, body = inner
        loop_stmt = {"kind": "WhileStmt", "inner": [cond, {"kind": "CompoundStmt", "inner": [body] + ([inc] if inc else [])}]}
        # the statements after the loop are translated in the scope before `init`
        return stmts(([init] if init else []) + [loop_stmt], lambda: stmts(tail, rest, cx), cx)
    if k == "UnaryOperator" and s["opcode"] in ("++", "--"):
        v = target(inner[0], cx)
        if cty(s) == "CB":
            raise Unsupported(s["opcode"] + " on a bool")
        return "(%s <-- %s %s %s 1 ;;\n  %s)" % (v, {"++": "c_add", "--": "c_sub"}[s["opcode"]], cty(s), v, stmts(tail, rest, cx))
    if k == "BinaryOperator" and s["opcode"] == "=":
        lhs = inner[0]
        o = out_target(lhs, cx)
        if o is not None:
            if cx.loop:
                raise Unsupported("write through a pointer inside a loop")
            if cty(lhs) != "I64":
                raise Unsupported("out-parameter of type " + cty(lhs))
            return "(%s <-- %s ;;\n  %s)" % (oident(o), expr(inner[1]), stmts(tail, rest, cx.assign_out(o)))
        return "(%s <-- %s ;;\n  %s)" % (target(lhs, cx), expr(inner[1]), stmts(tail, rest, cx))
    if k == "CompoundAssignOperator":
        lhs = inner[0]
        op = {"+=": "c_add", "-=": "c_sub", "*=": "c_mul", "/=": "c_div", "%=": "c_rem"}.get(s["opcode"])
        if s["opcode"][:-1] in BITWISE:
            op = BITWISE[s["opcode"][:-1]]
            unsigned_only(s["opcode"], cty(s))
            unsigned_only(s["opcode"], cty({"type": s.get("computeResultType", {})}))
            unsigned_only(s["opcode"], cty({"type": s.get("computeLHSType", {})}))
        if not op:
            raise Unsupported("compound " + s["opcode"])
        v = target(lhs, cx)
        return "(%s <-- (y <-- %s ;; %s %s %s y) ;;\n  %s)" % (v, expr(inner[1]), op, cty(s), v, stmts(tail, rest, cx))
    if is_noop(s):
        return stmts(tail, rest, cx)
    raise Unsupported("statement " + k)


def function(fd):
    params = [p for p in fd.get("inner", []) if p["kind"] == "ParmVarDecl"]
    body = [b for b in fd.get("inner", []) if b["kind"] == "CompoundStmt"]
    if len(body) != 1:
        raise Unsupported("no body")
    rty = fd["type"]["qualType"].split("(")[0].strip()
    rty = {"CMR_ELEMENT": "int"}.get(rty, rty)
    if rty not in TYPES:
        raise Unsupported("return type " + rty)
    outs = [p for p in params if p["type"]["qualType"] in OUT_POINTERS]
    ins = [p for p in params if p not in outs]
    if len(set(p.get("name") for p in params)) != len(params) or not all(p.get("name") for p in params):
        raise Unsupported("unnamed or repeated parameter")
    fn = Fn(fd["name"], [p["name"] for p in outs], TYPES[rty])
    args = " ".join("(%s : Z)" % ident(p["name"]) for p in ins)
    sig = ", ".join("out %s" % p["name"] if p in outs else "%s : %s" % (p["name"], cty(p)) for p in params)
    term = stmts(body[0].get("inner", []), None, Cx(fn, [p["name"] for p in ins]))
    fuel = "(fuel : nat) " if fn.loops else ""
    if outs:
        return ("%s(* %s(%s) : %s; the value is (result%s) *)\nDefinition c_%s %s%s : option (%s) :=\n  %s.\n"
                % ("".join(l + "\n" for l in fn.loops), fd["name"], sig, TYPES[rty], "".join(", *" + o for o in fn.outs),
                   fd["name"], fuel, args, " * ".join("Z" for _ in [0] + outs), term))
    return ("%s(* %s(%s) : %s *)\nDefinition c_%s %s%s : option Z :=\n  r <-- %s ;;\n  c_cast %s r.\n"
            % ("".join(l + "\n" for l in fn.loops), fd["name"], sig, TYPES[rty], fd["name"], fuel, args, term, TYPES[rty]))


def ast_of(header, name, incs):
    if header.endswith(".c"):  # a static function of a C file: the translation unit is that file
        header = os.path.join(REPO, "src", "cmr", header)
    src = "#include <limits.h>\n#include <stdbool.h>\n#include <stddef.h>\n#include \"%s\"\n" % header
    cmd = ["clang", "-std=gnu99", "-DNDEBUG", "-DDISCOPT_CMR_VERIF", "-x", "c", "-fsyntax-only", "-Xclang", "-ast-dump=json",
           "-Xclang", "-ast-dump-filter=" + name] + ["-I" + i for i in incs] + ["-"]
    r = subprocess.run(cmd, input=src, capture_output=True, text=True)
    if r.returncode != 0:
        raise Unsupported("clang: " + r.stderr[:300])
    dec = json.JSONDecoder()
    i, txt = 0, r.stdout
    while i < len(txt):
        while i < len(txt) and txt[i].isspace():
            i += 1
        if i >= len(txt):
            break
        o, i = dec.raw_decode(txt, i)
        if o.get("kind") == "FunctionDecl" and o.get("name") == name and any(c["kind"] == "CompoundStmt" for c in o.get("inner", [])):
            return o
    raise Unsupported("function %s not found in %s" % (name, header))


def config_inc():
    """a directory holding cmr/config.h and cmr/export.h (generated by the build); any of our library builds has one"""
    import vlib
    lib = vlib.build_lib("rel")
    return os.path.join(lib, "inc")


def regenerate():
    try:
        incs = [os.path.join(REPO, "include"), os.path.join(REPO, "src", "cmr"), config_inc()]
        parts = ["(* LeafGen.v — GENERATED by tools/c2gallina.py from the current text of /repo (include/cmr/element.h,\n"
                 "   src/cmr/linear_algebra_internal.h, src/cmr/hashtable.h, src/cmr/linear_algebra.c); do not edit.  Semantics: LeafSem.v. *)\n"
                 "From Coq Require Import ZArith Bool.\nFrom Cmr Require Import LeafSem.\nLocal Open Scope Z_scope.\n"]
        for header, name in FUNCS:
            parts.append(function(ast_of(header, name, incs)))
        txt = "\n".join(parts)
    except Unsupported as e:
        return False, "c2gallina: " + str(e)
    if not os.path.exists(OUT) or open(OUT).read() != txt:
        open(OUT, "w").write(txt)
    return True, ""


if __name__ == "__main__":
    import sys
    sys.path.insert(0, os.path.dirname(os.path.abspath(__file__)))
    ok, msg = regenerate()
    print("ok" if ok else msg)
    if ok:
        print(open(OUT).read())
