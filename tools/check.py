#!/usr/bin/env python3
"""check.py <id> [quick|thorough] [--replay <file>]   |   check.py --setup

Decides one property (see DESIGN.md):
  1. hygiene grep of the Coq development (no Admitted/Axiom/... anywhere)
  2. regenerate coq/Gen/*.v from /repo's current source (translator), build Properties_<id>.vo
     (full .vo build) and the extracted judge
  3. build the library and the harness from /repo's current working tree
  4. run the correspondence streams of the property: implementation vs. extracted Coq judge
  5. report: VIOLATION lines (with replay files), KNOWN-FINDING lines, evidence/<id>.json
"""
import os, sys, json, time, importlib, hashlib, re, traceback
sys.path.insert(0, os.path.dirname(os.path.abspath(__file__)))
import vlib
from vlib import VERIF, WORK, COQ, REPO

TRUSTED_BASE_COMMON = [
    "Coq 8.16.1 kernel (Debian build); vm_compute used in finite-domain lemmas and examples; native_compute not used",
    "no axioms declared by this development (grep + Print Assumptions in every run)",
    "extraction: Require Import ExtrOcamlBasic only (bool, option, list, prod, unit, sumbool -> OCaml types); "
    "our own directives: Extract Inlined Constant andb => (&&), orb => (||) (lazy evaluation of total pure arguments); "
    "no other Extract Constant / Extract Inductive; nat, positive, Z, string, ascii stay extracted inductives",
    "OCaml 4.13.1 compiler and ocaml/judge.ml (token <-> Z conversion, dispatch by api name)",
    "harness/drive.c (marshals CMR objects to integer records), gcc, the case generators in tools/props/*.py",
    "/repo/src/cmr is code under test: tied to the Coq model only through the correspondence run "
    "(and, for the translated leaf functions, through coq/LeafGen.v regenerated from the C text by tools/c2gallina.py on every run: clang's JSON AST, the translator and coq/LeafSem.v are trusted and validated by the `leaf` stream)",
]


class Violation:
    def __init__(self, prop, key, what, replay_text):
        self.prop, self.key, self.what, self.replay_text = prop, key, what, replay_text


class Ctx:
    def __init__(self, prop, tier, seed):
        self.prop, self.tier, self.seed = prop, tier, seed
        self.rng = vlib.Rng(seed).fork(prop)
        self.quick = tier == "quick"
        self.evaluations = 0
        self.nontrivial = set()
        self.samples = []
        self.violations = []
        self.families = {}
        self.notes = []
        self.no_input = []      # broken obligations / ties without a concrete failing input
        self.t0 = time.time()

    # ---- builds -------------------------------------------------------------------------
    def drive(self, cfg="rel", extra_defs=(), tag=None, wrap_clock=False):
        return vlib.build_drive(cfg, extra_defs, tag, wrap_clock)

    # ---- generic correspondence stream ----------------------------------------------------
    def stream(self, api, lines, family, cfg="rel", judge_api=None, describe=None, nontrivial=None,
               extra_defs=(), tag=None, env=None, drive_api=None, keyfn=None, ignore_codes=()):
        """Run `lines` through drive <api> and the extracted judge; collect disagreements.
        nontrivial(line, record) -> bool decides what is counted as a non-trivial case."""
        if not lines:
            return [], []
        exe = self.drive(cfg, extra_defs, tag)
        recs, crashes = vlib.run_drive(exe, drive_api or api, lines, env=env)
        codes = vlib.run_judge(judge_api or api, recs)
        fam = self.families.setdefault(family, {"cases": 0, "rejected": 0, "crashes": 0, "codes": {}})
        fam["cases"] += len(lines)
        self.evaluations += len(lines)
        crashed = {i: (rc, err) for i, rc, err in crashes}
        for i, line in enumerate(lines):
            rec, code = recs[i], codes[i]
            if rec is None and i in vlib.LAST_SKIPPED:
                fam["skipped_after_watchdog_kills"] = fam.get("skipped_after_watchdog_kills", 0) + 1
                continue
            if rec is None:
                rc, err = crashed.get(i, (None, ""))
                fam["crashes"] += 1
                kk = keyfn(line, "crash") if keyfn else line
                if kk == line:
                    site = vlib.crash_site(drive_api or api, line, extra_defs)
                    if site:
                        kk = site
                key = "%s|crash|%s" % (api, kk)
                self.violate(key, "implementation produced no result (exit %s) on %s case" % (rc, api),
                             api, line, None, "crash", cfg, extra_defs, err)
                continue
            if nontrivial is None or nontrivial(line, rec):
                self.nontrivial.add(hashlib.md5((api + "|" + line).encode()).digest()[:8])
            if code != 0 and code in ignore_codes:
                fam.setdefault("ignored_codes", {})
                fam["ignored_codes"][str(code)] = fam["ignored_codes"].get(str(code), 0) + 1
            elif code != 0:
                fam["rejected"] += 1
                fam["codes"][str(code)] = fam["codes"].get(str(code), 0) + 1
                if keyfn and getattr(keyfn, "wants_record", False):
                    kk = keyfn(line, code, rec)
                else:
                    kk = keyfn(line, code) if keyfn else line
                key = "%s|%d|%s" % (api, code, kk)
                what = (describe(code) if describe else "judge code %d" % code)
                self.violate(key, what, api, line, rec, code, cfg, extra_defs, "", judge_api or api)
        if len(self.samples) < 12 and lines:
            k = self.rng.below(len(lines))
            self.samples.append({"family": family, "api": api, "case": lines[k][:400],
                                 "record": (recs[k] or "")[:400], "judge_code": codes[k]})
        return recs, codes

    def violate(self, key, what, api, line, rec, code, cfg="rel", extra_defs=(), err="", judge=None):
        txt = ("property: %s\napi: %s\njudge: %s\ncfg: %s %s\nseed: %d\nwhat: %s\njudge_code: %s\ncase: %s\nrecord: %s\n"
               "stderr_tail: %s\nreplay: python3 tools/check.py %s --replay <this file>\n"
               % (self.prop, api, judge or api, cfg, " ".join(extra_defs), self.seed, what, code, line, rec, err[-800:], self.prop))
        self.violations.append(Violation(self.prop, key, what, txt))

    def count(self, n=1, key=None):
        self.evaluations += n
        if key is not None:
            self.nontrivial.add(hashlib.md5(key.encode()).digest()[:8])


def load_known():
    path = os.path.join(VERIF, "known_findings.txt")
    known = []
    if os.path.exists(path):
        for l in open(path):
            l = l.strip()
            m = re.match(r"finding:\s+property=(\S+)\s+key=(\S.*?)\s+::\s+(.*)$", l)
            if m:
                known.append((m.group(1), m.group(2), m.group(3)))
    return known


def match_known(known, prop, key):
    for p, k, desc in known:
        if p != prop:
            continue
        if k == key or (k.endswith("*") and key.startswith(k[:-1])):
            return (k, desc)
    return None


def prove(prop, ctx):
    """Build Properties_<prop>.vo (+ extraction). Returns dict with obligations/discharged/axioms/log."""
    res = {"obligations": 0, "discharged": 0, "axioms": [], "ok": False, "log": "", "theorems": []}
    hyg = vlib.coq_hygiene()
    if hyg:
        res["log"] = "hygiene: " + "; ".join(hyg[:5])
        res["hygiene"] = hyg
        return res
    # translator: regenerate Gen/ from the current source
    gen_ok, gen_msg = True, ""
    try:
        import c2gallina
        gen_ok, gen_msg = c2gallina.regenerate()
    except ImportError:
        pass
    res["gen_ok"], res["gen_msg"] = gen_ok, gen_msg
    pf = os.path.join(COQ, "Properties_%s.v" % prop)
    src = open(pf).read() if os.path.exists(pf) else ""
    thms = re.findall(r"^\s*(?:Theorem|Corollary)\s+(\w+)", src, re.M)
    res["theorems"] = thms
    res["obligations"] = len(thms)
    ok, log = vlib.build_coq(["Properties_%s.vo" % prop, "Extract.vo"])
    res["log"] = log[-4000:]
    for fn in ("cmr_model.ml", "cmr_model.mli"):
        p = os.path.join(COQ, fn)
        if os.path.exists(p):
            dst = os.path.join(WORK, fn)
            if not os.path.exists(dst) or open(dst).read() != open(p).read():
                os.makedirs(WORK, exist_ok=True)
                open(dst, "w").write(open(p).read())
    vo = os.path.join(COQ, "Properties_%s.vo" % prop)
    # a failed translation leaves the previous LeafGen.v in place: only the properties whose theorems (transitively) use the
    # generated definitions are no longer tied to the current source
    if not gen_ok and not coq_depends(prop, "LeafGen"):
        res["gen_note"] = "translator failed (%s); Properties_%s.v does not depend on the generated file" % (gen_msg, prop)
        gen_ok = True
    if ok and os.path.exists(vo) and gen_ok:
        res["ok"] = True
        res["discharged"] = len(thms)
        # Print Assumptions output is in the make log only when the file was recompiled; re-query cheaply
        res["axioms"] = assumptions(prop, thms)
    else:
        # which theorems failed?  compile log names the file/line; report the first error
        m = re.search(r'File "\./(\S+)", line (\d+)', log)
        res["first_error"] = (m.group(1) + ":" + m.group(2)) if m else ("translator: " + gen_msg if not gen_ok else "unknown")
    return res


def coq_depends(prop, target):
    """does coq/Properties_<prop>.v transitively Require coq/<target>.v (scan of the Require lines of our own files)?"""
    seen, todo = set(), ["Properties_%s" % prop]
    while todo:
        f = todo.pop()
        if f in seen:
            continue
        seen.add(f)
        path = os.path.join(COQ, f + ".v")
        if not os.path.exists(path):
            continue
        src = re.sub(r"\(\*.*?\*\)", " ", open(path).read(), flags=re.S)
        for m in re.finditer(r"From\s+Cmr\s+Require\s+(?:Import\s+|Export\s+)?([^.]*)\.", src):
            todo += m.group(1).split()
        for m in re.finditer(r"Require\s+(?:Import\s+|Export\s+)?((?:Cmr\.\w+\s*)+)\.", src):
            todo += [x.split(".")[-1] for x in m.group(1).split()]
    return target in seen


def assumptions(prop, thms):
    """Print Assumptions for every property theorem (coqtop batch on the compiled file)."""
    cache = os.path.join(WORK, "assumptions-%s.json" % prop)
    vo = os.path.join(COQ, "Properties_%s.vo" % prop)
    if os.path.exists(cache) and os.path.getmtime(cache) >= os.path.getmtime(vo):
        return json.load(open(cache))
    script = "From Cmr Require Import Properties_%s.\n" % prop + "".join("Print Assumptions %s.\n" % t for t in thms)
    tmp = os.path.join(WORK, "pa_%s.v" % prop)
    open(tmp, "w").write(script)
    r = vlib.sh(["coqc", "-Q", COQ, "Cmr", "-w", "-all", tmp], capture_output=True, text=True, cwd=WORK)
    out = r.stdout
    axioms = set()
    for blk in out.split("\n"):
        m = re.match(r"^([A-Za-z_][\w.']*)\s*:", blk)
        if m:
            axioms.add(m.group(1))
    res = sorted(axioms) if "Axioms:" in out else []
    if "Closed under the global context" not in out and not res:
        res = ["<Print Assumptions produced no output>"] if r.returncode != 0 else []
    json.dump(res, open(cache, "w"))
    for ext in (".vo", ".glob", ".vok", ".vos"):
        try:
            os.remove(tmp[:-2] + ext)
        except OSError:
            pass
    return res


def setup():
    os.makedirs(WORK, exist_ok=True)
    try:
        import c2gallina
        c2gallina.regenerate()
    except ImportError:
        pass
    ok, log = vlib.build_coq(None, timeout=3000)
    if not ok:
        print(log[-3000:])
        return 1
    for fn in ("cmr_model.ml", "cmr_model.mli"):
        open(os.path.join(WORK, fn), "w").write(open(os.path.join(COQ, fn)).read())
    vlib.build_judge()
    vlib.build_drive("rel")
    vlib.build_drive("dbg")
    print("setup ok")
    return 0


def replay(prop, path):
    txt = open(path).read()
    f = dict(re.findall(r"^(\w+): (.*)$", txt, re.M))
    api, line = f.get("api"), f.get("case")
    cfgparts = f.get("cfg", "rel").split()
    cfg, defs = cfgparts[0], tuple(cfgparts[1:])
    if not api or not line or api == "-":
        print("replay file names a broken obligation, not an input:\n" + txt)
        return 1
    prove(prop, None)
    if api.startswith("cli:"):
        import clilib
        recs, crashes = clilib.run_cases(api[4:], [line], cfg)
        print("case:   ", line)
        print("record: ", recs[0])
        if recs[0] is None:
            print("tool ended abnormally:", crashes)
            print("VIOLATION property=%s replay=%s" % (prop, path))
            return 1
        code = vlib.run_judge(api[4:], recs, shards=1)[0]
        print("judge code:", code)
        if code != 0:
            print("VIOLATION property=%s replay=%s" % (prop, path))
            return 1
        print("replay passes: the judge accepts the tool's output on this case")
        return 0
    exe = vlib.build_drive(cfg, defs, tag=("x" + hashlib.md5(" ".join(defs).encode()).hexdigest()[:6]) if defs else None)
    mod = importlib.import_module("props." + prop.lower())
    japi = f.get("judge") or getattr(mod, "JUDGE_API", {}).get(api, api)
    renv = dict(os.environ)
    if api in ("tlimit", "hist", "threads"):
        renv.setdefault("DRIVE_CASE_SECONDS", "900")      # one case is many runs of the call
    recs, crashes = vlib.run_drive(exe, api, [line], shards=1, env=renv)
    print("case:   ", line)
    print("record: ", recs[0])
    if recs[0] is None:
        print("implementation crashed:", crashes)
        print("VIOLATION property=%s replay=%s" % (prop, path))
        return 1
    code = vlib.run_judge(japi, recs, shards=1)[0]
    print("judge code:", code)
    if code != 0:
        print("VIOLATION property=%s replay=%s" % (prop, path))
        return 1
    print("replay passes: the judge accepts the implementation's answer on this case")
    return 0


def main():
    args = sys.argv[1:]
    if args and args[0] == "--setup":
        sys.exit(setup())
    prop = args[0].upper()
    tier = os.environ.get("VERIF_TIER", "quick")
    rp = None
    i = 1
    while i < len(args):
        if args[i] in ("quick", "thorough"):
            tier = args[i]
        elif args[i] == "--replay":
            rp = args[i + 1]
            i += 1
        i += 1
    if rp:
        sys.exit(replay(prop, rp))
    seed = vlib.seed_from_env()
    ctx = Ctx(prop, tier, seed)
    os.makedirs(WORK, exist_ok=True)
    t0 = time.time()
    mod = importlib.import_module("props." + prop.lower())
    pr = prove(prop, ctx)
    out_lines = []
    broken = []
    if not pr["ok"]:
        broken.append("proof obligation: Properties_%s.v does not check (%s)" % (prop, pr.get("first_error", pr["log"][-300:])))
    try:
        vlib.build_judge()
        mod.run(ctx)
    except vlib.BuildError as e:
        broken.append("build: " + str(e)[:1500])
    except Exception as e:
        broken.append("harness error: " + "".join(traceback.format_exception_only(type(e), e)).strip()
                      + "\n" + traceback.format_exc()[-1500:])
    known = load_known()
    new, knownhits = [], {}
    for v in ctx.violations:
        k = match_known(known, prop, v.key)
        if k:
            knownhits.setdefault(k, 0)
            knownhits[k] += 1
        else:
            new.append(v)
    for (k, desc), n in knownhits.items():
        print("KNOWN-FINDING: property=%s %s (key=%s, %d case(s) this run)" % (prop, desc, k, n))
    rdir = os.path.join(VERIF, "replays", prop)
    if os.path.isdir(rdir):
        for fn in os.listdir(rdir):
            os.remove(os.path.join(rdir, fn))
    status = 0
    if new or broken:
        os.makedirs(rdir, exist_ok=True)
        status = 1
    seen = set()
    shown = 0
    for v in new:
        h = hashlib.sha1(v.key.encode()).hexdigest()[:12]
        if h in seen:
            continue
        seen.add(h)
        if shown < 8:
            path = os.path.join(rdir, h + ".txt")
            txt = v.replay_text
            if broken:
                txt += "broken_obligations: %s\n" % " | ".join(broken)
            open(path, "w").write(txt)
            print("VIOLATION property=%s replay=%s" % (prop, path))
            print("  " + v.what[:300])
            shown += 1
    if len(seen) > shown:
        print("(%d further distinct violating cases not listed)" % (len(seen) - shown))
    if broken and not new:
        path = os.path.join(rdir, "broken-%s.txt" % hashlib.sha1(" ".join(broken).encode()).hexdigest()[:10])
        open(path, "w").write("property: %s\napi: -\nwhat: the property is no longer shown to hold; no failing input found by "
                              "the correspondence search (%d cases)\nbroken: %s\nlog_tail:\n%s\n"
                              % (prop, ctx.evaluations, "\n        ".join(broken), pr["log"][-2500:]))
        print("VIOLATION property=%s replay=%s no-failing-input-found" % (prop, path))
    for b in broken:
        print("BROKEN: " + b[:2000])
    ev = {
        "property_id": prop, "tier": tier, "seed": seed, "level": getattr(mod, "LEVEL", "proof"),
        "coverage": {
            "obligations": pr["obligations"], "discharged": pr["discharged"],
            "theorems": pr["theorems"],
            "checker_cmd": "cd coq && coq_makefile -f _CoqProject -o Makefile && make -k -j16 Properties_%s.vo Extract.vo" % prop,
            "trusted_base": TRUSTED_BASE_COMMON + getattr(mod, "TRUSTED", []) +
                            ["axioms reported by Print Assumptions for the theorems of Properties_%s.v: %s"
                             % (prop, ", ".join(pr["axioms"]) if pr["axioms"] else "none (closed under the global context)")],
            "evaluations": ctx.evaluations, "distinct_nontrivial": len(ctx.nontrivial),
            "rule": getattr(mod, "RULE", ""), "samples": ctx.samples[:12],
            "families": ctx.families, "notes": ctx.notes,
            "known_findings_hit": [{"key": k, "what": d, "cases": n} for (k, d), n in knownhits.items()],
            "exhaustive": False,
        },
        "assumptions": getattr(mod, "ASSUMPTIONS", []),
        "wall_s": round(time.time() - t0, 2),
        "violations": len(seen) + (1 if broken and not new else 0),
    }
    os.makedirs(os.path.join(VERIF, "evidence"), exist_ok=True)
    json.dump(ev, open(os.path.join(VERIF, "evidence", prop + ".json"), "w"), indent=1)
    print("%s %s: %d cases, %d distinct non-trivial, %d theorem(s) checked, %d violation(s), %.1fs"
          % (prop, tier, ctx.evaluations, len(ctx.nontrivial), pr["discharged"], ev["violations"], time.time() - t0))
    sys.exit(status)


if __name__ == "__main__":
    main()
