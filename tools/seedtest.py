#!/usr/bin/env python3
"""seedtest.py [<dir> ...]   — run the checks against the seeded defects kept under /verif/seeded/.

For every /verif/seeded/<name>/ (patch.diff + meta.json) the patch is applied to /repo's working tree
(git -C /repo apply), the quick checks named in meta.json["checks"] (default: the property the defect was written
for) are run, and the patch is undone again (git -C /repo checkout -- .) whatever happens.  A defect counts as caught
by a check if the check exits 1 and prints a VIOLATION line.  Results go to /verif/seeded/RESULTS.json and to stdout.
Nothing here is part of the registered checks; /repo is left exactly as it was found.
"""
import os, sys, json, subprocess, time

VERIF = os.path.dirname(os.path.dirname(os.path.abspath(__file__)))
REPO = os.environ.get("VERIF_REPO", "/repo")
SEEDED = os.path.join(VERIF, "seeded")


def sh(cmd, **kw):
    return subprocess.run(cmd, shell=isinstance(cmd, str), capture_output=True, text=True, **kw)


def clean():
    return sh(["git", "-C", REPO, "status", "--porcelain", "--untracked-files=no"]).stdout.strip() == ""


def run_one(name, tier="quick"):
    d = os.path.join(SEEDED, name)
    meta = json.load(open(os.path.join(d, "meta.json")))
    checks = meta.get("checks") or [meta["property"]]
    res = {"name": name, "property": meta["property"], "checks": {}}
    if not clean():
        raise SystemExit("/repo has local modifications; refusing to apply seeded patches")
    r = sh(["git", "-C", REPO, "apply", os.path.join(d, "patch.diff")])
    if r.returncode != 0:
        res["error"] = "patch does not apply: " + r.stderr[:300]
        return res
    try:
        for c in checks:
            t0 = time.time()
            p = sh(["python3", os.path.join(VERIF, "tools", "check.py"), c, tier], cwd=VERIF, timeout=7200)
            viol = [l for l in p.stdout.split("\n") if l.startswith("VIOLATION")]
            res["checks"][c] = {"exit": p.returncode, "violations": len(viol), "first": (viol[0] if viol else ""),
                                "caught": p.returncode == 1 and bool(viol), "wall_s": round(time.time() - t0, 1),
                                "tail": p.stdout[-600:]}
    finally:
        sh(["git", "-C", REPO, "checkout", "--", "."])
        # generated files follow /repo's text: bring them back to the clean tree
        sh([sys.executable, os.path.join(VERIF, "tools", "c2gallina.py")])
    return res


def main():
    names = sys.argv[1:] or sorted(n for n in os.listdir(SEEDED) if os.path.isdir(os.path.join(SEEDED, n)))
    out = []
    for n in names:
        r = run_one(n)
        out.append(r)
        print(n, {c: ("CAUGHT" if v["caught"] else "missed (exit %s)" % v["exit"]) for c, v in r.get("checks", {}).items()},
              r.get("error", ""))
        sys.stdout.flush()
    path = os.path.join(SEEDED, "RESULTS.json")
    old = []
    if os.path.exists(path):
        old = [r for r in json.load(open(path)) if r["name"] not in names]
    json.dump(old + out, open(path, "w"), indent=1)
    # the evidence files were rewritten by runs on a modified tree: regenerate is the caller's business
    print("note: evidence/*.json of the listed properties now describe runs on the seeded trees; rerun the checks on the "
          "clean tree before committing evidence")


if __name__ == "__main__":
    main()
