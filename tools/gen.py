"""Case generators shared by the property modules. Every random choice derives from a vlib.Rng."""
import itertools
from vlib import mat_line, all_matrices, rand_matrix, transpose

STRATEGIES = {"D3": 34, "Y3": 35, "DP": 18, "YP": 19, "P3": 33}

# cfg vector layout: see harness/drive.c (NCFG = 17)
def cfg(algorithm=0, ternary=1, camionFirst=1, naive=0, stopIrr=0, stopNG=0, stopNC=0, stopNeither=0, sp=1, planar=0,
        direct=1, prefer=1, strategy=34, leafGraphs=0, allGraphs=0, wantSub=0, wantTree=0):
    return [algorithm, ternary, camionFirst, naive, stopIrr, stopNG, stopNC, stopNeither, sp, planar, direct, prefer,
            strategy, leafGraphs, allGraphs, wantSub, wantTree]


def cfg_line(c):
    return " ".join(str(x) for x in c)


def rand_cfg(rng, algorithm=None, stopflags=False, wantSub=None):
    a = rng.choice([0, 0, 0, 1, 2]) if algorithm is None else algorithm
    tern = rng.below(2)
    c = cfg(algorithm=a, ternary=tern, camionFirst=rng.below(2), naive=rng.below(2),
            stopIrr=rng.below(2), sp=rng.below(2), planar=rng.below(2), direct=rng.below(2), prefer=rng.below(2),
            strategy=rng.choice(list(STRATEGIES.values())),
            wantSub=(rng.below(2) if wantSub is None else wantSub))
    if stopflags:
        c[5], c[6], c[7] = rng.below(2), rng.below(2), rng.below(2)
    return c


def decomposition_cfgs():
    """covering set over the decomposition parameters used on exhaustive small shapes"""
    out = []
    for tern, cf in ((1, 1), (0, 1), (0, 0)):
        for strat in STRATEGIES.values():
            for direct in (0, 1):
                for sp in (0, 1):
                    out.append(cfg(ternary=tern, camionFirst=cf, strategy=strat, direct=direct, sp=sp))
    return out


# ---------- structured instances ----------

def network_matrix(rng, nnodes, ncols, reorient=True):
    """M(D,T) for a random directed tree on nnodes nodes (rows = tree arcs) and ncols random non-tree arcs."""
    parent = [None] + [rng.below(i) for i in range(1, nnodes)]
    # tree arc i-1 joins i and parent[i]; direction random
    up = [None] + [rng.below(2) for _ in range(1, nnodes)]   # 1: arc points from i to parent

    def path_to_root(v):
        p = []
        while v != 0:
            p.append(v)
            v = parent[v]
        return p

    cols = []
    for _ in range(ncols):
        u, v = rng.below(nnodes), rng.below(nnodes)
        col = [0] * (nnodes - 1)
        pu, pv = path_to_root(u), path_to_root(v)
        su, sv = set(pu), set(pv)
        # path from u to v in tree: up from u to lca, down to v
        for x in pu:
            if x not in sv:
                col[x - 1] += 1 if up[x] else -1
        for x in pv:
            if x not in su:
                col[x - 1] += -1 if up[x] else 1
        cols.append(col)
    m, n = nnodes - 1, ncols
    return [[cols[j][i] for j in range(n)] for i in range(m)]


R10 = [[1, 0, 0, 1, 1], [1, 1, 0, 0, 1], [0, 1, 1, 0, 1], [0, 0, 1, 1, 1], [1, 1, 1, 1, 1]]
R10_TU = R10   # this representation is totally unimodular as it stands (verified by brute force)
R10_CYC = [[1, -1, 0, 0, -1], [-1, 1, -1, 0, 0], [0, -1, 1, -1, 0], [0, 0, -1, 1, -1], [-1, 0, 0, -1, 1]]
R12 = [[1, 0, 1, 1, 0, 0], [0, 1, 1, 1, 0, 0], [1, 0, 1, 0, 1, 1], [0, 1, 0, 1, 1, 1], [1, 0, 1, 0, 1, 0], [0, 1, 0, 1, 0, 1]]
F7 = [[1, 1, 0, 1], [1, 0, 1, 1], [0, 1, 1, 1]]
K33_DUAL = None


def permute(rng, M):
    m, n = len(M), len(M[0]) if M else 0
    rp = rng.shuffle(list(range(m)))
    cp = rng.shuffle(list(range(n)))
    return [[M[rp[i]][cp[j]] for j in range(n)] for i in range(m)]


def scale(rng, M):
    m, n = len(M), len(M[0]) if M else 0
    rs = [rng.choice([1, -1]) for _ in range(m)]
    cs = [rng.choice([1, -1]) for _ in range(n)]
    return [[M[i][j] * rs[i] * cs[j] for j in range(n)] for i in range(m)]


def corrupt(rng, M, alphabet=(-1, 0, 1)):
    m, n = len(M), len(M[0]) if M else 0
    if m == 0 or n == 0:
        return M
    i, j = rng.below(m), rng.below(n)
    R = [r[:] for r in M]
    choices = [a for a in alphabet if a != R[i][j]]
    R[i][j] = rng.choice(choices)
    return R


def block_diag(A, B):
    ma, na = len(A), len(A[0]) if A else 0
    mb, nb = len(B), len(B[0]) if B else 0
    return [A[i] + [0] * nb for i in range(ma)] + [[0] * na + B[i] for i in range(mb)]


def two_sum(A, B, ra, cb):
    """2-sum: [A' 0; d c^T  B'] with a = row ra of A removed..., simple variant: last row of A is c^T, first column of B is d."""
    ma, na = len(A), len(A[0])
    mb, nb = len(B), len(B[0])
    a_rows = [A[i] for i in range(ma) if i != ra]
    crow = A[ra]
    dcol = [B[i][cb] for i in range(mb)]
    b_cols = [[B[i][j] for j in range(nb) if j != cb] for i in range(mb)]
    top = [r + [0] * (nb - 1) for r in a_rows]
    bot = [[dcol[i] * crow[j] for j in range(na)] + b_cols[i] for i in range(mb)]
    return top + bot


def add_sp_lines(rng, M, k, ternary=True):
    """extend by k zero / unit / (negated) copy rows or columns"""
    M = [r[:] for r in M]
    for _ in range(k):
        m, n = len(M), len(M[0]) if M else 0
        kind = rng.below(3)
        sign = rng.choice([1, -1]) if ternary else 1
        if rng.below(2) == 0 or n == 0:   # row
            if kind == 0 or n == 0 or m == 0:
                new = [0] * n
            elif kind == 1:
                new = [0] * n
                new[rng.below(n)] = sign
            else:
                src = M[rng.below(m)]
                new = [sign * x for x in src]
            M.insert(rng.below(m + 1), new)
        else:
            if kind == 0 or m == 0:
                new = [0] * m
            elif kind == 1:
                new = [0] * m
                new[rng.below(m)] = sign
            else:
                j = rng.below(n)
                new = [sign * M[i][j] for i in range(m)]
            pos = rng.below(n + 1)
            for i in range(m):
                M[i].insert(pos, new[i])
    return M


def structured(rng, maxdim=7, ternary=True):
    """a structured instance of bounded size: network matrix / R10 / R12 / F7 family, possibly summed, permuted,
    scaled, SP-extended and corrupted"""
    kind = rng.below(8)
    if kind <= 2:
        nn = 3 + rng.below(maxdim - 2)
        M = network_matrix(rng, nn, 2 + rng.below(maxdim - 1))
    elif kind == 3:
        M = [r[:] for r in (R10_TU if rng.below(2) else R10_CYC)]
    elif kind == 4:
        M = [r[:] for r in R12]
    elif kind == 5:
        M = [r[:] for r in F7] if rng.below(2) else transpose(F7, 3, 4)
    elif kind == 6:
        A = network_matrix(rng, 3 + rng.below(3), 2 + rng.below(3))
        B = network_matrix(rng, 3 + rng.below(3), 2 + rng.below(3))
        M = block_diag(A, B)
    else:
        A = network_matrix(rng, 4 + rng.below(2), 3 + rng.below(2))
        B = network_matrix(rng, 4 + rng.below(2), 3 + rng.below(2))
        M = two_sum(A, B, rng.below(len(A)), rng.below(len(B[0])))
    if not ternary:
        M = [[abs(x) for x in r] for r in M]
    if rng.below(3) == 0:
        M = add_sp_lines(rng, M, 1 + rng.below(2), ternary)
    # trim to maxdim
    M = [r[:maxdim] for r in M[:maxdim]]
    if rng.below(2):
        M = permute(rng, M)
    if ternary and rng.below(2):
        M = scale(rng, M)
    if rng.below(3) == 0:
        M = corrupt(rng, M, (-1, 0, 1) if ternary else (0, 1))
    return M


def r10_pattern_matrices():
    """all 5x5 0/1 matrices that pass the row/column count test of regularity_r10.c:
    every line has 3 ones, or four lines have 3 and one has 5 (rows and columns independently)"""
    out = []
    rows3 = [r for r in itertools.product((0, 1), repeat=5) if sum(r) == 3]
    rows5 = [(1, 1, 1, 1, 1)]

    def ok_cols(M):
        cs = sorted(sum(M[i][j] for i in range(5)) for j in range(5))
        return cs == [3, 3, 3, 3, 3] or cs == [3, 3, 3, 3, 5]

    def rec(prefix, pool_list):
        if len(prefix) == 5:
            if ok_cols(prefix):
                out.append([list(r) for r in prefix])
            return
        k = len(prefix)
        for r in pool_list[k]:
            # prune: column sums must stay <= 5 and be able to reach 3
            cs = [sum(p[j] for p in prefix) + r[j] for j in range(5)]
            rem = 4 - k
            if any(c + rem < 3 for c in cs):
                continue
            rec(prefix + [r], pool_list)

    rec([], [rows3] * 5)
    for pos in range(5):
        pools = [rows3] * 5
        pools = pools[:pos] + [rows5] + pools[pos + 1:]
        rec([], pools)
    return out


def passes_r10_count(entries):
    """entries: 25 tokens of a 5x5 matrix; the count test of regularity_r10.c on the support"""
    M = [[1 if entries[5 * i + j] not in ("0", 0) else 0 for j in range(5)] for i in range(5)]
    rs = sorted(sum(r) for r in M)
    cs = sorted(sum(M[i][j] for i in range(5)) for j in range(5))
    ok = ([3, 3, 3, 3, 3], [3, 3, 3, 3, 5])
    return rs in ok and cs in ok


def graph_instance(rng, nv, ne, signed, loops=True, edges=None, forest_first=None, rev=None, forest_order=None, coforest_order=None):
    """random multi(di)graph with a random spanning forest; returns (M, witness_tokens) where M = M(G,T) (signed: with
    arc reversals applied) with rows in a random order of the forest edges and columns in a random order of the others;
    witness_tokens = '1 <graph> <forest ids> <coforest ids> <rev ids>' in the format of GraphModel.dwitness"""
    if edges is None:
        edges = []
        for e in range(ne):
            u = rng.below(nv)
            v = rng.below(nv)
            if not loops:
                while v == u and nv > 1:
                    v = rng.below(nv)
            edges.append((u, v))
    else:
        edges = list(edges)
        ne = len(edges)
    if rev is None:
        rev = [e for e in range(ne) if signed and rng.below(3) == 0]
    arcs = [((v, u) if e in rev else (u, v)) for e, (u, v) in enumerate(edges)]
    # random spanning forest by union-find over a shuffled edge order
    comp = list(range(nv))

    def find(x):
        while comp[x] != x:
            comp[x] = comp[comp[x]]
            x = comp[x]
        return x
    order = rng.shuffle(list(range(ne)))
    if forest_first is not None:
        order = list(forest_first) + [e for e in order if e not in set(forest_first)]
    forest = []
    for e in order:
        u, v = edges[e]
        a, b = find(u), find(v)
        if a != b:
            comp[a] = b
            forest.append(e)
    fset = set(forest)
    coforest = [e for e in rng.shuffle(list(range(ne))) if e not in fset]
    forest = rng.shuffle(forest)
    if forest_order is not None:
        assert sorted(forest_order) == sorted(forest)
        forest = list(forest_order)
    if coforest_order is not None:
        assert sorted(coforest_order) == sorted(coforest)
        coforest = list(coforest_order)
    adj = {x: [] for x in range(nv)}
    for e in forest:
        u, v = arcs[e]
        adj[u].append((v, e, 1))    # traversing u->v is forward
        adj[v].append((u, e, -1))

    def path(s, t):
        # BFS in the forest
        prev = {s: None}
        q = [s]
        while q:
            x = q.pop(0)
            if x == t:
                break
            for (y, e, sg) in adj[x]:
                if y not in prev:
                    prev[y] = (x, e, sg)
                    q.append(y)
        res = {}
        x = t
        while prev.get(x) is not None:
            px, e, sg = prev[x]
            res[e] = sg
            x = px
        return res
    rowidx = {e: i for i, e in enumerate(forest)}
    M = [[0] * len(coforest) for _ in forest]
    for j, f in enumerate(coforest):
        u, v = arcs[f]
        for e, sg in path(u, v).items():
            M[rowidx[e]][j] = sg if signed else 1
    toks = [1, nv] + list(range(nv)) + [ne]
    for e, (u, v) in enumerate(edges):
        toks += [e, u, v]
    toks += [len(forest)] + forest + [len(coforest)] + coforest + [len(rev)] + rev
    return M, " ".join(str(t) for t in toks)


F7T = [[1, 1, 0], [1, 0, 1], [0, 1, 1], [1, 1, 1]]
K33_DUAL = [[1, 0, 0, 1, 1], [1, 1, 0, 0, 1], [0, 1, 1, 0, 1], [0, 0, 1, 1, 1]]   # candidate non-graphic 4x5 core; confirmed by the oracle at run time


def embed_core(rng, core, extra_rows, extra_cols, alphabet=(0, 1)):
    """embed `core` as a submatrix (increasing index lists) of a random larger matrix; returns (M, rs, cs)"""
    m0, n0 = len(core), len(core[0])
    m, n = m0 + extra_rows, n0 + extra_cols
    rs = sorted(rng.shuffle(list(range(m)))[:m0])
    cs = sorted(rng.shuffle(list(range(n)))[:n0])
    M = rand_matrix(rng, m, n, alphabet, 3, 10)
    for a, i in enumerate(rs):
        for b, j in enumerate(cs):
            M[i][j] = core[a][b]
    return M, rs, cs


def rank_gf(M, p):
    """rank of an integer matrix over GF(p)"""
    A = [[x % p for x in r] for r in M]
    m = len(A)
    n = len(A[0]) if A else 0
    rk = 0
    for c in range(n):
        piv = None
        for r in range(rk, m):
            if A[r][c] % p:
                piv = r
                break
        if piv is None:
            continue
        A[rk], A[piv] = A[piv], A[rk]
        inv = pow(A[rk][c], p - 2, p)
        A[rk] = [(x * inv) % p for x in A[rk]]
        for r in range(m):
            if r != rk and A[r][c] % p:
                f = A[r][c]
                A[r] = [(x - f * y) % p for x, y in zip(A[r], A[rk])]
        rk += 1
        if rk == m:
            break
    return rk


def sepa_profile(M, rowpart, colpart, p):
    """ranks (top-right, bottom-left) of the off-diagonal blocks over GF(2) of the support and, for p = 3, over GF(3)"""
    m, n = len(M), len(M[0]) if M else 0
    r1 = [i for i in range(m) if rowpart[i] == 0]
    r2 = [i for i in range(m) if rowpart[i] == 1]
    c1 = [j for j in range(n) if colpart[j] == 0]
    c2 = [j for j in range(n) if colpart[j] == 1]
    B = [[M[i][j] for j in c2] for i in r1]
    C = [[M[i][j] for j in c1] for i in r2]
    sup = lambda X: [[1 if x else 0 for x in r] for r in X]
    b2, c2r = (rank_gf(sup(B), 2) if B and B[0] else 0), (rank_gf(sup(C), 2) if C and C[0] else 0)
    if p == 3:
        b3, c3 = (rank_gf(B, 3) if B and B[0] else 0), (rank_gf(C, 3) if C and C[0] else 0)
        if (b2, c2r) != (b3, c3):
            return None
    return (b2, c2r), (len(r1), len(c1), len(r2), len(c2))


def insert_line(M, pos, line, is_row):
    if is_row:
        return M[:pos] + [line] + M[pos:]
    return [r[:pos] + [line[i]] + r[pos:] for i, r in enumerate(M)]


# ---------------------------------------------------------------------------------------------------------------
# binary 3-sums of a graphic and a cographic matroid along a triangle / triad: regular, 3-connected for suitable graphs,
# in general neither graphic nor cographic, so the decomposition has to run the nested-minor sequence and the
# 3-separation search (construction: fundamental-cycle matrices M1 = [A a a; c 0 1], M2 = [1 0 b; d d B],
# result [A a b^T; d c^T B])

def _fund_matrix(n, edges, tree):
    adj = {v: [] for v in range(n)}
    for i in tree:
        u, v = edges[i]
        adj[u].append((v, i))
        adj[v].append((u, i))

    def path(s, t):
        stack = [(s, -1, [])]
        while stack:
            x, p, pe = stack.pop()
            if x == t:
                return pe
            for (y, i) in adj[x]:
                if y != p:
                    stack.append((y, x, pe + [i]))
        raise ValueError("no path")
    nontree = [i for i in range(len(edges)) if i not in tree]
    rowidx = {e: k for k, e in enumerate(tree)}
    M = [[0] * len(nontree) for _ in tree]
    for c, i in enumerate(nontree):
        u, v = edges[i]
        for e in path(u, v):
            M[rowidx[e]][c] = 1
    return M, nontree


def _grow_tree(rng, n, edges, allowed, seen, tree):
    grow = True
    while grow:
        grow = False
        for i in rng.shuffle(list(allowed)):
            u, v = edges[i]
            if (u in seen) != (v in seen):
                seen.update((u, v))
                tree.append(i)
                grow = True
                break
    return tree, seen


def threesum_graphic_cographic(rng, n1=None, g2=None, drop=None, perm=True):
    """returns a binary matrix, or None if the random choices do not give the required shape"""
    n1 = n1 or (5 + rng.below(2))
    E1 = [(i, j) for i in range(n1) for j in range(i + 1, n1)]
    cand = rng.shuffle([e for e in E1 if not (e[0] < 3 and e[1] < 3)])
    for e in cand[:(rng.below(3) if drop is None else drop)]:
        E1.remove(e)
    g2 = g2 or rng.choice(["k33", "m3", "m4", "petersen"])
    if g2 == "k33":
        n2, E2 = 6, [(i, j) for i in range(3) for j in range(3, 6)]
    elif g2 == "petersen":
        n2 = 10
        E2 = [(i, (i + 1) % 5) for i in range(5)] + [(i, i + 5) for i in range(5)] + [(5 + i, 5 + (i + 2) % 5) for i in range(5)]
    else:
        k = int(g2[1:])
        n2 = 2 * k
        E2 = [(i, (i + 1) % n2) for i in range(n2)] + [(i, i + k) for i in range(k)]
    try:
        u, v, w = rng.shuffle([0, 1, 2])
        ei = {frozenset(e): i for i, e in enumerate(E1)}
        r, x, y = ei[frozenset((u, v))], ei[frozenset((v, w))], ei[frozenset((u, w))]
        allowed = [i for i, e in enumerate(E1) if u not in e and i != x]
        tree, seen = _grow_tree(rng, n1, E1, allowed, {v}, [])
        if len(seen) != n1 - 1:
            return None
        tree = tree + [r]
        M, nontree = _fund_matrix(n1, E1, tree)
        cx, cy = nontree.index(x), nontree.index(y)
        order = [c for c in range(len(nontree)) if c not in (cx, cy)] + [cx, cy]
        M = [[row[c] for c in order] for row in M]
        if not (M[-1][-2] == 0 and M[-1][-1] == 1 and all(M[i][-2] == M[i][-1] for i in range(len(M) - 1))):
            return None
        A, a, c = [row[:-2] for row in M[:-1]], [row[-1] for row in M[:-1]], M[-1][:-2]
        z = rng.below(n2)
        inc = rng.shuffle([i for i, e in enumerate(E2) if z in e])
        if len(inc) != 3:
            return None
        xp, yp, rp = inc
        seen = {z}
        for i in (xp, yp):
            seen.update(E2[i])
        tree, seen = _grow_tree(rng, n2, E2, [i for i, e in enumerate(E2) if z not in e], seen, [xp, yp])
        if len(seen) != n2 or len(tree) != n2 - 1:
            return None
        N, nontree = _fund_matrix(n2, E2, tree)
        cr = nontree.index(rp)
        order = [cr] + [c for c in range(len(nontree)) if c != cr]
        N = [[row[c] for c in order] for row in N]
        M2 = [[N[i][j] for i in range(len(N))] for j in range(len(N[0]))]
        if M2[0][0] == 0:
            for row in M2:
                row[0], row[1] = row[1], row[0]
        if not (M2[0][0] == 1 and M2[0][1] == 0 and all(M2[i][0] == M2[i][1] for i in range(1, len(M2)))):
            return None
        b, d, B = M2[0][2:], [row[0] for row in M2[1:]], [row[2:] for row in M2[1:]]
    except (ValueError, KeyError):
        return None
    R = [ra + [a[i] & bj for bj in b] for i, ra in enumerate(A)] + [[d[i] & cj for cj in c] + rb for i, rb in enumerate(B)]
    if perm:
        R = permute(rng, R)
    return R


# ---------------------------------------------------------------------------------------------------------------
# ternary presentations of regular matroids: Camion-signed by the library itself (api tu_signed echoes the signed
# matrix), then pivoted / permuted / scaled here.  Nothing about these seeds is trusted: judges compare every
# presentation with the oracle (C01) or only with each other (C10).

def ternary_pivot(M, r, c):
    m, n = len(M), len(M[0])
    pv = M[r][c]
    N = [[0] * n for _ in range(m)]
    for i in range(m):
        for j in range(n):
            if i == r and j == c:
                v = -pv
            elif i == r or j == c:
                v = -M[i][j] if pv == -1 else M[i][j]
            else:
                v = M[i][j] - pv * M[i][c] * M[r][j]
            v = ((v % 3) + 3) % 3
            N[i][j] = -1 if v == 2 else v
    return N


def library_signed(exe, mats):
    """Camion-signed versions of 0/1 matrices, as computed by the library under test (parsed from tu_signed records)"""
    import vlib
    lines = [cfg_line(cfg()) + " " + vlib.mat_line(M) for M in mats]
    recs, _ = vlib.run_drive(exe, "tu_signed", lines)
    out = []
    for M, r in zip(mats, recs):
        if r is None:
            continue
        t = [int(x) for x in r.split()]
        pos = 1 + t[0]
        m, n = t[pos], t[pos + 1]
        ent = t[pos + 2: pos + 2 + m * n]
        if m != len(M) or n != len(M[0]) or len(ent) != m * n:
            continue
        out.append([ent[i * n:(i + 1) * n] for i in range(m)])
    return out


def deep_binary_seeds(rng, count, maxcells=None):
    out = [[r[:] for r in R12], [r[:] for r in R10], [[abs(x) for x in r] for r in R10_CYC]]
    tries = 0
    while len(out) < count and tries < 40 * count:
        tries += 1
        M = threesum_graphic_cographic(rng)
        if M and (maxcells is None or len(M) * len(M[0]) <= maxcells):
            out.append(M)
    return [[[abs(x) for x in r] for r in M] for M in out]


def pivoted_presentation(rng, M, npiv):
    for _ in range(npiv):
        nz = [(i, j) for i in range(len(M)) for j in range(len(M[0])) if M[i][j] != 0]
        if not nz:
            break
        r, c = rng.choice(nz)
        M = ternary_pivot(M, r, c)
    M = permute(rng, M)
    if rng.below(2):
        M = scale(rng, M)
    return M


# ---------------------------------------------------------------------------------------------------------------
# graphs glued from 3-connected pieces along edges (2-sums of rigid components, with series and parallel classes):
# the shapes on which the SPQR-style typing code of the graphicness test has its case distinctions

def _piece(rng):
    k = rng.below(6)
    if k == 0:
        n = 4
        E = [(i, j) for i in range(4) for j in range(i + 1, 4)]                     # K4
    elif k == 1:
        n = 5
        E = [(i, j) for i in range(5) for j in range(i + 1, 5)]                     # K5
    elif k == 2:
        r = 3 + rng.below(4)
        n = r + 1
        E = [(i, (i + 1) % r) for i in range(r)] + [(i, r) for i in range(r)]       # wheel
    elif k == 3:
        r = 3 + rng.below(2)
        n = 2 * r
        E = [(i, (i + 1) % r) for i in range(r)] + [(r + i, r + (i + 1) % r) for i in range(r)] + [(i, r + i) for i in range(r)]  # prism
    elif k == 4:
        n = 6
        E = [(i, j) for i in range(3) for j in range(3, 6)]                         # K33
    else:
        r = 3 + rng.below(3)
        n = r
        E = [(i, (i + 1) % r) for i in range(r)]                                    # polygon (series class)
    return n, E


def glued_graph(rng, pieces=None):
    """edge list of a graph obtained by gluing 2..5 pieces along edges; the glue edge is kept, doubled or deleted"""
    n, E = _piece(rng)
    E = list(E)
    for _ in range(pieces if pieces is not None else 1 + rng.below(4)):
        if not E:
            break
        n2, E2 = _piece(rng)
        a, b = rng.choice(E)
        c, d = rng.choice(E2)
        if rng.below(2):
            c, d = d, c
        ren = {}
        nxt = n
        for v in range(n2):
            if v == c:
                ren[v] = a
            elif v == d:
                ren[v] = b
            else:
                ren[v] = nxt
                nxt += 1
        n = nxt
        mode = rng.below(3)
        new = [(ren[u], ren[v]) for (u, v) in E2 if {u, v} != {c, d}]
        if mode == 0:
            E.remove((a, b))            # proper 2-sum: the marker edge disappears
        elif mode == 2:
            E.append((a, b))            # parallel class
        E += new
    if rng.below(3) == 0 and E:         # subdivide an edge (series class)
        a, b = rng.choice(E)
        E.remove((a, b))
        E += [(a, n), (n, b)]
        n += 1
    return n, E


def polygon_hub_graph(rng):
    """a long polygon (6..12 edges) with 2..4 pieces glued onto distinct polygon edges (the marker edge deleted or kept): the
    decomposition has a large series member with several children, so that added columns run through two or more consecutive
    series edges between two children (the root-series cases of the column-addition algorithm)"""
    r = 6 + rng.below(7)
    n = r
    E = [(i, (i + 1) % r) for i in range(r)]
    hubs = rng.shuffle(list(range(r)))[:2 + rng.below(3)]
    for h in hubs:
        a, b = h, (h + 1) % r
        n2, E2 = _piece(rng)
        c, d = rng.choice(E2)
        if rng.below(2):
            c, d = d, c
        ren, nxt = {}, n
        for v in range(n2):
            if v == c:
                ren[v] = a
            elif v == d:
                ren[v] = b
            else:
                ren[v] = nxt
                nxt += 1
        n = nxt
        if rng.below(3) != 0 and (a, b) in E:
            E.remove((a, b))
        E += [(ren[u], ren[v]) for (u, v) in E2 if {u, v} != {c, d}]
    for _ in range(rng.below(3)):           # a few chords / extra edges between existing nodes
        u, v = rng.below(n), rng.below(n)
        if u != v:
            E.append((u, v))
    return n, E


# ---------------------------------------------------------------------------------------------------------------
# 3-connectivity of the matroid represented by [I | M] over GF(p): no partition of the elements (rows and columns) into
# two parts with at least 2 elements each (1-separation: at least 1) whose connecting ranks sum to less than 2.
# Exhaustive over all bipartitions; only for m + n <= 14.  Used only to decide where "components of a TU matrix are
# TU" is a theorem (it is one for 3-connected matrices); a 0 withdraws that demand, it never adds one.

_tc_cache = {}


def three_connected(M, p):
    m, n = len(M), len(M[0]) if M else 0
    if m + n > 14 or m == 0 or n == 0:
        return 0
    key = (p, tuple(tuple(r) for r in M))
    if key in _tc_cache:
        return _tc_cache[key]
    # cheap necessary conditions first: no zero, unit or parallel lines
    lines = [tuple(r) for r in M] + [tuple(M[i][j] for i in range(m)) for j in range(n)]
    res = 1
    for v in lines:
        if sum(1 for x in v if x) <= 1:
            res = 0
    if res:
        for vs in (lines[:m], lines[m:]):
            seen = set()
            for v in vs:
                w = tuple(-x for x in v)
                if v in seen or (p == 3 and w in seen):
                    res = 0
                seen.add(v)
    if res:
        N = m + n
        for mask in range(1, 1 << (N - 1)):
            a = bin(mask).count("1")
            if a < 2 or N - a < 2:
                continue
            rowpart = [(mask >> i) & 1 for i in range(m)]
            colpart = [(mask >> (m + j)) & 1 for j in range(n)]
            r1 = [i for i in range(m) if rowpart[i] == 0]
            r2 = [i for i in range(m) if rowpart[i] == 1]
            c1 = [j for j in range(n) if colpart[j] == 0]
            c2 = [j for j in range(n) if colpart[j] == 1]
            B = [[M[i][j] for j in c2] for i in r1]
            C = [[M[i][j] for j in c1] for i in r2]
            rk = (rank_gf(B, p) if B and B[0] else 0) + (rank_gf(C, p) if C and C[0] else 0)
            if rk <= 1:
                res = 0
                break
    _tc_cache[key] = res
    return res


# ---------- edge-list files (doc/file-formats.md "Edge List") ----------
def edgelist_lines(rng, count, maxnodes=7, maxedges=12):
    """cases for the `edgelist` api: well-formed edge-list files mixing labeled and unlabeled edges (row labels r/R/t/T/-,
    column labels c/C/plain number), node names of several shapes (incl. names that are prefixes of each other and
    numeric names), varying whitespace (spaces, tabs, leading/trailing blanks), with and without a final newline, and
    optionally a blank line followed by further text (reading stops at the blank line)"""
    out = []
    namesets = [lambda k: "v%d" % k, lambda k: str(k + 1), lambda k: "n" * (k + 1), lambda k: chr(97 + k),
                lambda k: ("a", "ab", "abc", "b", "ba", "A", "aB", "c1", "r1", "-")[k % 10]]
    for i in range(count):
        nn = 1 + rng.below(maxnodes)
        ne = rng.below(maxedges + 1)
        nm = namesets[rng.below(len(namesets))]
        mode = rng.below(5)        # 0 all unlabeled, 1 all labeled, 2.. mixed
        text = ""
        nrow = ncol = 0
        for e in range(ne):
            u, v = nm(rng.below(nn)), nm(rng.below(nn))
            lab = None
            if mode == 1 or (mode >= 2 and rng.below(2)):
                if rng.below(2):
                    nrow += 1
                    lab = rng.choice(["r", "R", "t", "T", "-"]) + str(nrow if rng.below(4) else rng.below(1000))
                else:
                    ncol += 1
                    lab = rng.choice(["c", "C", ""]) + str(ncol if rng.below(4) else rng.below(1000))
            ws = lambda: rng.choice([" ", " ", "\t", "  ", " \t "])
            lead = rng.choice(["", "", "", " ", "\t"])
            line = lead + u + ws() + v
            if lab is not None:
                line += ws() + lab
            line += rng.choice(["", "", "", " ", "\t", "  "])
            text += line + "\n"
        k = rng.below(8)
        if k == 0 and text:
            text = text[:-1]                       # no final newline
        elif k == 1:
            text += rng.choice(["\n", "  \n", "lonely\n"]) + "x y c9\n"     # reading stops before the further text
        b = [ord(c) for c in text]
        out.append("%d %d %s" % (rng.below(2), len(b), " ".join(map(str, b))))
    return out


EDGELIST_CODES = {1: "malformed record", 310: "edge-list reader failed", 311: "number of nodes differs from the text",
                  312: "edges (end nodes / order / row-column labels) differ from the text", 313: "node labels differ from the text"}


def cligraph_lines(rng, count, maxnodes=7, maxextra=8):
    """cases for cli:cligraph — edge-list files denoting a (di)graph with a spanning forest labeled r1..rk and the other
    edges labeled c1..cl (one file in ten has unlabeled edges: outside the model), lines in random order, label styles and whitespace mixed; one in ten files
    has a label set that is no spanning forest / incomplete (outside the model, must still not crash)"""
    out = []
    namesets = [lambda k: "v%d" % k, lambda k: str(k + 1), lambda k: chr(97 + k), lambda k: ("a", "ab", "abc", "b", "ba", "A", "aB")[k % 7]]
    for i in range(count):
        nn = 1 + rng.below(maxnodes)
        nm = namesets[rng.below(len(namesets))]
        # random forest: each node > 0 attaches to an earlier node with probability 4/5
        comp_edges = []
        for v in range(1, nn):
            if rng.below(5):
                u = rng.below(v)
                comp_edges.append((u, v) if rng.below(2) else (v, u))
        forest = list(comp_edges)
        # components
        comp = list(range(nn))
        def find(x):
            while comp[x] != x:
                x = comp[x]
            return x
        for u, v in forest:
            comp[find(u)] = find(v)
        extra = []
        for _ in range(rng.below(maxextra + 1)):
            u = rng.below(nn)
            cands = [w for w in range(nn) if find(w) == find(u)]
            extra.append((u, rng.choice(cands)))
        edges = [(u, v, -(k + 1)) for k, (u, v) in enumerate(rng.shuffle(forest))]
        col = 0
        unl = rng.below(10) == 0
        for (u, v) in extra:
            if unl and rng.below(3) == 0:
                edges.append((u, v, 0))
            else:
                col += 1
                edges.append((u, v, col))
        if rng.below(10) == 0 and edges:
            k = rng.below(len(edges))
            u, v, e = edges[k]
            edges[k] = (u, v, rng.choice([-e, e + 1, 0, 7]))
        edges = rng.shuffle(edges)
        text = ""
        for (u, v, e) in edges:
            ws = lambda: rng.choice([" ", " ", "\t", "  "])
            line = rng.choice(["", "", " "]) + nm(u) + ws() + nm(v)
            if e < 0:
                line += ws() + rng.choice(["r", "R", "t", "T", "-"]) + str(-e)
            elif e > 0:
                line += ws() + rng.choice(["c", "C", ""]) + str(e)
            text += line + rng.choice(["", "", " "]) + "\n"
        if rng.below(8) == 0 and text:
            text = text[:-1]
        b = [ord(c) for c in text]
        out.append("%d %d %d %d %s" % (rng.below(2), rng.below(2), rng.below(2), len(b), " ".join(map(str, b))))
    return out


CLIGRAPH_CODES = {1: "malformed record", 331: "tool failed on a well-formed edge-list file", 332: "tool wrote no matrix",
                  333: "tool output does not follow the matrix format",
                  334: "tool output is not the representation matrix of the graph, forest and coforest the file denotes"}
CLIMAT_CODES = {1: "malformed record", 320: "cmr-matrix wrote a matrix although the input text is malformed",
                321: "cmr-matrix failed on a well-formed input", 322: "cmr-matrix wrote no output",
                323: "cmr-matrix output does not follow the documented format",
                324: "cmr-matrix output is not the requested submatrix / transpose / support of the input"}


# ---------- pure leaf functions (api `leaf`): fn args ----------
I32MIN, I32MAX = -2147483648, 2147483647
HR = 9223372036854775807 // 8


def leaf_lines(rng, fns, count):
    """defined calls only (no q = INT_MIN, no element index beyond int): boundary values plus random ones"""
    out = []
    small = list(range(-7, 8))
    big32 = [I32MIN + 1, I32MIN + 2, -65537, -4, -3, -2, -1, 0, 1, 2, 3, 4, 5, 6, 65536, I32MAX - 1, I32MAX]
    if 0 in fns or 1 in fns:
        for fn in (0, 1):
            if fn not in fns:
                continue
            for p in small + big32 + [I32MIN]:
                for q in small + [I32MAX, I32MIN + 1, 9, -9]:
                    out.append("%d %d %d" % (fn, p, q))
            for _ in range(count):
                p = rng.choice(big32) if rng.below(4) == 0 else rng.below(2 ** 32) - 2 ** 31
                q = rng.choice([2, 3, -3, -2, 0, 1, -1, 5]) if rng.below(2) else rng.below(2 ** 32) - 2 ** 31
                if q == I32MIN:
                    q = 3
                out.append("%d %d %d" % (fn, p, q))
    if 2 in fns:
        M = 2 * HR - 1
        vals = [0, 1, -1, HR - 1, HR, HR + 1, -(HR - 1), -HR, -HR - 1, M, -M, M + 1, -M - 1, 2 * M, -2 * M, 3 * (HR - 1), -3 * (HR - 1),
                2 * (HR - 1), -2 * (HR - 1), 7 * HR, -(2 ** 63), 9223372036854775807 - HR]
        for v in vals:
            out.append("2 %d" % v)
        for _ in range(count):
            k = rng.below(4)
            if k == 0:
                v = rng.below(2 * HR) - HR
            elif k == 1:
                v = 3 * (rng.below(2 * HR - 1) - HR + 1)
            elif k == 2:
                v = (rng.below(2 * HR - 1) - HR + 1) + rng.choice([-1, 1]) * (rng.below(2 * HR - 1) - HR + 1)
            else:
                v = rng.choice(vals) + rng.below(7) - 3
            v = max(-(2 ** 63), min(v, 9223372036854775807 - HR))
            out.append("2 %d" % v)
    if 11 in fns or 12 in fns or 13 in fns:
        I64MAX = 9223372036854775807
        edge = [0, 1, -1, 2, -2, 3, 4, 5, 6, 12, -12, 2 ** 31, -(2 ** 31), 2 ** 32 + 1, 2 ** 62, -(2 ** 62), I64MAX, -I64MAX, I64MAX - 1,
                -(I64MAX - 1), 2 ** 63 - 25]
        fib = [1, 1]
        while fib[-1] + fib[-2] <= I64MAX:
            fib.append(fib[-1] + fib[-2])
        pairs = [(x, y) for x in edge for y in edge]
        pairs += [(fib[-1], fib[-2]), (fib[-2], fib[-1]), (-fib[-1], fib[-2]), (fib[-1], -fib[-2]), (fib[-3], fib[-1])]
        for _ in range(count):
            k = rng.below(5)
            if k == 0:
                x, y = rng.below(2 ** 64) - 2 ** 63, rng.below(2 ** 64) - 2 ** 63
            elif k == 1:      # a properly divides b, b divides a: the cases where a cofactor is zero
                x = rng.below(2 ** 31) - 2 ** 30
                y = x * (rng.below(2 ** 31) - 2 ** 30)
                if rng.below(2):
                    x, y = y, x
            elif k == 2:      # a large common divisor
                g = 1 + rng.below(2 ** 30)
                x, y = g * (rng.below(2 ** 32) - 2 ** 31), g * (rng.below(2 ** 32) - 2 ** 31)
            elif k == 3:      # consecutive Fibonacci numbers: the longest runs of the loop
                i = 2 + rng.below(len(fib) - 2)
                x, y = fib[i] * rng.choice([1, -1]), fib[i - 1] * rng.choice([1, -1])
                if rng.below(2):
                    x, y = y, x
            else:
                x, y = rng.below(2001) - 1000, rng.below(2001) - 1000
            pairs.append((x, y))
        for x, y in pairs:
            x = max(-I64MAX, min(I64MAX, x))      # INT64_MIN is outside the defined domain (GcdProofs.gcdExt_min_*)
            y = max(-I64MAX, min(I64MAX, y))
            for fn in (11, 12, 13):
                if fn in fns:
                    out.append("%d %d %d" % (fn, x, y))
    if 14 in fns:
        vals = [0, 1, 2, 3, 4, 5, 7, 8, 9, 2 ** 31, 2 ** 31 + 1, 2 ** 32 - 1, 2 ** 32, 2 ** 62, 2 ** 62 + 1, 2 ** 63 - 1, 2 ** 63]
        vals += [2 ** k + d for k in range(2, 63) for d in (-1, 0, 1)]
        for _ in range(count):
            k = rng.below(64)
            vals.append(min(2 ** 63, (2 ** k) + rng.below(2 ** k)))
        for v in vals:
            out.append("14 %d" % v)      # x > 2^63 (result 0 by wrap-around) does not fit the harness's signed token reader
    for fn in (3, 6, 8):
        if fn in fns:
            for e in small + big32 + [I32MIN]:
                out.append("%d %d" % (fn, e))
    for fn, lo, hi in ((4, 0, I32MAX), (5, 0, I32MAX - 1), (7, I32MIN, -1), (9, 1, I32MAX), (10, I32MIN + 1, I32MAX)):
        if fn in fns:
            for e in [lo, lo + 1, lo + 2, hi - 1, hi] + [x for x in small + big32 if lo <= x <= hi]:
                out.append("%d %d" % (fn, e))
            for _ in range(count // 4):
                out.append("%d %d" % (fn, lo + rng.below(hi - lo + 1)))
    return out


LEAF_CODES = {1: "malformed record", 340: "call is undefined behaviour by the translated C text",
              341: "function translated from the C text and compiled function disagree (translator / semantics)",
              342: "leaf function violates its specification"}


# ---------- verdict lines of the recognition tools (cli:cliverdict) ----------
def _mat_text(rng, M, fmt):
    m, n = len(M), (len(M[0]) if M else 0)
    if fmt == 0:
        return "%d %d\n" % (m, n) + "".join(" ".join(str(x) for x in r) + "\n" for r in M)
    tr = [(i + 1, j + 1, M[i][j]) for i in range(m) for j in range(n) if M[i][j] != 0]
    rng.shuffle(tr)
    return "%d %d %d\n" % (m, n, len(tr)) + "".join("%d %d %d\n" % t for t in tr)


def cliverdict_lines(rng, tool, nvariants, count, alpha, maxm, maxn, maxcells, structured_ternary=None, variants=None, tool_id=None):
    """cases `tool variant infmt nin bytes..` for one tool: random small matrices over `alpha` within the size the
    definition-level oracle decides, a third of them structured (network / SP / sums) when structured_ternary is given"""
    import vlib
    out = []
    for i in range(count):
        if structured_ternary is not None and i % 3 == 0:
            M = structured(rng, max(maxm, maxn), structured_ternary)
            if not M or not M[0] or len(M) > maxm or len(M[0]) > maxn or len(M) * len(M[0]) > maxcells:
                M = None
        else:
            M = None
        if M is None:
            m, n = 1 + rng.below(maxm), 1 + rng.below(maxn)
            while m * n > maxcells:
                m, n = 1 + rng.below(maxm), 1 + rng.below(maxn)
            M = vlib.rand_matrix(rng, m, n, alpha, 2 + rng.below(7), 10)
        fmt = rng.below(2)
        b = [ord(c) for c in _mat_text(rng, M, fmt)]
        v = rng.choice(variants) if variants else rng.below(nvariants)
        out.append("%d %d %d %d %s" % (tool if tool_id is None else tool_id, v, fmt, len(b), " ".join(map(str, b))))
    return out


CLISUB_CODES = {1: "malformed record", 370: "tool failed on a well-formed matrix file",
                371: "written submatrix file is unreadable or not a submatrix of the input",
                372: "written submatrix is not a violator of the required kind",
                373: "no violating submatrix written although the matrix does not have the property",
                374: "a violating submatrix written although the matrix has the property",
                375: "written reduced submatrix is not the irreducible remainder of the matrix"}
CLIVERDICT_CODES = {1: "malformed record", 350: "tool failed on a well-formed matrix file",
                    351: "tool printed no verdict line, or a positive and a negative one",
                    352: "the tool's verdict contradicts the definition", 353: "verdict line although the input text is malformed"}


def cligraphout_lines(rng, count, signed):
    """cases `signed co infmt nin bytes..` for cli:cligraphout: representation matrices of random multi(di)graphs (graphic
    / network by construction; transposed for co = 1), some of them permuted, and a quarter random matrices"""
    import vlib
    out = []
    for i in range(count):
        co = rng.below(2)
        if i % 4 == 3:
            m, n = 1 + rng.below(5), 1 + rng.below(6)
            M = vlib.rand_matrix(rng, m, n, (-1, 0, 1) if signed else (0, 1), 3 + rng.below(5), 10)
        else:
            nv = 1 + rng.below(7)
            ne = rng.below(12)
            M, _w = graph_instance(rng, nv, ne, signed)
            if rng.below(3) == 0 and M and M[0]:
                M = permute(rng, M)
        if co and M and M[0]:
            M = [list(r) for r in zip(*M)]
        elif co and M:
            M = []
        if not M:
            continue
        fmt = rng.below(2)
        b = [ord(c) for c in _mat_text(rng, M, fmt)]
        out.append("%d %d %d %d %s" % (1 if signed else 0, co, fmt, len(b), " ".join(map(str, b))))
    return out


CLIGRAPHOUT_CODES = {1: "malformed record", 360: "tool failed on a well-formed matrix file",
                     361: "written graph file is unreadable or its labels are not r1..rm / c1..cn once each",
                     362: "written graph has the wrong number of row / column edges",
                     363: "tree edges of the written graph are no spanning forest",
                     364: "written graph does not represent the input matrix",
                     365: "no graph written although the matrix is (co)graphic"}


def clictu_lines(rng, count):
    """cases `mode r c infmt outfmt nin bytes..` for cli:clictu: small 0/1 matrices; mode 2 with every kind of (r, c)
    request, mode 1 (-N) on matrices within the CTU oracle's size"""
    import vlib
    out = []
    for i in range(count):
        mode = 2 if i % 3 else 1
        m, n = 1 + rng.below(4), 1 + rng.below(4)
        while mode == 1 and m * n > 12:
            m, n = 1 + rng.below(4), 1 + rng.below(4)
        if mode == 2 and rng.below(5) == 0:
            m, n = 1 + rng.below(9), 1 + rng.below(9)
        M = vlib.rand_matrix(rng, m, n, (0, 1), 3 + rng.below(6), 10)
        r = rng.below(m + 1) - 1 if mode == 2 else -1
        c = rng.below(n + 1) - 1 if mode == 2 else -1
        if mode == 2 and r < 0 and c < 0:
            r = rng.below(m)          # without -r / -c the tool is in recognition mode
        fmt = rng.below(2)
        b = [ord(ch) for ch in _mat_text(rng, M, fmt)]
        out.append("%d %d %d %d %d %d %s" % (mode, r, c, fmt, rng.below(2), len(b), " ".join(map(str, b))))
    return out


CLICTU_CODES = {1: "malformed record", 380: "cmr-ctu failed on a well-formed 0/1 matrix file", 381: "cmr-ctu wrote no matrix",
                382: "cmr-ctu output does not follow the matrix format", 383: "cmr-ctu output is not the requested complement",
                384: "cmr-ctu -N output is not a non-TU complement of the input",
                385: "cmr-ctu -N wrote a matrix although the input is complement totally unimodular"}


def reprt_lines(rng, count):
    """cases of the `reprt` api (format of `repmat`): (di)graphs with 6..40 nodes — random multigraphs with loops and parallel
    edges, and graphs glued from 3-connected pieces, polygons and bonds — each with a random spanning forest offered in
    random order and the remaining edges as coforest in random order; a third signed with random reversals"""
    out = []
    for i in range(count):
        if i % 2 == 0:
            nv, edges = glued_graph(rng, 2 + rng.below(5))
            edges = list(edges)
            for _ in range(rng.below(6)):
                edges.append((rng.below(nv), rng.below(nv)))
        else:
            nv = 6 + rng.below(35)
            ne = nv + 2 + rng.below(2 * nv)
            edges = [(rng.below(nv), rng.below(nv)) for _ in range(ne)]
        ne = len(edges)
        signed = 1 if i % 3 == 0 else 0
        if signed:
            edges = [(v, u) if rng.below(2) else (u, v) for (u, v) in edges]
        rev = [e for e in range(ne) if signed and rng.below(4) == 0]
        comp = list(range(nv))

        def find(x):
            while comp[x] != x:
                comp[x] = comp[comp[x]]
                x = comp[x]
            return x
        forest = []
        for e in rng.shuffle(list(range(ne))):
            a, b = find(edges[e][0]), find(edges[e][1])
            if a != b:
                comp[a] = b
                forest.append(e)
        rng.shuffle(forest)
        fs = set(forest)
        co = rng.shuffle([e for e in range(ne) if e not in fs])
        out.append("%d %d %d %s %d %s 1 %d %s 1 %d %s" % (
            signed, nv, ne, " ".join("%d %d" % e for e in edges), len(rev), " ".join(map(str, rev)),
            len(forest), " ".join(map(str, forest)), len(co), " ".join(map(str, co))))
    return out


REPRT_CODES = {1: "malformed record", 390: "matrix construction failed", 391: "recognition returned an error",
               392: "the constructed matrix is not recognized as graphic / network",
               393: "construction from the recognized graph failed", 394: "matrix -> graph -> matrix is not the identity"}


def threeconn_graph(rng):
    """edge list of a 3-connected graph: Wagner graph V8, V10, Petersen, K5, K6, K3,3..K4,4, cube (+ diagonals), wheels,
    prisms, or one of these with a few random extra edges"""
    k = rng.below(9)
    if k == 0:
        n = 8 if rng.below(2) else 10
        E = [(i, (i + 1) % n) for i in range(n)] + [(i, i + n // 2) for i in range(n // 2)]
    elif k == 1:
        n = 10
        E = [(i, (i + 1) % 5) for i in range(5)] + [(i, i + 5) for i in range(5)] + [(5 + i, 5 + (i + 2) % 5) for i in range(5)]
    elif k == 2:
        n = 5 + rng.below(2)
        E = [(i, j) for i in range(n) for j in range(i + 1, n)]
    elif k == 3:
        a, b = 3 + rng.below(2), 3 + rng.below(3)
        n = a + b
        E = [(i, a + j) for i in range(a) for j in range(b)]
    elif k == 4:
        n = 8
        E = [(i, i ^ 1) for i in range(8) if i < i ^ 1] + [(i, i ^ 2) for i in range(8) if i < i ^ 2] + \
            [(i, i ^ 4) for i in range(8) if i < i ^ 4] + [(0, 7), (1, 6)][:rng.below(3)]
    elif k == 5:
        n = 5 + rng.below(6)
        E = [(0, i) for i in range(1, n)] + [(i, i % (n - 1) + 1) for i in range(1, n)]
    elif k == 6:
        h = 3 + rng.below(4)
        n = 2 * h
        E = [(i, (i + 1) % h) for i in range(h)] + [(h + i, h + (i + 1) % h) for i in range(h)] + [(i, h + i) for i in range(h)]
    else:
        n = 6 + rng.below(5)
        E = [(i, (i + 1) % n) for i in range(n)] + [(i, (i + 2 + rng.below(n - 3)) % n) for i in range(n)]
    E = list(dict.fromkeys((min(u, v), max(u, v)) for (u, v) in E if u != v))
    for _ in range(rng.below(3)):
        u, v = rng.below(n), rng.below(n)
        if u != v and (min(u, v), max(u, v)) not in E:
            E.append((min(u, v), max(u, v)))
    return n, E


def param_independence_lines(rng, count):
    """`rel` cases (kind 1: permutation) whose FIRST matrix is tested with non-default decomposition parameters (strategy
    code 2000+: direct graphicness off / series-parallel off / planarity check on / one of the five strategies) and whose
    second matrix - a row/column permutation of it - with the defaults: graphic and cographic matrices of 3-connected
    graphs with random spanning trees and line orders, and presentations of regular matroids that need 3-sums"""
    import vlib
    out = []
    deep = deep_binary_seeds(rng, 12, 300)
    for i in range(count):
        if i % 5 == 4:
            M = [r[:] for r in rng.choice(deep)]
        else:
            n, E = threeconn_graph(rng)
            M, _w = graph_instance(rng, n, len(E), False, loops=False, edges=E)
            if not M or not M[0]:
                continue
            if rng.below(2):
                M = [list(r) for r in zip(*M)]
        m, nn = len(M), len(M[0])
        rp = rng.shuffle(list(range(m)))
        cp = rng.shuffle(list(range(nn)))
        N = [[M[a][b] for b in cp] for a in rp]
        x = rng.choice([1, 1, 1, 3, 5, 2, 4]) + 8 * rng.below(5)
        out.append("%d 1 %d %s %d %s %s %s" % (2000 + x, m, " ".join(map(str, rp)), nn, " ".join(map(str, cp)),
                                              vlib.mat_line(M, m, nn), vlib.mat_line(N)))
    return out


def r10_sign_scrambles(rng, count):
    """ternary matrices whose support is one of the two R10 representations (alone, or as a block / 2-sum part of a
    larger matrix) with random signs - most of them not Camion-signed: the R10 recognition step must report them
    irregular and leave the node's matrix alone"""
    out = []
    for i in range(count):
        S = [[abs(x) for x in r] for r in (R10 if rng.below(2) else R10_CYC)]
        M = [[(x * rng.choice([1, -1])) for x in r] for r in S]
        M = permute(rng, M)
        k = rng.below(4)
        if k == 1:
            M = block_diag(M, network_matrix(rng, 3 + rng.below(4), 3 + rng.below(4)))
        elif k == 2:
            B = network_matrix(rng, 4 + rng.below(4), 3 + rng.below(4))
            M = two_sum(B, M, rng.below(len(B)), rng.below(5))
        if k:
            M = permute(rng, M)
        out.append(M)
    return out


def tu_net_lines(rng, count, maxnodes=60):
    """cases of the `tu_net` api: network matrices of random digraphs (up to maxnodes nodes, with loops and parallel arcs,
    rows / columns in random order, random reversals) together with the digraph as witness; a quarter transposed-free
    small ones, the rest large; random full parameter vectors without stop flags, the violator requested half the time"""
    import vlib
    out = []
    for i in range(count):
        nv = 2 + rng.below(8) if i % 4 == 0 else 8 + rng.below(maxnodes - 7)
        ne = nv + rng.below(2 * nv)
        M, w = graph_instance(rng, nv, ne, True)
        if not M or not M[0]:
            continue
        c = rand_cfg(rng, stopflags=False, wantSub=rng.below(2))
        if c[0] != 0 and len(M) * len(M[0]) > 64:
            c[0] = 0                                   # the enumeration algorithms are exponential
        out.append("%s %s %s" % (cfg_line(c), vlib.mat_line(M), w))
    return out


def sp_cert_lines(rng, count, ternary, maxlines=120):
    """cases of the `tu_net` (ternary) / `regular_cert` (binary) apis without witness: series-parallel matrices built from a
    1x1 matrix by up to maxlines zero / unit / (negated) copy lines in random positions, then permuted; the judges certify them
    by the Coq reduction model (SpTU.v: series-parallel => TU resp. regular), so the verdict is decided at every size"""
    import vlib
    out = []
    for i in range(count):
        k = 2 + rng.below(12) if i % 4 == 0 else 12 + rng.below(maxlines - 11)
        M = add_sp_lines(rng, [[rng.choice([1, -1]) if ternary else 1]], k, ternary)
        if not M or not M[0]:
            continue
        M = permute(rng, M)
        if ternary:
            c = rand_cfg(rng, stopflags=False, wantSub=rng.below(2))
            if c[0] != 0 and len(M) * len(M[0]) > 64:
                c[0] = 0
            out.append("%s %s 0" % (cfg_line(c), vlib.mat_line(M)))
        else:
            c = rand_cfg(rng, algorithm=0, stopflags=False, wantSub=0)
            out.append("%s %s %d 0" % (cfg_line(c), vlib.mat_line(M), rng.below(2)))
    return out


TU_NET_CODES = {1: "malformed record", 430: "CMRtuTest failed on a network matrix", 431: "verdict not written although no stop flag is set",
                432: "a network matrix (certified by its digraph) or series-parallel matrix (certified by the reduction model) is reported not totally unimodular",
                433: "a violating submatrix is returned for a network matrix"}


def regular_cert_lines(rng, count, maxnodes=40):
    """cases of the `regular_cert` api: graphic matrices of random multigraphs (and of 3-connected graphs) with the graph
    as witness, half of them transposed (cographic, witness for the transpose); random parameter vectors without stop flags"""
    import vlib
    out = []
    for i in range(count):
        if i % 3 == 0:
            nv, E = threeconn_graph(rng)
            M, w = graph_instance(rng, nv, len(E), False, loops=False, edges=E)
        else:
            nv = 2 + rng.below(8) if i % 4 == 1 else 6 + rng.below(maxnodes - 5)
            M, w = graph_instance(rng, nv, nv + rng.below(2 * nv), False)
        if not M or not M[0]:
            continue
        tr = rng.below(2)
        if tr:
            M = [list(r) for r in zip(*M)]
        c = rand_cfg(rng, algorithm=0, stopflags=False, wantSub=0)
        out.append("%s %s %d %s" % (cfg_line(c), vlib.mat_line(M), tr, w))
    return out


def equi_cert_lines(rng, count, maxm=10):
    """cases of the `equi_cert` api: M = L X with L (mm x m, mm >= m) = elementary row operations applied to [diag d; 0] with a
    nonsingular diagonal (certificate: the diagonal and the operations, so the gcd of the maximal minors of L is the product of
    the diagonal) and X (m x n) a network matrix with its digraph as witness whose columns B form the identity; by EquiUnique.v
    M (rank m, rank-deficient when mm > m) is equimodular with determinant gcd |prod d| and with no other value.  variant 0 (with
    requested k none / right / wrong) or 2 (unimodular)."""
    import vlib
    out = []
    for i in range(count):
        m = 1 + rng.below(4) if i % 3 == 0 else 2 + rng.below(maxm - 1)
        extra = rng.below(m + 4)
        n = m + extra
        nv = m + 1
        edges = []
        for v in range(1, nv):
            u = rng.below(v)
            edges.append((u, v) if rng.below(2) else (v, u))
        edges += edges[:m]                              # chord m+a is parallel to tree arc a
        for _ in range(extra):
            edges.append((rng.below(nv), rng.below(nv)))
        revt = [rng.below(3) == 0 for _ in range(m)]
        rev = [a for a in range(m) if revt[a]] + [m + a for a in range(m) if revt[a]] + \
              [2 * m + j for j in range(extra) if rng.below(3) == 0]
        pos = sorted(rng.shuffle(list(range(n)))[:m])   # positions of the identity columns
        others = rng.shuffle([2 * m + j for j in range(extra)])
        cof, k = [], 0
        for j in range(n):
            if k < m and pos[k] == j:
                cof.append(m + k)
                k += 1
            else:
                cof.append(others.pop())
        X, w = graph_instance(rng, nv, len(edges), True, edges=edges, forest_first=list(range(m)), rev=rev,
                              forest_order=list(range(m)), coforest_order=cof)
        assert all(X[a][pos[b]] == (1 if a == b else 0) for a in range(m) for b in range(m))
        big = rng.below(4) == 0
        variant = 2 if rng.below(3) == 0 else 0
        if rng.below(2 if variant == 2 else 6) == 0:
            d = [rng.choice([1, -1]) for _ in range(m)]
        else:
            d = [rng.choice([1, 1, 1, -1, 2, 3, -2] if not big else [1, 1, 2, 3, 5, -7]) for _ in range(m)]
        mm = m + (rng.below(3) + 1 if rng.below(3) == 0 else 0)      # extra rows: a rank-deficient product
        L = [[d[a] if a == b else 0 for b in range(m)] for a in range(mm)]
        ops = []
        for _ in range(rng.below(2 * mm + 1)):
            t = rng.choice([0, 0, 0, 1, 2])
            a, b = rng.below(mm), rng.below(mm)
            c = rng.choice([1, -1, 2, -2, 1, -1, 3])
            if t == 0:
                if a == b:
                    continue
                L[a] = [x + c * y for x, y in zip(L[a], L[b])]
            elif t == 1:
                L[a], L[b] = L[b], L[a]
            else:
                L[a] = [-x for x in L[a]]
            ops.append((t, a, b, c))
        M = [[sum(L[a][q] * X[q][j] for q in range(m)) for j in range(n)] for a in range(mm)]
        kk = 1
        for x in d:
            kk *= abs(x)
        kin = rng.choice([0, 0, kk, kk, kk + 1, max(1, kk - 1), 2 * kk]) if variant == 0 else 0
        toks = [variant, kin, vlib.mat_line(M), m] + d + [len(ops)] + [x for o in ops for x in o] + \
               [vlib.mat_line(X), m] + pos + [w]
        out.append(" ".join(str(t) for t in toks))
    return out


EQUI_CERT_CODES = {1: "malformed record", 450: "equimodularity test failed on a certified matrix",
                   451: "verdict not written", 452: "verdict differs from the certified determinant gcd",
                   453: "reported determinant gcd differs from the certified one"}


def balanced_cert_lines(rng, count, maxnodes=40):
    """cases of the `balanced_cert` api: network matrices with their digraph as witness and series-parallel {-1,0,1} matrices
    (no witness): totally unimodular by NetworkTU.v / SpTU.v, hence balanced by TuBalanced.v - at every size; the submatrix
    enumeration is exponential, so the sizes stay moderate and seriesParallel is mostly on"""
    import vlib
    out = []
    for i in range(count):
        sp = 1 if rng.below(4) else 0
        if i % 2:
            M = add_sp_lines(rng, [[rng.choice([1, -1])]], (4 + rng.below(40)) if sp else (3 + rng.below(10)), True)
            w = "0"
        else:
            nv = 3 + rng.below(8 if sp else 5)
            M, w = graph_instance(rng, nv, nv + rng.below(nv + 2), True)
        if not M or not M[0]:
            continue
        M = M if i % 2 == 0 else permute(rng, M)
        out.append("%d %d %d %s %s" % (rng.choice([0, 0, 1]), sp, rng.below(2), vlib.mat_line(M), w))
    return out


def camion_cert_lines(rng, count, maxnodes=30):
    """cases of the `camion_cert` api: M has the support of a certified totally unimodular matrix N (network matrix with its
    digraph, or series-parallel) and is N itself, a row/column scaling of N (still TU), or N with some signs flipped (mostly not
    TU); by Camion's theorem the signed output must be a scaling of N and the test must say yes exactly for scalings"""
    import vlib
    out = []
    for i in range(count):
        if i % 3 == 2:
            N = permute(rng, add_sp_lines(rng, [[rng.choice([1, -1])]], 3 + rng.below(30), True))
            w = "0"
        else:
            nv = 3 + rng.below(6) if i % 2 else 6 + rng.below(maxnodes - 5)
            N, w = graph_instance(rng, nv, nv + rng.below(nv + 3), True)
        if not N or not N[0]:
            continue
        m, n = len(N), len(N[0])
        k = rng.below(4)
        M = [r[:] for r in N]
        if k == 1 or k == 3:
            rs = [rng.choice([1, -1]) for _ in range(m)]
            cs = [rng.choice([1, -1]) for _ in range(n)]
            M = [[rs[a] * cs[b] * M[a][b] for b in range(n)] for a in range(m)]
        if k >= 2:
            nz = [(a, b) for a in range(m) for b in range(n) if M[a][b] != 0]
            for (a, b) in rng.shuffle(nz)[:1 + rng.below(3)]:
                M[a][b] = -M[a][b]
        out.append("%s %s %s" % (vlib.mat_line(M), vlib.mat_line(N), w))
    return out


CAMION_CERT_CODES = {1: "malformed record", 470: "a call failed on a matrix with certified regular support",
                     471: "the signed output is not a row/column scaling of the certified totally unimodular matrix (so it is not TU)",
                     472: "signedness test says no for a totally unimodular matrix (a scaling of the certified one)",
                     473: "signedness test says yes although the matrix is not a scaling of the certified one (so it is not TU)"}


BALANCED_CERT_CODES = {1: "malformed record", 460: "CMRbalancedTest failed on a certified totally unimodular matrix",
                       461: "verdict not written", 462: "a totally unimodular matrix (certified) is reported not balanced",
                       463: "a violating submatrix is returned for a totally unimodular matrix"}


REGULAR_CERT_CODES = {1: "malformed record", 440: "CMRregularTest failed on a (co)graphic matrix",
                      441: "verdict not written although no stop flag is set",
                      442: "a graphic / cographic matrix (certified by its graph) or series-parallel matrix (certified by the reduction model) is reported not regular"}


def deep_forest_network(rng, n, chords):
    """network matrix whose tree is a path (or a long-armed spider) with about n arcs, so that the recognition's searches
    along the forest reach depths above 255; returns (M, witness tokens)"""
    arms = 1 if rng.below(2) else 2 + rng.below(2)
    edges = []
    tips = [0] * arms
    nv = 1
    for i in range(n):
        a = i % arms
        edges.append((tips[a], nv) if rng.below(2) else (nv, tips[a]))
        tips[a] = nv
        nv += 1
    tree = list(range(len(edges)))
    for _ in range(chords):
        u, v = rng.below(nv), rng.below(nv)
        edges.append((u, v))
    return graph_instance(rng, nv, len(edges), True, edges=edges, forest_first=tree)
