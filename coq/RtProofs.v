From Cmr Require Import Base BaseProofs GraphModel RtModel.
Local Open Scope Z_scope.

Theorem judge_reprt_sound : forall rec signed rc cf Mo rc2 v rc3 M2o rest,
  reprt_input rec = Some ((signed, rc, cf, Mo, rc2, v, rc3, M2o), rest) -> cf = 1 -> judge_reprt rec = 0 ->
  rc = 0 /\ rc2 = 0 /\ v = 1 /\ rc3 = 0 /\ exists m n M, Mo = Some (m, n, M) /\ M2o = Some (m, n, M).
Proof.
  intros rec signed rc cf Mo rc2 v rc3 M2o rest Hdec Hcf HJ.
  unfold judge_reprt in HJ. unfold reprt_input in Hdec. rewrite Hdec in HJ. subst cf. cbn [Z.eqb Pos.eqb negb] in HJ.
  destruct (rc =? 0) eqn:E1; cbn [negb] in HJ; [|discriminate].
  destruct Mo as [[[m n] M]|]; [|discriminate].
  destruct (rc2 =? 0) eqn:E2; cbn [negb] in HJ; [|discriminate].
  destruct (v =? 1) eqn:E3; cbn [negb] in HJ; [|discriminate].
  destruct (rc3 =? 0) eqn:E4; cbn [negb] in HJ; [|discriminate].
  destruct M2o as [[[m2 n2] M2]|]; [|discriminate].
  destruct (Nat.eqb m m2 && Nat.eqb n n2 && mat_eqb M M2) eqn:E5; [|discriminate].
  apply andb_true_iff in E5. destruct E5 as [E5 E7]. apply andb_true_iff in E5. destruct E5 as [E5 E6].
  apply Nat.eqb_eq in E5, E6. apply mat_eqb_eq in E7. subst.
  apply Z.eqb_eq in E1, E2, E3, E4.
  repeat split; auto. exists m2, n2, M2. split; reflexivity.
Qed.
Print Assumptions judge_reprt_sound.
