(* SpTU.v — series-parallel matrices are totally unimodular / regular.
   A ternary matrix that the series-parallel reductions (zero / unit / +-copy lines) reduce to the empty
   matrix is accepted by the TU oracle tu_bf; a binary matrix that the binary reductions (zero / unit / equal
   lines) reduce to nothing is accepted by the regularity oracle regular_bf.
   Proof: induction on the number of lines, removing the first reduced line: sp_greedy_add_line
   (RelProofs.v) and tu_bf_add_line (TuClosure.v) are about the same dense submatrix. *)
From Coq Require Import Arith PeanoNat.
From Cmr Require Import Base Det BaseProofs SpModel RelModel TuModel SpProofs SpProofs2 RegularProofs.
From Cmr Require RelProofs TuClosure RegPivotArith.
Local Open Scope Z_scope.

(* ------------------------------------------------------------------------------------------ *)
(* 0. small facts                                                                             *)
(* ------------------------------------------------------------------------------------------ *)

Lemma tu_bf_0_l : forall n M, tu_bf 0 n M = true.
Proof. intros n M. reflexivity. Qed.

Lemma tu_bf_0_r : forall m M, tu_bf m 0 M = true.
Proof. intros m M. unfold tu_bf. rewrite Nat.min_0_r. reflexivity. Qed.

Lemma wf_submat : forall M rs cs, wf_mat (length rs) (length cs) (submat M rs cs) = true.
Proof.
  intros M rs cs. unfold wf_mat, submat. rewrite map_length, Nat.eqb_refl. cbn [andb].
  apply forallb_forall. intros r Hr. apply in_map_iff in Hr. destruct Hr as [i [E _]]. subst r.
  rewrite map_length. apply Nat.eqb_refl.
Qed.

Lemma is_ternary_submat : forall M rs cs, is_ternary M = true -> is_ternary (submat M rs cs) = true.
Proof.
  intros M rs cs H. unfold is_ternary, mat_forall, submat.
  apply forallb_forall. intros r Hr. apply in_map_iff in Hr. destruct Hr as [i [E _]]. subst r.
  apply forallb_forall. intros x Hx. apply in_map_iff in Hx. destruct Hx as [j [E _]]. subst x.
  apply RelProofs.is_ternary_entry_iff. apply RelProofs.get_ternary. exact H.
Qed.

Lemma is_binary_ternary : forall M, is_binary M = true -> is_ternary M = true.
Proof.
  intros M H. unfold is_binary, is_ternary, mat_forall in *.
  apply forallb_forall. intros r Hr. apply forallb_forall. intros x Hx.
  pose proof (proj1 (forallb_forall _ _) H r Hr) as H1. cbv beta in H1.
  pose proof (proj1 (forallb_forall _ _) H1 x Hx) as H2.
  unfold is_binary_entry in H2. unfold is_ternary_entry. rewrite H2. reflexivity.
Qed.

(* ------------------------------------------------------------------------------------------ *)
(* 1. the first step of a reduction to nothing                                                *)
(* ------------------------------------------------------------------------------------------ *)

Lemma SPred_first_line : forall t m n M, SPred t M (all_true m, all_true n) ->
  (m = 0%nat /\ n = 0%nat) \/
  (exists k, (k < m)%nat /\ line_reducible t m n M true k = true) \/
  (exists k, (k < n)%nat /\ line_reducible t m n M false k = true).
Proof.
  intros t m n M H. inversion H as [lr lc E | s s' St Rest]; subst.
  - left. apply is_empty_iff in E. destruct E as [E1 E2]. split.
    + destruct m as [|m]; [reflexivity|]. exfalso.
      assert (L : live (all_true (S m)) 0 = true) by (apply live_all_true; lia).
      rewrite E1 in L. discriminate.
    + destruct n as [|n]; [reflexivity|]. exfalso.
      assert (L : live (all_true (S n)) 0 = true) by (apply live_all_true; lia).
      rewrite E2 in L. discriminate.
  - right. inversion St as [lr lc r L R | lr lc c L R]; subst.
    + left. exists r. split; [apply live_all_true; exact L | exact R].
    + right. exists c. split; [apply live_all_true; exact L | exact R].
Qed.

(* ------------------------------------------------------------------------------------------ *)
(* 2. ternary series-parallel => totally unimodular                                           *)
(* ------------------------------------------------------------------------------------------ *)

Lemma sp_ternary_TU_aux : forall s m n M, (m + n = s)%nat ->
  is_ternary M = true -> sp_greedy true m n M = true -> tu_bf m n M = true.
Proof.
  induction s as [|s IH]; intros m n M Hs HT HSP.
  - assert (m = 0%nat) by lia. subst m. apply tu_bf_0_l.
  - pose proof (proj1 (sp_greedy_correct true m n M) HSP) as HP.
    destruct (SPred_first_line true m n M HP) as [[Hm Hn] | [[k [Hk R]] | [k [Hk R]]]].
    + lia.
    + rewrite (@TuClosure.tu_bf_add_line m n M true k HT (proj2 (Nat.ltb_lt _ _) Hk) R).
      rewrite (RelProofs.sp_greedy_add_line true m n M true k R Hk) in HSP.
      apply (IH (m - 1)%nat n); [lia | apply is_ternary_submat; exact HT | exact HSP].
    + rewrite (@TuClosure.tu_bf_add_line m n M false k HT (proj2 (Nat.ltb_lt _ _) Hk) R).
      rewrite (RelProofs.sp_greedy_add_line true m n M false k R Hk) in HSP.
      apply (IH m (n - 1)%nat); [lia | apply is_ternary_submat; exact HT | exact HSP].
Qed.

Theorem sp_ternary_TU : forall m n M, wf_mat m n M = true -> is_ternary M = true ->
  sp_greedy true m n M = true -> tu_bf m n M = true.
Proof. intros m n M _ HT HSP. exact (sp_ternary_TU_aux (m + n) m n M eq_refl HT HSP). Qed.

Theorem sp_ternary_TU_nowf : forall m n M, is_ternary M = true ->
  sp_greedy true m n M = true -> tu_bf m n M = true.
Proof. intros m n M HT HSP. exact (sp_ternary_TU_aux (m + n) m n M eq_refl HT HSP). Qed.

(* ------------------------------------------------------------------------------------------ *)
(* 3. binary reductions are ternary reductions                                                *)
(* ------------------------------------------------------------------------------------------ *)

Lemma is_copy_mono : forall v w, is_copy false v w = true -> is_copy true v w = true.
Proof. intros v w H. unfold is_copy in *. cbn [andb] in H. rewrite orb_false_r in H. rewrite H. reflexivity. Qed.

Lemma existsb_mono : forall (A : Type) (p q : A -> bool) l,
  (forall x, p x = true -> q x = true) -> existsb p l = true -> existsb q l = true.
Proof.
  intros A p q l H E. apply existsb_exists in E. destruct E as [x [I Px]].
  apply existsb_exists. exists x. split; [exact I | apply H; exact Px].
Qed.

Lemma row_reducible_mono : forall M lr lc r,
  row_reducible false M lr lc r = true -> row_reducible true M lr lc r = true.
Proof.
  intros M lr lc r H. unfold row_reducible in *. cbv zeta in *.
  apply orb_true_iff in H. apply orb_true_iff. destruct H as [H|H]; [left; exact H | right].
  revert H. apply existsb_mono. intros x Hx. apply andb_true_iff in Hx. destruct Hx as [H1 H2].
  apply andb_true_iff. split; [exact H1 | apply is_copy_mono; exact H2].
Qed.

Lemma col_reducible_mono : forall M lr lc c,
  col_reducible false M lr lc c = true -> col_reducible true M lr lc c = true.
Proof.
  intros M lr lc c H. unfold col_reducible in *. cbv zeta in *.
  apply orb_true_iff in H. apply orb_true_iff. destruct H as [H|H]; [left; exact H | right].
  revert H. apply existsb_mono. intros x Hx. apply andb_true_iff in Hx. destruct Hx as [H1 H2].
  apply andb_true_iff. split; [exact H1 | apply is_copy_mono; exact H2].
Qed.

Lemma SPred_mono : forall M s, SPred false M s -> SPred true M s.
Proof.
  intros M s H. induction H as [lr lc E | s s' St _ IH].
  - apply SP_done. exact E.
  - apply (SP_step true M s s'); [|exact IH].
    destruct St as [lr lc r L R | lr lc c L R].
    + apply step_row; [exact L | apply row_reducible_mono; exact R].
    + apply step_col; [exact L | apply col_reducible_mono; exact R].
Qed.

(* holds for every matrix; the hypothesis is kept for the documented domain of the binary test *)
Theorem sp_greedy_mono_binary_ternary : forall m n M, is_binary M = true ->
  sp_greedy false m n M = true -> sp_greedy true m n M = true.
Proof.
  intros m n M _ H. apply sp_greedy_correct. apply SPred_mono. apply sp_greedy_correct. exact H.
Qed.

(* ------------------------------------------------------------------------------------------ *)
(* 4. binary series-parallel => regular                                                       *)
(* ------------------------------------------------------------------------------------------ *)

Lemma signing_of_self : forall m n M, wf_mat m n M = true -> is_binary M = true -> signing_of M M.
Proof.
  intros m n M HW HB. apply (RegPivotArith.signing_of_intro m n M M HW HW).
  intros i j _ _. unfold sign_entry.
  destruct (get_binary M i j HB) as [E|E]; rewrite E; [left | right]; split; auto; lia.
Qed.

Theorem sp_binary_regular : forall m n M, wf_mat m n M = true -> is_binary M = true ->
  sp_greedy false m n M = true -> regular_bf m n M = true.
Proof.
  intros m n M HW HB HSP. apply (regular_bf_spec m n M HW). split; [exact HB|].
  exists M. split; [apply (signing_of_self m n); assumption|].
  apply sp_ternary_TU; [exact HW | apply is_binary_ternary; exact HB |].
  apply sp_greedy_mono_binary_ternary; assumption.
Qed.

Print Assumptions sp_ternary_TU.
Print Assumptions sp_greedy_mono_binary_ternary.
Print Assumptions sp_binary_regular.
