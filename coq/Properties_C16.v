(* Properties_C16.v — C16: equimodular / unimodular verdicts follow doc/equimodular.md.
   Statements closed by `exact`; proofs in EquiProofs.v. *)
From Cmr Require Import Base Det EquiModel EquiProofs.
Local Open Scope Z_scope.

(* the executable oracle is the documented definition: k is reported for M iff for some column basis B the gcd of the
   r x r minors of M_B is k (and positive: the columns are independent) and M = M_B X for a totally unimodular X *)
Theorem C16_oracle_is_definition : forall m n M k,
  In k (equimod_all m n M) <-> Equimodular m n M k.
Proof. exact equimod_all_spec'. Qed.
Print Assumptions C16_oracle_is_definition.

(* strong variants additionally require the same of the transpose, with the same k *)
Theorem C16_strong_is_definition : forall strong m n M k,
  equi_yes strong m n M k = true <->
  Equimodular m n M k /\ (strong = true -> Equimodular n m (transpose m n M) k).
Proof. exact equi_yes_spec. Qed.
Print Assumptions C16_strong_is_definition.

(* whenever the extracted judge accepts a record of CMRequimodularTest / TestStrong / CMRunimodularTest / TestStrong:
   either CMR_ERROR_OVERFLOW on a matrix with an entry of absolute value >= 1000, or CMR_OKAY with a written verdict
   that is the definition's (for the requested k, k = 1 for the unimodular variants, or for some k if none is
   requested), and a reported k for which the definition holds *)
Theorem C16_judge_sound : forall rec variant kin m n M rc v kout rest,
  equimod_input rec = Some ((variant, kin, (m, n, M), rc, v, kout), rest) ->
  judge_equimod rec = 0 ->
  (0 <= variant <= 3 /\ 0 <= kin /\ wf_mat m n M = true) /\
  ((rc = 5 /\ 1000 <= max_abs M) \/
   (rc = 0 /\ (v = 0 \/ v = 1) /\
    (variant_kreq variant kin <> 0 ->
       (v = 1 <-> equi_yes (variant_strong variant) m n M (variant_kreq variant kin) = true)) /\
    (variant_kreq variant kin = 0 -> (v = 1 <-> equi_any (variant_strong variant) m n M <> [])) /\
    (v = 1 -> variant < 2 -> equi_yes (variant_strong variant) m n M kout = true))).
Proof. exact judge_equimod_sound. Qed.
Print Assumptions C16_judge_sound.

(* every nonsingular square matrix is equimodular (B = all columns, X = I): the 2x2 instance the implementation misses *)
Example C16_nonsingular_example : Equimodular 2 2 [[-2; -2]; [-2; 1]] 6.
Proof. exact ex_equimodular_6. Qed.
Example C16_not_equimodular_example : forall k, ~ Equimodular 2 2 [[2; 4]; [1; 2]] k.
Proof. exact ex_not_equimodular. Qed.

(* ---------- the value does not depend on the basis: a matrix is equimodular for at most one k (EquiUnique.v; closes the gap
   "independence of the chosen basis"), so the list the oracle computes has at most one value ---------- *)
From Cmr Require EquiCertModel EquiUnique EquiCertProofs.
Theorem C16_value_independent_of_the_basis : forall m n M k k',
  Equimodular m n M k -> Equimodular m n M k' -> k = k'.
Proof. exact EquiUnique.equimodular_unique'. Qed.
Print Assumptions C16_value_independent_of_the_basis.

Theorem C16_oracle_single_valued : forall m n M k k',
  In k (equimod_all m n M) -> In k' (equimod_all m n M) -> k = k'.
Proof. exact EquiUnique.equimod_all_unique. Qed.
Print Assumptions C16_oracle_single_valued.

(* ---------- every size: instances with a certificate.  M = L X with L = elementary row operations applied to a nonsingular
   diagonal matrix (so |det L| is the product of the diagonal: det_apply_ops) and X a totally unimodular matrix (certified by a
   digraph or by series-parallel reductions) whose columns B form the identity: M is equimodular with determinant gcd |det L|
   by the definition, and with no other value; an accepted `equi_cert` record carries exactly that answer ---------- *)
Theorem C16_constructed_instances : forall m r n L X B,
  wf_mat m r L = true -> wf_mat r n X = true -> length B = r -> strictly_increasing B = true -> all_lt n B = true ->
  EquiCertModel.identity_at r X B = true -> tu_bf r n X = true -> 0 < minors_gcd m r L ->
  Equimodular m n (mat_mul_cols m r n L X) (minors_gcd m r L).
Proof. exact EquiUnique.equimodular_construct_b. Qed.
Print Assumptions C16_constructed_instances.

Theorem C16_row_operations_keep_the_determinant : forall (d : list Z) (ops : list EquiCertModel.rowop), let m := length d in
  wf_mat m m (fold_left (EquiCertModel.apply_op m m) ops (EquiCertModel.diag_mat d)) = true /\
  Z.abs (det m (fold_left (EquiCertModel.apply_op m m) ops (EquiCertModel.diag_mat d))) = Z.abs (fold_right Z.mul 1 d).
Proof. exact EquiUnique.det_apply_ops. Qed.
Print Assumptions C16_row_operations_keep_the_determinant.

Theorem C16_certified_matrices_of_every_size : forall rec variant kin m n M rc v kout d ops xr xc X B w rest,
  EquiCertModel.equi_cert_input rec = Some ((variant, kin, (m, n, M), rc, v, kout, d, ops, (xr, xc, X), B, w), rest) ->
  variant = 0 \/ variant = 2 ->
  EquiCertModel.equi_cert_check m n M d ops xr xc X B w = true ->
  EquiCertModel.judge_equi_cert rec = 0 -> rc <> 5 ->
  let k := Z.abs (fold_right Z.mul 1 d) in
  rc = 0 /\ 0 < k /\ Equimodular m n M k /\ (forall k', Equimodular m n M k' -> k' = k) /\
  (v = 0 \/ v = 1) /\
  (variant = 0 -> (v = 1 <-> kin = 0 \/ kin = k)) /\
  (variant = 2 -> (v = 1 <-> k = 1)) /\
  (variant = 0 -> v = 1 -> kout = k).
Proof. exact EquiCertProofs.judge_equi_cert_sound. Qed.
Print Assumptions C16_certified_matrices_of_every_size.

(* ---------- the judge accepts EXACTLY the records that satisfy its specification: besides soundness (above) also completeness,
   i.e. a record of a correct answer is never rejected (JudgeComplete1.v) ---------- *)
From Cmr Require JudgeComplete1.
Theorem C16_judge_equimod_accepts_exactly_the_specification :
    forall (rec : list Z) (variant kin : Z) (m n : nat) (M : mat) (rc v kout : Z) (rest : list Z),
    EquiProofs.equimod_input rec = Some (variant, kin, (m, n, M), rc, v, kout, rest) ->
    EquiModel.judge_equimod rec = 0%Z <-> JudgeComplete1.equimod_spec variant kin m n M rc v kout.
Proof. exact JudgeComplete1.judge_equimod_iff. Qed.
Print Assumptions C16_judge_equimod_accepts_exactly_the_specification.
Theorem C16_judge_equi_cert_accepts_exactly_the_specification :
    forall (rec : list Z) (variant kin : Z) (m n : nat) (M : mat) (rc v kout : Z) 
    (d : list Z) (ops : list EquiCertModel.rowop) (xr xc : nat) (X : mat) (B : list nat)
    (w : GraphModel.witness) (rest : list Z),
    EquiCertModel.equi_cert_input rec =
    Some (variant, kin, (m, n, M), rc, v, kout, d, ops, (xr, xc, X), B, w, rest) ->
    variant = 0%Z \/ variant = 2%Z ->
    EquiCertModel.equi_cert_check m n M d ops xr xc X B w = true ->
    rc <> 5%Z ->
    EquiCertModel.judge_equi_cert rec = 0%Z <->
    JudgeComplete1.equi_cert_spec variant kin m n M rc v kout d.
Proof. exact JudgeComplete1.judge_equi_cert_iff. Qed.
Print Assumptions C16_judge_equi_cert_accepts_exactly_the_specification.

(* ---------- through the translator: the C text of gcdExt (extended Euclid of the int64 row reduction; while loop and out-pointers
   translated by tools/c2gallina.py into LeafGen.c_gcdExt) has no undefined behaviour on every pair of int64 values except INT64_MIN,
   terminates (fuel 200 provably suffices), returns the gcd with Bezout cofactors in range, and the cofactors vanish exactly in the
   stated cases (the header comment 't != 0' of the C function is wrong when a properly divides b) ---------- *)
From Cmr Require LeafGen LeafModel GcdProofs.
Theorem C16_gcdExt_is_defined_and_computes_bezout :
    forall a b : Z,
    GcdProofs.int64_sym a ->
    GcdProofs.int64_sym b ->
    exists s t : Z,
    LeafGen.c_gcdExt 200 a b = Some (Z.gcd a b, s, t) /\
    (s * a + t * b)%Z = Z.gcd a b /\
    GcdProofs.int64_sym s /\
    GcdProofs.int64_sym t /\
    (t = 0%Z <-> b = 0%Z \/ a <> 0%Z /\ (Z.abs a < Z.abs b)%Z /\ (a | b)%Z) /\
    (s = 0%Z <-> b <> 0%Z /\ (b | a)%Z).
Proof. exact GcdProofs.gcdExt_spec. Qed.
Print Assumptions C16_gcdExt_is_defined_and_computes_bezout.
Theorem C16_gcdExt_terminates :
    forall a b : Z,
    GcdProofs.int64_sym a ->
    GcdProofs.int64_sym b -> forall f : nat, (200 <= f)%nat -> LeafGen.c_gcdExt f a b = LeafGen.c_gcdExt 200 a b.
Proof. exact GcdProofs.gcdExt_fuel_ge. Qed.
Print Assumptions C16_gcdExt_terminates.
Theorem C16_gcdExt_zero_cofactor :
    forall a b : Z,
    GcdProofs.int64_sym a ->
    GcdProofs.int64_sym b ->
    a <> 0%Z ->
    b = 0%Z \/ (Z.abs a < Z.abs b)%Z /\ (a | b)%Z ->
    LeafGen.c_gcdExt 200 a b = Some (Z.abs a, Z.sgn a, 0%Z).
Proof. exact GcdProofs.gcdExt_t_zero. Qed.
Print Assumptions C16_gcdExt_zero_cofactor.
Theorem C16_gcdExt_leaf_judge_specification :
    forall a b : Z,
    GcdProofs.int64_sym a ->
    GcdProofs.int64_sym b ->
    exists g s t : Z,
    LeafModel.leaf_gen 11 [a; b] = Some (Some g) /\
    LeafModel.leaf_gen 12 [a; b] = Some (Some s) /\
    LeafModel.leaf_gen 13 [a; b] = Some (Some t) /\
    LeafModel.leaf_spec 11 [a; b] g = true /\
    LeafModel.leaf_spec 12 [a; b] s = true /\ LeafModel.leaf_spec 13 [a; b] t = true.
Proof. exact GcdProofs.leaf_spec_gcdExt. Qed.
Print Assumptions C16_gcdExt_leaf_judge_specification.

(* ---------- rank-deficient certified instances: L is m x r (r <= m), elementary row operations applied to [diag d; 0]; the gcd of
   its r x r minors is invariant under row operations and equals |prod d|, so M = L X is equimodular with that value at rank r < m ---------- *)
Theorem C16_minors_gcd_invariant_under_row_operations : forall (m r : nat) (L : mat) (o : EquiCertModel.rowop),
  wf_mat m r L = true -> minors_gcd m r (EquiCertModel.apply_op m r L o) = minors_gcd m r L.
Proof. exact EquiUnique.minors_gcd_apply_op. Qed.
Print Assumptions C16_minors_gcd_invariant_under_row_operations.

Theorem C16_minors_gcd_of_a_certified_factor : forall (m : nat) (d : list Z) (ops : list EquiCertModel.rowop), (length d <= m)%nat ->
  wf_mat m (length d) (EquiCertModel.cert_L m d ops) = true /\
  minors_gcd m (length d) (EquiCertModel.cert_L m d ops) = Z.abs (fold_right Z.mul 1 d).
Proof. exact EquiUnique.minors_gcd_cert_L. Qed.
Print Assumptions C16_minors_gcd_of_a_certified_factor.
