(* Properties_C16.v — C16: equimodular / unimodular verdicts follow doc/equimodular.md.
   Statements closed by `exact`; proofs in EquiProofs.v. *)
From Cmr Require Import Base Det EquiModel EquiProofs.
Local Open Scope Z_scope.

(* the executable oracle is the documented definition: k is reported for M iff for some column basis B the gcd of the
   r x r minors of M_B is k (and positive: the columns are independent) and M = M_B X for a totally unimodular X *)
Theorem C16_oracle_is_definition : forall m n M k,
  In k (equimod_all m n M) <-> Equimodular m n M k.
Proof. exact equimod_all_spec'. Qed.
Print Assumptions C16_oracle_is_definition.

(* strong variants additionally require the same of the transpose, with the same k *)
Theorem C16_strong_is_definition : forall strong m n M k,
  equi_yes strong m n M k = true <->
  Equimodular m n M k /\ (strong = true -> Equimodular n m (transpose m n M) k).
Proof. exact equi_yes_spec. Qed.
Print Assumptions C16_strong_is_definition.

(* whenever the extracted judge accepts a record of CMRequimodularTest / TestStrong / CMRunimodularTest / TestStrong:
   either CMR_ERROR_OVERFLOW on a matrix with an entry of absolute value >= 1000, or CMR_OKAY with a written verdict
   that is the definition's (for the requested k, k = 1 for the unimodular variants, or for some k if none is
   requested), and a reported k for which the definition holds *)
Theorem C16_judge_sound : forall rec variant kin m n M rc v kout rest,
  equimod_input rec = Some ((variant, kin, (m, n, M), rc, v, kout), rest) ->
  judge_equimod rec = 0 ->
  (0 <= variant <= 3 /\ 0 <= kin /\ wf_mat m n M = true) /\
  ((rc = 5 /\ 1000 <= max_abs M) \/
   (rc = 0 /\ (v = 0 \/ v = 1) /\
    (variant_kreq variant kin <> 0 ->
       (v = 1 <-> equi_yes (variant_strong variant) m n M (variant_kreq variant kin) = true)) /\
    (variant_kreq variant kin = 0 -> (v = 1 <-> equi_any (variant_strong variant) m n M <> [])) /\
    (v = 1 -> variant < 2 -> equi_yes (variant_strong variant) m n M kout = true))).
Proof. exact judge_equimod_sound. Qed.
Print Assumptions C16_judge_sound.

(* every nonsingular square matrix is equimodular (B = all columns, X = I): the 2x2 instance the implementation misses *)
Example C16_nonsingular_example : Equimodular 2 2 [[-2; -2]; [-2; 1]] 6.
Proof. exact ex_equimodular_6. Qed.
Example C16_not_equimodular_example : forall k, ~ Equimodular 2 2 [[2; 4]; [1; 2]] k.
Proof. exact ex_not_equimodular. Qed.
