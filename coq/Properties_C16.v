From Cmr Require Import Base Det EquiModel.
Theorem placeholder_C16 : True. Proof. exact I. Qed.
