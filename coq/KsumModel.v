(* KsumModel.v — the k-sum block formulas of include/cmr/separation.h (2-sum, Delta-sum, Y-sum, 3-sum)
   as executable definitions on dense matrices with special rows / columns at arbitrary positions, and the
   judges for CMR*Compose and for the decompose-then-compose round trip.  No proofs here. *)
From Cmr Require Import Base Det PivotModel.
Local Open Scope Z_scope.

Inductive kres := KOk (M : mat) | KErr.

(* positions 0..k-1 of a list except those listed *)
Definition keep_idx (k : nat) (drop : list nat) : list nat := filter (fun i => negb (memn i drop)) (iota 0 k).

Definition rowv (M : mat) (r : nat) : list Z := nthR M r.
Definition colv (m : nat) (M : mat) (c : nat) : list Z := map (fun i => get M i c) (iota 0 m).
Definition pick (v : list Z) (idx : list nat) : list Z := map (fun i => nthZ v i) idx.

Definition outer (p : Z) (d c : list Z) : mat := map (fun di => map (fun cj => modulo_ternary (di * cj) p) c) d.
Definition zeros (m n : nat) : mat := mk_mat m n (fun _ _ => 0).
Fixpoint hcat (A B : mat) : mat :=
  match A, B with
  | a :: A', b :: B' => (a ++ b) :: hcat A' B'
  | _, _ => []
  end.
Definition block4 (TL TR BL BR : mat) : mat := hcat TL TR ++ hcat BL BR.

Definition zvec_eqb := zlist_eqb.
Definition is_pm1 (x : Z) : bool := (x =? 1) || (x =? -1).

(* ---------- 2-sum ---------- *)
(* variant 1: M1 = [A; c^T] (special row r1), M2 = [d D] (special column c2):  M = [A 0; d c^T D]
   variant 2: M1 = [A a] (special column c1), M2 = [b^T; D] (special row r2):  M = [A a b^T; 0 D] *)
Definition twosum (p : Z) (m1 n1 : nat) (M1 : mat) (m2 n2 : nat) (M2 : mat)
                  (fsr fsc ssr ssc : option nat) : kres :=
  match fsr, fsc, ssr, ssc with
  | Some r1, None, None, Some c2 =>
    if Nat.ltb r1 m1 && Nat.ltb c2 n2 then
      let R1 := keep_idx m1 [r1] in let C2 := keep_idx n2 [c2] in
      let A := submat M1 R1 (iota 0 n1) in
      let c := rowv M1 r1 in
      let d := colv m2 M2 c2 in
      let D := submat M2 (iota 0 m2) C2 in
      KOk (block4 A (zeros (m1 - 1) (n2 - 1)) (outer p d (pick c (iota 0 n1))) D)
    else KErr
  | None, Some c1, Some r2, None =>
    if Nat.ltb c1 n1 && Nat.ltb r2 m2 then
      let C1 := keep_idx n1 [c1] in let R2 := keep_idx m2 [r2] in
      let A := submat M1 (iota 0 m1) C1 in
      let a := colv m1 M1 c1 in
      let b := rowv M2 r2 in
      let D := submat M2 R2 (iota 0 n2) in
      KOk (block4 A (outer p a (pick b (iota 0 n2))) (zeros (m2 - 1) (n1 - 1)) D)
    else KErr
  | _, _, _, _ => KErr
  end.

(* ---------- Delta-sum ---------- *)
(* M1 = [A a a; c^T 0 eps]  special row r1, special columns c1a (a;0), c1b (a;eps)
   M2 = [eps 0 b^T; d d D]  special row r2, special columns c2a (eps;d), c2b (0;d)
   M  = [A a b^T; d c^T D] *)
Definition deltasum (p : Z) (m1 n1 : nat) (M1 : mat) (m2 n2 : nat) (M2 : mat)
                    (r1 c1a c1b r2 c2a c2b : nat) : kres :=
  if negb (Nat.ltb r1 m1 && Nat.ltb c1a n1 && Nat.ltb c1b n1 && Nat.ltb r2 m2 && Nat.ltb c2a n2 && Nat.ltb c2b n2 &&
           negb (Nat.eqb c1a c1b) && negb (Nat.eqb c2a c2b)) then KErr
  else
    let R1 := keep_idx m1 [r1] in let C1 := keep_idx n1 [c1a; c1b] in
    let R2 := keep_idx m2 [r2] in let C2 := keep_idx n2 [c2a; c2b] in
    let a := pick (colv m1 M1 c1a) R1 in
    let a' := pick (colv m1 M1 c1b) R1 in
    let d := pick (colv m2 M2 c2a) R2 in
    let d' := pick (colv m2 M2 c2b) R2 in
    let e1 := get M1 r1 c1b in let e2 := get M2 r2 c2a in
    if negb (zvec_eqb a a' && (get M1 r1 c1a =? 0) && negb (e1 =? 0) &&
             zvec_eqb d d' && (get M2 r2 c2b =? 0) && negb (e2 =? 0) && (e1 =? e2)) then KErr
    else
      let c := pick (rowv M1 r1) C1 in
      let b := pick (rowv M2 r2) C2 in
      KOk (block4 (submat M1 R1 C1) (outer p a b) (outer p d c) (submat M2 R2 C2)).

(* ---------- Y-sum ---------- *)
(* M1 = [A a; c^T 0; c^T eps]  special rows r1a (c^T 0), r1b (c^T eps), special column c1
   M2 = [eps b^T; 0 b^T; d D]  special rows r2a (eps b^T), r2b (0 b^T), special column c2 *)
Definition ysum (p : Z) (m1 n1 : nat) (M1 : mat) (m2 n2 : nat) (M2 : mat)
                (r1a r1b c1 r2a r2b c2 : nat) : kres :=
  if negb (Nat.ltb r1a m1 && Nat.ltb r1b m1 && Nat.ltb c1 n1 && Nat.ltb r2a m2 && Nat.ltb r2b m2 && Nat.ltb c2 n2 &&
           negb (Nat.eqb r1a r1b) && negb (Nat.eqb r2a r2b)) then KErr
  else
    let R1 := keep_idx m1 [r1a; r1b] in let C1 := keep_idx n1 [c1] in
    let R2 := keep_idx m2 [r2a; r2b] in let C2 := keep_idx n2 [c2] in
    let c := pick (rowv M1 r1a) C1 in
    let c' := pick (rowv M1 r1b) C1 in
    let b := pick (rowv M2 r2a) C2 in
    let b' := pick (rowv M2 r2b) C2 in
    let e1 := get M1 r1b c1 in let e2 := get M2 r2a c2 in
    if negb (zvec_eqb c c' && (get M1 r1a c1 =? 0) && negb (e1 =? 0) &&
             zvec_eqb b b' && (get M2 r2b c2 =? 0) && negb (e2 =? 0) && (e1 =? e2)) then KErr
    else
      let a := pick (colv m1 M1 c1) R1 in
      let d := pick (colv m2 M2 c2) R2 in
      KOk (block4 (submat M1 R1 C1) (outer p a b) (outer p d c) (submat M2 R2 C2)).

(* ---------- 3-sum ---------- *)
(* M1 = [A 0; C_i* alpha; C_j* beta]   special rows i1 j1, special columns k1 l1 (real) and z1 (artificial)
   M2 = [gamma delta 0^T; C_*k C_*l D]  special rows z2 (artificial), i2 j2 (real), special columns k2 l2
   M  = [A 0; C D] with C the rank-2 matrix spanned by its rows i,j and columns k,l *)
Definition inv2 (p : Z) (a b c d : Z) : option (Z * Z * Z * Z) :=
  let dt := modulo_ternary (a * d - b * c) p in
  if dt =? 0 then None
  else (* dt is +-1 modulo p, its own inverse *)
    Some (modulo_ternary (dt * d) p, modulo_ternary (- dt * b) p, modulo_ternary (- dt * c) p, modulo_ternary (dt * a) p).

Definition threesum (p : Z) (m1 n1 : nat) (M1 : mat) (m2 n2 : nat) (M2 : mat)
                    (i1 j1 k1 l1 z1 z2 i2 j2 k2 l2 : nat) : kres :=
  if negb (Nat.ltb i1 m1 && Nat.ltb j1 m1 && Nat.ltb k1 n1 && Nat.ltb l1 n1 && Nat.ltb z1 n1 &&
           Nat.ltb z2 m2 && Nat.ltb i2 m2 && Nat.ltb j2 m2 && Nat.ltb k2 n2 && Nat.ltb l2 n2 &&
           nodupn [i1; j1] && nodupn [k1; l1; z1] && nodupn [z2; i2; j2] && nodupn [k2; l2]) then KErr
  else
    let R1 := keep_idx m1 [i1; j1] in let C1 := keep_idx n1 [z1] in
    let R2 := keep_idx m2 [z2] in let C2 := keep_idx n2 [k2; l2] in
    let alpha := get M1 i1 z1 in let beta := get M1 j1 z1 in
    let gamma := get M2 z2 k2 in let delta := get M2 z2 l2 in
    let cik := get M1 i1 k1 in let cil := get M1 i1 l1 in
    let cjk := get M1 j1 k1 in let cjl := get M1 j1 l1 in
    let N := [[gamma; delta; 0]; [cik; cil; alpha]; [cjk; cjl; beta]] in
    if negb (all_zero_l (pick (colv m1 M1 z1) R1) && is_pm1 alpha && is_pm1 beta &&
             all_zero_l (pick (rowv M2 z2) C2) && is_pm1 gamma && is_pm1 delta &&
             (cik =? get M2 i2 k2) && (cil =? get M2 i2 l2) && (cjk =? get M2 j2 k2) && (cjl =? get M2 j2 l2) &&
             (if p =? 3 then tu_bf 3 3 N else true)) then KErr
    else
      match inv2 p cik cil cjk cjl with
      | None => KErr
      | Some (w, x, y, z) =>
        (* C[r][c] = (C[r][k], C[r][l]) * inv * (C[i][c]; C[j][c]) *)
        let Ci := pick (rowv M1 i1) C1 in
        let Cj := pick (rowv M1 j1) C1 in
        let Cm := map (fun r => let rk := get M2 r k2 in let rl := get M2 r l2 in
                                let u := rk * w + rl * y in let v := rk * x + rl * z in
                                map (fun ij => modulo_ternary (u * fst ij + v * snd ij) p) (combine Ci Cj)) R2 in
        KOk (block4 (submat M1 R1 C1) (zeros (m1 - 2) (n2 - 2)) Cm (submat M2 R2 C2))
      end
with all_zero_l_dummy := 0.
