(* KsumModel.v — the k-sum block formulas of include/cmr/separation.h (2-sum, Delta-sum, Y-sum, 3-sum)
   as executable definitions on dense matrices with special rows / columns at arbitrary positions, and the
   judges for CMR*Compose and for the decompose-then-compose round trip.  No proofs here. *)
From Cmr Require Import Base Det PivotModel.
Local Open Scope Z_scope.

Inductive kres := KOk (M : mat) | KErr.

(* positions 0..k-1 of a list except those listed *)
Definition keep_idx (k : nat) (drop : list nat) : list nat := filter (fun i => negb (memn i drop)) (iota 0 k).

Definition rowv (M : mat) (r : nat) : list Z := nthR M r.
Definition colv (m : nat) (M : mat) (c : nat) : list Z := map (fun i => get M i c) (iota 0 m).
Definition pick (v : list Z) (idx : list nat) : list Z := map (fun i => nthZ v i) idx.

Definition outer (p : Z) (d c : list Z) : mat := map (fun di => map (fun cj => modulo_ternary (di * cj) p) c) d.
Definition zeros (m n : nat) : mat := mk_mat m n (fun _ _ => 0).
Fixpoint hcat (A B : mat) : mat :=
  match A, B with
  | a :: A', b :: B' => (a ++ b) :: hcat A' B'
  | _, _ => []
  end.
Definition block4 (TL TR BL BR : mat) : mat := hcat TL TR ++ hcat BL BR.

Definition zvec_eqb := zlist_eqb.
Definition all_zero_l (v : list Z) : bool := forallb (fun x => x =? 0) v.
Definition is_pm1 (x : Z) : bool := (x =? 1) || (x =? -1).

(* ---------- 2-sum ---------- *)
(* variant 1: M1 = [A; c^T] (special row r1), M2 = [d D] (special column c2):  M = [A 0; d c^T D]
   variant 2: M1 = [A a] (special column c1), M2 = [b^T; D] (special row r2):  M = [A a b^T; 0 D] *)
Definition twosum (p : Z) (m1 n1 : nat) (M1 : mat) (m2 n2 : nat) (M2 : mat)
                  (fsr fsc ssr ssc : option nat) : kres :=
  match fsr, fsc, ssr, ssc with
  | Some r1, None, None, Some c2 =>
    if Nat.ltb r1 m1 && Nat.ltb c2 n2 then
      let R1 := keep_idx m1 [r1] in let C2 := keep_idx n2 [c2] in
      let A := submat M1 R1 (iota 0 n1) in
      let c := rowv M1 r1 in
      let d := colv m2 M2 c2 in
      let D := submat M2 (iota 0 m2) C2 in
      KOk (block4 A (zeros (m1 - 1) (n2 - 1)) (outer p d (pick c (iota 0 n1))) D)
    else KErr
  | None, Some c1, Some r2, None =>
    if Nat.ltb c1 n1 && Nat.ltb r2 m2 then
      let C1 := keep_idx n1 [c1] in let R2 := keep_idx m2 [r2] in
      let A := submat M1 (iota 0 m1) C1 in
      let a := colv m1 M1 c1 in
      let b := rowv M2 r2 in
      let D := submat M2 R2 (iota 0 n2) in
      KOk (block4 A (outer p a (pick b (iota 0 n2))) (zeros (m2 - 1) (n1 - 1)) D)
    else KErr
  | _, _, _, _ => KErr
  end.

(* ---------- Delta-sum ---------- *)
(* M1 = [A a a; c^T 0 eps]  special row r1, special columns c1a (a;0), c1b (a;eps)
   M2 = [eps 0 b^T; d d D]  special row r2, special columns c2a (eps;d), c2b (0;d)
   M  = [A a b^T; d c^T D] *)
Definition deltasum (p : Z) (m1 n1 : nat) (M1 : mat) (m2 n2 : nat) (M2 : mat)
                    (r1 c1a c1b r2 c2a c2b : nat) : kres :=
  if negb (Nat.ltb r1 m1 && Nat.ltb c1a n1 && Nat.ltb c1b n1 && Nat.ltb r2 m2 && Nat.ltb c2a n2 && Nat.ltb c2b n2 &&
           negb (Nat.eqb c1a c1b) && negb (Nat.eqb c2a c2b)) then KErr
  else
    let R1 := keep_idx m1 [r1] in let C1 := keep_idx n1 [c1a; c1b] in
    let R2 := keep_idx m2 [r2] in let C2 := keep_idx n2 [c2a; c2b] in
    let a := pick (colv m1 M1 c1a) R1 in
    let a' := pick (colv m1 M1 c1b) R1 in
    let d := pick (colv m2 M2 c2a) R2 in
    let d' := pick (colv m2 M2 c2b) R2 in
    let e1 := get M1 r1 c1b in let e2 := get M2 r2 c2a in
    if negb (zvec_eqb a a' && (get M1 r1 c1a =? 0) && negb (e1 =? 0) &&
             zvec_eqb d d' && (get M2 r2 c2b =? 0) && negb (e2 =? 0) && (e1 =? e2)) then KErr
    else
      let c := pick (rowv M1 r1) C1 in
      let b := pick (rowv M2 r2) C2 in
      KOk (block4 (submat M1 R1 C1) (outer p a b) (outer p d c) (submat M2 R2 C2)).

(* ---------- Y-sum ---------- *)
(* M1 = [A a; c^T 0; c^T eps]  special rows r1a (c^T 0), r1b (c^T eps), special column c1
   M2 = [eps b^T; 0 b^T; d D]  special rows r2a (eps b^T), r2b (0 b^T), special column c2 *)
Definition ysum (p : Z) (m1 n1 : nat) (M1 : mat) (m2 n2 : nat) (M2 : mat)
                (r1a r1b c1 r2a r2b c2 : nat) : kres :=
  if negb (Nat.ltb r1a m1 && Nat.ltb r1b m1 && Nat.ltb c1 n1 && Nat.ltb r2a m2 && Nat.ltb r2b m2 && Nat.ltb c2 n2 &&
           negb (Nat.eqb r1a r1b) && negb (Nat.eqb r2a r2b)) then KErr
  else
    let R1 := keep_idx m1 [r1a; r1b] in let C1 := keep_idx n1 [c1] in
    let R2 := keep_idx m2 [r2a; r2b] in let C2 := keep_idx n2 [c2] in
    let c := pick (rowv M1 r1a) C1 in
    let c' := pick (rowv M1 r1b) C1 in
    let b := pick (rowv M2 r2a) C2 in
    let b' := pick (rowv M2 r2b) C2 in
    let e1 := get M1 r1b c1 in let e2 := get M2 r2a c2 in
    if negb (zvec_eqb c c' && (get M1 r1a c1 =? 0) && negb (e1 =? 0) &&
             zvec_eqb b b' && (get M2 r2b c2 =? 0) && negb (e2 =? 0) && (e1 =? e2)) then KErr
    else
      let a := pick (colv m1 M1 c1) R1 in
      let d := pick (colv m2 M2 c2) R2 in
      KOk (block4 (submat M1 R1 C1) (outer p a b) (outer p d c) (submat M2 R2 C2)).

(* ---------- 3-sum ---------- *)
(* M1 = [A 0; C_i* alpha; C_j* beta]   special rows i1 j1, special columns k1 l1 (real) and z1 (artificial)
   M2 = [gamma delta 0^T; C_*k C_*l D]  special rows z2 (artificial), i2 j2 (real), special columns k2 l2
   M  = [A 0; C D] with C the rank-2 matrix spanned by its rows i,j and columns k,l *)
Definition inv2 (p : Z) (a b c d : Z) : option (Z * Z * Z * Z) :=
  let dt := modulo_ternary (a * d - b * c) p in
  if dt =? 0 then None
  else (* dt is +-1 modulo p, its own inverse *)
    Some (modulo_ternary (dt * d) p, modulo_ternary (- dt * b) p, modulo_ternary (- dt * c) p, modulo_ternary (dt * a) p).

Definition threesum (p : Z) (m1 n1 : nat) (M1 : mat) (m2 n2 : nat) (M2 : mat)
                    (i1 j1 k1 l1 z1 z2 i2 j2 k2 l2 : nat) : kres :=
  if negb (Nat.ltb i1 m1 && Nat.ltb j1 m1 && Nat.ltb k1 n1 && Nat.ltb l1 n1 && Nat.ltb z1 n1 &&
           Nat.ltb z2 m2 && Nat.ltb i2 m2 && Nat.ltb j2 m2 && Nat.ltb k2 n2 && Nat.ltb l2 n2 &&
           nodupn [i1; j1] && nodupn [k1; l1; z1] && nodupn [z2; i2; j2] && nodupn [k2; l2]) then KErr
  else
    let R1 := keep_idx m1 [i1; j1] in let C1 := keep_idx n1 [z1] in
    let R2 := keep_idx m2 [z2] in let C2 := keep_idx n2 [k2; l2] in
    let alpha := get M1 i1 z1 in let beta := get M1 j1 z1 in
    let gamma := get M2 z2 k2 in let delta := get M2 z2 l2 in
    let cik := get M1 i1 k1 in let cil := get M1 i1 l1 in
    let cjk := get M1 j1 k1 in let cjl := get M1 j1 l1 in
    let N := [[gamma; delta; 0]; [cik; cil; alpha]; [cjk; cjl; beta]] in
    if negb (all_zero_l (pick (colv m1 M1 z1) R1) && is_pm1 alpha && is_pm1 beta &&
             all_zero_l (pick (rowv M2 z2) C2) && is_pm1 gamma && is_pm1 delta &&
             (cik =? get M2 i2 k2) && (cil =? get M2 i2 l2) && (cjk =? get M2 j2 k2) && (cjl =? get M2 j2 l2) &&
             (* over GF(3) the connecting matrix N must be totally unimodular (separation.h); over GF(2) signs are
                meaningless and the only requirement is the nonsingular 2x2 block, checked by inv2 below *)
             (if p =? 3 then tu_bf 3 3 N else true)) then KErr
    else
      match inv2 p cik cil cjk cjl with
      | None => KErr
      | Some (w, x, y, z) =>
        (* C[r][c] = (C[r][k], C[r][l]) * inv * (C[i][c]; C[j][c]) *)
        let Ci := pick (rowv M1 i1) C1 in
        let Cj := pick (rowv M1 j1) C1 in
        let Cm := map (fun r => let rk := get M2 r k2 in let rl := get M2 r l2 in
                                let u := rk * w + rl * y in let v := rk * x + rl * z in
                                map (fun ij => modulo_ternary (u * fst ij + v * snd ij) p) (combine Ci Cj)) R2 in
        KOk (block4 (submat M1 R1 C1) (zeros (m1 - 2) (n2 - 2)) Cm (submat M2 R2 C2))
      end.

(* ---------- dispatch on the kind of sum and the special-line lists ---------- *)
(* kind: 2 = 2-sum, 3 = Delta-sum, 4 = Y-sum, 5 = 3-sum *)
Definition ksum (kind p : Z) (m1 n1 : nat) (M1 : mat) (m2 n2 : nat) (M2 : mat)
                (fsr fsc ssr ssc : list nat) : kres :=
  if kind =? 2 then
    match fsr, fsc, ssr, ssc with
    | [r1], [], [], [c2] => twosum p m1 n1 M1 m2 n2 M2 (Some r1) None None (Some c2)
    | [], [c1], [r2], [] => twosum p m1 n1 M1 m2 n2 M2 None (Some c1) (Some r2) None
    | _, _, _, _ => KErr
    end
  else if kind =? 3 then
    match fsr, fsc, ssr, ssc with
    | [r1], [c1a; c1b], [r2], [c2a; c2b] => deltasum p m1 n1 M1 m2 n2 M2 r1 c1a c1b r2 c2a c2b
    | _, _, _, _ => KErr
    end
  else if kind =? 4 then
    match fsr, fsc, ssr, ssc with
    | [r1a; r1b], [c1], [r2a; r2b], [c2] => ysum p m1 n1 M1 m2 n2 M2 r1a r1b c1 r2a r2b c2
    | _, _, _, _ => KErr
    end
  else if kind =? 5 then
    match fsr, fsc, ssr, ssc with
    | [i1; j1], [k1; l1; z1], [z2; i2; j2], [k2; l2] => threesum p m1 n1 M1 m2 n2 M2 i1 j1 k1 l1 z1 z2 i2 j2 k2 l2
    | _, _, _, _ => KErr
    end
  else KErr.

Definition in_dom (p : Z) (M : mat) : bool := if p =? 2 then is_binary M else is_ternary M.
Definition small (m n : nat) : bool := Nat.leb m 7 && Nat.leb n 7.

Definition dcsr_o : dec (option (nat * nat * mat)) :=
  h <- dbool ;; if h then (x <- dcsr_dense ;; dret (Some x)) else dret None.

(* record (kcompose): kind p M1 M2 fsr fsc ssr ssc rc hasResult [csr] *)
Definition judge_kcompose (rec : list Z) : Z :=
  match (kind <- dZ ;; p <- dZ ;; x1 <- dmat ;; x2 <- dmat ;;
         fsr <- dlist dnat ;; fsc <- dlist dnat ;; ssr <- dlist dnat ;; ssc <- dlist dnat ;;
         rc <- dZ ;; res <- dcsr_o ;; dend (kind, p, x1, x2, fsr, fsc, ssr, ssc, rc, res)) rec with
  | Some ((kind, p, (m1, n1, M1), (m2, n2, M2), fsr, fsc, ssr, ssc, rc, res), _) =>
    if negb (((p =? 2) || (p =? 3)) && in_dom p M1 && in_dom p M2) then 0
    else
      match ksum kind p m1 n1 M1 m2 n2 M2 fsr fsc ssr ssc with
      | KErr => if rc =? 0 then 142 else 0          (* malformed operands must be refused *)
      | KOk M =>
        if negb (rc =? 0) then 140
        else match res with
             | Some (m, n, R) =>
               if negb (mat_eqb R M) then 141
               else if (p =? 3) && small m n && small m1 n1 && small m2 n2 &&
                       tu_bf m1 n1 M1 && tu_bf m2 n2 M2 && negb (tu_bf m n R) then 143
               else 0
             | None => 141
             end
      end
  | None => 1
  end.

(* record (kdecomp):
     kind p M | ok | eps beta gamma both | M1: rc csr rowsOrigin colsOrigin fsr fsc | M2: rc csr rowsOrigin colsOrigin ssr ssc
     | compose: rc hasResult [csr]
   origins are lists of Z with -1 for "none" (artificial line). *)
Definition dcomp : dec (Z * option (nat * nat * mat) * list Z * list Z * list nat * list nat) :=
  rc <- dZ ;; M <- dcsr_o ;; ro <- dlist dZ ;; co <- dlist dZ ;; sr <- dlist dnat ;; sc <- dlist dnat ;;
  dret (rc, M, ro, co, sr, sc).

Definition origins (orig : list Z) (keep : list nat) : list Z := map (fun i => nthZ orig i) keep.
Definition is_perm_of (k : nat) (l : list Z) : bool :=
  Nat.eqb (length l) k && forallb (fun x => (0 <=? x) && (x <? Z.of_nat k)) l &&
  nodupn (map Z.to_nat l).

(* the special lines that are removed from the components when the sum is formed *)
Definition removed_rows (kind : Z) (first : bool) (sr : list nat) : list nat :=
  if kind =? 5 then (if first then sr else firstn 1 sr) else sr.
Definition removed_cols (kind : Z) (first : bool) (sc : list nat) : list nat :=
  if kind =? 5 then (if first then skipn 2 sc else sc) else sc.

Definition judge_kdecomp (rec : list Z) : Z :=
  match (kind <- dZ ;; p <- dZ ;; x <- dmat ;; ok <- dZ ;; eps <- dZ ;; beta <- dZ ;; gamma <- dZ ;; both <- dbool ;;
         c1 <- dcomp ;; c2 <- dcomp ;; rcc <- dZ ;; res <- dcsr_o ;;
         dend (kind, p, x, ok, both, c1, c2, rcc, res)) rec with
  | Some ((kind, p, (m, n, M), ok, both, (rc1, X1, ro1, co1, fsr, fsc), (rc2, X2, ro2, co2, ssr, ssc), rcc, res), _) =>
    if negb (ok =? 1) then 0
    else if negb (((p =? 2) || (p =? 3)) && in_dom p M) then 0
    else if negb ((rc1 =? 0) && (rc2 =? 0)) then 150
    else
      match X1, X2 with
      | Some (m1, n1, M1), Some (m2, n2, M2) =>
        match ksum kind p m1 n1 M1 m2 n2 M2 fsr fsc ssr ssc with
        | KErr => 151                                   (* the components do not have the documented shape *)
        | KOk Mc =>
          let orow := origins ro1 (keep_idx m1 (removed_rows kind true fsr)) ++
                      origins ro2 (keep_idx m2 (removed_rows kind false ssr)) in
          let ocol := origins co1 (keep_idx n1 (removed_cols kind true fsc)) ++
                      origins co2 (keep_idx n2 (removed_cols kind false ssc)) in
          if negb (is_perm_of m orow && is_perm_of n ocol) then 152
          else if negb (mat_eqb Mc (submat M (map Z.to_nat orow) (map Z.to_nat ocol))) then 153
          else if negb (rcc =? 0) then 154
          else match res with
               | Some (mr, nr, R) =>
                 if negb (mat_eqb R Mc) then 155
                 else if (p =? 3) && ((kind =? 2) || (((kind =? 3) || (kind =? 4) || (kind =? 5)) && both &&
                                                   Nat.leb 4 (length (keep_idx m1 (removed_rows kind true fsr)) + length (keep_idx n1 (removed_cols kind true fsc))) &&
                                                   Nat.leb 4 (length (keep_idx m2 (removed_rows kind false ssr)) + length (keep_idx n2 (removed_cols kind false ssc))))) &&
                         small m n && tu_bf m n M && negb (tu_bf m1 n1 M1 && tu_bf m2 n2 M2) then 156
                 else 0
               | None => 155
               end
        end
      | _, _ => 150
      end
  | None => 1
  end.
