(* JudgeCompleteLeaf.v — completeness of judge_leaf (split from JudgeComplete2.v so that only the properties that use the
   translated leaf functions depend on the generated file LeafGen.v). *)
From Coq Require Import List ZArith Bool Lia.
From Cmr Require Import Base Det BaseProofs LeafSem LeafGen LeafModel LeafJudgeProofs.
Import ListNotations.
Local Open Scope Z_scope.

(* ------------------------------------------------------------------------------------------ *)
(* 8. judge_leaf                                                                                *)
(* ------------------------------------------------------------------------------------------ *)

(* literally the two conjuncts of judge_leaf_sound about the decoded fields: the function generated from the C text
   evaluates (without undefined behaviour) to the reported value, and the value satisfies the hand-written spec *)
Definition leaf_ok (fn : Z) (args : list Z) (r : Z) : Prop :=
  leaf_gen fn args = Some (Some r) /\ leaf_spec fn args r = true.

Theorem judge_leaf_complete : forall rec fn args r rest,
  leaf_input rec = Some ((fn, args, r), rest) ->
  leaf_ok fn args r ->
  judge_leaf rec = 0.
Proof.
  intros rec fn args r rest Hdec [Hg Hsp].
  unfold judge_leaf. unfold leaf_input in Hdec. rewrite Hdec. cbv beta iota.
  rewrite Hg. cbv beta iota. rewrite Z.eqb_refl. cbn [negb]. rewrite Hsp. reflexivity.
Qed.

Theorem judge_leaf_sound' : forall rec fn args r rest,
  leaf_input rec = Some ((fn, args, r), rest) ->
  judge_leaf rec = 0 ->
  leaf_ok fn args r.
Proof.
  intros rec fn args r rest Hdec Hj.
  destruct (judge_leaf_sound rec Hj) as [fn' [args' [r' [rest' [Hdec' [Hg Hsp]]]]]].
  rewrite Hdec in Hdec'. injection Hdec' as <- <- <- <-. split; assumption.
Qed.

Corollary judge_leaf_iff : forall rec fn args r rest,
  leaf_input rec = Some ((fn, args, r), rest) ->
  (judge_leaf rec = 0 <-> leaf_ok fn args r).
Proof.
  intros. split; [eapply judge_leaf_sound' | eapply judge_leaf_complete]; eassumption.
Qed.

(* the same without a decoding hypothesis: exactly the statement of judge_leaf_sound, as an equivalence *)
Corollary judge_leaf_iff_total : forall rec,
  judge_leaf rec = 0 <->
  exists fn args r rest, leaf_input rec = Some ((fn, args, r), rest) /\
    leaf_gen fn args = Some (Some r) /\ leaf_spec fn args r = true.
Proof.
  intros rec. split; [apply judge_leaf_sound|].
  intros [fn [args [r [rest [Hdec H]]]]]. exact (judge_leaf_complete _ _ _ _ _ Hdec H).
Qed.

Print Assumptions judge_leaf_complete.
Print Assumptions judge_leaf_iff.
Print Assumptions judge_leaf_iff_total.

