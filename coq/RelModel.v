(* RelModel.v — C10: relations between verdicts on related presentations of a matrix.  The judge first verifies that
   M' really is the stated transform of M (so the generator is not trusted), then checks that the recognizers'
   verdicts on M and M' are related as the closure theorems demand.  No proofs here. *)
From Cmr Require Import Base Det PivotModel SpModel.
Local Open Scope Z_scope.

(* verdict vector positions *)
Definition V_TU := 0%nat. Definition V_REG := 1%nat. Definition V_GRA := 2%nat. Definition V_COG := 3%nat.
Definition V_NET := 4%nat. Definition V_CONET := 5%nat. Definition V_SPT := 6%nat. Definition V_SPB := 7%nat.
Definition V_BAL := 8%nat. Definition V_CAM := 9%nat.

Definition vget (v : list Z) (i : nat) : Z := nthZ v i.
(* both verdicts are determined (0 or 1) *)
Definition det2 (a b : Z) : bool := ((a =? 0) || (a =? 1)) && ((b =? 0) || (b =? 1)).
Definition same_at (v v' : list Z) (i i' : nat) : bool :=
  (* 'Camion-signed' is only a property of the matrix (rather than of the order in which the signing algorithm visits
     it) when the matrix is balanceable; it is compared only when one of the two presentations is reported TU *)
  if Nat.eqb i 9 && negb ((vget v 0 =? 1) || (vget v' 0 =? 1)) then true
  else if det2 (vget v i) (vget v' i') then vget v i =? vget v' i' else true.
(* yes on the first implies yes on the second *)
Definition imp_at (v v' : list Z) (i : nat) : bool :=
  if det2 (vget v i) (vget v' i) then (vget v i =? 0) || (vget v' i =? 1) else true.

Definition is_pm1' (x : Z) : bool := (x =? 1) || (x =? -1).
Definition keep_line (k drop : nat) : list nat := filter (fun i => negb (Nat.eqb i drop)) (iota 0 k).
Definition is_perm_l (k : nat) (l : list nat) : bool := Nat.eqb (length l) k && all_lt k l && nodupn l.

Definition line_reducible (ternary : bool) (m n : nat) (M : mat) (is_row : bool) (k : nat) : bool :=
  if is_row then row_reducible ternary M (all_true m) (all_true n) k
  else col_reducible ternary M (all_true m) (all_true n) k.

(* record: kind params.. | M | M' | 10 verdicts of M | 10 verdicts of M'
   kinds: 1 permutation (params: row perm, col perm), 2 scaling (row signs, col signs), 3 transpose,
          4 M' = M plus one reducible line (params: is_row, position), 5 M' = submatrix of M (params: rows, cols),
          6 ternary pivot (params: r c), 7 binary pivot (params: r c) *)
Definition judge_rel (rec : list Z) : Z :=
  match (kind <- dZ ;; p1 <- dlist dZ ;; p2 <- dlist dZ ;; x <- dmat ;; x' <- dmat ;;
         v <- drep dZ 10 ;; v' <- drep dZ 10 ;; dend (kind, p1, p2, x, x', v, v')) rec with
  | Some ((kind, p1, p2, (m, n, M), (m', n', M'), v, v'), _) =>
    let n1 := map Z.to_nat p1 in let n2 := map Z.to_nat p2 in
    let all_same := forallb (fun i => same_at v v' i i) (iota 0 10) in
    if kind =? 1 then
      if negb (is_perm_l m n1 && is_perm_l n n2 && Nat.eqb m m' && Nat.eqb n n' && mat_eqb M' (submat M n1 n2)) then 400
      else if all_same then 0 else 401
    else if kind =? 2 then
      if negb (Nat.eqb (length p1) m && Nat.eqb (length p2) n && forallb is_pm1' p1 && forallb is_pm1' p2 &&
               Nat.eqb m m' && Nat.eqb n n' &&
               mat_eqb M' (mk_mat m n (fun i j => nthZ p1 i * nthZ p2 j * get M i j))) then 400
      else if forallb (fun i => same_at v v' i i) [V_TU; V_NET; V_CONET; V_SPT; V_BAL; V_CAM] then 0 else 402
    else if kind =? 3 then
      if negb (Nat.eqb m n' && Nat.eqb n m' && mat_eqb M' (transpose m n M)) then 400
      else if forallb (fun i => same_at v v' i i) [V_TU; V_REG; V_SPT; V_SPB; V_BAL; V_CAM] &&
              same_at v v' V_GRA V_COG && same_at v v' V_COG V_GRA &&
              same_at v v' V_NET V_CONET && same_at v v' V_CONET V_NET then 0 else 403
    else if kind =? 4 then
      match p1 with
      | [isrow; pos] =>
        let k := Z.to_nat pos in
        let isr := negb (isrow =? 0) in
        let back := if isr then submat M' (keep_line m' k) (iota 0 n') else submat M' (iota 0 m') (keep_line n' k) in
        if negb ((if isr then Nat.eqb m' (S m) && Nat.eqb n' n && Nat.ltb k m' else Nat.eqb m' m && Nat.eqb n' (S n) && Nat.ltb k n') &&
                 mat_eqb back M && line_reducible true m' n' M' isr k && is_ternary M') then 400
        else if forallb (fun i => same_at v v' i i) [V_TU; V_REG; V_GRA; V_COG; V_NET; V_CONET; V_SPT; V_BAL] &&
                (if line_reducible false m' n' M' isr k then same_at v v' V_SPB V_SPB else true) then 0 else 404
      | _ => 400
      end
    else if kind =? 5 then
      if negb (strictly_increasing n1 && strictly_increasing n2 && all_lt m n1 && all_lt n n2 &&
               Nat.eqb m' (length n1) && Nat.eqb n' (length n2) && mat_eqb M' (submat M n1 n2)) then 400
      else if forallb (fun i => imp_at v v' i) (iota 0 9) then 0 else 405
    else if (kind =? 6) || (kind =? 7) then
      match p1 with
      | [r; c] =>
        let q := if kind =? 6 then 3 else 2 in
        if negb (Nat.eqb m m' && Nat.eqb n n' && (if kind =? 6 then is_ternary M else is_binary M) &&
                 Z.ltb r (Z.of_nat m) && Z.ltb c (Z.of_nat n) && (0 <=? r) && (0 <=? c) &&
                 negb (modulo_ternary (get M (Z.to_nat r) (Z.to_nat c)) q =? 0) &&
                 mat_eqb M' (reduce q (pivot_raw m n M (Z.to_nat r) (Z.to_nat c)))) then 400
        else if (if kind =? 6 then same_at v v' V_TU V_TU else same_at v v' V_REG V_REG) then 0 else 406
      | _ => 400
      end
    else 400
  | None => 1
  end.
