(* TextProofs.v — proofs about the text-format model (TextModel.v) and the CSR <-> dense conversion (Base.v). *)
From Cmr Require Import Base BaseProofs TextModel.
Require Import ZifyBool.
Local Open Scope Z_scope.

(* ========================================================================================== *)
(* 0. Generic list helpers: firstn', skipn', nth/iota                                          *)
(* ========================================================================================== *)

Lemma firstn'_length : forall (A : Type) n (l : list A),
  (n <= length l)%nat -> length (firstn' n l) = n.
Proof.
  intros A; induction n; intros l H; [reflexivity|].
  destruct l as [|x l]; simpl in *; [lia|]. rewrite IHn; [reflexivity | lia].
Qed.

Lemma skipn'_length : forall (A : Type) n (l : list A),
  length (skipn' n l) = (length l - n)%nat.
Proof.
  intros A; induction n; intros l; [simpl; lia|].
  destruct l as [|x l]; simpl; [reflexivity | apply IHn].
Qed.

Lemma firstn'_In : forall (A : Type) n (l : list A) x, In x (firstn' n l) -> In x l.
Proof.
  intros A; induction n; intros l x H; [destruct H|].
  destruct l as [|y l]; simpl in *; [destruct H|]. destruct H as [H|H]; [now left | right; now apply IHn].
Qed.

Lemma skipn'_In : forall (A : Type) n (l : list A) x, In x (skipn' n l) -> In x l.
Proof.
  intros A; induction n; intros l x H; [exact H|].
  destruct l as [|y l]; simpl in *; [destruct H|]. right; now apply IHn.
Qed.

Lemma firstn'_app_exact : forall (A : Type) (a b : list A), firstn' (length a) (a ++ b) = a.
Proof. intros A; induction a; intros b; simpl; [reflexivity | now rewrite IHa]. Qed.

Lemma skipn'_app_exact : forall (A : Type) (a b : list A), skipn' (length a) (a ++ b) = b.
Proof. intros A; induction a; intros b; simpl; [reflexivity | apply IHa]. Qed.

Lemma firstn'_forallb : forall (A : Type) (p : A -> bool) n l,
  forallb p l = true -> forallb p (firstn' n l) = true.
Proof.
  intros A p; induction n; intros l H; [reflexivity|].
  destruct l as [|x l]; simpl in *; [reflexivity|].
  apply andb_true_iff in H. destruct H as [H1 H2]. rewrite H1. cbn [andb]. now apply IHn.
Qed.

Lemma skipn'_forallb : forall (A : Type) (p : A -> bool) n l,
  forallb p l = true -> forallb p (skipn' n l) = true.
Proof.
  intros A p; induction n; intros l H; [exact H|].
  destruct l as [|x l]; simpl in *; [reflexivity|].
  apply andb_true_iff in H. destruct H as [H1 H2]. now apply IHn.
Qed.

Lemma map_iota_shift : forall (B : Type) (f : nat -> B) k s,
  map f (iota (S s) k) = map (fun i => f (S i)) (iota s k).
Proof. intros B f; induction k; intros s; simpl; [reflexivity | now rewrite IHk]. Qed.

Lemma map_nth_iota : forall (B : Type) (d : B) (l : list B),
  map (fun i => nth i l d) (iota 0 (length l)) = l.
Proof.
  intros B d; induction l as [|x l IH]; [reflexivity|].
  cbn [length iota map nth]. rewrite map_iota_shift. cbn [nth]. now rewrite IH.
Qed.

Lemma nthR_nth : forall (M : mat) i, nthR M i = nth i M [].
Proof. induction M as [|r M IH]; intros [|i]; simpl; auto. Qed.

Lemma nthZ_nth : forall (l : list Z) i, nthZ l i = nth i l 0.
Proof. induction l as [|r M IH]; intros [|i]; simpl; auto. Qed.

Lemma nthn_nth : forall (l : list nat) i, nthn l i = nth i l 0%nat.
Proof. induction l as [|r M IH]; intros [|i]; simpl; auto. Qed.

(* ========================================================================================== *)
(* D. Soundness of acceptance                                                                  *)
(* ========================================================================================== *)

Lemma fits_0 : forall ty, fits ty 0 = true.
Proof. intros ty. unfold fits. destruct (ty =? 0), (ty =? 1); reflexivity. Qed.

Lemma take_ints_length : forall k toks vs rest,
  take_ints k toks = Some (vs, rest) -> length vs = k.
Proof.
  induction k; intros toks vs rest H; cbn [take_ints] in H.
  - inversion H; reflexivity.
  - destruct toks as [|t r]; [discriminate|].
    destruct (parse_int t) as [v|]; [|discriminate].
    destruct (take_ints k r) as [[vs' rest']|] eqn:E; [|discriminate].
    inversion H; subst. simpl. f_equal. eapply IHk; eassumption.
Qed.

Lemma chunk_wf : forall n m l, length l = (m * n)%nat -> wf_mat m n (chunk n m l) = true.
Proof.
  intros n. unfold wf_mat. induction m; intros l HL; [reflexivity|].
  cbn [chunk length forallb].
  assert (HL' : length (skipn' n l) = (m * n)%nat) by (rewrite skipn'_length; lia).
  specialize (IHm _ HL'). apply andb_true_iff in IHm. destruct IHm as [H1 H2].
  apply Nat.eqb_eq in H1. rewrite H1, Nat.eqb_refl, H2. cbn [andb].
  rewrite firstn'_length by lia. now rewrite Nat.eqb_refl.
Qed.

Lemma chunk_forallb : forall (p : Z -> bool) n m l,
  forallb p l = true -> forallb (forallb p) (chunk n m l) = true.
Proof.
  intros p n; induction m; intros l H; [reflexivity|].
  cbn [chunk forallb]. rewrite firstn'_forallb by assumption. cbn [andb].
  apply IHm. now apply skipn'_forallb.
Qed.

Lemma parse_dense_ok_wf : forall ty bytes m n M,
  parse_dense ty bytes = TOk m n M ->
  wf_mat m n M = true /\ forallb (forallb (fits ty)) M = true.
Proof.
  intros ty bytes m n M H. unfold parse_dense in H.
  destruct (take_ints 2 (tokens bytes)) as [[hd rest]|]; [|discriminate].
  destruct hd as [|a [|b [|c hd]]]; try discriminate.
  destruct (size_ok a && size_ok b); [|discriminate].
  destruct (take_ints (Z.to_nat a * Z.to_nat b) rest) as [[vs rest']|] eqn:E; [|discriminate].
  destruct (forallb (fits ty) vs) eqn:F; [|discriminate].
  inversion H; subst. split.
  - apply chunk_wf. eapply take_ints_length; eassumption.
  - now apply chunk_forallb.
Qed.

Lemma entry_of_fits : forall ty nz i j,
  (forall t, In t nz -> fits ty (snd t) = true) -> fits ty (entry_of nz i j) = true.
Proof.
  intros ty nz i j H. unfold entry_of.
  destruct (filter _ nz) as [|[[r c] v] tl] eqn:E; [apply fits_0|].
  assert (Hin : In (r, c, v) (filter (fun t => (fst (fst t) =? Z.of_nat i + 1) && (snd (fst t) =? Z.of_nat j + 1)) nz))
    by (rewrite E; now left).
  apply filter_In in Hin. destruct Hin as [Hin _]. apply (H _ Hin).
Qed.

Lemma mk_mat_forallb : forall (p : Z -> bool) m n f,
  (forall i j, p (f i j) = true) -> forallb (forallb p) (mk_mat m n f) = true.
Proof.
  intros p m n f H. unfold mk_mat.
  apply forallb_forall. intros r Hr. apply in_map_iff in Hr. destruct Hr as [i [<- _]].
  apply forallb_forall. intros x Hx. apply in_map_iff in Hx. destruct Hx as [j [<- _]]. apply H.
Qed.

Lemma parse_sparse_ok_wf : forall ty bytes m n M,
  parse_sparse ty bytes = TOk m n M ->
  wf_mat m n M = true /\ forallb (forallb (fits ty)) M = true.
Proof.
  intros ty bytes m n M H. unfold parse_sparse in H.
  destruct (take_ints 3 (tokens bytes)) as [[hd rest]|]; [|discriminate].
  destruct hd as [|a [|b [|c [|d hd]]]]; try discriminate.
  destruct (size_ok a && size_ok b && size_ok c); [|discriminate].
  destruct (triples (Z.to_nat c) rest) as [l|]; [|discriminate].
  match type of H with (if ?X && _ then _ else _) = _ => destruct X eqn:F end; [|discriminate].
  destruct (negb _); [|discriminate]. cbn [andb] in H.
  inversion H; subst. split; [apply wf_mk_mat|].
  apply mk_mat_forallb. intros i j. apply entry_of_fits.
  intros t Ht. apply filter_In in Ht. destruct Ht as [Ht _].
  rewrite forallb_forall in F. specialize (F _ Ht).
  apply andb_true_iff in F. apply F.
Qed.

Theorem parse_ok_wf : forall fmt ty bytes m n M,
  parse fmt ty bytes = TOk m n M ->
  wf_mat m n M = true /\ forallb (forallb (fits ty)) M = true.
Proof.
  intros fmt ty bytes m n M H. unfold parse in H.
  destruct (fmt =? 0); [eapply parse_dense_ok_wf | eapply parse_sparse_ok_wf]; eassumption.
Qed.

Definition textread_input : dec (Z * Z * list Z * Z * option (nat * nat * mat)) :=
  fmt <- dZ ;; ty <- dZ ;; bytes <- dbytes ;; rc <- dZ ;; res <- dcsr_m ;; dend (fmt, ty, bytes, rc, res).

Definition textwrite_input : dec (Z * Z * (nat * nat * mat) * list Z * Z * option (nat * nat * mat)) :=
  fmt <- dZ ;; ty <- dZ ;; x <- dmat ;; bytes <- dbytes ;; rc2 <- dZ ;; res <- dcsr_m ;;
  dend (fmt, ty, x, bytes, rc2, res).

Lemma triple_eqb_eq : forall (m n m' n' : nat) (R M : mat),
  Nat.eqb m m' && Nat.eqb n n' && mat_eqb R M = true -> m = m' /\ n = n' /\ R = M.
Proof.
  intros m n m' n' R M H. apply andb_true_iff in H. destruct H as [H H3].
  apply andb_true_iff in H. destruct H as [H1 H2].
  apply Nat.eqb_eq in H1. apply Nat.eqb_eq in H2. apply mat_eqb_eq in H3. auto.
Qed.

Theorem judge_textread_sound : forall rec fmt ty bytes rc res rest,
  textread_input rec = Some ((fmt, ty, bytes, rc, res), rest) ->
  judge_textread rec = 0 ->
  (parse fmt ty bytes = TErr -> rc <> 0) /\
  (forall m n M, parse fmt ty bytes = TOk m n M -> rc = 0 /\ res = Some (m, n, M)).
Proof.
  intros rec fmt ty bytes rc res rest Hdec Hj.
  unfold judge_textread in Hj. unfold textread_input in Hdec. rewrite Hdec in Hj.
  destruct (parse fmt ty bytes) as [m n M|].
  - split; [discriminate|]. intros m0 n0 M0 E. inversion E; subst.
    destruct (Z.eqb_spec rc 0) as [Hrc|Hrc]; cbn [negb] in Hj; [|discriminate].
    split; [assumption|].
    destruct res as [[[m' n'] R]|]; [|discriminate].
    destruct (Nat.eqb m0 m' && Nat.eqb n0 n' && mat_eqb R M0) eqn:E3; [|discriminate].
    apply triple_eqb_eq in E3. destruct E3 as [-> [-> ->]]. reflexivity.
  - split; [|discriminate]. intros _ Hrc. subst rc. discriminate.
Qed.

Theorem judge_textwrite_sound : forall rec fmt ty m n M bytes rc2 res rest,
  textwrite_input rec = Some ((fmt, ty, (m, n, M), bytes, rc2, res), rest) ->
  judge_textwrite rec = 0 ->
  forallb (forallb (fits ty)) M = true ->
  parse fmt ty bytes = TOk m n M /\ rc2 = 0 /\ res = Some (m, n, M).
Proof.
  intros rec fmt ty m n M bytes rc2 res rest Hdec Hj Hfit.
  unfold judge_textwrite in Hj. unfold textwrite_input in Hdec. rewrite Hdec in Hj.
  rewrite Hfit in Hj. cbn [negb] in Hj.
  destruct (parse fmt ty bytes) as [m' n' M'|]; [|discriminate].
  destruct (Nat.eqb m m' && Nat.eqb n n' && mat_eqb M' M) eqn:E1; cbn [negb] in Hj; [|discriminate].
  apply triple_eqb_eq in E1. destruct E1 as [<- [<- ->]].
  destruct (Z.eqb_spec rc2 0) as [Hrc|Hrc]; cbn [negb] in Hj; [|discriminate].
  destruct res as [[[m2 n2] R]|]; [|discriminate].
  destruct (Nat.eqb m m2 && Nat.eqb n n2 && mat_eqb R M) eqn:E3; [|discriminate].
  apply triple_eqb_eq in E3. destruct E3 as [<- [<- ->]]. auto.
Qed.

(* the decoder guarantees that the matrix given to the writer is well-formed *)
Lemma textwrite_input_wf : forall rec fmt ty m n M bytes rc2 res rest,
  textwrite_input rec = Some ((fmt, ty, (m, n, M), bytes, rc2, res), rest) -> wf_mat m n M = true.
Proof.
  intros rec fmt ty m n M bytes rc2 res rest H. unfold textwrite_input, dbind in H.
  destruct (dZ rec) as [[a r1]|]; [|discriminate].
  destruct (dZ r1) as [[b r2]|]; [|discriminate].
  destruct (dmat r2) as [[[[m0 n0] M0] r3]|] eqn:E; [|discriminate].
  destruct (dbytes r3) as [[by0 r4]|]; [|discriminate].
  destruct (dZ r4) as [[c r5]|]; [|discriminate].
  destruct (dcsr_m r5) as [[re r6]|]; [|discriminate].
  unfold dend in H. destruct r6; [|discriminate]. inversion H; subst.
  eapply dmat_wf; eassumption.
Qed.

(* ========================================================================================== *)
(* B. Decimal printing / parsing                                                               *)
(* ========================================================================================== *)

Lemma pos_digits_app : forall fuel n acc, pos_digits fuel n acc = pos_digits fuel n [] ++ acc.
Proof.
  induction fuel; intros n acc; cbn [pos_digits]; [reflexivity|].
  destruct (n <? 10); [reflexivity|].
  rewrite (IHfuel (n / 10) (_ :: acc)), (IHfuel (n / 10) [_]).
  rewrite <- app_assoc. reflexivity.
Qed.

Lemma digits_val_app : forall l1 l2 a, digits_val a (l1 ++ l2) = digits_val (digits_val a l1) l2.
Proof. induction l1; intros l2 a0; cbn [app digits_val]; [reflexivity | apply IHl1]. Qed.

Lemma pos_digits_digits : forall fuel n acc,
  0 <= n -> forallb is_digit acc = true -> forallb is_digit (pos_digits fuel n acc) = true.
Proof.
  induction fuel; intros n acc Hn Hacc; cbn [pos_digits]; [assumption|].
  destruct (Z.ltb_spec n 10) as [H|H].
  - cbn [forallb]. rewrite Hacc. unfold is_digit. lia.
  - apply IHfuel; [apply Z.div_pos; lia|].
    cbn [forallb]. rewrite Hacc. pose proof (Z.mod_pos_bound n 10 ltac:(lia)). unfold is_digit. lia.
Qed.

Lemma pos_digits_acc_nonempty : forall fuel n acc, acc <> [] -> pos_digits fuel n acc <> [].
Proof.
  induction fuel; intros n acc H; cbn [pos_digits]; [assumption|].
  destruct (n <? 10); [discriminate | apply IHfuel; discriminate].
Qed.

Lemma pos_digits_nonempty : forall fuel n acc, pos_digits (S fuel) n acc <> [].
Proof.
  intros fuel n acc. cbn [pos_digits].
  destruct (n <? 10); [discriminate | apply pos_digits_acc_nonempty; discriminate].
Qed.

Lemma pos_digits_val : forall fuel n,
  0 <= n < 10 ^ Z.of_nat fuel -> digits_val 0 (pos_digits fuel n []) = n.
Proof.
  induction fuel; intros n Hn.
  - cbn [pos_digits digits_val]. change (10 ^ Z.of_nat 0) with 1 in Hn. lia.
  - cbn [pos_digits]. destruct (Z.ltb_spec n 10) as [H|H].
    + cbn [digits_val]. lia.
    + rewrite pos_digits_app, digits_val_app. rewrite IHfuel.
      * cbn [digits_val]. pose proof (Z.div_mod n 10 ltac:(lia)). lia.
      * rewrite Nat2Z.inj_succ, Z.pow_succ_r in Hn by lia. split.
        -- apply Z.div_pos; lia.
        -- apply Z.div_lt_upper_bound; lia.
Qed.

Lemma digit_not_ws : forall b, is_digit b = true -> is_ws b = false.
Proof. intros b. unfold is_digit, is_ws. lia. Qed.

Lemma digits_no_ws : forall l, forallb is_digit l = true -> forallb (fun b => negb (is_ws b)) l = true.
Proof.
  induction l as [|b l IH]; intros H; [reflexivity|]. cbn [forallb] in *.
  apply andb_true_iff in H. destruct H as [H1 H2]. rewrite (digit_not_ws _ H1), IH by assumption. reflexivity.
Qed.

Lemma parse_int_neg : forall ds,
  ds <> [] -> forallb is_digit ds = true -> parse_int (45 :: ds) = Some (- digits_val 0 ds).
Proof.
  intros ds Hne Hd. unfold parse_int. destruct ds as [|d ds]; [contradiction|]. now rewrite Hd.
Qed.

Lemma parse_int_digits : forall tok,
  tok <> [] -> forallb is_digit tok = true -> parse_int tok = Some (digits_val 0 tok).
Proof.
  intros tok Hne Hd. destruct tok as [|b ds]; [contradiction|].
  assert (Hb : is_digit b = true) by (cbn [forallb] in Hd; apply andb_true_iff in Hd; apply Hd).
  assert (Hc : b = 48 \/ b = 49 \/ b = 50 \/ b = 51 \/ b = 52 \/ b = 53 \/ b = 54 \/ b = 55 \/ b = 56 \/ b = 57)
    by (unfold is_digit in Hb; lia).
  unfold parse_int.
  repeat (destruct Hc as [Hc|Hc]; [subst b; now rewrite Hd|]). subst b; now rewrite Hd.
Qed.

Lemma print_int_digits_pos : forall v, 0 <= v -> forallb is_digit (print_int v) = true /\ print_int v <> [].
Proof.
  intros v Hv. unfold print_int. destruct (Z.ltb_spec v 0); [lia|]. split.
  - now apply pos_digits_digits.
  - apply pos_digits_nonempty.
Qed.

Lemma print_int_nonempty : forall v, print_int v <> [].
Proof.
  intros v. unfold print_int. destruct (v <? 0); [discriminate | apply pos_digits_nonempty].
Qed.

Lemma print_int_no_ws : forall v, forallb (fun b => negb (is_ws b)) (print_int v) = true.
Proof.
  intros v. unfold print_int. destruct (Z.ltb_spec v 0).
  - cbn [forallb]. change (negb (is_ws 45)) with true. cbn [andb].
    apply digits_no_ws. apply pos_digits_digits; [lia | reflexivity].
  - apply digits_no_ws. apply pos_digits_digits; [lia | reflexivity].
Qed.

Theorem parse_print_int : forall v, Z.abs v < 10 ^ 80 -> parse_int (print_int v) = Some v.
Proof.
  intros v Hv. unfold print_int. destruct (Z.ltb_spec v 0) as [H|H].
  - rewrite parse_int_neg.
    + rewrite pos_digits_val; [f_equal; lia|]. change (Z.of_nat 80) with 80. lia.
    + apply pos_digits_nonempty.
    + apply pos_digits_digits; [lia | reflexivity].
  - rewrite parse_int_digits.
    + rewrite pos_digits_val; [reflexivity|]. change (Z.of_nat 80) with 80. lia.
    + apply pos_digits_nonempty.
    + apply pos_digits_digits; [lia | reflexivity].
Qed.

Lemma fits_bound : forall ty v, fits ty v = true -> Z.abs v < 10 ^ 80.
Proof.
  intros ty v H.
  assert (Z.abs v <= 9007199254740992).
  { unfold fits in H. destruct (ty =? 0); [lia|]. destruct (ty =? 1); lia. }
  assert (9007199254740992 < 10 ^ 80) by reflexivity. lia.
Qed.

Corollary parse_print_int_fits : forall ty v, fits ty v = true -> parse_int (print_int v) = Some v.
Proof. intros ty v H. apply parse_print_int. eapply fits_bound; eassumption. Qed.

(* ========================================================================================== *)
(* C. Round trip  matrix -> text -> matrix                                                    *)
(* ========================================================================================== *)

Lemma tokens_aux_word : forall w cur s rest,
  forallb (fun b => negb (is_ws b)) w = true -> is_ws s = true -> rev w ++ cur <> [] ->
  tokens_aux cur (w ++ s :: rest) = rev (rev w ++ cur) :: tokens_aux [] rest.
Proof.
  induction w as [|b w IH]; intros cur s rest Hw Hs Hne.
  - cbn [app rev] in *. cbn [tokens_aux]. rewrite Hs. destruct cur; [contradiction | reflexivity].
  - cbn [forallb] in Hw. apply andb_true_iff in Hw. destruct Hw as [Hb Hw].
    apply negb_true_iff in Hb. cbn [app tokens_aux]. rewrite Hb.
    cbn [rev] in *. rewrite <- app_assoc in *. cbn [app] in *. now apply IH.
Qed.

Lemma tokens_word : forall w s rest,
  forallb (fun b => negb (is_ws b)) w = true -> is_ws s = true -> w <> [] ->
  tokens (w ++ s :: rest) = w :: tokens rest.
Proof.
  intros w s rest Hw Hs Hne. unfold tokens. rewrite tokens_aux_word; try assumption.
  - now rewrite app_nil_r, rev_involutive.
  - rewrite app_nil_r. intros E. apply Hne. rewrite <- (rev_involutive w), E. reflexivity.
Qed.

Lemma tokens_print_int : forall v rest, tokens (print_int v ++ 32 :: rest) = print_int v :: tokens rest.
Proof.
  intros v rest. apply tokens_word; [apply print_int_no_ws | reflexivity | apply print_int_nonempty].
Qed.

Lemma tokens_ws : forall s rest, is_ws s = true -> tokens (s :: rest) = tokens rest.
Proof. intros s rest H. unfold tokens. cbn [tokens_aux]. now rewrite H. Qed.

Lemma tokens_print_ints : forall vs rest, tokens (print_ints vs ++ rest) = map print_int vs ++ tokens rest.
Proof.
  induction vs as [|v vs IH]; intros rest; [reflexivity|].
  unfold print_ints in *. cbn [flat_map map]. rewrite <- !app_assoc. cbn [app].
  rewrite tokens_print_int, IH. reflexivity.
Qed.

Lemma tokens_rows : forall (M : list (list Z)) rest,
  tokens (flat_map (fun r => print_ints r ++ [10]) M ++ rest) = map print_int (concat M) ++ tokens rest.
Proof.
  induction M as [|r M IH]; intros rest; [reflexivity|].
  cbn [flat_map concat]. rewrite <- !app_assoc. cbn [app].
  rewrite tokens_print_ints, tokens_ws by reflexivity. rewrite IH, map_app, app_assoc. reflexivity.
Qed.

Lemma tokens_header_rows : forall hd (M : list (list Z)),
  tokens (print_ints hd ++ [10] ++ flat_map (fun r => print_ints r ++ [10]) M) = map print_int (hd ++ concat M).
Proof.
  intros hd M. rewrite tokens_print_ints. cbn [app]. rewrite tokens_ws by reflexivity.
  rewrite <- (app_nil_r (flat_map _ M)), tokens_rows. cbn [tokens tokens_aux].
  now rewrite app_nil_r, map_app.
Qed.

Lemma take_ints_print : forall vs more,
  (forall v, In v vs -> Z.abs v < 10 ^ 80) ->
  take_ints (length vs) (map print_int vs ++ more) = Some (vs, more).
Proof.
  induction vs as [|v vs IH]; intros more H; [reflexivity|].
  cbn [length map app take_ints]. rewrite parse_print_int by (apply H; now left).
  rewrite IH; [reflexivity|]. intros x Hx. apply H. now right.
Qed.

Lemma chunk_concat : forall n (M : mat) m, wf_mat m n M = true -> chunk n m (concat M) = M.
Proof.
  intros n. induction M as [|r M IH]; intros m H; unfold wf_mat in H;
    apply andb_true_iff in H; destruct H as [H1 H2]; apply Nat.eqb_eq in H1; subst m; [reflexivity|].
  cbn [forallb] in H2. apply andb_true_iff in H2. destruct H2 as [Hr H2]. apply Nat.eqb_eq in Hr.
  cbn [length chunk concat]. subst n. rewrite firstn'_app_exact, skipn'_app_exact. f_equal.
  apply IH. unfold wf_mat. now rewrite Nat.eqb_refl, H2.
Qed.

Lemma concat_length_wf : forall n (M : mat) m, wf_mat m n M = true -> length (concat M) = (m * n)%nat.
Proof.
  intros n. induction M as [|r M IH]; intros m H; unfold wf_mat in H;
    apply andb_true_iff in H; destruct H as [H1 H2]; apply Nat.eqb_eq in H1; subst m; [reflexivity|].
  cbn [forallb] in H2. apply andb_true_iff in H2. destruct H2 as [Hr H2]. apply Nat.eqb_eq in Hr.
  cbn [length concat]. rewrite app_length, (IH (length M)); [lia|].
  unfold wf_mat. now rewrite Nat.eqb_refl, H2.
Qed.

Lemma forallb_concat : forall (p : Z -> bool) (M : mat),
  forallb (forallb p) M = true -> forallb p (concat M) = true.
Proof.
  intros p. induction M as [|r M IH]; intros H; [reflexivity|].
  cbn [forallb concat] in *. apply andb_true_iff in H. destruct H as [H1 H2].
  rewrite forallb_app, H1, IH by assumption. reflexivity.
Qed.

Lemma size_ok_of_nat : forall k : nat, Z.of_nat k <= 100000 -> size_ok (Z.of_nat k) = true.
Proof. intros k H. unfold size_ok. lia. Qed.

Lemma small_bound : forall v, 0 <= v <= 100000 -> Z.abs v < 10 ^ 80.
Proof. intros v H. assert (100000 < 10 ^ 80) by reflexivity. lia. Qed.

Theorem parse_print_dense : forall ty m n M,
  wf_mat m n M = true -> forallb (forallb (fits ty)) M = true ->
  Z.of_nat m <= 100000 -> Z.of_nat n <= 100000 ->
  parse_dense ty (print_dense m n M) = TOk m n M.
Proof.
  intros ty m n M Hwf Hfit Hm Hn. unfold parse_dense, print_dense.
  rewrite tokens_header_rows.
  assert (E2 : take_ints 2 (map print_int ([Z.of_nat m; Z.of_nat n] ++ concat M))
               = Some ([Z.of_nat m; Z.of_nat n], map print_int (concat M))).
  { rewrite map_app. apply (take_ints_print [Z.of_nat m; Z.of_nat n]).
    intros v [<-|[<-|[]]]; apply small_bound; lia. }
  rewrite E2. rewrite !size_ok_of_nat by assumption. cbn [andb]. rewrite !Nat2Z.id.
  pose proof (forallb_concat _ _ Hfit) as Hfc.
  assert (E3 : take_ints (m * n) (map print_int (concat M)) = Some (concat M, [])).
  { rewrite <- (concat_length_wf _ _ _ Hwf). rewrite <- (app_nil_r (map _ _)).
    apply take_ints_print. intros v Hv. rewrite forallb_forall in Hfc. eapply fits_bound. apply Hfc, Hv. }
  rewrite E3, Hfc. f_equal. now apply chunk_concat.
Qed.

(* ========================================================================================== *)
(* A. CSR <-> dense                                                                            *)
(* ========================================================================================== *)

(* column indices (counted from [start]) of the nonzero entries of a row, left to right *)
Fixpoint nz_cols (start : nat) (r : list Z) : list nat :=
  match r with
  | [] => []
  | x :: r' => if x =? 0 then nz_cols (S start) r' else start :: nz_cols (S start) r'
  end.
Definition nz_vals (r : list Z) : list Z := filter (fun v => negb (v =? 0)) r.

(* prefix sums: acc, acc + k1, acc + k1 + k2, ... *)
Fixpoint psums (acc : nat) (ls : list nat) : list nat :=
  acc :: match ls with [] => [] | k :: r => psums (acc + k) r end.

Definition csr_of_dense (m n : nat) (M : mat) : csr :=
  {| c_rows := m; c_cols := n;
     c_nnz := length (concat (map nz_vals M));
     c_slice := psums 0 (map (fun r => length (nz_vals r)) M);
     c_ecols := concat (map (nz_cols 0) M);
     c_evals := concat (map nz_vals M) |}.

Lemma nz_cols_length : forall r s, length (nz_cols s r) = length (nz_vals r).
Proof.
  induction r as [|x r IH]; intros s; [reflexivity|]. cbn [nz_cols nz_vals filter].
  destruct (x =? 0); cbn [negb length]; [apply IH | f_equal; apply IH].
Qed.

Lemma psums_length : forall ls acc, length (psums acc ls) = S (length ls).
Proof. induction ls as [|k ls IH]; intros acc; [reflexivity|]. cbn [psums length]. now rewrite IH. Qed.

Lemma psums_head : forall ls acc, nthn (psums acc ls) 0 = acc.
Proof. intros [|k ls] acc; reflexivity. Qed.

Lemma psums_last : forall (A : Type) (LL : list (list A)) acc,
  nthn (psums acc (map (@length A) LL)) (length LL) = (acc + length (concat LL))%nat.
Proof.
  intros A; induction LL as [|l LL IH]; intros acc; [simpl; lia|].
  cbn [map psums length nthn concat]. rewrite IH, app_length. lia.
Qed.

Lemma psums_monotone : forall ls acc, monotone (psums acc ls) = true.
Proof.
  induction ls as [|k ls IH]; intros acc; [reflexivity|].
  cbn [psums]. specialize (IH (acc + k)%nat).
  destruct ls as [|k' ls]; cbn [psums monotone] in *.
  - assert (H : (acc <=? acc + k)%nat = true) by (apply Nat.leb_le; lia). now rewrite H.
  - assert (H : (acc <=? acc + k)%nat = true) by (apply Nat.leb_le; lia). rewrite H. exact IH.
Qed.

(* the slice of a concatenation between two consecutive prefix sums is the corresponding piece *)
Lemma slice_concat : forall (A : Type) (LL : list (list A)) i acc (pre : list A),
  length pre = acc -> (i < length LL)%nat ->
  slice (pre ++ concat LL) (nthn (psums acc (map (@length A) LL)) i)
                           (nthn (psums acc (map (@length A) LL)) (S i)) = nth i LL [].
Proof.
  intros A; induction LL as [|l LL IH]; intros i acc pre Hpre Hi; [simpl in Hi; lia|].
  destruct i as [|i].
  - cbn [map psums nthn concat nth]. rewrite psums_head. unfold slice.
    replace (acc + length l - acc)%nat with (length l) by lia.
    subst acc. rewrite skipn'_app_exact. apply firstn'_app_exact.
  - cbn [map psums concat nth]. cbn [nthn].
    rewrite app_assoc. apply IH; [rewrite app_length; lia | simpl in Hi; lia].
Qed.

Lemma slice_concat0 : forall (A : Type) (LL : list (list A)) i,
  (i < length LL)%nat ->
  slice (concat LL) (nthn (psums 0 (map (@length A) LL)) i)
                    (nthn (psums 0 (map (@length A) LL)) (S i)) = nth i LL [].
Proof. intros A LL i Hi. apply (slice_concat A LL i 0%nat []); [reflexivity | assumption]. Qed.

Lemma nz_cols_ge : forall r s c, In c (nz_cols s r) -> (s <= c < s + length r)%nat.
Proof.
  induction r as [|x r IH]; intros s c H; [destruct H|].
  cbn [nz_cols length] in *. destruct (x =? 0).
  - apply IH in H. lia.
  - destruct H as [H|H]; [lia | apply IH in H; lia].
Qed.

Lemma nz_cols_increasing : forall r s, strictly_increasing (nz_cols s r) = true.
Proof.
  induction r as [|x r IH]; intros s; [reflexivity|].
  cbn [nz_cols]. destruct (x =? 0); [apply IH|].
  cbn [strictly_increasing]. destruct (nz_cols (S s) r) as [|y tl] eqn:E; [reflexivity|].
  rewrite <- E, IH, andb_true_r. apply Nat.ltb_lt.
  assert (H : In y (nz_cols (S s) r)) by (rewrite E; now left). apply nz_cols_ge in H. lia.
Qed.

Lemma nz_cols_all_lt : forall r s n, (s + length r <= n)%nat -> all_lt n (nz_cols s r) = true.
Proof.
  intros r s n H. unfold all_lt. apply forallb_forall. intros c Hc.
  apply nz_cols_ge in Hc. apply Nat.ltb_lt. lia.
Qed.

Lemma map_length_nz_cols : forall M : mat,
  map (@length nat) (map (nz_cols 0) M) = map (fun r => length (nz_vals r)) M.
Proof. intros M. rewrite map_map. apply map_ext. intros r. apply nz_cols_length. Qed.

Lemma map_length_nz_vals : forall M : mat,
  map (@length Z) (map nz_vals M) = map (fun r => length (nz_vals r)) M.
Proof. intros M. now rewrite map_map. Qed.

Lemma concat_length_eq : forall (A B : Type) (L1 : list (list A)) (L2 : list (list B)),
  map (@length A) L1 = map (@length B) L2 -> length (concat L1) = length (concat L2).
Proof.
  intros A B; induction L1 as [|a L1 IH]; intros [|b L2] H; try discriminate; [reflexivity|].
  cbn [map concat] in *. inversion H. rewrite !app_length. f_equal; [assumption | now apply IH].
Qed.

Lemma wf_mat_row : forall m n (M : mat) r, wf_mat m n M = true -> In r M -> length r = n.
Proof.
  intros m n M r H Hr. unfold wf_mat in H. apply andb_true_iff in H. destruct H as [_ H].
  rewrite forallb_forall in H. apply Nat.eqb_eq. now apply H.
Qed.

Theorem csr_of_dense_wf : forall m n M, wf_mat m n M = true -> csr_wf (csr_of_dense m n M) = true.
Proof.
  intros m n M Hwf. pose proof (wf_mat_length _ _ _ Hwf) as HL.
  unfold csr_wf, csr_of_dense. cbn [c_rows c_cols c_nnz c_slice c_ecols c_evals].
  repeat (apply andb_true_iff; split).
  - rewrite psums_length, map_length, HL. apply Nat.eqb_refl.
  - rewrite psums_head. reflexivity.
  - rewrite <- map_length_nz_vals. rewrite <- HL at 1. rewrite <- (map_length nz_vals M).
    rewrite psums_last. apply Nat.eqb_refl.
  - apply psums_monotone.
  - apply Nat.eqb_eq. apply concat_length_eq. now rewrite map_length_nz_cols, map_length_nz_vals.
  - apply Nat.eqb_refl.
  - apply forallb_forall. intros i Hi. apply in_iota in Hi. cbv zeta.
    rewrite <- map_length_nz_cols. rewrite slice_concat0 by (rewrite map_length; lia).
    assert (Hr : In (nth i M []) M) by (apply nth_In; lia).
    replace (nth i (map (nz_cols 0) M) []) with (nz_cols 0 (nth i M [])) by (symmetry; apply (map_nth (nz_cols 0) M [] i)).
    rewrite nz_cols_increasing. cbn [andb]. apply nz_cols_all_lt.
    rewrite (wf_mat_row _ _ _ _ Hwf Hr). lia.
  - apply forallb_forall. intros v Hv. apply in_concat in Hv. destruct Hv as [l [Hl Hv]].
    apply in_map_iff in Hl. destruct Hl as [r [<- _]]. apply filter_In in Hv. apply Hv.
Qed.

Lemma row_of_entries_nz : forall r s,
  row_of_entries (length r) s (nz_cols s r) (nz_vals r) = r.
Proof.
  induction r as [|x r IH]; intros s; [reflexivity|].
  cbn [length nz_cols nz_vals filter]. destruct (Z.eqb_spec x 0) as [Hx|Hx]; cbn [negb].
  - specialize (IH (S s)). pose proof (nz_cols_ge r (S s)) as Hge.
    pose proof (nz_cols_length r (S s)) as HLen. fold (nz_vals r).
    cbn [row_of_entries].
    destruct (nz_cols (S s) r) as [|c cr]; destruct (nz_vals r) as [|v vr]; try discriminate.
    + now rewrite IH, Hx.
    + assert (Hc : Nat.eqb c s = false) by (apply Nat.eqb_neq; specialize (Hge c (or_introl eq_refl)); lia).
      now rewrite Hc, IH, Hx.
  - fold (nz_vals r). cbn [row_of_entries]. now rewrite Nat.eqb_refl, IH.
Qed.

Theorem dense_of_csr_of_dense : forall m n M,
  wf_mat m n M = true -> dense_of_csr (csr_of_dense m n M) = M.
Proof.
  intros m n M Hwf. pose proof (wf_mat_length _ _ _ Hwf) as HL.
  unfold dense_of_csr, csr_of_dense. cbn [c_rows c_cols c_nnz c_slice c_ecols c_evals].
  transitivity (map (fun i => nth i M []) (iota 0 (length M))); [|apply map_nth_iota].
  rewrite HL. apply map_ext_in. intros i Hi. apply in_iota in Hi.
  cbv zeta.
  rewrite <- map_length_nz_cols at 1 2. rewrite slice_concat0 by (rewrite map_length; lia).
  rewrite <- map_length_nz_vals. rewrite slice_concat0 by (rewrite map_length; lia).
  assert (Hr : In (nth i M []) M) by (apply nth_In; lia).
  replace (nth i (map (nz_cols 0) M) []) with (nz_cols 0 (nth i M [])) by (symmetry; apply (map_nth (nz_cols 0) M [] i)).
  replace (nth i (map nz_vals M) []) with (nz_vals (nth i M [])) by (symmetry; apply (map_nth nz_vals M [] i)).
  rewrite <- (wf_mat_row _ _ _ _ Hwf Hr). apply row_of_entries_nz.
Qed.

Lemma row_of_entries_length : forall n s cols vals, length (row_of_entries n s cols vals) = n.
Proof.
  induction n; intros s cols vals; [reflexivity|]. cbn [row_of_entries].
  destruct cols as [|c cr]; [cbn [length]; now rewrite IHn|].
  destruct vals as [|v vr]; [cbn [length]; now rewrite IHn|].
  destruct (Nat.eqb c s); cbn [length]; now rewrite IHn.
Qed.

(* holds for every s, well-formed or not *)
Theorem dense_of_csr_wf : forall s, wf_mat (c_rows s) (c_cols s) (dense_of_csr s) = true.
Proof.
  intros s. unfold wf_mat, dense_of_csr. rewrite map_length, length_iota, Nat.eqb_refl. cbn [andb].
  apply forallb_forall. intros r Hr. apply in_map_iff in Hr. destruct Hr as [i [<- _]].
  cbv zeta. rewrite row_of_entries_length. apply Nat.eqb_refl.
Qed.

(* ========================================================================================== *)
(* C (sparse). Round trip through the sparse format                                            *)
(* ========================================================================================== *)

(* the list of printed triples, exactly the [trip] of print_sparse *)
Definition sparse_triples (m n : nat) (M : mat) : list (list Z) :=
  flat_map (fun i => flat_map (fun j => let v := get M i j in
                        if v =? 0 then [] else [[Z.of_nat i + 1; Z.of_nat j + 1; v]]) (iota 0 n)) (iota 0 m).

Lemma print_sparse_eq : forall m n M,
  print_sparse m n M =
  print_ints [Z.of_nat m; Z.of_nat n; Z.of_nat (length (sparse_triples m n M))] ++ [10] ++
  flat_map (fun t => print_ints t ++ [10]) (sparse_triples m n M).
Proof. reflexivity. Qed.

(* the same as tuples *)
Definition sparse_rowT (M : mat) (i s k : nat) : list (Z * Z * Z) :=
  flat_map (fun j => let v := get M i j in
                     if v =? 0 then [] else [(Z.of_nat i + 1, Z.of_nat j + 1, v)]) (iota s k).
Definition sparse_T (M : mat) (n s k : nat) : list (Z * Z * Z) :=
  flat_map (fun i => sparse_rowT M i 0 n) (iota s k).
Definition to3 (t : Z * Z * Z) : list Z := [fst (fst t); snd (fst t); snd t].

Lemma map_flat_map : forall (A B C : Type) (f : B -> C) (g : A -> list B) l,
  map f (flat_map g l) = flat_map (fun x => map f (g x)) l.
Proof.
  intros A B C f g; induction l as [|x l IH]; [reflexivity|].
  cbn [flat_map]. now rewrite map_app, IH.
Qed.

Lemma sparse_triples_eq : forall m n M, sparse_triples m n M = map to3 (sparse_T M n 0 m).
Proof.
  intros m n M. unfold sparse_triples, sparse_T, sparse_rowT. rewrite map_flat_map.
  apply flat_map_ext. intros i. rewrite map_flat_map. apply flat_map_ext. intros j.
  cbv zeta. destruct (get M i j =? 0); reflexivity.
Qed.

Lemma in_sparse_rowT : forall M i s k t,
  In t (sparse_rowT M i s k) <->
  exists j, (s <= j < s + k)%nat /\ t = (Z.of_nat i + 1, Z.of_nat j + 1, get M i j) /\ get M i j <> 0.
Proof.
  intros M i s k t. unfold sparse_rowT. rewrite in_flat_map. split.
  - intros [j [Hj Ht]]. apply in_iota in Hj. exists j. cbv zeta in Ht.
    destruct (Z.eqb_spec (get M i j) 0) as [E|E]; [destruct Ht|].
    destruct Ht as [Ht|[]]. auto.
  - intros [j [Hj [Ht Hnz]]]. exists j. split; [now apply in_iota|]. cbv zeta.
    destruct (Z.eqb_spec (get M i j) 0) as [E|E]; [contradiction | now left].
Qed.

Lemma in_sparse_T : forall M n s k t,
  In t (sparse_T M n s k) <->
  exists i j, (s <= i < s + k)%nat /\ (j < n)%nat /\
              t = (Z.of_nat i + 1, Z.of_nat j + 1, get M i j) /\ get M i j <> 0.
Proof.
  intros M n s k t. unfold sparse_T. rewrite in_flat_map. split.
  - intros [i [Hi Ht]]. apply in_iota in Hi. apply in_sparse_rowT in Ht.
    destruct Ht as [j [Hj [Ht Hnz]]]. exists i, j. repeat split; try assumption; lia.
  - intros [i [j [Hi [Hj [Ht Hnz]]]]]. exists i. split; [now apply in_iota|].
    apply in_sparse_rowT. exists j. repeat split; try assumption; lia.
Qed.

Lemma dup_pos_app : forall a b,
  dup_pos a = false -> dup_pos b = false ->
  (forall t u, In t a -> In u b -> ~ (fst (fst u) = fst (fst t) /\ snd (fst u) = snd (fst t))) ->
  dup_pos (a ++ b) = false.
Proof.
  induction a as [|[[r c] v] a IH]; intros b Ha Hb Hd; [exact Hb|].
  cbn [app dup_pos] in *. apply orb_false_iff in Ha. destruct Ha as [Ha1 Ha2].
  apply orb_false_iff. split.
  - rewrite existsb_app, Ha1. cbn [orb].
    destruct (existsb _ b) eqn:E; [|reflexivity]. exfalso.
    apply existsb_exists in E. destruct E as [u [Hu Hp]].
    apply andb_true_iff in Hp. destruct Hp as [H1 H2]. apply Z.eqb_eq in H1. apply Z.eqb_eq in H2.
    apply (Hd (r, c, v) u); [now left | assumption | cbn [fst snd]; auto].
  - apply IH; try assumption. intros t u Ht Hu. apply Hd; [now right | assumption].
Qed.

Lemma dup_pos_rowT : forall M i k s, dup_pos (sparse_rowT M i s k) = false.
Proof.
  intros M i; induction k; intros s; [reflexivity|].
  change (sparse_rowT M i s (S k)) with
    ((let v := get M i s in if v =? 0 then [] else [(Z.of_nat i + 1, Z.of_nat s + 1, v)]) ++ sparse_rowT M i (S s) k).
  cbv zeta. destruct (get M i s =? 0); [apply IHk|].
  cbn [app dup_pos]. rewrite IHk, orb_false_r.
  destruct (existsb _ _) eqn:E; [|reflexivity]. exfalso.
  apply existsb_exists in E. destruct E as [u [Hu Hp]].
  apply in_sparse_rowT in Hu. destruct Hu as [j [Hj [-> _]]]. cbn [fst snd] in Hp. lia.
Qed.

Lemma dup_pos_T : forall M n k s, dup_pos (sparse_T M n s k) = false.
Proof.
  intros M n; induction k; intros s; [reflexivity|].
  change (sparse_T M n s (S k)) with (sparse_rowT M s 0 n ++ sparse_T M n (S s) k).
  apply dup_pos_app; [apply dup_pos_rowT | apply IHk |].
  intros t u Ht Hu. apply in_sparse_rowT in Ht. destruct Ht as [j [_ [-> _]]].
  apply in_sparse_T in Hu. destruct Hu as [i' [j' [Hi' [_ [-> _]]]]]. cbn [fst snd]. lia.
Qed.

Lemma filter_all : forall (A : Type) (f : A -> bool) l, (forall x, In x l -> f x = true) -> filter f l = l.
Proof.
  intros A f; induction l as [|x l IH]; intros H; [reflexivity|].
  cbn [filter]. rewrite (H x (or_introl eq_refl)). f_equal. apply IH. intros y Hy. apply H. now right.
Qed.

Lemma triples_print : forall T more,
  (forall t, In t T -> forall v, In v (to3 t) -> Z.abs v < 10 ^ 80) ->
  triples (length T) (map print_int (concat (map to3 T)) ++ more) = Some T.
Proof.
  induction T as [|t T IH]; intros more H; [reflexivity|].
  cbn [length map concat triples]. rewrite map_app, <- app_assoc.
  assert (E : take_ints 3 (map print_int (to3 t) ++ map print_int (concat (map to3 T)) ++ more)
              = Some (to3 t, map print_int (concat (map to3 T)) ++ more)).
  { apply (take_ints_print (to3 t)). apply H. now left. }
  rewrite E. destruct t as [[r c] v]. unfold to3. cbn [fst snd].
  rewrite IH; [reflexivity|]. intros t Ht. apply H. now right.
Qed.

Lemma entry_of_sparse_T : forall M m n i j,
  (i < m)%nat -> (j < n)%nat -> entry_of (sparse_T M n 0 m) i j = get M i j.
Proof.
  intros M m n i j Hi Hj. unfold entry_of.
  destruct (filter _ (sparse_T M n 0 m)) as [|[[r c] v] tl] eqn:E.
  - destruct (Z.eq_dec (get M i j) 0) as [Hz|Hz]; [now rewrite Hz|]. exfalso.
    assert (Hin : In (Z.of_nat i + 1, Z.of_nat j + 1, get M i j)
                     (filter (fun t => (fst (fst t) =? Z.of_nat i + 1) && (snd (fst t) =? Z.of_nat j + 1))
                             (sparse_T M n 0 m))).
    { apply filter_In. split.
      - apply in_sparse_T. exists i, j. repeat split; try assumption; lia.
      - cbn [fst snd]. now rewrite !Z.eqb_refl. }
    rewrite E in Hin. destruct Hin.
  - assert (Hin : In (r, c, v)
                     (filter (fun t => (fst (fst t) =? Z.of_nat i + 1) && (snd (fst t) =? Z.of_nat j + 1))
                             (sparse_T M n 0 m))) by (rewrite E; now left).
    apply filter_In in Hin. destruct Hin as [Hin Hp]. cbn [fst snd] in Hp.
    apply in_sparse_T in Hin. destruct Hin as [i' [j' [_ [_ [Ht _]]]]]. inversion Ht; subst.
    assert (i' = i) by lia. assert (j' = j) by lia. now subst.
Qed.

Theorem parse_print_sparse : forall ty m n M,
  wf_mat m n M = true -> forallb (forallb (fits ty)) M = true ->
  Z.of_nat m <= 100000 -> Z.of_nat n <= 100000 ->
  Z.of_nat (length (sparse_triples m n M)) <= 100000 ->
  parse_sparse ty (print_sparse m n M) = TOk m n M.
Proof.
  intros ty m n M Hwf Hfit Hm Hn Hk. unfold parse_sparse. rewrite print_sparse_eq.
  rewrite tokens_header_rows.
  set (k := length (sparse_triples m n M)) in *.
  assert (E3 : take_ints 3 (map print_int ([Z.of_nat m; Z.of_nat n; Z.of_nat k] ++ concat (sparse_triples m n M)))
               = Some ([Z.of_nat m; Z.of_nat n; Z.of_nat k], map print_int (concat (sparse_triples m n M)))).
  { rewrite map_app. apply (take_ints_print [Z.of_nat m; Z.of_nat n; Z.of_nat k]).
    intros v [<-|[<-|[<-|[]]]]; apply small_bound; lia. }
  rewrite E3. rewrite !size_ok_of_nat by assumption. cbn [andb]. rewrite !Nat2Z.id.
  (* entries of M fit *)
  assert (Hget : forall i j, fits ty (get M i j) = true).
  { intros i j. unfold get. apply nthZ_forallb; [apply fits_0|].
    apply (nthR_forallb (forallb (fits ty))); [reflexivity | exact Hfit]. }
  set (T := sparse_T M n 0 m).
  assert (HT : forall t, In t T -> exists i j, (i < m)%nat /\ (j < n)%nat /\
                 t = (Z.of_nat i + 1, Z.of_nat j + 1, get M i j) /\ get M i j <> 0).
  { intros t Ht. apply in_sparse_T in Ht. destruct Ht as [i [j [Hi [Hj [Ht Hnz]]]]].
    exists i, j. repeat split; try assumption; lia. }
  assert (Etr : triples k (map print_int (concat (sparse_triples m n M))) = Some T).
  { unfold k. rewrite sparse_triples_eq. fold T. rewrite map_length.
    rewrite <- (app_nil_r (map print_int _)). apply triples_print.
    intros t Ht v Hv. destruct (HT t Ht) as [i [j [Hi [Hj [-> Hnz]]]]].
    unfold to3 in Hv. cbn [fst snd] in Hv.
    destruct Hv as [<-|[<-|[<-|[]]]]; [apply small_bound; lia | apply small_bound; lia |].
    eapply fits_bound. apply Hget. }
  rewrite Etr.
  assert (Efil : filter (fun t : Z * Z * Z => negb (snd t =? 0)) T = T).
  { apply filter_all. intros t Ht. destruct (HT t Ht) as [i [j [_ [_ [-> Hnz]]]]]. cbn [snd]. lia. }
  rewrite Efil.
  assert (Erange : forallb (fun t : Z * Z * Z =>
             (1 <=? fst (fst t)) && (fst (fst t) <=? Z.of_nat m) && (1 <=? snd (fst t)) &&
             (snd (fst t) <=? Z.of_nat n) && fits ty (snd t)) T = true).
  { apply forallb_forall. intros t Ht. destruct (HT t Ht) as [i [j [Hi [Hj [-> Hnz]]]]].
    cbn [fst snd]. rewrite Hget. lia. }
  rewrite Erange. unfold T at 1. rewrite dup_pos_T. cbn [negb andb]. f_equal.
  apply (mat_ext m n); [apply wf_mk_mat | assumption |].
  intros i j Hi Hj. rewrite get_mk_mat by assumption. unfold T. now apply entry_of_sparse_T.
Qed.

(* ========================================================================================== *)
(* A3. The CSR arrays are determined by the dense matrix                                       *)
(* ========================================================================================== *)

Lemma slice_length : forall (A : Type) (l : list A) a b,
  (b <= length l)%nat -> length (slice l a b) = (b - a)%nat.
Proof.
  intros A l a b H. unfold slice. apply firstn'_length. rewrite skipn'_length. lia.
Qed.

Lemma slice_In : forall (A : Type) (l : list A) a b x, In x (slice l a b) -> In x l.
Proof. intros A l a b x H. unfold slice in H. eapply skipn'_In, firstn'_In, H. Qed.

Lemma firstn'_add : forall (A : Type) p q (l : list A),
  firstn' p l ++ firstn' q (skipn' p l) = firstn' (p + q) l.
Proof.
  intros A; induction p; intros q l; [reflexivity|].
  destruct l as [|x l]; cbn [firstn' skipn' Nat.add app].
  - destruct q; reflexivity.
  - now rewrite IHp.
Qed.

Lemma skipn'_add : forall (A : Type) p q (l : list A), skipn' (p + q) l = skipn' q (skipn' p l).
Proof.
  intros A; induction p; intros q l; [reflexivity|].
  destruct l as [|x l]; cbn [skipn' Nat.add]; [destruct q; reflexivity | apply IHp].
Qed.

Lemma slice_app : forall (A : Type) (l : list A) a b c,
  (a <= b <= c)%nat -> slice l a b ++ slice l b c = slice l a c.
Proof.
  intros A l a b c H. unfold slice.
  assert (Eb : skipn' b l = skipn' (b - a) (skipn' a l)) by (rewrite <- skipn'_add; f_equal; lia).
  rewrite Eb, firstn'_add. f_equal. lia.
Qed.

Lemma slice_full : forall (A : Type) (l : list A), slice l 0 (length l) = l.
Proof.
  intros A l. unfold slice. rewrite Nat.sub_0_r. cbn [skipn'].
  rewrite <- (app_nil_r l) at 2. apply firstn'_app_exact.
Qed.

Lemma monotone_nthn : forall l i j,
  monotone l = true -> (i <= j < length l)%nat -> (nthn l i <= nthn l j)%nat.
Proof.
  induction l as [|x l IH]; intros i j Hm Hij; [simpl in Hij; lia|].
  destruct l as [|y l'].
  - simpl in Hij. assert (j = 0)%nat by lia. assert (i = 0)%nat by lia. subst. lia.
  - cbn [monotone] in Hm. apply andb_true_iff in Hm. destruct Hm as [Hxy Hm]. apply Nat.leb_le in Hxy.
    destruct j as [|j'].
    + assert (i = 0)%nat by lia. subst. lia.
    + cbn [length] in Hij. destruct i as [|i'].
      * cbn [nthn]. specialize (IH 0%nat j' Hm). cbn [length] in IH.
        assert (H0 : (nthn (y :: l') 0 <= nthn (y :: l') j')%nat) by (apply IH; lia).
        cbn [nthn] in H0. cbn [nthn]. lia.
      * cbn [nthn]. apply (IH i' j' Hm). cbn [length]. lia.
Qed.

Lemma concat_slices_gen : forall (A : Type) (l : list A) sl k s,
  monotone sl = true -> (s + k < length sl)%nat ->
  concat (map (fun i => slice l (nthn sl i) (nthn sl (S i))) (iota s k))
  = slice l (nthn sl s) (nthn sl (s + k)).
Proof.
  intros A l sl; induction k; intros s Hm Hk.
  - rewrite Nat.add_0_r. unfold slice. rewrite Nat.sub_diag. reflexivity.
  - cbn [iota map concat]. rewrite IHk by (try assumption; lia).
    replace (S s + k)%nat with (s + S k)%nat by lia.
    apply slice_app. split; apply monotone_nthn; try assumption; lia.
Qed.

Lemma concat_slices : forall (A : Type) (l : list A) sl m,
  monotone sl = true -> length sl = S m -> nthn sl 0 = 0%nat -> nthn sl m = length l ->
  concat (map (fun i => slice l (nthn sl i) (nthn sl (S i))) (iota 0 m)) = l.
Proof.
  intros A l sl m Hm HL H0 Hlast.
  rewrite concat_slices_gen by (try assumption; lia). cbn [Nat.add]. rewrite H0, Hlast. apply slice_full.
Qed.

Lemma psums_diffs : forall sl x,
  monotone (x :: sl) = true ->
  psums x (map (fun i => nthn (x :: sl) (S i) - nthn (x :: sl) i)%nat (iota 0 (length sl))) = x :: sl.
Proof.
  induction sl as [|y sl IH]; intros x Hm; [reflexivity|].
  cbn [monotone] in Hm. apply andb_true_iff in Hm. destruct Hm as [Hxy Hm]. apply Nat.leb_le in Hxy.
  cbn [length iota map]. rewrite map_iota_shift. cbn [psums nthn].
  replace (x + (y - x))%nat with y by lia. f_equal. apply (IH y Hm).
Qed.

Lemma si_cons : forall c cr,
  strictly_increasing (c :: cr) = true ->
  strictly_increasing cr = true /\ forall x, In x cr -> (c < x)%nat.
Proof.
  intros c cr; revert c. induction cr as [|d cr IH]; intros c H.
  - split; [reflexivity | intros x []].
  - cbn [strictly_increasing] in H. apply andb_true_iff in H. destruct H as [Hcd H]. apply Nat.ltb_lt in Hcd.
    split; [exact H|]. destruct (IH d H) as [_ Hd].
    intros x [<-|Hx]; [assumption | specialize (Hd x Hx); lia].
Qed.

Lemma nz_of_row_of_entries : forall n start cols vals,
  length cols = length vals -> strictly_increasing cols = true ->
  (forall c, In c cols -> (start <= c < start + n)%nat) ->
  (forall v, In v vals -> v <> 0) ->
  nz_cols start (row_of_entries n start cols vals) = cols /\
  nz_vals (row_of_entries n start cols vals) = vals.
Proof.
  induction n; intros start cols vals HL Hsi Hr Hnz.
  - destruct cols as [|c cr]; [|specialize (Hr c (or_introl eq_refl)); lia].
    destruct vals; [|discriminate]. split; reflexivity.
  - cbn [row_of_entries]. destruct cols as [|c cr]; destruct vals as [|v vr]; try discriminate.
    + cbn [nz_cols nz_vals filter]. change (0 =? 0) with true. cbn [negb].
      apply (IHn (S start) [] []); try assumption. intros c [].
    + destruct (Nat.eqb_spec c start) as [E|E].
      * subst c. destruct (si_cons _ _ Hsi) as [Hsi' Hgt].
        assert (Hv : v <> 0) by (apply Hnz; now left).
        cbn [nz_cols nz_vals filter]. destruct (Z.eqb_spec v 0) as [|_]; [contradiction|]. cbn [negb].
        destruct (IHn (S start) cr vr) as [E1 E2].
        -- simpl in HL; lia.
        -- assumption.
        -- intros c Hc. specialize (Hgt c Hc). specialize (Hr c (or_intror Hc)). lia.
        -- intros x Hx. apply Hnz. now right.
        -- fold (nz_vals (row_of_entries n (S start) cr vr)). now rewrite E1, E2.
      * cbn [nz_cols nz_vals filter]. change (0 =? 0) with true. cbn [negb].
        apply (IHn (S start) (c :: cr) (v :: vr)); try assumption.
        intros x [<-|Hx].
        -- specialize (Hr c (or_introl eq_refl)). lia.
        -- destruct (si_cons _ _ Hsi) as [_ Hgt]. specialize (Hgt x Hx).
           pose proof (Hr x (or_intror Hx)) as Hx'. pose proof (Hr c (or_introl eq_refl)) as Hc. lia.
Qed.

Theorem csr_of_dense_of_csr : forall s,
  csr_wf s = true -> csr_of_dense (c_rows s) (c_cols s) (dense_of_csr s) = s.
Proof.
  intros [m n z sl ec ev] H. unfold csr_wf in H. cbn [c_rows c_cols c_nnz c_slice c_ecols c_evals] in H.
  repeat (apply andb_true_iff in H; destruct H as [H ?H]).
  rename H into Hlen, H0 into Hnz, H1 into Hrows, H2 into Hlev, H3 into Hlec, H4 into Hmono, H5 into Hlast, H6 into Hfirst.
  apply Nat.eqb_eq in Hlen, Hfirst, Hlast, Hlec, Hlev.
  rewrite forallb_forall in Hrows, Hnz.
  unfold csr_of_dense, dense_of_csr. cbn [c_rows c_cols c_nnz c_slice c_ecols c_evals].
  (* per row facts *)
  assert (Hrow : forall i, (i < m)%nat ->
            let a := nthn sl i in let b := nthn sl (S i) in
            nz_cols 0 (row_of_entries n 0 (slice ec a b) (slice ev a b)) = slice ec a b /\
            nz_vals (row_of_entries n 0 (slice ec a b) (slice ev a b)) = slice ev a b).
  { intros i Hi a b.
    assert (Hb : (b <= z)%nat).
    { unfold b. rewrite <- Hlast. apply monotone_nthn; [assumption | lia]. }
    assert (Hi' : In i (iota 0 m)) by (apply in_iota; lia).
    specialize (Hrows i Hi'). cbv zeta in Hrows. fold a b in Hrows.
    apply andb_true_iff in Hrows. destruct Hrows as [Hsi Hlt].
    apply nz_of_row_of_entries.
    - rewrite !slice_length by lia. reflexivity.
    - assumption.
    - intros c Hc. unfold all_lt in Hlt. rewrite forallb_forall in Hlt. specialize (Hlt c Hc).
      apply Nat.ltb_lt in Hlt. lia.
    - intros v Hv. apply slice_In in Hv. specialize (Hnz v Hv). lia. }
  cbv zeta in Hrow.
  assert (Eec : concat (map (nz_cols 0)
             (map (fun i => row_of_entries n 0 (slice ec (nthn sl i) (nthn sl (S i)))
                                              (slice ev (nthn sl i) (nthn sl (S i)))) (iota 0 m))) = ec).
  { rewrite map_map.
    rewrite (map_ext_in _ (fun i => slice ec (nthn sl i) (nthn sl (S i)))).
    - apply concat_slices; try assumption. lia.
    - intros i Hi. apply in_iota in Hi. apply Hrow. lia. }
  assert (Eev : concat (map nz_vals
             (map (fun i => row_of_entries n 0 (slice ec (nthn sl i) (nthn sl (S i)))
                                              (slice ev (nthn sl i) (nthn sl (S i)))) (iota 0 m))) = ev).
  { rewrite map_map.
    rewrite (map_ext_in _ (fun i => slice ev (nthn sl i) (nthn sl (S i)))).
    - apply concat_slices; try assumption. lia.
    - intros i Hi. apply in_iota in Hi. apply Hrow. lia. }
  assert (Esl : psums 0 (map (fun r => length (nz_vals r))
             (map (fun i => row_of_entries n 0 (slice ec (nthn sl i) (nthn sl (S i)))
                                              (slice ev (nthn sl i) (nthn sl (S i)))) (iota 0 m))) = sl).
  { rewrite map_map.
    destruct sl as [|x sl']; [discriminate|]. cbn [nthn] in Hfirst. subst x.
    cbn [length] in Hlen. assert (Hm : m = length sl') by lia.
    transitivity (psums 0 (map (fun i => nthn (0%nat :: sl') (S i) - nthn (0%nat :: sl') i)%nat (iota 0 (length sl'))));
      [|apply psums_diffs; assumption].
    f_equal. rewrite <- Hm.
    apply map_ext_in. intros i Hi. apply in_iota in Hi.
    destruct (Hrow i ltac:(lia)) as [_ E2]. rewrite E2. apply slice_length.
    rewrite Hlev, <- Hlast. apply monotone_nthn; [assumption | cbn [length]; lia]. }
  rewrite Eec, Eev, Esl, Hlev. reflexivity.
Qed.

(* two well-formed CSR matrices of the same dimensions with the same dense form are equal *)
Corollary dense_of_csr_inj : forall s t,
  csr_wf s = true -> csr_wf t = true ->
  c_rows s = c_rows t -> c_cols s = c_cols t -> dense_of_csr s = dense_of_csr t -> s = t.
Proof.
  intros s t Hs Ht Hr Hc Hd.
  rewrite <- (csr_of_dense_of_csr s Hs), <- (csr_of_dense_of_csr t Ht). now rewrite Hr, Hc, Hd.
Qed.

(* the statement of A2 as asked *)
Corollary dense_of_csr_wf' : forall s,
  csr_wf s = true -> wf_mat (c_rows s) (c_cols s) (dense_of_csr s) = true.
Proof. intros s _. apply dense_of_csr_wf. Qed.

(* ========================================================================================== *)
(* The number of printed triples is the number of nonzeros (= c_nnz of the CSR form)           *)
(* ========================================================================================== *)

Lemma flat_map_iota_shift : forall (B : Type) (f : nat -> list B) k s,
  flat_map f (iota (S s) k) = flat_map (fun i => f (S i)) (iota s k).
Proof. intros B f; induction k; intros s; cbn [iota flat_map]; [reflexivity | now rewrite IHk]. Qed.

Lemma row_count : forall (B : Type) (r : list Z) (F : nat -> B),
  length (flat_map (fun j => if nthZ r j =? 0 then [] else [F j]) (iota 0 (length r))) = length (nz_vals r).
Proof.
  intros B; induction r as [|x r IH]; intros F; [reflexivity|].
  cbn [length iota flat_map]. rewrite flat_map_iota_shift, app_length. cbn [nthZ].
  rewrite (IH (fun j => F (S j))). cbn [nz_vals filter]. destruct (x =? 0); reflexivity.
Qed.

Lemma mat_count : forall (B : Type) n (M : mat) (G : nat -> nat -> B),
  (forall r, In r M -> length r = n) ->
  length (flat_map (fun i => flat_map (fun j => if get M i j =? 0 then [] else [G i j]) (iota 0 n))
                   (iota 0 (length M)))
  = length (concat (map nz_vals M)).
Proof.
  intros B n; induction M as [|r M IH]; intros G H; [reflexivity|].
  cbn [length iota flat_map map concat]. rewrite flat_map_iota_shift, !app_length.
  f_equal.
  - unfold get. cbn [nthR]. rewrite <- (H r (or_introl eq_refl)). apply row_count.
  - apply (IH (fun i j => G (S i) j)). intros r' Hr'. apply H. now right.
Qed.

Lemma sparse_triples_length : forall m n M,
  wf_mat m n M = true -> length (sparse_triples m n M) = c_nnz (csr_of_dense m n M).
Proof.
  intros m n M Hwf. unfold sparse_triples, csr_of_dense. cbn [c_nnz]. cbv zeta.
  rewrite <- (wf_mat_length _ _ _ Hwf).
  apply (mat_count _ n M (fun i j => [Z.of_nat i + 1; Z.of_nat j + 1; get M i j])).
  intros r Hr. eapply wf_mat_row; eassumption.
Qed.

(* parse_print_sparse with the bound stated on the number of nonzero entries of M *)
Corollary parse_print_sparse_nnz : forall ty m n M,
  wf_mat m n M = true -> forallb (forallb (fits ty)) M = true ->
  Z.of_nat m <= 100000 -> Z.of_nat n <= 100000 ->
  Z.of_nat (length (concat (map nz_vals M))) <= 100000 ->
  parse_sparse ty (print_sparse m n M) = TOk m n M.
Proof.
  intros ty m n M Hwf Hfit Hm Hn Hk. apply parse_print_sparse; try assumption.
  rewrite (sparse_triples_length _ _ _ Hwf). exact Hk.
Qed.

(* combined statements through [parse] *)
Corollary parse_print : forall fmt ty m n M,
  wf_mat m n M = true -> forallb (forallb (fits ty)) M = true ->
  Z.of_nat m <= 100000 -> Z.of_nat n <= 100000 ->
  Z.of_nat (length (concat (map nz_vals M))) <= 100000 ->
  parse fmt ty (if fmt =? 0 then print_dense m n M else print_sparse m n M) = TOk m n M.
Proof.
  intros fmt ty m n M Hwf Hfit Hm Hn Hk. unfold parse. destruct (fmt =? 0).
  - now apply parse_print_dense.
  - now apply parse_print_sparse_nnz.
Qed.

(* an accepted record always decodes (the judge answers 1 on an undecodable record), so the decoding hypothesis
   of the two soundness theorems is no restriction *)
Lemma judge_textread_decodes : forall rec,
  judge_textread rec = 0 ->
  exists fmt ty bytes rc res rest, textread_input rec = Some ((fmt, ty, bytes, rc, res), rest).
Proof.
  intros rec H. unfold judge_textread in H. unfold textread_input.
  match type of H with (match ?X with _ => _ end) = _ =>
    destruct X as [[[[[[fmt ty] bytes] rc] res] rest]|] eqn:E end; [|discriminate].
  exists fmt, ty, bytes, rc, res, rest. reflexivity.
Qed.

Lemma judge_textwrite_decodes : forall rec,
  judge_textwrite rec = 0 ->
  exists fmt ty m n M bytes rc2 res rest,
    textwrite_input rec = Some ((fmt, ty, (m, n, M), bytes, rc2, res), rest).
Proof.
  intros rec H. unfold judge_textwrite in H. unfold textwrite_input.
  match type of H with (match ?X with _ => _ end) = _ =>
    destruct X as [[[[[[[fmt ty] [[m n] M]] bytes] rc2] res] rest]|] eqn:E end; [|discriminate].
  exists fmt, ty, m, n, M, bytes, rc2, res, rest. reflexivity.
Qed.

(* ========================================================================================== *)
(* E. Non-vacuity examples                                                                     *)
(* ========================================================================================== *)

Module Examples.
Import Coq.Strings.String Coq.Strings.Ascii.

Definition bytes_of_string (s : string) : list Z :=
  map (fun c => Z.of_N (N_of_ascii c)) (list_ascii_of_string s).

Definition ex_M : mat := [[1; -1; 0]; [0; 1; 1]].

Definition ex_dense_text : list Z := bytes_of_string "2 3
1 -1 0
0 1 1
"%string.

Definition ex_sparse_text : list Z := bytes_of_string "2 3 4
1 1 1
1 2 -1
2 2 1
2 3 1
"%string.

Definition ex_sparse_dup : list Z := bytes_of_string "2 3 4
1 1 1
1 2 -1
1 2 1
2 3 1
"%string.

Definition ex_dense_128 : list Z := bytes_of_string "1 2
128 0
"%string.

Example ex_dense_bytes :
  ex_dense_text = [50;32;51;10; 49;32;45;49;32;48;10; 48;32;49;32;49;10].
Proof. vm_compute. reflexivity. Qed.

Example ex_parse_dense : forall ty, ty = 0 \/ ty = 1 \/ ty = 2 -> parse_dense ty ex_dense_text = TOk 2 3 ex_M.
Proof. intros ty [->|[->| ->]]; vm_compute; reflexivity. Qed.

Example ex_parse_sparse : parse_sparse 0 ex_sparse_text = TOk 2 3 ex_M.
Proof. vm_compute. reflexivity. Qed.

Example ex_parse_sparse_dup : parse_sparse 0 ex_sparse_dup = TErr.
Proof. vm_compute. reflexivity. Qed.

Example ex_parse_dense_128_char : parse_dense 0 ex_dense_128 = TErr.
Proof. vm_compute. reflexivity. Qed.

Example ex_parse_dense_128_int : parse_dense 1 ex_dense_128 = TOk 1 2 [[128; 0]].
Proof. vm_compute. reflexivity. Qed.

(* the printers' layout puts a blank after every number *)
Example ex_print_dense : print_dense 2 3 ex_M = bytes_of_string "2 3 
1 -1 0 
0 1 1 
"%string.
Proof. vm_compute. reflexivity. Qed.

Example ex_print_sparse : print_sparse 2 3 ex_M = bytes_of_string "2 3 4 
1 1 1 
1 2 -1 
2 2 1 
2 3 1 
"%string.
Proof. vm_compute. reflexivity. Qed.

Example ex_reparse_dense : parse_dense 0 (print_dense 2 3 ex_M) = TOk 2 3 ex_M.
Proof. vm_compute. reflexivity. Qed.

Example ex_reparse_sparse : parse_sparse 0 (print_sparse 2 3 ex_M) = TOk 2 3 ex_M.
Proof. vm_compute. reflexivity. Qed.

(* a truncated file, a non-numeric token and an out-of-range index are rejected *)
Example ex_truncated : parse_dense 0 (bytes_of_string "2 3 1 -1 0 0 1"%string) = TErr.
Proof. vm_compute. reflexivity. Qed.
Example ex_garbage : parse_dense 0 (bytes_of_string "1 1 x"%string) = TErr.
Proof. vm_compute. reflexivity. Qed.
Example ex_index_range : parse_sparse 0 (bytes_of_string "2 3 1 3 1 1"%string) = TErr.
Proof. vm_compute. reflexivity. Qed.

(* CSR examples *)
Example ex_csr : csr_of_dense 2 3 ex_M =
  {| c_rows := 2; c_cols := 3; c_nnz := 4; c_slice := [0; 2; 4]%nat; c_ecols := [0; 1; 1; 2]%nat; c_evals := [1; -1; 1; 1] |}.
Proof. vm_compute. reflexivity. Qed.
Example ex_csr_back : dense_of_csr (csr_of_dense 2 3 ex_M) = ex_M /\ csr_wf (csr_of_dense 2 3 ex_M) = true.
Proof. split; vm_compute; reflexivity. Qed.

(* judges on concrete records: a good read, a wrongly accepted bad input, a good write *)
Definition csr_rec : list Z := [1; 2; 3; 4; 0; 2; 4; 0; 1; 1; 2; 1; -1; 1; 1].
Example ex_judge_read_ok :
  judge_textread ([0; 0; Z.of_nat (List.length ex_dense_text)] ++ ex_dense_text ++ [0] ++ csr_rec) = 0.
Proof. vm_compute. reflexivity. Qed.
Example ex_judge_read_bad :
  judge_textread ([1; 0; Z.of_nat (List.length ex_sparse_dup)] ++ ex_sparse_dup ++ [0] ++ csr_rec) = 303.
Proof. vm_compute. reflexivity. Qed.
Example ex_judge_write_ok :
  judge_textwrite ([0; 0; 2; 3; 1; -1; 0; 0; 1; 1; Z.of_nat (List.length ex_dense_text)] ++ ex_dense_text ++ [0] ++ csr_rec) = 0.
Proof. vm_compute. reflexivity. Qed.
End Examples.

(* ========================================================================================== *)
Print Assumptions judge_textread_decodes.
Print Assumptions judge_textwrite_decodes.
Print Assumptions parse_ok_wf.
Print Assumptions judge_textread_sound.
Print Assumptions judge_textwrite_sound.
Print Assumptions parse_print_int.
Print Assumptions parse_print_dense.
Print Assumptions parse_print_sparse.
Print Assumptions parse_print_sparse_nnz.
Print Assumptions csr_of_dense_wf.
Print Assumptions dense_of_csr_of_dense.
Print Assumptions dense_of_csr_wf.
Print Assumptions csr_of_dense_of_csr.
Print Assumptions dense_of_csr_inj.
