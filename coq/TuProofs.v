From Coq Require Import ZArith List.
From mathcomp Require Import all_ssreflect all_fingroup all_algebra.
From mathcomp Require Import ssrZ zify.
From Cmr Require Import Base Det.
Set Implicit Arguments. Unset Strict Implicit. Unset Printing Implicit Defensive.
Import GRing.Theory.
Local Open Scope ring_scope.
(* Base re-exports Coq.Lists.List, which shadows seq/map/nth/...; give ssreflect's names priority
   again (Base.iota and seq.iota are referred to by qualified names below). *)
Import mathcomp.ssreflect.seq.
(* Base re-exports ZArith after MathComp, which rebinds the %N delimiter to N_scope; restore it. *)
Delimit Scope nat_scope with N.

(* dense list-of-lists matrix as a MathComp matrix over Z (ssrZ gives Z its ring structures) *)
Definition mx_of (m n : nat) (M : mat) : 'M[Z]_(m,n) := \matrix_(i, j) get M i j.

(* textbook definition: every square "submatrix" given by ANY pair of index maps has determinant
   in {-1,0,1} *)
Definition TUmx (m n : nat) (A : 'M[Z]_(m,n)) : Prop :=
  forall k (f : 'I_k -> 'I_m) (g : 'I_k -> 'I_n), \det (mxsub f g A) \in [:: -1; 0; 1].

(* ------------------------------------------------------------------------------------------ *)
(* bridging stdlib-style definitions of Base/Det with ssreflect's                              *)
(* ------------------------------------------------------------------------------------------ *)

Lemma iotaE s k : Base.iota s k = seq.iota s k.
Proof. by elim: k s => //= k IH s; rewrite IH. Qed.

Lemma forallbE A (p : A -> bool) (l : seq A) : forallb p l = all p l.
Proof. by []. Qed.

Lemma ltbE x m : Nat.ltb x m = (x < m)%N.
Proof. by apply/idP/idP => [/Nat.ltb_lt|h]; [|apply/Nat.ltb_lt]; lia. Qed.

Lemma minE m n : Nat.min m n = minn m n.
Proof. lia. Qed.

Lemma all_ltE m (l : seq nat) : all_lt m l = all (fun x => x < m)%N l.
Proof. by rewrite /all_lt forallbE; apply: eq_all => x; rewrite ltbE. Qed.

Lemma nthZE (l : seq Z) i : nthZ l i = nth (0 : Z) l i.
Proof. by elim: l i => [|x l IH] [|i] //=. Qed.

Lemma nthRE (M : mat) i : nthR M i = nth [::] M i.
Proof. by elim: M i => [|x l IH] [|i] //=. Qed.

Lemma getE (M : mat) i j : get M i j = nth (0 : Z) (nth [::] M i) j.
Proof. by rewrite /get nthZE nthRE. Qed.

Lemma small_detP d : small_det d = (d \in [:: -1; 0; 1]).
Proof. by rewrite /small_det !inE orbC. Qed.

(* ------------------------------------------------------------------------------------------ *)
(* detE: the executable Laplace determinant is the MathComp determinant                        *)
(* ------------------------------------------------------------------------------------------ *)

Lemma nth_del (l : seq Z) j i : nth (0 : Z) (del j l) i = nth 0 l (bump j i).
Proof.
elim: l j i => [|x l IH] j i; first by case: j => [|j]; rewrite /= !nth_nil.
case: j => [|j] /=; first by rewrite /bump /= ?add1n.
by case: i => [|i] //=; rewrite bumpS /= IH.
Qed.

Lemma size_del (l : seq Z) j : (j < size l)%N -> size (del j l) = (size l).-1.
Proof.
elim: l j => [|x l IH] [|j] //=; rewrite ltnS => h; rewrite IH //.
by case: (size l) h.
Qed.

Lemma alt_sumE s j0 (r : seq Z) f :
  alt_sum s j0 r f = \sum_(i < size r) s * (-1) ^+ i * nth 0 r i * f (j0 + i)%N.
Proof.
elim: r s j0 => [|x r IH] s j0 /=; first by rewrite big_ord0.
rewrite big_ord_recl /= expr0 mulr1 addn0 IH; congr (_ + _).
  have -> : Z.eqb x Z0 = (x == 0) by [].
  by case: eqP => [->|//]; rewrite mulr0 mul0r.
apply: eq_bigr => i _; rewrite /bump /= add1n addSnnS exprS.
by rewrite -[Z.opp s]/(- s) mulN1r mulrN !mulNr.
Qed.

Lemma det_mxE k (L : mat) : size L = k -> all (fun r => size r == k) L ->
  det k L = \det (\matrix_(i < k, j < k) get L i j).
Proof.
elim: k L => [|k IH] L; first by rewrite det_mx00.
case: L => [|r rest] //= [szrest] /andP [/eqP szr allrest].
rewrite alt_sumE (expand_det_row _ ord0) szr.
apply: eq_bigr => j _; rewrite !mxE /cofactor /= add0n mul1r getE /=.
rewrite [RHS]mulrCA mulrA; congr (_ * _).
rewrite IH ?size_map //; last first.
  rewrite all_map; apply/allP => r' /(allP allrest) /= /eqP szr'.
  by rewrite size_del szr' //=.
congr (\det _); apply/matrixP => i j'; rewrite !mxE /= !getE /=.
case: (ltnP i (size rest)) => hi.
  by rewrite (nth_map [::]) // nth_del.
by rewrite !nth_default ?size_map //= !nth_nil.
Qed.

Theorem detE k (M : mat) (rs cs : seq nat) : size rs = k -> size cs = k ->
  det k (submat M rs cs) =
  \det (\matrix_(i < k, j < k) get M (nth 0%N rs i) (nth 0%N cs j)).
Proof.
move=> szr szc; rewrite det_mxE ?size_map //; last first.
  by rewrite /submat all_map; apply/allP => i _ /=; rewrite size_map szc.
congr (\det _); apply/matrixP => i j; rewrite !mxE getE /submat.
by rewrite (nth_map 0%N) ?szr // (nth_map 0%N) ?szc.
Qed.

(* ------------------------------------------------------------------------------------------ *)
(* subseqs k l enumerates exactly the sublists of l of size k                                  *)
(* ------------------------------------------------------------------------------------------ *)

Lemma subseqs0 l : subseqs 0 l = [:: [::]].
Proof. by case: l. Qed.

Lemma subseqsS_nil k : subseqs k.+1 [::] = [::].
Proof. by []. Qed.

Lemma subseqsS_cons k x r :
  subseqs k.+1 (x :: r) = [seq x :: s | s <- subseqs k r] ++ subseqs k.+1 r.
Proof. by []. Qed.

Lemma subseqs_sub k (l s : seq nat) : s \in subseqs k l -> subseq s l /\ size s = k.
Proof.
elim: k l s => [|k IH] l s.
  by rewrite subseqs0 inE => /eqP ->; rewrite sub0seq.
elim: l s => [|x l IHl] s; first by rewrite subseqsS_nil.
rewrite subseqsS_cons mem_cat => /orP [/mapP [s' /IH [sub sz] ->]|/IHl [sub sz]].
  by rewrite /= eqxx sz.
split=> //; apply: subseq_trans sub _; exact: subseq_cons.
Qed.

Lemma subseqs_complete (l s : seq nat) : subseq s l -> s \in subseqs (size s) l.
Proof.
elim: l s => [|x l IH] s.
  by rewrite subseq0 => /eqP ->.
case: s => [|y s]; first by rewrite subseqs0 inE.
rewrite [size _]/= subseqsS_cons mem_cat /=; case: eqP => [->|_] sub; apply/orP.
  by left; apply: map_f; apply: IH.
by right; apply: (IH (y :: s)).
Qed.

Lemma sorted_subseq_iota m (s : seq nat) :
  sorted ltn s -> all (fun x => x < m)%N s -> subseq s (seq.iota 0 m).
Proof.
move=> srt /allP lt.
have -> : s = filter (fun x => x \in s) (seq.iota 0 m); last exact: filter_subseq.
apply: (irr_sorted_eq ltn_trans ltnn) => //.
  by apply: sorted_filter; [exact: ltn_trans | exact: iota_ltn_sorted].
by move=> x; rewrite mem_filter mem_iota /= add0n; case xs: (x \in s); rewrite //= lt.
Qed.

Lemma subseq_iota_lt m (s : seq nat) :
  subseq s (seq.iota 0 m) -> all (fun x => x < m)%N s.
Proof.
by move=> /mem_subseq sub; apply/allP => x /sub; rewrite mem_iota add0n.
Qed.

(* ------------------------------------------------------------------------------------------ *)
(* index lists <-> ordinal index maps                                                          *)
(* ------------------------------------------------------------------------------------------ *)

Lemma idx_map m k (rs : seq nat) : size rs = k -> all (fun x => x < m)%N rs ->
  exists f : 'I_k -> 'I_m, forall i, val (f i) = nth 0%N rs i.
Proof.
move=> sz /(all_nthP 0%N) H.
have lt (i : 'I_k) : (nth 0%N rs i < m)%N by apply: H; rewrite sz.
by exists (fun i => Ordinal (lt i)).
Qed.

Definition seq_of_map m k (f : 'I_k -> 'I_m) : seq nat := [seq val (f i) | i <- enum 'I_k].

Lemma size_seq_of_map m k (f : 'I_k -> 'I_m) : size (seq_of_map f) = k.
Proof. by rewrite size_map size_enum_ord. Qed.

Lemma nth_seq_of_map m k (f : 'I_k -> 'I_m) (i : 'I_k) : nth 0%N (seq_of_map f) i = f i.
Proof. by rewrite (nth_map i) ?size_enum_ord // nth_ord_enum. Qed.

Lemma seq_of_map_lt m k (f : 'I_k -> 'I_m) : all (fun x => x < m)%N (seq_of_map f).
Proof. by rewrite all_map; apply/allP => i _ /=. Qed.

Lemma seq_of_map_sorted m k (f : 'I_k -> 'I_m) :
  (forall i j : 'I_k, (i < j)%N -> (f i < f j)%N) -> sorted ltn (seq_of_map f).
Proof.
move=> inc; apply/(sortedP 0%N) => i; rewrite size_seq_of_map => lt.
have lt' : (i < k)%N by apply: ltn_trans lt.
by rewrite (nth_seq_of_map f (Ordinal lt)) (nth_seq_of_map f (Ordinal lt')); apply: inc.
Qed.

(* ------------------------------------------------------------------------------------------ *)
(* injective index map = increasing map o permutation                                          *)
(* ------------------------------------------------------------------------------------------ *)

Lemma det_row_perm (R : comRingType) n (s : 'S_n) (B : 'M[R]_n) :
  \det (row_perm s B) = (-1) ^+ s * \det B.
Proof. by rewrite row_permE det_mulmx det_perm. Qed.

Lemma det_col_perm (R : comRingType) n (s : 'S_n) (B : 'M[R]_n) :
  \det (col_perm s B) = (-1) ^+ s * \det B.
Proof. by rewrite col_permE det_mulmx det_perm odd_permV mulrC. Qed.

Lemma inj_factor m k (f : 'I_k -> 'I_m) : injective f ->
  exists (s : 'S_k) (f' : 'I_k -> 'I_m),
    (forall i j : 'I_k, (i < j)%N -> (f' i < f' j)%N) /\ (forall i, f i = f' (s i)).
Proof.
move=> finj.
pose t := [tuple f i | i < k].
pose srt := sort (fun x y : 'I_m => (x <= y)%N) t.
have sz : size srt == k by rewrite size_sort size_tuple.
pose t' := Tuple sz.
have pe : perm_eq t t' by rewrite /= perm_sym perm_sort.
have /tuple_permP [p tp] := pe.
have ut : uniq t by rewrite map_inj_uniq // enum_uniq.
have ut' : uniq t' by rewrite -(perm_uniq pe).
have st' : sorted ltn [seq val i | i <- t'].
  rewrite ltn_sorted_uniq_leq (map_inj_uniq val_inj) ut' /=.
  have -> : [seq val i | i <- srt] = sort leq [seq val i | i <- t] by rewrite -sort_map.
  by apply: sort_sorted; apply: leq_total.
exists p, (tnth t'); split.
  move=> i j ij; rewrite !(tnth_nth (f i)) /=.
  have := @sorted_ltn_nth _ ltn ltn_trans 0%N _ st' i j.
  rewrite !inE size_map size_sort size_tuple !ltn_ord => /(_ isT isT ij).
  by rewrite !(nth_map (f i)) // size_sort size_tuple.
move=> i; have tp' : t = [tuple tnth t' (p i) | i < k] by apply: val_inj.
by have := congr1 (fun u => tnth u i) tp'; rewrite !tnth_map !tnth_ord_tuple.
Qed.

Lemma not_inj_witness m k (f : 'I_k -> 'I_m) :
  injective f \/ exists i1 i2 : 'I_k, i1 != i2 /\ f i1 = f i2.
Proof.
case: (boolP [forall i1, forall i2, (f i1 == f i2) ==> (i1 == i2)]).
  move=> /forallP H; left => i1 i2 /eqP e.
  by have /forallP /(_ i2) /implyP /(_ e) /eqP := H i1.
rewrite negb_forall => /existsP [i1]; rewrite negb_forall => /existsP [i2].
by rewrite negb_imply => /andP [/eqP e ne]; right; exists i1, i2.
Qed.

Lemma small_sign (b : bool) (d : Z) : d \in [:: -1; 0; 1] -> (-1) ^+ b * d \in [:: -1; 0; 1].
Proof. by case: b; rewrite ?expr1 ?expr0 ?mulN1r ?mul1r // !inE => /or3P [] /eqP ->. Qed.

(* ------------------------------------------------------------------------------------------ *)
(* the brute-force oracle decides total unimodularity                                          *)
(* ------------------------------------------------------------------------------------------ *)

Lemma mxsub_seqE m n (M : mat) k (f : 'I_k -> 'I_m) (g : 'I_k -> 'I_n) (rs cs : seq nat) :
  (forall i, val (f i) = nth 0%N rs i) -> (forall j, val (g j) = nth 0%N cs j) ->
  \matrix_(i < k, j < k) get M (nth 0%N rs i) (nth 0%N cs j) = mxsub f g (mx_of m n M).
Proof. by move=> hf hg; apply/matrixP => i j; rewrite !mxE hf hg. Qed.

(* increasing index maps are covered by the enumeration *)
Lemma tu_bf_increasing m n (M : mat) k (f : 'I_k -> 'I_m) (g : 'I_k -> 'I_n) :
  tu_bf m n M ->
  (forall i j : 'I_k, (i < j)%N -> (f i < f j)%N) ->
  (forall i j : 'I_k, (i < j)%N -> (g i < g j)%N) ->
  \det (mxsub f g (mx_of m n M)) \in [:: -1; 0; 1].
Proof.
move=> tu finc ginc.
case: k f g finc ginc => [|k] f g finc ginc; first by rewrite det_mx00.
have finj : injective f.
  move=> i j e; apply: val_inj => /=.
  by move: (finc i j) (finc j i); rewrite e ltnn; lia.
have ginj : injective g.
  move=> i j e; apply: val_inj => /=.
  by move: (ginc i j) (ginc j i); rewrite e ltnn; lia.
have km : (k.+1 <= m)%N by have := leq_card f finj; rewrite !card_ord.
have kn : (k.+1 <= n)%N by have := leq_card g ginj; rewrite !card_ord.
move: tu; rewrite /tu_bf forallbE iotaE minE => /allP /(_ k.+1).
have -> : k.+1 \in seq.iota 1 (minn m n) by rewrite mem_iota; lia.
move=> /(_ isT).
rewrite /tu_order !forallbE !iotaE => /allP /(_ (seq_of_map f)).
have -> : seq_of_map f \in subseqs k.+1 (seq.iota 0 m).
  rewrite -{2}(size_seq_of_map f); apply: subseqs_complete.
  by apply: sorted_subseq_iota; [exact: seq_of_map_sorted | exact: seq_of_map_lt].
move=> /(_ isT) /allP /(_ (seq_of_map g)).
have -> : seq_of_map g \in subseqs k.+1 (seq.iota 0 n).
  rewrite -{2}(size_seq_of_map g); apply: subseqs_complete.
  by apply: sorted_subseq_iota; [exact: seq_of_map_sorted | exact: seq_of_map_lt].
move=> /(_ isT); rewrite small_detP (@detE k.+1) ?size_seq_of_map //.
by rewrite (@mxsub_seqE m n M _ f g) // => i; rewrite nth_seq_of_map.
Qed.

Theorem tu_bfP m n (M : mat) : reflect (TUmx (mx_of m n M)) (tu_bf m n M).
Proof.
apply: (iffP idP) => [tu k f g|TU].
- case: (not_inj_witness f) => [finj|[i1 [i2 [ne e]]]]; last first.
    rewrite (determinant_alternate ne) ?inE ?eqxx ?orbT // => j.
    by rewrite !mxE e.
  case: (not_inj_witness g) => [ginj|[j1 [j2 [ne e]]]]; last first.
    rewrite -det_tr (determinant_alternate ne) ?inE ?eqxx ?orbT // => i.
    by rewrite !mxE e.
  have [s [f' [finc fE]]] := inj_factor finj.
  have [t [g' [ginc gE]]] := inj_factor ginj.
  have -> : mxsub f g (mx_of m n M) = row_perm s (col_perm t (mxsub f' g' (mx_of m n M))).
    by apply/matrixP => i j; rewrite !mxE fE gE.
  rewrite det_row_perm det_col_perm; do 2!apply: small_sign.
  exact: tu_bf_increasing.
- rewrite /tu_bf forallbE iotaE; apply/allP => k _.
  rewrite /tu_order forallbE !iotaE; apply/allP => rs /subseqs_sub [subr szr].
  rewrite forallbE; apply/allP => cs /subseqs_sub [subc szc].
  have [f hf] := idx_map szr (subseq_iota_lt subr).
  have [g hg] := idx_map szc (subseq_iota_lt subc).
  by rewrite small_detP detE // (mxsub_seqE M hf hg); apply: TU.
Qed.

Theorem check_violator_sound m n (M : mat) rs cs :
  check_violator m n M rs cs = true -> ~ TUmx (mx_of m n M).
Proof.
rewrite /check_violator => /andP [/andP [/andP [/andP [/andP [sz ltr] ltc] _] _] nd] TU.
move: sz ltr ltc nd; rewrite !all_ltE => /Nat.eqb_eq sz ltr ltc.
have [f hf] := idx_map (erefl (size rs)) ltr.
have [g hg] := idx_map (esym sz) ltc.
rewrite small_detP (@detE (size rs)) // (mxsub_seqE M hf hg) => /negP; apply.
exact: TU.
Qed.

Corollary TUmx_entries m n (M : mat) : TUmx (mx_of m n M) ->
  forall i j, (i < m)%N -> (j < n)%N -> get M i j \in [:: -1; 0; 1].
Proof.
move=> TU i j im jn.
have := TU 1%N (fun _ => Ordinal im) (fun _ => Ordinal jn).
by rewrite det_mx11 !mxE.
Qed.

Print Assumptions detE.
Print Assumptions tu_bfP.
Print Assumptions check_violator_sound.
Print Assumptions TUmx_entries.
