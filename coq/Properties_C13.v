(* Properties_C13.v — C13: pivots equal field arithmetic (up to line negation).
   Statements closed by `exact`; proofs in PivotProofs.v. *)
From Cmr Require Import Base Det BaseProofs PivotModel PivotProofs.
Local Open Scope Z_scope.

(* A binary pivot is the GF(2) basis exchange: [I | M'] with columns r and m+c exchanged is obtained from
   [I | M] by the row operations that turn column m+c into the r-th unit vector. *)
Theorem C13_binary_pivot_is_basis_exchange : forall m n M r c,
  wf_mat m n M = true -> is_binary M = true -> (r < m)%nat -> (c < n)%nat -> get M r c <> 0 ->
  forall i k, (i < m)%nat -> (k < m + n)%nat ->
  (rowop m M r c i k - ext m (bpivot m n M r c) i (swap m r c k)) mod 2 = 0.
Proof. exact binary_pivot_is_basis_exchange'. Qed.
Print Assumptions C13_binary_pivot_is_basis_exchange.

(* ... and an involution *)
Theorem C13_binary_pivot_involution : forall m n M r c,
  wf_mat m n M = true -> is_binary M = true -> (r < m)%nat -> (c < n)%nat -> get M r c = 1 ->
  bpivot m n (bpivot m n M r c) r c = M.
Proof. exact binary_pivot_involution. Qed.
Print Assumptions C13_binary_pivot_involution.

(* A ternary pivot is the GF(3) basis exchange up to negating the pivot column *)
Theorem C13_ternary_pivot_is_basis_exchange : forall m n M r c,
  wf_mat m n M = true -> is_ternary M = true -> (r < m)%nat -> (c < n)%nat -> get M r c <> 0 ->
  forall i k, (i < m)%nat -> (k < m + n)%nat ->
  (rowop m M r c i k - ext m (negcol m n (tpivot m n M r c) c) i (swap m r c k)) mod 3 = 0.
Proof. exact ternary_pivot_is_basis_exchange. Qed.
Print Assumptions C13_ternary_pivot_is_basis_exchange.

(* pivoting twice on the same entry restores the matrix up to negating that row and column *)
Theorem C13_ternary_pivot_twice : forall m n M r c,
  wf_mat m n M = true -> is_ternary M = true -> (r < m)%nat -> (c < n)%nat -> get M r c <> 0 ->
  tpivot m n (tpivot m n M r c) r c =
  mk_mat m n (fun i j => if xorb (Nat.eqb i r) (Nat.eqb j c) then - get M i j else get M i j).
Proof. exact ternary_pivot_twice. Qed.
Print Assumptions C13_ternary_pivot_twice.

(* a pivot sequence is the pivots applied one by one (by construction of the model the library is compared with) *)
Theorem C13_sequence_is_one_by_one : forall q m n M r rs c cs dR dC R,
  q > 0 -> pivot1 q m n M r c = Some R ->
  pivots q m n M (r :: rs) (c :: cs) dR dC = pivots q m n (reduce q R) rs cs (dR ++ [r]) (dC ++ [c]).
Proof. exact pivots_cons. Qed.
Print Assumptions C13_sequence_is_one_by_one.

(* the regular pivot reports a violator exactly when an entry leaves {-1,0,1}, and that violator is a
   2x2 submatrix of the input with determinant -2 or +2 *)
Theorem C13_regular_pivot_violator : forall m n M r c i j,
  wf_mat m n M = true -> is_ternary M = true -> (r < m)%nat -> (c < n)%nat -> get M r c <> 0 ->
  find_bad 0 (pivot_raw m n M r c) = Some (i, j) ->
  (i < m)%nat /\ (j < n)%nat /\ i <> r /\ j <> c /\
  (det 2 (submat M [r; i] [c; j]) = 2 \/ det 2 (submat M [r; i] [c; j]) = -2).
Proof. exact regular_pivot_violator. Qed.
Print Assumptions C13_regular_pivot_violator.

(* whenever the extracted judge accepts a record of a pivot call (single or sequence, binary / ternary /
   regular): the result equals the model, the same pivots applied one at a time through the single-pivot
   entry point give the same matrix, a zero pivot entry gives CMR_ERROR_INPUT, and a reported violator passes
   the certificate check (|det| >= 2) *)
Theorem C13_judge_sound : forall rec q m n M rs cs rc res viol rc1 res1 viol1 rest,
  pivot_input rec = Some ((q, (m, n, M), rs, cs, rc, res, viol, rc1, res1, viol1), rest) ->
  pivot_domain q m n M rs cs = true ->
  judge_pivot rec = 0 ->
  match pivots q m n M rs cs [] [] with
  | PErr => rc = 1 /\ rc1 = 1
  | POk R => rc = 0 /\ res = Some (m, n, reduce q R) /\ rc1 = 0 /\ res1 = Some (m, n, reduce q R) /\
             viol = None /\ viol1 = None
  | PViol _ _ => rc = 0 /\ res = None /\ exists ar ac, viol = Some (ar, ac) /\ check_violator m n M ar ac = true
  end.
Proof. exact judge_pivot_sound. Qed.
Print Assumptions C13_judge_sound.

Example C13_nonvacuous :
  pivots (-3) 2 2 [[-1;-1];[-1;1]] [0%nat] [0%nat] [] [] = PViol [0;1]%nat [0;1]%nat /\
  tpivot 2 2 [[-1;1];[1;1]] 1 0 = [[-1;-1];[-1;1]].
Proof. split; vm_compute; reflexivity. Qed.

(* pivots and total unimodularity (TuPivot.v, MathComp): the ternary pivot maps TU matrices to TU matrices and non-TU
   ones to non-TU ones; the pivot over Z of a TU matrix stays TU (so the regular pivot never reports a violator on a TU
   matrix and every violator it reports witnesses a matrix that is not TU) *)
From Cmr Require TuPivot.
Theorem C13_ternary_pivot_preserves_TU : forall m n M r c,
  wf_mat m n M = true -> is_ternary M = true -> Nat.ltb r m = true -> Nat.ltb c n = true -> get M r c <> 0 ->
  tu_bf m n (tpivot m n M r c) = tu_bf m n M.
Proof. exact TuPivot.tu_bf_tpivot_std. Qed.
Print Assumptions C13_ternary_pivot_preserves_TU.

Theorem C13_pivot_over_Z_preserves_TU : forall m n M r c,
  Nat.ltb r m = true -> Nat.ltb c n = true -> (get M r c = 1 \/ get M r c = -1) ->
  tu_bf m n M = true -> tu_bf m n (pivot_raw m n M r c) = true.
Proof. exact TuPivot.tu_bf_pivot_raw_std. Qed.
Print Assumptions C13_pivot_over_Z_preserves_TU.

From Cmr Require RegPivot TuModel.
Theorem C13_binary_pivot_preserves_regularity : forall m n M r c,
  wf_mat m n M = true -> is_binary M = true -> (r < m)%nat -> (c < n)%nat -> get M r c = 1 ->
  TuModel.regular_bf m n (bpivot m n M r c) = TuModel.regular_bf m n M.
Proof. exact RegPivot.regular_bf_bpivot_lt. Qed.
Print Assumptions C13_binary_pivot_preserves_regularity.

(* ---------- the C text of moduloTernary / moduloNonnegative, translated on every run (tools/c2gallina.py -> LeafGen.v,
   semantics LeafSem.v): for all int arguments except q = INT_MIN the C function has defined behaviour and returns the
   value of the model used by the pivot theorems above ---------- *)
From Cmr Require LeafSem LeafGen LeafProofs.
Theorem C13_moduloTernary_code_is_model : forall p q, LeafProofs.int32 p -> LeafProofs.int32 q -> q <> -2147483648 ->
  LeafGen.c_moduloTernary p q = Some (modulo_ternary p q).
Proof. exact LeafProofs.c_moduloTernary_spec. Qed.
Print Assumptions C13_moduloTernary_code_is_model.

Theorem C13_moduloNonnegative_code_is_model : forall p q, LeafProofs.int32 p -> LeafProofs.int32 q -> q <> -2147483648 ->
  LeafGen.c_moduloNonnegative p q = Some (modulo_nonneg p q).
Proof. exact LeafProofs.c_moduloNonnegative_spec. Qed.
Print Assumptions C13_moduloNonnegative_code_is_model.

From Cmr Require LeafModel LeafJudgeProofs.
(* an accepted `leaf` record: the function translated from the C text evaluates to the value the compiled function returned
   (translator and semantics validated against the compiler) and the value meets the specification *)
Theorem C13_leaf_judge_sound : forall rec, LeafModel.judge_leaf rec = 0 ->
  exists fn args r rest, LeafJudgeProofs.leaf_input rec = Some ((fn, args, r), rest) /\
    LeafModel.leaf_gen fn args = Some (Some r) /\ LeafModel.leaf_spec fn args r = true.
Proof. exact LeafJudgeProofs.judge_leaf_sound. Qed.
Print Assumptions C13_leaf_judge_sound.

(* ---------- the judge accepts EXACTLY the records that satisfy its specification: besides soundness (above) also completeness,
   i.e. a record of a correct answer is never rejected (JudgeComplete2.v) ---------- *)
From Cmr Require JudgeComplete2.
Theorem C13_judge_pivot_accepts_exactly_the_specification :
    forall (rec : list Z) (q : Z) (m n : nat) (M : mat) (rs cs : list nat) (rc : Z)
    (res : option (nat * nat * mat)) (viol : option (list nat * list nat)) (rc1 : Z)
    (res1 : option (nat * nat * mat)) (viol1 : option (list nat * list nat)) 
    (rest : list Z),
    PivotProofs.pivot_input rec = Some (q, (m, n, M), rs, cs, rc, res, viol, rc1, res1, viol1, rest) ->
    PivotModel.judge_pivot rec = 0%Z <->
    JudgeComplete2.pivot_spec q m n M rs cs rc res viol rc1 res1 viol1.
Proof. exact JudgeComplete2.judge_pivot_iff. Qed.
Print Assumptions C13_judge_pivot_accepts_exactly_the_specification.
