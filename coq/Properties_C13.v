From Cmr Require Import Base Det PivotModel.
Theorem placeholder_C13 : True. Proof. exact I. Qed.
