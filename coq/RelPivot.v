(* RelPivot.v — C10, kind 6 of judge_rel: the ternary pivot.  The judge verifies that M' is the ternary pivot of M on a
   nonzero entry and demands equal TU verdicts; by TuPivot.v this demand is a theorem about the definition. *)
From Cmr Require Import Base Det BaseProofs PivotModel PivotProofs SpModel RelModel RelProofs.
From Cmr Require TuPivot.
Local Open Scope Z_scope.

Lemma rel_input_wf : forall rec kind p1 p2 m n M m' n' M' v v' rest,
  rel_input rec = Some ((kind, p1, p2, (m, n, M), (m', n', M'), v, v'), rest) -> wf_mat m n M = true.
Proof.
  intros rec kind p1 p2 m n M m' n' M' v v' rest H. unfold rel_input, dbind in H.
  destruct (dZ rec) as [[a r1]|]; [|discriminate].
  destruct (dlist dZ r1) as [[b r2]|]; [|discriminate].
  destruct (dlist dZ r2) as [[c r3]|]; [|discriminate].
  destruct (dmat r3) as [[[[m0 n0] M0] r4]|] eqn:E; [|discriminate].
  destruct (dmat r4) as [[[[m1 n1] M1] r5]|]; [|discriminate].
  destruct (drep dZ 10 r5) as [[w r6]|]; [|discriminate].
  destruct (drep dZ 10 r6) as [[w' r7]|]; [|discriminate].
  unfold dend in H. destruct r7; [|discriminate]. inversion H; subst.
  eapply dmat_wf; eassumption.
Qed.

Lemma mt3_nonzero : forall x, (x = -1 \/ x = 0 \/ x = 1) -> modulo_ternary x 3 =? 0 = false -> x <> 0.
Proof. intros x Hx H ->. rewrite modulo_ternary_0 in H. discriminate. Qed.

(* kind 6: ternary pivot on a nonzero entry *)
Theorem judge_rel_kind6 : forall rec p1 p2 m n M m' n' M' v v' rest,
  rel_input rec = Some ((6, p1, p2, (m, n, M), (m', n', M'), v, v'), rest) ->
  judge_rel rec = 0 ->
  exists r c, p1 = [r; c] /\ 0 <= r < Z.of_nat m /\ 0 <= c < Z.of_nat n /\ m' = m /\ n' = n /\
    is_ternary M = true /\ get M (Z.to_nat r) (Z.to_nat c) <> 0 /\
    M' = reduce 3 (pivot_raw m n M (Z.to_nat r) (Z.to_nat c)) /\
    same_at v v' V_TU V_TU = true /\
    tu_bf m' n' M' = tu_bf m n M.
Proof.
  intros rec p1 p2 m n M m' n' M' v v' rest Hdec HJ.
  pose proof (rel_input_wf _ _ _ _ _ _ _ _ _ _ _ _ _ Hdec) as Hwf.
  unfold judge_rel in HJ. unfold rel_input in Hdec. rewrite Hdec in HJ.
  cbv beta iota zeta in HJ.
  change (6 =? 1) with false in HJ. change (6 =? 2) with false in HJ. change (6 =? 3) with false in HJ.
  change (6 =? 4) with false in HJ. change (6 =? 5) with false in HJ. change (6 =? 6) with true in HJ.
  cbv iota in HJ. cbn [orb] in HJ.
  destruct p1 as [|r [|c [|? ?]]]; try discriminate.
  match type of HJ with (if negb ?C then _ else _) = _ => destruct C eqn:C1 end; cbn [negb] in HJ; [|discriminate].
  destruct (same_at v v' V_TU V_TU) eqn:S; [|discriminate].
  repeat (apply andb_true_iff in C1; let H := fresh "K" in destruct C1 as [C1 H]).
  apply Nat.eqb_eq in C1. apply Nat.eqb_eq in K6. subst m' n'.
  apply mat_eqb_eq in K. apply negb_true_iff in K0.
  apply Z.leb_le in K1. apply Z.leb_le in K2. apply Z.ltb_lt in K3. apply Z.ltb_lt in K4.
  assert (Hnz : get M (Z.to_nat r) (Z.to_nat c) <> 0).
  { apply mt3_nonzero; [|exact K0]. apply PivotProofs.get_ternary. exact K5. }
  exists r, c. repeat apply conj; auto; try lia.
  subst M'. apply TuPivot.tu_bf_tpivot_std; auto; apply Nat.ltb_lt; lia.
Qed.

(* hence: on an accepted kind-6 record the two TU verdicts the judge compares are verdicts about matrices whose TU-ness
   (by the definition) is equal *)
Corollary judge_rel_kind6_verdicts : forall rec p1 p2 m n M m' n' M' v v' rest,
  rel_input rec = Some ((6, p1, p2, (m, n, M), (m', n', M'), v, v'), rest) ->
  judge_rel rec = 0 ->
  tu_bf m' n' M' = tu_bf m n M /\
  (is01 (vget v V_TU) -> is01 (vget v' V_TU) -> vget v V_TU = vget v' V_TU).
Proof.
  intros rec p1 p2 m n M m' n' M' v v' rest Hdec HJ.
  destruct (judge_rel_kind6 _ _ _ _ _ _ _ _ _ _ _ _ Hdec HJ) as (r & c & _ & _ & _ & _ & _ & _ & _ & _ & S & T).
  split; [exact T|]. intros D1 D2. apply (same_at_spec v v' V_TU V_TU); [exact S | unfold V_TU; intros; lia | exact D1 | exact D2].
Qed.

Print Assumptions judge_rel_kind6.
Print Assumptions judge_rel_kind6_verdicts.
