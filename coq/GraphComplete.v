(* GraphComplete.v — completeness of the graph certificate checkers of GraphModel.v: a certificate that is
   correct by the Prop-level specification of GraphProofs.v is accepted by the executable checker.
   Together with the soundness theorems of GraphProofs.v the checkers are equivalent to the specification. *)
From Coq Require Import List ZArith Bool Lia Permutation.
From Cmr Require Import Base Det BaseProofs GraphModel GraphProofs.
Import ListNotations.

(* ------------------------------------------------------------------------------------------ *)
(* 1. Simple paths: distinct edges                                                              *)
(* ------------------------------------------------------------------------------------------ *)

(* the edges of the tail of a simple path do not touch its start node *)
Lemma simple_tail_not_incident : forall es x y p,
  is_walk es x y p -> forall z, ~ In z (walk_nodes x p) ->
  forall q, In q p -> incident (fst q) z = false.
Proof.
  intros es x y p Hw z Hz [e b] Hq. simpl.
  destruct (walk_step_nodes _ _ _ _ Hw _ _ Hq) as [A B].
  unfold incident. apply orb_false_iff. split; apply Nat.eqb_neq; intros E; subst z; contradiction.
Qed.

Lemma simple_path_NoDup_edges : forall es x y p,
  is_walk es x y p -> NoDup (walk_nodes x p) -> NoDup (map fst p).
Proof.
  intros es x y p Hw; induction Hw as [x|x y e fwd p Hin Hs Hw IH]; intros Hnd; simpl; [constructor|].
  simpl in Hnd. apply NoDup_cons_iff in Hnd. destruct Hnd as [Hx Hnd].
  constructor; [|apply IH; exact Hnd].
  intros Hin'. apply in_map_iff in Hin'. destruct Hin' as [[e' b'] [E Hq]]. simpl in E; subst e'.
  pose proof (simple_tail_not_incident _ _ _ _ Hw x Hx _ Hq) as Hi. simpl in Hi.
  destruct fwd; subst x; [rewrite incident_u in Hi | rewrite incident_v in Hi]; discriminate.
Qed.

Lemma NoDup_ids_of_edges : forall es (l : list edge),
  NoDup (map e_id es) -> (forall e, In e l -> In e es) -> NoDup l -> NoDup (map e_id l).
Proof.
  intros es l Hes Hsub Hl. apply NoDup_map_inj_in; [|exact Hl].
  intros a b Ha Hb E. apply (NoDup_map_inj _ _ e_id es); auto.
Qed.

(* ------------------------------------------------------------------------------------------ *)
(* 2. The greedy walk finds every simple path that uses up the edge list                        *)
(* ------------------------------------------------------------------------------------------ *)

Lemma take_incident_complete : forall es x e,
  In e es -> incident e x = true -> exists e' r, take_incident es x = Some (e', r).
Proof.
  induction es as [|a es IH]; intros x e Hin Hi; simpl in *; [contradiction|].
  destruct (incident a x) eqn:Ha; [eauto|].
  destruct Hin as [->|Hin]; [congruence|].
  destruct (IH _ _ Hin Hi) as [e' [r E]]. rewrite E. eauto.
Qed.

Theorem walk_complete : forall es p fuel cur target visited rest,
  is_walk es cur target p -> NoDup (walk_nodes cur p) ->
  Permutation (map fst p) rest ->
  (forall z, In z (tl (walk_nodes cur p)) -> ~ In z visited) ->
  length rest <= fuel ->
  walk fuel cur target visited rest = Some p.
Proof.
  intros es; induction p as [|[e fwd] p IH]; intros fuel cur target visited rest Hw Hnd Hperm Hvis Hfuel.
  - apply Permutation_nil in Hperm. subst rest. rewrite walk_nil_eq.
    inversion Hw; subst. rewrite Nat.eqb_refl. reflexivity.
  - apply is_walk_cons_inv in Hw. destruct Hw as [Hin [Hs Hw]].
    simpl in Hnd. apply NoDup_cons_iff in Hnd. destruct Hnd as [Hcur Hnd].
    set (nxt := if fwd then e_v e else e_u e) in *.
    simpl in Hperm.
    assert (Hlen : length rest = S (length p)).
    { rewrite <- (Permutation_length Hperm). simpl. rewrite map_length. reflexivity. }
    destruct rest as [|e0 rest0]; [discriminate|].
    destruct fuel as [|f]; [simpl in Hfuel; lia|].
    rewrite walk_S_cons.
    assert (Hie : incident e cur = true).
    { destruct fwd; subst cur; [apply incident_u | apply incident_v]. }
    assert (Hine : In e (e0 :: rest0)).
    { eapply Permutation_in; [exact Hperm | left; reflexivity]. }
    destruct (take_incident_complete _ _ _ Hine Hie) as [e' [rest' TI]].
    rewrite TI. cbv zeta.
    destruct (take_incident_spec _ _ _ _ TI) as [Hie' Hperm'].
    assert (Ee : e' = e).
    { assert (Hin' : In e' (e :: map fst p)).
      { eapply Permutation_in; [apply Permutation_sym; exact Hperm|].
        eapply Permutation_in; [apply Permutation_sym; exact Hperm' | left; reflexivity]. }
      destruct Hin' as [E|Hin']; [auto|].
      apply in_map_iff in Hin'. destruct Hin' as [q [E Hq]].
      pose proof (simple_tail_not_incident _ _ _ _ Hw cur Hcur _ Hq) as Hi.
      rewrite E in Hi. congruence. }
    subst e'.
    assert (Hnn : In nxt (walk_nodes nxt p)) by (rewrite walk_nodes_hd; left; reflexivity).
    assert (Hne : nxt <> cur) by (intros E; apply Hcur; rewrite <- E; exact Hnn).
    assert (Efwd : Nat.eqb (e_u e) cur = fwd).
    { destruct fwd; [apply Nat.eqb_eq; exact Hs | apply Nat.eqb_neq; exact Hne]. }
    rewrite Efwd. fold nxt.
    assert (Hloop : is_loop e = false).
    { unfold is_loop. apply Nat.eqb_neq. unfold nxt in Hne. destruct fwd; congruence. }
    assert (Hmem : memn nxt visited = false).
    { apply memn_false. apply Hvis. simpl. exact Hnn. }
    rewrite Hloop, Hmem. cbn [orb].
    rewrite (IH f nxt target (nxt :: visited) rest'); auto.
    + apply (Permutation_cons_inv (a := e)).
      eapply perm_trans; [exact Hperm | exact Hperm'].
    + intros z Hz [E|Hv].
      * subst z. rewrite walk_nodes_hd in Hnd. apply NoDup_cons_iff in Hnd. destruct Hnd as [A _]. contradiction.
      * apply (Hvis z); [|exact Hv]. simpl. fold nxt. rewrite walk_nodes_hd. right; exact Hz.
    + apply Permutation_length in Hperm'. simpl in Hperm', Hfuel. lia.
Qed.

(* the greedy walk returns exactly the simple path, whatever the order of the edge list *)
Theorem path_of_complete_eq : forall S u v p,
  simple_path S u v p -> Permutation (map fst p) S -> path_of S u v = Some p.
Proof.
  intros S u v p [Hw Hnd] Hperm. unfold path_of.
  apply (walk_complete S); auto.
  intros z Hz [E|[]]. subst z. rewrite walk_nodes_hd in Hnd.
  apply NoDup_cons_iff in Hnd. destruct Hnd as [A _]. contradiction.
Qed.

Theorem path_of_complete : forall S u v p,
  NoDup (map e_id S) -> simple_path S u v p -> Permutation (map fst p) S ->
  exists q, path_of S u v = Some q.
Proof. intros S u v p _ Hsp Hperm. exists p. apply path_of_complete_eq; assumption. Qed.

Corollary path_of_iff : forall S u v p,
  path_of S u v = Some p <-> (simple_path S u v p /\ Permutation (map fst p) S).
Proof.
  intros S u v p. split.
  - apply path_of_sound.
  - intros [A B]. apply path_of_complete_eq; assumption.
Qed.

(* the form needed by the certificate checkers: a simple T-path whose edge set is exactly the set of forest
   edges selected by the support of column j is found by path_of on the selection in increasing row order *)
Lemma column_path_complete : forall m M T j u v p,
  NoDup T -> length T = m ->
  simple_path T u v p ->
  (forall i, i < m -> (In (nth i T dflt) (map fst p) <-> get M i j <> 0%Z)) ->
  path_of (map (fun i => nth i T dflt) (col_support m M j)) u v = Some p.
Proof.
  intros m M T j u v p HT HlenT [Hw Hnd] Hiff.
  set (S := map (fun i => nth i T dflt) (col_support m M j)).
  assert (HndS : NoDup S).
  { unfold S. apply NoDup_map_inj_in; [|apply NoDup_col_support].
    intros a b Ha Hb E. apply col_support_In in Ha. apply col_support_In in Hb.
    eapply (proj1 (NoDup_nth T dflt) HT); [lia | lia | exact E]. }
  assert (Hndp : NoDup (map fst p)) by (eapply simple_path_NoDup_edges; eauto).
  assert (Hsame : forall e, In e (map fst p) <-> In e S).
  { intros e. split.
    - intros He.
      assert (HeT : In e T).
      { apply in_map_iff in He. destruct He as [q [E Hq]]. subst e. eapply is_walk_edges; eauto. }
      destruct (In_nth T e dflt HeT) as [i [Hi E]]. subst e.
      unfold S. apply (in_map (fun i => nth i T dflt)). apply col_support_In.
      split; [lia|]. apply Hiff; [lia | exact He].
    - intros He. unfold S in He. apply in_map_iff in He. destruct He as [i [E Hi]]. subst e.
      apply col_support_In in Hi. destruct Hi as [Hi Hnz]. apply Hiff; assumption. }
  apply path_of_complete_eq.
  - split; [|exact Hnd]. eapply is_walk_incl; [|exact Hw].
    intros q Hq. apply Hsame. apply in_map. exact Hq.
  - apply NoDup_Permutation; assumption.
Qed.

(* ------------------------------------------------------------------------------------------ *)
(* 3. Leaf stripping succeeds on every forest                                                   *)
(* ------------------------------------------------------------------------------------------ *)

Definition leaf_edge (all : list edge) (e : edge) : bool :=
  negb (is_loop e) && (Nat.eqb (degree all (e_u e)) 1 || Nat.eqb (degree all (e_v e)) 1).

Lemma strip_one_complete : forall all es e,
  In e es -> leaf_edge all e = true -> exists r, strip_one all es = Some r.
Proof.
  intros all; induction es as [|a es IH]; intros e Hin Hleaf; simpl in *; [contradiction|].
  fold (leaf_edge all a). destruct (leaf_edge all a) eqn:Ha; [eauto|].
  destruct Hin as [->|Hin]; [congruence|].
  destruct (IH _ Hin Hleaf) as [r E]. rewrite E. eauto.
Qed.

Lemma strip_S_cons : forall f a L,
  strip (S f) (a :: L) =
  match strip_one (a :: L) (a :: L) with Some es' => strip f es' | None => false end.
Proof. reflexivity. Qed.

Lemma has_cycle_incl : forall es es', (forall e, In e es -> In e es') -> has_cycle es -> has_cycle es'.
Proof.
  intros es es' Hsub [x [p [Hne [Hw Hnd]]]]. exists x, p. repeat split; auto.
  eapply is_walk_incl; [|exact Hw]. intros q Hq. apply Hsub. eapply is_walk_edges; eauto.
Qed.

Lemma loop_has_cycle : forall es e, In e es -> is_loop e = true -> has_cycle es.
Proof.
  intros es e Hin Hloop. unfold is_loop in Hloop. apply Nat.eqb_eq in Hloop.
  exists (e_u e), [(e, true)]. split; [discriminate|]. split.
  - constructor; auto. rewrite <- Hloop. constructor.
  - simpl. constructor; [intros [] | constructor].
Qed.

Lemma degree_pos_incident : forall L z, 1 <= degree L z -> exists e, In e L /\ incident e z = true.
Proof.
  induction L as [|a L IH]; intros z H; [simpl in H; lia|].
  rewrite degree_cons in H.
  destruct (incident a z) eqn:Ha; [exists a; split; [left; reflexivity | exact Ha]|].
  assert (contrib a z = 0).
  { unfold incident in Ha. apply orb_false_iff in Ha. destruct Ha as [A B].
    unfold contrib. rewrite A, B. reflexivity. }
  destruct (IH z) as [e [A B]]; [lia|]. exists e. split; [right|]; assumption.
Qed.

Lemma contrib_nonloop_le1 : forall e z, is_loop e = false -> contrib e z <= 1.
Proof.
  intros e z Hloop. unfold is_loop in Hloop. apply Nat.eqb_neq in Hloop. unfold contrib.
  destruct (Nat.eqb (e_u e) z) eqn:A; destruct (Nat.eqb (e_v e) z) eqn:B; simpl; try lia.
  apply Nat.eqb_eq in A. apply Nat.eqb_eq in B. congruence.
Qed.

Lemma other_incident_edge : forall es e z,
  NoDup es -> In e es -> is_loop e = false -> 2 <= degree es z ->
  exists e', In e' es /\ e' <> e /\ incident e' z = true.
Proof.
  intros es e z Hnd Hin Hloop Hdeg.
  apply in_split in Hin. destruct Hin as [l1 [l2 ->]].
  rewrite degree_app, degree_cons in Hdeg.
  pose proof (contrib_nonloop_le1 e z Hloop) as Hc.
  destruct (degree_pos_incident (l1 ++ l2) z) as [e' [He' Hi']]; [rewrite degree_app; lia|].
  exists e'. split; [|split; [|exact Hi']].
  - apply in_app_or in He'. apply in_or_app. destruct He' as [H|H]; [left | right; right]; exact H.
  - intros E. subst e'. apply NoDup_remove_2 in Hnd. contradiction.
Qed.

Lemma walk_split_at : forall es x y p, is_walk es x y p -> forall z, In z (walk_nodes x p) ->
  exists p1 p2, p = p1 ++ p2 /\ is_walk es x z p1 /\ is_walk es z y p2.
Proof.
  intros es x y p Hw; induction Hw as [x|x y e fwd p Hin Hs Hw IH]; intros z Hz.
  - simpl in Hz. destruct Hz as [<-|[]]. exists [], []. repeat split; constructor.
  - simpl in Hz. destruct Hz as [<-|Hz].
    + exists [], ((e, fwd) :: p). repeat split; constructor; auto.
    + destruct (IH z Hz) as [p1 [p2 [E [A B]]]]. exists ((e, fwd) :: p1), p2.
      repeat split; [rewrite E; reflexivity | constructor; auto | exact B].
Qed.

Section NoLeaf.
  Variable es : list edge.
  Hypothesis Hids : NoDup (map e_id es).
  Hypothesis Hnocycle : ~ has_cycle es.
  Hypothesis Hnoleaf : forall e, In e es -> leaf_edge es e = false.

  Let Hes : NoDup es.
  Proof. eapply NoDup_map_NoDup; exact Hids. Qed.

  Let Hnoloop : forall e, In e es -> is_loop e = false.
  Proof.
    intros e Hin. destruct (is_loop e) eqn:E; [|reflexivity].
    exfalso. apply Hnocycle. eapply loop_has_cycle; eauto.
  Qed.

  Let Hdeg2 : forall e z, In e es -> incident e z = true -> 2 <= degree es z.
  Proof.
    intros e z Hin Hi.
    pose proof (Hnoleaf e Hin) as Hl. unfold leaf_edge in Hl. rewrite (Hnoloop e Hin) in Hl.
    cbn [negb andb] in Hl. apply orb_false_iff in Hl. destruct Hl as [A B].
    apply Nat.eqb_neq in A. apply Nat.eqb_neq in B.
    pose proof (degree_incident_ge es e z Hin Hi) as Hge.
    unfold incident in Hi. apply orb_true_iff in Hi. rewrite !Nat.eqb_eq in Hi.
    destruct Hi as [Hi|Hi]; subst z; lia.
  Qed.

  (* every nonempty simple path can be extended at its start node *)
  Lemma nonleaf_extend : forall x y p, p <> [] -> simple_path es x y p ->
    exists x' q, simple_path es x' y (q :: p).
  Proof.
    intros x y p Hne [Hw Hnd]. destruct p as [|[e fwd] p']; [congruence|].
    pose proof (is_walk_cons_inv _ _ _ _ _ _ Hw) as [Hin [Hs Hw']].
    assert (Hie : incident e x = true).
    { destruct fwd; subst x; [apply incident_u | apply incident_v]. }
    destruct (other_incident_edge es e x Hes Hin (Hnoloop e Hin) (Hdeg2 e x Hin Hie))
      as [e' [Hin' [Hne' Hi']]].
    (* the step (e', b) from x' arrives at x *)
    assert (Hstep : exists (b : bool) x', (if b then e_u e' = x' else e_v e' = x') /\
                                 (if b then e_v e' else e_u e') = x).
    { unfold incident in Hi'. apply orb_true_iff in Hi'. rewrite !Nat.eqb_eq in Hi'.
      destruct Hi' as [Hi'|Hi'].
      - exists false, (e_v e'). split; [reflexivity | exact Hi'].
      - exists true, (e_u e'). split; [reflexivity | exact Hi']. }
    destruct Hstep as [b [x' [Hb1 Hb2]]].
    assert (Hw2 : is_walk es x' y ((e', b) :: (e, fwd) :: p')).
    { constructor; auto. rewrite Hb2. exact Hw. }
    exists x', (e', b).
    split; [exact Hw2|].
    simpl. change (NoDup (x' :: walk_nodes (if b then e_v e' else e_u e') ((e, fwd) :: p'))).
    rewrite Hb2. constructor; [|exact Hnd].
    intros Hx'. apply Hnocycle.
    destruct (walk_split_at _ _ _ _ Hw x' Hx') as [p1 [p2 [E [A B]]]].
    exists x', ((e', b) :: p1). split; [discriminate|]. split.
    - constructor; auto. rewrite Hb2. exact A.
    - assert (Hndp : NoDup (map fst ((e, fwd) :: p'))) by (eapply simple_path_NoDup_edges; eauto).
      assert (Hnotin : ~ In e' (map fst ((e, fwd) :: p'))).
      { simpl. intros [E'|Hin2]; [congruence|].
        apply in_map_iff in Hin2. destruct Hin2 as [q [Eq Hq]].
        simpl in Hnd. apply NoDup_cons_iff in Hnd. destruct Hnd as [Hx _].
        pose proof (simple_tail_not_incident _ _ _ _ Hw' x Hx _ Hq) as Hi2.
        rewrite Eq in Hi2. congruence. }
      rewrite E, map_app in Hndp, Hnotin.
      rewrite <- (map_map fst e_id).
      apply (NoDup_ids_of_edges es); auto.
      + intros a Ha. simpl in Ha. destruct Ha as [<-|Ha]; [exact Hin'|].
        apply in_map_iff in Ha. destruct Ha as [q [Eq Hq]]. subst a.
        apply (is_walk_edges _ _ _ _ A q Hq).
      + simpl. constructor.
        * intros H. apply Hnotin. apply in_or_app. left; exact H.
        * eapply NoDup_app_l; exact Hndp.
  Qed.

  Lemma nonleaf_long_paths : es <> [] -> forall k, exists x y p, simple_path es x y p /\ length p = S k.
  Proof.
    intros Hne. induction k as [|k IH].
    - destruct es as [|e0 r] eqn:Ees; [congruence|].
      assert (Hin0 : In e0 (e0 :: r)) by (left; reflexivity).
      pose proof (Hnoloop e0 Hin0) as Hl. unfold is_loop in Hl. apply Nat.eqb_neq in Hl.
      exists (e_u e0), (e_v e0), [(e0, true)]. split; [|reflexivity]. split.
      + constructor; auto. constructor.
      + simpl. constructor; [intros [H|[]]; congruence|]. constructor; [intros []|constructor].
    - destruct IH as [x [y [p [Hsp Hlen]]]].
      destruct (nonleaf_extend x y p) as [x' [q Hsp']]; [destruct p; [discriminate | discriminate] | exact Hsp|].
      exists x', y, (q :: p). split; [exact Hsp' | simpl; congruence].
  Qed.

  Lemma nonleaf_absurd : es = [].
  Proof.
    destruct es as [|e0 r] eqn:Ees; [reflexivity|]. exfalso. rewrite <- Ees in *.
    destruct (nonleaf_long_paths) with (k := length es) as [x [y [p [[Hw Hnd] Hlen]]]];
      [rewrite Ees; discriminate|].
    assert (Hndp : NoDup (map fst p)) by (eapply simple_path_NoDup_edges; eauto).
    assert (Hincl : incl (map fst p) es).
    { intros a Ha. apply in_map_iff in Ha. destruct Ha as [q [Eq Hq]]. subst a.
      eapply is_walk_edges; eauto. }
    pose proof (NoDup_incl_length Hndp Hincl) as Hle. rewrite map_length in Hle. lia.
  Qed.
End NoLeaf.

(* a nonempty edge list with distinct identifiers and without cycle has a leaf edge *)
Theorem forest_has_leaf : forall es,
  es <> [] -> NoDup (map e_id es) -> ~ has_cycle es ->
  exists e, In e es /\ is_loop e = false /\ (degree es (e_u e) = 1 \/ degree es (e_v e) = 1).
Proof.
  intros es Hne Hids Hnc.
  destruct (existsb (leaf_edge es) es) eqn:Ex.
  - apply existsb_exists in Ex. destruct Ex as [e [Hin Hl]]. exists e. split; [exact Hin|].
    unfold leaf_edge in Hl. apply andb_true_iff in Hl. destruct Hl as [A B].
    apply negb_true_iff in A. apply orb_true_iff in B. rewrite !Nat.eqb_eq in B. auto.
  - exfalso. apply Hne. apply nonleaf_absurd; auto.
    intros e Hin. destruct (leaf_edge es e) eqn:El; [|reflexivity].
    assert (existsb (leaf_edge es) es = true) by (apply existsb_exists; eauto). congruence.
Qed.

Lemma strip_complete : forall fuel L,
  length L <= fuel -> NoDup (map e_id L) -> ~ has_cycle L -> strip fuel L = true.
Proof.
  induction fuel as [|f IH]; intros L Hlen Hids Hnc.
  - destruct L; [reflexivity | simpl in Hlen; lia].
  - destruct L as [|a L]; [reflexivity|].
    rewrite strip_S_cons.
    destruct (forest_has_leaf (a :: L)) as [e [Hin [Hloop Hdeg]]]; [discriminate | exact Hids | exact Hnc|].
    assert (Hleaf : leaf_edge (a :: L) e = true).
    { unfold leaf_edge. rewrite Hloop. cbn [negb andb]. apply orb_true_iff. rewrite !Nat.eqb_eq. exact Hdeg. }
    destruct (strip_one_complete (a :: L) (a :: L) e Hin Hleaf) as [r Hr]. rewrite Hr.
    destruct (strip_one_spec _ _ _ Hr) as [e1 [l1 [l2 [E1 [E2 _]]]]].
    apply IH.
    + rewrite E2. assert (length (a :: L) = length (l1 ++ e1 :: l2)) by (rewrite E1; reflexivity).
      rewrite app_length in *. simpl in *. lia.
    + rewrite E2. rewrite E1, map_app in Hids. simpl in Hids. apply NoDup_remove_1 in Hids.
      rewrite map_app. exact Hids.
    + intros Hc. apply Hnc. eapply has_cycle_incl; [|exact Hc].
      intros e2 He2. rewrite E1. rewrite E2 in He2. apply in_app_or in He2. apply in_or_app.
      destruct He2 as [H|H]; [left | right; right]; exact H.
Qed.

Theorem acyclic_complete : forall es, NoDup (map e_id es) -> ~ has_cycle es -> acyclic es = true.
Proof. intros es Hids Hnc. unfold acyclic. apply strip_complete; auto. Qed.

Corollary acyclic_iff : forall es, NoDup (map e_id es) -> (acyclic es = true <-> ~ has_cycle es).
Proof.
  intros es Hids. split; [apply acyclic_sound_gen | apply acyclic_complete; exact Hids].
Qed.

(* ------------------------------------------------------------------------------------------ *)
(* 4. check_graph_cert is complete                                                              *)
(* ------------------------------------------------------------------------------------------ *)

Lemma forallb_memn_cover : forall (es : list edge) ids,
  (forall e, In e es -> In (e_id e) ids) -> forallb (fun e => memn (e_id e) ids) es = true.
Proof.
  intros es ids H. apply forallb_forall. intros e He. apply memn_In. apply H. exact He.
Qed.

(* version with the acyclicity of T as a hypothesis on the executable side *)
Theorem check_graph_cert_complete' : forall m n M G forest coforest T C,
  is_binary M = true -> graph_ok G = true ->
  length forest = m -> length coforest = n ->
  NoDup (forest ++ coforest) ->
  (forall e, In e (g_edges G) -> In (e_id e) (forest ++ coforest)) ->
  lookup_all (g_edges G) forest = Some T -> lookup_all (g_edges G) coforest = Some C ->
  acyclic T = true -> fund_cycle_spec m n M T C ->
  check_graph_cert m n M G forest coforest = true.
Proof.
  intros m n M G forest coforest T C Hbin Hok Hlf Hlc Hnd Hcover ET EC Hacyc Hspec.
  destruct (lookup_all_spec _ _ _ ET) as [TI [TIn TL]].
  assert (HndT : NoDup (map e_id T)) by (rewrite TI; eapply NoDup_app_l; eauto).
  assert (HT : NoDup T) by (eapply NoDup_map_NoDup; eauto).
  assert (HlenT : length T = m) by congruence.
  unfold check_graph_cert. rewrite Hok, ET, EC, Hacyc.
  rewrite (proj2 (Nat.eqb_eq _ _) Hlf), (proj2 (Nat.eqb_eq _ _) Hlc).
  rewrite (proj2 (nodupn_NoDup _) Hnd), (forallb_memn_cover _ _ Hcover).
  cbn [andb]. apply forallb_forall. intros j Hj. apply in_iota in Hj.
  destruct (Hspec j) as [f [p [EF [Hsp Hiff]]]]; [lia|].
  rewrite EF. cbv zeta. fold dflt.
  rewrite (column_path_complete m M T j (e_u f) (e_v f) p HT HlenT Hsp); [reflexivity|].
  intros i Hi. rewrite <- (Hiff i Hi). split.
  - intros H. rewrite H. discriminate.
  - intros H. destruct (get_binary M i j Hbin) as [H0|H1]; [contradiction | exact H1].
Qed.

Theorem check_graph_cert_complete : forall m n M G forest coforest T C,
  wf_mat m n M = true -> is_binary M = true -> graph_ok G = true ->
  length forest = m -> length coforest = n ->
  NoDup (forest ++ coforest) ->
  (forall e, In e (g_edges G) -> In (e_id e) (forest ++ coforest)) ->
  lookup_all (g_edges G) forest = Some T -> lookup_all (g_edges G) coforest = Some C ->
  ~ has_cycle T -> fund_cycle_spec m n M T C ->
  check_graph_cert m n M G forest coforest = true.
Proof.
  intros m n M G forest coforest T C _ Hbin Hok Hlf Hlc Hnd Hcover ET EC Hnc Hspec.
  eapply check_graph_cert_complete'; eauto.
  apply acyclic_complete; [|exact Hnc].
  destruct (lookup_all_spec _ _ _ ET) as [TI _]. rewrite TI. eapply NoDup_app_l; eauto.
Qed.

(* the checker is equivalent to the specification (for a binary matrix; well-formedness is not needed) *)
Corollary check_graph_cert_iff : forall m n M G forest coforest,
  is_binary M = true ->
  (check_graph_cert m n M G forest coforest = true <->
   exists T C,
     graph_ok G = true /\
     lookup_all (g_edges G) forest = Some T /\ length T = m /\
     lookup_all (g_edges G) coforest = Some C /\ length C = n /\
     NoDup (forest ++ coforest) /\
     (forall e, In e (g_edges G) -> In (e_id e) (forest ++ coforest)) /\
     ~ has_cycle T /\
     fund_cycle_spec m n M T C).
Proof.
  intros m n M G forest coforest Hbin. split.
  - intros H. destruct (check_graph_cert_sound _ _ _ _ _ _ H Hbin)
      as [T [C [H0 [H1 [H2 [H3 [H4 [H5 [H6 [H7 [_ H8]]]]]]]]]]].
    exists T, C. auto 10.
  - intros [T [C [H0 [H1 [H2 [H3 [H4 [H5 [H6 [H7 H8]]]]]]]]]].
    destruct (lookup_all_spec _ _ _ H1) as [_ [_ TL]].
    destruct (lookup_all_spec _ _ _ H3) as [_ [_ CL]].
    eapply check_graph_cert_complete'; eauto; try congruence.
    apply acyclic_complete; [|exact H7].
    destruct (lookup_all_spec _ _ _ H1) as [TI _]. rewrite TI. eapply NoDup_app_l; eauto.
Qed.

(* ------------------------------------------------------------------------------------------ *)
(* 5. check_network_cert is complete                                                            *)
(* ------------------------------------------------------------------------------------------ *)

Theorem check_network_cert_complete' : forall m n M G rev forest coforest T C,
  graph_ok G = true ->
  length forest = m -> length coforest = n ->
  NoDup (forest ++ coforest) ->
  (forall e, In e (g_edges G) -> In (e_id e) (forest ++ coforest)) ->
  lookup_all (map (orient rev) (g_edges G)) forest = Some T ->
  lookup_all (map (orient rev) (g_edges G)) coforest = Some C ->
  acyclic T = true -> network_spec m n M T C ->
  check_network_cert m n M G rev forest coforest = true.
Proof.
  intros m n M G rev forest coforest T C Hok Hlf Hlc Hnd Hcover ET EC Hacyc Hspec.
  destruct (lookup_all_spec _ _ _ ET) as [TI [TIn TL]].
  assert (HndT : NoDup (map e_id T)) by (rewrite TI; eapply NoDup_app_l; eauto).
  assert (HT : NoDup T) by (eapply NoDup_map_NoDup; eauto).
  assert (HlenT : length T = m) by congruence.
  unfold check_network_cert. rewrite Hok, ET, EC, Hacyc.
  rewrite (proj2 (Nat.eqb_eq _ _) Hlf), (proj2 (Nat.eqb_eq _ _) Hlc).
  rewrite (proj2 (nodupn_NoDup _) Hnd), (forallb_memn_cover _ _ Hcover).
  cbn [andb]. apply forallb_forall. intros j Hj. apply in_iota in Hj.
  destruct (Hspec j) as [f [p [EF [Hsp Hall]]]]; [lia|].
  rewrite EF. cbv zeta. fold dflt.
  assert (Hiff : forall i, i < m -> (In (nth i T dflt) (map fst p) <-> get M i j <> 0%Z)).
  { intros i Hi. destruct (Hall i Hi) as [_ [_ H0]]. split.
    - intros Hin E0. apply H0 in E0. contradiction.
    - intros Hnz. destruct (in_dec edge_eq_dec (nth i T dflt) (map fst p)) as [I|I]; [exact I|].
      exfalso. apply Hnz. apply H0. exact I. }
  rewrite (column_path_complete m M T j (e_u f) (e_v f) p HT HlenT Hsp Hiff).
  apply forallb_forall. intros i Hi. apply col_support_In in Hi. destruct Hi as [Hi Hnz].
  destruct (Hall i Hi) as [H1 [Hm1 _]].
  apply Hiff in Hnz; [|exact Hi]. apply in_map_iff in Hnz. destruct Hnz as [[e b] [E Hq]].
  simpl in E. subst e.
  apply existsb_exists. exists (nth i T dflt, b). split; [exact Hq|].
  cbn [fst snd]. rewrite Nat.eqb_refl. cbn [andb]. apply Z.eqb_eq.
  destruct b; [apply H1 | apply Hm1]; exact Hq.
Qed.

Theorem check_network_cert_complete : forall m n M G rev forest coforest T C,
  graph_ok G = true ->
  length forest = m -> length coforest = n ->
  NoDup (forest ++ coforest) ->
  (forall e, In e (g_edges G) -> In (e_id e) (forest ++ coforest)) ->
  lookup_all (map (orient rev) (g_edges G)) forest = Some T ->
  lookup_all (map (orient rev) (g_edges G)) coforest = Some C ->
  ~ has_cycle T -> network_spec m n M T C ->
  check_network_cert m n M G rev forest coforest = true.
Proof.
  intros m n M G rev forest coforest T C Hok Hlf Hlc Hnd Hcover ET EC Hnc Hspec.
  eapply check_network_cert_complete'; eauto.
  apply acyclic_complete; [|exact Hnc].
  destruct (lookup_all_spec _ _ _ ET) as [TI _]. rewrite TI. eapply NoDup_app_l; eauto.
Qed.

Corollary check_network_cert_iff : forall m n M G rev forest coforest,
  check_network_cert m n M G rev forest coforest = true <->
  exists T C,
    graph_ok G = true /\
    lookup_all (map (orient rev) (g_edges G)) forest = Some T /\ length T = m /\
    lookup_all (map (orient rev) (g_edges G)) coforest = Some C /\ length C = n /\
    NoDup (forest ++ coforest) /\
    (forall e, In e (g_edges G) -> In (e_id e) (forest ++ coforest)) /\
    ~ has_cycle T /\
    network_spec m n M T C.
Proof.
  intros m n M G rev forest coforest. split.
  - intros H. destruct (check_network_cert_sound _ _ _ _ _ _ _ H)
      as [T [C [H0 [H1 [H2 [H3 [H4 [H5 [H6 [H7 [_ H8]]]]]]]]]]].
    exists T, C. auto 10.
  - intros [T [C [H0 [H1 [H2 [H3 [H4 [H5 [H6 [H7 H8]]]]]]]]]].
    destruct (lookup_all_spec _ _ _ H1) as [_ [_ TL]].
    destruct (lookup_all_spec _ _ _ H3) as [_ [_ CL]].
    eapply check_network_cert_complete; eauto; congruence.
Qed.

(* ------------------------------------------------------------------------------------------ *)
(* 6. Assumption audit                                                                          *)
(* ------------------------------------------------------------------------------------------ *)

Print Assumptions walk_complete.
Print Assumptions path_of_complete_eq.
Print Assumptions path_of_complete.
Print Assumptions path_of_iff.
Print Assumptions column_path_complete.
Print Assumptions forest_has_leaf.
Print Assumptions acyclic_complete.
Print Assumptions acyclic_iff.
Print Assumptions check_graph_cert_complete'.
Print Assumptions check_graph_cert_complete.
Print Assumptions check_graph_cert_iff.
Print Assumptions check_network_cert_complete'.
Print Assumptions check_network_cert_complete.
Print Assumptions check_network_cert_iff.
