(* CamionCertProofs.v — soundness of judge_camion_cert: what an accepted record of a certified case means. *)
From Coq Require Import List ZArith Bool Lia.
From Cmr Require Import Base Det BaseProofs TuModel GraphModel SpModel TuNetModel CamionModel RelModel CamionCertModel.
From Cmr Require TuClosure TuNetProofs.
Local Open Scope Z_scope.

(* a matrix accepted as a scaling really is one: the candidate signs are verified entry by entry *)
Lemma is_scaling_of_sound : forall m n N M, is_scaling_of m n N M = true ->
  exists rs cs, length rs = m /\ length cs = n /\ forallb is_pm1' rs = true /\ forallb is_pm1' cs = true /\
                M = scaled m n N rs cs.
Proof.
  intros m n N M H. unfold is_scaling_of in H.
  destruct (solve_signs (2 * (m + n) + 2) m n N M (repeat 0 m, repeat 0 n)) as [rs cs].
  apply andb_true_iff in H. destruct H as [H HM]. apply andb_true_iff in H. destruct H as [H Hc].
  apply andb_true_iff in H. destruct H as [H Hr]. apply andb_true_iff in H. destruct H as [Hpr Hpc].
  exists rs, cs. apply Nat.eqb_eq in Hr. apply Nat.eqb_eq in Hc. apply mat_eqb_eq in HM. repeat split; assumption.
Qed.

(* ... and is totally unimodular exactly when N is *)
Lemma is_scaling_of_tu : forall m n N M, is_scaling_of m n N M = true -> tu_bf m n M = tu_bf m n N.
Proof.
  intros m n N M H. destruct (is_scaling_of_sound m n N M H) as [rs [cs [Lr [Lc [Pr [Pc E]]]]]].
  subst M. unfold scaled. exact (@TuClosure.tu_bf_scale m n N rs cs Lr Lc Pr Pc).
Qed.

(* an accepted record of a certified case: both calls succeeded, the signed output has the input's shape and IS totally
   unimodular, and a "yes" of the signedness test means the input is totally unimodular *)
Theorem judge_camion_cert_sound : forall rec m n M rc1 v viol rc2 was Sg viol2 rc3 v' rc4 was2 S2 mN nN N w rest,
  camion_cert_input rec =
    Some (((m, n, M), (rc1, v, viol), (rc2, was, Sg, viol2), (rc3, v'), (rc4, was2, S2), (mN, nN, N), w), rest) ->
  camion_certified m n M mN nN N w = true ->
  judge_camion_cert rec = 0 ->
  rc1 = 0 /\ rc2 = 0 /\ tu_bf m n N = true /\
  exists Sm, Sg = Some (m, n, Sm) /\ is_scaling_of m n N Sm = true /\ tu_bf m n Sm = true /\
             (v = 1 \/ v = 0) /\ (v = 1 <-> is_scaling_of m n N M = true) /\ (v = 1 -> tu_bf m n M = true).
Proof.
  intros rec m n M rc1 v viol rc2 was Sg viol2 rc3 v' rc4 was2 S2 mN nN N w rest Hdec Hcert HJ.
  unfold judge_camion_cert in HJ. rewrite Hdec in HJ. rewrite Hcert in HJ. cbn [negb] in HJ.
  assert (HN : tu_bf m n N = true).
  { unfold camion_certified in Hcert. apply andb_true_iff in Hcert. destruct Hcert as [_ Hc].
    exact (TuNetProofs.tu_certified_tu_bf m n N w Hc). }
  destruct (rc1 =? 0) eqn:E1; cbn [andb negb] in HJ; [|discriminate].
  destruct (rc2 =? 0) eqn:E2; cbn [andb negb] in HJ; [|discriminate].
  apply Z.eqb_eq in E1, E2. split; [exact E1|]. split; [exact E2|]. split; [exact HN|].
  destruct Sg as [[[ms ns] Sm]|]; [|discriminate].
  destruct (Nat.eqb ms m) eqn:Em; cbn [andb negb] in HJ; [|discriminate].
  destruct (Nat.eqb ns n) eqn:En; cbn [andb negb] in HJ; [|discriminate].
  destruct (is_scaling_of m n N Sm) eqn:ES; cbn [negb] in HJ; [|discriminate].
  apply Nat.eqb_eq in Em, En. subst ms ns.
  exists Sm. split; [reflexivity|]. split; [exact ES|].
  split; [rewrite (is_scaling_of_tu m n N Sm ES); exact HN|].
  destruct (is_scaling_of m n N M) eqn:EM.
  - destruct (v =? 1) eqn:Ev; [|discriminate]. apply Z.eqb_eq in Ev. subst v.
    split; [left; reflexivity|]. split; [split; intros _; reflexivity|].
    intros _. rewrite (is_scaling_of_tu m n N M EM). exact HN.
  - destruct (v =? 0) eqn:Ev; [|discriminate]. apply Z.eqb_eq in Ev. subst v.
    split; [right; reflexivity|]. split; [split; intros H; discriminate H|]. intros H; discriminate H.
Qed.
Print Assumptions judge_camion_cert_sound.
