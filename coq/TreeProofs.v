(* TreeProofs.v — soundness of the decomposition-tree checker of TreeModel.v: what `check_tree t = 0` guarantees,
   node by node, and what acceptance by `judge_tree` means. *)
From Cmr Require Import Base Det BaseProofs PivotModel PivotProofs TuModel SpModel SpProofs SpProofs2
                        GraphModel GraphProofs KsumModel KsumProofs TreeModel.
Local Open Scope Z_scope.

(* ------------------------------------------------------------------------------------------ *)
(* 0. Small helpers                                                                             *)
(* ------------------------------------------------------------------------------------------ *)

Lemma code_if_zero : forall b c, c <> 0 -> code_if b c = 0 -> b = true.
Proof. intros [|] c Hc H; [reflexivity | unfold code_if in H; contradiction]. Qed.

(* one `if` of a checker whose result is 0 *)
Ltac step H :=
  match type of H with
  | (if negb ?b then _ else _) = 0 =>
    let E := fresh "E" in destruct b eqn:E; cbn [negb] in H; [|discriminate H]
  | (if ?b then _ else _) = 0 =>
    let E := fresh "E" in destruct b eqn:E; [discriminate H|]
  end.

Ltac code_if_true H :=
  apply code_if_zero in H; [|discriminate].

Lemma and3_negb_false : forall a b c, a && b && negb c = false -> a = true -> b = true -> c = true.
Proof. intros [|] [|] [|]; cbn; congruence. Qed.
Lemma and3_false : forall a b c, a && b && c = false -> a = true -> b = true -> c = false.
Proof. intros [|] [|] [|]; cbn; congruence. Qed.
Lemma and2_negb_false : forall a c, a && negb c = false -> a = true -> c = true.
Proof. intros [|] [|]; cbn; congruence. Qed.
Lemma and4_false : forall a b c d, a && b && c && d = false -> a = true -> b = true -> d = true -> c = false.
Proof. intros [|] [|] [|] [|]; cbn; congruence. Qed.

(* ------------------------------------------------------------------------------------------ *)
(* 1. Induction over trees; check_tree checks every node                                        *)
(* ------------------------------------------------------------------------------------------ *)

Section TreeInd.
  Variable Q : tree -> Prop.
  Hypothesis Hnode : forall i ch, Forall Q ch -> Q (TNode i ch).
  Fixpoint tree_ind' (t : tree) : Q t :=
    match t with
    | TNode i ch =>
      Hnode i ch ((fix go (l : list tree) : Forall Q l :=
                     match l with
                     | [] => Forall_nil Q
                     | c :: r => Forall_cons c (tree_ind' c) (go r)
                     end) ch)
    end.
End TreeInd.

(* P holds at every node of the tree, given the node's info and the infos of its children *)
Fixpoint Forall_tree (P : ninfo -> list ninfo -> Prop) (t : tree) : Prop :=
  match t with
  | TNode i ch =>
    P i (map info ch) /\
    (fix go (l : list tree) : Prop :=
       match l with [] => True | c :: r => Forall_tree P c /\ go r end) ch
  end.

Lemma Forall_tree_unfold : forall P i ch,
  Forall_tree P (TNode i ch) <-> P i (map info ch) /\ Forall (Forall_tree P) ch.
Proof.
  intros P i ch. cbn [Forall_tree].
  assert (G : (fix go (l : list tree) : Prop :=
                 match l with [] => True | c :: r => Forall_tree P c /\ go r end) ch
              <-> Forall (Forall_tree P) ch).
  { induction ch as [|c r IH].
    - split; intros _; [constructor | exact I].
    - split.
      + intros [H1 H2]. constructor; [exact H1 | apply IH; exact H2].
      + intros H. inversion H; subst. split; [assumption | apply IH; assumption]. }
  rewrite G. reflexivity.
Qed.

Lemma Forall_tree_root : forall P t,
  Forall_tree P t -> match t with TNode i ch => P i (map info ch) end.
Proof. intros P [i ch] H. apply Forall_tree_unfold in H. apply H. Qed.

Lemma Forall_tree_mono : forall (P Q : ninfo -> list ninfo -> Prop),
  (forall i cs, P i cs -> Q i cs) -> forall t, Forall_tree P t -> Forall_tree Q t.
Proof.
  intros P Q HPQ. induction t as [i ch IH] using tree_ind'.
  intros H. apply Forall_tree_unfold in H. destruct H as [H1 H2].
  apply Forall_tree_unfold. split; [apply HPQ; exact H1|].
  rewrite Forall_forall in *. intros c Hc. apply IH; [exact Hc | apply H2; exact Hc].
Qed.

Lemma fold_first_error_zero : forall (A : Type) (f : A -> Z) l a,
  fold_left (fun acc c => if negb (acc =? 0) then acc else f c) l a = 0 ->
  a = 0 /\ Forall (fun c => f c = 0) l.
Proof.
  intros A f. induction l as [|x l IH]; intros a H; cbn [fold_left] in H.
  - split; [exact H | constructor].
  - apply IH in H. destruct H as [H1 H2].
    destruct (Z.eqb_spec a 0) as [Ha|Hne]; cbn [negb] in H1.
    + split; [exact Ha|]. constructor; assumption.
    + contradiction.
Qed.

Lemma fold_first_error_zero_conv : forall (A : Type) (f : A -> Z) l,
  Forall (fun c => f c = 0) l ->
  fold_left (fun acc c => if negb (acc =? 0) then acc else f c) l 0 = 0.
Proof.
  intros A f. induction l as [|x l IH]; intros H; cbn [fold_left]; [reflexivity|].
  inversion H; subst. change (negb (0 =? 0)) with false. cbv iota.
  rewrite H2. apply IH; assumption.
Qed.

Lemma check_tree_unfold : forall P ch,
  check_tree (TNode P ch) =
  let r := check_node P (map info ch) in
  if negb (r =? 0) then r
  else fold_left (fun acc c => if negb (acc =? 0) then acc else check_tree c) ch 0.
Proof. reflexivity. Qed.

Theorem check_tree_all_nodes : forall t,
  check_tree t = 0 -> Forall_tree (fun P Cs => check_node P Cs = 0) t.
Proof.
  induction t as [P ch IH] using tree_ind'. intros H.
  rewrite check_tree_unfold in H. cbv zeta in H.
  apply Forall_tree_unfold.
  destruct (Z.eqb_spec (check_node P (map info ch)) 0) as [E|E]; cbn [negb] in H.
  - split; [exact E|].
    apply fold_first_error_zero in H. destruct H as [_ H].
    rewrite Forall_forall in *. intros c Hc. apply IH; [exact Hc | apply H; exact Hc].
  - contradiction.
Qed.

(* and conversely: the checker accepts exactly the trees all of whose nodes pass check_node *)
Theorem check_tree_all_nodes_iff : forall t,
  check_tree t = 0 <-> Forall_tree (fun P Cs => check_node P Cs = 0) t.
Proof.
  intros t. split; [apply check_tree_all_nodes|].
  induction t as [P ch IH] using tree_ind'. intros H.
  apply Forall_tree_unfold in H. destruct H as [H1 H2].
  rewrite check_tree_unfold. cbv zeta. rewrite H1. change (negb (0 =? 0)) with false. cbv iota.
  apply fold_first_error_zero_conv.
  rewrite Forall_forall in *. intros c Hc. apply IH; [exact Hc | apply H2; exact Hc].
Qed.

(* ------------------------------------------------------------------------------------------ *)
(* 2. What check_node = 0 means                                                                 *)
(* ------------------------------------------------------------------------------------------ *)

(* ---------- element maps ---------- *)

Lemma all_some_map_spec : forall (A B : Type) (f : A -> option B) l rs,
  all_some (map f l) = Some rs -> Forall2 (fun x r => f x = Some r) l rs.
Proof.
  intros A B f. induction l as [|x l IH]; intros rs H; cbn [map all_some] in H.
  - injection H as <-. constructor.
  - destruct (f x) as [y|] eqn:E; [|discriminate].
    destruct (all_some (map f l)) as [r'|] eqn:E'; [|discriminate].
    injection H as <-. constructor; [exact E | apply IH; reflexivity].
Qed.

Lemma all_some_length : forall (A : Type) (l : list (option A)) rs, all_some l = Some rs -> length rs = length l.
Proof.
  intros A. induction l as [|[x|] l IH]; intros rs H; cbn [all_some] in H; try discriminate.
  - injection H as <-. reflexivity.
  - destruct (all_some l) as [r'|]; [|discriminate]. injection H as <-. cbn [length]. f_equal. apply IH. reflexivity.
Qed.

Lemma row_of_spec : forall e r, row_of e = Some r -> e < 0 /\ r = Z.to_nat (- e - 1) /\ e = - Z.of_nat r - 1.
Proof.
  intros e r H. unfold row_of in H. destruct (Z.ltb_spec e 0) as [L|L]; [|discriminate].
  injection H as <-. split; [exact L|]. split; [reflexivity|]. rewrite Z2Nat.id; lia.
Qed.

Lemma col_of_spec : forall e c, col_of e = Some c -> 0 < e /\ c = Z.to_nat (e - 1) /\ e = Z.of_nat c + 1.
Proof.
  intros e c H. unfold col_of in H. destruct (Z.ltb_spec 0 e) as [L|L]; [|discriminate].
  injection H as <-. split; [exact L|]. split; [reflexivity|]. rewrite Z2Nat.id; lia.
Qed.

(* the parent rows named by the kept child lines: every kept child line i is mapped to a parent ROW element
   (a negative code), and the list is, in order, the rows -(code)-1 *)
Lemma rows_of_spec : forall es keep rs,
  rows_of es keep = Some rs ->
  length rs = length keep /\
  Forall (fun i => nthZ es i < 0) keep /\
  rs = map (fun i => Z.to_nat (- nthZ es i - 1)) keep.
Proof.
  intros es keep rs H. unfold rows_of in H.
  split; [rewrite (all_some_length _ _ _ H); apply map_length|].
  apply all_some_map_spec in H.
  induction H as [|i r keep rs Hi H IH].
  - split; [constructor | reflexivity].
  - destruct IH as [IH1 IH2]. apply row_of_spec in Hi. destruct Hi as [Hi1 [Hi2 _]].
    split; [constructor; assumption|]. cbn [map]. congruence.
Qed.

Lemma cols_of_spec : forall es keep cs,
  cols_of es keep = Some cs ->
  length cs = length keep /\
  Forall (fun i => 0 < nthZ es i) keep /\
  cs = map (fun i => Z.to_nat (nthZ es i - 1)) keep.
Proof.
  intros es keep cs H. unfold cols_of in H.
  split; [rewrite (all_some_length _ _ _ H); apply map_length|].
  apply all_some_map_spec in H.
  induction H as [|i r keep cs Hi H IH].
  - split; [constructor | reflexivity].
  - destruct IH as [IH1 IH2]. apply col_of_spec in Hi. destruct Hi as [Hi1 [Hi2 _]].
    split; [constructor; assumption|]. cbn [map]. congruence.
Qed.

Lemma is_perm_spec : forall k l,
  is_perm k l = true -> length l = k /\ NoDup l /\ (forall x, In x l <-> (x < k)%nat).
Proof.
  intros k l H. unfold is_perm in H.
  apply andb_true_iff in H. destruct H as [H Hnd].
  apply andb_true_iff in H. destruct H as [Hlen Hlt].
  apply Nat.eqb_eq in Hlen. apply nodupn_NoDup in Hnd.
  split; [exact Hlen|]. split; [exact Hnd|].
  intros x. split.
  - intros Hx. eapply all_lt_In; eassumption.
  - intros Hx.
    (* a duplicate-free list of k numbers below k contains every number below k *)
    assert (Hincl : incl l (seq 0 k)).
    { intros y Hy. apply in_seq. pose proof (all_lt_In _ _ _ Hlt Hy). lia. }
    assert (Hincl' : incl (seq 0 k) l).
    { apply NoDup_length_incl; [exact Hnd | rewrite seq_length; lia | exact Hincl]. }
    apply Hincl'. apply in_seq. lia.
Qed.

Lemma matches_parent_spec : forall P Mc prow pcol,
  matches_parent P Mc prow pcol = true ->
  is_perm (t_m P) prow = true /\ is_perm (t_n P) pcol = true /\ Mc = submat (t_M P) prow pcol.
Proof.
  intros P Mc prow pcol H. unfold matches_parent in H.
  apply andb_true_iff in H. destruct H as [H H3].
  apply andb_true_iff in H. destruct H as [H1 H2].
  apply mat_eqb_eq in H3. auto.
Qed.

(* ---------- the shape of check_node ---------- *)

Definition sum_kind (ty : Z) : Z :=
  if ty =? T_TWOSUM then 2 else if ty =? T_DELTASUM then 3 else if ty =? T_YSUM then 4 else 5.
Definition is_sum_type (ty : Z) : bool :=
  (ty =? T_TWOSUM) || (ty =? T_DELTASUM) || (ty =? T_YSUM) || (ty =? T_THREESUM).

(* the structural (recomposition) part of check_node *)
Definition structural (P : ninfo) (Cs : list ninfo) : Z :=
  let ty := t_type P in
  let links := t_links P in
  if ty =? T_ONESUM then check_onesum P links Cs
  else if is_sum_type ty then
    match links, Cs with
    | [L0; L1], [C0; C1] => check_sum P (sum_kind ty) L0 L1 C0 C1
    | _, _ => 263
    end
  else if ty =? T_PIVOTS then
    match links, Cs with
    | [L], [C] =>
      check_pivots P L C
    | _, _ => 263
    end
  else if ty =? T_SP then check_sp_node P links Cs
  else code_if (Nat.eqb (length links) 0) 265.

Definition link_fits (P : ninfo) (lc : link * ninfo) : bool :=
  Nat.eqb (length (l_rows (fst lc))) (t_m (snd lc)) &&
  Nat.eqb (length (l_cols (fst lc))) (t_n (snd lc)) &&
  Bool.eqb (t_tern (snd lc)) (t_tern P).

Lemma check_node_unfold : forall P Cs,
  check_node P Cs =
  if negb (wf_mat (t_m P) (t_n P) (t_M P) && (if t_tern P then is_ternary (t_M P) else is_binary (t_M P))) then 260
  else if negb (Nat.eqb (length (t_links P)) (length Cs)) then 261
  else if negb (forallb (link_fits P) (combine (t_links P) Cs)) then 262
  else if negb (structural P Cs =? 0) then structural P Cs else check_flags P.
Proof. reflexivity. Qed.

(* what holds at every accepted node, whatever its type *)
Definition node_common (P : ninfo) (Cs : list ninfo) : Prop :=
  wf_mat (t_m P) (t_n P) (t_M P) = true /\
  (if t_tern P then is_ternary (t_M P) else is_binary (t_M P)) = true /\
  length (t_links P) = length Cs /\
  Forall2 (fun L C => length (l_rows L) = t_m C /\ length (l_cols L) = t_n C /\ t_tern C = t_tern P)
          (t_links P) Cs.

Lemma Forall2_of_combine : forall (A B : Type) (R : A -> B -> Prop) (l : list A) (l' : list B),
  length l = length l' -> (forall p, In p (combine l l') -> R (fst p) (snd p)) -> Forall2 R l l'.
Proof.
  intros A B R. induction l as [|x l IH]; destruct l' as [|y l']; cbn [length combine]; intros HL H;
    try discriminate; constructor.
  - apply (H (x, y)). left. reflexivity.
  - apply IH; [lia|]. intros p Hp. apply H. right. exact Hp.
Qed.

Theorem check_node_common : forall P Cs,
  check_node P Cs = 0 -> node_common P Cs /\ structural P Cs = 0 /\ check_flags P = 0.
Proof.
  intros P Cs H. rewrite check_node_unfold in H.
  step H. step H. step H.
  apply andb_true_iff in E. destruct E as [Ewf Edom]. apply Nat.eqb_eq in E0.
  destruct (Z.eqb_spec (structural P Cs) 0) as [Es|Es]; cbn [negb] in H; [|contradiction].
  split; [|split; assumption].
  unfold node_common. repeat (split; [assumption|]).
  apply Forall2_of_combine; [exact E0|].
  intros p Hp. rewrite forallb_forall in E1. specialize (E1 p Hp). unfold link_fits in E1.
  apply andb_true_iff in E1. destruct E1 as [E1 E3].
  apply andb_true_iff in E1. destruct E1 as [E1 E2].
  apply Nat.eqb_eq in E1, E2. apply Bool.eqb_prop in E3. auto.
Qed.

(* ---------- sum nodes ---------- *)

(* the special lines used for the recomposition: the recorded ones, except for 2-sums, which record none *)
Definition sp_fsr (kind : Z) (L0 L1 : link) : list nat :=
  if kind =? 2 then shared_index (l_rows L0) (l_rows L1) else l_sr L0.
Definition sp_fsc (kind : Z) (L0 L1 : link) : list nat := if kind =? 2 then [] else l_sc L0.
Definition sp_ssr (kind : Z) (L0 L1 : link) : list nat := if kind =? 2 then [] else l_sr L1.
Definition sp_ssc (kind : Z) (L0 L1 : link) : list nat :=
  if kind =? 2 then shared_index (l_cols L1) (l_cols L0) else l_sc L1.

Lemma sp_special_recorded : forall kind L0 L1, kind <> 2 ->
  sp_fsr kind L0 L1 = l_sr L0 /\ sp_fsc kind L0 L1 = l_sc L0 /\
  sp_ssr kind L0 L1 = l_sr L1 /\ sp_ssc kind L0 L1 = l_sc L1.
Proof.
  intros kind L0 L1 H. unfold sp_fsr, sp_fsc, sp_ssr, sp_ssc.
  destruct (Z.eqb_spec kind 2); [contradiction|]. auto.
Qed.

Lemma sp_special_twosum : forall L0 L1,
  sp_fsr 2 L0 L1 = shared_index (l_rows L0) (l_rows L1) /\ sp_fsc 2 L0 L1 = [] /\
  sp_ssr 2 L0 L1 = [] /\ sp_ssc 2 L0 L1 = shared_index (l_cols L1) (l_cols L0).
Proof. intros; repeat split. Qed.

(* the kept (non-special) lines of the two children and the parent lines they are mapped to *)
Definition sum_recomposes (P : ninfo) (kind : Z) (L0 L1 : link) (C0 C1 : ninfo) : Prop :=
  let fsr := sp_fsr kind L0 L1 in let fsc := sp_fsc kind L0 L1 in
  let ssr := sp_ssr kind L0 L1 in let ssc := sp_ssc kind L0 L1 in
  exists Mc r0 r1 c0 c1,
    ksum kind (charp (t_tern P)) (t_m C0) (t_n C0) (t_M C0) (t_m C1) (t_n C1) (t_M C1) fsr fsc ssr ssc = KOk Mc /\
    rows_of (l_rows L0) (keep_idx (t_m C0) (removed_rows kind true fsr)) = Some r0 /\
    rows_of (l_rows L1) (keep_idx (t_m C1) (removed_rows kind false ssr)) = Some r1 /\
    cols_of (l_cols L0) (keep_idx (t_n C0) (removed_cols kind true fsc)) = Some c0 /\
    cols_of (l_cols L1) (keep_idx (t_n C1) (removed_cols kind false ssc)) = Some c1 /\
    is_perm (t_m P) (r0 ++ r1) = true /\
    is_perm (t_n P) (c0 ++ c1) = true /\
    Mc = submat (t_M P) (r0 ++ r1) (c0 ++ c1).

Lemma check_sum_unfold : forall P kind L0 L1 C0 C1,
  check_sum P kind L0 L1 C0 C1 =
  let fsr := sp_fsr kind L0 L1 in let fsc := sp_fsc kind L0 L1 in
  let ssr := sp_ssr kind L0 L1 in let ssc := sp_ssc kind L0 L1 in
  match ksum kind (charp (t_tern P)) (t_m C0) (t_n C0) (t_M C0) (t_m C1) (t_n C1) (t_M C1) fsr fsc ssr ssc with
  | KErr => 201
  | KOk Mc =>
    match rows_of (l_rows L0) (keep_idx (t_m C0) (removed_rows kind true fsr)),
          rows_of (l_rows L1) (keep_idx (t_m C1) (removed_rows kind false ssr)),
          cols_of (l_cols L0) (keep_idx (t_n C0) (removed_cols kind true fsc)),
          cols_of (l_cols L1) (keep_idx (t_n C1) (removed_cols kind false ssc)) with
    | Some r0, Some r1, Some c0, Some c1 => code_if (matches_parent P Mc (r0 ++ r1) (c0 ++ c1)) 203
    | _, _, _, _ => 202
    end
  end.
Proof.
  intros. unfold check_sum, sp_fsr, sp_fsc, sp_ssr, sp_ssc. destruct (kind =? 2); reflexivity.
Qed.

Theorem check_sum_sound : forall P kind L0 L1 C0 C1,
  check_sum P kind L0 L1 C0 C1 = 0 -> sum_recomposes P kind L0 L1 C0 C1.
Proof.
  intros P kind L0 L1 C0 C1 H. rewrite check_sum_unfold in H. cbv zeta in H.
  unfold sum_recomposes. cbv zeta.
  destruct (ksum kind (charp (t_tern P)) (t_m C0) (t_n C0) (t_M C0) (t_m C1) (t_n C1) (t_M C1)
                 (sp_fsr kind L0 L1) (sp_fsc kind L0 L1) (sp_ssr kind L0 L1) (sp_ssc kind L0 L1))
    as [Mc|] eqn:EK; [|discriminate].
  destruct (rows_of (l_rows L0) (keep_idx (t_m C0) (removed_rows kind true (sp_fsr kind L0 L1))))
    as [r0|] eqn:E0; [|discriminate].
  destruct (rows_of (l_rows L1) (keep_idx (t_m C1) (removed_rows kind false (sp_ssr kind L0 L1))))
    as [r1|] eqn:E1; [|discriminate].
  destruct (cols_of (l_cols L0) (keep_idx (t_n C0) (removed_cols kind true (sp_fsc kind L0 L1))))
    as [c0|] eqn:E2; [|discriminate].
  destruct (cols_of (l_cols L1) (keep_idx (t_n C1) (removed_cols kind false (sp_ssc kind L0 L1))))
    as [c1|] eqn:E3; [|discriminate].
  code_if_true H. apply matches_parent_spec in H. destruct H as [H1 [H2 H3]].
  exists Mc, r0, r1, c0, c1. repeat (split; [first [reflexivity | assumption]|]). exact H3.
Qed.

Lemma is_sum_type_cases : forall ty, is_sum_type ty = true ->
  (ty = T_TWOSUM /\ sum_kind ty = 2) \/ (ty = T_DELTASUM /\ sum_kind ty = 3) \/
  (ty = T_YSUM /\ sum_kind ty = 4) \/ (ty = T_THREESUM /\ sum_kind ty = 5).
Proof.
  intros ty H. unfold is_sum_type in H. unfold sum_kind.
  destruct (Z.eqb_spec ty T_TWOSUM) as [E|N1]; [subst ty; left; split; reflexivity|].
  destruct (Z.eqb_spec ty T_DELTASUM) as [E|N2]; [subst ty; right; left; split; reflexivity|].
  destruct (Z.eqb_spec ty T_YSUM) as [E|N3]; [subst ty; right; right; left; split; reflexivity|].
  destruct (Z.eqb_spec ty T_THREESUM) as [E|N4]; [subst ty; right; right; right; split; reflexivity|].
  discriminate.
Qed.

Definition sum_spec (P : ninfo) (Cs : list ninfo) : Prop :=
  exists L0 L1 C0 C1, t_links P = [L0; L1] /\ Cs = [C0; C1] /\
                      sum_recomposes P (sum_kind (t_type P)) L0 L1 C0 C1.

Theorem sum_node_sound : forall P Cs,
  is_sum_type (t_type P) = true -> structural P Cs = 0 -> sum_spec P Cs.
Proof.
  intros P Cs Hty H. unfold structural in H. cbv zeta in H.
  assert (N : (t_type P =? T_ONESUM) = false).
  { destruct (is_sum_type_cases _ Hty) as [[-> _]|[[-> _]|[[-> _]|[-> _]]]]; reflexivity. }
  rewrite N, Hty in H.
  destruct (t_links P) as [|L0 [|L1 [|L2 ls]]] eqn:EL; try discriminate H;
  destruct Cs as [|C0 [|C1 [|C2 Cs]]]; try discriminate H.
  exists L0, L1, C0, C1. split; [exact EL|]. split; [reflexivity|].
  apply check_sum_sound. exact H.
Qed.

(* Delta-, Y- and 3-sum nodes: the recomposition uses exactly the recorded special lines *)
Corollary sum_node_recorded_specials : forall P Cs,
  t_type P = T_DELTASUM \/ t_type P = T_YSUM \/ t_type P = T_THREESUM ->
  sum_spec P Cs ->
  exists kind L0 L1 C0 C1 Mc r0 r1 c0 c1,
    (kind = 3 /\ t_type P = T_DELTASUM \/ kind = 4 /\ t_type P = T_YSUM \/ kind = 5 /\ t_type P = T_THREESUM) /\
    t_links P = [L0; L1] /\ Cs = [C0; C1] /\
    ksum kind (charp (t_tern P)) (t_m C0) (t_n C0) (t_M C0) (t_m C1) (t_n C1) (t_M C1)
         (l_sr L0) (l_sc L0) (l_sr L1) (l_sc L1) = KOk Mc /\
    rows_of (l_rows L0) (keep_idx (t_m C0) (removed_rows kind true (l_sr L0))) = Some r0 /\
    rows_of (l_rows L1) (keep_idx (t_m C1) (removed_rows kind false (l_sr L1))) = Some r1 /\
    cols_of (l_cols L0) (keep_idx (t_n C0) (removed_cols kind true (l_sc L0))) = Some c0 /\
    cols_of (l_cols L1) (keep_idx (t_n C1) (removed_cols kind false (l_sc L1))) = Some c1 /\
    is_perm (t_m P) (r0 ++ r1) = true /\ is_perm (t_n P) (c0 ++ c1) = true /\
    Mc = submat (t_M P) (r0 ++ r1) (c0 ++ c1).
Proof.
  intros P Cs Hty [L0 [L1 [C0 [C1 [HL [HC HR]]]]]].
  assert (HK : exists kind, sum_kind (t_type P) = kind /\ kind <> 2 /\
               (kind = 3 /\ t_type P = T_DELTASUM \/ kind = 4 /\ t_type P = T_YSUM \/
                kind = 5 /\ t_type P = T_THREESUM)).
  { destruct Hty as [E|[E|E]]; rewrite E.
    - exists 3. split; [reflexivity|]. split; [discriminate|]. left; auto.
    - exists 4. split; [reflexivity|]. split; [discriminate|]. right; left; auto.
    - exists 5. split; [reflexivity|]. split; [discriminate|]. right; right; auto. }
  destruct HK as [kind [EK [Hne Hk]]]. rewrite EK in HR.
  unfold sum_recomposes in HR. cbv zeta in HR.
  destruct (sp_special_recorded kind L0 L1 Hne) as [S1 [S2 [S3 S4]]].
  rewrite S1, S2, S3, S4 in HR.
  destruct HR as [Mc [r0 [r1 [c0 [c1 HR]]]]].
  exists kind, L0, L1, C0, C1, Mc, r0, r1, c0, c1.
  split; [exact Hk|]. split; [exact HL|]. split; [exact HC|]. exact HR.
Qed.

(* 2-sum nodes: no special lines are recorded; they are the unique child-0 row that child 1 also maps to, and
   the unique child-1 column that child 0 also maps to (ksum fails unless these are single lines) *)
Corollary twosum_node_specials : forall P Cs,
  t_type P = T_TWOSUM -> sum_spec P Cs ->
  exists L0 L1 C0 C1 r1 c2 Mc,
    t_links P = [L0; L1] /\ Cs = [C0; C1] /\
    shared_index (l_rows L0) (l_rows L1) = [r1] /\ shared_index (l_cols L1) (l_cols L0) = [c2] /\
    twosum (charp (t_tern P)) (t_m C0) (t_n C0) (t_M C0) (t_m C1) (t_n C1) (t_M C1)
           (Some r1) None None (Some c2) = KOk Mc /\
    exists prow pcol, is_perm (t_m P) prow = true /\ is_perm (t_n P) pcol = true /\
                      Mc = submat (t_M P) prow pcol.
Proof.
  intros P Cs Hty [L0 [L1 [C0 [C1 [HL [HC HR]]]]]].
  rewrite Hty in HR. change (sum_kind T_TWOSUM) with 2 in HR.
  unfold sum_recomposes in HR. cbv zeta in HR.
  destruct (sp_special_twosum L0 L1) as [S1 [S2 [S3 S4]]]. rewrite S1, S2, S3, S4 in HR.
  destruct HR as [Mc [r0 [r1 [c0 [c1 [HK [_ [_ [_ [_ [H1 [H2 H3]]]]]]]]]]]].
  unfold ksum in HK. change (2 =? 2) with true in HK. cbv iota in HK.
  destruct (shared_index (l_rows L0) (l_rows L1)) as [|a [|a' la]] eqn:EA; try discriminate HK.
  destruct (shared_index (l_cols L1) (l_cols L0)) as [|b [|b' lb]] eqn:EB; try discriminate HK.
  exists L0, L1, C0, C1, a, b, Mc. repeat (split; [first [reflexivity | assumption]|]).
  exists (r0 ++ r1), (c0 ++ c1). auto.
Qed.

(* ---------- series-parallel nodes ---------- *)

Lemma same_set_spec : forall a b,
  same_set a b = true -> NoDup a /\ NoDup b /\ (forall x, In x a <-> In x b).
Proof.
  intros a b H. unfold same_set in H.
  apply andb_true_iff in H. destruct H as [H H4].
  apply andb_true_iff in H. destruct H as [H H3].
  apply andb_true_iff in H. destruct H as [H1 H2].
  apply nodupn_NoDup in H1, H2. rewrite forallb_forall in H3, H4.
  split; [exact H1|]. split; [exact H2|].
  intros x. split; intros Hx.
  - apply memn_In. apply H3. exact Hx.
  - apply memn_In. apply H4. exact Hx.
Qed.

Definition node_reds (P : ninfo) : list (elem * elem) :=
  map (fun pr => (elem_of_Z (fst pr), elem_of_Z (snd pr))) (t_reds P).

Definition sp_spec (P : ninfo) (Cs : list ninfo) : Prop :=
  exists lr lc,
    apply_reds (t_tern P) (t_M P) (all_true (t_m P)) (all_true (t_n P)) (node_reds P) = Some (lr, lc) /\
    ((t_links P = [] /\ Cs = [] /\ is_empty lr lc = true) \/
     (exists L C rs cs,
        t_links P = [L] /\ Cs = [C] /\
        rows_of (l_rows L) (iota 0 (t_m C)) = Some rs /\
        cols_of (l_cols L) (iota 0 (t_n C)) = Some cs /\
        all_lt (t_m P) rs = true /\ all_lt (t_n P) cs = true /\
        same_set rs (live_list lr) = true /\ same_set cs (live_list lc) = true /\
        t_M C = submat (t_M P) rs cs)).

Theorem check_sp_node_sound : forall P links Cs,
  check_sp_node P links Cs = 0 ->
  exists lr lc,
    apply_reds (t_tern P) (t_M P) (all_true (t_m P)) (all_true (t_n P)) (node_reds P) = Some (lr, lc) /\
    ((links = [] /\ Cs = [] /\ is_empty lr lc = true) \/
     (exists L C rs cs,
        links = [L] /\ Cs = [C] /\
        rows_of (l_rows L) (iota 0 (t_m C)) = Some rs /\
        cols_of (l_cols L) (iota 0 (t_n C)) = Some cs /\
        all_lt (t_m P) rs = true /\ all_lt (t_n P) cs = true /\
        same_set rs (live_list lr) = true /\ same_set cs (live_list lc) = true /\
        t_M C = submat (t_M P) rs cs)).
Proof.
  intros P links Cs H. unfold check_sp_node in H. cbv zeta in H. fold (node_reds P) in H.
  destruct (apply_reds (t_tern P) (t_M P) (all_true (t_m P)) (all_true (t_n P)) (node_reds P))
    as [[lr lc]|] eqn:EA; [|discriminate].
  exists lr, lc. split; [reflexivity|].
  destruct links as [|L [|L' links]]; destruct Cs as [|C [|C' Cs]]; try discriminate H.
  - left. code_if_true H. auto.
  - right.
    destruct (rows_of (l_rows L) (iota 0 (t_m C))) as [rs|] eqn:ER; [|discriminate].
    destruct (cols_of (l_cols L) (iota 0 (t_n C))) as [cs|] eqn:EC; [|destruct rs; discriminate].
    step H. step H. code_if_true H. apply mat_eqb_eq in H.
    apply andb_true_iff in E. destruct E as [E E4].
    apply andb_true_iff in E. destruct E as [E E3].
    apply andb_true_iff in E. destruct E as [E1 E2].
    apply andb_true_iff in E0. destruct E0 as [E5 E6].
    exists L, C, rs, cs. repeat (split; [first [reflexivity | assumption]|]). exact H.
Qed.

(* in words: the recorded reductions are genuine SP steps, one after another, from the full matrix to the
   configuration (lr, lc); without a child nothing is left; with a child, the child's lines are mapped
   injectively onto exactly the surviving lines and the child's matrix is that submatrix *)
Corollary sp_node_meaning : forall P Cs, sp_spec P Cs ->
  exists lr lc,
    sp_steps (t_tern P) (t_M P) (all_true (t_m P), all_true (t_n P)) (lr, lc) /\
    length lr = t_m P /\ length lc = t_n P /\
    ((Cs = [] /\ is_empty lr lc = true /\ SPred (t_tern P) (t_M P) (all_true (t_m P), all_true (t_n P))) \/
     (exists L C rs cs,
        t_links P = [L] /\ Cs = [C] /\
        rows_of (l_rows L) (iota 0 (t_m C)) = Some rs /\ cols_of (l_cols L) (iota 0 (t_n C)) = Some cs /\
        NoDup rs /\ NoDup cs /\
        (forall r, In r rs <-> live lr r = true) /\ (forall c, In c cs <-> live lc c = true) /\
        t_M C = submat (t_M P) rs cs)).
Proof.
  intros P Cs [lr [lc [HA HC]]]. exists lr, lc.
  destruct (apply_reds_sound _ _ _ _ _ _ _ HA) as [Hs [_ [_ [Hl1 Hl2]]]].
  split; [exact Hs|].
  assert (LT : forall k, length (all_true k) = k).
  { intros k. unfold all_true. rewrite map_length. apply length_iota. }
  rewrite LT in Hl1, Hl2. split; [exact Hl1|]. split; [exact Hl2|].
  destruct HC as [[_ [HCs He]]|[L [C [rs [cs [H1 [H2 [H3 [H4 [_ [_ [H7 [H8 H9]]]]]]]]]]]]].
  - left. split; [exact HCs|]. split; [exact He|].
    eapply sp_steps_SPred; [exact Hs|]. apply SP_done. exact He.
  - right. exists L, C, rs, cs.
    apply same_set_spec in H7, H8. destruct H7 as [Hn1 [_ Hs1]]. destruct H8 as [Hn2 [_ Hs2]].
    repeat (split; [assumption|]).
    split; [intros r; rewrite Hs1; apply In_live_list|].
    split; [intros c; rewrite Hs2; apply In_live_list|]. exact H9.
Qed.

Theorem sp_node_sound : forall P Cs,
  t_type P = T_SP -> structural P Cs = 0 -> sp_spec P Cs.
Proof.
  intros P Cs Hty H. unfold structural in H. cbv zeta in H. rewrite Hty in H.
  change (T_SP =? T_ONESUM) with false in H. change (is_sum_type T_SP) with false in H.
  change (T_SP =? T_PIVOTS) with false in H. change (T_SP =? T_SP) with true in H. cbv iota in H.
  apply check_sp_node_sound in H. exact H.
Qed.

(* ---------- pivot nodes ---------- *)

(* the element the child's row r / column c stands for in the parent: itself, except that a pivot row becomes
   the pivot's column and vice versa *)
Definition expect_row (P : ninfo) (r : nat) : Z :=
  match find_pos r (t_pivr P) with
  | Some k => Z.of_nat (nthn (t_pivc P) k) + 1
  | None => - Z.of_nat r - 1 end.
Definition expect_col (P : ninfo) (c : nat) : Z :=
  match find_pos c (t_pivc P) with
  | Some k => - Z.of_nat (nthn (t_pivr P) k) - 1
  | None => Z.of_nat c + 1 end.

Definition pivots_recompose (P : ninfo) (L : link) (C : ninfo) : Prop :=
  let q := charp (t_tern P) in
  length (t_pivr P) = length (t_pivc P) /\ t_pivr P <> [] /\
  NoDup (t_pivr P) /\ NoDup (t_pivc P) /\
  (forall r, In r (t_pivr P) -> (r < t_m P)%nat) /\ (forall c, In c (t_pivc P) -> (c < t_n P)%nat) /\
  exists R,
    pivots q (t_m P) (t_n P) (t_M P) (t_pivr P) (t_pivc P) [] [] = POk R /\
    t_m C = t_m P /\ t_n C = t_n P /\ t_M C = reduce q R /\
    l_rows L = map (expect_row P) (iota 0 (t_m P)) /\
    l_cols L = map (expect_col P) (iota 0 (t_n P)).

Theorem check_pivots_sound : forall P L C, check_pivots P L C = 0 -> pivots_recompose P L C.
Proof.
  intros P L C H. unfold check_pivots in H. cbv zeta in H.
  step H.
  destruct (pivots (charp (t_tern P)) (t_m P) (t_n P) (t_M P) (t_pivr P) (t_pivc P) [] []) as [R| |] eqn:EP;
    try discriminate H.
  step H. code_if_true H.
  apply andb_true_iff in E. destruct E as [E E6].
  apply andb_true_iff in E. destruct E as [E E5].
  apply andb_true_iff in E. destruct E as [E E4].
  apply andb_true_iff in E. destruct E as [E E3].
  apply andb_true_iff in E. destruct E as [E1 E2].
  apply Nat.eqb_eq in E1. apply negb_true_iff in E2. apply Nat.eqb_neq in E2.
  apply nodupn_NoDup in E3, E4.
  apply andb_true_iff in E0. destruct E0 as [E0 E9].
  apply andb_true_iff in E0. destruct E0 as [E7 E8].
  apply Nat.eqb_eq in E7, E8. apply mat_eqb_eq in E9.
  apply andb_true_iff in H. destruct H as [H1 H2].
  apply zlist_eqb_eq in H1, H2.
  unfold pivots_recompose. cbv zeta.
  split; [exact E1|]. split; [intros Hnil; apply E2; rewrite Hnil; reflexivity|].
  split; [exact E3|]. split; [exact E4|].
  split; [intros r Hr; eapply all_lt_In; eassumption|].
  split; [intros c Hc; eapply all_lt_In; eassumption|].
  exists R. repeat (split; [first [reflexivity | assumption]|]). exact H2.
Qed.

Definition pivot_spec (P : ninfo) (Cs : list ninfo) : Prop :=
  exists L C, t_links P = [L] /\ Cs = [C] /\ pivots_recompose P L C.

Theorem pivot_node_sound : forall P Cs,
  t_type P = T_PIVOTS -> structural P Cs = 0 -> pivot_spec P Cs.
Proof.
  intros P Cs Hty H. unfold structural in H. cbv zeta in H. rewrite Hty in H.
  change (T_PIVOTS =? T_ONESUM) with false in H. change (is_sum_type T_PIVOTS) with false in H.
  change (T_PIVOTS =? T_PIVOTS) with true in H. cbv iota in H.
  destruct (t_links P) as [|L [|L' ls]] eqn:EL; try discriminate H;
  destruct Cs as [|C [|C' Cs]]; try discriminate H.
  exists L, C. split; [exact EL|]. split; [reflexivity|].
  apply check_pivots_sound; exact H.
Qed.

(* ---------- 1-sum nodes ---------- *)

Definition child_shape (c : ninfo) : nat * nat * mat := (t_m c, t_n c, t_M c).

Definition onesum_recomposes (P : ninfo) (links : list link) (Cs : list ninfo) : Prop :=
  (2 <= length Cs)%nat /\
  exists rs cs m n,
    Forall2 (fun lc r => rows_of (l_rows (fst lc)) (iota 0 (t_m (snd lc))) = Some r) (combine links Cs) rs /\
    Forall2 (fun lc c => cols_of (l_cols (fst lc)) (iota 0 (t_n (snd lc))) = Some c) (combine links Cs) cs /\
    is_perm (t_m P) (concat rs) = true /\
    is_perm (t_n P) (concat cs) = true /\
    block_diag_of (map child_shape Cs) = (m, n, submat (t_M P) (concat rs) (concat cs)).

Theorem check_onesum_sound : forall P links Cs,
  check_onesum P links Cs = 0 -> onesum_recomposes P links Cs.
Proof.
  intros P links Cs H. unfold check_onesum in H. fold child_shape in H.
  destruct (Nat.ltb_spec (length Cs) 2) as [HL|HL]; [discriminate H|].
  split; [exact HL|].
  destruct (block_diag_of (map child_shape Cs)) as [[m n] Mc] eqn:EB.
  destruct (all_some (map (fun lc => rows_of (l_rows (fst lc)) (iota 0 (t_m (snd lc)))) (combine links Cs)))
    as [rs|] eqn:ER; [|discriminate H].
  destruct (all_some (map (fun lc => cols_of (l_cols (fst lc)) (iota 0 (t_n (snd lc)))) (combine links Cs)))
    as [cs|] eqn:EC; [|discriminate H].
  code_if_true H. apply matches_parent_spec in H. destruct H as [H1 [H2 H3]].
  apply all_some_map_spec in ER. apply all_some_map_spec in EC.
  exists rs, cs, m, n. repeat (split; [assumption|]). rewrite H3. reflexivity.
Qed.

Definition onesum_spec (P : ninfo) (Cs : list ninfo) : Prop := onesum_recomposes P (t_links P) Cs.

Theorem onesum_node_sound : forall P Cs,
  t_type P = T_ONESUM -> structural P Cs = 0 -> onesum_spec P Cs.
Proof.
  intros P Cs Hty H. unfold structural in H. cbv zeta in H. rewrite Hty in H.
  change (T_ONESUM =? T_ONESUM) with true in H. cbv iota in H.
  apply check_onesum_sound. exact H.
Qed.

(* ---------- leaves ---------- *)

Definition is_inner_type (ty : Z) : bool :=
  (ty =? T_ONESUM) || is_sum_type ty || (ty =? T_PIVOTS) || (ty =? T_SP).

Theorem leaf_node_sound : forall P Cs,
  is_inner_type (t_type P) = false -> length (t_links P) = length Cs -> structural P Cs = 0 ->
  t_links P = [] /\ Cs = [].
Proof.
  intros P Cs Hty HL H. unfold structural in H. cbv zeta in H. unfold is_inner_type in Hty.
  apply orb_false_iff in Hty. destruct Hty as [Hty H4].
  apply orb_false_iff in Hty. destruct Hty as [Hty H3].
  apply orb_false_iff in Hty. destruct Hty as [H1 H2].
  rewrite H1, H2, H3, H4 in H. code_if_true H. apply Nat.eqb_eq in H.
  rewrite H in HL. destruct (t_links P); [|discriminate H]. destruct Cs; [|discriminate HL]. auto.
Qed.

(* ---------- summary ---------- *)

Theorem check_node_sound : forall P Cs,
  check_node P Cs = 0 ->
  node_common P Cs /\ check_flags P = 0 /\
  ((t_type P = T_ONESUM /\ onesum_spec P Cs) \/
   (is_sum_type (t_type P) = true /\ sum_spec P Cs) \/
   (t_type P = T_PIVOTS /\ pivot_spec P Cs) \/
   (t_type P = T_SP /\ sp_spec P Cs) \/
   (is_inner_type (t_type P) = false /\ t_links P = [] /\ Cs = [])).
Proof.
  intros P Cs H. apply check_node_common in H. destruct H as [Hc [Hs Hf]].
  split; [exact Hc|]. split; [exact Hf|].
  destruct (Z.eqb_spec (t_type P) T_ONESUM) as [E1|E1].
  { left. split; [exact E1 | apply onesum_node_sound; assumption]. }
  destruct (is_sum_type (t_type P)) eqn:E2.
  { right; left. split; [reflexivity | apply sum_node_sound; assumption]. }
  destruct (Z.eqb_spec (t_type P) T_PIVOTS) as [E3|E3].
  { right; right; left. split; [exact E3 | apply pivot_node_sound; assumption]. }
  destruct (Z.eqb_spec (t_type P) T_SP) as [E4|E4].
  { right; right; right; left. split; [exact E4 | apply sp_node_sound; assumption]. }
  right; right; right; right.
  assert (Hin : is_inner_type (t_type P) = false).
  { unfold is_inner_type. rewrite E2.
    apply Z.eqb_neq in E1, E3, E4. rewrite E1, E3, E4. reflexivity. }
  split; [exact Hin|]. apply leaf_node_sound; try assumption. apply Hc.
Qed.

(* the implication form, one node type at a time *)
Corollary check_node_sound_by_type : forall P Cs,
  check_node P Cs = 0 ->
  (t_type P = T_ONESUM -> onesum_spec P Cs) /\
  (t_type P = T_TWOSUM \/ t_type P = T_DELTASUM \/ t_type P = T_YSUM \/ t_type P = T_THREESUM -> sum_spec P Cs) /\
  (t_type P = T_PIVOTS -> pivot_spec P Cs) /\
  (t_type P = T_SP -> sp_spec P Cs) /\
  (is_inner_type (t_type P) = false -> t_links P = [] /\ Cs = []).
Proof.
  intros P Cs H. apply check_node_common in H. destruct H as [Hc [Hs Hf]].
  split; [intros E; apply onesum_node_sound; assumption|].
  split.
  { intros E. apply sum_node_sound; [|assumption].
    destruct E as [E|[E|[E|E]]]; rewrite E; reflexivity. }
  split; [intros E; apply pivot_node_sound; assumption|].
  split; [intros E; apply sp_node_sound; assumption|].
  intros E. apply leaf_node_sound; try assumption. apply Hc.
Qed.

(* ------------------------------------------------------------------------------------------ *)
(* 3. The flag / certificate part                                                               *)
(* ------------------------------------------------------------------------------------------ *)

Definition flags_spec (P : ninfo) : Prop :=
  let M := t_M P in let m := t_m P in let n := t_n P in
  (* stored graph / cograph certificates check out against the node's matrix / its transpose *)
  (forall g, t_graph P = Some g -> check_gcert (t_tern P) m n M g = true) /\
  (forall g, t_cograph P = Some g -> check_gcert (t_tern P) n m (transpose m n M) g = true) /\
  (* determinant-type minors are violators of the node's matrix (and were found without pivots) *)
  (forall mn, In mn (t_minors P) -> mn_type mn = -2 ->
     exists rs cs, mn_pr mn = [] /\ mn_pc mn = [] /\ mn_sub mn = Some (rs, cs) /\
                   check_violator m n M rs cs = true) /\
  (t_type P = T_R10 -> is_R10 P = true) /\
  (* flags against the brute-force oracles, where these apply *)
  (small_node P = true -> 0 < t_reg P -> oracle_regular P = true) /\
  (small_node P = true -> t_reg P < 0 -> oracle_regular P = false) /\
  (t_type P = T_IRREGULAR -> small_node P = true -> oracle_regular P = false) /\
  ((m <= 4)%nat -> 0 < t_gra P -> graphic_bf m n (support M) = true) /\
  ((m <= 4)%nat -> t_gra P < 0 -> t_tern P = false -> graphic_bf m n (support M) = false) /\
  ((n <= 4)%nat -> 0 < t_cog P -> graphic_bf n m (transpose m n (support M)) = true) /\
  ((n <= 4)%nat -> t_cog P < 0 -> t_tern P = false -> graphic_bf n m (transpose m n (support M)) = false) /\
  (t_type P = T_GRAPH \/ t_type P = T_PLANAR -> (m <= 4)%nat -> graphic_bf m n (support M) = true) /\
  (t_type P = T_COGRAPH \/ t_type P = T_PLANAR -> (n <= 4)%nat ->
     graphic_bf n m (transpose m n (support M)) = true).

Lemma check_minor_spec : forall P mn, check_minor P mn = true -> mn_type mn = -2 ->
  exists rs cs, mn_pr mn = [] /\ mn_pc mn = [] /\ mn_sub mn = Some (rs, cs) /\
                check_violator (t_m P) (t_n P) (t_M P) rs cs = true.
Proof.
  intros P mn H Hty. unfold check_minor in H. rewrite Hty in H. change (-2 =? -2) with true in H. cbv iota in H.
  destruct (mn_pr mn); [|discriminate H]. destruct (mn_pc mn); [|discriminate H].
  destruct (mn_sub mn) as [[rs cs]|]; [|discriminate H].
  exists rs, cs. auto.
Qed.

Lemma or_eqb_true : forall x a b, x = a \/ x = b -> (x =? a) || (x =? b) = true.
Proof. intros x a b [->| ->]; rewrite Z.eqb_refl; [reflexivity | apply orb_true_r]. Qed.

Theorem check_flags_sound : forall P, check_flags P = 0 -> flags_spec P.
Proof.
  intros P H. unfold check_flags in H. cbv zeta in H.
  step H. rename E into E240.
  step H. rename E into E241.
  step H. rename E into E243.
  step H. rename E into E242.
  step H. rename E into E244.
  step H. rename E into E245.
  step H. rename E into E246.
  step H. rename E into E247.
  step H. rename E into E248.
  step H. rename E into E249.
  step H. rename E into E250.
  step H. rename E into E251.
  step H. rename E into E252.
  step H. rename E into E253.
  unfold flags_spec. cbv zeta.
  split. { intros g Hg. rewrite Hg in E240. exact E240. }
  split. { intros g Hg. rewrite Hg in E241. exact E241. }
  split. { intros mn Hin Hty. rewrite forallb_forall in E242. apply check_minor_spec; auto. }
  split. { intros Hty. apply (and2_negb_false _ _ E244). rewrite Hty. reflexivity. }
  split. { intros Hs Hr. apply (and3_negb_false _ _ _ E245 Hs). apply Z.ltb_lt. exact Hr. }
  split. { intros Hs Hr. apply (and3_false _ _ _ E246 Hs). apply Z.ltb_lt. exact Hr. }
  split. { intros Hty Hs. apply (and3_false _ _ _ E247); [rewrite Hty; reflexivity | exact Hs]. }
  split. { intros Hm Hg. apply (and3_negb_false _ _ _ E248); [apply Nat.leb_le; exact Hm | apply Z.ltb_lt; exact Hg]. }
  split. { intros Hm Hg Ht. apply (and4_false _ _ _ _ E249);
             [apply Nat.leb_le; exact Hm | apply Z.ltb_lt; exact Hg | rewrite Ht; reflexivity]. }
  split. { intros Hm Hg. apply (and3_negb_false _ _ _ E250); [apply Nat.leb_le; exact Hm | apply Z.ltb_lt; exact Hg]. }
  split. { intros Hm Hg Ht. apply (and4_false _ _ _ _ E251);
             [apply Nat.leb_le; exact Hm | apply Z.ltb_lt; exact Hg | rewrite Ht; reflexivity]. }
  split. { intros Hty Hm. apply (and3_negb_false _ _ _ E252); [apply or_eqb_true; exact Hty | apply Nat.leb_le; exact Hm]. }
  intros Hty Hm. apply (and3_negb_false _ _ _ E253); [apply or_eqb_true; exact Hty | apply Nat.leb_le; exact Hm].
Qed.

(* what an accepted stored graph means: the conclusions of check_graph_cert_sound / check_network_cert_sound *)
Definition graph_represents (m n : nat) (M : mat) (g : gcert) : Prop :=
  exists T C,
    graph_ok (gc_graph g) = true /\
    lookup_all (g_edges (gc_graph g)) (gc_forest g) = Some T /\ length T = m /\
    lookup_all (g_edges (gc_graph g)) (gc_coforest g) = Some C /\ length C = n /\
    NoDup (gc_forest g ++ gc_coforest g) /\
    (forall e, In e (g_edges (gc_graph g)) -> In (e_id e) (gc_forest g ++ gc_coforest g)) /\
    ~ has_cycle T /\ acyclic T = true /\
    fund_cycle_spec m n M T C.

Definition network_represents (m n : nat) (M : mat) (g : gcert) : Prop :=
  exists T C,
    graph_ok (gc_graph g) = true /\
    lookup_all (map (orient (gc_rev g)) (g_edges (gc_graph g))) (gc_forest g) = Some T /\ length T = m /\
    lookup_all (map (orient (gc_rev g)) (g_edges (gc_graph g))) (gc_coforest g) = Some C /\ length C = n /\
    NoDup (gc_forest g ++ gc_coforest g) /\
    (forall e, In e (g_edges (gc_graph g)) -> In (e_id e) (gc_forest g ++ gc_coforest g)) /\
    ~ has_cycle T /\ acyclic T = true /\
    network_spec m n M T C.

Lemma check_gcert_binary_sound : forall m n M g,
  check_gcert false m n M g = true -> is_binary M = true -> graph_represents m n M g.
Proof. intros m n M g H Hb. unfold check_gcert in H. exact (check_graph_cert_sound _ _ _ _ _ _ H Hb). Qed.

Lemma check_gcert_ternary_sound : forall m n M g,
  check_gcert true m n M g = true -> network_represents m n M g.
Proof. intros m n M g H. unfold check_gcert in H. exact (check_network_cert_sound _ _ _ _ _ _ _ H). Qed.

Lemma is_binary_transpose : forall m n M, is_binary M = true -> is_binary (transpose m n M) = true.
Proof. intros m n M H. unfold transpose. apply is_binary_mk_mat. intros i j. apply get_binary. exact H. Qed.

(* stored graphs of an accepted node represent the node's matrix, stored cographs its transpose *)
Theorem node_graphs_sound : forall P Cs, check_node P Cs = 0 ->
  (forall g, t_graph P = Some g ->
     if t_tern P then network_represents (t_m P) (t_n P) (t_M P) g
     else graph_represents (t_m P) (t_n P) (t_M P) g) /\
  (forall g, t_cograph P = Some g ->
     if t_tern P then network_represents (t_n P) (t_m P) (transpose (t_m P) (t_n P) (t_M P)) g
     else graph_represents (t_n P) (t_m P) (transpose (t_m P) (t_n P) (t_M P)) g).
Proof.
  intros P Cs H. apply check_node_common in H. destruct H as [[_ [Hdom _]] [_ Hf]].
  apply check_flags_sound in Hf. destruct Hf as [Hg [Hc _]]. cbv zeta in Hg, Hc.
  split; intros g Eg.
  - specialize (Hg g Eg). destruct (t_tern P).
    + apply check_gcert_ternary_sound. exact Hg.
    + apply check_gcert_binary_sound; assumption.
  - specialize (Hc g Eg). destruct (t_tern P).
    + apply check_gcert_ternary_sound. exact Hc.
    + apply check_gcert_binary_sound; [exact Hc | apply is_binary_transpose; exact Hdom].
Qed.

(* ------------------------------------------------------------------------------------------ *)
(* 4. The judge                                                                                 *)
(* ------------------------------------------------------------------------------------------ *)

Definition tree_input : dec (list Z * bool * (nat * nat * mat) * Z * option tree) :=
  cfg <- dlist dZ ;; binaryOfTernary <- dbool ;; x <- dmat ;; rc <- dZ ;; h <- dbool ;;
  t <- (if h then (t <- dtree 60 ;; dret (Some t)) else dret None) ;; dend (cfg, binaryOfTernary, x, rc, t).

Lemma judge_tree_unfold : forall rec,
  judge_tree rec =
  match tree_input rec with
  | Some ((cfg, bot, (m, n, M), rc, t), _) =>
    if negb (rc =? 0) then 0
    else match t with
         | None => 0
         | Some tr =>
           let P := info tr in
           if negb (Nat.eqb (t_m P) m && Nat.eqb (t_n P) n &&
                    mat_eqb (t_M P) (if bot then support M else M)) then 270
           else let r := check_tree tr in if negb (r =? 0) then r else check_prop_tree tr
         end
  | None => 1
  end.
Proof. reflexivity. Qed.

Lemma check_prop_tree_unfold : forall P ch,
  check_prop_tree (TNode P ch) =
  let r := check_prop P (map info ch) in
  if negb (r =? 0) then r
  else fold_left (fun acc c => if negb (acc =? 0) then acc else check_prop_tree c) ch 0.
Proof. reflexivity. Qed.

Theorem check_prop_tree_all_nodes : forall t,
  check_prop_tree t = 0 -> Forall_tree (fun P Cs => check_prop P Cs = 0) t.
Proof.
  induction t as [P ch IH] using tree_ind'. intros H.
  rewrite check_prop_tree_unfold in H. cbv zeta in H.
  apply Forall_tree_unfold.
  destruct (Z.eqb_spec (check_prop P (map info ch)) 0) as [E|E]; cbn [negb] in H.
  - split; [exact E|].
    apply fold_first_error_zero in H. destruct H as [_ H].
    rewrite Forall_forall in *. intros c Hc. apply IH; [exact Hc | apply H; exact Hc].
  - contradiction.
Qed.

(* what an accepted node says about the flags of its children *)
Lemma sum_flag_ok_spec : forall p cs, sum_flag_ok p cs = true ->
  (0 < p -> Forall (fun c => 0 <= c) cs) /\ (p < 0 -> ~ Forall (fun c => 0 < c) cs).
Proof.
  intros p cs H. unfold sum_flag_ok in H. split; intros Hp.
  - destruct (0 <? p) eqn:E; [|apply Z.ltb_ge in E; lia].
    rewrite forallb_forall in H. apply Forall_forall. intros c Hc. apply Z.leb_le. apply H. exact Hc.
  - destruct (0 <? p) eqn:E; [apply Z.ltb_lt in E; lia|].
    destruct (p <? 0) eqn:E2; [|apply Z.ltb_ge in E2; lia].
    intros HF. apply negb_true_iff in H.
    assert (forallb (fun c => 0 <? c) cs = true) as HT.
    { apply forallb_forall. intros c Hc. rewrite Forall_forall in HF. apply Z.ltb_lt. apply HF. exact Hc. }
    rewrite HT in H. discriminate.
Qed.

Theorem judge_tree_sound : forall rec cfg bot m n M tr rest,
  tree_input rec = Some ((cfg, bot, (m, n, M), 0, Some tr), rest) ->
  judge_tree rec = 0 ->
  t_m (info tr) = m /\ t_n (info tr) = n /\
  t_M (info tr) = (if bot then support M else M) /\
  check_tree tr = 0 /\
  Forall_tree (fun P Cs => check_node P Cs = 0) tr.
Proof.
  intros rec cfg bot m n M tr rest Hdec H.
  rewrite judge_tree_unfold, Hdec in H. change (negb (0 =? 0)) with false in H. cbv iota zeta in H.
  step H.
  apply andb_true_iff in E. destruct E as [E E3].
  apply andb_true_iff in E. destruct E as [E1 E2].
  apply Nat.eqb_eq in E1, E2. apply mat_eqb_eq in E3.
  destruct (Z.eqb_spec (check_tree tr) 0) as [Ec|Ec]; cbn [negb] in H; [|contradiction].
  repeat (split; [assumption|]). apply check_tree_all_nodes. exact Ec.
Qed.

(* ... and the flags of every inner node are consistent with those of its children *)
Theorem judge_tree_flags_consistent : forall rec cfg bot m n M tr rest,
  tree_input rec = Some ((cfg, bot, (m, n, M), 0, Some tr), rest) ->
  judge_tree rec = 0 ->
  Forall_tree (fun P Cs => check_prop P Cs = 0) tr.
Proof.
  intros rec cfg bot m n M tr rest Hdec H.
  rewrite judge_tree_unfold, Hdec in H. change (negb (0 =? 0)) with false in H. cbv iota zeta in H.
  step H.
  destruct (Z.eqb_spec (check_tree tr) 0) as [Ec|Ec]; cbn [negb] in H; [|contradiction].
  apply check_prop_tree_all_nodes. exact H.
Qed.

(* the decoded input matrix is well-formed, so the root's matrix has the recorded shape *)
Lemma tree_input_wf : forall rec cfg bot m n M rc t rest,
  tree_input rec = Some ((cfg, bot, (m, n, M), rc, t), rest) -> wf_mat m n M = true.
Proof.
  intros rec cfg bot m n M rc t rest H. unfold tree_input, dbind in H.
  destruct (dlist dZ rec) as [[cfg' r1]|]; [|discriminate].
  destruct (dbool r1) as [[b r2]|]; [|discriminate].
  destruct (dmat r2) as [[[[m' n'] M'] r3]|] eqn:EM; [|discriminate].
  destruct (dZ r3) as [[rc' r4]|]; [|discriminate].
  destruct (dbool r4) as [[h r5]|]; [|discriminate].
  destruct h.
  - destruct (dtree 60 r5) as [[t' r6]|]; [|discriminate].
    unfold dret, dend in H. destruct r6; [|discriminate]. inversion H; subst.
    eapply dmat_wf. exact EM.
  - unfold dret, dend in H. destruct r5; [|discriminate]. inversion H; subst.
    eapply dmat_wf. exact EM.
Qed.

(* every node of an accepted record's tree enjoys the per-type guarantees *)
Corollary judge_tree_nodes : forall rec cfg bot m n M tr rest,
  tree_input rec = Some ((cfg, bot, (m, n, M), 0, Some tr), rest) ->
  judge_tree rec = 0 ->
  Forall_tree (fun P Cs =>
    node_common P Cs /\ flags_spec P /\
    ((t_type P = T_ONESUM /\ onesum_spec P Cs) \/
     (is_sum_type (t_type P) = true /\ sum_spec P Cs) \/
     (t_type P = T_PIVOTS /\ pivot_spec P Cs) \/
     (t_type P = T_SP /\ sp_spec P Cs) \/
     (is_inner_type (t_type P) = false /\ t_links P = [] /\ Cs = []))) tr.
Proof.
  intros rec cfg bot m n M tr rest Hdec H.
  destruct (judge_tree_sound _ _ _ _ _ _ _ _ Hdec H) as [_ [_ [_ [_ HF]]]].
  revert HF. apply Forall_tree_mono. intros P Cs HN.
  destruct (check_node_sound _ _ HN) as [H1 [H2 H3]].
  split; [exact H1|]. split; [apply check_flags_sound; exact H2 | exact H3].
Qed.

(* ------------------------------------------------------------------------------------------ *)
(* 5. Non-vacuity                                                                               *)
(* ------------------------------------------------------------------------------------------ *)

Definition ex_node (ty : Z) (m n : nat) (M : mat) (links : list link) (reds : list (Z * Z)) : ninfo :=
  {| t_type := ty; t_tern := false; t_reg := 0; t_gra := 0; t_cog := 0;
     t_m := m; t_n := n; t_M := M; t_links := links; t_pivr := []; t_pivc := []; t_reds := reds;
     t_graph := None; t_cograph := None; t_minors := [] |}.
Definition ex_link (rows cols : list Z) : link := {| l_rows := rows; l_cols := cols; l_sr := []; l_sc := [] |}.

Definition ex_leaf : tree := TNode (ex_node T_UNKNOWN 1 1 [[1]] [] []) [].

(* 1-sum of two 1x1 blocks: child 0 is row 0 / column 0, child 1 is row 1 / column 1 *)
Definition ex_onesum : tree :=
  TNode (ex_node T_ONESUM 2 2 [[1; 0]; [0; 1]] [ex_link [-1] [1]; ex_link [-2] [2]] []) [ex_leaf; ex_leaf].
Example ex_onesum_accepted : check_tree ex_onesum = 0.
Proof. vm_compute. reflexivity. Qed.

(* the second child's column map names column 0 again: the maps are no longer a permutation *)
Definition ex_onesum_bad : tree :=
  TNode (ex_node T_ONESUM 2 2 [[1; 0]; [0; 1]] [ex_link [-1] [1]; ex_link [-2] [1]] []) [ex_leaf; ex_leaf].
Example ex_onesum_bad_rejected : check_tree ex_onesum_bad = 212.
Proof. vm_compute. reflexivity. Qed.

(* the column maps are swapped: permutations, but the block-diagonal matrix is not the parent's *)
Definition ex_onesum_swapped : tree :=
  TNode (ex_node T_ONESUM 2 2 [[1; 0]; [0; 1]] [ex_link [-1] [2]; ex_link [-2] [1]] []) [ex_leaf; ex_leaf].
Example ex_onesum_swapped_rejected : check_tree ex_onesum_swapped = 212.
Proof. vm_compute. reflexivity. Qed.

(* the soundness theorems apply to the accepted tree *)
Example ex_onesum_nodes : Forall_tree (fun P Cs => check_node P Cs = 0) ex_onesum.
Proof. apply check_tree_all_nodes. exact ex_onesum_accepted. Qed.

Example ex_onesum_spec : onesum_spec (info ex_onesum) [info ex_leaf; info ex_leaf].
Proof.
  pose proof (Forall_tree_root _ _ ex_onesum_nodes) as H. cbn [ex_onesum map] in H.
  destruct (check_node_sound _ _ H) as [_ [_ [[_ H1]|[[H2 _]|[[H2 _]|[[H2 _]|[H2 _]]]]]]];
    [exact H1 | discriminate H2 ..].
Qed.

(* series-parallel node for the all-ones 2x2 matrix: row 0 is a copy of row 1, column 0 a copy of column 1,
   row 1 is then a unit row (its entry in column 1), and column 1 is left empty *)
Definition ex_sp : tree :=
  TNode (ex_node T_SP 2 2 [[1; 1]; [1; 1]] [] [(-1, -2); (1, 2); (-2, 2); (2, 0)]) [].
Example ex_sp_accepted : check_tree ex_sp = 0.
Proof. vm_compute. reflexivity. Qed.

(* dropping the last reduction leaves a column: code 231 *)
Definition ex_sp_bad : tree :=
  TNode (ex_node T_SP 2 2 [[1; 1]; [1; 1]] [] [(-1, -2); (1, 2); (-2, 2)]) [].
Example ex_sp_bad_rejected : check_tree ex_sp_bad = 231.
Proof. vm_compute. reflexivity. Qed.

(* a bogus reduction (row 0 is not a zero row): code 230 *)
Definition ex_sp_bogus : tree :=
  TNode (ex_node T_SP 2 2 [[1; 1]; [1; 1]] [] [(-1, 0)]) [].
Example ex_sp_bogus_rejected : check_tree ex_sp_bogus = 230.
Proof. vm_compute. reflexivity. Qed.

(* a 2-sum node: child 0 = [A; c^T] = [[1];[1]] (row 1 special), child 1 = [d D] = [[1;1]] (column 0
   special); the parent is [A 0; d c^T D] = [[1;0];[1;1]] *)
Definition ex_twosum : tree :=
  TNode (ex_node T_TWOSUM 2 2 [[1; 0]; [1; 1]] [ex_link [-1; -2] [1]; ex_link [-2] [1; 2]] [])
        [TNode (ex_node T_UNKNOWN 2 1 [[1]; [1]] [] []) []; TNode (ex_node T_UNKNOWN 1 2 [[1; 1]] [] []) []].
Example ex_twosum_accepted : check_tree ex_twosum = 0.
Proof. vm_compute. reflexivity. Qed.

(* a pivot node over GF(2): pivoting [[1;1];[1;0]] on (0,0) gives [[1;1];[1;1]]; the child's row 0 is the parent's
   column 0 and vice versa *)
Definition ex_pivot : tree :=
  TNode {| t_type := T_PIVOTS; t_tern := false; t_reg := 0; t_gra := 0; t_cog := 0;
           t_m := 2; t_n := 2; t_M := [[1; 1]; [1; 0]]; t_links := [ex_link [1; -2] [-1; 2]];
           t_pivr := [0%nat]; t_pivc := [0%nat]; t_reds := [];
           t_graph := None; t_cograph := None; t_minors := [] |}
        [TNode (ex_node T_UNKNOWN 2 2 [[1; 1]; [1; 1]] [] []) []].
Example ex_pivot_accepted : check_tree ex_pivot = 0.
Proof. vm_compute. reflexivity. Qed.

(* a complete record for judge_tree: the accepted 1-sum tree for the input matrix [[1;0];[0;1]] *)
Definition ex_leaf_rec : list Z := [0; 0; 0; 0; 0] ++ [1; 1; 1] ++ [0] ++ [0; 0; 0] ++ [0; 0] ++ [0].
Definition ex_tree_rec : list Z :=
  [0] ++ [0] ++ [2; 2; 1; 0; 0; 1] ++ [0] ++ [1] ++
  ([7; 0; 0; 0; 0] ++ [2; 2; 1; 0; 0; 1] ++
   [2] ++ ([1; -1] ++ [1; 1] ++ [0] ++ [0]) ++ ([1; -2] ++ [1; 2] ++ [0] ++ [0]) ++
   [0; 0; 0] ++ [0; 0] ++ [0]) ++
  ex_leaf_rec ++ ex_leaf_rec.
Example ex_tree_rec_decodes :
  tree_input ex_tree_rec = Some (([], false, (2%nat, 2%nat, [[1; 0]; [0; 1]]), 0, Some ex_onesum), []).
Proof. vm_compute. reflexivity. Qed.
Example ex_tree_rec_accepted : judge_tree ex_tree_rec = 0.
Proof. vm_compute. reflexivity. Qed.
Example ex_tree_rec_sound : t_M (info ex_onesum) = [[1; 0]; [0; 1]] /\ check_tree ex_onesum = 0.
Proof.
  destruct (judge_tree_sound _ _ _ _ _ _ _ _ ex_tree_rec_decodes ex_tree_rec_accepted) as [_ [_ [H1 [H2 _]]]].
  split; assumption.
Qed.
(* a different input matrix: code 270 *)
Example ex_tree_rec_wrong_matrix :
  judge_tree ([0] ++ [0] ++ [2; 2; 1; 1; 0; 1] ++ skipn 8 ex_tree_rec) = 270.
Proof. vm_compute. reflexivity. Qed.

(* ------------------------------------------------------------------------------------------ *)
Print Assumptions check_tree_all_nodes.
Print Assumptions check_tree_all_nodes_iff.
Print Assumptions check_node_common.
Print Assumptions check_sum_sound.
Print Assumptions sum_node_sound.
Print Assumptions sum_node_recorded_specials.
Print Assumptions twosum_node_specials.
Print Assumptions check_sp_node_sound.
Print Assumptions sp_node_meaning.
Print Assumptions check_pivots_sound.
Print Assumptions pivot_node_sound.
Print Assumptions check_onesum_sound.
Print Assumptions leaf_node_sound.
Print Assumptions check_node_sound.
Print Assumptions check_node_sound_by_type.
Print Assumptions check_flags_sound.
Print Assumptions node_graphs_sound.
Print Assumptions judge_tree_sound.
Print Assumptions judge_tree_nodes.
Print Assumptions ex_tree_rec_sound.
