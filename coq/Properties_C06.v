From Cmr Require Import Base Det GraphModel.
Theorem placeholder_C06 : True. Proof. exact I. Qed.
