(* Properties_C06.v — C06: network / conetwork recognition with a sign-correct digraph certificate. *)
From Coq Require Import Permutation.
From Cmr Require Import Base Det BaseProofs GraphModel GraphProofs.
Local Open Scope Z_scope.

(* Signed certificate soundness, every size: after reversing the arcs listed in rev, for every column j there is a
   simple forest path p from the tail to the head of the j-th coforest arc such that row i is +1 iff forest arc i is
   traversed forwardly on p, -1 iff backwardly, 0 iff it is not on p: M = M(D,T) including all signs. *)
Theorem C06_certificate_sound : forall m n M G rev forest coforest,
  check_network_cert m n M G rev forest coforest = true ->
  exists T C,
    graph_ok G = true /\
    lookup_all (map (orient rev) (g_edges G)) forest = Some T /\ length T = m /\
    lookup_all (map (orient rev) (g_edges G)) coforest = Some C /\ length C = n /\
    NoDup (forest ++ coforest) /\
    (forall e, In e (g_edges G) -> In (e_id e) (forest ++ coforest)) /\
    ~ has_cycle T /\ acyclic T = true /\
    network_spec m n M T C.
Proof. exact check_network_cert_sound. Qed.
Print Assumptions C06_certificate_sound.

(* the signed matrix is uniquely determined by the certificate *)
Theorem C06_matrix_determined : forall m n M M' G rev forest coforest,
  check_network_cert m n M G rev forest coforest = true ->
  check_network_cert m n M' G rev forest coforest = true ->
  wf_mat m n M = true -> wf_mat m n M' = true -> M = M'.
Proof. exact check_network_cert_functional. Qed.
Print Assumptions C06_matrix_determined.

(* in a forest the simple path between two nodes is unique (so "the" path direction is well defined) *)
Theorem C06_path_unique : forall T x y p q,
  acyclic T = true -> simple_path T x y p -> simple_path T x y q -> p = q.
Proof. exact acyclic_path_unique. Qed.
Print Assumptions C06_path_unique.

Example C06_nonvacuous :
  check_network_cert 2 1 [[1];[1]] tri []%list [0;1]%nat [2]%nat = true /\
  check_network_cert 2 1 [[1];[-1]] tri []%list [0;1]%nat [2]%nat = false /\
  check_network_cert 2 1 [[1];[-1]] tri [1%nat] [0;1]%nat [2]%nat = true.
Proof. repeat split; vm_compute; reflexivity. Qed.

(* ---------- network matrices are totally unimodular (NetworkTU.v, MathComp: incidence matrices are TU, the telescoping
   identity D_T M = D_C from the certificate, and Sylvester's determinant identity for  [B | B M] TU, det B = +-1 => M TU) ---------- *)
From Cmr Require NetworkTU TuNetModel TuNetProofs TuModel.
Theorem C06_network_certificate_implies_TU : forall m n M G rv forest coforest,
  check_network_cert m n M G rv forest coforest = true -> tu_bf m n M = true.
Proof. exact NetworkTU.network_cert_tu_bf. Qed.
Print Assumptions C06_network_certificate_implies_TU.

Theorem C06_tu_verdict_on_certified_network_matrices : forall rec cfg m n M rc v sub G f c r rest,
  TuNetModel.tu_net_input rec = Some ((cfg, (m, n, M), rc, v, sub, WGraph G f c r), rest) ->
  check_network_cert m n M G r f c = true ->
  TuNetModel.judge_tu_net rec = 0 ->
  rc = 0 /\ tu_bf m n M = true /\ (v = 2 -> TuModel.cfg_stopflags cfg = true) /\ (v <> 2 -> v = 1 /\ sub = None).
Proof. exact TuNetProofs.judge_tu_net_sound. Qed.
Print Assumptions C06_tu_verdict_on_certified_network_matrices.

(* ---------- the judge accepts EXACTLY the records that satisfy its specification: besides soundness (above) also completeness,
   i.e. a record of a correct answer is never rejected (JudgeComplete2.v) ---------- *)
From Cmr Require JudgeComplete2.
Theorem C06_judge_network_accepts_exactly_the_specification :
    forall (rec : list Z) (tr : bool) (m0 n0 : nat) (M0 : mat) (rc v sg : Z)
    (cert : option (GraphModel.graph * list nat * list nat * list nat))
    (sub : option (list nat * list nat)) (w : GraphModel.witness) (rest : list Z),
    NetworkJudge.network_input rec = Some (tr, (m0, n0, M0), rc, v, sg, cert, sub, w, rest) ->
    GraphModel.judge_network rec = 0%Z <-> JudgeComplete2.network_spec tr m0 n0 M0 rc v sg cert sub w.
Proof. exact JudgeComplete2.judge_network_iff. Qed.
Print Assumptions C06_judge_network_accepts_exactly_the_specification.

(* ---------- the signed certificate checker is EQUIVALENT to the network specification (GraphComplete.v): a correct digraph /
   forest / coforest / reversal certificate is never rejected ---------- *)
From Cmr Require GraphComplete.
Theorem C06_certificate_checker_is_the_specification :
    forall (m n : nat) (M : mat) (G : GraphModel.graph) (rev forest coforest : list nat),
    GraphModel.check_network_cert m n M G rev forest coforest = true <->
    (exists T C : list GraphModel.edge,
    GraphModel.graph_ok G = true /\
    GraphModel.lookup_all (map (GraphModel.orient rev) (GraphModel.g_edges G)) forest = Some T /\
    length T = m /\
    GraphModel.lookup_all (map (GraphModel.orient rev) (GraphModel.g_edges G)) coforest = Some C /\
    length C = n /\
    NoDup (forest ++ coforest) /\
    (forall e : GraphModel.edge,
    In e (GraphModel.g_edges G) -> In (GraphModel.e_id e) (forest ++ coforest)) /\
    ~ GraphProofs.has_cycle T /\ GraphProofs.network_spec m n M T C).
Proof. exact GraphComplete.check_network_cert_iff. Qed.
Print Assumptions C06_certificate_checker_is_the_specification.

(* ---------- network matrices as defined by certificates (NetworkClosure.NetworkP: some forest T and non-forest arcs C satisfy the
   signed path specification) are closed under the operations of C10: permutations, +-1 scaling of lines (arc reversal), zero / unit /
   (negated) duplicated lines, submatrices (contraction of tree arcs) ---------- *)
From Cmr Require NetworkClosure.
Theorem C06_certified_matrices_are_network :
    forall (m n : nat) (M : mat) (G : GraphModel.graph) (rev f c : list nat),
    GraphModel.check_network_cert m n M G rev f c = true -> NetworkClosure.NetworkP m n M.
Proof. exact NetworkClosure.cert_NetworkP. Qed.
Print Assumptions C06_certified_matrices_are_network.
Theorem C06_network_submatrix :
    forall (m n : nat) (M : mat) (rs cs : list nat),
    wf_mat m n M = true ->
    strictly_increasing rs = true ->
    strictly_increasing cs = true ->
    all_lt m rs = true ->
    all_lt n cs = true ->
    NetworkClosure.NetworkP m n M -> NetworkClosure.NetworkP (length rs) (length cs) (submat M rs cs).
Proof. exact NetworkClosure.NetworkP_submat. Qed.
Print Assumptions C06_network_submatrix.
