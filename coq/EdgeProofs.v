(* EdgeProofs.v — proofs about the edge-list text format model (EdgeModel.v): soundness of the judge's acceptance,
   a printer with the round trip  (names, edges) -> text -> (names, edges),  validity of the end-node indices the
   parser produces, and the stop rule at the first short line. *)
From Cmr Require Import Base BaseProofs TextModel TextProofs EdgeModel.
Require Import ZifyBool.
Local Open Scope Z_scope.

(* ========================================================================================== *)
(* 1. Soundness of acceptance                                                                  *)
(* ========================================================================================== *)

Definition edgelist_input : dec (list Z * Z * nat * Z * list (list Z) * list (nat * nat * Z)) :=
  bytes <- dlist dZ ;; rc <- dZ ;; nn <- dnat ;; hl <- dZ ;;
  labs <- (if hl =? 0 then dret [] else dlist (dlist dZ)) ;; es <- dlist dedge ;; dend (bytes, rc, nn, hl, labs, es).

Lemma edge_eqb_eq : forall a b, edge_eqb a b = true <-> a = b.
Proof.
  intros [[u v] e] [[u' v'] e']. unfold edge_eqb.
  rewrite !andb_true_iff, !Nat.eqb_eq, Z.eqb_eq. split.
  - intros [[-> ->] ->]. reflexivity.
  - intros E. inversion E. auto.
Qed.

Lemma edges_eqb_eq : forall es exp, list_eqb edge_eqb es exp = true -> es = exp.
Proof. intros es exp H. apply (list_eqb_eq _ edge_eqb edge_eqb_eq). exact H. Qed.

Lemma labels_eqb_eq : forall labs names : list (list Z), list_eqb zlist_eqb labs names = true -> labs = names.
Proof. intros labs names H. apply (list_eqb_eq _ zlist_eqb zlist_eqb_eq). exact H. Qed.

Theorem judge_edgelist_sound : forall rec,
  judge_edgelist rec = 0 ->
  exists bytes rc nn hl labs es rest,
    edgelist_input rec = Some ((bytes, rc, nn, hl, labs, es), rest) /\
    rc = 0 /\
    exists names, parse_edges [] (lines bytes) = Some (names, es) /\
                  nn = length names /\
                  (hl <> 0 -> labs = names).
Proof.
  intros rec Hj. unfold judge_edgelist in Hj.
  match type of Hj with (match ?X with _ => _ end) = _ => change X with (edgelist_input rec) in Hj end.
  destruct (edgelist_input rec) as [[[[[[[bytes rc] nn] hl] labs] es] rest]|] eqn:Hdec; [|discriminate].
  destruct (parse_edges [] (lines bytes)) as [[names exp]|] eqn:Hp; [|discriminate].
  destruct (Z.eqb_spec rc 0) as [Hrc|Hrc]; cbn [negb] in Hj; [|discriminate].
  destruct (Nat.eqb nn (length names)) eqn:Hnn; cbn [negb] in Hj; [|discriminate].
  destruct (list_eqb edge_eqb es exp) eqn:Hes; cbn [negb] in Hj; [|discriminate].
  apply Nat.eqb_eq in Hnn. apply edges_eqb_eq in Hes. subst exp.
  exists bytes, rc, nn, hl, labs, es, rest.
  split; [reflexivity|]. split; [assumption|].
  exists names. split; [assumption|]. split; [assumption|].
  intros Hhl.
  destruct (Z.eqb_spec hl 0) as [E|E]; [contradiction|]. cbn [negb andb] in Hj.
  destruct (list_eqb zlist_eqb labs names) eqn:Hl; cbn [negb] in Hj; [|discriminate].
  now apply labels_eqb_eq.
Qed.

(* ========================================================================================== *)
(* 4. Reading stops at the first line with fewer than two tokens                               *)
(* ========================================================================================== *)

Theorem parse_edges_stops_at_short_line : forall names l rest,
  (length (tokens l) < 2)%nat -> parse_edges names (l :: rest) = Some (names, []).
Proof.
  intros names l rest H. cbn [parse_edges].
  destruct (tokens l) as [|a [|b more]]; [reflexivity | reflexivity |].
  cbn [length] in H. lia.
Qed.

(* ========================================================================================== *)
(* 3. End nodes are valid indices; the known names are only extended                           *)
(* ========================================================================================== *)

Lemma name_index_lt : forall names x k, name_index names x = Some k -> (k < length names)%nat.
Proof.
  induction names as [|y r IH]; intros x k H; cbn [name_index] in H; [discriminate|].
  destruct (zlist_eqb x y).
  - inversion H; subst. cbn [length]. lia.
  - destruct (name_index r x) as [k0|] eqn:E; [|discriminate].
    inversion H; subst. cbn [length]. specialize (IH _ _ E). lia.
Qed.

Lemma intern_spec : forall names x n1 i,
  intern names x = (n1, i) -> (exists ext, n1 = names ++ ext) /\ (i < length n1)%nat.
Proof.
  intros names x n1 i H. unfold intern in H.
  destruct (name_index names x) as [k|] eqn:E; inversion H; subst.
  - split; [exists []; now rewrite app_nil_r | eapply name_index_lt; eassumption].
  - split; [now exists [x] | rewrite app_length; cbn [length]; lia].
Qed.

Theorem parse_edges_nodes_lt : forall ls names0 names es,
  parse_edges names0 ls = Some (names, es) ->
  (forall u v e, In (u, v, e) es -> (u < length names)%nat /\ (v < length names)%nat) /\
  (exists ext, names = names0 ++ ext).
Proof.
  induction ls as [|l rest IH]; intros names0 names es H; cbn [parse_edges] in H.
  - inversion H; subst. split; [intros u v e []|]. exists []. now rewrite app_nil_r.
  - destruct (tokens l) as [|tu [|tv more]].
    + inversion H; subst. split; [intros u v e []|]. exists []. now rewrite app_nil_r.
    + inversion H; subst. split; [intros u v e []|]. exists []. now rewrite app_nil_r.
    + destruct (intern names0 tu) as [n1 iu] eqn:E1.
      destruct (intern n1 tv) as [n2 iv] eqn:E2.
      destruct (match more with [] => Some 0 | lab :: _ => parse_label lab end) as [e0|]; [|discriminate].
      destruct (parse_edges n2 rest) as [[nf es0]|] eqn:E3; [|discriminate].
      inversion H; subst.
      apply intern_spec in E1. destruct E1 as [[x1 Hx1] Hiu].
      apply intern_spec in E2. destruct E2 as [[x2 Hx2] Hiv].
      apply IH in E3. destruct E3 as [Hes [x3 Hx3]].
      assert (L1 : (length n1 <= length n2)%nat) by (rewrite Hx2, app_length; lia).
      assert (L2 : (length n2 <= length names)%nat) by (rewrite Hx3, app_length; lia).
      split.
      * intros u v e [Hin|Hin]; [inversion Hin; subst; lia | now apply (Hes u v e)].
      * exists (x1 ++ x2 ++ x3). rewrite Hx3, Hx2, Hx1. now rewrite <- !app_assoc.
Qed.

(* ========================================================================================== *)
(* 2. The printer and the round trip                                                           *)
(* ========================================================================================== *)

Definition print_label (e : Z) : list Z :=
  if e =? 0 then [] else if e <? 0 then 32 :: 114 :: print_int (- e) else 32 :: 99 :: print_int e.   (* " r<k>" / " c<k>" *)
Definition print_edge (names : list (list Z)) (x : nat * nat * Z) : list Z :=
  let '(u, v, e) := x in nth u names [] ++ 32 :: nth v names [] ++ print_label e ++ [10].
Definition print_edgelist (names : list (list Z)) (es : list (nat * nat * Z)) : list Z :=
  flat_map (print_edge names) es.

(* a node name is a non-empty byte sequence without whitespace (in particular without newline) *)
Definition name_ok (n : list Z) : Prop := n <> [] /\ forallb (fun b => negb (is_ws b)) n = true.
Definition names_ok (names : list (list Z)) : Prop := (forall n, In n names -> name_ok n) /\ NoDup names.

(* boolean version, for concrete instances *)
Definition name_okb (n : list Z) : bool :=
  match n with [] => false | _ => forallb (fun b => negb (is_ws b)) n end.
Fixpoint nodupb (names : list (list Z)) : bool :=
  match names with
  | [] => true
  | x :: r => negb (existsb (zlist_eqb x) r) && nodupb r
  end.
Definition names_okb (names : list (list Z)) : bool := forallb name_okb names && nodupb names.

Lemma nodupb_NoDup : forall names, nodupb names = true -> NoDup names.
Proof.
  induction names as [|x r IH]; intros H; [constructor|].
  cbn [nodupb] in H. apply andb_true_iff in H. destruct H as [H1 H2].
  constructor; [|now apply IH].
  intros Hin. apply negb_true_iff in H1.
  assert (E : existsb (zlist_eqb x) r = true).
  { apply existsb_exists. exists x. split; [assumption | now apply zlist_eqb_eq]. }
  congruence.
Qed.

Lemma names_okb_ok : forall names, names_okb names = true -> names_ok names.
Proof.
  intros names H. unfold names_okb in H. apply andb_true_iff in H. destruct H as [H1 H2].
  split; [|now apply nodupb_NoDup].
  intros n Hn. rewrite forallb_forall in H1. specialize (H1 _ Hn).
  unfold name_okb in H1. destruct n as [|b n]; [discriminate|]. split; [discriminate | exact H1].
Qed.

(* "nodes are numbered in order of first appearance": with k nodes known, an end node is either known (w < k)
   or the next new one (w = k) *)
Definition see (k w : nat) : option nat :=
  if (w <? k)%nat then Some k else if (w =? k)%nat then Some (S k) else None.
Fixpoint seen_after (k : nat) (es : list (nat * nat * Z)) : option nat :=
  match es with
  | [] => Some k
  | (u, v, _) :: r =>
    match see k u with
    | None => None
    | Some k1 => match see k1 v with
                 | None => None
                 | Some k2 => seen_after k2 r
                 end
    end
  end.

Lemma see_spec : forall k w k1, see k w = Some k1 ->
  ((w < k)%nat /\ k1 = k) \/ (w = k /\ k1 = S k).
Proof.
  intros k w k1 H. unfold see in H.
  destruct (Nat.ltb_spec w k) as [L|L].
  - inversion H; subst. left. auto.
  - destruct (Nat.eqb_spec w k) as [E|E]; [|discriminate]. inversion H; subst. right. auto.
Qed.

Lemma see_mono : forall k w k1, see k w = Some k1 -> (w < k1)%nat /\ (k <= k1)%nat.
Proof. intros k w k1 H. apply see_spec in H. lia. Qed.

Lemma seen_after_mono : forall es k k', seen_after k es = Some k' -> (k <= k')%nat.
Proof.
  induction es as [|[[u v] e] es IH]; intros k k' H; cbn [seen_after] in H.
  - inversion H; subst. lia.
  - destruct (see k u) as [k1|] eqn:E1; [|discriminate].
    destruct (see k1 v) as [k2|] eqn:E2; [|discriminate].
    apply see_mono in E1. apply see_mono in E2. apply IH in H. lia.
Qed.

(* ---------- lines ---------- *)

Definition no_nl (l : list Z) : Prop := forallb (fun b => negb (b =? 10)) l = true.

Lemma lines_aux_line : forall l cur rest,
  no_nl l -> lines_aux cur (l ++ 10 :: rest) = (rev cur ++ l) :: lines_aux [] rest.
Proof.
  unfold no_nl. induction l as [|b l IH]; intros cur rest H.
  - cbn [app lines_aux]. change (10 =? 10) with true. cbv iota. now rewrite app_nil_r.
  - cbn [forallb] in H. apply andb_true_iff in H. destruct H as [Hb Hl].
    apply negb_true_iff in Hb. cbn [app lines_aux]. rewrite Hb.
    rewrite IH by assumption. cbn [rev]. rewrite <- app_assoc. reflexivity.
Qed.

Lemma lines_line : forall l rest, no_nl l -> lines (l ++ 10 :: rest) = l :: lines rest.
Proof. intros l rest H. unfold lines. now rewrite lines_aux_line. Qed.

Lemma no_ws_no_nl : forall l, forallb (fun b => negb (is_ws b)) l = true -> no_nl l.
Proof.
  unfold no_nl. induction l as [|b l IH]; intros H; [reflexivity|].
  cbn [forallb] in *. apply andb_true_iff in H. destruct H as [Hb Hl].
  rewrite IH by assumption. rewrite andb_true_r.
  unfold is_ws in Hb. lia.
Qed.

Lemma no_nl_app : forall a b, no_nl a -> no_nl b -> no_nl (a ++ b).
Proof. unfold no_nl. intros a b Ha Hb. now rewrite forallb_app, Ha, Hb. Qed.

Lemma no_nl_cons : forall x l, x <> 10 -> no_nl l -> no_nl (x :: l).
Proof.
  unfold no_nl. intros x l Hx Hl. cbn [forallb]. rewrite Hl, andb_true_r.
  apply negb_true_iff. now apply Z.eqb_neq.
Qed.

Lemma print_label_no_nl : forall e, no_nl (print_label e).
Proof.
  intros e. unfold print_label. destruct (e =? 0); [reflexivity|].
  destruct (e <? 0); (apply no_nl_cons; [lia|]; apply no_nl_cons; [lia|]; apply no_ws_no_nl, print_int_no_ws).
Qed.

(* ---------- tokens ---------- *)

Lemma tokens_aux_end : forall w cur,
  forallb (fun b => negb (is_ws b)) w = true -> rev w ++ cur <> [] ->
  tokens_aux cur w = [rev (rev w ++ cur)].
Proof.
  induction w as [|b w IH]; intros cur Hw Hne.
  - cbn [app rev] in *. cbn [tokens_aux]. destruct cur; [contradiction | reflexivity].
  - cbn [forallb] in Hw. apply andb_true_iff in Hw. destruct Hw as [Hb Hw].
    apply negb_true_iff in Hb. cbn [tokens_aux]. rewrite Hb.
    cbn [rev] in *. rewrite <- app_assoc in *. cbn [app] in *. now apply IH.
Qed.

Lemma tokens_end : forall w,
  forallb (fun b => negb (is_ws b)) w = true -> w <> [] -> tokens w = [w].
Proof.
  intros w Hw Hne. unfold tokens. rewrite tokens_aux_end; try assumption.
  - now rewrite app_nil_r, rev_involutive.
  - rewrite app_nil_r. intros E. apply Hne. rewrite <- (rev_involutive w), E. reflexivity.
Qed.

(* ---------- labels ---------- *)

Lemma all_digits_print_int : forall k, 0 <= k -> all_digits (print_int k) = true.
Proof.
  intros k Hk. destruct (print_int_digits_pos k Hk) as [Hd Hne].
  unfold all_digits. destruct (print_int k) as [|d ds]; [contradiction | exact Hd].
Qed.

Lemma digits_val_print_int : forall k, 0 <= k < 10 ^ 80 -> digits_val 0 (print_int k) = k.
Proof.
  intros k Hk. unfold print_int. destruct (Z.ltb_spec k 0) as [H|H]; [lia|].
  apply pos_digits_val. change (Z.of_nat 80) with 80. lia.
Qed.

Lemma parse_label_row : forall k, 0 <= k < 10 ^ 80 -> parse_label (114 :: print_int k) = Some (- k).
Proof.
  intros k Hk. unfold parse_label. change (114 =? 114) with true. cbn [orb].
  rewrite all_digits_print_int by lia. now rewrite digits_val_print_int.
Qed.

Lemma parse_label_col : forall k, 0 <= k < 10 ^ 80 -> parse_label (99 :: print_int k) = Some k.
Proof.
  intros k Hk. unfold parse_label.
  change (99 =? 114) with false. change (99 =? 82) with false. change (99 =? 116) with false.
  change (99 =? 84) with false. change (99 =? 45) with false. change (99 =? 99) with true. cbn [orb].
  rewrite all_digits_print_int by lia. now rewrite digits_val_print_int.
Qed.

(* tokens of the part of a line after the second name, and the label they denote *)
Lemma tokens_name_label : forall nv e,
  name_ok nv -> Z.abs e < 10 ^ 80 ->
  exists more, tokens (nv ++ print_label e) = nv :: more /\
               (match more with [] => Some 0 | lab :: _ => parse_label lab end) = Some e.
Proof.
  intros nv e [Hne Hws] He. unfold print_label.
  destruct (Z.eqb_spec e 0) as [E0|E0].
  - exists []. rewrite app_nil_r. split; [now apply tokens_end | now subst].
  - destruct (Z.ltb_spec e 0) as [L|L].
    + exists [114 :: print_int (- e)]. split.
      * rewrite tokens_word by (assumption || reflexivity). f_equal.
        apply tokens_end; [|discriminate].
        cbn [forallb]. change (negb (is_ws 114)) with true. cbn [andb]. apply print_int_no_ws.
      * rewrite parse_label_row by lia. f_equal. lia.
    + exists [99 :: print_int e]. split.
      * rewrite tokens_word by (assumption || reflexivity). f_equal.
        apply tokens_end; [|discriminate].
        cbn [forallb]. change (negb (is_ws 99)) with true. cbn [andb]. apply print_int_no_ws.
      * apply parse_label_col. lia.
Qed.

(* ---------- interning ---------- *)

Lemma zlist_eqb_neq : forall a b : list Z, a <> b -> zlist_eqb a b = false.
Proof.
  intros a b H. destruct (zlist_eqb a b) eqn:E; [|reflexivity].
  apply zlist_eqb_eq in E. contradiction.
Qed.

Lemma zlist_eqb_refl : forall a : list Z, zlist_eqb a a = true.
Proof. intros a. now apply zlist_eqb_eq. Qed.

Lemma name_index_firstn_known : forall names k w,
  NoDup names -> (w < k)%nat -> (w < length names)%nat ->
  name_index (firstn k names) (nth w names []) = Some w.
Proof.
  induction names as [|x r IH]; intros k w Hnd Hwk Hwl; cbn [length] in Hwl; [lia|].
  destruct k as [|k]; [lia|]. cbn [firstn name_index].
  inversion Hnd as [|x' r' Hx Hr]; subst.
  destruct w as [|w]; cbn [nth].
  - now rewrite zlist_eqb_refl.
  - rewrite zlist_eqb_neq.
    + rewrite IH by (assumption || lia). reflexivity.
    + intros E. apply Hx. rewrite <- E. apply nth_In. lia.
Qed.

Lemma name_index_firstn_new : forall names k,
  NoDup names -> (k < length names)%nat ->
  name_index (firstn k names) (nth k names []) = None.
Proof.
  induction names as [|x r IH]; intros k Hnd Hk; cbn [length] in Hk; [lia|].
  destruct k as [|k]; [reflexivity|]. cbn [firstn name_index nth].
  inversion Hnd as [|x' r' Hx Hr]; subst.
  rewrite zlist_eqb_neq.
  - rewrite IH by (assumption || lia). reflexivity.
  - intros E. apply Hx. rewrite <- E. apply nth_In. lia.
Qed.

Lemma firstn_snoc_nth : forall (names : list (list Z)) k,
  (k < length names)%nat -> firstn k names ++ [nth k names []] = firstn (S k) names.
Proof.
  induction names as [|x r IH]; intros k Hk; cbn [length] in Hk; [lia|].
  destruct k as [|k]; [reflexivity|].
  change (firstn (S k) (x :: r)) with (x :: firstn k r).
  change (firstn (S (S k)) (x :: r)) with (x :: firstn (S k) r).
  cbn [app nth]. f_equal. apply IH. lia.
Qed.

Lemma intern_see : forall names k w k1,
  NoDup names -> see k w = Some k1 -> (k1 <= length names)%nat ->
  intern (firstn k names) (nth w names []) = (firstn k1 names, w).
Proof.
  intros names k w k1 Hnd Hsee Hk1. unfold intern.
  apply see_spec in Hsee. destruct Hsee as [[Hw ->]|[-> ->]].
  - rewrite name_index_firstn_known by (assumption || lia). reflexivity.
  - rewrite name_index_firstn_new by (assumption || lia).
    rewrite firstn_snoc_nth by lia. rewrite firstn_length_le by lia. reflexivity.
Qed.

(* ---------- one line ---------- *)

Lemma parse_edges_cons : forall names l rest tu tv more n1 iu n2 iv e,
  tokens l = tu :: tv :: more ->
  intern names tu = (n1, iu) -> intern n1 tv = (n2, iv) ->
  (match more with [] => Some 0 | lab :: _ => parse_label lab end) = Some e ->
  parse_edges names (l :: rest) =
  match parse_edges n2 rest with Some (nf, es) => Some (nf, (iu, iv, e) :: es) | None => None end.
Proof.
  intros names l rest tu tv more n1 iu n2 iv e Ht H1 H2 Hl.
  cbn [parse_edges]. rewrite Ht, H1, H2, Hl. reflexivity.
Qed.

Lemma parse_print_gen : forall names, names_ok names ->
  forall es k k',
  seen_after k es = Some k' -> (k' <= length names)%nat ->
  (forall u v e, In (u, v, e) es -> Z.abs e < 10 ^ 80) ->
  parse_edges (firstn k names) (lines (print_edgelist names es)) = Some (firstn k' names, es).
Proof.
  intros names [Hok Hnd]. induction es as [|[[u v] e] es IH]; intros k k' Hseen Hk' Hb.
  - cbn [seen_after] in Hseen. inversion Hseen; subst. reflexivity.
  - cbn [seen_after] in Hseen.
    destruct (see k u) as [k1|] eqn:E1; [|discriminate].
    destruct (see k1 v) as [k2|] eqn:E2; [|discriminate].
    pose proof (see_mono _ _ _ E1) as [Hu Hkk1].
    pose proof (see_mono _ _ _ E2) as [Hv Hk1k2].
    pose proof (seen_after_mono _ _ _ Hseen) as Hk2k'.
    assert (Hnu : name_ok (nth u names [])) by (apply Hok, nth_In; lia).
    assert (Hnv : name_ok (nth v names [])) by (apply Hok, nth_In; lia).
    assert (He : Z.abs e < 10 ^ 80) by (apply (Hb u v e); now left).
    set (nu := nth u names []) in *. set (nv := nth v names []) in *.
    assert (Eline : print_edgelist names ((u, v, e) :: es)
                    = (nu ++ 32 :: nv ++ print_label e) ++ 10 :: print_edgelist names es).
    { unfold print_edgelist. cbn [flat_map print_edge]. fold nu nv.
      rewrite <- !app_assoc. cbn [app]. rewrite <- !app_assoc. reflexivity. }
    rewrite Eline. rewrite lines_line.
    + destruct (tokens_name_label nv e Hnv He) as [more [Htok Hlab]].
      destruct Hnu as [Hnune Hnuws].
      rewrite (parse_edges_cons (firstn k names) _ _ nu nv more (firstn k1 names) u (firstn k2 names) v e).
      * rewrite (IH k2 k' Hseen Hk'); [reflexivity|].
        intros u0 v0 e0 Hin. apply (Hb u0 v0 e0). now right.
      * rewrite tokens_word by (assumption || reflexivity). now rewrite Htok.
      * apply intern_see; [assumption | assumption | lia].
      * apply intern_see; [assumption | assumption | lia].
      * exact Hlab.
    + apply no_nl_app; [apply no_ws_no_nl, Hnu|].
      apply no_nl_cons; [lia|].
      apply no_nl_app; [apply no_ws_no_nl, Hnv | apply print_label_no_nl].
Qed.

Theorem parse_print_edgelist : forall names es,
  names_ok names -> seen_after 0 es = Some (length names) ->
  (forall u v e, In (u, v, e) es -> Z.abs e < 10 ^ 80) ->
  parse_edges [] (lines (print_edgelist names es)) = Some (names, es).
Proof.
  intros names es Hok Hseen Hb.
  pose proof (parse_print_gen names Hok es 0%nat (length names) Hseen (le_n _) Hb) as H.
  rewrite firstn_all in H. exact H.
Qed.

(* ---------- non-vacuity ---------- *)

Definition ex_names : list (list Z) := [[110; 49]; [110; 50]; [120]].                 (* n1 n2 x *)
Definition ex_edges : list (nat * nat * Z) :=
  [(0%nat, 1%nat, -3); (1%nat, 1%nat, 12); (1%nat, 2%nat, 5); (2%nat, 0%nat, 0)].
(* "n1 n2 r3\nn2 n2 c12\nn2 x c5\nx n1\n" *)

Example ex_text : print_edgelist ex_names ex_edges =
  [110; 49; 32; 110; 50; 32; 114; 51; 10;
   110; 50; 32; 110; 50; 32; 99; 49; 50; 10;
   110; 50; 32; 120; 32; 99; 53; 10;
   120; 32; 110; 49; 10].
Proof. vm_compute. reflexivity. Qed.

Example ex_hyps :
  names_ok ex_names /\
  seen_after 0 ex_edges = Some (length ex_names) /\
  (forall u v e, In (u, v, e) ex_edges -> Z.abs e < 10 ^ 80).
Proof.
  split; [apply names_okb_ok; vm_compute; reflexivity|].
  split; [vm_compute; reflexivity|].
  intros u v e Hin. unfold ex_edges in Hin. cbn [In] in Hin.
  destruct Hin as [H|[H|[H|[H|[]]]]]; inversion H; subst; vm_compute; reflexivity.
Qed.

Example ex_roundtrip :
  parse_edges [] (lines (print_edgelist ex_names ex_edges)) = Some (ex_names, ex_edges).
Proof. vm_compute. reflexivity. Qed.

(* the same by the theorem *)
Example ex_roundtrip_thm :
  parse_edges [] (lines (print_edgelist ex_names ex_edges)) = Some (ex_names, ex_edges).
Proof. destruct ex_hyps as [H1 [H2 H3]]. now apply parse_print_edgelist. Qed.

Print Assumptions judge_edgelist_sound.
Print Assumptions parse_print_edgelist.
Print Assumptions parse_edges_nodes_lt.
Print Assumptions parse_edges_stops_at_short_line.
