(* BalClosure.v -- balancedness (SpModel.balanced_bf) is invariant under adding / removing a ternary
   series-parallel-reducible line (kind 4 of RelModel.judge_rel, V_BAL position).
   "=>" is heredity.  "<=": a bad cycle (square submatrix with two nonzeros per line and entry sum 2 mod 4) of the
   larger matrix that uses the reducible row k cannot exist if row k is a zero or unit row; if row k = s * row k0 then
   either the cycle avoids k0 and row k can be re-pointed to k0 (the entry sum changes by a multiple of 4), or it
   uses both, and then the two rows and the two columns carrying their nonzeros split off as a 2x2 block of entry
   sum 0 mod 4, leaving a smaller bad cycle.  Columns: by transposition. *)
From Coq Require Import Arith PeanoNat Permutation.
From Cmr Require Import Base Det BaseProofs SpModel RelModel SpProofs SpProofs2 BalancedProofs RelProofs.
From Cmr Require SpTU RegClosure.
Local Open Scope Z_scope.

(* ------------------------------------------------------------------------------------------ *)
(* 0. lists                                                                                   *)
(* ------------------------------------------------------------------------------------------ *)

Lemma perm_filter_split : forall (A : Type) (p : A -> bool) l,
  Permutation l (filter p l ++ filter (fun x => negb (p x)) l).
Proof.
  intros A p. induction l as [|x l IH]; cbn [filter]; [constructor|].
  destruct (p x); cbn [negb app].
  - constructor. exact IH.
  - apply Permutation_cons_app. exact IH.
Qed.

Lemma count_nz_map_filter : forall (A : Type) (h : A -> Z) l,
  count_nz (map h l) = length (filter (fun c => negb (h c =? 0)) l).
Proof.
  intros A h. induction l as [|x l IH]; cbn [map filter]; [reflexivity|].
  rewrite count_nz_cons. destruct (h x =? 0); cbn [negb length]; rewrite IH; reflexivity.
Qed.

(* a vector with exactly two nonzeros: the two positions, and the rest *)
Lemma count2_split : forall (h : nat -> Z) cs, count_nz (map h cs) = 2%nat ->
  exists c1 c2 cs2, Permutation cs (c1 :: c2 :: cs2) /\ h c1 <> 0 /\ h c2 <> 0 /\
                    (forall c, In c cs2 -> h c = 0).
Proof.
  intros h cs H. rewrite count_nz_map_filter in H.
  pose proof (perm_filter_split nat (fun c => negb (h c =? 0)) cs) as P.
  assert (F : forall c, In c (filter (fun c => negb (h c =? 0)) cs) -> h c <> 0).
  { intros c Hc. apply filter_In in Hc. destruct Hc as [_ Hc]. apply negb_true_iff in Hc.
    apply Z.eqb_neq. exact Hc. }
  destruct (filter (fun c => negb (h c =? 0)) cs) as [|c1 [|c2 [|c3 l]]]; cbn [length] in H;
    try discriminate H.
  exists c1, c2, (filter (fun x => negb (negb (h x =? 0))) cs). split; [exact P|].
  split; [apply F; left; reflexivity|]. split; [apply F; right; left; reflexivity|].
  intros c Hc. apply filter_In in Hc. destruct Hc as [_ Hc]. rewrite negb_involutive in Hc.
  apply Z.eqb_eq. exact Hc.
Qed.

Lemma In_perm_head : forall (x : nat) l, In x l -> exists l1, Permutation l (x :: l1).
Proof.
  intros x l H. apply in_split in H. destruct H as [l1 [l2 ->]]. exists (l1 ++ l2).
  apply Permutation_sym, Permutation_middle.
Qed.

Lemma sumZ_map_zero_in : forall (g : nat -> Z) l, (forall x, In x l -> g x = 0) -> sumZ (map g l) = 0.
Proof.
  intros g. induction l as [|x l IH]; intros H; cbn [map]; [reflexivity|].
  rewrite sumZ_cons, (H x (or_introl eq_refl)), IH; [reflexivity|].
  intros y Hy. apply H. right. exact Hy.
Qed.

Lemma count_nz_cons_nz : forall x v, x <> 0 -> count_nz (x :: v) = S (count_nz v).
Proof. intros x v N. rewrite count_nz_cons. destruct (Z.eqb_spec x 0); [contradiction | reflexivity]. Qed.

Lemma count_nz_cons_z : forall v, count_nz (0 :: v) = count_nz v.
Proof. intros v. rewrite count_nz_cons. reflexivity. Qed.

Lemma tern_nz : forall x, tern x -> x <> 0 -> x = 1 \/ x = -1.
Proof. intros x [E|[E|E]] N; auto. contradiction. Qed.

(* ------------------------------------------------------------------------------------------ *)
(* 1. bad cycles over an entry function: permutations, re-indexing                            *)
(* ------------------------------------------------------------------------------------------ *)

Lemma bcf_perm : forall f rs rs' cs cs', Permutation rs rs' -> Permutation cs cs' ->
  bcf f rs cs = bcf f rs' cs'.
Proof.
  intros f rs rs' cs cs' Hr Hc.
  assert (E1 : line2f f rs cs = line2f f rs' cs').
  { unfold line2f. f_equal.
    - rewrite (forallb_perm _ _ _ _ Hr). apply forallb_ext_in. intros a _. f_equal.
      apply count_nz_perm. apply Permutation_map. exact Hc.
    - rewrite (forallb_perm _ _ _ _ Hc). apply forallb_ext_in. intros c _. f_equal.
      apply count_nz_perm. apply Permutation_map. exact Hr. }
  assert (E2 : Sum f rs cs = Sum f rs' cs').
  { unfold Sum.
    transitivity (sumZ (map (fun a => sumZ (map (fun c => f a c) cs)) rs')).
    - apply sumZ_perm. apply Permutation_map. exact Hr.
    - f_equal. apply map_ext. intros a. apply sumZ_perm. apply Permutation_map. exact Hc. }
  unfold bcf. rewrite E1, E2. reflexivity.
Qed.

Lemma bcf_map_rows : forall f (phi : nat -> nat) rs cs,
  bcf f (map phi rs) cs = bcf (fun a c => f (phi a) c) rs cs.
Proof.
  intros f phi rs cs.
  assert (E1 : line2f f (map phi rs) cs = line2f (fun a c => f (phi a) c) rs cs).
  { unfold line2f. f_equal.
    - apply forallb_map'.
    - apply forallb_ext_in. intros c _. rewrite map_map. reflexivity. }
  assert (E2 : Sum f (map phi rs) cs = Sum (fun a c => f (phi a) c) rs cs).
  { unfold Sum. rewrite map_map. reflexivity. }
  unfold bcf. rewrite E1, E2. reflexivity.
Qed.

(* row k = s * row k0: listing k0 instead of k does not change bad_cycle *)
Lemma bcf_repoint : forall f k k0 s rs cs, (forall a c, tern (f a c)) -> (s = 1 \/ s = -1) ->
  (forall c, In c cs -> f k c = s * f k0 c) ->
  bcf f (map (fun a => if Nat.eqb a k then k0 else a) rs) cs = bcf f rs cs.
Proof.
  intros f k k0 s rs cs T Hs C. rewrite bcf_map_rows.
  rewrite <- (bcf_scale f (fun a => if Nat.eqb a k then s else 1) (fun _ => 1) rs cs); [| |auto|exact T].
  - apply bcf_ext. intros a c Ha Hc. destruct (Nat.eqb_spec a k) as [->|Ne].
    + rewrite (C c Hc). destruct Hs as [->| ->]; ring.
    + ring.
  - intros a. destruct (Nat.eqb a k); auto.
Qed.

Lemma Sum_drop_col : forall f rs c cs, (forall a, In a rs -> f a c = 0) -> Sum f rs (c :: cs) = Sum f rs cs.
Proof.
  intros f rs c cs Z0. unfold Sum. f_equal. apply map_ext_in. intros a Ha. cbn [map].
  rewrite sumZ_cons, (Z0 a Ha). reflexivity.
Qed.

(* rows k, k0 (proportional) and the two columns c1, c2 carrying their nonzeros form a 2x2 block that splits off *)
Lemma bcf_drop_block : forall f k k0 s c1 c2 rs2 cs2,
  (forall a c, tern (f a c)) -> (s = 1 \/ s = -1) ->
  (forall c, In c (c1 :: c2 :: cs2) -> f k c = s * f k0 c) ->
  f k0 c1 <> 0 -> f k0 c2 <> 0 -> (forall c, In c cs2 -> f k0 c = 0) ->
  bcf f (k :: k0 :: rs2) (c1 :: c2 :: cs2) = true -> bcf f rs2 cs2 = true.
Proof.
  intros f k k0 s c1 c2 rs2 cs2 T Hs C N1 N2 Z0 H.
  unfold bcf in H. apply andb_true_iff in H. destruct H as [L Sm].
  pose proof (line2f_rows _ _ _ L) as LR. pose proof (line2f_cols _ _ _ L) as LC.
  assert (K1 : f k c1 <> 0).
  { rewrite (C c1) by (left; reflexivity). destruct Hs as [->| ->]; lia. }
  assert (K2 : f k c2 <> 0).
  { rewrite (C c2) by (right; left; reflexivity). destruct Hs as [->| ->]; lia. }
  assert (ZK : forall c, In c cs2 -> f k c = 0).
  { intros c Hc. rewrite (C c) by (right; right; exact Hc). rewrite (Z0 c Hc). ring. }
  assert (Z1 : forall a, In a rs2 -> f a c1 = 0).
  { pose proof (LC c1 (or_introl eq_refl)) as X. cbn [map] in X.
    rewrite (count_nz_cons_nz _ _ K1), (count_nz_cons_nz _ _ N1) in X.
    apply (proj1 (count_nz_zero nat (fun a => f a c1) rs2)). lia. }
  assert (Z2 : forall a, In a rs2 -> f a c2 = 0).
  { pose proof (LC c2 (or_intror (or_introl eq_refl))) as X. cbn [map] in X.
    rewrite (count_nz_cons_nz _ _ K2), (count_nz_cons_nz _ _ N2) in X.
    apply (proj1 (count_nz_zero nat (fun a => f a c2) rs2)). lia. }
  unfold bcf. apply andb_true_iff. split.
  - unfold line2f. apply andb_true_iff. split; apply forallb_forall.
    + intros a Ha. apply Nat.eqb_eq.
      pose proof (LR a (or_intror (or_intror Ha))) as X. cbn [map] in X.
      rewrite (Z1 a Ha), (Z2 a Ha), !count_nz_cons_z in X. exact X.
    + intros c Hc. apply Nat.eqb_eq.
      pose proof (LC c (or_intror (or_intror Hc))) as X. cbn [map] in X.
      rewrite (ZK c Hc), (Z0 c Hc), !count_nz_cons_z in X. exact X.
  - rewrite !Sum_cons in Sm. cbn [map] in Sm. rewrite !sumZ_cons in Sm.
    rewrite (sumZ_map_zero_in (fun c => f k c) cs2 ZK), (sumZ_map_zero_in (fun c => f k0 c) cs2 Z0) in Sm.
    rewrite (Sum_drop_col f rs2 c1 (c2 :: cs2) Z1), (Sum_drop_col f rs2 c2 cs2 Z2) in Sm.
    rewrite (C c1), (C c2) in Sm by (cbn; auto).
    apply Z.eqb_eq in Sm. apply Z.eqb_eq.
    etransitivity; [|exact Sm]. apply eqm4_mod. unfold eqm4.
    destruct (tern_nz _ (T k0 c1) N1) as [E1|E1]; destruct (tern_nz _ (T k0 c2) N2) as [E2|E2];
      rewrite E1, E2; destruct Hs as [->| ->];
      first [exists 0; ring | exists 1; ring | exists (-1); ring].
Qed.

(* ------------------------------------------------------------------------------------------ *)
(* 2. a bad cycle through a row that is a signed copy of another row yields one avoiding it    *)
(* ------------------------------------------------------------------------------------------ *)

Lemma bcf_avoid_copy : forall f k k0 s rs cs,
  (forall a c, tern (f a c)) -> k0 <> k -> (s = 1 \/ s = -1) ->
  (forall c, In c cs -> f k c = s * f k0 c) ->
  NoDup rs -> NoDup cs -> length rs = length cs -> bcf f rs cs = true -> In k rs ->
  exists rs' cs', NoDup rs' /\ NoDup cs' /\ length rs' = length cs' /\
    (forall x, In x rs' -> x <> k /\ (In x rs \/ x = k0)) /\ (forall c, In c cs' -> In c cs) /\
    bcf f rs' cs' = true.
Proof.
  intros f k k0 s rs cs T Ne Hs C Dr Dc HL B Ik.
  destruct (in_dec Nat.eq_dec k0 rs) as [I0|N0].
  - (* the cycle uses both rows *)
    destruct (In_perm_head k rs Ik) as [rs1 P1].
    assert (I0' : In k0 rs1).
    { pose proof (Permutation_in _ P1 I0) as X. destruct X as [X|X]; [congruence | exact X]. }
    destruct (In_perm_head k0 rs1 I0') as [rs2 P2].
    assert (P : Permutation rs (k :: k0 :: rs2)).
    { eapply Permutation_trans; [exact P1 | constructor; exact P2]. }
    assert (L : line2f f rs cs = true) by (unfold bcf in B; apply andb_true_iff in B; tauto).
    pose proof (line2f_rows _ _ _ L k0 I0) as R0.
    destruct (count2_split (fun c => f k0 c) cs R0) as (c1 & c2 & cs2 & Pc & N1 & N2 & Z0).
    rewrite (bcf_perm f rs (k :: k0 :: rs2) cs (c1 :: c2 :: cs2) P Pc) in B.
    assert (C' : forall c, In c (c1 :: c2 :: cs2) -> f k c = s * f k0 c).
    { intros c Hc. apply C. apply (Permutation_in _ (Permutation_sym Pc) Hc). }
    pose proof (bcf_drop_block f k k0 s c1 c2 rs2 cs2 T Hs C' N1 N2 Z0 B) as B2.
    pose proof (Permutation_NoDup P Dr) as D1. pose proof (Permutation_NoDup Pc Dc) as D2.
    apply NoDup_cons_iff in D1. destruct D1 as [Hk D1]. apply NoDup_cons_iff in D1. destruct D1 as [Hk0 D1].
    apply NoDup_cons_iff in D2. destruct D2 as [Hc1 D2]. apply NoDup_cons_iff in D2. destruct D2 as [Hc2 D2].
    pose proof (Permutation_length P) as LP. pose proof (Permutation_length Pc) as LPc.
    cbn [length] in LP, LPc.
    exists rs2, cs2. split; [exact D1|]. split; [exact D2|]. split; [lia|]. split; [|split; [|exact B2]].
    + intros x Hx. split.
      * intros ->. apply Hk. right. exact Hx.
      * left. apply (Permutation_in _ (Permutation_sym P)). right. right. exact Hx.
    + intros c Hc. apply (Permutation_in _ (Permutation_sym Pc)). right. right. exact Hc.
  - (* the cycle avoids k0: list k0 instead of k *)
    exists (map (fun a => if Nat.eqb a k then k0 else a) rs), cs.
    split; [|split; [exact Dc|split; [rewrite map_length; exact HL|split; [|split]]]].
    + apply NoDup_map_in; [exact Dr|]. intros x y Hx Hy.
      destruct (Nat.eqb_spec x k) as [->|Nx]; destruct (Nat.eqb_spec y k) as [->|Ny]; intros E.
      * reflexivity.
      * exfalso. apply N0. rewrite E. exact Hy.
      * exfalso. apply N0. rewrite <- E. exact Hx.
      * exact E.
    + intros x Hx. apply in_map_iff in Hx. destruct Hx as [a [E Ha]].
      destruct (Nat.eqb_spec a k) as [Ea|Na]; subst x.
      * split; [exact Ne | right; reflexivity].
      * split; [exact Na | left; exact Ha].
    + intros c Hc. exact Hc.
    + rewrite (bcf_repoint f k k0 s rs cs T Hs C). exact B.
Qed.

(* ------------------------------------------------------------------------------------------ *)
(* 3. balancedness and adding one reducible line                                              *)
(* ------------------------------------------------------------------------------------------ *)

(* what balancedness of a submatrix says about the matrix itself *)
Lemma Balanced_submat_sub : forall M rp cp rs cs,
  Balanced (length rp) (length cp) (submat M rp cp) -> length rs = length cs ->
  (forall x, In x rs -> In x rp) -> (forall x, In x cs -> In x cp) ->
  nodupn rs = true -> nodupn cs = true -> bad_cycle (length rs) (submat M rs cs) = false.
Proof.
  intros M rp cp rs cs HB HL Ir' Ic' Dr Dc.
  pose proof (HB (map (fun x => index_of x rp) rs) (map (fun x => index_of x cp) cs)) as X.
  rewrite !map_length in X.
  assert (A1 : all_lt (length rp) (map (fun x => index_of x rp) rs) = true).
  { apply all_lt_spec. intros y Hy. apply in_map_iff in Hy. destruct Hy as [x [<- Hx]].
    apply index_of_lt. auto. }
  assert (A2 : all_lt (length cp) (map (fun x => index_of x cp) cs) = true).
  { apply all_lt_spec. intros y Hy. apply in_map_iff in Hy. destruct Hy as [x [<- Hx]].
    apply index_of_lt. auto. }
  rewrite (submat_submat M rp cp _ _ A1 A2) in X.
  rewrite (map_nth_index_of rp rs Ir'), (map_nth_index_of cp cs Ic') in X.
  apply X; auto.
  - apply BalancedProofs.nodupn_NoDup. apply NoDup_map_in; [apply BalancedProofs.nodupn_NoDup; exact Dr|].
    intros x y Hx Hy. apply index_of_inj; auto.
  - apply BalancedProofs.nodupn_NoDup. apply NoDup_map_in; [apply BalancedProofs.nodupn_NoDup; exact Dc|].
    intros x y Hx Hy. apply index_of_inj; auto.
Qed.

Lemma Balanced_add_row : forall m n M k, is_ternary M = true -> (k < m)%nat ->
  row_reducible true M (all_true m) (all_true n) k = true ->
  Balanced (m - 1) n (submat M (keep_line m k) (iota 0 n)) -> Balanced m n M.
Proof.
  intros m n M k HT Hk R HB rs cs HL Hr Hc Dr Dc.
  pose proof (length_keep_line m k Hk) as LK.
  assert (HB' : Balanced (length (keep_line m k)) (length (iota 0 n)) (submat M (keep_line m k) (iota 0 n))).
  { rewrite LK, length_iota. exact HB. }
  assert (Sub : forall rs' cs', length rs' = length cs' ->
            (forall x, In x rs' -> (x < m)%nat /\ x <> k) -> (forall c, In c cs' -> (c < n)%nat) ->
            NoDup rs' -> NoDup cs' -> bcf (get M) rs' cs' = false).
  { intros rs' cs' HL' A1 A2 D1 D2. rewrite <- (bad_cycle_bcf M rs' cs' HL').
    apply (Balanced_submat_sub M (keep_line m k) (iota 0 n) rs' cs' HB' HL').
    - intros x Hx. apply In_keep_line. apply A1, Hx.
    - intros c Hc'. apply in_iota. specialize (A2 c Hc'). lia.
    - apply BalancedProofs.nodupn_NoDup. exact D1.
    - apply BalancedProofs.nodupn_NoDup. exact D2. }
  rewrite (bad_cycle_bcf M rs cs HL).
  destruct (bcf (get M) rs cs) eqn:B; [exfalso | reflexivity].
  rewrite all_lt_spec in Hr, Hc.
  apply BalancedProofs.nodupn_NoDup in Dr. apply BalancedProofs.nodupn_NoDup in Dc.
  destruct (in_dec Nat.eq_dec k rs) as [Ik|Nk].
  2:{ rewrite (Sub rs cs HL) in B; [discriminate| |exact Hc|exact Dr|exact Dc].
      intros x Hx. split; [apply Hr, Hx | intros ->; contradiction]. }
  assert (L : line2f (get M) rs cs = true) by (unfold bcf in B; apply andb_true_iff in B; tauto).
  pose proof (line2f_rows _ _ _ L k Ik) as Rk.
  apply row_reducible_iff in R. destruct R as [U | (k0 & s & L0 & Ne & Ss & C)].
  - (* a zero or unit row has at most one nonzero *)
    assert (X : (count_nz (map (fun c => get M k c) cs) <= 1)%nat).
    { apply (count_nz_le1 nat (fun c => get M k c) cs Dc). intros x y Hx Hy Nx Ny.
      apply U; auto; apply live_all_true; apply Hc; assumption. }
    lia.
  - apply live_all_true in L0.
    assert (Hs : s = 1 \/ s = -1) by (destruct Ss as [E|[_ E]]; auto).
    assert (C' : forall c, In c cs -> get M k c = s * get M k0 c).
    { intros c Hc'. apply C. apply live_all_true. apply Hc, Hc'. }
    destruct (bcf_avoid_copy (get M) k k0 s rs cs (fun a c => get_ternary M a c HT) Ne Hs C' Dr Dc HL B Ik)
      as (rs' & cs' & D1 & D2 & HL' & A1 & A2 & B').
    rewrite (Sub rs' cs' HL') in B'; [discriminate| | |exact D1|exact D2].
    + intros x Hx. destruct (A1 x Hx) as [Nx [Ix| ->]]; split; auto.
    + intros c Hc'. apply Hc, A2, Hc'.
Qed.

Lemma is_ternary_transpose : forall m n M, is_ternary M = true -> is_ternary (transpose m n M) = true.
Proof.
  intros m n M H. unfold transpose, is_ternary, mat_forall, mk_mat.
  apply forallb_forall. intros r Hr. apply in_map_iff in Hr. destruct Hr as [i [E _]]. subst r.
  apply forallb_forall. intros x Hx. apply in_map_iff in Hx. destruct Hx as [j [E _]]. subst x.
  apply is_ternary_entry_iff. apply get_ternary. exact H.
Qed.

Theorem balanced_bf_add_line : forall m' n' M' (isr : bool) k,
  is_ternary M' = true ->
  (if isr then Nat.ltb k m' else Nat.ltb k n') = true ->
  line_reducible true m' n' M' isr k = true ->
  balanced_bf m' n' M' =
  if isr then balanced_bf (m' - 1) n' (submat M' (keep_line m' k) (iota 0 n'))
  else balanced_bf m' (n' - 1) (submat M' (iota 0 m') (keep_line n' k)).
Proof.
  assert (Row : forall m n M k, is_ternary M = true -> (k < m)%nat ->
            line_reducible true m n M true k = true ->
            balanced_bf m n M = balanced_bf (m - 1) n (submat M (keep_line m k) (iota 0 n))).
  { intros m n M k HT Hk R. apply bool_eq_iff. rewrite !balanced_bf_spec. split; intros HB.
    - pose proof (Balanced_submat m n M (keep_line m k) (iota 0 n) (nodupn_keep_line _ _) (nodupn_iota _)
                    (all_lt_keep_line _ _) (all_lt_iota _) HB) as X.
      rewrite (length_keep_line m k Hk), length_iota in X. exact X.
    - apply (Balanced_add_row m n M k); assumption. }
  intros m n M [|] k HT Hk R; apply Nat.ltb_lt in Hk.
  - apply Row; assumption.
  - rewrite <- (balanced_bf_transpose m n M).
    rewrite (Row n m (transpose m n M) k (is_ternary_transpose m n M HT) Hk).
    + rewrite (RegClosure.drop_col_transpose m n M k Hk). apply balanced_bf_transpose.
    + rewrite RegClosure.line_reducible_transpose by exact Hk. exact R.
Qed.

Print Assumptions balanced_bf_add_line.
