(* PivotModel.v — binary / ternary / regular pivots (src/cmr/matroid.c computePivots) and judge.
   No proofs here. *)
From Cmr Require Import Base Det.
Local Open Scope Z_scope.

(* linear_algebra_internal.h moduloTernary(p, q): canonical residue, with 2 -> -1 for |q| = 3 *)
Definition modulo_ternary (p q : Z) : Z :=
  if q =? 0 then p else
  let q' := Z.abs q in
  let r := Z.rem p q' in
  let r' := if r <? 0 then r + q' else r in
  if (r' =? 2) && (q' =? 3) then -1 else r'.

Definition modulo_nonneg (p q : Z) : Z :=
  if q =? 0 then p else
  let q' := Z.abs q in
  let r := Z.rem p q' in
  if r <? 0 then r + q' else r.

(* one pivot on entry (r,c), arithmetic over Z, NOT yet reduced *)
Definition pivot_raw (m n : nat) (M : mat) (r c : nat) : mat :=
  let pv := get M r c in
  mk_mat m n (fun i j =>
    if Nat.eqb i r then (if Nat.eqb j c then - pv else if pv =? -1 then - get M i j else get M i j)
    else if Nat.eqb j c then (if pv =? -1 then - get M i j else get M i j)
    else get M i j - pv * get M i c * get M r j).

Definition reduce (q : Z) (M : mat) : mat := map (map (fun x => modulo_ternary x q)) M.

Inductive pres :=
| POk (M : mat)
| PErr            (* CMR_ERROR_INPUT: zero pivot entry *)
| PViol (rs cs : list nat).   (* regular pivot: irregular submatrix *)

(* first entry (row-major) outside {-1,0,1} *)
Fixpoint find_bad_row (j : nat) (r : list Z) : option nat :=
  match r with
  | [] => None
  | x :: r' => if is_ternary_entry x then find_bad_row (S j) r' else Some j
  end.
Fixpoint find_bad (i : nat) (M : mat) : option (nat * nat) :=
  match M with
  | [] => None
  | r :: M' => match find_bad_row 0 r with Some j => Some (i, j) | None => find_bad (S i) M' end
  end.

(* characteristic q in {2, 3, -3}; -3 is the regular pivot *)
Definition pivot1 (q : Z) (m n : nat) (M : mat) (r c : nat) : option mat :=
  if modulo_nonneg (get M r c) q =? 0 then None
  else Some (pivot_raw m n M r c).

(* sequence of pivots: each pivot is applied to the reduced matrix of the previous one; for the
   regular pivot an entry leaving {-1,0,1} stops with the violator formed by the pivots so far plus
   the offending position *)
Fixpoint pivots (q : Z) (m n : nat) (M : mat) (rs cs : list nat) (doneR doneC : list nat) : pres :=
  match rs, cs with
  | r :: rs', c :: cs' =>
    match pivot1 q m n M r c with
    | None => PErr
    | Some R =>
      if q <? 0 then
        match find_bad 0 R with
        | Some (i, j) => PViol (doneR ++ [r; i]) (doneC ++ [c; j])
        | None => pivots q m n (reduce q R) rs' cs' (doneR ++ [r]) (doneC ++ [c])
        end
      else pivots q m n (reduce q R) rs' cs' (doneR ++ [r]) (doneC ++ [c])
    end
  | _, _ => POk M
  end.

Definition in_domain (q : Z) (M : mat) : bool := if q =? 2 then is_binary M else is_ternary M.

(* record: q M npiv rows cols | rc hasResult [csr] hasViol [submat] | rc1 hasResult1 [csr]
   second part: the same pivots applied one at a time through the single-pivot entry point *)
Definition dopt_csr : dec (option (nat * nat * mat)) :=
  h <- dbool ;; if h then (x <- dcsr_dense ;; dret (Some x)) else dret None.
Definition dopt_sub : dec (option (list nat * list nat)) :=
  h <- dbool ;; if h then (rs <- dlist dnat ;; cs <- dlist dnat ;; dret (Some (rs, cs))) else dret None.

Definition same_shape_eq (m n : nat) (M : mat) (o : option (nat * nat * mat)) : bool :=
  match o with Some (m', n', R) => Nat.eqb m m' && Nat.eqb n n' && mat_eqb R M | None => false end.

Definition judge_pivot (rec : list Z) : Z :=
  match (q <- dZ ;; x <- dmat ;; rs <- dlist dnat ;; cs <- dlist dnat ;;
         rc <- dZ ;; res <- dopt_csr ;; viol <- dopt_sub ;;
         rc1 <- dZ ;; res1 <- dopt_csr ;; viol1 <- dopt_sub ;;
         dend (q, x, rs, cs, rc, res, viol, rc1, res1, viol1)) rec with
  | Some ((q, (m, n, M), rs, cs, rc, res, viol, rc1, res1, viol1), _) =>
    if negb (((q =? 2) || (q =? 3) || (q =? -3)) && in_domain q M && wf_mat m n M &&
             Nat.eqb (length rs) (length cs) && all_lt m rs && all_lt n cs && nodupn rs && nodupn cs) then 0
    else
      match pivots q m n M rs cs [] [] with
      | PErr => if (rc =? 1) && (rc1 =? 1) then 0 else 40
      | POk R =>
        if negb (rc =? 0) then 41
        else if negb (same_shape_eq m n (reduce q R) res) then 42
        else if negb (rc1 =? 0) then 43
        else if negb (same_shape_eq m n (reduce q R) res1) then 44
        else match viol, viol1 with None, None => 0 | _, _ => 45 end
      | PViol vr vc =>
        (* the property asks for: no matrix, and a submatrix with |det| >= 2 *)
        if negb (rc =? 0) then 46
        else match res, viol with
             | None, Some (ar, ac) => if check_violator m n M ar ac then 0 else 47
             | _, _ => 48
             end
      end
  | None => 1
  end.
