(* CamionCertComplete.v — completeness of the sign propagation of CamionCertModel.is_scaling_of, and its combination with
   Camion's uniqueness theorem (CamionUnique.v): for a totally unimodular N, the matrices with N's support accepted by
   is_scaling_of are exactly the totally unimodular ones; hence judge_camion_cert raises no false alarm.
   Invariant of solve_signs: there are flips e (rows), e' (columns) with values +-1, equal along every nonzero entry of N,
   such that every determined row sign is e i * (witness sign) and every determined column sign is e' j * (witness sign).
   A seed is placed only when a propagation pass made no progress; then no nonzero entry joins a determined and an
   undetermined line, and flipping e, e' on all undetermined lines simultaneously makes the seed agree. *)
From Coq Require Import List ZArith Bool Lia.
From Cmr Require Import Base Det BaseProofs TuModel GraphModel SpModel TuNetModel CamionModel RelModel CamionCertModel
  CamionCertProofs.
From Cmr Require TuClosure TuNetProofs CamionUnique.
Local Open Scope Z_scope.

(* ------------------------------------------------------------------------------------------ *)
(* 1. set_nth, counting nonzeros, first_zero                                                    *)
(* ------------------------------------------------------------------------------------------ *)

Fixpoint upd (l : list Z) (k : nat) (x : Z) : list Z :=
  match l, k with
  | [], _ => []
  | _ :: r, O => x :: r
  | a :: r, S k' => a :: upd r k' x
  end.

Lemma set_aux_id : forall l s k x, (k < s)%nat ->
  map (fun p : nat * Z => if Nat.eqb (fst p) k then x else snd p) (combine (iota s (length l)) l) = l.
Proof.
  induction l as [|a l IH]; intros s k x H; simpl; [reflexivity|].
  destruct (Nat.eqb s k) eqn:E; [apply Nat.eqb_eq in E; lia|].
  f_equal. apply IH. lia.
Qed.

Lemma set_aux_upd : forall l s k x, (s <= k)%nat ->
  map (fun p : nat * Z => if Nat.eqb (fst p) k then x else snd p) (combine (iota s (length l)) l) = upd l (k - s) x.
Proof.
  induction l as [|a l IH]; intros s k x H; simpl; [reflexivity|].
  destruct (Nat.eqb s k) eqn:E.
  - apply Nat.eqb_eq in E. subst k. rewrite Nat.sub_diag. f_equal. apply set_aux_id. lia.
  - apply Nat.eqb_neq in E. destruct (k - s)%nat as [|d] eqn:D; [lia|].
    f_equal. rewrite IH by lia. f_equal. lia.
Qed.

Lemma set_nth_upd : forall l k x, set_nth l k x = upd l k x.
Proof. intros l k x. unfold set_nth. rewrite set_aux_upd by lia. f_equal. lia. Qed.

Lemma length_upd : forall l k x, length (upd l k x) = length l.
Proof. induction l as [|a l IH]; intros [|k] x; simpl; auto. Qed.

Lemma nthZ_upd_same : forall l k x, (k < length l)%nat -> nthZ (upd l k x) k = x.
Proof. induction l as [|a l IH]; intros [|k] x H; simpl in *; try lia; auto. apply IH. lia. Qed.

Lemma nthZ_upd_other : forall l k x k', k' <> k -> nthZ (upd l k x) k' = nthZ l k'.
Proof.
  induction l as [|a l IH]; intros [|k] x [|k'] H; simpl; auto; try congruence.
Qed.

Definition nzc (l : list Z) : nat := length (filter (fun x => negb (x =? 0)) l).

Lemma count_known_nzc : forall st, count_known st = (nzc (fst st) + nzc (snd st))%nat.
Proof. reflexivity. Qed.

Lemma nzc_cons : forall a l, nzc (a :: l) = ((if (a =? 0)%Z then 0 else 1) + nzc l)%nat.
Proof. intros a l. unfold nzc. simpl. destruct (a =? 0); reflexivity. Qed.

Lemma nzc_le : forall l, (nzc l <= length l)%nat.
Proof. induction l as [|a l IH]; [apply Nat.le_refl|]. rewrite nzc_cons. simpl. destruct (a =? 0); lia. Qed.

Lemma nzc_upd : forall l k x, (k < length l)%nat -> nthZ l k = 0 -> x <> 0 -> nzc (upd l k x) = S (nzc l).
Proof.
  induction l as [|a l IH]; intros [|k] x H H0 Hx; simpl in *; try lia.
  - subst a. rewrite !nzc_cons. apply Z.eqb_neq in Hx. rewrite Hx. reflexivity.
  - rewrite !nzc_cons. rewrite IH by (auto; lia). lia.
Qed.

Lemma nzc_mono : forall l l', length l = length l' ->
  (forall k, nthZ l k <> 0 -> nthZ l' k <> 0) -> (nzc l <= nzc l')%nat.
Proof.
  induction l as [|a l IH]; intros [|b l'] HL H; simpl in HL; try discriminate; [apply Nat.le_refl|].
  rewrite !nzc_cons.
  assert (nzc l <= nzc l')%nat by (apply IH; [lia | intros k; apply (H (S k))]).
  destruct (a =? 0) eqn:Ea; destruct (b =? 0) eqn:Eb; try lia.
  apply Z.eqb_neq in Ea. apply Z.eqb_eq in Eb. exfalso. apply (H 0%nat); assumption.
Qed.

Lemma nzc_strict : forall l l' k0, length l = length l' ->
  (forall k, nthZ l k <> 0 -> nthZ l' k <> 0) -> nthZ l k0 = 0 -> nthZ l' k0 <> 0 -> (nzc l < nzc l')%nat.
Proof.
  induction l as [|a l IH]; intros [|b l'] k0 HL H H0 H1; simpl in HL; try discriminate.
  - destruct k0; simpl in H1; congruence.
  - rewrite !nzc_cons. destruct k0 as [|k0]; simpl in H0, H1.
    + subst a. apply Z.eqb_neq in H1. rewrite H1. simpl.
      assert (nzc l <= nzc l')%nat by (apply nzc_mono; [lia | intros k; apply (H (S k))]). lia.
    + assert (nzc l < nzc l')%nat by (apply (IH l' k0); [lia | intros k; apply (H (S k)) | assumption | assumption]).
      destruct (a =? 0) eqn:Ea; destruct (b =? 0) eqn:Eb; try lia.
      apply Z.eqb_neq in Ea. apply Z.eqb_eq in Eb. exfalso. apply (H 0%nat); assumption.
Qed.

Lemma first_zero_some : forall l s i, first_zero l s = Some i ->
  (s <= i)%nat /\ (i - s < length l)%nat /\ nthZ l (i - s) = 0.
Proof.
  induction l as [|a l IH]; intros s i H; simpl in H; [discriminate|].
  destruct (a =? 0) eqn:Ea.
  - inversion H; subst. rewrite Nat.sub_diag. simpl. apply Z.eqb_eq in Ea. repeat split; try lia; assumption.
  - apply IH in H. destruct H as [H1 [H2 H3]]. replace (i - s)%nat with (S (i - S s)) by lia.
    simpl. repeat split; try lia; assumption.
Qed.

Lemma first_zero_none : forall l s, first_zero l s = None -> forall k, (k < length l)%nat -> nthZ l k <> 0.
Proof.
  induction l as [|a l IH]; intros s H k Hk; simpl in *; [lia|].
  destruct (a =? 0) eqn:Ea; [discriminate|]. destruct k; simpl.
  - apply Z.eqb_neq. exact Ea.
  - apply (IH (S s)); [assumption | lia].
Qed.

Lemma forallb_nthZ : forall (p : Z -> bool) l,
  (forall k, (k < length l)%nat -> p (nthZ l k) = true) -> forallb p l = true.
Proof.
  induction l as [|a l IH]; intros H; simpl; [reflexivity|]. apply andb_true_iff. split.
  - apply (H 0%nat). simpl. lia.
  - apply IH. intros k Hk. apply (H (S k)). simpl. lia.
Qed.

Lemma in_all_pairs : forall m n i j, In (i, j) (all_pairs m n) -> (i < m)%nat /\ (j < n)%nat.
Proof.
  intros m n i j H. unfold all_pairs in H. apply in_flat_map in H. destruct H as [i' [Hi H]].
  apply in_map_iff in H. destruct H as [j' [E Hj]]. inversion E; subst.
  apply in_iota in Hi. apply in_iota in Hj. lia.
Qed.

Lemma nthZ_repeat0 : forall k i, nthZ (repeat 0 k) i = 0.
Proof. induction k; intros [|i]; simpl; auto. Qed.

(* ------------------------------------------------------------------------------------------ *)
(* 2. +-1 arithmetic                                                                            *)
(* ------------------------------------------------------------------------------------------ *)

Definition pm1 (z : Z) : Prop := z = 1 \/ z = -1.

Lemma pm1_mul : forall a b, pm1 a -> pm1 b -> pm1 (a * b).
Proof. intros a b [->| ->] [->| ->]; unfold pm1; lia. Qed.

Lemma pm1_nz : forall a, pm1 a -> a <> 0.
Proof. intros a [->| ->]; lia. Qed.

Lemma pm1_sq : forall a, pm1 a -> a * a = 1.
Proof. intros a [->| ->]; lia. Qed.

Lemma pm1_is : forall a, pm1 a -> is_pm1' a = true.
Proof. intros a [->| ->]; reflexivity. Qed.

Lemma is_pm1 : forall a, is_pm1' a = true -> pm1 a.
Proof. intros a H. unfold is_pm1' in H. apply orb_true_iff in H. rewrite !Z.eqb_eq in H. exact H. Qed.

Lemma prop_arith : forall a b e, pm1 a -> a * b * (e * a) = e * b.
Proof. intros a b e [->| ->]; ring. Qed.

Lemma prop_arith' : forall a b e, pm1 b -> a * b * (e * b) = e * a.
Proof. intros a b e [->| ->]; ring. Qed.

(* ------------------------------------------------------------------------------------------ *)
(* 3. the invariant                                                                             *)
(* ------------------------------------------------------------------------------------------ *)

Section Propagation.
Variables (m n : nat) (N M : mat) (rs cs : list Z).
Hypothesis Hrs : forall i, (i < m)%nat -> pm1 (nthZ rs i).
Hypothesis Hcs : forall j, (j < n)%nat -> pm1 (nthZ cs j).
Hypothesis Hq : forall i j, (i < m)%nat -> (j < n)%nat -> get N i j <> 0 ->
  get M i j * get N i j = nthZ rs i * nthZ cs j.

Definition Inv (e e' : nat -> Z) (st : list Z * list Z) : Prop :=
  length (fst st) = m /\ length (snd st) = n /\
  (forall i, pm1 (e i)) /\ (forall j, pm1 (e' j)) /\
  (forall i, (i < m)%nat -> nthZ (fst st) i = 0 \/ nthZ (fst st) i = e i * nthZ rs i) /\
  (forall j, (j < n)%nat -> nthZ (snd st) j = 0 \/ nthZ (snd st) j = e' j * nthZ cs j) /\
  (forall i j, (i < m)%nat -> (j < n)%nat -> get N i j <> 0 -> e i = e' j).

(* lengths stay, determined lines stay determined *)
Definition Mono (st st' : list Z * list Z) : Prop :=
  length (fst st') = length (fst st) /\ length (snd st') = length (snd st) /\
  (forall k, nthZ (fst st) k <> 0 -> nthZ (fst st') k <> 0) /\
  (forall k, nthZ (snd st) k <> 0 -> nthZ (snd st') k <> 0).

Lemma Mono_refl : forall st, Mono st st.
Proof. intros st. repeat split; auto. Qed.

Lemma Mono_trans : forall a b c, Mono a b -> Mono b c -> Mono a c.
Proof.
  intros a b c [A1 [A2 [A3 A4]]] [B1 [B2 [B3 B4]]]. repeat split; try congruence; auto.
Qed.

Lemma Mono_count : forall st st', Mono st st' -> (count_known st <= count_known st')%nat.
Proof.
  intros st st' [A1 [A2 [A3 A4]]]. rewrite !count_known_nzc.
  pose proof (nzc_mono (fst st) (fst st') (eq_sym A1) A3). pose proof (nzc_mono (snd st) (snd st') (eq_sym A2) A4). lia.
Qed.

Lemma Mono_no_progress : forall st st', Mono st st' -> (count_known st' <= count_known st)%nat ->
  (forall k, nthZ (fst st) k = 0 -> nthZ (fst st') k = 0) /\ (forall k, nthZ (snd st) k = 0 -> nthZ (snd st') k = 0).
Proof.
  intros st st' [A1 [A2 [A3 A4]]] Hc. rewrite !count_known_nzc in Hc.
  pose proof (nzc_mono (fst st) (fst st') (eq_sym A1) A3) as L1.
  pose proof (nzc_mono (snd st) (snd st') (eq_sym A2) A4) as L2.
  split; intros k H0.
  - destruct (Z.eq_dec (nthZ (fst st') k) 0) as [E|E]; [exact E|].
    pose proof (nzc_strict (fst st) (fst st') k (eq_sym A1) A3 H0 E). lia.
  - destruct (Z.eq_dec (nthZ (snd st') k) 0) as [E|E]; [exact E|].
    pose proof (nzc_strict (snd st) (snd st') k (eq_sym A2) A4 H0 E). lia.
Qed.

Lemma q_nz : forall i j, (i < m)%nat -> (j < n)%nat -> get N i j <> 0 -> get M i j * get N i j <> 0.
Proof. intros i j Hi Hj H. rewrite Hq by assumption. apply pm1_nz. apply pm1_mul; auto. Qed.

(* one entry: invariant kept, monotone, and afterwards both ends of the entry have the same status *)
Lemma prop_entry_spec : forall e e' st i j, Inv e e' st -> (i < m)%nat -> (j < n)%nat ->
  let st' := prop_entry N M st (i, j) in
  Inv e e' st' /\ Mono st st' /\
  (get N i j <> 0 -> (nthZ (fst st') i = 0 <-> nthZ (snd st') j = 0)).
Proof.
  intros e e' [r c] i j HI Hi Hj. pose proof HI as [L1 [L2 [E1 [E2 [A1 [A2 Bq]]]]]].
  simpl in L1, L2, A1, A2. cbn zeta. unfold prop_entry.
  destruct (get N i j =? 0) eqn:E0.
  { split; [exact HI|]. split; [apply Mono_refl|]. intros H. apply Z.eqb_eq in E0. contradiction. }
  apply Z.eqb_neq in E0.
  destruct (nthZ r i =? 0) eqn:Er; destruct (nthZ c j =? 0) eqn:Ec; cbn [negb andb].
  - split; [exact HI|]. split; [apply Mono_refl|]. intros _. simpl. apply Z.eqb_eq in Er, Ec. tauto.
  - (* row undetermined, column determined *)
    apply Z.eqb_eq in Er. apply Z.eqb_neq in Ec. rewrite set_nth_upd.
    assert (Hv : get M i j * get N i j * nthZ c j = e i * nthZ rs i).
    { destruct (A2 j Hj) as [Z0|Z1]; [contradiction|]. rewrite Z1. rewrite Hq by assumption.
      rewrite (Bq i j Hi Hj E0). apply prop_arith'. auto. }
    assert (Hnz : get M i j * get N i j * nthZ c j <> 0).
    { rewrite Hv. apply pm1_nz. apply pm1_mul; auto. }
    split; [|split].
    + unfold Inv. simpl. rewrite length_upd. repeat split; auto.
      intros i' Hi'. destruct (Nat.eq_dec i' i) as [->|Ne].
      * right. rewrite nthZ_upd_same by lia. exact Hv.
      * rewrite nthZ_upd_other by assumption. auto.
    + unfold Mono. simpl. rewrite length_upd. repeat split; auto.
      intros k Hk. destruct (Nat.eq_dec k i) as [->|Ne]; [contradiction|].
      rewrite nthZ_upd_other by assumption. exact Hk.
    + intros _. simpl. rewrite nthZ_upd_same by lia. tauto.
  - (* row determined, column undetermined *)
    apply Z.eqb_neq in Er. apply Z.eqb_eq in Ec. rewrite set_nth_upd.
    assert (Hv : get M i j * get N i j * nthZ r i = e' j * nthZ cs j).
    { destruct (A1 i Hi) as [Z0|Z1]; [contradiction|]. rewrite Z1. rewrite Hq by assumption.
      rewrite <- (Bq i j Hi Hj E0). apply prop_arith. auto. }
    assert (Hnz : get M i j * get N i j * nthZ r i <> 0).
    { rewrite Hv. apply pm1_nz. apply pm1_mul; auto. }
    split; [|split].
    + unfold Inv. simpl. rewrite length_upd. repeat split; auto.
      intros j' Hj'. destruct (Nat.eq_dec j' j) as [->|Ne].
      * right. rewrite nthZ_upd_same by lia. exact Hv.
      * rewrite nthZ_upd_other by assumption. auto.
    + unfold Mono. simpl. rewrite length_upd. repeat split; auto.
      intros k Hk. destruct (Nat.eq_dec k j) as [->|Ne]; [contradiction|].
      rewrite nthZ_upd_other by assumption. exact Hk.
    + intros _. simpl. rewrite nthZ_upd_same by lia. tauto.
  - split; [exact HI|]. split; [apply Mono_refl|]. intros _. simpl. apply Z.eqb_neq in Er, Ec. tauto.
Qed.

(* a whole pass *)
Lemma fold_spec : forall e e' l st, Inv e e' st ->
  (forall i j, In (i, j) l -> (i < m)%nat /\ (j < n)%nat) ->
  let st' := fold_left (prop_entry N M) l st in
  Inv e e' st' /\ Mono st st' /\
  (forall i j, In (i, j) l -> get N i j <> 0 ->
     (nthZ (fst st) i = 0 /\ nthZ (snd st) j = 0) \/ (nthZ (fst st') i <> 0 /\ nthZ (snd st') j <> 0)).
Proof.
  intros e e'. induction l as [|[i0 j0] l IH]; intros st HI Hl; cbn zeta; simpl.
  - split; [exact HI|]. split; [apply Mono_refl|]. intros i j [].
  - destruct (Hl i0 j0 (or_introl eq_refl)) as [Hi0 Hj0].
    destruct (prop_entry_spec e e' st i0 j0 HI Hi0 Hj0) as [HI1 [HM1 HS1]].
    set (st1 := prop_entry N M st (i0, j0)) in *.
    destruct (IH st1 HI1 (fun i j H => Hl i j (or_intror H))) as [HI2 [HM2 HS2]].
    split; [exact HI2|]. split; [exact (Mono_trans _ _ _ HM1 HM2)|].
    destruct HM1 as [_ [_ [P1 P2]]]. destruct HM2 as [_ [_ [Q1 Q2]]].
    assert (back : forall i j, nthZ (fst st1) i = 0 /\ nthZ (snd st1) j = 0 -> nthZ (fst st) i = 0 /\ nthZ (snd st) j = 0).
    { intros i j [Z1 Z2]. split.
      - destruct (Z.eq_dec (nthZ (fst st) i) 0) as [E|E]; [exact E|]. apply P1 in E. contradiction.
      - destruct (Z.eq_dec (nthZ (snd st) j) 0) as [E|E]; [exact E|]. apply P2 in E. contradiction. }
    intros i j [E|Hin] Hnz.
    + inversion E; subst i0 j0. specialize (HS1 Hnz).
      destruct (Z.eq_dec (nthZ (fst st1) i) 0) as [Z1|Z1].
      * left. apply back. split; [exact Z1 | apply HS1; exact Z1].
      * right. split; [apply Q1; exact Z1|]. apply Q2. intros Z2. apply Z1. apply HS1. exact Z2.
    + destruct (HS2 i j Hin Hnz) as [Z|Z]; [left; apply back; exact Z | right; exact Z].
Qed.

Definition Closed (st : list Z * list Z) : Prop :=
  forall i j, (i < m)%nat -> (j < n)%nat -> get N i j <> 0 -> (nthZ (fst st) i = 0 <-> nthZ (snd st) j = 0).

Lemma pass_spec : forall e e' st, Inv e e' st ->
  let st' := prop_pass m n N M st in
  Inv e e' st' /\ (count_known st <= count_known st')%nat /\
  ((count_known st' <= count_known st)%nat -> Closed st).
Proof.
  intros e e' st HI. cbn zeta. unfold prop_pass.
  destruct (fold_spec e e' (all_pairs m n) st HI (in_all_pairs m n)) as [HI' [HM HS]].
  split; [exact HI'|]. split; [apply Mono_count; exact HM|].
  intros Hc. destruct (Mono_no_progress _ _ HM Hc) as [K1 K2].
  intros i j Hi Hj Hnz.
  assert (Hin : In (i, j) (all_pairs m n)).
  { unfold all_pairs. apply in_flat_map. exists i. split; [apply in_iota; lia|].
    apply in_map. apply in_iota. lia. }
  destruct (HS i j Hin Hnz) as [[Z1 Z2]|[Z1 Z2]]; [tauto|].
  split; intros Z.
  - apply K1 in Z. contradiction.
  - apply K2 in Z. contradiction.
Qed.

(* flipping all undetermined lines by t keeps the invariant when the state is closed *)
Lemma flip_spec : forall e e' st t, Inv e e' st -> Closed st -> pm1 t ->
  let e1 := fun x => if nthZ (fst st) x =? 0 then e x * t else e x in
  let e1' := fun y => if nthZ (snd st) y =? 0 then e' y * t else e' y in
  Inv e1 e1' st.
Proof.
  intros e e' st t [L1 [L2 [E1 [E2 [A1 [A2 Bq]]]]]] HC Ht. cbn zeta.
  unfold Inv. repeat split; auto.
  - intros i. destruct (nthZ (fst st) i =? 0); [apply pm1_mul|]; auto.
  - intros j. destruct (nthZ (snd st) j =? 0); [apply pm1_mul|]; auto.
  - intros i Hi. destruct (nthZ (fst st) i =? 0) eqn:Ez; [left; apply Z.eqb_eq; exact Ez|].
    apply Z.eqb_neq in Ez. destruct (A1 i Hi); [contradiction | right; assumption].
  - intros j Hj. destruct (nthZ (snd st) j =? 0) eqn:Ez; [left; apply Z.eqb_eq; exact Ez|].
    apply Z.eqb_neq in Ez. destruct (A2 j Hj); [contradiction | right; assumption].
  - intros i j Hi Hj Hnz. pose proof (HC i j Hi Hj Hnz) as Hc. rewrite (Bq i j Hi Hj Hnz).
    destruct (nthZ (fst st) i =? 0) eqn:Ei; destruct (nthZ (snd st) j =? 0) eqn:Ej; try reflexivity.
    + apply Z.eqb_eq in Ei. apply Z.eqb_neq in Ej. tauto.
    + apply Z.eqb_neq in Ei. apply Z.eqb_eq in Ej. tauto.
Qed.

Definition InvE (st : list Z * list Z) : Prop := exists e e', Inv e e' st.

Lemma seed_row : forall e e' st i, Inv e e' st -> Closed st -> first_zero (fst st) 0 = Some i ->
  InvE (set_nth (fst st) i 1, snd st) /\
  count_known (set_nth (fst st) i 1, snd st) = S (count_known st).
Proof.
  intros e e' st i HI HC Hf. apply first_zero_some in Hf. rewrite Nat.sub_0_r in Hf. destruct Hf as [_ [Hi Hz]].
  pose proof HI as [L1 [L2 [E1 [E2 _]]]]. rewrite L1 in Hi.
  assert (Ht : pm1 (nthZ rs i * e i)) by (apply pm1_mul; auto).
  destruct (flip_spec e e' st _ HI HC Ht) as [_ [_ [F1 [F2 [A1 [A2 Bq]]]]]].
  rewrite set_nth_upd. split.
  - exists (fun x => if nthZ (fst st) x =? 0 then e x * (nthZ rs i * e i) else e x),
           (fun y => if nthZ (snd st) y =? 0 then e' y * (nthZ rs i * e i) else e' y).
    unfold Inv. cbn [fst snd]. rewrite length_upd.
    split; [exact L1|]. split; [exact L2|]. split; [exact F1|]. split; [exact F2|].
    split; [|split; [exact A2 | exact Bq]].
    intros x Hx. destruct (Nat.eq_dec x i) as [->|Ne].
    + right. rewrite nthZ_upd_same by lia. rewrite Hz. simpl.
      transitivity ((e i * e i) * (nthZ rs i * nthZ rs i)); [|ring].
      rewrite (pm1_sq (e i)) by auto. rewrite (pm1_sq (nthZ rs i)) by auto. reflexivity.
    + rewrite nthZ_upd_other by assumption. apply A1. exact Hx.
  - rewrite !count_known_nzc. simpl. rewrite nzc_upd; try lia; assumption.
Qed.

Lemma seed_col : forall e e' st j, Inv e e' st -> Closed st -> first_zero (snd st) 0 = Some j ->
  InvE (fst st, set_nth (snd st) j 1) /\
  count_known (fst st, set_nth (snd st) j 1) = S (count_known st).
Proof.
  intros e e' st j HI HC Hf. apply first_zero_some in Hf. rewrite Nat.sub_0_r in Hf. destruct Hf as [_ [Hj Hz]].
  pose proof HI as [L1 [L2 [E1 [E2 _]]]]. rewrite L2 in Hj.
  assert (Ht : pm1 (nthZ cs j * e' j)) by (apply pm1_mul; auto).
  destruct (flip_spec e e' st _ HI HC Ht) as [_ [_ [F1 [F2 [A1 [A2 Bq]]]]]].
  rewrite set_nth_upd. split.
  - exists (fun x => if nthZ (fst st) x =? 0 then e x * (nthZ cs j * e' j) else e x),
           (fun y => if nthZ (snd st) y =? 0 then e' y * (nthZ cs j * e' j) else e' y).
    unfold Inv. cbn [fst snd]. rewrite length_upd.
    split; [exact L1|]. split; [exact L2|]. split; [exact F1|]. split; [exact F2|].
    split; [exact A1|]. split; [|exact Bq].
    intros y Hy. destruct (Nat.eq_dec y j) as [->|Ne].
    + right. rewrite nthZ_upd_same by lia. rewrite Hz. simpl.
      transitivity ((e' j * e' j) * (nthZ cs j * nthZ cs j)); [|ring].
      rewrite (pm1_sq (e' j)) by auto. rewrite (pm1_sq (nthZ cs j)) by auto. reflexivity.
    + rewrite nthZ_upd_other by assumption. apply A2. exact Hy.
  - rewrite !count_known_nzc. simpl. rewrite nzc_upd; try lia; assumption.
Qed.

Lemma count_known_le : forall e e' st, Inv e e' st -> (count_known st <= m + n)%nat.
Proof.
  intros e e' st [L1 [L2 _]]. rewrite count_known_nzc.
  pose proof (nzc_le (fst st)). pose proof (nzc_le (snd st)). lia.
Qed.

(* with enough fuel everything gets determined, consistently *)
Lemma solve_spec : forall fuel st, InvE st -> (m + n - count_known st < fuel)%nat ->
  let st' := solve_signs fuel m n N M st in
  InvE st' /\ first_zero (fst st') 0 = None /\ first_zero (snd st') 0 = None.
Proof.
  induction fuel as [|f IH]; intros st [e [e' HI]] Hf; [lia|]. cbn zeta. simpl.
  destruct (pass_spec e e' st HI) as [HI' [Hle Hcl]].
  destruct (Nat.ltb (count_known st) (count_known (prop_pass m n N M st))) eqn:El.
  - apply Nat.ltb_lt in El. apply IH; [exists e, e'; exact HI'|].
    pose proof (count_known_le e e' _ HI'). lia.
  - apply Nat.ltb_ge in El. specialize (Hcl El).
    destruct (first_zero (fst st) 0) as [i|] eqn:F1.
    + destruct (seed_row e e' st i HI Hcl F1) as [[e1 [e1' HI1]] Hc].
      apply IH; [exists e1, e1'; exact HI1|].
      pose proof (count_known_le e1 e1' _ HI1). lia.
    + destruct (first_zero (snd st) 0) as [j|] eqn:F2.
      * destruct (seed_col e e' st j HI Hcl F2) as [[e1 [e1' HI1]] Hc].
        apply IH; [exists e1, e1'; exact HI1|].
        pose proof (count_known_le e1 e1' _ HI1). lia.
      * split; [exists e, e'; exact HI|]. split; assumption.
Qed.

End Propagation.

(* ------------------------------------------------------------------------------------------ *)
(* 4. completeness of is_scaling_of                                                             *)
(* ------------------------------------------------------------------------------------------ *)

Lemma get_ternary3 : forall M i j, is_ternary M = true -> get M i j = 0 \/ get M i j = 1 \/ get M i j = -1.
Proof.
  intros M i j H.
  assert (E : is_ternary_entry (get M i j) = true).
  { unfold get. apply nthZ_forallb; [reflexivity|].
    apply (nthR_forallb (forallb is_ternary_entry)); [reflexivity | exact H]. }
  unfold is_ternary_entry in E. rewrite !orb_true_iff, !Z.eqb_eq in E. tauto.
Qed.

Lemma nthZ_forallb_len : forall (p : Z -> bool) l i,
  forallb p l = true -> (i < length l)%nat -> p (nthZ l i) = true.
Proof.
  intros p; induction l as [|x l IH]; intros i H Hi; simpl in Hi; [lia|].
  simpl in H. apply andb_true_iff in H. destruct H as [Hx Hl].
  destruct i; simpl; auto. apply IH; auto. lia.
Qed.

Theorem is_scaling_of_complete : forall m n N M rs cs,
  wf_mat m n N = true -> wf_mat m n M = true -> is_ternary N = true ->
  length rs = m -> length cs = n -> forallb is_pm1' rs = true -> forallb is_pm1' cs = true ->
  M = scaled m n N rs cs -> is_scaling_of m n N M = true.
Proof.
  intros m n N M rs cs _ _ HT Lr Lc Pr Pc EM.
  assert (Hrs : forall i, (i < m)%nat -> pm1 (nthZ rs i)).
  { intros i Hi. apply is_pm1. apply nthZ_forallb_len; [exact Pr | lia]. }
  assert (Hcs : forall j, (j < n)%nat -> pm1 (nthZ cs j)).
  { intros j Hj. apply is_pm1. apply nthZ_forallb_len; [exact Pc | lia]. }
  assert (HM : forall i j, (i < m)%nat -> (j < n)%nat -> get M i j = nthZ rs i * nthZ cs j * get N i j).
  { intros i j Hi Hj. rewrite EM. unfold scaled. apply get_mk_mat; assumption. }
  assert (Hq : forall i j, (i < m)%nat -> (j < n)%nat -> get N i j <> 0 ->
                           get M i j * get N i j = nthZ rs i * nthZ cs j).
  { intros i j Hi Hj Hnz. rewrite HM by assumption.
    destruct (get_ternary3 N i j HT) as [E|[E|E]]; [contradiction| |]; rewrite E; ring. }
  assert (H0 : InvE m n N rs cs (repeat 0 m, repeat 0 n)).
  { exists (fun _ => 1), (fun _ => 1). unfold Inv. cbn [fst snd]. rewrite !repeat_length.
    split; [reflexivity|]. split; [reflexivity|]. split; [intros _; left; reflexivity|].
    split; [intros _; left; reflexivity|].
    split; [intros i _; left; apply nthZ_repeat0|]. split; [intros j _; left; apply nthZ_repeat0|].
    intros; reflexivity. }
  set (st0 := (repeat 0 m, repeat 0 n)) in *.
  assert (Hfuel : (m + n - count_known st0 < 2 * (m + n) + 2)%nat) by lia.
  pose proof (solve_spec m n N M rs cs Hrs Hcs Hq _ _ H0 Hfuel) as S. cbn zeta in S.
  unfold is_scaling_of.
  fold st0. destruct (solve_signs (2 * (m + n) + 2) m n N M st0) as [rs' cs'].
  destruct S as [[e [e' [L1 [L2 [E1 [E2 [A1 [A2 Bq]]]]]]]] [F1 F2]]. cbn [fst snd] in *.
  assert (R1 : forall i, (i < m)%nat -> nthZ rs' i = e i * nthZ rs i).
  { intros i Hi. destruct (A1 i Hi) as [Z|Z]; [|exact Z].
    exfalso. apply (first_zero_none rs' 0%nat F1 i); [lia | exact Z]. }
  assert (R2 : forall j, (j < n)%nat -> nthZ cs' j = e' j * nthZ cs j).
  { intros j Hj. destruct (A2 j Hj) as [Z|Z]; [|exact Z].
    exfalso. apply (first_zero_none cs' 0%nat F2 j); [lia | exact Z]. }
  rewrite !andb_true_iff. repeat split.
  - apply forallb_nthZ. intros k Hk. rewrite R1 by lia. apply pm1_is. apply pm1_mul; [apply E1 | apply Hrs; lia].
  - apply forallb_nthZ. intros k Hk. rewrite R2 by lia. apply pm1_is. apply pm1_mul; [apply E2 | apply Hcs; lia].
  - apply Nat.eqb_eq. exact L1.
  - apply Nat.eqb_eq. exact L2.
  - apply mat_eqb_eq. rewrite EM. unfold scaled. apply (mat_ext m n); try apply wf_mk_mat.
    intros i j Hi Hj. rewrite !get_mk_mat by assumption. rewrite R1, R2 by assumption.
    destruct (Z.eq_dec (get N i j) 0) as [Z|Z]; [rewrite Z; ring|].
    rewrite (Bq i j Hi Hj Z).
    transitivity (e' j * e' j * (nthZ rs i * nthZ cs j * get N i j)); [|ring].
    rewrite (pm1_sq (e' j)) by apply E2. ring.
Qed.

(* ------------------------------------------------------------------------------------------ *)
(* 5. with Camion's uniqueness theorem: scalings of a TU matrix = TU matrices with its support  *)
(* ------------------------------------------------------------------------------------------ *)

Lemma list_eqb_sym : forall (A : Type) (e e' : A -> A -> bool),
  (forall x y, e x y = true -> e' y x = true) ->
  forall a b, list_eqb e a b = true -> list_eqb e' b a = true.
Proof.
  intros A e e' H. induction a as [|x a IH]; intros [|y b] E; simpl in *; try discriminate; auto.
  apply andb_true_iff in E. destruct E as [E1 E2]. apply andb_true_iff. split; auto.
Qed.

Lemma list_eqb_trans : forall (A : Type) (e1 e2 e3 : A -> A -> bool),
  (forall x y z, e1 x y = true -> e2 y z = true -> e3 x z = true) ->
  forall a b c, list_eqb e1 a b = true -> list_eqb e2 b c = true -> list_eqb e3 a c = true.
Proof.
  intros A e1 e2 e3 H. induction a as [|x a IH]; intros [|y b] [|z c] E F; simpl in *; try discriminate; auto.
  apply andb_true_iff in E. destruct E as [E1 E2]. apply andb_true_iff in F. destruct F as [F1 F2].
  apply andb_true_iff. split; eauto.
Qed.

Lemma list_eqb_forallb : forall (A : Type) (e : A -> A -> bool) (p q : A -> bool),
  (forall x y, e x y = true -> p x = true -> q y = true) ->
  forall a b, list_eqb e a b = true -> forallb p a = true -> forallb q b = true.
Proof.
  intros A e p q H. induction a as [|x a IH]; intros [|y b] E F; simpl in *; try discriminate; auto.
  apply andb_true_iff in E. destruct E as [E1 E2]. apply andb_true_iff in F. destruct F as [F1 F2].
  apply andb_true_iff. split; eauto.
Qed.

Lemma same_support_sym : forall M N, same_support M N = true -> same_support N M = true.
Proof.
  intros M N. unfold same_support. apply list_eqb_sym. intros a b. apply list_eqb_sym.
  intros x y H. apply Z.eqb_eq in H. apply Z.eqb_eq. congruence.
Qed.

Lemma same_support_trans : forall A B C,
  same_support A B = true -> same_support B C = true -> same_support A C = true.
Proof.
  intros A B C. unfold same_support. apply list_eqb_trans. intros a b c. apply list_eqb_trans.
  intros x y z H1 H2. apply Z.eqb_eq in H1, H2. apply Z.eqb_eq. congruence.
Qed.

Lemma same_support_ternary : forall M N, same_support M N = true -> is_ternary M = true -> is_ternary N = true.
Proof.
  intros M N. unfold same_support, is_ternary, mat_forall. apply list_eqb_forallb. intros a b.
  apply list_eqb_forallb. intros x y H Hx. apply Z.eqb_eq in H.
  unfold is_ternary_entry in *. rewrite !orb_true_iff, !Z.eqb_eq in *. lia.
Qed.

Corollary is_scaling_of_iff_tu : forall m n N M,
  wf_mat m n N = true -> wf_mat m n M = true -> is_ternary M = true -> same_support M N = true ->
  tu_bf m n N = true -> (is_scaling_of m n N M = true <-> tu_bf m n M = true).
Proof.
  intros m n N M WN WM TM SS TN. split.
  - intros H. rewrite (is_scaling_of_tu m n N M H). exact TN.
  - intros TUM.
    destruct (@CamionUnique.tu_signing_unique_std m n N M WN WM TN TUM (same_support_sym _ _ SS))
      as [rs [cs [Lr [Lc [Pr [Pc E]]]]]].
    apply (is_scaling_of_complete m n N M rs cs); auto.
    + exact (same_support_ternary M N SS TM).
    + apply (mat_ext m n); [exact WM | apply wf_mk_mat |]. intros i j Hi Hj.
      unfold scaled. rewrite get_mk_mat by assumption. apply E; assumption.
Qed.

(* ------------------------------------------------------------------------------------------ *)
(* 6. the judge: what acceptance means, and no false alarm                                      *)
(* ------------------------------------------------------------------------------------------ *)

Lemma camion_certified_facts : forall m n M mN nN N w, camion_certified m n M mN nN N w = true ->
  wf_mat m n M = true /\ wf_mat m n N = true /\ is_ternary M = true /\ same_support M N = true /\
  tu_bf m n N = true.
Proof.
  intros m n M mN nN N w H. unfold camion_certified in H.
  apply andb_true_iff in H. destruct H as [H Hc]. apply andb_true_iff in H. destruct H as [H Hs].
  apply andb_true_iff in H. destruct H as [H Ht]. apply andb_true_iff in H. destruct H as [H Hw2].
  apply andb_true_iff in H. destruct H as [H Hw1].
  repeat split; try assumption. exact (TuNetProofs.tu_certified_tu_bf m n N w Hc).
Qed.

Theorem judge_camion_cert_sound_full :
  forall rec m n M rc1 v viol rc2 was Sg viol2 rc3 v' rc4 was2 S2 mN nN N w rest,
  camion_cert_input rec =
    Some (((m, n, M), (rc1, v, viol), (rc2, was, Sg, viol2), (rc3, v'), (rc4, was2, S2), (mN, nN, N), w), rest) ->
  camion_certified m n M mN nN N w = true ->
  judge_camion_cert rec = 0 ->
  rc1 = 0 /\ rc2 = 0 /\
  exists Sm, Sg = Some (m, n, Sm) /\ tu_bf m n Sm = true /\ (v = 1 \/ v = 0) /\ (v = 1 <-> tu_bf m n M = true).
Proof.
  intros rec m n M rc1 v viol rc2 was Sg viol2 rc3 v' rc4 was2 S2 mN nN N w rest Hdec Hcert HJ.
  destruct (judge_camion_cert_sound rec m n M rc1 v viol rc2 was Sg viol2 rc3 v' rc4 was2 S2 mN nN N w rest Hdec Hcert HJ)
    as [R1 [R2 [HN [Sm [ES [HS [HT [Hv [Hiff _]]]]]]]]].
  destruct (camion_certified_facts _ _ _ _ _ _ _ Hcert) as [WM [WN [TM [SS TN]]]].
  split; [exact R1|]. split; [exact R2|]. exists Sm. split; [exact ES|]. split; [exact HT|]. split; [exact Hv|].
  rewrite Hiff. apply is_scaling_of_iff_tu; assumption.
Qed.

Theorem judge_camion_cert_complete :
  forall rec m n M rc1 v viol rc2 was Sg viol2 rc3 v' rc4 was2 S2 mN nN N w rest,
  camion_cert_input rec =
    Some (((m, n, M), (rc1, v, viol), (rc2, was, Sg, viol2), (rc3, v'), (rc4, was2, S2), (mN, nN, N), w), rest) ->
  camion_certified m n M mN nN N w = true ->
  rc1 = 0 -> rc2 = 0 ->
  (exists Sm, Sg = Some (m, n, Sm) /\ wf_mat m n Sm = true /\ same_support M Sm = true /\ tu_bf m n Sm = true) ->
  (v = 1 <-> tu_bf m n M = true) -> (v = 0 \/ v = 1) ->
  judge_camion_cert rec = 0.
Proof.
  intros rec m n M rc1 v viol rc2 was Sg viol2 rc3 v' rc4 was2 S2 mN nN N w rest Hdec Hcert R1 R2
    [Sm [ES [WS [SSm TS]]]] Hiff Hv.
  destruct (camion_certified_facts _ _ _ _ _ _ _ Hcert) as [WM [WN [TM [SS TN]]]].
  unfold judge_camion_cert. rewrite Hdec, Hcert. subst rc1 rc2 Sg. cbn [negb andb Z.eqb].
  rewrite !Nat.eqb_refl. cbn [andb].
  assert (HS : is_scaling_of m n N Sm = true).
  { apply is_scaling_of_iff_tu; try assumption.
    - exact (same_support_ternary M Sm SSm TM).
    - exact (same_support_trans _ _ _ (same_support_sym _ _ SSm) SS). }
  rewrite HS. cbn [negb].
  pose proof (is_scaling_of_iff_tu m n N M WN WM TM SS TN) as HM.
  destruct (is_scaling_of m n N M) eqn:EM.
  - assert (v = 1) by (apply Hiff; apply HM; reflexivity). subst v. reflexivity.
  - destruct Hv as [->| ->]; [reflexivity|].
    exfalso. assert (tu_bf m n M = true) by (apply Hiff; reflexivity).
    apply HM in H. discriminate H.
Qed.

Print Assumptions is_scaling_of_complete.
Print Assumptions is_scaling_of_iff_tu.
Print Assumptions judge_camion_cert_sound_full.
Print Assumptions judge_camion_cert_complete.
