From Cmr Require Import Base Det BaseProofs TuModel GraphModel SpModel TuNetModel BalancedCertModel.
From Cmr Require TuNetProofs TuBalanced.
Local Open Scope Z_scope.

(* an accepted record that certifies its matrix (network witness, or series-parallel reducible {-1,0,1} matrix) and did not
   use the unimplemented graph-based algorithm: the call succeeded, the matrix IS balanced by the definition-level oracle
   (for every size: certified => totally unimodular => balanced), the verdict says so and no violator is returned *)
Theorem judge_balanced_cert_sound : forall rec alg sp ws m n M rc v sub w rest,
  balanced_cert_input rec = Some ((alg, sp, ws, (m, n, M), rc, v, sub, w), rest) ->
  tu_certified m n M w = true ->
  judge_balanced_cert rec = 0 ->
  (alg = 2 /\ rc <> 0) \/
  (rc = 0 /\ balanced_bf m n M = true /\ v = 1 /\ sub = None).
Proof.
  intros rec alg sp ws m n M rc v sub w rest Hdec Hcert HJ.
  pose proof (TuBalanced.tu_balanced (TuNetProofs.tu_certified_tu_bf m n M w Hcert)) as HB.
  unfold judge_balanced_cert in HJ. rewrite Hdec in HJ. rewrite Hcert in HJ. cbn [negb] in HJ.
  destruct ((alg =? 2) && negb (rc =? 0)) eqn:Eg.
  { left. apply andb_true_iff in Eg. destruct Eg as [E2 Erc]. apply Z.eqb_eq in E2.
    split; [exact E2|]. destruct (rc =? 0) eqn:E0; [discriminate|]. apply Z.eqb_neq in E0. exact E0. }
  right.
  destruct ((rc =? 0) && (v =? 1) && (match sub with None => true | Some _ => false end)) eqn:Efast.
  { apply andb_true_iff in Efast. destruct Efast as [Efast Es]. apply andb_true_iff in Efast. destruct Efast as [E0 E1].
    apply Z.eqb_eq in E0, E1. subst rc v. repeat split; [exact HB|]. destruct sub; [discriminate|reflexivity]. }
  destruct (rc =? 0) eqn:Erc; cbn [negb] in HJ; [|discriminate].
  apply Z.eqb_eq in Erc. split; [exact Erc|]. split; [exact HB|].
  destruct (v =? 2) eqn:E2; [discriminate|].
  destruct (v =? 1) eqn:E1; cbn [negb] in HJ; [|discriminate].
  apply Z.eqb_eq in E1. split; [exact E1|]. destruct sub; [discriminate|reflexivity].
Qed.
Print Assumptions judge_balanced_cert_sound.
