(* RtModel.v — C14: "every constructed matrix is recognized as graphic resp. network, and matrix -> graph -> matrix is the
   identity": the matrix computed by CMRgraphicComputeMatrix / CMRnetworkComputeMatrix for a correct spanning forest is
   handed to CMRgraphicTestMatrix / CMRnetworkTestMatrix, and the returned graph, forest, coforest (and reversals) to the
   construction again.  No oracle is involved; exactness of the first construction is judge_repmat's business. *)
From Cmr Require Import Base GraphModel.
Local Open Scope Z_scope.

(* record: signed rc correctForest hasM [csr M] rc2 verdict rc3 hasM2 [csr M2]
   0 accepted (incl. offered edge lists that are no spanning forest); 1 malformed record; 390 construction failed;
   391 recognition failed (error code); 392 the constructed matrix is not recognized; 393 second construction failed or
   gave no matrix; 394 matrix -> graph -> matrix is not the identity *)
Definition judge_reprt (rec : list Z) : Z :=
  match (signed <- dbool ;; rc <- dZ ;; cf <- dZ ;; Mo <- dopt_csrd ;; rc2 <- dZ ;; v <- dZ ;; rc3 <- dZ ;; M2o <- dopt_csrd ;;
         dend (signed, rc, cf, Mo, rc2, v, rc3, M2o)) rec with
  | Some ((signed, rc, cf, Mo, rc2, v, rc3, M2o), _) =>
    if negb (cf =? 1) then 0
    else if negb (rc =? 0) then 390
    else match Mo with
         | None => 390
         | Some (m, n, M) =>
           if negb (rc2 =? 0) then 391
           else if negb (v =? 1) then 392
           else if negb (rc3 =? 0) then 393
           else match M2o with
                | None => 393
                | Some (m2, n2, M2) => if Nat.eqb m m2 && Nat.eqb n n2 && mat_eqb M M2 then 0 else 394
                end
         end
  | None => 1
  end.

Definition reprt_input := signed <- dbool ;; rc <- dZ ;; cf <- dZ ;; Mo <- dopt_csrd ;; rc2 <- dZ ;; v <- dZ ;; rc3 <- dZ ;;
  M2o <- dopt_csrd ;; dend (signed, rc, cf, Mo, rc2, v, rc3, M2o).
