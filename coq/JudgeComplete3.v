(* JudgeComplete3.v -- COMPLETENESS of the remaining judges (continuation of JudgeComplete2.v): for every judge a
   specification X_spec over the decoded fields, judge_X_complete (spec -> accepted) and judge_X_iff
   (judge_X rec = 0 <-> X_spec). *)
From Coq Require Import List ZArith Bool Lia String Ascii.
From Cmr Require Import Base Det BaseProofs TuModel SpModel PivotModel PivotProofs GraphModel KsumModel
  TextModel TextProofs MatModel MatProofs EdgeModel EdgeProofs CtuModel CliModel CliProofs
  StackModel StackProofs TimeoutModel TimeoutProofs RelModel RelProofs RelPivot RelPivot7
  TreeModel TreeProofs JudgeComplete2.
Import ListNotations.
Local Open Scope Z_scope.

(* ========================================================================================== *)
(* 1. judge_rel                                                                                 *)
(* ========================================================================================== *)
(* For every kind K the specification rel_specK is LITERALLY the conclusion of judge_rel_kindK.  Those conclusions
   consist of the conditions the judge checks (M' is the stated transform of M; the verdict comparisons) followed by
   closure facts (equalities of sp_greedy / balanced_bf / tu_bf / regular_bf) that are theorems about the checked part;
   completeness uses the checked part only, so the equivalence holds with the literal conjunction. *)

Lemma forallb_iota_lt : forall (p : nat -> bool) k,
  (forall i, (i < k)%nat -> p i = true) -> forallb p (iota 0 k) = true.
Proof. intros p k H. apply forallb_forall. intros i Hi. apply in_iota in Hi. apply H. lia. Qed.

Lemma forallb_of_In : forall (A : Type) (p : A -> bool) l, (forall x, In x l -> p x = true) -> forallb p l = true.
Proof. intros A p l H. apply forallb_forall. exact H. Qed.

Definition rel_spec1 (p1 p2 : list Z) (m n : nat) (M : mat) (m' n' : nat) (M' : mat) (v v' : list Z) : Prop :=
  let rp := map Z.to_nat p1 in let cp := map Z.to_nat p2 in
  is_perm_l m rp = true /\ is_perm_l n cp = true /\ m' = m /\ n' = n /\ M' = submat M rp cp /\
  (forall i, (i < 10)%nat -> same_at v v' i i = true) /\
  (forall t, sp_greedy t m' n' M' = sp_greedy t m n M) /\
  balanced_bf m' n' M' = balanced_bf m n M.

Theorem judge_rel_kind1_complete : forall rec p1 p2 m n M m' n' M' v v' rest,
  rel_input rec = Some ((1, p1, p2, (m, n, M), (m', n', M'), v, v'), rest) ->
  rel_spec1 p1 p2 m n M m' n' M' v v' ->
  judge_rel rec = 0.
Proof.
  intros rec p1 p2 m n M m' n' M' v v' rest Hdec Hs.
  unfold judge_rel. unfold rel_input in Hdec. rewrite Hdec.
  cbv beta iota zeta. change (1 =? 1) with true. cbv iota.
  unfold rel_spec1 in Hs. cbv zeta in Hs.
  destruct Hs as [H1 [H2 [-> [-> [-> [Hsame _]]]]]].
  rewrite H1, H2, !Nat.eqb_refl, mat_eqb_refl. cbn [andb negb].
  rewrite (forallb_iota_lt _ _ Hsame). reflexivity.
Qed.

Corollary judge_rel_kind1_iff : forall rec p1 p2 m n M m' n' M' v v' rest,
  rel_input rec = Some ((1, p1, p2, (m, n, M), (m', n', M'), v, v'), rest) ->
  (judge_rel rec = 0 <-> rel_spec1 p1 p2 m n M m' n' M' v v').
Proof.
  intros rec p1 p2 m n M m' n' M' v v' rest Hdec. split.
  - intros Hj. exact (judge_rel_kind1 _ _ _ _ _ _ _ _ _ _ _ _ Hdec Hj).
  - intros Hs. exact (judge_rel_kind1_complete _ _ _ _ _ _ _ _ _ _ _ _ Hdec Hs).
Qed.

Definition rel_spec2 (p1 p2 : list Z) (m n : nat) (M : mat) (m' n' : nat) (M' : mat) (v v' : list Z) : Prop :=
  length p1 = m /\ length p2 = n /\ forallb is_pm1' p1 = true /\ forallb is_pm1' p2 = true /\
  m' = m /\ n' = n /\ M' = mk_mat m n (fun i j => nthZ p1 i * nthZ p2 j * get M i j) /\
  (forall i, In i [V_TU; V_NET; V_CONET; V_SPT; V_BAL; V_CAM] -> same_at v v' i i = true) /\
  sp_greedy true m' n' M' = sp_greedy true m n M /\
  (is_ternary M = true -> balanced_bf m' n' M' = balanced_bf m n M).

Theorem judge_rel_kind2_complete : forall rec p1 p2 m n M m' n' M' v v' rest,
  rel_input rec = Some ((2, p1, p2, (m, n, M), (m', n', M'), v, v'), rest) ->
  rel_spec2 p1 p2 m n M m' n' M' v v' ->
  judge_rel rec = 0.
Proof.
  intros rec p1 p2 m n M m' n' M' v v' rest Hdec Hs.
  unfold judge_rel. unfold rel_input in Hdec. rewrite Hdec.
  cbv beta iota zeta. change (2 =? 1) with false. change (2 =? 2) with true. cbv iota.
  destruct Hs as [H1 [H2 [H3 [H4 [-> [-> [-> [Hsame _]]]]]]]].
  rewrite H1, H2, H3, H4, !Nat.eqb_refl, mat_eqb_refl. cbn [andb negb].
  rewrite (forallb_of_In _ _ _ Hsame). reflexivity.
Qed.

Corollary judge_rel_kind2_iff : forall rec p1 p2 m n M m' n' M' v v' rest,
  rel_input rec = Some ((2, p1, p2, (m, n, M), (m', n', M'), v, v'), rest) ->
  (judge_rel rec = 0 <-> rel_spec2 p1 p2 m n M m' n' M' v v').
Proof.
  intros rec p1 p2 m n M m' n' M' v v' rest Hdec. split.
  - intros Hj. exact (judge_rel_kind2 _ _ _ _ _ _ _ _ _ _ _ _ Hdec Hj).
  - intros Hs. exact (judge_rel_kind2_complete _ _ _ _ _ _ _ _ _ _ _ _ Hdec Hs).
Qed.

Definition rel_spec3 (m n : nat) (M : mat) (m' n' : nat) (M' : mat) (v v' : list Z) : Prop :=
  m' = n /\ n' = m /\ M' = transpose m n M /\
  (forall i, In i [V_TU; V_REG; V_SPT; V_SPB; V_BAL; V_CAM] -> same_at v v' i i = true) /\
  same_at v v' V_GRA V_COG = true /\ same_at v v' V_COG V_GRA = true /\
  same_at v v' V_NET V_CONET = true /\ same_at v v' V_CONET V_NET = true /\
  (forall t, sp_greedy t m' n' M' = sp_greedy t m n M) /\
  balanced_bf m' n' M' = balanced_bf m n M.

Theorem judge_rel_kind3_complete : forall rec p1 p2 m n M m' n' M' v v' rest,
  rel_input rec = Some ((3, p1, p2, (m, n, M), (m', n', M'), v, v'), rest) ->
  rel_spec3 m n M m' n' M' v v' ->
  judge_rel rec = 0.
Proof.
  intros rec p1 p2 m n M m' n' M' v v' rest Hdec Hs.
  unfold judge_rel. unfold rel_input in Hdec. rewrite Hdec.
  cbv beta iota zeta. change (3 =? 1) with false. change (3 =? 2) with false. change (3 =? 3) with true. cbv iota.
  destruct Hs as [-> [-> [-> [Hsame [A1 [A2 [A3 [A4 _]]]]]]]].
  rewrite !Nat.eqb_refl, mat_eqb_refl. cbn [andb negb].
  rewrite (forallb_of_In _ _ _ Hsame), A1, A2, A3, A4. reflexivity.
Qed.

Corollary judge_rel_kind3_iff : forall rec p1 p2 m n M m' n' M' v v' rest,
  rel_input rec = Some ((3, p1, p2, (m, n, M), (m', n', M'), v, v'), rest) ->
  (judge_rel rec = 0 <-> rel_spec3 m n M m' n' M' v v').
Proof.
  intros rec p1 p2 m n M m' n' M' v v' rest Hdec. split.
  - intros Hj. exact (judge_rel_kind3 _ _ _ _ _ _ _ _ _ _ _ _ Hdec Hj).
  - intros Hs. exact (judge_rel_kind3_complete _ _ _ _ _ _ _ _ _ _ _ _ Hdec Hs).
Qed.

Definition rel_spec4 (p1 : list Z) (m n : nat) (M : mat) (m' n' : nat) (M' : mat) (v v' : list Z) : Prop :=
  exists isrow pos, p1 = [isrow; pos] /\
  let k := Z.to_nat pos in let isr := negb (isrow =? 0) in
  (if isr then m' = S m /\ n' = n /\ (k < m')%nat /\ submat M' (keep_line m' k) (iota 0 n') = M
   else m' = m /\ n' = S n /\ (k < n')%nat /\ submat M' (iota 0 m') (keep_line n' k) = M) /\
  line_reducible true m' n' M' isr k = true /\ is_ternary M' = true /\
  (forall i, In i [V_TU; V_REG; V_GRA; V_COG; V_NET; V_CONET; V_SPT; V_BAL] -> same_at v v' i i = true) /\
  (line_reducible false m' n' M' isr k = true -> same_at v v' V_SPB V_SPB = true) /\
  sp_greedy true m' n' M' = sp_greedy true m n M /\
  (line_reducible false m' n' M' isr k = true -> sp_greedy false m' n' M' = sp_greedy false m n M).

Theorem judge_rel_kind4_complete : forall rec p1 p2 m n M m' n' M' v v' rest,
  rel_input rec = Some ((4, p1, p2, (m, n, M), (m', n', M'), v, v'), rest) ->
  rel_spec4 p1 m n M m' n' M' v v' ->
  judge_rel rec = 0.
Proof.
  intros rec p1 p2 m n M m' n' M' v v' rest Hdec Hs.
  unfold judge_rel. unfold rel_input in Hdec. rewrite Hdec.
  destruct Hs as [isrow [pos [-> Hs]]]. cbv zeta in Hs.
  cbv beta iota zeta. change (4 =? 1) with false. change (4 =? 2) with false. change (4 =? 3) with false.
  change (4 =? 4) with true. cbv iota.
  set (k := Z.to_nat pos) in *. set (isr := negb (isrow =? 0)) in *.
  destruct Hs as [Hshape [Hlr [Htern [Hsame [Hspb _]]]]].
  assert (Hfront : (if isr then Nat.eqb m' (S m) && Nat.eqb n' n && Nat.ltb k m'
                    else Nat.eqb m' m && Nat.eqb n' (S n) && Nat.ltb k n') &&
                   mat_eqb (if isr then submat M' (keep_line m' k) (iota 0 n')
                            else submat M' (iota 0 m') (keep_line n' k)) M = true).
  { destruct isr; destruct Hshape as [E1 [E2 [K Hb]]]; apply Nat.ltb_lt in K;
      rewrite K, Hb, mat_eqb_refl, E1, E2, !Nat.eqb_refl; reflexivity. }
  rewrite Hfront, Hlr, Htern. cbn [andb negb].
  rewrite (forallb_of_In _ _ _ Hsame). cbn [andb].
  destruct (line_reducible false m' n' M' isr k) eqn:R; [rewrite (Hspb eq_refl)|]; reflexivity.
Qed.

Corollary judge_rel_kind4_iff : forall rec p1 p2 m n M m' n' M' v v' rest,
  rel_input rec = Some ((4, p1, p2, (m, n, M), (m', n', M'), v, v'), rest) ->
  (judge_rel rec = 0 <-> rel_spec4 p1 m n M m' n' M' v v').
Proof.
  intros rec p1 p2 m n M m' n' M' v v' rest Hdec. split.
  - intros Hj. exact (judge_rel_kind4 _ _ _ _ _ _ _ _ _ _ _ _ Hdec Hj).
  - intros Hs. exact (judge_rel_kind4_complete _ _ _ _ _ _ _ _ _ _ _ _ Hdec Hs).
Qed.

Definition rel_spec5 (p1 p2 : list Z) (m n : nat) (M : mat) (m' n' : nat) (M' : mat) (v v' : list Z) : Prop :=
  let rs := map Z.to_nat p1 in let cs := map Z.to_nat p2 in
  strictly_increasing rs = true /\ strictly_increasing cs = true /\
  all_lt m rs = true /\ all_lt n cs = true /\
  m' = length rs /\ n' = length cs /\ M' = submat M rs cs /\
  (forall i, (i < 9)%nat -> imp_at v v' i = true) /\
  (forall t, sp_greedy t m n M = true -> sp_greedy t m' n' M' = true) /\
  (balanced_bf m n M = true -> balanced_bf m' n' M' = true).

Theorem judge_rel_kind5_complete : forall rec p1 p2 m n M m' n' M' v v' rest,
  rel_input rec = Some ((5, p1, p2, (m, n, M), (m', n', M'), v, v'), rest) ->
  rel_spec5 p1 p2 m n M m' n' M' v v' ->
  judge_rel rec = 0.
Proof.
  intros rec p1 p2 m n M m' n' M' v v' rest Hdec Hs.
  unfold judge_rel. unfold rel_input in Hdec. rewrite Hdec.
  cbv beta iota zeta. change (5 =? 1) with false. change (5 =? 2) with false. change (5 =? 3) with false.
  change (5 =? 4) with false. change (5 =? 5) with true. cbv iota.
  unfold rel_spec5 in Hs. cbv zeta in Hs.
  destruct Hs as [H1 [H2 [H3 [H4 [-> [-> [-> [Himp _]]]]]]]].
  rewrite H1, H2, H3, H4, !Nat.eqb_refl, mat_eqb_refl. cbn [andb negb].
  assert (E : forallb (fun i => imp_at v v' i) (iota 0 9) = true) by (apply forallb_iota_lt; exact Himp).
  rewrite E. reflexivity.
Qed.

Corollary judge_rel_kind5_iff : forall rec p1 p2 m n M m' n' M' v v' rest,
  rel_input rec = Some ((5, p1, p2, (m, n, M), (m', n', M'), v, v'), rest) ->
  (judge_rel rec = 0 <-> rel_spec5 p1 p2 m n M m' n' M' v v').
Proof.
  intros rec p1 p2 m n M m' n' M' v v' rest Hdec. split.
  - intros Hj. exact (judge_rel_kind5 _ _ _ _ _ _ _ _ _ _ _ _ Hdec Hj).
  - intros Hs. exact (judge_rel_kind5_complete _ _ _ _ _ _ _ _ _ _ _ _ Hdec Hs).
Qed.

Definition rel_spec6 (p1 : list Z) (m n : nat) (M : mat) (m' n' : nat) (M' : mat) (v v' : list Z) : Prop :=
  exists r c, p1 = [r; c] /\ 0 <= r < Z.of_nat m /\ 0 <= c < Z.of_nat n /\ m' = m /\ n' = n /\
    is_ternary M = true /\ get M (Z.to_nat r) (Z.to_nat c) <> 0 /\
    M' = reduce 3 (pivot_raw m n M (Z.to_nat r) (Z.to_nat c)) /\
    same_at v v' V_TU V_TU = true /\
    tu_bf m' n' M' = tu_bf m n M.

Theorem judge_rel_kind6_complete : forall rec p1 p2 m n M m' n' M' v v' rest,
  rel_input rec = Some ((6, p1, p2, (m, n, M), (m', n', M'), v, v'), rest) ->
  rel_spec6 p1 m n M m' n' M' v v' ->
  judge_rel rec = 0.
Proof.
  intros rec p1 p2 m n M m' n' M' v v' rest Hdec Hs.
  unfold judge_rel. unfold rel_input in Hdec. rewrite Hdec.
  destruct Hs as [r [c [-> [[Hr0 Hr] [[Hc0 Hc] [-> [-> [Htern [Hnz [-> [Hsame _]]]]]]]]]]].
  cbv beta iota zeta.
  change (6 =? 1) with false. change (6 =? 2) with false. change (6 =? 3) with false.
  change (6 =? 4) with false. change (6 =? 5) with false. change (6 =? 6) with true.
  cbv iota. cbn [orb]. cbv iota.
  rewrite !Nat.eqb_refl, Htern, mat_eqb_refl.
  rewrite (proj2 (Z.ltb_lt _ _) Hr), (proj2 (Z.ltb_lt _ _) Hc), (proj2 (Z.leb_le _ _) Hr0), (proj2 (Z.leb_le _ _) Hc0).
  rewrite (modulo_ternary_idem3 _ (PivotProofs.get_ternary M (Z.to_nat r) (Z.to_nat c) Htern)).
  rewrite (proj2 (Z.eqb_neq _ _) Hnz). cbn [andb negb].
  rewrite Hsame. reflexivity.
Qed.

Corollary judge_rel_kind6_iff : forall rec p1 p2 m n M m' n' M' v v' rest,
  rel_input rec = Some ((6, p1, p2, (m, n, M), (m', n', M'), v, v'), rest) ->
  (judge_rel rec = 0 <-> rel_spec6 p1 m n M m' n' M' v v').
Proof.
  intros rec p1 p2 m n M m' n' M' v v' rest Hdec. split.
  - intros Hj. exact (judge_rel_kind6 _ _ _ _ _ _ _ _ _ _ _ _ Hdec Hj).
  - intros Hs. exact (judge_rel_kind6_complete _ _ _ _ _ _ _ _ _ _ _ _ Hdec Hs).
Qed.

Definition rel_spec7 (p1 : list Z) (m n : nat) (M : mat) (m' n' : nat) (M' : mat) (v v' : list Z) : Prop :=
  exists r c, p1 = [r; c] /\ 0 <= r < Z.of_nat m /\ 0 <= c < Z.of_nat n /\ m' = m /\ n' = n /\
    is_binary M = true /\ get M (Z.to_nat r) (Z.to_nat c) = 1 /\
    M' = reduce 2 (pivot_raw m n M (Z.to_nat r) (Z.to_nat c)) /\
    same_at v v' V_REG V_REG = true /\
    regular_bf m' n' M' = regular_bf m n M.

Theorem judge_rel_kind7_complete : forall rec p1 p2 m n M m' n' M' v v' rest,
  rel_input rec = Some ((7, p1, p2, (m, n, M), (m', n', M'), v, v'), rest) ->
  rel_spec7 p1 m n M m' n' M' v v' ->
  judge_rel rec = 0.
Proof.
  intros rec p1 p2 m n M m' n' M' v v' rest Hdec Hs.
  unfold judge_rel. unfold rel_input in Hdec. rewrite Hdec.
  destruct Hs as [r [c [-> [[Hr0 Hr] [[Hc0 Hc] [-> [-> [Hbin [Hpv [-> [Hsame _]]]]]]]]]]].
  cbv beta iota zeta.
  change (7 =? 1) with false. change (7 =? 2) with false. change (7 =? 3) with false.
  change (7 =? 4) with false. change (7 =? 5) with false. change (7 =? 6) with false. change (7 =? 7) with true.
  cbv iota. cbn [orb]. cbv iota.
  rewrite !Nat.eqb_refl, Hbin, mat_eqb_refl.
  rewrite (proj2 (Z.ltb_lt _ _) Hr), (proj2 (Z.ltb_lt _ _) Hc), (proj2 (Z.leb_le _ _) Hr0), (proj2 (Z.leb_le _ _) Hc0).
  rewrite Hpv. change (modulo_ternary 1 2 =? 0) with false. cbn [andb negb].
  rewrite Hsame. reflexivity.
Qed.

Corollary judge_rel_kind7_iff : forall rec p1 p2 m n M m' n' M' v v' rest,
  rel_input rec = Some ((7, p1, p2, (m, n, M), (m', n', M'), v, v'), rest) ->
  (judge_rel rec = 0 <-> rel_spec7 p1 m n M m' n' M' v v').
Proof.
  intros rec p1 p2 m n M m' n' M' v v' rest Hdec. split.
  - intros Hj. exact (judge_rel_kind7 _ _ _ _ _ _ _ _ _ _ _ _ Hdec Hj).
  - intros Hs. exact (judge_rel_kind7_complete _ _ _ _ _ _ _ _ _ _ _ _ Hdec Hs).
Qed.

(* any other kind: the record is rejected with code 400 (never accepted); an undecodable record gets code 1 *)
Theorem judge_rel_other_kind : forall rec kind p1 p2 m n M m' n' M' v v' rest,
  rel_input rec = Some ((kind, p1, p2, (m, n, M), (m', n', M'), v, v'), rest) ->
  kind <> 1 -> kind <> 2 -> kind <> 3 -> kind <> 4 -> kind <> 5 -> kind <> 6 -> kind <> 7 ->
  judge_rel rec = 400.
Proof.
  intros rec kind p1 p2 m n M m' n' M' v v' rest Hdec K1 K2 K3 K4 K5 K6 K7.
  unfold judge_rel. unfold rel_input in Hdec. rewrite Hdec. cbv beta iota zeta.
  rewrite (proj2 (Z.eqb_neq _ _) K1), (proj2 (Z.eqb_neq _ _) K2), (proj2 (Z.eqb_neq _ _) K3),
          (proj2 (Z.eqb_neq _ _) K4), (proj2 (Z.eqb_neq _ _) K5), (proj2 (Z.eqb_neq _ _) K6),
          (proj2 (Z.eqb_neq _ _) K7).
  reflexivity.
Qed.

Theorem judge_rel_undecodable : forall rec, rel_input rec = None -> judge_rel rec = 1.
Proof. intros rec H. unfold judge_rel. unfold rel_input in H. rewrite H. reflexivity. Qed.

(* hence: an accepted record has a kind in 1..7 *)
Corollary judge_rel_accept_kind : forall rec kind p1 p2 x x' v v' rest,
  rel_input rec = Some ((kind, p1, p2, x, x', v, v'), rest) -> judge_rel rec = 0 ->
  kind = 1 \/ kind = 2 \/ kind = 3 \/ kind = 4 \/ kind = 5 \/ kind = 6 \/ kind = 7.
Proof.
  intros rec kind p1 p2 [[m n] M] [[m' n'] M'] v v' rest Hdec Hj.
  destruct (Z.eq_dec kind 1); [auto|]. destruct (Z.eq_dec kind 2); [auto|]. destruct (Z.eq_dec kind 3); [auto|].
  destruct (Z.eq_dec kind 4); [auto|]. destruct (Z.eq_dec kind 5); [auto 6|]. destruct (Z.eq_dec kind 6); [auto 7|].
  destruct (Z.eq_dec kind 7); [auto 8|].
  rewrite (judge_rel_other_kind _ _ _ _ _ _ _ _ _ _ _ _ _ Hdec) in Hj by assumption. discriminate.
Qed.

Print Assumptions judge_rel_kind1_iff.
Print Assumptions judge_rel_kind2_iff.
Print Assumptions judge_rel_kind3_iff.
Print Assumptions judge_rel_kind4_iff.
Print Assumptions judge_rel_kind5_iff.
Print Assumptions judge_rel_kind6_iff.
Print Assumptions judge_rel_kind7_iff.
Print Assumptions judge_rel_other_kind.
Print Assumptions judge_rel_accept_kind.

(* ========================================================================================== *)
(* 2a. judge_matutil                                                                            *)
(* ========================================================================================== *)
(* One specification per operation group, each LITERALLY the conclusion of the soundness theorem of that group in
   MatProofs.v, under the same (two-stage) decoding hypotheses.  The conjuncts `from_csr ...` are facts about the
   decoder (a returned matrix is the dense view of a well-formed CSR matrix), not checks of the judge; completeness
   does not use them. *)

Ltac jgoal H1 :=
  unfold judge_matutil; rewrite H1; cbv beta iota zeta; cbn [Z.eqb Pos.eqb orb andb negb].

Lemma mat_is_refl : forall m n M, mat_is (m, n, M) m n M = true.
Proof. intros. apply mat_is_eq. reflexivity. Qed.

(* ---------- ops 1, 4, 5, 7 ---------- *)
Definition matutil_unary_spec (op ty : Z) (m n : nat) (M : mat) (rc : Z) (r : mres) : Prop :=
  if (op =? 7) && (ty =? 1) && negb (mat_forall in_char M) then rc <> 0
  else rc = 0 /\ r = RMat (unary_ty op ty) (unary_model op m n M) /\ from_csr (unary_model op m n M).

Theorem judge_matutil_unary_complete : forall rec op ty m n M rest rc r rest',
  matutil_head rec = Some ((op, ty, (m, n, M)), rest) ->
  matutil_result rest = Some ((rc, r), rest') ->
  op = 1 \/ op = 4 \/ op = 5 \/ op = 7 ->
  matutil_unary_spec op ty m n M rc r ->
  judge_matutil rec = 0.
Proof.
  intros rec op ty m n M rest rc r rest' H1 H2 Hop Hs.
  unfold matutil_head in H1. unfold matutil_result in H2. unfold matutil_unary_spec in Hs.
  destruct Hop as [-> | [-> | [-> | ->]]]; cbn [Z.eqb Pos.eqb andb] in Hs.
  - destruct Hs as [-> [-> _]]. jgoal H1. rewrite H2. cbv beta iota.
    unfold unary_ty, unary_model. cbn [Z.eqb Pos.eqb]. cbv iota. rewrite Z.eqb_refl, mat_is_refl. reflexivity.
  - destruct Hs as [-> [-> _]]. jgoal H1. rewrite H2. cbv beta iota.
    unfold unary_ty, unary_model. cbn [Z.eqb Pos.eqb]. cbv iota. rewrite mat_is_refl. reflexivity.
  - destruct Hs as [-> [-> _]]. jgoal H1. rewrite H2. cbv beta iota.
    unfold unary_ty, unary_model. cbn [Z.eqb Pos.eqb]. cbv iota. rewrite mat_is_refl. reflexivity.
  - jgoal H1. rewrite H2. cbv beta iota.
    destruct ((ty =? 1) && negb (mat_forall in_char M)) eqn:E.
    + destruct (rc =? 0) eqn:E0; [|reflexivity]. apply Z.eqb_eq in E0. contradiction.
    + destruct Hs as [-> [-> _]]. change (0 =? 0) with true. cbn [negb]. cbv iota.
      unfold unary_ty, unary_model. cbn [Z.eqb Pos.eqb]. cbv iota. rewrite Z.eqb_refl, mat_is_refl. reflexivity.
Qed.

Corollary judge_matutil_unary_iff : forall rec op ty m n M rest rc r rest',
  matutil_head rec = Some ((op, ty, (m, n, M)), rest) ->
  matutil_result rest = Some ((rc, r), rest') ->
  op = 1 \/ op = 4 \/ op = 5 \/ op = 7 ->
  (judge_matutil rec = 0 <-> matutil_unary_spec op ty m n M rc r).
Proof.
  intros rec op ty m n M rest rc r rest' H1 H2 Hop. split.
  - intros Hj. exact (judge_matutil_unary _ _ _ _ _ _ _ _ _ _ H1 H2 Hj Hop).
  - intros Hs. exact (judge_matutil_unary_complete _ _ _ _ _ _ _ _ _ _ H1 H2 Hop Hs).
Qed.

(* ---------- op 6 ---------- *)
Definition matutil_det_spec (m n : nat) (M : mat) (rc : Z) (r : mres) : Prop :=
  if Nat.eqb m n then rc = 0 /\ r = RVal (det m M) else rc <> 0.

Theorem judge_matutil_det_complete : forall rec ty m n M rest rc r rest',
  matutil_head rec = Some ((6, ty, (m, n, M)), rest) ->
  matutil_result rest = Some ((rc, r), rest') ->
  matutil_det_spec m n M rc r ->
  judge_matutil rec = 0.
Proof.
  intros rec ty m n M rest rc r rest' H1 H2 Hs.
  unfold matutil_head in H1. unfold matutil_result in H2. unfold matutil_det_spec in Hs.
  jgoal H1. rewrite H2. cbv beta iota.
  destruct (Nat.eqb m n); cbn [negb].
  - destruct Hs as [-> ->]. change (0 =? 0) with true. cbn [negb]. cbv iota. rewrite Z.eqb_refl. reflexivity.
  - destruct (rc =? 0) eqn:E0; [|reflexivity]. apply Z.eqb_eq in E0. contradiction.
Qed.

Corollary judge_matutil_det_iff : forall rec ty m n M rest rc r rest',
  matutil_head rec = Some ((6, ty, (m, n, M)), rest) ->
  matutil_result rest = Some ((rc, r), rest') ->
  (judge_matutil rec = 0 <-> matutil_det_spec m n M rc r).
Proof.
  intros rec ty m n M rest rc r rest' H1 H2. split.
  - intros Hj. exact (judge_matutil_det _ _ _ _ _ _ _ _ _ H1 H2 Hj).
  - intros Hs. exact (judge_matutil_det_complete _ _ _ _ _ _ _ _ _ H1 H2 Hs).
Qed.

(* ---------- ops 2, 3 ---------- *)
Definition matutil_submat_spec (ty : Z) (m n : nat) (M : mat) (rs cs : list nat) (rc : Z) (r : mres) : Prop :=
  if all_lt m rs && all_lt n cs
  then rc = 0 /\ r = RMat ty (length rs, length cs, submat M rs cs) /\
       from_csr (length rs, length cs, submat M rs cs)
  else rc <> 0.

Theorem judge_matutil_submat_complete : forall rec op ty m n M rest rs cs rest2 rc r rest3,
  matutil_head rec = Some ((op, ty, (m, n, M)), rest) ->
  submat_args op m n rest = Some ((rs, cs), rest2) ->
  matutil_result rest2 = Some ((rc, r), rest3) ->
  op = 2 \/ op = 3 ->
  matutil_submat_spec ty m n M rs cs rc r ->
  judge_matutil rec = 0.
Proof.
  intros rec op ty m n M rest rs cs rest2 rc r rest3 H1 H2 H3 Hop Hs.
  unfold matutil_head in H1. unfold matutil_result in H3. unfold submat_args in H2.
  unfold matutil_submat_spec in Hs.
  destruct Hop as [-> | ->]; cbn [Z.eqb Pos.eqb] in H2;
    jgoal H1; rewrite H2; cbv beta iota; rewrite H3; cbv beta iota;
    (destruct (all_lt m rs && all_lt n cs); cbn [negb];
     [ destruct Hs as [-> [-> _]]; change (0 =? 0) with true; cbn [negb]; cbv iota;
       rewrite Z.eqb_refl, mat_is_refl; reflexivity
     | destruct (rc =? 0) eqn:E0; [apply Z.eqb_eq in E0; contradiction | reflexivity] ]).
Qed.

Corollary judge_matutil_submat_iff : forall rec op ty m n M rest rs cs rest2 rc r rest3,
  matutil_head rec = Some ((op, ty, (m, n, M)), rest) ->
  submat_args op m n rest = Some ((rs, cs), rest2) ->
  matutil_result rest2 = Some ((rc, r), rest3) ->
  op = 2 \/ op = 3 ->
  (judge_matutil rec = 0 <-> matutil_submat_spec ty m n M rs cs rc r).
Proof.
  intros rec op ty m n M rest rs cs rest2 rc r rest3 H1 H2 H3 Hop. split.
  - intros Hj. exact (judge_matutil_submat _ _ _ _ _ _ _ _ _ _ _ _ _ H1 H2 H3 Hj Hop).
  - intros Hs. exact (judge_matutil_submat_complete _ _ _ _ _ _ _ _ _ _ _ _ _ H1 H2 H3 Hop Hs).
Qed.

(* ---------- ops 8, 9 ---------- *)
Definition matutil_tests_spec (op : Z) (m n : nat) (M : mat) (m2 n2 : nat) (M2 : mat) (rc : Z) (r : mres) : Prop :=
  rc = 0 /\ exists v, r = RVal v /\
    (v = 1 <-> if op =? 8 then (m = m2 /\ n = n2 /\ M = M2)
               else (m2 = n /\ n2 = m /\ M2 = transpose m n M)).

Theorem judge_matutil_tests_complete : forall rec op ty m n M rest m2 n2 M2 rc r rest',
  matutil_head rec = Some ((op, ty, (m, n, M)), rest) ->
  binary_args rest = Some (((m2, n2, M2), rc, r), rest') ->
  op = 8 \/ op = 9 ->
  matutil_tests_spec op m n M m2 n2 M2 rc r ->
  judge_matutil rec = 0.
Proof.
  intros rec op ty m n M rest m2 n2 M2 rc r rest' H1 H2 Hop [-> [v [-> Hv]]].
  unfold matutil_head in H1. unfold binary_args in H2.
  destruct Hop as [-> | ->]; cbn [Z.eqb Pos.eqb] in Hv; jgoal H1; rewrite H2; cbv beta iota;
    change (0 =? 0) with true; cbn [negb]; cbv iota.
  - assert (E : Bool.eqb (v =? 1) (Nat.eqb m m2 && Nat.eqb n n2 && mat_eqb M M2) = true).
    { apply eqb_Zeqb_iff. rewrite Hv, !andb_true_iff, !Nat.eqb_eq, mat_eqb_eq. tauto. }
    rewrite E. reflexivity.
  - assert (E : Bool.eqb (v =? 1) (Nat.eqb m n2 && Nat.eqb n m2 && mat_eqb M2 (transpose m n M)) = true).
    { apply eqb_Zeqb_iff. rewrite Hv, !andb_true_iff, !Nat.eqb_eq, mat_eqb_eq.
      split; [intros [-> [-> ->]]; auto | intros [[-> ->] ->]; auto]. }
    rewrite E. reflexivity.
Qed.

Corollary judge_matutil_tests_iff : forall rec op ty m n M rest m2 n2 M2 rc r rest',
  matutil_head rec = Some ((op, ty, (m, n, M)), rest) ->
  binary_args rest = Some (((m2, n2, M2), rc, r), rest') ->
  op = 8 \/ op = 9 ->
  (judge_matutil rec = 0 <-> matutil_tests_spec op m n M m2 n2 M2 rc r).
Proof.
  intros rec op ty m n M rest m2 n2 M2 rc r rest' H1 H2 Hop. split.
  - intros Hj. exact (judge_matutil_tests _ _ _ _ _ _ _ _ _ _ _ _ _ H1 H2 Hj Hop).
  - intros Hs. exact (judge_matutil_tests_complete _ _ _ _ _ _ _ _ _ _ _ _ _ H1 H2 Hop Hs).
Qed.

(* ---------- op 10 ---------- *)
Definition matutil_onesum_spec (m n : nat) (M : mat) (m2 n2 : nat) (M2 : mat) (rc : Z) (r : mres) : Prop :=
  rc = 0 /\ r = RMat 0 ((m + m2)%nat, (n + n2)%nat, block_diag2 m n M m2 n2 M2) /\
  from_csr ((m + m2)%nat, (n + n2)%nat, block_diag2 m n M m2 n2 M2).

Theorem judge_matutil_onesum_complete : forall rec ty m n M rest m2 n2 M2 rc r rest',
  matutil_head rec = Some ((10, ty, (m, n, M)), rest) ->
  binary_args rest = Some (((m2, n2, M2), rc, r), rest') ->
  matutil_onesum_spec m n M m2 n2 M2 rc r ->
  judge_matutil rec = 0.
Proof.
  intros rec ty m n M rest m2 n2 M2 rc r rest' H1 H2 [-> [-> _]].
  unfold matutil_head in H1. unfold binary_args in H2.
  jgoal H1. rewrite H2. cbv beta iota. change (0 =? 0) with true. cbn [negb andb]. cbv iota.
  rewrite mat_is_refl. reflexivity.
Qed.

Corollary judge_matutil_onesum_iff : forall rec ty m n M rest m2 n2 M2 rc r rest',
  matutil_head rec = Some ((10, ty, (m, n, M)), rest) ->
  binary_args rest = Some (((m2, n2, M2), rc, r), rest') ->
  (judge_matutil rec = 0 <-> matutil_onesum_spec m n M m2 n2 M2 rc r).
Proof.
  intros rec ty m n M rest m2 n2 M2 rc r rest' H1 H2. split.
  - intros Hj. exact (judge_matutil_onesum _ _ _ _ _ _ _ _ _ _ _ _ H1 H2 Hj).
  - intros Hs. exact (judge_matutil_onesum_complete _ _ _ _ _ _ _ _ _ _ _ _ H1 H2 Hs).
Qed.

(* ---------- op 11 ---------- *)
Definition matutil_subio_spec (m n : nat) (rs cs : list nat) (rc : Z) (r : mres) : Prop :=
  all_lt m rs = true -> all_lt n cs = true -> rc = 0 /\ r = RSub m n rs cs.

Lemma natlist_eqb'_refl : forall l, natlist_eqb' l l = true.
Proof. intros l. apply natlist_eqb'_eq. reflexivity. Qed.

Theorem judge_matutil_subio_complete : forall rec ty m n M rest rs cs rc r rest',
  matutil_head rec = Some ((11, ty, (m, n, M)), rest) ->
  subio_args rest = Some ((rs, cs, rc, r), rest') ->
  matutil_subio_spec m n rs cs rc r ->
  judge_matutil rec = 0.
Proof.
  intros rec ty m n M rest rs cs rc r rest' H1 H2 Hs.
  unfold matutil_head in H1. unfold subio_args in H2. unfold matutil_subio_spec in Hs.
  jgoal H1. rewrite H2. cbv beta iota.
  destruct (all_lt m rs) eqn:Er; cbn [andb negb]; [|reflexivity].
  destruct (all_lt n cs) eqn:Ec; cbn [andb negb]; [|reflexivity].
  destruct (Hs eq_refl eq_refl) as [-> ->]. change (0 =? 0) with true. cbn [negb]. cbv iota.
  rewrite !Nat.eqb_refl, !natlist_eqb'_refl. reflexivity.
Qed.

Corollary judge_matutil_subio_iff : forall rec ty m n M rest rs cs rc r rest',
  matutil_head rec = Some ((11, ty, (m, n, M)), rest) ->
  subio_args rest = Some ((rs, cs, rc, r), rest') ->
  (judge_matutil rec = 0 <-> matutil_subio_spec m n rs cs rc r).
Proof.
  intros rec ty m n M rest rs cs rc r rest' H1 H2. split.
  - intros Hj Hr Hc. exact (judge_matutil_subio _ _ _ _ _ _ _ _ _ _ _ H1 H2 Hj Hr Hc).
  - intros Hs. exact (judge_matutil_subio_complete _ _ _ _ _ _ _ _ _ _ _ H1 H2 Hs).
Qed.

(* ---------- ops 12, 13 ---------- *)
Definition matutil_slice_spec (f : list nat -> list nat -> option (list nat)) (brs bcs irs ics : list nat)
    (rc : Z) (r : mres) : Prop :=
  match f brs irs, f bcs ics with
  | Some ers, Some ecs => rc = 0 /\ exists m' n', r = RSub m' n' ers ecs
  | _, _ => rc <> 0
  end.

Theorem judge_matutil_subslice_complete : forall rec ty m n M rest brs bcs irs ics rc r rest',
  matutil_head rec = Some ((12, ty, (m, n, M)), rest) ->
  subslice_args rest = Some ((brs, bcs, irs, ics, rc, r), rest') ->
  matutil_slice_spec sub_slice brs bcs irs ics rc r ->
  judge_matutil rec = 0.
Proof.
  intros rec ty m n M rest brs bcs irs ics rc r rest' H1 H2 Hs.
  unfold matutil_head in H1. unfold subslice_args in H2. unfold matutil_slice_spec in Hs.
  jgoal H1. rewrite H2. cbv beta iota zeta.
  destruct (sub_slice brs irs) as [ers|]; [destruct (sub_slice bcs ics) as [ecs|]|].
  - destruct Hs as [-> [m' [n' ->]]]. change (0 =? 0) with true. cbn [negb]. cbv iota.
    rewrite !natlist_eqb'_refl. reflexivity.
  - destruct (rc =? 0) eqn:E0; [apply Z.eqb_eq in E0; contradiction | reflexivity].
  - destruct (rc =? 0) eqn:E0; [apply Z.eqb_eq in E0; contradiction | reflexivity].
Qed.

Corollary judge_matutil_subslice_iff : forall rec ty m n M rest brs bcs irs ics rc r rest',
  matutil_head rec = Some ((12, ty, (m, n, M)), rest) ->
  subslice_args rest = Some ((brs, bcs, irs, ics, rc, r), rest') ->
  (judge_matutil rec = 0 <-> matutil_slice_spec sub_slice brs bcs irs ics rc r).
Proof.
  intros rec ty m n M rest brs bcs irs ics rc r rest' H1 H2. split.
  - intros Hj. exact (judge_matutil_subslice _ _ _ _ _ _ _ _ _ _ _ _ _ H1 H2 Hj).
  - intros Hs. exact (judge_matutil_subslice_complete _ _ _ _ _ _ _ _ _ _ _ _ _ H1 H2 Hs).
Qed.

Theorem judge_matutil_subunslice_complete : forall rec ty m n M rest brs bcs irs ics rc r rest',
  matutil_head rec = Some ((13, ty, (m, n, M)), rest) ->
  subslice_args rest = Some ((brs, bcs, irs, ics, rc, r), rest') ->
  matutil_slice_spec sub_unslice brs bcs irs ics rc r ->
  judge_matutil rec = 0.
Proof.
  intros rec ty m n M rest brs bcs irs ics rc r rest' H1 H2 Hs.
  unfold matutil_head in H1. unfold subslice_args in H2. unfold matutil_slice_spec in Hs.
  jgoal H1. rewrite H2. cbv beta iota zeta.
  destruct (sub_unslice brs irs) as [ers|]; [destruct (sub_unslice bcs ics) as [ecs|]|].
  - destruct Hs as [-> [m' [n' ->]]]. change (0 =? 0) with true. cbn [negb]. cbv iota.
    rewrite !natlist_eqb'_refl. reflexivity.
  - destruct (rc =? 0) eqn:E0; [apply Z.eqb_eq in E0; contradiction | reflexivity].
  - destruct (rc =? 0) eqn:E0; [apply Z.eqb_eq in E0; contradiction | reflexivity].
Qed.

Corollary judge_matutil_subunslice_iff : forall rec ty m n M rest brs bcs irs ics rc r rest',
  matutil_head rec = Some ((13, ty, (m, n, M)), rest) ->
  subslice_args rest = Some ((brs, bcs, irs, ics, rc, r), rest') ->
  (judge_matutil rec = 0 <-> matutil_slice_spec sub_unslice brs bcs irs ics rc r).
Proof.
  intros rec ty m n M rest brs bcs irs ics rc r rest' H1 H2. split.
  - intros Hj. exact (judge_matutil_subunslice _ _ _ _ _ _ _ _ _ _ _ _ _ H1 H2 Hj).
  - intros Hs. exact (judge_matutil_subunslice_complete _ _ _ _ _ _ _ _ _ _ _ _ _ H1 H2 Hs).
Qed.

(* ---------- any other operation number: malformed (code 1), never accepted ---------- *)
Theorem judge_matutil_other_op : forall rec op ty m n M rest,
  matutil_head rec = Some ((op, ty, (m, n, M)), rest) ->
  (op < 1 \/ 13 < op) ->
  judge_matutil rec = 1.
Proof.
  intros rec op ty m n M rest H1 Hop. unfold matutil_head in H1.
  unfold judge_matutil. rewrite H1. cbv beta iota zeta.
  assert (E : forall k, 1 <= k <= 13 -> (op =? k) = false) by (intros k Hk; apply Z.eqb_neq; lia).
  rewrite !E by lia. reflexivity.
Qed.

Print Assumptions judge_matutil_unary_iff.
Print Assumptions judge_matutil_det_iff.
Print Assumptions judge_matutil_submat_iff.
Print Assumptions judge_matutil_tests_iff.
Print Assumptions judge_matutil_onesum_iff.
Print Assumptions judge_matutil_subio_iff.
Print Assumptions judge_matutil_subslice_iff.
Print Assumptions judge_matutil_subunslice_iff.
Print Assumptions judge_matutil_other_op.

(* ========================================================================================== *)
(* 2b. judge_edgelist                                                                           *)
(* ========================================================================================== *)

(* literally the conclusion of judge_edgelist_sound about the decoded fields *)
Definition edgelist_spec (bytes : list Z) (rc : Z) (nn : nat) (hl : Z) (labs : list (list Z))
    (es : list (nat * nat * Z)) : Prop :=
  rc = 0 /\
  exists names, parse_edges [] (lines bytes) = Some (names, es) /\
                nn = length names /\
                (hl <> 0 -> labs = names).

Theorem judge_edgelist_complete : forall rec bytes rc nn hl labs es rest,
  edgelist_input rec = Some ((bytes, rc, nn, hl, labs, es), rest) ->
  edgelist_spec bytes rc nn hl labs es ->
  judge_edgelist rec = 0.
Proof.
  intros rec bytes rc nn hl labs es rest Hdec [-> [names [Hp [-> Hl]]]].
  unfold judge_edgelist. unfold edgelist_input in Hdec. rewrite Hdec. cbv beta iota.
  rewrite Hp. cbv beta iota. change (0 =? 0) with true. cbn [negb].
  rewrite Nat.eqb_refl. cbn [negb].
  rewrite (proj2 (list_eqb_eq _ edge_eqb edge_eqb_eq es es) eq_refl). cbn [negb].
  destruct (hl =? 0) eqn:E; cbn [negb andb]; [reflexivity|].
  apply Z.eqb_neq in E. rewrite (Hl E).
  rewrite (proj2 (list_eqb_eq _ zlist_eqb zlist_eqb_eq names names) eq_refl). reflexivity.
Qed.

Corollary judge_edgelist_iff : forall rec bytes rc nn hl labs es rest,
  edgelist_input rec = Some ((bytes, rc, nn, hl, labs, es), rest) ->
  (judge_edgelist rec = 0 <-> edgelist_spec bytes rc nn hl labs es).
Proof.
  intros rec bytes rc nn hl labs es rest Hdec. split.
  - intros Hj. destruct (judge_edgelist_sound rec Hj) as [b [r [k [h [l [e [rest' [Hdec' Hs]]]]]]]].
    rewrite Hdec in Hdec'. injection Hdec' as <- <- <- <- <- <- <-. exact Hs.
  - intros Hs. exact (judge_edgelist_complete _ _ _ _ _ _ _ _ Hdec Hs).
Qed.

(* without a decoding hypothesis: exactly the statement of judge_edgelist_sound, as an equivalence *)
Corollary judge_edgelist_iff_total : forall rec,
  judge_edgelist rec = 0 <->
  exists bytes rc nn hl labs es rest,
    edgelist_input rec = Some ((bytes, rc, nn, hl, labs, es), rest) /\
    rc = 0 /\
    exists names, parse_edges [] (lines bytes) = Some (names, es) /\
                  nn = length names /\
                  (hl <> 0 -> labs = names).
Proof.
  intros rec. split; [apply judge_edgelist_sound|].
  intros [b [r [k [h [l [e [rest [Hdec Hs]]]]]]]]. exact (judge_edgelist_complete _ _ _ _ _ _ _ _ Hdec Hs).
Qed.

Print Assumptions judge_edgelist_complete.
Print Assumptions judge_edgelist_iff.
Print Assumptions judge_edgelist_iff_total.

(* ========================================================================================== *)
(* 3. the command-line judges                                                                   *)
(* ========================================================================================== *)

Lemma out_tail_complete : forall (rc : Z) (hasout : bool) (outfmt ty : Z) (outb : list Z) (m2 n2 : nat) (M2 : mat)
    (e1 e2 e3 e4 : Z),
  rc = 0 -> hasout = true -> parse outfmt ty outb = TOk m2 n2 M2 ->
  (if negb (rc =? 0) then e1
   else if negb hasout then e2
   else match parse outfmt ty outb with
        | TErr => e3
        | TOk m' n' M' => if Nat.eqb m' m2 && Nat.eqb n' n2 && mat_eqb M' M2 then 0 else e4
        end) = 0.
Proof.
  intros rc hasout outfmt ty outb m2 n2 M2 e1 e2 e3 e4 -> -> ->.
  change (0 =? 0) with true. cbn [negb]. rewrite triple_eqb_refl. reflexivity.
Qed.

(* ---------- 3.1 judge_climat ---------- *)
(* literally the conclusion of judge_climat_sound *)
Definition climat_spec (infmt outfmt : Z) (tr : bool) (task : Z) (hasS : bool) (rs cs : list nat) (inb : list Z)
    (rc : Z) (hasout : bool) (outb : list Z) : Prop :=
  (forall m n M m2 n2 M2,
     parse infmt 1 inb = TOk m n M ->
     climat_expected hasS rs cs tr task (m, n, M) = Some (m2, n2, M2) ->
     rc = 0 /\ hasout = true /\ parse outfmt 1 outb = TOk m2 n2 M2) /\
  (parse infmt 1 inb = TErr -> hasout = false \/ outb = []).

Theorem judge_climat_complete : forall rec infmt outfmt tr task hasS rs cs inb rc hasout outb rest,
  climat_input rec = Some ((infmt, outfmt, tr, task, hasS, rs, cs, inb, rc, hasout, outb), rest) ->
  climat_spec infmt outfmt tr task hasS rs cs inb rc hasout outb ->
  judge_climat rec = 0.
Proof.
  intros rec infmt outfmt tr task hasS rs cs inb rc hasout outb rest Hdec [Hok Herr].
  unfold judge_climat. unfold climat_input in Hdec. rewrite Hdec. cbv beta iota.
  destruct (parse infmt 1 inb) as [m n M|].
  - destruct (climat_expected hasS rs cs tr task (m, n, M)) as [[[m2 n2] M2]|] eqn:HE; [|reflexivity].
    destruct (Hok m n M m2 n2 M2 eq_refl HE) as [H1 [H2 H3]].
    apply out_tail_complete; assumption.
  - destruct (Herr eq_refl) as [-> | ->]; [reflexivity|]. destruct hasout; reflexivity.
Qed.

Corollary judge_climat_iff : forall rec infmt outfmt tr task hasS rs cs inb rc hasout outb rest,
  climat_input rec = Some ((infmt, outfmt, tr, task, hasS, rs, cs, inb, rc, hasout, outb), rest) ->
  (judge_climat rec = 0 <-> climat_spec infmt outfmt tr task hasS rs cs inb rc hasout outb).
Proof.
  intros rec infmt outfmt tr task hasS rs cs inb rc hasout outb rest Hdec. split.
  - intros Hj. exact (judge_climat_sound _ _ _ _ _ _ _ _ _ _ _ _ _ Hdec Hj).
  - intros Hs. exact (judge_climat_complete _ _ _ _ _ _ _ _ _ _ _ _ _ Hdec Hs).
Qed.

(* ---------- 3.2 judge_climatd ---------- *)
(* literally the conclusion of judge_climatd_sound under its hypotheses *)
Definition climatd_spec (infmt outfmt : Z) (tr : bool) (task : Z) (hasS : bool) (rs cs : list nat) (inb : list Z)
    (rc : Z) (hasout : bool) (outb : list Z) : Prop :=
  forall m n Sg m2 n2 M2,
    task = 1 \/ task = 2 ->
    parse_dbl_signs infmt inb = TOk m n Sg ->
    climat_expected hasS rs cs tr task (m, n, Sg) = Some (m2, n2, M2) ->
    rc = 0 /\ hasout = true /\ parse outfmt 1 outb = TOk m2 n2 M2.

Theorem judge_climatd_complete : forall rec infmt outfmt tr task hasS rs cs inb rc hasout outb rest,
  climatd_input rec = Some ((infmt, outfmt, tr, task, hasS, rs, cs, inb, rc, hasout, outb), rest) ->
  climatd_spec infmt outfmt tr task hasS rs cs inb rc hasout outb ->
  judge_climatd rec = 0.
Proof.
  intros rec infmt outfmt tr task hasS rs cs inb rc hasout outb rest Hdec Hs.
  unfold judge_climatd. unfold climatd_input, climat_input in Hdec. rewrite Hdec. cbv beta iota.
  destruct ((task =? 1) || (task =? 2)) eqn:Et; cbn [negb]; [|reflexivity].
  assert (Ht : task = 1 \/ task = 2).
  { apply orb_true_iff in Et. destruct Et as [E|E]; apply Z.eqb_eq in E; auto. }
  destruct (parse_dbl_signs infmt inb) as [m n Sg|] eqn:HP; [|reflexivity].
  destruct (climat_expected hasS rs cs tr task (m, n, Sg)) as [[[m2 n2] M2]|] eqn:HE; [|reflexivity].
  destruct (Hs m n Sg m2 n2 M2 Ht HP HE) as [H1 [H2 H3]].
  apply out_tail_complete; assumption.
Qed.

Corollary judge_climatd_iff : forall rec infmt outfmt tr task hasS rs cs inb rc hasout outb rest,
  climatd_input rec = Some ((infmt, outfmt, tr, task, hasS, rs, cs, inb, rc, hasout, outb), rest) ->
  (judge_climatd rec = 0 <-> climatd_spec infmt outfmt tr task hasS rs cs inb rc hasout outb).
Proof.
  intros rec infmt outfmt tr task hasS rs cs inb rc hasout outb rest Hdec. split.
  - intros Hj m n Sg m2 n2 M2 Ht HP HE.
    exact (judge_climatd_sound _ _ _ _ _ _ _ _ _ _ _ _ _ _ _ _ _ _ _ Hdec Hj Ht HP HE).
  - intros Hs. exact (judge_climatd_complete _ _ _ _ _ _ _ _ _ _ _ _ _ Hdec Hs).
Qed.

(* ---------- 3.3 judge_cligraph ---------- *)
(* literally the conclusion of judge_cligraph_sound under its hypotheses *)
Definition cligraph_spec (signed tr : bool) (outfmt : Z) (inb : list Z) (rc : Z) (hasout : bool) (outb : list Z) : Prop :=
  forall G f c T C,
    edgelist_graph inb = Some (G, f, c) ->
    is_spanning_forest G f = true ->
    lookup_all (g_edges G) f = Some T ->
    lookup_all (g_edges G) c = Some C ->
    rc = 0 /\ hasout = true /\
    parse outfmt 0 outb =
      (if tr then TOk (List.length C) (List.length T) (transpose (List.length T) (List.length C) (rep_matrix signed T C))
       else TOk (List.length T) (List.length C) (rep_matrix signed T C)).

Theorem judge_cligraph_complete : forall rec signed tr outfmt inb rc hasout outb rest,
  cligraph_input rec = Some ((signed, tr, outfmt, inb, rc, hasout, outb), rest) ->
  cligraph_spec signed tr outfmt inb rc hasout outb ->
  judge_cligraph rec = 0.
Proof.
  intros rec signed tr outfmt inb rc hasout outb rest Hdec Hs.
  unfold judge_cligraph. unfold cligraph_input in Hdec. rewrite Hdec. cbv beta iota.
  destruct (edgelist_graph inb) as [[[G f] c]|] eqn:HG; [|reflexivity]. cbv beta iota.
  destruct (is_spanning_forest G f) eqn:HF; cbn [negb]; [|reflexivity].
  destruct (lookup_all (g_edges G) f) as [T|] eqn:HT; [|reflexivity].
  destruct (lookup_all (g_edges G) c) as [C|] eqn:HC; [|reflexivity].
  cbv beta iota zeta.
  destruct (Hs G f c T C HG HF HT HC) as [H1 [H2 H3]].
  destruct tr; cbv beta iota; apply out_tail_complete; assumption.
Qed.

Corollary judge_cligraph_iff : forall rec signed tr outfmt inb rc hasout outb rest,
  cligraph_input rec = Some ((signed, tr, outfmt, inb, rc, hasout, outb), rest) ->
  (judge_cligraph rec = 0 <-> cligraph_spec signed tr outfmt inb rc hasout outb).
Proof.
  intros rec signed tr outfmt inb rc hasout outb rest Hdec. split.
  - intros Hj G f c T C HG HF HT HC.
    exact (judge_cligraph_sound _ _ _ _ _ _ _ _ _ _ _ _ _ _ Hdec Hj HG HF HT HC).
  - intros Hs. exact (judge_cligraph_complete _ _ _ _ _ _ _ _ _ Hdec Hs).
Qed.

(* ---------- 3.4 judge_cliverdict ---------- *)
(* the conclusion of judge_cliverdict_sound under its hypotheses, plus the clause the judge checks for a malformed
   input text and the soundness theorem does not state:
     (+) parse infmt 1 inb = TErr -> no "Matrix IS " verdict line at all            (code 353) *)
Definition cliverdict_spec (tool variant infmt : Z) (inb : list Z) (rc : Z) (txt : list Z) : Prop :=
  (forall m n M name expected,
     parse infmt 1 inb = TOk m n M ->
     verdict_spec tool variant m n M = Some (name, expected) ->
     rc = 0 /\
     contains (List.app (zs "Matrix IS "%string) (zs name)) txt = expected /\
     contains (List.app (zs "NOT "%string) (zs name)) txt = negb expected) /\
  (parse infmt 1 inb = TErr -> contains (zs "Matrix IS "%string) txt = false).            (* + *)

Theorem judge_cliverdict_complete : forall rec tool variant infmt inb rc txt rest,
  cliverdict_input rec = Some ((tool, variant, infmt, inb, rc, txt), rest) ->
  cliverdict_spec tool variant infmt inb rc txt ->
  judge_cliverdict rec = 0.
Proof.
  intros rec tool variant infmt inb rc txt rest Hdec [Hok Herr].
  unfold judge_cliverdict. unfold cliverdict_input in Hdec. rewrite Hdec. cbv beta iota.
  destruct (parse infmt 1 inb) as [m n M|].
  - destruct (verdict_spec tool variant m n M) as [[name expected]|] eqn:HV; [|reflexivity].
    cbv beta iota zeta.
    destruct (Hok m n M name expected eq_refl HV) as [-> [Hy Hn]].
    rewrite Hy, Hn. change (0 =? 0) with true. cbn [negb]. destruct expected; reflexivity.
  - rewrite (Herr eq_refl). reflexivity.
Qed.

Theorem judge_cliverdict_sound' : forall rec tool variant infmt inb rc txt rest,
  cliverdict_input rec = Some ((tool, variant, infmt, inb, rc, txt), rest) ->
  judge_cliverdict rec = 0 ->
  cliverdict_spec tool variant infmt inb rc txt.
Proof.
  intros rec tool variant infmt inb rc txt rest Hdec Hj. split.
  - intros m n M name expected HP HV.
    exact (judge_cliverdict_sound _ _ _ _ _ _ _ _ _ _ _ _ _ Hdec Hj HP HV).
  - intros HP. unfold judge_cliverdict in Hj. unfold cliverdict_input in Hdec. rewrite Hdec in Hj.
    cbv beta iota in Hj. rewrite HP in Hj.
    destruct (contains (zs "Matrix IS "%string) txt); [discriminate Hj | reflexivity].
Qed.

Corollary judge_cliverdict_iff : forall rec tool variant infmt inb rc txt rest,
  cliverdict_input rec = Some ((tool, variant, infmt, inb, rc, txt), rest) ->
  (judge_cliverdict rec = 0 <-> cliverdict_spec tool variant infmt inb rc txt).
Proof.
  intros. split; [eapply judge_cliverdict_sound' | eapply judge_cliverdict_complete]; eassumption.
Qed.

Print Assumptions judge_climat_iff.
Print Assumptions judge_climatd_iff.
Print Assumptions judge_cligraph_iff.
Print Assumptions judge_cliverdict_iff.

(* ---------- 3.5 judge_clisub ---------- *)
(* judge_clisub_sound is strictly weaker than the judge (nothing about tool 14, the reduced submatrix; nothing about the
   size header of the file for tools other than 0/4/5).  clisub_spec characterises acceptance exactly; it implies the
   conclusion of judge_clisub_sound (clisub_spec_sound below).  Added: the file is a submatrix file of the input's
   size whenever one is written (371); tool 14: increasing index lists, empty iff series-parallel, SP-irreducible (375);
   tool <> 14: a file is written only for a matrix without the property (374), and one must be written then (373). *)
Definition clisub_spec (tool variant infmt : Z) (inb : list Z) (rc : Z) (hasout : bool) (outb : list Z) : Prop :=
  forall m n M name has_property,
    parse infmt 1 inb = TOk m n M ->
    verdict_spec (if tool =? 14 then 4 else tool) variant m n M = Some (name, has_property) ->
    rc = 0 /\
    (hasout = false -> has_property = true \/ tool = 14) /\
    (hasout = true ->
       exists rs cs, parse_submat_file outb = Some (m, n, rs, cs) /\
         (tool = 14 ->
            strictly_increasing rs = true /\ strictly_increasing cs = true /\
            ((List.length rs + List.length cs = 0)%nat <-> has_property = true) /\
            irreducible (variant =? 0) (submat M rs cs) (all_true (List.length rs)) (all_true (List.length cs)) = true) /\
         (tool <> 14 ->
            has_property = false /\
            (tool = 0 -> check_min_violator m n M rs cs = true) /\
            (tool = 4 -> check_sp_violator (variant =? 0) m n M rs cs = true) /\
            (tool = 5 -> check_unbalanced m n M rs cs = true))).

Theorem judge_clisub_complete : forall rec tool variant infmt inb rc hasout outb rest,
  clisub_input rec = Some ((tool, variant, infmt, inb, rc, hasout, outb), rest) ->
  clisub_spec tool variant infmt inb rc hasout outb ->
  judge_clisub rec = 0.
Proof.
  intros rec tool variant infmt inb rc hasout outb rest Hdec Hs.
  unfold judge_clisub. unfold clisub_input in Hdec. rewrite Hdec. cbv beta iota.
  destruct (parse infmt 1 inb) as [m n M|] eqn:HP; [|reflexivity]. cbv beta iota zeta.
  destruct (verdict_spec (if tool =? 14 then 4 else tool) variant m n M) as [[name hp]|] eqn:HV; [|reflexivity].
  cbv beta iota.
  destruct (Hs m n M name hp HP HV) as [-> [Hno Hyes]]. clear Hs.
  change (0 =? 0) with true. cbn [negb].
  destruct hasout; cbn [negb].
  - destruct (Hyes eq_refl) as [rs [cs [-> [H14 Hn14]]]]. cbv beta iota.
    rewrite !Nat.eqb_refl. cbn [andb negb].
    destruct (tool =? 14) eqn:E14.
    + apply Z.eqb_eq in E14. destruct (H14 E14) as [S1 [S2 [Hiff Hirr]]].
      rewrite S1, S2. cbn [andb negb].
      assert (Eb : Bool.eqb (Nat.eqb (List.length rs + List.length cs) 0) hp = true).
      { apply eqb_bool_iff. rewrite Nat.eqb_eq. exact Hiff. }
      rewrite Eb. cbn [negb]. rewrite Hirr. reflexivity.
    + apply Z.eqb_neq in E14. destruct (Hn14 E14) as [-> [H0 [H4 H5]]].
      destruct (tool =? 0) eqn:E0; [apply Z.eqb_eq in E0; rewrite (H0 E0); reflexivity|].
      destruct (tool =? 4) eqn:E4; [apply Z.eqb_eq in E4; rewrite (H4 E4); reflexivity|].
      destruct (tool =? 5) eqn:E5; [apply Z.eqb_eq in E5; rewrite (H5 E5); reflexivity|].
      reflexivity.
  - destruct (Hno eq_refl) as [-> | ->]; [reflexivity|]. change (14 =? 14) with true. rewrite orb_true_r. reflexivity.
Qed.

Theorem judge_clisub_sound' : forall rec tool variant infmt inb rc hasout outb rest,
  clisub_input rec = Some ((tool, variant, infmt, inb, rc, hasout, outb), rest) ->
  judge_clisub rec = 0 ->
  clisub_spec tool variant infmt inb rc hasout outb.
Proof.
  intros rec tool variant infmt inb rc hasout outb rest Hdec Hj m n M name hp HP HV.
  unfold judge_clisub in Hj. unfold clisub_input in Hdec. rewrite Hdec in Hj. cbv beta iota in Hj.
  rewrite HP in Hj. cbv beta iota zeta in Hj. rewrite HV in Hj. cbv beta iota in Hj.
  kif Hj Hrc. apply Z.eqb_eq in Hrc. split; [exact Hrc|].
  destruct hasout; cbn [negb] in Hj.
  - split; [intros H; discriminate H|]. intros _.
    destruct (parse_submat_file outb) as [[[[m' n'] rs] cs]|]; [|discriminate Hj].
    kif Hj Esz. apply andb_true_iff in Esz. destruct Esz as [E1 E2]. apply Nat.eqb_eq in E1, E2. subst m' n'.
    exists rs, cs. split; [reflexivity|].
    destruct (tool =? 14) eqn:E14.
    + apply Z.eqb_eq in E14. split; [|intros H; contradiction].
      intros _. kif Hj Esi. kif Hj Eb. kif Hj Eirr.
      apply andb_true_iff in Esi. destruct Esi as [S1 S2].
      split; [exact S1|]. split; [exact S2|]. split; [|first [exact Eirr | reflexivity]].
      apply eqb_bool_iff_conv in Eb. rewrite <- Eb. symmetry. apply Nat.eqb_eq.
    + apply Z.eqb_neq in E14. split; [intros H; contradiction|]. intros _.
      destruct hp; [discriminate Hj|]. split; [reflexivity|].
      split; [|split].
      * intros ->. change (0 =? 0) with true in Hj. cbv iota in Hj. kif Hj E. first [exact E | reflexivity].
      * intros ->. change (4 =? 0) with false in Hj. change (4 =? 4) with true in Hj. cbv iota in Hj. kif Hj E. first [exact E | reflexivity].
      * intros ->. change (5 =? 0) with false in Hj. change (5 =? 4) with false in Hj. change (5 =? 5) with true in Hj.
        cbv iota in Hj. kif Hj E. first [exact E | reflexivity].
  - split; [|intros H; discriminate H]. intros _.
    destruct hp; [left; reflexivity|]. cbn [orb] in Hj.
    destruct (tool =? 14) eqn:E14; [|discriminate Hj]. right. apply Z.eqb_eq. exact E14.
Qed.

Corollary judge_clisub_iff : forall rec tool variant infmt inb rc hasout outb rest,
  clisub_input rec = Some ((tool, variant, infmt, inb, rc, hasout, outb), rest) ->
  (judge_clisub rec = 0 <-> clisub_spec tool variant infmt inb rc hasout outb).
Proof.
  intros. split; [eapply judge_clisub_sound' | eapply judge_clisub_complete]; eassumption.
Qed.

(* clisub_spec implies the conclusion of judge_clisub_sound *)
Corollary clisub_spec_sound : forall tool variant infmt inb rc hasout outb m n M name has_property,
  clisub_spec tool variant infmt inb rc hasout outb ->
  parse infmt 1 inb = TOk m n M ->
  verdict_spec (if tool =? 14 then 4 else tool) variant m n M = Some (name, has_property) ->
  rc = 0 /\
  (tool = 0 -> has_property = false ->
     exists rs cs, hasout = true /\ parse_submat_file outb = Some (m, n, rs, cs) /\
                   check_min_violator m n M rs cs = true) /\
  (tool = 4 -> has_property = false ->
     exists rs cs, hasout = true /\ parse_submat_file outb = Some (m, n, rs, cs) /\
                   check_sp_violator (variant =? 0) m n M rs cs = true) /\
  (tool = 5 -> has_property = false ->
     exists rs cs, hasout = true /\ parse_submat_file outb = Some (m, n, rs, cs) /\
                   check_unbalanced m n M rs cs = true) /\
  (tool <> 14 -> has_property = true -> hasout = false).
Proof.
  intros tool variant infmt inb rc hasout outb m n M name hp Hs HP HV.
  destruct (Hs m n M name hp HP HV) as [Hrc [Hno Hyes]]. split; [exact Hrc|].
  assert (Hout : tool <> 14 -> hp = false -> hasout = true).
  { intros Ht Hp. destruct hasout; [reflexivity|]. destruct (Hno eq_refl) as [H|H]; [congruence | contradiction]. }
  split; [|split; [|split]].
  - intros Ht Hp. assert (Hn : tool <> 14) by (subst tool; discriminate).
    pose proof (Hout Hn Hp) as Ho. destruct (Hyes Ho) as [rs [cs [Hf [_ Hn14]]]].
    destruct (Hn14 Hn) as [_ [H0 _]]. exists rs, cs. auto.
  - intros Ht Hp. assert (Hn : tool <> 14) by (subst tool; discriminate).
    pose proof (Hout Hn Hp) as Ho. destruct (Hyes Ho) as [rs [cs [Hf [_ Hn14]]]].
    destruct (Hn14 Hn) as [_ [_ [H4 _]]]. exists rs, cs. auto.
  - intros Ht Hp. assert (Hn : tool <> 14) by (subst tool; discriminate).
    pose proof (Hout Hn Hp) as Ho. destruct (Hyes Ho) as [rs [cs [Hf [_ Hn14]]]].
    destruct (Hn14 Hn) as [_ [_ [_ H5]]]. exists rs, cs. auto.
  - intros Hn Hp. destruct hasout; [|reflexivity].
    destruct (Hyes eq_refl) as [rs [cs [_ [_ Hn14]]]]. destruct (Hn14 Hn) as [Hf _]. congruence.
Qed.

Print Assumptions judge_clisub_iff.

(* ---------- 3.6 judge_clictu ---------- *)
(* judge_clictu_sound covers mode 2 only.  clictu_spec characterises acceptance exactly: its first clause is literally
   judge_clictu_sound (conclusion under its hypotheses); added is the clause for the other mode (cmr-ctu -N, oracle up
   to 12 cells): the tool succeeds (380); for a complement-TU matrix nothing is written (385); otherwise a file is
   written (381) that parses (382) to a complement of the input that is not TU (384). *)
Definition clictu_spec (mode r c infmt outfmt : Z) (inb : list Z) (rc : Z) (hasout : bool) (outb : list Z) : Prop :=
  forall m n M,
    parse infmt 0 inb = TOk m n M -> is_binary M = true ->
    (mode = 2 ->
       opt_lt (opt_of r) m && opt_lt (opt_of c) n = true ->
       (r <? 0) && (c <? 0) = false ->
       rc = 0 /\ hasout = true /\ parse outfmt 0 outb = TOk m n (complement_spec m n M (opt_of r) (opt_of c))) /\
    (mode <> 2 -> (m * n <= 12)%nat ->
       rc = 0 /\
       (ctu_bf m n M = true -> hasout = false \/ outb = []) /\
       (ctu_bf m n M = false ->
          hasout = true /\
          exists M', parse outfmt 0 outb = TOk m n M' /\
            existsb (fun ro => existsb (fun co => mat_eqb M' (complement_spec m n M ro co)) (all_opts n)) (all_opts m) = true /\
            tu_bf m n M' = false)).

Theorem judge_clictu_complete : forall rec mode r c infmt outfmt inb rc hasout outb rest,
  clictu_input rec = Some ((mode, r, c, infmt, outfmt, inb, rc, hasout, outb), rest) ->
  clictu_spec mode r c infmt outfmt inb rc hasout outb ->
  judge_clictu rec = 0.
Proof.
  intros rec mode r c infmt outfmt inb rc hasout outb rest Hdec Hs.
  unfold judge_clictu. unfold clictu_input in Hdec. rewrite Hdec. cbv beta iota.
  destruct (parse infmt 0 inb) as [m n M|] eqn:HP; [|reflexivity]. cbv beta iota.
  destruct (is_binary M) eqn:HB; cbn [negb]; [|reflexivity].
  destruct (Hs m n M HP HB) as [H2 Hn2]. clear Hs.
  destruct (mode =? 2) eqn:Em.
  - apply Z.eqb_eq in Em.
    destruct (opt_lt (opt_of r) m && opt_lt (opt_of c) n) eqn:HO; cbn [negb orb]; [|reflexivity].
    destruct ((r <? 0) && (c <? 0)) eqn:HN; [reflexivity|].
    destruct (H2 Em eq_refl eq_refl) as [E1 [E2 E3]]. apply out_tail_complete; assumption.
  - apply Z.eqb_neq in Em.
    destruct (Nat.leb (m * n) 12) eqn:Hsz; cbn [negb]; [|reflexivity]. apply Nat.leb_le in Hsz.
    destruct (Hn2 Em Hsz) as [-> [Hctu Hnctu]].
    change (0 =? 0) with true. cbn [negb].
    destruct (ctu_bf m n M) eqn:Hc.
    + destruct (Hctu eq_refl) as [-> | ->]; [reflexivity | destruct hasout; reflexivity].
    + destruct (Hnctu eq_refl) as [-> [M' [-> [Hex Htu]]]]. cbn [negb]. cbv beta iota.
      rewrite !Nat.eqb_refl, Hex, Htu. reflexivity.
Qed.

Theorem judge_clictu_sound' : forall rec mode r c infmt outfmt inb rc hasout outb rest,
  clictu_input rec = Some ((mode, r, c, infmt, outfmt, inb, rc, hasout, outb), rest) ->
  judge_clictu rec = 0 ->
  clictu_spec mode r c infmt outfmt inb rc hasout outb.
Proof.
  intros rec mode r c infmt outfmt inb rc hasout outb rest Hdec Hj m n M HP HB. split.
  - intros Hm HO HN. exact (judge_clictu_sound _ _ _ _ _ _ _ _ _ _ _ _ _ _ Hdec Hj Hm HP HB HO HN).
  - intros Hm Hsz.
    unfold judge_clictu in Hj. unfold clictu_input in Hdec. rewrite Hdec in Hj. cbv beta iota in Hj.
    rewrite HP in Hj. cbv beta iota in Hj. rewrite HB in Hj. cbn [negb] in Hj.
    apply Z.eqb_neq in Hm. rewrite Hm in Hj. apply Nat.leb_le in Hsz. rewrite Hsz in Hj. cbn [negb] in Hj.
    kif Hj Hrc. apply Z.eqb_eq in Hrc. split; [exact Hrc|].
    destruct (ctu_bf m n M) eqn:Hc.
    + split; [|intros H; discriminate H]. intros _.
      destruct hasout; [|left; reflexivity]. right.
      destruct outb as [|x outb]; [reflexivity|]. discriminate Hj.
    + split; [intros H; discriminate H|]. intros _.
      destruct hasout; cbn [negb] in Hj; [|discriminate Hj]. split; [reflexivity|].
      destruct (parse outfmt 0 outb) as [m' n' M'|]; [|discriminate Hj].
      kif Hj E. apply andb_true_iff in E. destruct E as [E Htu]. apply andb_true_iff in E. destruct E as [E Hex].
      apply andb_true_iff in E. destruct E as [E1 E2]. apply Nat.eqb_eq in E1, E2. subst m' n'.
      apply negb_true_iff in Htu. exists M'. auto.
Qed.

Corollary judge_clictu_iff : forall rec mode r c infmt outfmt inb rc hasout outb rest,
  clictu_input rec = Some ((mode, r, c, infmt, outfmt, inb, rc, hasout, outb), rest) ->
  (judge_clictu rec = 0 <-> clictu_spec mode r c infmt outfmt inb rc hasout outb).
Proof.
  intros. split; [eapply judge_clictu_sound' | eapply judge_clictu_complete]; eassumption.
Qed.

Print Assumptions judge_clictu_iff.

(* ---------- 3.7 judge_cligraphout ---------- *)
(* judge_cligraphout_sound covers hasout = true only.  cligraphout_spec characterises acceptance exactly: its second
   clause is literally judge_cligraphout_sound; added is the clause for hasout = false: for an unsigned (co)graphicness
   test on a small matrix the absence of a graph is accepted only if the brute-force oracle says "not (co)graphic" (365). *)
Definition cligraphout_spec (signed co : bool) (infmt : Z) (inb : list Z) (rc : Z) (hasout : bool) (outb : list Z) : Prop :=
  forall m n M,
    parse infmt 1 inb = TOk m n M ->
    (if signed then is_ternary M else is_binary M) = true ->
    rc = 0 /\
    (hasout = true ->
       exists G rowedges coledges,
         edgelist_graph outb = Some (G, rowedges, coledges) /\
         List.length rowedges = m /\ List.length coledges = n /\
         let '(f, c, MM) := if co then (coledges, rowedges, transpose m n M) else (rowedges, coledges, M) in
         is_spanning_forest G f = true /\
         exists T C, lookup_all (g_edges G) f = Some T /\ lookup_all (g_edges G) c = Some C /\
                     rep_matrix signed T C = MM) /\
    (hasout = false -> signed = false ->
       ((if co then n else m) <= 4)%nat -> ((if co then m else n) <= 6)%nat ->
       (if co then graphic_bf n m (transpose m n M) else graphic_bf m n M) = false).

Theorem judge_cligraphout_complete : forall rec signed co infmt inb rc hasout outb rest,
  cligraphout_input rec = Some ((signed, co, infmt, inb, rc, hasout, outb), rest) ->
  cligraphout_spec signed co infmt inb rc hasout outb ->
  judge_cligraphout rec = 0.
Proof.
  intros rec signed co infmt inb rc hasout outb rest Hdec Hs.
  unfold judge_cligraphout. unfold cligraphout_input in Hdec. rewrite Hdec. cbv beta iota.
  destruct (parse infmt 1 inb) as [m n M|] eqn:HP; [|reflexivity]. cbv beta iota.
  destruct (if signed then is_ternary M else is_binary M) eqn:HK; cbn [negb]; [|reflexivity].
  destruct (Hs m n M HP HK) as [-> [Hyes Hno]]. clear Hs.
  change (0 =? 0) with true. cbn [negb].
  destruct hasout; cbn [negb].
  - destruct (Hyes eq_refl) as [G [re [ce [-> [E1 [E2 Hrest]]]]]]. cbv beta iota.
    rewrite E1, E2, !Nat.eqb_refl. cbn [andb negb].
    destruct co; cbv beta iota zeta in Hrest |- *;
      destruct Hrest as [-> [T [C [-> [-> <-]]]]]; cbn [negb]; rewrite mat_eqb_refl; reflexivity.
  - specialize (Hno eq_refl).
    destruct signed; cbn [negb andb]; [reflexivity|].
    destruct (Nat.leb (if co then n else m) 4) eqn:L1; cbn [andb]; [|reflexivity].
    destruct (Nat.leb (if co then m else n) 6) eqn:L2; cbn [andb]; [|reflexivity].
    apply Nat.leb_le in L1, L2. rewrite (Hno eq_refl L1 L2). reflexivity.
Qed.

Theorem judge_cligraphout_sound' : forall rec signed co infmt inb rc hasout outb rest,
  cligraphout_input rec = Some ((signed, co, infmt, inb, rc, hasout, outb), rest) ->
  judge_cligraphout rec = 0 ->
  cligraphout_spec signed co infmt inb rc hasout outb.
Proof.
  intros rec signed co infmt inb rc hasout outb rest Hdec Hj m n M HP HK.
  destruct hasout.
  - destruct (judge_cligraphout_sound _ _ _ _ _ _ _ _ _ _ _ _ Hdec Hj HP HK eq_refl) as [Hrc Hex].
    split; [exact Hrc|]. split; [intros _; exact Hex | intros H; discriminate H].
  - unfold judge_cligraphout in Hj. unfold cligraphout_input in Hdec. rewrite Hdec in Hj. cbv beta iota in Hj.
    rewrite HP in Hj. cbv beta iota in Hj. rewrite HK in Hj. cbn [negb] in Hj.
    kif Hj Hrc. apply Z.eqb_eq in Hrc. split; [exact Hrc|]. split; [intros H; discriminate H|].
    intros _ -> L1 L2. apply Nat.leb_le in L1, L2. cbn [negb andb] in Hj. rewrite L1, L2 in Hj. cbn [andb] in Hj.
    destruct (if co then graphic_bf n m (transpose m n M) else graphic_bf m n M); [discriminate Hj | reflexivity].
Qed.

Corollary judge_cligraphout_iff : forall rec signed co infmt inb rc hasout outb rest,
  cligraphout_input rec = Some ((signed, co, infmt, inb, rc, hasout, outb), rest) ->
  (judge_cligraphout rec = 0 <-> cligraphout_spec signed co infmt inb rc hasout outb).
Proof.
  intros. split; [eapply judge_cligraphout_sound' | eapply judge_cligraphout_complete]; eassumption.
Qed.

Print Assumptions judge_cligraphout_iff.

(* ========================================================================================== *)
(* 4a. judge_stack                                                                              *)
(* ========================================================================================== *)

Definition stack_input : dec (bool * list (Z * Z * Z)) := d <- dbool ;; ev <- dlist dev ;; dend (d, ev).

(* literally the conclusion of judge_stack_sound about the decoded fields *)
Definition stack_spec (dbg : bool) (evs : list (Z * Z * Z)) : Prop :=
  let ops := map op_of evs in
  Forall ev_ok evs /\
  s_run dbg ops s_init = Some s_init /\
  pending ops [] = Some [] /\
  usages_match dbg evs s_init.

Lemma usages_match_replay : forall d ev s, usages_match d ev s ->
  exists s', replay d ev s = inr s' /\ s_run d (map op_of ev) s = Some s'.
Proof.
  intros d. induction ev as [|[[k sz] u] ev IH]; intros s HM.
  - exists s. split; reflexivity.
  - cbn [usages_match] in HM. destruct HM as [s1 [E [U HM]]].
    assert (Es : s_step d s (op_of (k, sz, u)) = if k =? 1 then s_alloc d sz s else s_free s).
    { unfold op_of. cbn [fst snd]. destruct (k =? 1); reflexivity. }
    cbn [replay map s_run]. rewrite E. rewrite Es in E. rewrite E. cbn [snd] in U. rewrite U, Z.eqb_refl.
    apply IH. exact HM.
Qed.

Theorem judge_stack_complete : forall rec dbg evs rest,
  stack_input rec = Some ((dbg, evs), rest) ->
  stack_spec dbg evs ->
  judge_stack rec = 0.
Proof.
  intros rec dbg evs rest Hdec [Hok [Hrun [_ HM]]].
  unfold judge_stack. unfold stack_input in Hdec. rewrite Hdec. cbv beta iota.
  assert (F : forallb (fun e : Z * Z * Z => let '(k, sz, _) := e in
                         ((k =? 1) && (0 <=? sz) && (sz <? 2 ^ 40)) || (k =? 2)) evs = true).
  { apply forallb_forall. intros [[k sz] u] Hin. rewrite Forall_forall in Hok. specialize (Hok _ Hin).
    unfold ev_ok in Hok. cbn [fst snd] in Hok. destruct Hok as [[-> [H1 H2]] | ->].
    - apply Z.leb_le in H1. apply Z.ltb_lt in H2. rewrite H1, H2. reflexivity.
    - apply orb_true_r. }
  rewrite F. cbn [negb].
  destruct (usages_match_replay _ _ _ HM) as [s' [HR HS]].
  rewrite HR. rewrite Hrun in HS. injection HS as <-. reflexivity.
Qed.

Corollary judge_stack_iff : forall rec dbg evs rest,
  stack_input rec = Some ((dbg, evs), rest) ->
  (judge_stack rec = 0 <-> stack_spec dbg evs).
Proof.
  intros rec dbg evs rest Hdec. split.
  - intros Hj. destruct (judge_stack_sound rec Hj) as [d [ev [D Hs]]].
    unfold stack_input in Hdec. rewrite Hdec in D. injection D as <- <- _. exact Hs.
  - intros Hs. exact (judge_stack_complete _ _ _ _ Hdec Hs).
Qed.

Print Assumptions judge_stack_complete.
Print Assumptions judge_stack_iff.

(* ========================================================================================== *)
(* 4b. judge_tlimit, judge_hist, judge_threads                                                  *)
(* ========================================================================================== *)

(* literally the conclusion of judge_tlimit_sound about the decoded fields *)
Definition tlimit_spec (N : Z) (runs : list trun) : Prop :=
  Forall (fun r => 0 <= t_k r <= N) runs /\ Forall trun_ok runs.

Theorem judge_tlimit_complete : forall rec sub N runs rest,
  tlimit_input rec = Some ((sub, N, runs), rest) ->
  tlimit_spec N runs ->
  judge_tlimit rec = 0.
Proof.
  intros rec sub N runs rest Hdec [Hk Hok].
  unfold judge_tlimit. unfold tlimit_input in Hdec. rewrite Hdec. cbv beta iota.
  assert (E : ks_in_range N runs = true).
  { unfold ks_in_range. apply forallb_forall. intros r Hr. rewrite Forall_forall in Hk. specialize (Hk r Hr).
    apply andb_true_iff. split; apply Z.leb_le; lia. }
  rewrite E. cbn [negb]. apply first_code_0. eapply Forall_impl; [|exact Hok].
  intros r Hr. apply trun_code_0. exact Hr.
Qed.

Corollary judge_tlimit_iff : forall rec sub N runs rest,
  tlimit_input rec = Some ((sub, N, runs), rest) ->
  (judge_tlimit rec = 0 <-> tlimit_spec N runs).
Proof.
  intros rec sub N runs rest Hdec. split.
  - intros Hj. destruct (judge_tlimit_sound rec Hj) as [s' [N' [r' [D Hs]]]].
    rewrite Hdec in D. injection D as <- <- <- _. exact Hs.
  - intros Hs. exact (judge_tlimit_complete _ _ _ _ _ Hdec Hs).
Qed.

(* literally the conclusion of judge_hist_sound about the decoded field *)
Definition hist_spec (calls : list hcall) : Prop := Forall hcall_ok calls.

Theorem judge_hist_complete : forall rec calls rest,
  hist_input rec = Some (calls, rest) ->
  hist_spec calls ->
  judge_hist rec = 0.
Proof.
  intros rec calls rest Hdec Hok.
  unfold judge_hist. unfold hist_input in Hdec. rewrite Hdec. cbv beta iota.
  apply first_code_0. eapply Forall_impl; [|exact Hok]. intros c Hc. apply hcall_code_0. exact Hc.
Qed.

Corollary judge_hist_iff : forall rec calls rest,
  hist_input rec = Some (calls, rest) ->
  (judge_hist rec = 0 <-> hist_spec calls).
Proof.
  intros rec calls rest Hdec. split.
  - intros Hj. destruct (judge_hist_sound rec Hj) as [c' [D Hs]].
    rewrite Hdec in D. injection D as <- _. exact Hs.
  - intros Hs. exact (judge_hist_complete _ _ _ Hdec Hs).
Qed.

(* judge_threads has no decoder: the specification is the shape of the record itself, literally judge_threads_sound *)
Definition threads_spec (rec : list Z) : Prop := exists nt nc, rec = [nt; nc; nt * nc; 0; 0].

Theorem judge_threads_complete : forall rec, threads_spec rec -> judge_threads rec = 0.
Proof.
  intros rec [nt [nc ->]]. unfold judge_threads. rewrite Z.eqb_refl. reflexivity.
Qed.

Corollary judge_threads_iff : forall rec, judge_threads rec = 0 <-> threads_spec rec.
Proof. intros rec. split; [apply judge_threads_sound | apply judge_threads_complete]. Qed.

Print Assumptions judge_tlimit_iff.
Print Assumptions judge_hist_iff.
Print Assumptions judge_threads_iff.

(* ========================================================================================== *)
(* 5. judge_tree                                                                                *)
(* ========================================================================================== *)

Theorem check_prop_tree_all_nodes_iff : forall t,
  check_prop_tree t = 0 <-> Forall_tree (fun P Cs => check_prop P Cs = 0) t.
Proof.
  intros t. split; [apply check_prop_tree_all_nodes|].
  induction t as [P ch IH] using tree_ind'. intros H.
  apply Forall_tree_unfold in H. destruct H as [H1 H2].
  rewrite check_prop_tree_unfold. cbv zeta. rewrite H1. change (negb (0 =? 0)) with false. cbv iota.
  apply fold_first_error_zero_conv.
  rewrite Forall_forall in *. intros c Hc. apply IH; [exact Hc | apply H2; exact Hc].
Qed.

(* The conclusions of judge_tree_sound and judge_tree_flags_consistent together (both have the literal rc = 0 and
   `Some tr` in their decoder equation; here they are hypotheses), i.e. when the call succeeded and a tree was dumped:
   the root carries the input matrix (its support for a binary tree of a ternary input), every node passes the per-node
   recomposition / certificate / flag checker check_node, and every node's flags are consistent with its children's
   (check_prop).  The conjunct `check_tree tr = 0` of judge_tree_sound is equivalent to the Forall_tree clause
   (check_tree_all_nodes_iff) and is not repeated.  The Prop-level meaning of check_node = 0 per node type is
   check_node_sound / judge_tree_nodes (TreeProofs.v). *)
Definition tree_spec (bot : bool) (m n : nat) (M : mat) (rc : Z) (t : option tree) : Prop :=
  rc = 0 -> forall tr, t = Some tr ->
  t_m (info tr) = m /\ t_n (info tr) = n /\
  t_M (info tr) = (if bot then support M else M) /\
  Forall_tree (fun P Cs => check_node P Cs = 0) tr /\
  Forall_tree (fun P Cs => check_prop P Cs = 0) tr.

Theorem judge_tree_complete : forall rec cfg bot m n M rc t rest,
  tree_input rec = Some ((cfg, bot, (m, n, M), rc, t), rest) ->
  tree_spec bot m n M rc t ->
  judge_tree rec = 0.
Proof.
  intros rec cfg bot m n M rc t rest Hdec Hs.
  rewrite judge_tree_unfold, Hdec. cbv beta iota.
  destruct (rc =? 0) eqn:Hrc; cbn [negb]; [|reflexivity]. apply Z.eqb_eq in Hrc.
  destruct t as [tr|]; [|reflexivity].
  destruct (Hs Hrc tr eq_refl) as [-> [-> [HM [HN HP]]]]. cbv zeta.
  rewrite HM, !Nat.eqb_refl, mat_eqb_refl. cbn [andb negb].
  apply check_tree_all_nodes_iff in HN. apply check_prop_tree_all_nodes_iff in HP.
  rewrite HN. change (negb (0 =? 0)) with false. cbv iota. exact HP.
Qed.

Theorem judge_tree_sound' : forall rec cfg bot m n M rc t rest,
  tree_input rec = Some ((cfg, bot, (m, n, M), rc, t), rest) ->
  judge_tree rec = 0 ->
  tree_spec bot m n M rc t.
Proof.
  intros rec cfg bot m n M rc t rest Hdec Hj -> tr ->.
  destruct (judge_tree_sound _ _ _ _ _ _ _ _ Hdec Hj) as [H1 [H2 [H3 [_ H5]]]].
  pose proof (judge_tree_flags_consistent _ _ _ _ _ _ _ _ Hdec Hj) as H6.
  auto.
Qed.

Corollary judge_tree_iff : forall rec cfg bot m n M rc t rest,
  tree_input rec = Some ((cfg, bot, (m, n, M), rc, t), rest) ->
  (judge_tree rec = 0 <-> tree_spec bot m n M rc t).
Proof.
  intros. split; [eapply judge_tree_sound' | eapply judge_tree_complete]; eassumption.
Qed.

Print Assumptions judge_tree_complete.
Print Assumptions judge_tree_iff.

(* what check_node = 0 is made of: the node's own matrix is well-formed and in the domain of its characteristic, there
   are as many children as links and every link fits its child, the type-specific recomposition check (structural:
   check_onesum / check_sum / check_pivots / check_sp_node / leaf) passes, and the flag / certificate check passes *)
Theorem check_node_zero_iff : forall P Cs,
  check_node P Cs = 0 <->
  wf_mat (t_m P) (t_n P) (t_M P) = true /\
  (if t_tern P then is_ternary (t_M P) else is_binary (t_M P)) = true /\
  List.length (t_links P) = List.length Cs /\
  forallb (link_fits P) (combine (t_links P) Cs) = true /\
  structural P Cs = 0 /\
  check_flags P = 0.
Proof.
  intros P Cs. rewrite check_node_unfold. split.
  - intros H. kif H E1. kif H E2. kif H E3.
    destruct (structural P Cs =? 0) eqn:E4; cbn [negb] in H.
    + apply andb_true_iff in E1. destruct E1 as [W D]. apply Nat.eqb_eq in E2. apply Z.eqb_eq in E4. auto 10.
    + apply Z.eqb_neq in E4. contradiction.
  - intros [W [D [L [F [S C]]]]]. rewrite W, D. cbn [andb negb].
    apply Nat.eqb_eq in L. rewrite L, F. cbn [negb]. rewrite S. change (negb (0 =? 0)) with false. cbv iota. exact C.
Qed.

Print Assumptions check_node_zero_iff.
