(* Properties_C15.v — C15: complement operations and the complement-TU test follow their definition.
   Only statements closed by `exact`, with Print Assumptions beneath; the proofs are in CtuProofs.v. *)
From Cmr Require Import Base Det CtuModel BaseProofs CtuProofs.
Local Open Scope Z_scope.

(* The entry-wise flip rule (what ctu.c implements, and what the judge compares the library with) equals
   the definition of doc/ctu.md: a row complement followed by a column complement, each optional. *)
Theorem C15_model_is_definition : forall m n M r c,
  wf_mat m n M = true -> is_binary M = true -> opt_lt r m = true -> opt_lt c n = true ->
  complement_model m n M r c = complement_spec m n M r c.
Proof. exact complement_model_eq_spec. Qed.
Print Assumptions C15_model_is_definition.

(* doing it twice restores the matrix *)
Theorem C15_involution : forall m n M r c,
  wf_mat m n M = true -> is_binary M = true -> opt_lt r m = true -> opt_lt c n = true ->
  complement_spec m n (complement_spec m n M r c) r c = M.
Proof. exact complement_spec_involution. Qed.
Print Assumptions C15_involution.

(* the one-call row-and-column form equals the two single operations in either order *)
Theorem C15_rc_is_sequence : forall m n M r c,
  wf_mat m n M = true -> is_binary M = true -> opt_lt r m = true -> opt_lt c n = true ->
  complement_spec m n M r c = opt_row_compl m n (opt_col_compl m n M c) r.
Proof. exact complement_rc_commute. Qed.
Print Assumptions C15_rc_is_sequence.

(* whenever the extracted judge accepts a record of CMRctuComplementRowColumn, the call succeeded and the
   returned sparse matrix is well-formed, of the right shape, and equal to the definition *)
Theorem C15_judge_complement_sound : forall m n M r c rc rest rec,
  ctu_compl_input rec = Some ((m, n, M, r, c, rc), rest) ->
  is_binary M = true -> opt_lt r m = true -> opt_lt c n = true -> judge_ctu_compl rec = 0 ->
  rc = 0 /\ exists s, dcsr rest = Some (s, []) /\ csr_wf s = true /\ c_rows s = m /\ c_cols s = n /\
                      dense_of_csr s = complement_spec m n M r c.
Proof. exact judge_ctu_compl_sound'. Qed.
Print Assumptions C15_judge_complement_sound.

(* the complement-TU oracle is the definition (all (rows+1)(columns+1) complements are TU; tu_bf is the
   brute-force TU oracle proved equal to the determinant definition in Properties_C01) *)
Theorem C15_ctu_oracle_is_definition : forall m n M,
  ctu_bf m n M = true <->
  (forall r c, opt_lt r m = true -> opt_lt c n = true -> tu_bf m n (complement_model m n M r c) = true).
Proof. exact ctu_bf_spec. Qed.
Print Assumptions C15_ctu_oracle_is_definition.

(* whenever the judge accepts a record of CMRctuTest: the verdict equals the definition and, on "no", the
   reported row/column (or none) produce a complement that is not TU *)
Theorem C15_judge_test_sound : forall rec m n M rc v r c rest,
  ctu_test_input rec = Some ((m, n, M, rc, v, r, c), rest) ->
  is_binary M = true -> judge_ctu_test rec = 0 ->
  rc = 0 /\ v = ctu_bf m n M /\
  (v = false -> opt_lt r m = true /\ opt_lt c n = true /\ tu_bf m n (complement_model m n M r c) = false).
Proof. exact judge_ctu_test_sound. Qed.
Print Assumptions C15_judge_test_sound.

(* non-vacuity: the hypotheses are met by a concrete record that the judge accepts, and the judge is not
   trivially accepting *)
Example C15_nonvacuous : judge_ctu_compl ex_record = 0 /\ complement_model 2 2 [[1;1];[1;1]] (Some 0%nat) (Some 0%nat) = [[1;0];[0;0]].
Proof. split; vm_compute; reflexivity. Qed.

(* ---------- cmr-ctu IN OUT -r R -c C (CliModel.judge_clictu) ---------- *)
From Cmr Require TextModel CliModel CliProofs.
Theorem C15_tool_complement_judge_sound : forall rec mode r c infmt outfmt inb rc hasout outb rest m n M,
  CliProofs.clictu_input rec = Some ((mode, r, c, infmt, outfmt, inb, rc, hasout, outb), rest) ->
  CliModel.judge_clictu rec = 0 ->
  mode = 2 ->
  TextModel.parse infmt 0 inb = TextModel.TOk m n M ->
  is_binary M = true ->
  opt_lt (CliModel.opt_of r) m && opt_lt (CliModel.opt_of c) n = true ->
  (r <? 0) && (c <? 0) = false ->
  rc = 0 /\ hasout = true /\
  TextModel.parse outfmt 0 outb = TextModel.TOk m n (complement_spec m n M (CliModel.opt_of r) (CliModel.opt_of c)).
Proof. exact CliProofs.judge_clictu_sound. Qed.
Print Assumptions C15_tool_complement_judge_sound.

(* ---------- the judge accepts EXACTLY the records that satisfy its specification: besides soundness (above) also completeness,
   i.e. a record of a correct answer is never rejected (JudgeComplete1.v) ---------- *)
From Cmr Require JudgeComplete1.
Theorem C15_judge_ctu_compl_accepts_exactly_the_specification :
    forall (rec : list Z) (m n : nat) (M : mat) (r c : option nat) (rc : Z) (rest : list Z),
    BaseProofs.ctu_compl_input rec = Some (m, n, M, r, c, rc, rest) ->
    CtuModel.judge_ctu_compl rec = 0%Z <-> JudgeComplete1.ctu_compl_spec m n M r c rc rest.
Proof. exact JudgeComplete1.judge_ctu_compl_iff. Qed.
Print Assumptions C15_judge_ctu_compl_accepts_exactly_the_specification.
Theorem C15_judge_ctu_test_accepts_exactly_the_specification :
    forall (rec : list Z) (m n : nat) (M : mat) (rc : Z) (v : bool) (r c : option nat) (rest : list Z),
    CtuProofs.ctu_test_input rec = Some (m, n, M, rc, v, r, c, rest) ->
    CtuModel.judge_ctu_test rec = 0%Z <-> JudgeComplete1.ctu_test_spec m n M rc v r c.
Proof. exact JudgeComplete1.judge_ctu_test_iff. Qed.
Print Assumptions C15_judge_ctu_test_accepts_exactly_the_specification.

(* ---------- the judge accepts EXACTLY the records that satisfy its specification (JudgeComplete3.v): completeness besides soundness,
   a record of a correct answer is never rejected ---------- *)
From Cmr Require JudgeComplete3.
Theorem C15_judge_clictu_accepts_exactly_the_specification :
    forall (rec : list Z) (mode r c infmt outfmt : Z) (inb : list Z) (rc : Z) 
    (hasout : bool) (outb rest : list Z),
    CliProofs.clictu_input rec = Some (mode, r, c, infmt, outfmt, inb, rc, hasout, outb, rest) ->
    CliModel.judge_clictu rec = 0%Z <->
    JudgeComplete3.clictu_spec mode r c infmt outfmt inb rc hasout outb.
Proof. exact JudgeComplete3.judge_clictu_iff. Qed.
Print Assumptions C15_judge_clictu_accepts_exactly_the_specification.
