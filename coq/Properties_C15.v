From Cmr Require Import Base Det CtuModel.
Theorem placeholder_C15 : True. Proof. exact I. Qed.
