(* TuIncidence.v -- two general facts about total unimodularity:
   (1) TUmx_incidence: a matrix with entries in {-1,0,1} that has at most one +1 and at most one -1 in
       every column (node-arc incidence matrices of digraphs, possibly with extra unit columns) is TU;
   (2) TUmx_factor: if [U | U M] is TU and U is square with determinant +-1, then M is TU
       (Sylvester's determinant identity; no pivoting). *)
From Coq Require Import ZArith List.
From mathcomp Require Import all_ssreflect all_fingroup all_algebra.
From mathcomp Require Import ssrZ zify.
From Cmr Require Import Base Det BaseProofs TuProofs TuClosure.
Set Implicit Arguments. Unset Strict Implicit. Unset Printing Implicit Defensive.
Import GRing.Theory.
Local Open Scope ring_scope.
Import mathcomp.ssreflect.seq.
Delimit Scope nat_scope with N.

(* ========================================================================================== *)
(* 1. incidence-like matrices                                                                  *)
(* ========================================================================================== *)

Definition col_pm (p q : nat) (A : 'M[Z]_(p, q)) : Prop :=
  [/\ forall i j, A i j \in [:: -1; 0; 1],
      forall i i' j, A i j = 1 -> A i' j = 1 -> i = i' &
      forall i i' j, A i j = -1 -> A i' j = -1 -> i = i'].

Lemma col_pm_mxsub p q (A : 'M[Z]_(p, q)) p' q' (f : 'I_p' -> 'I_p) (g : 'I_q' -> 'I_q) :
  injective f -> col_pm A -> col_pm (mxsub f g A).
Proof.
move=> finj [H0 H1 H2]; split.
- by move=> i j; rewrite mxE.
- by move=> i i' j; rewrite !mxE => a b; apply: finj; apply: H1 a b.
- by move=> i i' j; rewrite !mxE => a b; apply: finj; apply: H2 a b.
Qed.

Lemma small_cases (x : Z) : x \in [:: -1; 0; 1] -> [\/ x = -1, x = 0 | x = 1].
Proof. by rewrite !inE => /or3P [] /eqP ->; [constructor 1|constructor 2|constructor 3]. Qed.

(* a square matrix with a nonzero vector in its left kernel *)
Lemma det0_ones k (A : 'M[Z]_k.+1) : (forall j, \sum_i A i j = 0) -> \det A = 0.
Proof.
move=> H.
have uA : (const_mx 1 : 'rV[Z]_k.+1) *m A = 0.
  by apply/matrixP => i j; rewrite !mxE -[RHS](H j); apply: eq_bigr => l _; rewrite !mxE mul1r.
have := congr1 (fun X => X *m \adj A) uA.
rewrite -mulmxA mul_mx_adj mul0mx mul_mx_scalar => /matrixP /(_ ord0 ord0).
by rewrite !mxE mulr1.
Qed.

Lemma det_col_pm k (A : 'M[Z]_k) : col_pm A -> \det A \in [:: -1; 0; 1].
Proof.
elim: k A => [|k IH] A cp; first by rewrite det_mx00.
have [H0 H1 H2] := cp.
case: (boolP [exists j, exists i, [forall i', (i' != i) ==> (A i' j == 0)]]).
  move=> /existsP [j /existsP [i /forallP Hz]].
  rewrite (expand_det_col A j) (bigD1 i) //= big1 ?addr0; last first.
    by move=> i' ne; have := Hz i'; rewrite ne /= => /eqP ->; rewrite mul0r.
  apply: small_mul; first exact: H0.
  rewrite /cofactor; apply: small_mul; first exact: sign_small.
  apply: IH; have -> : row' i (col' j A) = mxsub (lift i) (lift j) A.
    by apply/matrixP => a b; rewrite !mxE.
  by apply: col_pm_mxsub => //; apply: lift_inj.
rewrite negb_exists => /forallP Hne.
have two j i : exists2 i', i' != i & A i' j != 0.
  have := Hne j; rewrite negb_exists => /forallP /(_ i); rewrite negb_forall => /existsP [i'].
  by rewrite negb_imply => /andP [a b]; exists i'.
rewrite det0_ones ?inE ?eqxx ?orbT // => j.
have [i1 _ nz1] := two j ord0.
have [i2 ne21 nz2] := two j i1.
rewrite (bigD1 i1) //= (bigD1 i2) //= big1 ?addr0; last first.
  move=> i /andP [ne1 ne2]; apply/eqP; apply: contraTT ne1 => nz; rewrite negbK.
  case: (small_cases (H0 i j)) => e; first 1 last.
  - by rewrite e eqxx in nz.
  - case: (small_cases (H0 i1 j)) => e1.
    + case: (small_cases (H0 i2 j)) => e2.
      * by rewrite (H2 _ _ _ e1 e2) eqxx in ne21.
      * by rewrite e2 eqxx in nz2.
      * by rewrite (H1 _ _ _ e e2) eqxx in ne2.
    + by rewrite e1 eqxx in nz1.
    + by rewrite (H1 _ _ _ e e1).
  - case: (small_cases (H0 i1 j)) => e1.
    + by rewrite (H2 _ _ _ e e1).
    + by rewrite e1 eqxx in nz1.
    + case: (small_cases (H0 i2 j)) => e2.
      * by rewrite (H2 _ _ _ e e2) eqxx in ne2.
      * by rewrite e2 eqxx in nz2.
      * by rewrite (H1 _ _ _ e1 e2) eqxx in ne21.
case: (small_cases (H0 i1 j)) => e1; case: (small_cases (H0 i2 j)) => e2;
  rewrite ?e1 ?e2 //; try (by rewrite e1 eqxx in nz1); try (by rewrite e2 eqxx in nz2).
- by rewrite (H2 _ _ _ e1 e2) eqxx in ne21.
- by rewrite (H1 _ _ _ e1 e2) eqxx in ne21.
Qed.

Theorem TUmx_incidence p q (A : 'M[Z]_(p, q)) : col_pm A -> TUmx A.
Proof.
move=> cp k f g.
case: (not_inj_witness f) => [finj|[i1 [i2 [ne e]]]]; last first.
  rewrite (determinant_alternate ne) ?inE ?eqxx ?orbT // => j.
  by rewrite !mxE e.
by apply: det_col_pm; apply: col_pm_mxsub.
Qed.

(* the usual way of stating the hypothesis: entry (v, j) is [v is the head of arc j] - [v is the tail
   of arc j], for arbitrary (partial) head and tail maps *)
Lemma col_pm_headtail p q (hd tl : 'I_q -> option 'I_p) :
  col_pm (\matrix_(v < p, j < q) ((hd j == Some v)%:R - (tl j == Some v)%:R) : 'M[Z]_(p, q)).
Proof.
split.
- by move=> i j; rewrite mxE; case: eqP => _; case: eqP => _;
     rewrite ?subrr ?subr0 ?sub0r ?inE ?eqxx ?orbT.
- move=> i i' j; rewrite !mxE.
  case: (hd j =P Some i) => [a|_]; last by do ?[case: eqP => _].
  case: (hd j =P Some i') => [b|_]; last by do ?[case: eqP => _].
  by move=> _ _; move: a; rewrite b => - [].
- move=> i i' j; rewrite !mxE.
  case: (tl j =P Some i) => [a|_]; last by do ?[case: eqP => _].
  case: (tl j =P Some i') => [b|_]; last by do ?[case: eqP => _].
  by move=> _ _; move: a; rewrite b => - [].
Qed.

Corollary TUmx_headtail p q (hd tl : 'I_q -> option 'I_p) :
  TUmx (\matrix_(v < p, j < q) ((hd j == Some v)%:R - (tl j == Some v)%:R) : 'M[Z]_(p, q)).
Proof. exact: TUmx_incidence (col_pm_headtail hd tl). Qed.

(* ========================================================================================== *)
(* 2. Sylvester's determinant identity and [U | U M] TU, det U = +-1  ==>  M TU                *)
(* ========================================================================================== *)

Lemma det_sylvester (R : comRingType) m k (A : 'M[R]_(m, k)) (B : 'M[R]_(k, m)) :
  \det (1%:M + A *m B) = \det (1%:M + B *m A).
Proof.
pose X := block_mx (1%:M : 'M[R]_m) (- A) B (1%:M : 'M[R]_k).
have E1 : X = block_mx 1%:M 0 B 1%:M *m block_mx 1%:M (- A) 0 (1%:M + B *m A).
  rewrite mulmx_block !mul1mx !mulmx0 !mul0mx !mulmx1 !addr0 mulmxN.
  by rewrite addrCA addNr addr0.
have E2 : X = block_mx (1%:M + A *m B) (- A) 0 1%:M *m block_mx 1%:M 0 B 1%:M.
  rewrite mulmx_block !mul1mx !mulmx0 !mul0mx !mulmx1 ?add0r ?addr0 mulNmx.
  by rewrite addrK.
have := congr1 determinant E1; rewrite E2 !det_mulmx !det_lblock !det_ublock !det1 !mul1r !mulr1.
by [].
Qed.

Theorem TUmx_factor m n (U : 'M[Z]_m) (M : 'M[Z]_(m, n)) :
  \det U \in [:: 1; -1] -> TUmx (row_mx U (U *m M)) -> TUmx M.
Proof.
move=> dU TU k f g.
case: (not_inj_witness f) => [finj|[i1 [i2 [ne e]]]]; last first.
  rewrite (determinant_alternate ne) ?inE ?eqxx ?orbT // => j.
  by rewrite !mxE e.
pose F : 'M[Z]_(m, k) := \matrix_(c, i) (c == f i)%:R.
pose Mg : 'M[Z]_(m, k) := mxsub id g M.
pose W : 'M[Z]_m := 1%:M + (Mg - F) *m F^T.
have FF : F^T *m F = 1%:M.
  apply/matrixP => i i'; rewrite !mxE (bigD1 (f i)) //= big1 ?addr0.
    by rewrite !mxE eqxx mul1r (eqtype.inj_eq finj).
  by move=> c ne; rewrite !mxE (negbTE ne) mul0r.
have FM : F^T *m Mg = mxsub f g M.
  apply/matrixP => i j; rewrite !mxE (bigD1 (f i)) //= big1 ?addr0.
    by rewrite !mxE eqxx mul1r.
  by move=> c ne; rewrite !mxE (negbTE ne) mul0r.
have dW : \det W = \det (mxsub f g M).
  by rewrite /W det_sylvester mulmxBr FF FM addrCA subrr addr0.
pose h (c : 'I_m) : 'I_(m + n) :=
  if [pick i | f i == c] is Some i then rshift m (g i) else lshift n c.
have UW : U *m W = mxsub id h (row_mx U (U *m M)).
  have Wc d c : W d c = if [pick i | f i == c] is Some i then M d (g i) else (d == c)%:R.
    rewrite !mxE; case: pickP => [i0 /eqP e|none].
      rewrite (bigD1 i0) //= big1 ?addr0.
        by rewrite !mxE e eqxx mulr1 addrCA subrr addr0.
      move=> i ne; rewrite !mxE -e (eqtype.inj_eq finj) (eq_sym i0) (negbTE ne) mulr0 //.
    rewrite big1 ?addr0 // => i _; rewrite !mxE.
    by have := none i; rewrite eq_sym => ->; rewrite mulr0.
  apply/matrixP => r c; rewrite [LHS]mxE [RHS]mxE /h.
  case: pickP (Wc ^~ c) => [i0 _|_] Wc'.
    rewrite row_mxEr mxE; apply: eq_bigr => d _; by rewrite Wc'.
  rewrite row_mxEl (bigD1 c) //= big1 ?addr0.
    by rewrite Wc' eqxx mulr1.
  by move=> d ne; rewrite Wc' (negbTE ne) mulr0.
have := TU m id h; rewrite -UW det_mulmx dW.
move: dU; rewrite !inE => /orP [] /eqP ->; rewrite ?mul1r ?mulN1r //.
by move=> /or3P [] /eqP e; rewrite -[\det _]opprK e.
Qed.

(* rectangular form: B need not be square, it suffices that some choice R of rows makes it unimodular *)
Corollary TUmx_factor_rows p m n (B : 'M[Z]_(p, m)) (M : 'M[Z]_(m, n)) (R : 'I_m -> 'I_p) :
  \det (mxsub R id B) \in [:: 1; -1] -> TUmx (row_mx B (B *m M)) -> TUmx M.
Proof.
move=> dU TU; apply: (TUmx_factor dU).
have -> : row_mx (mxsub R id B) (mxsub R id B *m M) = mxsub R id (row_mx B (B *m M)).
  apply/matrixP => i j; rewrite [RHS]mxE; case: (splitP j) => j' ej.
    have -> : j = lshift n j' by apply: val_inj.
    by rewrite !row_mxEl mxE.
  have -> : j = rshift m j' by apply: val_inj.
  rewrite !row_mxEr !mxE; apply: eq_bigr => d _; by rewrite !mxE.
exact: TUmx_mxsub.
Qed.

Print Assumptions TUmx_incidence.
Print Assumptions TUmx_headtail.
Print Assumptions det_sylvester.
Print Assumptions TUmx_factor.
Print Assumptions TUmx_factor_rows.
