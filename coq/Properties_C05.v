(* Properties_C05.v — C05: graphic / cographic recognition; the returned graph reproduces the matrix. *)
From Coq Require Import Permutation.
From Cmr Require Import Base Det BaseProofs GraphModel GraphProofs.
Local Open Scope Z_scope.

(* Certificate soundness, every size: if the checker accepts (G, forest, coforest) for the 0/1 matrix M then the
   forest has one edge per row and the coforest one per column, all pairwise distinct and covering E(G), the forest
   edges contain no cycle, and for every column j the rows with a 1 are exactly the edges of a simple forest path
   between the ends of the j-th coforest edge: M = M(G,T) entry for entry (hence T is a spanning forest: every
   non-forest edge has its ends joined by T, and T is acyclic). *)
Theorem C05_certificate_sound : forall m n M G forest coforest,
  check_graph_cert m n M G forest coforest = true -> is_binary M = true ->
  exists T C,
    graph_ok G = true /\
    lookup_all (g_edges G) forest = Some T /\ length T = m /\
    lookup_all (g_edges G) coforest = Some C /\ length C = n /\
    NoDup (forest ++ coforest) /\
    (forall e, In e (g_edges G) -> In (e_id e) (forest ++ coforest)) /\
    ~ has_cycle T /\ acyclic T = true /\
    fund_cycle_spec m n M T C.
Proof. exact check_graph_cert_sound. Qed.
Print Assumptions C05_certificate_sound.

(* M(G,T) is uniquely determined by the forest: two matrices accepted for the same certificate are equal *)
Theorem C05_matrix_determined : forall m n M M' G forest coforest,
  check_graph_cert m n M G forest coforest = true -> check_graph_cert m n M' G forest coforest = true ->
  is_binary M = true -> is_binary M' = true -> wf_mat m n M = true -> wf_mat m n M' = true -> M = M'.
Proof. exact check_graph_cert_functional. Qed.
Print Assumptions C05_matrix_determined.

(* the acyclicity test by leaf stripping is sound *)
Theorem C05_acyclic_sound : forall es, acyclic es = true -> ~ has_cycle es.
Proof. exact acyclic_sound_gen. Qed.
Print Assumptions C05_acyclic_sound.

(* whenever the judge accepts a "yes" record of CMRgraphicTestMatrix / CMRgraphicTestTranspose: the call succeeded,
   a graph with forest and coforest was returned, and it reproduces the matrix (its transpose for the transposed
   entry point) as above *)
Theorem C05_judge_yes_sound : forall rec tr m0 n0 M0 rc cert w rest,
  graphic_input rec = Some ((tr, (m0, n0, M0), rc, 1, cert, w), rest) ->
  judge_graphic rec = 0 ->
  let '(m, n, M) := oriented tr m0 n0 M0 in
  is_binary M = true ->
  rc = 0 /\
  exists G f c T C, cert = Some (G, f, c) /\
    lookup_all (g_edges G) f = Some T /\ length T = m /\
    lookup_all (g_edges G) c = Some C /\ length C = n /\
    NoDup (f ++ c) /\ (forall e, In e (g_edges G) -> In (e_id e) (f ++ c)) /\
    ~ has_cycle T /\ fund_cycle_spec m n M T C.
Proof. exact judge_graphic_yes_sound. Qed.
Print Assumptions C05_judge_yes_sound.

Example C05_nonvacuous : check_graph_cert 2 1 [[1];[1]] tri [0;1]%nat [2]%nat = true /\
                         check_graph_cert 2 1 [[1];[0]] tri [0;1]%nat [2]%nat = false.
Proof. split; vm_compute; reflexivity. Qed.

(* ---------- cmr-graphic [-t] -G: the written graph file is a certificate (CliModel.judge_cligraphout) ---------- *)
From Cmr Require TextModel CliModel CliProofs.
Theorem C05_tool_graph_output_judge_sound : forall rec signed co infmt inb rc hasout outb rest m n M,
  CliProofs.cligraphout_input rec = Some ((signed, co, infmt, inb, rc, hasout, outb), rest) ->
  CliModel.judge_cligraphout rec = 0 ->
  TextModel.parse infmt 1 inb = TextModel.TOk m n M ->
  (if signed then is_ternary M else is_binary M) = true ->
  hasout = true ->
  rc = 0 /\
  exists G rowedges coledges,
    CliModel.edgelist_graph outb = Some (G, rowedges, coledges) /\
    List.length rowedges = m /\ List.length coledges = n /\
    let '(f, c, MM) := if co then (coledges, rowedges, transpose m n M) else (rowedges, coledges, M) in
    is_spanning_forest G f = true /\
    exists T C, lookup_all (g_edges G) f = Some T /\ lookup_all (g_edges G) c = Some C /\
                rep_matrix signed T C = MM.
Proof. exact CliProofs.judge_cligraphout_sound. Qed.
Print Assumptions C05_tool_graph_output_judge_sound.

(* ---------- graphic and cographic 0/1 matrices are regular (GraphicRegular.v: a graph certificate yields a network
   certificate of a signing; NetworkTU.v) ---------- *)
From Cmr Require GraphicRegular RegCertModel RegCertProofs TuModel.
Theorem C05_graphic_certificate_implies_regular : forall m n M G forest coforest,
  wf_mat m n M = true -> is_binary M = true ->
  check_graph_cert m n M G forest coforest = true -> TuModel.regular_bf m n M = true.
Proof. exact GraphicRegular.graph_cert_regular. Qed.
Print Assumptions C05_graphic_certificate_implies_regular.

Theorem C05_cographic_certificate_implies_regular : forall m n M G forest coforest,
  check_graph_cert n m (transpose m n M) G forest coforest = true ->
  wf_mat m n M = true -> is_binary M = true -> TuModel.regular_bf m n M = true.
Proof. exact GraphicRegular.graph_cert_regular_transpose. Qed.
Print Assumptions C05_cographic_certificate_implies_regular.

Theorem C05_regular_verdict_on_certified_matrices : forall rec cfg m n M rc v tr G f c r rest,
  RegCertModel.regular_cert_input rec = Some ((cfg, (m, n, M), rc, v, tr, WGraph G f c r), rest) ->
  wf_mat m n M = true -> is_binary M = true -> RegCertModel.cert_holds tr m n M G f c = true ->
  RegCertModel.judge_regular_cert rec = 0 ->
  rc = 0 /\ TuModel.regular_bf m n M = true /\ (v = 2 -> TuModel.cfg_stopflags cfg = true) /\ (v <> 2 -> v = 1).
Proof. exact RegCertProofs.judge_regular_cert_sound. Qed.
Print Assumptions C05_regular_verdict_on_certified_matrices.

(* ---------- the judge accepts EXACTLY the records that satisfy its specification: besides soundness (above) also completeness,
   i.e. a record of a correct answer is never rejected (JudgeComplete2.v) ---------- *)
From Cmr Require JudgeComplete2.
Theorem C05_judge_graphic_accepts_exactly_the_specification :
    forall (rec : list Z) (tr : bool) (m0 n0 : nat) (M0 : mat) (rc v : Z)
    (cert : option (GraphModel.graph * list nat * list nat)) (w : GraphModel.witness) 
    (rest : list Z),
    GraphProofs.graphic_input rec = Some (tr, (m0, n0, M0), rc, v, cert, w, rest) ->
    GraphModel.judge_graphic rec = 0%Z <-> JudgeComplete2.graphic_spec tr m0 n0 M0 rc v cert w.
Proof. exact JudgeComplete2.judge_graphic_iff. Qed.
Print Assumptions C05_judge_graphic_accepts_exactly_the_specification.

(* ---------- the certificate checker is EQUIVALENT to the specification (GraphComplete.v): besides soundness also completeness -
   every graph / forest / coforest that represents the matrix by the Prop-level definition is accepted (leaf stripping succeeds
   on every forest, the greedy walk finds every simple path), so code 93 is never raised on a correct certificate ---------- *)
From Cmr Require GraphComplete GraphicClosure RelModel.
Theorem C05_certificate_checker_is_the_specification :
    forall (m n : nat) (M : mat) (G : GraphModel.graph) (forest coforest : list nat),
    is_binary M = true ->
    GraphModel.check_graph_cert m n M G forest coforest = true <->
    (exists T C : list GraphModel.edge,
    GraphModel.graph_ok G = true /\
    GraphModel.lookup_all (GraphModel.g_edges G) forest = Some T /\
    length T = m /\
    GraphModel.lookup_all (GraphModel.g_edges G) coforest = Some C /\
    length C = n /\
    NoDup (forest ++ coforest) /\
    (forall e : GraphModel.edge,
    In e (GraphModel.g_edges G) -> In (GraphModel.e_id e) (forest ++ coforest)) /\
    ~ GraphProofs.has_cycle T /\ GraphProofs.fund_cycle_spec m n M T C).
Proof. exact GraphComplete.check_graph_cert_iff. Qed.
Print Assumptions C05_certificate_checker_is_the_specification.
Theorem C05_acyclicity_test_is_exact :
    forall es : list GraphModel.edge,
    NoDup (map GraphModel.e_id es) -> GraphModel.acyclic es = true <-> ~ GraphProofs.has_cycle es.
Proof. exact GraphComplete.acyclic_iff. Qed.
Print Assumptions C05_acyclicity_test_is_exact.
Theorem C05_path_test_is_exact :
    forall (S : list GraphModel.edge) (u v : nat) (p : list (GraphModel.edge * bool)),
    GraphModel.path_of S u v = Some p <->
    GraphProofs.simple_path S u v p /\ Permutation.Permutation (map fst p) S.
Proof. exact GraphComplete.path_of_iff. Qed.
Print Assumptions C05_path_test_is_exact.

(* ---------- the class the certificates define is closed under the operations of C10 (GraphicClosure.v): GraphicP m n M = M is 0/1 and
   some forest T and non-forest edges C satisfy the fundamental-cycle specification ---------- *)
Theorem C05_certified_matrices_are_graphic :
    forall (m n : nat) (M : mat) (G : GraphModel.graph) (f c : list nat),
    GraphModel.check_graph_cert m n M G f c = true -> is_binary M = true -> GraphicClosure.GraphicP m n M.
Proof. exact GraphicClosure.cert_GraphicP. Qed.
Print Assumptions C05_certified_matrices_are_graphic.
Theorem C05_graphic_submatrix :
    forall (m n : nat) (M : mat) (rs cs : list nat),
    wf_mat m n M = true ->
    strictly_increasing rs = true ->
    strictly_increasing cs = true ->
    all_lt m rs = true ->
    all_lt n cs = true ->
    GraphicClosure.GraphicP m n M -> GraphicClosure.GraphicP (length rs) (length cs) (submat M rs cs).
Proof. exact GraphicClosure.GraphicP_submat. Qed.
Print Assumptions C05_graphic_submatrix.
Theorem C05_graphic_contract_tree_edge :
    forall (m n : nat) (M : mat) (k : nat),
    wf_mat m n M = true ->
    (k < m)%nat ->
    GraphicClosure.GraphicP m n M ->
    GraphicClosure.GraphicP (m - 1) n (submat M (RelModel.keep_line m k) (iota 0 n)).
Proof. exact GraphicClosure.GraphicP_delete_row. Qed.
Print Assumptions C05_graphic_contract_tree_edge.
Theorem C05_graphic_select_columns :
    forall (m n : nat) (M : mat) (cs : list nat),
    wf_mat m n M = true ->
    all_lt n cs = true ->
    GraphicClosure.GraphicP m n M -> GraphicClosure.GraphicP m (length cs) (submat M (iota 0 m) cs).
Proof. exact GraphicClosure.GraphicP_cols. Qed.
Print Assumptions C05_graphic_select_columns.

(* ---------- the judge accepts EXACTLY the records that satisfy its specification (JudgeComplete3.v): completeness besides soundness,
   a record of a correct answer is never rejected ---------- *)
From Cmr Require JudgeComplete3.
Theorem C05_judge_cligraphout_accepts_exactly_the_specification :
    forall (rec : list Z) (signed co : bool) (infmt : Z) (inb : list Z) (rc : Z) 
    (hasout : bool) (outb rest : list Z),
    CliProofs.cligraphout_input rec = Some (signed, co, infmt, inb, rc, hasout, outb, rest) ->
    CliModel.judge_cligraphout rec = 0%Z <->
    JudgeComplete3.cligraphout_spec signed co infmt inb rc hasout outb.
Proof. exact JudgeComplete3.judge_cligraphout_iff. Qed.
Print Assumptions C05_judge_cligraphout_accepts_exactly_the_specification.

(* ---------- the brute-force oracle graphic_bf decides the certificate-defined class for EVERY size (GraphicOracle.v): sound (an
   accepted assignment is a forest with the column paths) and complete (every forest representation can be relabelled onto the
   nodes 0..m, oriented and renumbered so that the enumeration finds it) - the gap "completeness of graphic_bf" is closed ---------- *)
From Cmr Require GraphicOracle.
Theorem C05_oracle_is_definition : forall m n M, graphic_bf m n M = true <-> GraphicClosure.GraphicP m n M.
Proof. exact GraphicOracle.graphic_bf_iff. Qed.
Print Assumptions C05_oracle_is_definition.
