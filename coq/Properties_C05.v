From Cmr Require Import Base Det GraphModel.
Theorem placeholder_C05 : True. Proof. exact I. Qed.
