(* GcdProofs.v — the specification of gcdExt (src/cmr/linear_algebra.c), proved about the definition c_gcdExt that
   tools/c2gallina.py GENERATES from the C text (LeafGen.v; semantics LeafSem.v: None = undefined behaviour).
   For all int64 arguments except INT64_MIN: no signed overflow anywhere (`old_r / r`, `q * r`, `old_s - q * s`,
   `-old_r`, ...), termination within the fuel, result = (gcd, s, t) with s*a + t*b = gcd and |s|, |t| <= 2^63-1,
   plus the exact conditions for s = 0 and t = 0.  The documented "t != 0" is false (see gcdExt_spec below). *)
From Coq Require Import ZArith Bool Lia List.
From Cmr Require Import LeafSem LeafGen.
Local Open Scope Z_scope.

Definition M : Z := 9223372036854775807.
Definition int64_sym (x : Z) : Prop := - M <= x <= M.

Lemma wrap_ok x : - M - 1 <= x <= M -> wrap I64 x = Some x.
Proof.
  unfold M. intros H. unfold wrap.
  destruct (Z.leb_spec (-9223372036854775808) x); [|lia].
  destruct (Z.leb_spec x 9223372036854775807); [|lia]. reflexivity.
Qed.

Lemma loop_exit f a b s os t ot or :
  c_gcdExt_loop1 (S f) a b s os t ot 0 or = Some (a, b, s, os, t, ot, 0, or).
Proof. reflexivity. Qed.

Lemma quot_facts x y : y <> 0 -> Z.abs (Z.quot x y * y) <= Z.abs x /\ Z.abs (Z.quot x y) <= Z.abs x /\ Z.abs (x - Z.quot x y * y) < Z.abs y.
Proof.
  intros Hy.
  pose proof (Z.quot_rem' x y) as E.
  pose proof (Z.rem_bound_abs x y Hy) as Hb.
  assert (E2 : x - Z.quot x y * y = Z.rem x y) by lia.
  rewrite E2. 
  assert (H1 : Z.abs (Z.quot x y * y) <= Z.abs x).
  { rewrite Z.abs_mul, <- Z.quot_abs by exact Hy. 
    pose proof (Z.mul_quot_le (Z.abs x) (Z.abs y)). lia. }
  split; [exact H1|split; [|exact Hb]].
  rewrite Z.abs_mul in H1. nia.
Qed.

Lemma loop_step f a b s os t ot r or q :
  q = Z.quot or r -> r <> 0 -> int64_sym r -> int64_sym or ->
  int64_sym (q * s) -> int64_sym (os - q * s) -> int64_sym (q * t) -> int64_sym (ot - q * t) ->
  c_gcdExt_loop1 (S f) a b s os t ot r or = c_gcdExt_loop1 f a b (os - q * s) s (ot - q * t) t (or - q * r) r.
Proof.
  intros Hq Hr0 Hr Hor Hqs Hs' Hqt Ht'. unfold int64_sym in *.
  destruct (quot_facts or r Hr0) as (F1 & F2 & F3). rewrite <- Hq in F1, F2, F3.
  assert (Hz : (r =? 0) = false) by (apply Z.eqb_neq; exact Hr0).
  cbn [c_gcdExt_loop1].
  unfold c_true, c_div, c_mul, c_sub, c_cast, c_bool.
  repeat first [ progress cbn [obind negb]
               | rewrite Hz | rewrite <- Hq | rewrite wrap_ok by (unfold M in *; lia)
               | progress change (1 =? 0) with false ].
  reflexivity.
Qed.

(* more fuel never changes a result *)
Lemma loop_mono_S f : forall a b s os t ot r or x,
  c_gcdExt_loop1 f a b s os t ot r or = Some x -> c_gcdExt_loop1 (S f) a b s os t ot r or = Some x.
Proof.
  induction f as [|f IH]; intros a b s os t ot r or x H.
  - discriminate H.
  - remember (S f) as g eqn:Eg. rewrite Eg in H.
    cbn [c_gcdExt_loop1] in H |- *.
    repeat match type of H with
           | obind ?e _ = Some _ => destruct e eqn:?; cbn [obind] in H |- *; [|discriminate H]
           | (if ?c then _ else _) = Some _ => destruct c
           end.
    + subst g. apply IH. exact H.
    + exact H.
Qed.

Lemma loop_mono f f' a b s os t ot r or x : (f <= f')%nat ->
  c_gcdExt_loop1 f a b s os t ot r or = Some x -> c_gcdExt_loop1 f' a b s os t ot r or = Some x.
Proof.
  intros Hle H. induction Hle; [exact H|]. apply loop_mono_S. exact IHHle.
Qed.

Lemma gcdExt_mono f f' a b x : (f <= f')%nat -> c_gcdExt f a b = Some x -> c_gcdExt f' a b = Some x.
Proof.
  intros Hle H. unfold c_gcdExt in H |- *.
  repeat match type of H with
         | obind (c_gcdExt_loop1 _ _ _ _ _ _ _ _ _) _ = Some _ => fail 1
         | obind ?e _ = Some _ => destruct e eqn:?; cbn [obind] in H |- *; [|discriminate H]
         end.
  match type of H with
  | obind ?e _ = Some _ => destruct e eqn:E; cbn [obind] in H; [|discriminate H]
  end.
  rewrite (loop_mono _ _ _ _ _ _ _ _ _ _ _ Hle E). cbn [obind]. exact H.
Qed.

(* ---------------------------------------------------------------------------------------------------------------
   The invariant.  With signs e0, e1, m in {1,-1} the state of the loop is
       old_r = e0*R0   r = e1*R1   old_s = m*S0   s = -(m*e0*e1)*S1   old_t = -(m*e0*e1)*T0   t = m*T1
   where R0 >= R1 >= 0 run through the remainders of |a|, |b| and S*, T* >= 0 are the absolute values of the
   cofactors.  C's truncating division gives q = e0*e1*(R0/R1), hence the next state has the same shape with
   (e0, e1, m) := (e1, e0, -(m*e0*e1)), S1' = S0 + Q*S1, T1' = T0 + Q*T1: no cancellation, and
       S1*R0 + S0*R1 = B        T1*R0 + T0*R1 = A
   are invariant, which bounds every cofactor (and every intermediate product) by max(A,B) <= 2^63-1.
   Fuel: R0*R1 at least halves in every iteration. *)
Definition sgn1 (e : Z) : Prop := e = 1 \/ e = -1.

Lemma quot_sign e0 e1 R0 R1 : sgn1 e0 -> sgn1 e1 -> 0 <= R0 -> 0 < R1 ->
  Z.quot (e0 * R0) (e1 * R1) = e0 * e1 * (R0 / R1).
Proof.
  intros [-> | ->] [-> | ->] H0 H1; rewrite ?Z.mul_1_l;
    try replace (-1 * R0) with (- R0) by lia; try replace (-1 * R1) with (- R1) by lia;
    rewrite ?Z.quot_opp_l, ?Z.quot_opp_r by lia; rewrite Z.quot_div_nonneg by lia; lia.
Qed.

Lemma sgn1_nz m X : sgn1 m -> 1 <= X -> m * X <> 0.
Proof. intros [-> | ->] H; lia. Qed.

Lemma sgn3_nz m e0 e1 X : sgn1 m -> sgn1 e0 -> sgn1 e1 -> 1 <= X -> - (m * e0 * e1) * X <> 0.
Proof. intros [-> | ->] [-> | ->] [-> | ->] H; lia. Qed.

Ltac sg He0 He1 Hm := destruct He0 as [-> | ->], He1 as [-> | ->], Hm as [-> | ->]; unfold sgn1, int64_sym in *; lia.

Lemma loop_inv : forall n a b A B e0 e1 m R0 R1 S0 S1 T0 T1 s os t ot r or,
  sgn1 e0 -> sgn1 e1 -> sgn1 m ->
  s = - (m * e0 * e1) * S1 -> os = m * S0 -> t = m * T1 -> ot = - (m * e0 * e1) * T0 ->
  r = e1 * R1 -> or = e0 * R0 ->
  0 <= R1 <= R0 -> R0 <= M ->
  0 <= S0 <= M -> 0 <= S1 <= M -> 0 <= T0 <= M -> 0 <= T1 <= M ->
  S1 * R0 + S0 * R1 = B -> T1 * R0 + T0 * R1 = A -> A <= M -> B <= M ->
  or = os * a + ot * b -> r = s * a + t * b ->
  R0 * R1 < 2 ^ Z.of_nat n ->
  exists sF osF tF otF orF,
    c_gcdExt_loop1 (S n) a b s os t ot r or = Some (a, b, sF, osF, tF, otF, 0, orF) /\
    Z.abs osF <= M /\ Z.abs otF <= M /\ Z.abs orF = Z.gcd R0 R1 /\ Z.abs orF <= M /\
    orF = osF * a + otF * b /\
    (R1 = 0 -> osF = os /\ otF = ot /\ orF = or) /\
    (R1 <> 0 -> 1 <= S1 -> osF <> 0) /\ (R1 <> 0 -> 1 <= T1 -> otF <> 0) /\
    (R1 <> 0 -> S1 = 0 -> S0 = 1 -> (osF = 0 <-> R0 mod R1 = 0)) /\
    (R1 <> 0 -> T1 = 0 -> T0 = 1 -> (otF = 0 <-> R0 mod R1 = 0)).
Proof.
  induction n as [|n IH]; intros a b A B e0 e1 m R0 R1 S0 S1 T0 T1 s os t ot r or
    He0 He1 Hm Es Eos Et Eot Er Eor HR HR0 HS0 HS1 HT0 HT1 HB HA HAM HBM Bo Br Hfuel;
    (destruct (Z.eq_dec R1 0) as [Z1|NZ1];
     [ assert (Hr0 : r = 0) by (subst R1; lia); rewrite Hr0; rewrite loop_exit;
       exists s, os, t, ot, or; subst R1; rewrite Z.gcd_0_r;
       repeat split; try tauto; try (sg He0 He1 Hm) | ]).
  - (* no fuel left: impossible *)
    exfalso. change (2 ^ Z.of_nat 0) with 1 in Hfuel. nia.
  - pose proof (Z.div_mod R0 R1 NZ1) as HQ.
    assert (HR2 : 0 <= R0 mod R1 < R1) by (apply Z.mod_pos_bound; lia).
    remember (R0 / R1) as Q eqn:EQ. remember (R0 mod R1) as R2 eqn:ER2.
    remember (S0 + Q * S1) as S2 eqn:ES2. remember (T0 + Q * T1) as T2 eqn:ET2.
    assert (HQ1 : 1 <= Q) by nia.
    assert (HB' : S2 * R1 + S1 * R2 = B) by nia.
    assert (HA' : T2 * R1 + T1 * R2 = A) by nia.
    assert (HS2 : 0 <= S2 <= M) by nia.
    assert (HT2 : 0 <= T2 <= M) by nia.
    assert (HQS : 0 <= Q * S1 <= S2 /\ S1 <= S2) by nia.
    assert (HQT : 0 <= Q * T1 <= T2 /\ T1 <= T2) by nia.
    assert (Hfuel' : R1 * R2 < 2 ^ Z.of_nat n).
    { rewrite Nat2Z.inj_succ, Z.pow_succ_r in Hfuel by lia. nia. }
    assert (Hq : e0 * e1 * Q = Z.quot or r) by (subst or r Q; symmetry; apply quot_sign; auto; lia).
    rewrite (loop_step (S n) a b s os t ot r or (e0 * e1 * Q) Hq);
      [ | sg He0 He1 Hm | sg He0 He1 Hm | sg He0 He1 Hm | | | | ].
    + destruct (IH a b A B e1 e0 (- (m * e0 * e1)) R1 R2 S1 S2 T1 T2
                  (os - e0 * e1 * Q * s) s (ot - e0 * e1 * Q * t) t (or - e0 * e1 * Q * r) r)
        as (sF & osF & tF & otF & orF & HL & H1 & H2 & H3 & H4 & H5 & H6 & H7 & H8 & H9 & H10);
        try assumption; try lia.
      * sg He0 He1 Hm.
      * destruct He0 as [-> | ->], He1 as [-> | ->], Hm as [-> | ->]; subst s os S2; ring.
      * sg He0 He1 Hm.
      * destruct He0 as [-> | ->], He1 as [-> | ->], Hm as [-> | ->]; subst r or; lia.
      * rewrite Bo, Br. ring.
      * exists sF, osF, tF, otF, orF. split; [exact HL|].
        assert (HG : Z.gcd R1 R2 = Z.gcd R0 R1).
        { rewrite ER2. rewrite (Z.gcd_comm R1), Z.gcd_mod by exact NZ1. apply Z.gcd_comm. }
        rewrite <- HG.
        repeat split; try assumption;
          try (match goal with H : R1 = 0 |- _ => exact (False_ind _ (NZ1 H)) end).
        -- intros _ HS. destruct (Z.eq_dec R2 0) as [Z2|NZ2].
           ++ destruct (H6 Z2) as (-> & _ & _). rewrite Es. apply sgn3_nz; assumption.
           ++ apply H7; [exact NZ2|]. apply Z.le_trans with S1; [exact HS|apply HQS].
        -- intros _ HT. destruct (Z.eq_dec R2 0) as [Z2|NZ2].
           ++ destruct (H6 Z2) as (_ & -> & _). rewrite Et. apply sgn1_nz; assumption.
           ++ apply H8; [exact NZ2|]. apply Z.le_trans with T1; [exact HT|apply HQT].
        -- intros Hz. destruct (Z.eq_dec R2 0) as [Z2|NZ2]; [exact Z2|].
           exfalso. revert Hz. apply H7; [exact NZ2|]. subst S1 S0. rewrite ES2, Z.mul_0_r, Z.add_0_r. apply Z.le_refl.
        -- intros Hz. destruct (H6 Hz) as (-> & _ & _). subst s S1. lia.
        -- intros Hz. destruct (Z.eq_dec R2 0) as [Z2|NZ2]; [exact Z2|].
           exfalso. revert Hz. apply H8; [exact NZ2|]. subst T1 T0. rewrite ET2, Z.mul_0_r, Z.add_0_r. apply Z.le_refl.
        -- intros Hz. destruct (H6 Hz) as (_ & -> & _). subst t T1. lia.
    + sg He0 He1 Hm.
    + sg He0 He1 Hm.
    + sg He0 He1 Hm.
    + sg He0 He1 Hm.
Qed.

Definition sgz (x : Z) : Z := if 0 <=? x then 1 else -1.

Lemma sgz_spec x : sgn1 (sgz x) /\ x = sgz x * Z.abs x.
Proof. unfold sgz, sgn1. destruct (Z.leb_spec 0 x); lia. Qed.

Lemma divide_abs_iff x y : (Z.abs x | Z.abs y) <-> (x | y).
Proof. rewrite Z.divide_abs_l, Z.divide_abs_r. tauto. Qed.

(* the loop started by gcdExt, for every fuel S (S n) with 2^n > (2^63-1)^2 *)
Lemma loop_from_init n a b : int64_sym a -> int64_sym b -> M * M < 2 ^ Z.of_nat n ->
  exists sF osF tF otF orF,
    c_gcdExt_loop1 (S (S n)) a b 0 1 1 0 b a = Some (a, b, sF, osF, tF, otF, 0, orF) /\
    Z.abs osF <= M /\ Z.abs otF <= M /\ Z.abs orF = Z.gcd a b /\ orF = osF * a + otF * b /\
    (otF = 0 <-> b = 0 \/ (a <> 0 /\ Z.abs a < Z.abs b /\ (a | b))) /\
    (osF = 0 <-> b <> 0 /\ (b | a)).
Proof.
  intros Ha Hb Hn. unfold int64_sym in Ha, Hb.
  destruct (sgz_spec a) as (Hea & Ea). destruct (sgz_spec b) as (Heb & Eb).
  set (ea := sgz a) in *. set (eb := sgz b) in *. clearbody ea eb.
  assert (HAB : Z.abs a * Z.abs b <= M * M) by nia.
  destruct (Z_le_gt_dec (Z.abs b) (Z.abs a)) as [Hle|Hgt].
  - assert (H1 : sgn1 1) by (left; reflexivity).
    destruct (loop_inv (S n) a b (Z.abs a) (Z.abs b) ea eb 1 (Z.abs a) (Z.abs b) 1 0 0 1 0 1 1 0 b a)
      as (sF & osF & tF & otF & orF & HL & B1 & B2 & B3 & B4 & B5 & B6 & B7 & B8 & B9 & B10);
      try assumption; try (unfold M in *; lia).
    { rewrite Nat2Z.inj_succ, Z.pow_succ_r by lia. lia. }
    exists sF, osF, tF, otF, orF. split; [exact HL|].
    rewrite Z.gcd_abs_l, Z.gcd_abs_r in B3.
    repeat split; try assumption.
    + intros Hz. left. destruct (Z.eq_dec b 0) as [|NZ]; [assumption|]. exfalso. revert Hz. apply B8; lia.
    + intros [Hz | (_ & Hlt & _)]; [|lia]. apply B6. lia.
    + destruct (Z.eq_dec b 0) as [Z0|NZ]; [|exact NZ]. destruct B6 as (E1 & _); lia.
    + destruct (Z.eq_dec b 0) as [Z0|NZ]; [destruct B6 as (E1 & _); lia|].
      apply divide_abs_iff. apply Z.mod_divide; [lia|]. apply B9; lia.
    + intros (NZ & Hd). apply B9; try lia. apply Z.mod_divide; [lia|]. apply divide_abs_iff. exact Hd.
  - assert (NZb : b <> 0) by lia.
    rewrite (loop_step (S n) a b 0 1 1 0 b a 0); unfold int64_sym; try (unfold M in *; lia).
    2:{ symmetry. apply Z.quot_small_iff; [exact NZb|lia]. }
    assert (Hm : sgn1 (- (ea * eb))) by (destruct Hea as [-> | ->], Heb as [-> | ->]; unfold sgn1; lia).
    destruct (loop_inv n a b (Z.abs a) (Z.abs b) eb ea (- (ea * eb)) (Z.abs b) (Z.abs a) 0 1 1 0
                (1 - 0 * 0) 0 (0 - 0 * 1) 1 (a - 0 * b) b)
      as (sF & osF & tF & otF & orF & HL & B1 & B2 & B3 & B4 & B5 & B6 & B7 & B8 & B9 & B10);
      try assumption; try (unfold M in *; lia);
      try (destruct Hea as [-> | ->], Heb as [-> | ->]; lia).
    exists sF, osF, tF, otF, orF. split; [exact HL|].
    rewrite Z.gcd_abs_l, Z.gcd_abs_r, Z.gcd_comm in B3.
    repeat split; try assumption.
    + intros Hz. right. destruct (Z.eq_dec a 0) as [Z0|NZ].
      * destruct B6 as (_ & E1 & _); lia.
      * split; [exact NZ|]. split; [lia|]. apply divide_abs_iff. apply Z.mod_divide; [lia|].
        apply B10; lia.
    + intros [Hz | (NZ & _ & Hd)]; [lia|]. apply B10; try lia.
      apply Z.mod_divide; [lia|]. apply divide_abs_iff. exact Hd.
    + destruct (Z.eq_dec a 0) as [Z0|NZ]; [subst a; apply Z.divide_0_r|].
      exfalso. revert H. apply B7; lia.
    + intros (_ & Hd). destruct (Z.eq_dec a 0) as [Z0|NZ]; [destruct B6 as (E1 & _); lia|].
      exfalso. apply divide_abs_iff in Hd. apply Z.divide_pos_le in Hd; lia.
Qed.

Lemma fuel_198 : M * M < 2 ^ Z.of_nat 198.
Proof. vm_compute. reflexivity. Qed.

(* gcdExt for every fuel S (S n) with 2^n > (2^63-1)^2 *)
Lemma gcdExt_fuel n a b : int64_sym a -> int64_sym b -> M * M < 2 ^ Z.of_nat n ->
  exists s t, c_gcdExt (S (S n)) a b = Some (Z.gcd a b, s, t) /\ s * a + t * b = Z.gcd a b /\
    int64_sym s /\ int64_sym t /\
    (t = 0 <-> b = 0 \/ (a <> 0 /\ Z.abs a < Z.abs b /\ (a | b))) /\
    (s = 0 <-> b <> 0 /\ (b | a)).
Proof.
  intros Ha Hb Hn.
  destruct (loop_from_init n a b Ha Hb Hn) as (sF & osF & tF & otF & orF & HL & B1 & B2 & B3 & B4 & B5 & B6).
  assert (B0 : Z.abs orF <= M).
  { rewrite B3. unfold int64_sym in *.
    destruct (Z.eq_dec a 0) as [->|NZ].
    - rewrite Z.gcd_0_l. lia.
    - pose proof (Z.gcd_nonneg a b). pose proof (Z.gcd_divide_l a b) as Hd.
      apply divide_abs_iff in Hd. apply Z.divide_pos_le in Hd; lia. }
  unfold int64_sym in *. unfold c_gcdExt.
  unfold c_true, c_neg, c_cast, c_bool.
  repeat first [ progress cbn [obind] | rewrite wrap_ok by (unfold M in *; lia) ].
  rewrite HL. cbn [obind].
  destruct (Z.ltb_spec 0 orF) as [Hpos|Hneg].
  - change (1 =? 0) with false. cbn [negb obind].
    repeat first [ progress cbn [obind] | rewrite wrap_ok by (unfold M in *; lia) ].
    exists osF, otF. replace (Z.gcd a b) with orF by lia.
    repeat split; try lia; tauto.
  - change (0 =? 0) with true. cbn [negb obind].
    repeat first [ progress cbn [obind] | rewrite wrap_ok by (unfold M in *; lia) ].
    exists (- osF), (- otF). replace (Z.gcd a b) with (- orF) by lia.
    repeat split; try lia.
    + intros Hz. apply B5. lia.
    + intros Hz. assert (otF = 0) by (apply B5; exact Hz). lia.
    + apply B6. lia.
    + intros Hz. assert (osF = 0) by (apply B6; exact Hz). lia.
Qed.

(* ---------------------------------------------------------------------------------------------------------------
   The specification.  NOTE on the documentation of gcdExt ("We are guaranteed to have t != 0"): this is FALSE.
   t = 0 happens exactly when b = 0 or when a is a proper divisor of b (0 < |a| < |b|, a | b): gcdExt(2,4) stores
   s = 1, t = 0.  What does hold: t <> 0 whenever b <> 0 and |b| <= |a| (gcdExt_t_nonzero).  Symmetrically s = 0
   exactly when b <> 0 and b | a (this is what CMRintmatComputeUpperDiagonal's "s == 0" test relies on). *)
Theorem gcdExt_spec : forall a b, int64_sym a -> int64_sym b ->
  exists s t, c_gcdExt 200 a b = Some (Z.gcd a b, s, t) /\ s * a + t * b = Z.gcd a b /\
    int64_sym s /\ int64_sym t /\
    (t = 0 <-> b = 0 \/ (a <> 0 /\ Z.abs a < Z.abs b /\ (a | b))) /\
    (s = 0 <-> b <> 0 /\ (b | a)).
Proof. intros a b Ha Hb. exact (gcdExt_fuel 198 a b Ha Hb fuel_198). Qed.

(* more fuel does not change anything *)
Corollary gcdExt_fuel_ge : forall a b, int64_sym a -> int64_sym b ->
  forall f, (200 <= f)%nat -> c_gcdExt f a b = c_gcdExt 200 a b.
Proof.
  intros a b Ha Hb f Hf. destruct (gcdExt_spec a b Ha Hb) as (s & t & E & _).
  rewrite E. exact (gcdExt_mono 200 f a b _ Hf E).
Qed.

(* the part of the documented "t != 0" that is true *)
Corollary gcdExt_t_nonzero : forall a b g s t, int64_sym a -> int64_sym b ->
  c_gcdExt 200 a b = Some (g, s, t) -> b <> 0 -> Z.abs b <= Z.abs a -> t <> 0.
Proof.
  intros a b g s t Ha Hb E NZ Hle. destruct (gcdExt_spec a b Ha Hb) as (s' & t' & E' & _ & _ & _ & Ht & _).
  rewrite E in E'. injection E' as _ _ ->. intros Hz. apply Ht in Hz. lia.
Qed.

(* ... and the calls where t = 0 *)
Theorem gcdExt_t_zero : forall a b, int64_sym a -> int64_sym b -> a <> 0 ->
  b = 0 \/ (Z.abs a < Z.abs b /\ (a | b)) ->
  c_gcdExt 200 a b = Some (Z.abs a, Z.sgn a, 0).
Proof.
  intros a b Ha Hb NZ Hc. destruct (gcdExt_spec a b Ha Hb) as (s & t & E & Bz & _ & _ & Ht & _).
  assert (Hd : (a | b)) by (destruct Hc as [-> | (_ & Hd)]; [apply Z.divide_0_r|exact Hd]).
  assert (Hg : Z.gcd a b = Z.abs a).
  { rewrite <- Z.gcd_abs_l. apply Z.divide_gcd_iff; [lia|]. apply Z.divide_abs_l. exact Hd. }
  assert (Ht0 : t = 0) by (apply Ht; destruct Hc as [-> | (Hlt & _)]; [left; reflexivity|right; tauto]).
  rewrite E, Hg. subst t. rewrite Hg in Bz.
  assert (s = Z.sgn a) by (destruct (Z.sgn_spec a) as [(? & ->) | [(? & ->) | (? & ->)]]; nia).
  subst s. reflexivity.
Qed.

Example gcdExt_0_0 : c_gcdExt 200 0 0 = Some (0, -1, 0).
Proof. vm_compute. reflexivity. Qed.

Example gcdExt_2_4 : c_gcdExt 200 2 4 = Some (2, 1, 0).
Proof. vm_compute. reflexivity. Qed.

(* INT64_MIN is excluded from the domain because these calls are undefined (signed overflow): with b = 0 in `-old_r`,
   with b = -1 in `old_r / r`, and e.g. with b = 3 in the last `old_t - q * t` (the cofactor reaches |a|/gcd = 2^63) *)
Example gcdExt_min_0 : c_gcdExt 200 (-9223372036854775808) 0 = None.
Proof. vm_compute. reflexivity. Qed.
Example gcdExt_min_m1 : c_gcdExt 200 (-9223372036854775808) (-1) = None.
Proof. vm_compute. reflexivity. Qed.
Example gcdExt_min_3 : c_gcdExt 200 (-9223372036854775808) 3 = None.
Proof. vm_compute. reflexivity. Qed.
Example gcdExt_3_min : c_gcdExt 200 3 (-9223372036854775808) = None.
Proof. vm_compute. reflexivity. Qed.

(* ---------------------------------------------------------------------------------------------------------------
   LeafModel: the three records (functions 11, 12, 13 = return value, *ps, *pt) of a call in the domain are defined and
   satisfy leaf_spec, i.e. judge_leaf can answer 340 / 342 for gcdExt only if the compiled function deviates from the
   translated text (341) — the boolean specification there is the one proved here. *)
From Cmr Require Import LeafModel.
Import ListNotations.

Theorem leaf_spec_gcdExt : forall a b, int64_sym a -> int64_sym b ->
  exists g s t,
    leaf_gen 11 [a; b] = Some (Some g) /\ leaf_gen 12 [a; b] = Some (Some s) /\ leaf_gen 13 [a; b] = Some (Some t) /\
    leaf_spec 11 [a; b] g = true /\ leaf_spec 12 [a; b] s = true /\ leaf_spec 13 [a; b] t = true.
Proof.
  intros a b Ha Hb. destruct (gcdExt_spec a b Ha Hb) as (s & t & E & Bz & Hs & Ht & Ht0 & Hs0).
  exists (Z.gcd a b), s, t. unfold leaf_gen, leaf_spec, gcd_fuel. rewrite E.
  assert (Sy : forall x, int64_sym x -> sym64 x = true).
  { unfold int64_sym, sym64, M. intros x Hx. apply andb_true_iff. split; apply Z.leb_le; lia. }
  repeat split.
  - apply Z.eqb_refl.
  - rewrite (Sy s Hs), (proj2 (Z.eqb_eq _ _) Bz). cbn [andb]. apply eqb_true_iff, eq_true_iff_eq.
    rewrite andb_true_iff, negb_true_iff, !Z.eqb_eq, Z.eqb_neq, Hs0.
    split; intros (NZ & H); (split; [exact NZ|]); apply (Z.mod_divide a b NZ); exact H.
  - rewrite (Sy t Ht), (proj2 (Z.eqb_eq _ _) Bz). cbn [andb]. apply eqb_true_iff, eq_true_iff_eq.
    rewrite orb_true_iff, !andb_true_iff, negb_true_iff, !Z.eqb_eq, Z.eqb_neq, Z.ltb_lt, Ht0.
    split.
    + intros [H | (NZ & Hlt & H)]; [left; exact H|right]. split; [tauto|]. apply (Z.mod_divide b a NZ). exact H.
    + intros [H | ((NZ & Hlt) & H)]; [left; exact H|right]. split; [exact NZ|split; [exact Hlt|]].
      apply (Z.mod_divide b a NZ). exact H.
Qed.

Print Assumptions gcdExt_spec.
Print Assumptions gcdExt_fuel_ge.
Print Assumptions gcdExt_t_nonzero.
Print Assumptions gcdExt_t_zero.
Print Assumptions gcdExt_fuel.
Print Assumptions gcdExt_min_0.
Print Assumptions leaf_spec_gcdExt.
