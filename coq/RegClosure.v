(* RegClosure.v -- closure properties of regularity (TuModel.regular_bf: a 0/1 matrix that can be signed to a
   totally unimodular matrix): submatrices, transposition, adding / removing a binary series-parallel-reducible
   line (kind 4 of RelModel.judge_rel, V_REG position) and binary 2-sums (KsumModel.twosum 2).
   Everything is reduced, through RegularProofs.regular_bf_spec, to the corresponding closure property of total
   unimodularity (TuClosure.v, TuTwoSum.v) applied to a suitable signing. *)
From Coq Require Import Arith PeanoNat.
From Cmr Require Import Base Det BaseProofs PivotModel SpModel RelModel TuModel KsumModel SpProofs SpProofs2 RegularProofs.
From Cmr Require RelProofs TuClosure RegPivotArith SpTU KsumProofs TuTwoSum.
Local Open Scope Z_scope.

(* ------------------------------------------------------------------------------------------ *)
(* 0. small facts                                                                             *)
(* ------------------------------------------------------------------------------------------ *)

Lemma is_binary_submat : forall M rs cs, is_binary M = true -> is_binary (submat M rs cs) = true.
Proof.
  intros M rs cs H. unfold is_binary, mat_forall, submat.
  apply forallb_forall. intros r Hr. apply in_map_iff in Hr. destruct Hr as [i [E _]]. subst r.
  apply forallb_forall. intros x Hx. apply in_map_iff in Hx. destruct Hx as [j [E _]]. subst x.
  apply is_binary_entry_iff. apply get_binary. exact H.
Qed.

Lemma is_binary_intro : forall m n M, wf_mat m n M = true ->
  (forall i j, (i < m)%nat -> (j < n)%nat -> get M i j = 0 \/ get M i j = 1) -> is_binary M = true.
Proof.
  intros m n M HW H. rewrite <- (mk_mat_get m n M HW). unfold is_binary, mat_forall, mk_mat.
  apply forallb_forall. intros r Hr. apply in_map_iff in Hr. destruct Hr as [i [E Hi]]. subst r.
  apply forallb_forall. intros x Hx. apply in_map_iff in Hx. destruct Hx as [j [E Hj]]. subst x.
  apply in_iota in Hi. apply in_iota in Hj. apply is_binary_entry_iff. apply H; lia.
Qed.

Lemma signing_of_submat : forall M S rs cs, signing_of M S -> signing_of (submat M rs cs) (submat S rs cs).
Proof.
  intros M S rs cs H. unfold signing_of, submat.
  apply RegPivotArith.Forall2_map_in. intros i _.
  apply RegPivotArith.Forall2_map_in. intros j _.
  apply signing_of_get. exact H.
Qed.

Lemma signing_of_transpose : forall m n M S, signing_of M S -> signing_of (transpose m n M) (transpose m n S).
Proof.
  intros m n M S H. unfold transpose. apply RegPivotArith.signing_of_mk_mat.
  intros i j _ _. apply signing_of_get. exact H.
Qed.

Lemma is_binary_transpose : forall m n M, is_binary M = true -> is_binary (transpose m n M) = true.
Proof. intros m n M H. unfold transpose. apply is_binary_mk_mat. intros i j. apply get_binary. exact H. Qed.

Lemma wf_transpose : forall m n M, wf_mat n m (transpose m n M) = true.
Proof. intros. unfold transpose. apply wf_mk_mat. Qed.

Lemma transpose_transpose : forall m n M, wf_mat m n M = true -> transpose n m (transpose m n M) = M.
Proof.
  intros m n M HW. apply (mat_ext m n); [apply wf_transpose | exact HW |].
  intros i j Hi Hj. rewrite (RelProofs.get_transpose n m (transpose m n M) j i Hj Hi).
  apply RelProofs.get_transpose; assumption.
Qed.

Lemma submat_transpose : forall m n M rs cs, all_lt n rs = true -> all_lt m cs = true ->
  submat (transpose m n M) rs cs = transpose (length cs) (length rs) (submat M cs rs).
Proof.
  intros m n M rs cs Hr Hc.
  apply (mat_ext (length rs) (length cs)); [apply SpTU.wf_submat | apply wf_transpose |].
  intros i j Hi Hj.
  rewrite get_submat by assumption.
  rewrite (RelProofs.get_transpose (length cs) (length rs) (submat M cs rs) j i Hj Hi).
  rewrite get_submat by assumption.
  apply RelProofs.get_transpose.
  - apply (all_lt_In m cs); [exact Hc | apply nth_In; exact Hj].
  - apply (all_lt_In n rs); [exact Hr | apply nth_In; exact Hi].
Qed.

Lemma index_of_nth : forall l i, NoDup l -> (i < length l)%nat ->
  RelProofs.index_of (nth i l 0%nat) l = i.
Proof.
  intros l i HN Hi.
  assert (I : In (nth i l 0%nat) l) by (apply nth_In; exact Hi).
  destruct (RelProofs.index_of_spec _ _ I) as [H1 H2].
  apply (proj1 (NoDup_nth l 0%nat) HN); assumption.
Qed.

(* ------------------------------------------------------------------------------------------ *)
(* 1. heredity and transposition                                                              *)
(* ------------------------------------------------------------------------------------------ *)

Theorem regular_bf_submat : forall m n M rs cs, wf_mat m n M = true ->
  all_lt m rs = true -> all_lt n cs = true -> regular_bf m n M = true ->
  regular_bf (length rs) (length cs) (submat M rs cs) = true.
Proof.
  intros m n M rs cs HW Hr Hc H.
  apply (regular_bf_spec m n M HW) in H. destruct H as [HB [S [HS HT]]].
  apply (regular_bf_spec _ _ _ (SpTU.wf_submat M rs cs)). split; [apply is_binary_submat; exact HB|].
  exists (submat S rs cs). split; [apply signing_of_submat; exact HS|].
  exact (@TuClosure.tu_bf_submat m n S rs cs Hr Hc HT).
Qed.

Lemma regular_bf_transpose_imp : forall m n M, wf_mat m n M = true ->
  regular_bf m n M = true -> regular_bf n m (transpose m n M) = true.
Proof.
  intros m n M HW H.
  apply (regular_bf_spec m n M HW) in H. destruct H as [HB [S [HS HT]]].
  apply (regular_bf_spec _ _ _ (wf_transpose m n M)). split; [apply is_binary_transpose; exact HB|].
  exists (transpose m n S). split; [apply signing_of_transpose; exact HS|].
  rewrite (@TuClosure.tu_bf_transpose m n S). exact HT.
Qed.

Theorem regular_bf_transpose : forall m n M, wf_mat m n M = true ->
  regular_bf n m (transpose m n M) = regular_bf m n M.
Proof.
  intros m n M HW. apply RelProofs.bool_eq_iff. split; intros H.
  - rewrite <- (transpose_transpose m n M HW).
    apply regular_bf_transpose_imp; [apply wf_transpose | exact H].
  - apply regular_bf_transpose_imp; assumption.
Qed.

(* ------------------------------------------------------------------------------------------ *)
(* 2. adding / removing a binary-reducible line                                               *)
(* ------------------------------------------------------------------------------------------ *)

(* extend a signing S0 of (M without row k) by a new row L at position k *)
Definition ext_row (m n k : nat) (S0 : mat) (L : nat -> Z) : mat :=
  mk_mat m n (fun i j => if Nat.eqb i k then L j else get S0 (RelProofs.index_of i (keep_line m k)) j).

Lemma NoDup_keep_line : forall m k, NoDup (keep_line m k).
Proof. intros m k. apply BalancedProofs.nodupn_NoDup. apply RelProofs.nodupn_keep_line. Qed.

Lemma wf_drop_row : forall m n M k, (k < m)%nat ->
  wf_mat (m - 1) n (submat M (keep_line m k) (iota 0 n)) = true.
Proof.
  intros m n M k Hk. pose proof (SpTU.wf_submat M (keep_line m k) (iota 0 n)) as W.
  rewrite (RelProofs.length_keep_line m k Hk), length_iota in W. exact W.
Qed.

Lemma get_drop_row : forall m n M k i j, (k < m)%nat -> In i (keep_line m k) -> (j < n)%nat ->
  get (submat M (keep_line m k) (iota 0 n)) (RelProofs.index_of i (keep_line m k)) j = get M i j.
Proof.
  intros m n M k i j Hk Hi Hj.
  rewrite get_submat by (try apply RelProofs.index_of_lt; try rewrite length_iota; assumption).
  rewrite (RelProofs.nth_index_of i _ Hi), (RelProofs.nth_iota n 0 j Hj). reflexivity.
Qed.

Lemma ext_row_get_k : forall m n k S0 L j, (k < m)%nat -> (j < n)%nat -> get (ext_row m n k S0 L) k j = L j.
Proof. intros. unfold ext_row. rewrite get_mk_mat by assumption. rewrite Nat.eqb_refl. reflexivity. Qed.

Lemma ext_row_get_other : forall m n k S0 L i j, (i < m)%nat -> i <> k -> (j < n)%nat ->
  get (ext_row m n k S0 L) i j = get S0 (RelProofs.index_of i (keep_line m k)) j.
Proof.
  intros m n k S0 L i j Hi Ne Hj. unfold ext_row. rewrite get_mk_mat by assumption.
  destruct (Nat.eqb_spec i k); [contradiction | reflexivity].
Qed.

Lemma ext_row_back : forall m n k S0 L, (k < m)%nat -> wf_mat (m - 1) n S0 = true ->
  submat (ext_row m n k S0 L) (keep_line m k) (iota 0 n) = S0.
Proof.
  intros m n k S0 L Hk HW. apply (mat_ext (m - 1) n); [apply wf_drop_row; exact Hk | exact HW |].
  intros i j Hi Hj.
  assert (Li : (i < length (keep_line m k))%nat) by (rewrite RelProofs.length_keep_line; assumption).
  rewrite get_submat by (try rewrite length_iota; assumption).
  rewrite (RelProofs.nth_iota n 0 j Hj). cbn [Nat.add].
  assert (I : In (nth i (keep_line m k) 0%nat) (keep_line m k)) by (apply nth_In; exact Li).
  apply RelProofs.In_keep_line in I. destruct I as [I1 I2].
  rewrite ext_row_get_other by assumption.
  rewrite index_of_nth by (try apply NoDup_keep_line; assumption). reflexivity.
Qed.

Lemma ext_row_signing : forall m n M k S0 L, wf_mat m n M = true -> (k < m)%nat ->
  signing_of (submat M (keep_line m k) (iota 0 n)) S0 ->
  (forall j, (j < n)%nat -> sign_entry (get M k j) (L j)) ->
  signing_of M (ext_row m n k S0 L).
Proof.
  intros m n M k S0 L HW Hk HS HL.
  apply (RegPivotArith.signing_of_intro m n M _ HW); [apply wf_mk_mat|].
  intros i j Hi Hj. destruct (Nat.eq_dec i k) as [->|Ne].
  - rewrite ext_row_get_k by assumption. apply HL. exact Hj.
  - rewrite ext_row_get_other by assumption.
    assert (I : In i (keep_line m k)) by (apply RelProofs.In_keep_line; split; assumption).
    pose proof (signing_of_get _ _ HS (RelProofs.index_of i (keep_line m k)) j) as G.
    rewrite (get_drop_row m n M k i j Hk I Hj) in G. exact G.
Qed.

Lemma sign_entry_self_binary : forall x, x = 0 \/ x = 1 -> sign_entry x x.
Proof. intros x [->| ->]; [left | right]; split; auto; lia. Qed.

Lemma regular_bf_add_row : forall m n M k, wf_mat m n M = true -> is_binary M = true -> (k < m)%nat ->
  row_reducible false M (all_true m) (all_true n) k = true ->
  regular_bf (m - 1) n (submat M (keep_line m k) (iota 0 n)) = true -> regular_bf m n M = true.
Proof.
  intros m n M k HW HB Hk R H.
  apply (regular_bf_spec _ _ _ (wf_drop_row m n M k Hk)) in H. destruct H as [_ [S0 [HS0 HT0]]].
  pose proof (signing_of_wf _ _ _ _ HS0 (wf_drop_row m n M k Hk)) as W0.
  apply (regular_bf_spec m n M HW). split; [exact HB|].
  assert (Fin : forall L, (forall j, (j < n)%nat -> sign_entry (get M k j) (L j)) ->
                row_reducible true (ext_row m n k S0 L) (all_true m) (all_true n) k = true ->
                exists S, signing_of M S /\ tu_bf m n S = true).
  { intros L HL HR. exists (ext_row m n k S0 L).
    pose proof (ext_row_signing m n M k S0 L HW Hk HS0 HL) as HS.
    split; [exact HS|].
    rewrite (@TuClosure.tu_bf_add_line m n (ext_row m n k S0 L) true k
               (signing_of_ternary _ _ HS) (proj2 (Nat.ltb_lt _ _) Hk) HR).
    rewrite (ext_row_back m n k S0 L Hk W0). exact HT0. }
  apply row_reducible_iff in R. destruct R as [U | (r' & s & Lr' & Ne & Ss & C)].
  - (* zero or unit row: the row itself *)
    apply (Fin (fun j => get M k j)).
    + intros j _. apply sign_entry_self_binary. apply get_binary. exact HB.
    + apply row_reducible_iff. left. intros c1 c2 L1 L2.
      pose proof (proj1 (live_all_true _ _) L1) as B1. pose proof (proj1 (live_all_true _ _) L2) as B2.
      rewrite !ext_row_get_k by assumption. apply U; assumption.
  - (* copy of row r': copy the signed row r' *)
    apply live_all_true in Lr'.
    assert (E1 : s = 1) by (destruct Ss as [E|[E _]]; [exact E | discriminate E]). subst s.
    assert (I : In r' (keep_line m k)) by (apply RelProofs.In_keep_line; split; assumption).
    apply (Fin (fun j => get S0 (RelProofs.index_of r' (keep_line m k)) j)).
    + intros j Hj.
      pose proof (signing_of_get _ _ HS0 (RelProofs.index_of r' (keep_line m k)) j) as G.
      rewrite (get_drop_row m n M k r' j Hk I Hj) in G.
      rewrite (C j (proj2 (live_all_true _ _) Hj)), Z.mul_1_l. exact G.
    + apply row_reducible_iff. right. exists r', 1.
      split; [apply live_all_true; exact Lr'|]. split; [exact Ne|]. split; [left; reflexivity|].
      intros c Lc. apply live_all_true in Lc.
      rewrite ext_row_get_k, ext_row_get_other by assumption. rewrite Z.mul_1_l. reflexivity.
Qed.

(* reducibility of a column is reducibility of the corresponding row of the transpose *)
Lemma line_reducible_transpose : forall t m n M k, (k < n)%nat ->
  line_reducible t n m (transpose m n M) true k = line_reducible t m n M false k.
Proof.
  intros t m n M k Hk. cbn [line_reducible].
  rewrite row_reducible_line_red, col_reducible_line_red.
  assert (Lk : live (all_true n) k = true) by (apply live_all_true; exact Hk).
  apply RelProofs.bool_eq_iff. split; apply RelProofs.line_red_ext; try exact Lk;
    intros x y Lx Ly; apply live_all_true in Lx; apply live_all_true in Ly; cbv beta;
    [|symmetry]; apply RelProofs.get_transpose; assumption.
Qed.

Lemma drop_col_transpose : forall m n M k, (k < n)%nat ->
  submat (transpose m n M) (keep_line n k) (iota 0 m) =
  transpose m (n - 1) (submat M (iota 0 m) (keep_line n k)).
Proof.
  intros m n M k Hk.
  rewrite (submat_transpose m n M (keep_line n k) (iota 0 m)
             (RelProofs.all_lt_keep_line n k) (RelProofs.all_lt_iota m)).
  rewrite length_iota, (RelProofs.length_keep_line n k Hk). reflexivity.
Qed.

Theorem regular_bf_add_line : forall m' n' M' (isr : bool) k,
  wf_mat m' n' M' = true -> is_binary M' = true ->
  (if isr then Nat.ltb k m' else Nat.ltb k n') = true ->
  line_reducible false m' n' M' isr k = true ->
  regular_bf m' n' M' =
  if isr then regular_bf (m' - 1) n' (submat M' (keep_line m' k) (iota 0 n'))
  else regular_bf m' (n' - 1) (submat M' (iota 0 m') (keep_line n' k)).
Proof.
  assert (Row : forall m n M k, wf_mat m n M = true -> is_binary M = true -> (k < m)%nat ->
            line_reducible false m n M true k = true ->
            regular_bf m n M = regular_bf (m - 1) n (submat M (keep_line m k) (iota 0 n))).
  { intros m n M k HW HB Hk R. apply RelProofs.bool_eq_iff. split; intros H.
    - pose proof (regular_bf_submat m n M (keep_line m k) (iota 0 n) HW
                    (RelProofs.all_lt_keep_line m k) (RelProofs.all_lt_iota n) H) as X.
      rewrite (RelProofs.length_keep_line m k Hk), length_iota in X. exact X.
    - apply (regular_bf_add_row m n M k); assumption. }
  intros m n M [|] k HW HB Hk R; apply Nat.ltb_lt in Hk.
  - apply Row; assumption.
  - rewrite <- (regular_bf_transpose m n M HW).
    rewrite (Row n m (transpose m n M) k (wf_transpose m n M) (is_binary_transpose m n M HB) Hk).
    + rewrite (drop_col_transpose m n M k Hk). apply regular_bf_transpose.
      pose proof (SpTU.wf_submat M (iota 0 m) (keep_line n k)) as W.
      rewrite length_iota, (RelProofs.length_keep_line n k Hk) in W. exact W.
    + rewrite line_reducible_transpose by exact Hk. exact R.
Qed.

(* ------------------------------------------------------------------------------------------ *)
(* 3. binary 2-sums                                                                           *)
(* ------------------------------------------------------------------------------------------ *)

(* two matrices with the same block shape are related entrywise as soon as their blocks are *)
Lemma sum_blocks_rel : forall (P : Z -> Z -> Prop) M S M1 S1 M2 S2 R1 C1 R2 C2 tr bl tr' bl',
  KsumProofs.sum_blocks M M1 M2 R1 C1 R2 C2 tr bl ->
  KsumProofs.sum_blocks S S1 S2 R1 C1 R2 C2 tr' bl' ->
  (forall i j, P (get M1 i j) (get S1 i j)) -> (forall i j, P (get M2 i j) (get S2 i j)) ->
  (forall i j, (i < length R1)%nat -> (j < length C2)%nat -> P (tr i j) (tr' i j)) ->
  (forall i j, (i < length R2)%nat -> (j < length C1)%nat -> P (bl i j) (bl' i j)) ->
  forall i j, (i < length R1 + length R2)%nat -> (j < length C1 + length C2)%nat ->
    P (get M i j) (get S i j).
Proof.
  intros P M S M1 S1 M2 S2 R1 C1 R2 C2 tr bl tr' bl'
         (_ & Aul & Aur & Adl & Adr) (_ & Bul & Bur & Bdl & Bdr) H1 H2 Htr Hbl i j Hi Hj.
  destruct (lt_dec i (length R1)) as [Li|Li]; destruct (lt_dec j (length C1)) as [Lj|Lj].
  - rewrite Aul, Bul by assumption. apply H1.
  - replace j with (length C1 + (j - length C1))%nat by lia.
    rewrite Aur, Bur by lia. apply Htr; lia.
  - replace i with (length R1 + (i - length R1))%nat by lia.
    rewrite Adl, Bdl by lia. apply Hbl; lia.
  - replace i with (length R1 + (i - length R1))%nat by lia.
    replace j with (length C1 + (j - length C1))%nat by lia.
    rewrite Adr, Bdr by lia. apply H2.
Qed.

(* the connecting block: GF(3) product of the signed lines signs the GF(2) product of the 0/1 lines *)
Lemma sign_entry_prod : forall a b x y, RegPivotArith.bin a -> RegPivotArith.bin b ->
  sign_entry a x -> sign_entry b y ->
  sign_entry (modulo_ternary (a * b) 2) (modulo_ternary (x * y) 3).
Proof.
  intros a b x y Ha Hb Hx Hy.
  destruct (RegPivotArith.sign_entry_bin a x Ha Hx) as [[-> ->]|[[-> ->]|[-> ->]]];
  destruct (RegPivotArith.sign_entry_bin b y Hb Hy) as [[-> ->]|[[-> ->]|[-> ->]]];
  cbv;
  first [ left; split; reflexivity
        | right; split; [discriminate | first [left; reflexivity | right; reflexivity]] ].
Qed.

Lemma bin_prod : forall a b, RegPivotArith.bin a -> RegPivotArith.bin b ->
  RegPivotArith.bin (modulo_ternary (a * b) 2).
Proof. intros a b [->| ->] [->| ->]; cbv; auto. Qed.

Lemma twosum_row_col_ok : forall p m1 n1 A m2 n2 B r1 c2, (r1 < m1)%nat -> (c2 < n2)%nat ->
  exists S, twosum p m1 n1 A m2 n2 B (Some r1) None None (Some c2) = KOk S.
Proof.
  intros p m1 n1 A m2 n2 B r1 c2 H1 H2. unfold twosum.
  rewrite (proj2 (Nat.ltb_lt _ _) H1), (proj2 (Nat.ltb_lt _ _) H2). cbn [andb]. eexists. reflexivity.
Qed.

Lemma twosum_col_row_ok : forall p m1 n1 A m2 n2 B c1 r2, (c1 < n1)%nat -> (r2 < m2)%nat ->
  exists S, twosum p m1 n1 A m2 n2 B None (Some c1) (Some r2) None = KOk S.
Proof.
  intros p m1 n1 A m2 n2 B c1 r2 H1 H2. unfold twosum.
  rewrite (proj2 (Nat.ltb_lt _ _) H1), (proj2 (Nat.ltb_lt _ _) H2). cbn [andb]. eexists. reflexivity.
Qed.

Theorem regular_bf_twosum_row_col : forall m1 n1 M1 m2 n2 M2 r1 c2 M,
  wf_mat m1 n1 M1 = true -> wf_mat m2 n2 M2 = true ->
  twosum 2 m1 n1 M1 m2 n2 M2 (Some r1) None None (Some c2) = KOk M ->
  regular_bf m1 n1 M1 = true -> regular_bf m2 n2 M2 = true ->
  regular_bf (m1 - 1 + m2) (n1 + (n2 - 1)) M = true.
Proof.
  intros m1 n1 M1 m2 n2 M2 r1 c2 M W1 W2 Htw G1 G2.
  apply (regular_bf_spec m1 n1 M1 W1) in G1. destruct G1 as [B1 [S1 [HS1 T1]]].
  apply (regular_bf_spec m2 n2 M2 W2) in G2. destruct G2 as [B2 [S2 [HS2 T2]]].
  pose proof (KsumProofs.twosum_spec_row_col _ _ _ _ _ _ _ _ _ _ Htw) as X. cbv zeta in X.
  destruct X as [[Hr1 Hc2] [[L1 L2] SB]].
  destruct (twosum_row_col_ok 3 m1 n1 S1 m2 n2 S2 r1 c2 Hr1 Hc2) as [S HtwS].
  pose proof (KsumProofs.twosum_spec_row_col _ _ _ _ _ _ _ _ _ _ HtwS) as Y. cbv zeta in Y.
  destruct Y as [_ [_ SBS]].
  pose proof (@TuTwoSum.tu_bf_twosum_row_col m1 n1 S1 m2 n2 S2 r1 c2 S HtwS T1 T2) as TS.
  assert (WM : wf_mat (m1 - 1 + m2) (n1 + (n2 - 1)) M = true).
  { destruct SB as [W _]. rewrite L1, L2, !length_iota in W. exact W. }
  assert (WS : wf_mat (m1 - 1 + m2) (n1 + (n2 - 1)) S = true).
  { destruct SBS as [W _]. rewrite L1, L2, !length_iota in W. exact W. }
  assert (Bn1 : forall i j, RegPivotArith.bin (get M1 i j)) by (intros; apply get_binary; exact B1).
  assert (Bn2 : forall i j, RegPivotArith.bin (get M2 i j)) by (intros; apply get_binary; exact B2).
  apply (regular_bf_spec _ _ M WM). split.
  - apply (is_binary_intro _ _ M WM). intros i j Hi Hj.
    apply (sum_blocks_rel (fun x _ => x = 0 \/ x = 1) M M M1 M1 M2 M2 _ _ _ _ _ _ _ _ SB SB);
      try (rewrite ?L1, ?L2, ?length_iota; assumption); auto.
    intros i' j' _ _. apply bin_prod; auto.
  - exists S. split; [|exact TS].
    apply (RegPivotArith.signing_of_intro _ _ M S WM WS). intros i j Hi Hj.
    apply (sum_blocks_rel sign_entry M S M1 S1 M2 S2 _ _ _ _ _ _ _ _ SB SBS);
      try (rewrite ?L1, ?L2, ?length_iota; assumption).
    + apply signing_of_get. exact HS1.
    + apply signing_of_get. exact HS2.
    + intros i' j' _ _. apply sign_entry_00.
    + intros i' j' _ _. apply sign_entry_prod; auto; apply signing_of_get; assumption.
Qed.

Theorem regular_bf_twosum_col_row : forall m1 n1 M1 m2 n2 M2 c1 r2 M,
  wf_mat m1 n1 M1 = true -> wf_mat m2 n2 M2 = true ->
  twosum 2 m1 n1 M1 m2 n2 M2 None (Some c1) (Some r2) None = KOk M ->
  regular_bf m1 n1 M1 = true -> regular_bf m2 n2 M2 = true ->
  regular_bf (m1 + (m2 - 1)) (n1 - 1 + n2) M = true.
Proof.
  intros m1 n1 M1 m2 n2 M2 c1 r2 M W1 W2 Htw G1 G2.
  apply (regular_bf_spec m1 n1 M1 W1) in G1. destruct G1 as [B1 [S1 [HS1 T1]]].
  apply (regular_bf_spec m2 n2 M2 W2) in G2. destruct G2 as [B2 [S2 [HS2 T2]]].
  pose proof (KsumProofs.twosum_spec_col_row _ _ _ _ _ _ _ _ _ _ Htw) as X. cbv zeta in X.
  destruct X as [[Hc1 Hr2] [[L1 L2] SB]].
  destruct (twosum_col_row_ok 3 m1 n1 S1 m2 n2 S2 c1 r2 Hc1 Hr2) as [S HtwS].
  pose proof (KsumProofs.twosum_spec_col_row _ _ _ _ _ _ _ _ _ _ HtwS) as Y. cbv zeta in Y.
  destruct Y as [_ [_ SBS]].
  pose proof (@TuTwoSum.tu_bf_twosum_col_row m1 n1 S1 m2 n2 S2 c1 r2 S HtwS T1 T2) as TS.
  assert (WM : wf_mat (m1 + (m2 - 1)) (n1 - 1 + n2) M = true).
  { destruct SB as [W _]. rewrite L1, L2, !length_iota in W. exact W. }
  assert (WS : wf_mat (m1 + (m2 - 1)) (n1 - 1 + n2) S = true).
  { destruct SBS as [W _]. rewrite L1, L2, !length_iota in W. exact W. }
  assert (Bn1 : forall i j, RegPivotArith.bin (get M1 i j)) by (intros; apply get_binary; exact B1).
  assert (Bn2 : forall i j, RegPivotArith.bin (get M2 i j)) by (intros; apply get_binary; exact B2).
  apply (regular_bf_spec _ _ M WM). split.
  - apply (is_binary_intro _ _ M WM). intros i j Hi Hj.
    apply (sum_blocks_rel (fun x _ => x = 0 \/ x = 1) M M M1 M1 M2 M2 _ _ _ _ _ _ _ _ SB SB);
      try (rewrite ?L1, ?L2, ?length_iota; assumption); auto.
    intros i' j' _ _. apply bin_prod; auto.
  - exists S. split; [|exact TS].
    apply (RegPivotArith.signing_of_intro _ _ M S WM WS). intros i j Hi Hj.
    apply (sum_blocks_rel sign_entry M S M1 S1 M2 S2 _ _ _ _ _ _ _ _ SB SBS);
      try (rewrite ?L1, ?L2, ?length_iota; assumption).
    + apply signing_of_get. exact HS1.
    + apply signing_of_get. exact HS2.
    + intros i' j' _ _. apply sign_entry_prod; auto; apply signing_of_get; assumption.
    + intros i' j' _ _. apply sign_entry_00.
Qed.

(* ---- converses: the components are (up to the position of the connecting line) submatrices of the 2-sum ---- *)

Lemma nth_map_iota : forall (f : nat -> nat) m i, (i < m)%nat -> nth i (map f (iota 0 m)) 0%nat = f i.
Proof.
  intros f m i Hi. rewrite (nth_indep _ 0%nat (f 0%nat)) by (rewrite map_length, length_iota; exact Hi).
  rewrite map_nth. rewrite (RelProofs.nth_iota m 0 i Hi). reflexivity.
Qed.

Lemma regular_bf_as_submat : forall m n M m0 n0 M0 (f g : nat -> nat),
  wf_mat m n M = true -> wf_mat m0 n0 M0 = true ->
  (forall i, (i < m0)%nat -> (f i < m)%nat) -> (forall j, (j < n0)%nat -> (g j < n)%nat) ->
  (forall i j, (i < m0)%nat -> (j < n0)%nat -> get M (f i) (g j) = get M0 i j) ->
  regular_bf m n M = true -> regular_bf m0 n0 M0 = true.
Proof.
  intros m n M m0 n0 M0 f g WM W0 Hf Hg E H.
  set (rs := map f (iota 0 m0)). set (cs := map g (iota 0 n0)).
  assert (Lr : length rs = m0) by (unfold rs; rewrite map_length, length_iota; reflexivity).
  assert (Lc : length cs = n0) by (unfold cs; rewrite map_length, length_iota; reflexivity).
  assert (Ar : all_lt m rs = true).
  { apply BalancedProofs.all_lt_spec. intros x Hx. unfold rs in Hx. apply in_map_iff in Hx.
    destruct Hx as [i [<- Hi]]. apply in_iota in Hi. apply Hf. lia. }
  assert (Ac : all_lt n cs = true).
  { apply BalancedProofs.all_lt_spec. intros x Hx. unfold cs in Hx. apply in_map_iff in Hx.
    destruct Hx as [j [<- Hj]]. apply in_iota in Hj. apply Hg. lia. }
  pose proof (regular_bf_submat m n M rs cs WM Ar Ac H) as X. rewrite Lr, Lc in X.
  replace M0 with (submat M rs cs); [exact X|].
  apply (mat_ext m0 n0); [|exact W0|].
  - pose proof (SpTU.wf_submat M rs cs) as W. rewrite Lr, Lc in W. exact W.
  - intros i j Hi Hj. rewrite get_submat by lia. unfold rs, cs.
    rewrite !nth_map_iota by assumption. apply E; assumption.
Qed.

Lemma In_keep1 : forall k r i, (i < k)%nat -> i <> r -> In i (keep_idx k [r]).
Proof.
  intros k r i Hi Ne. apply KsumProofs.keep_idx_In. split; [exact Hi|].
  intros [E|[]]. apply Ne. symmetry. exact E.
Qed.

Lemma mod2_mul_1_r : forall a b, RegPivotArith.bin a -> RegPivotArith.bin b -> b <> 0 ->
  modulo_ternary (a * b) 2 = a.
Proof. intros a b [->| ->] [->| ->] N; try (exfalso; apply N; reflexivity); reflexivity. Qed.

Lemma mod2_mul_1_l : forall a b, RegPivotArith.bin a -> RegPivotArith.bin b -> a <> 0 ->
  modulo_ternary (a * b) 2 = b.
Proof. intros a b [->| ->] [->| ->] N; try (exfalso; apply N; reflexivity); reflexivity. Qed.

Theorem regular_bf_twosum_row_col_conv : forall m1 n1 M1 m2 n2 M2 r1 c2 M,
  wf_mat m1 n1 M1 = true -> wf_mat m2 n2 M2 = true ->
  twosum 2 m1 n1 M1 m2 n2 M2 (Some r1) None None (Some c2) = KOk M ->
  is_binary M1 = true -> is_binary M2 = true ->
  (exists j, (j < n1)%nat /\ get M1 r1 j <> 0) -> (exists i, (i < m2)%nat /\ get M2 i c2 <> 0) ->
  regular_bf (m1 - 1 + m2) (n1 + (n2 - 1)) M = true ->
  regular_bf m1 n1 M1 = true /\ regular_bf m2 n2 M2 = true.
Proof.
  intros m1 n1 M1 m2 n2 M2 r1 c2 M W1 W2 Htw B1 B2 [j0 [Hj0 Nz1]] [i0 [Hi0 Nz2]] H.
  pose proof (KsumProofs.twosum_spec_row_col _ _ _ _ _ _ _ _ _ _ Htw) as X. cbv zeta in X.
  destruct X as [[Hr1 Hc2] [[L1 L2] (WM & Aul & _ & Adl & Adr)]].
  rewrite ?L1, ?L2, ?length_iota in WM. rewrite ?L1, ?L2, ?length_iota in Aul.
  rewrite ?L1, ?L2, ?length_iota in Adl. rewrite ?L1, ?L2, ?length_iota in Adr.
  assert (Bn1 : forall i j, RegPivotArith.bin (get M1 i j)) by (intros; apply get_binary; exact B1).
  assert (Bn2 : forall i j, RegPivotArith.bin (get M2 i j)) by (intros; apply get_binary; exact B2).
  set (R1 := keep_idx m1 [r1]) in *. set (C2 := keep_idx n2 [c2]) in *.
  split.
  - apply (regular_bf_as_submat _ _ M m1 n1 M1
             (fun i => if Nat.eqb i r1 then (m1 - 1 + i0)%nat else RelProofs.index_of i R1)
             (fun j => j) WM W1); [| |  |exact H].
    + intros i Hi. destruct (Nat.eqb_spec i r1) as [_|Ne]; [lia|].
      pose proof (RelProofs.index_of_lt i R1 (In_keep1 m1 r1 i Hi Ne)) as Q. rewrite L1 in Q. lia.
    + intros j Hj. lia.
    + intros i j Hi Hj. destruct (Nat.eqb_spec i r1) as [->|Ne].
      * rewrite (Adl i0 j Hi0 Hj). apply mod2_mul_1_l; auto.
      * pose proof (In_keep1 m1 r1 i Hi Ne) as I.
        pose proof (RelProofs.index_of_lt i R1 I) as Q. rewrite L1 in Q.
        rewrite (Aul _ j Q Hj). rewrite (RelProofs.nth_index_of i R1 I).
        rewrite (RelProofs.nth_iota n1 0 j Hj). reflexivity.
  - apply (regular_bf_as_submat _ _ M m2 n2 M2
             (fun i => (m1 - 1 + i)%nat)
             (fun j => if Nat.eqb j c2 then j0 else (n1 + RelProofs.index_of j C2)%nat) WM W2); [| | |exact H].
    + intros i Hi. lia.
    + intros j Hj. destruct (Nat.eqb_spec j c2) as [_|Ne]; [lia|].
      pose proof (RelProofs.index_of_lt j C2 (In_keep1 n2 c2 j Hj Ne)) as Q. rewrite L2 in Q. lia.
    + intros i j Hi Hj. destruct (Nat.eqb_spec j c2) as [->|Ne].
      * rewrite (Adl i j0 Hi Hj0). apply mod2_mul_1_r; auto.
      * pose proof (In_keep1 n2 c2 j Hj Ne) as I.
        pose proof (RelProofs.index_of_lt j C2 I) as Q. rewrite L2 in Q.
        rewrite (Adr i _ Hi Q). rewrite (RelProofs.nth_index_of j C2 I).
        rewrite (RelProofs.nth_iota m2 0 i Hi). reflexivity.
Qed.

Theorem regular_bf_twosum_col_row_conv : forall m1 n1 M1 m2 n2 M2 c1 r2 M,
  wf_mat m1 n1 M1 = true -> wf_mat m2 n2 M2 = true ->
  twosum 2 m1 n1 M1 m2 n2 M2 None (Some c1) (Some r2) None = KOk M ->
  is_binary M1 = true -> is_binary M2 = true ->
  (exists i, (i < m1)%nat /\ get M1 i c1 <> 0) -> (exists j, (j < n2)%nat /\ get M2 r2 j <> 0) ->
  regular_bf (m1 + (m2 - 1)) (n1 - 1 + n2) M = true ->
  regular_bf m1 n1 M1 = true /\ regular_bf m2 n2 M2 = true.
Proof.
  intros m1 n1 M1 m2 n2 M2 c1 r2 M W1 W2 Htw B1 B2 [i0 [Hi0 Nz1]] [j0 [Hj0 Nz2]] H.
  pose proof (KsumProofs.twosum_spec_col_row _ _ _ _ _ _ _ _ _ _ Htw) as X. cbv zeta in X.
  destruct X as [[Hc1 Hr2] [[L1 L2] (WM & Aul & Aur & _ & Adr)]].
  rewrite ?L1, ?L2, ?length_iota in WM. rewrite ?L1, ?L2, ?length_iota in Aul.
  rewrite ?L1, ?L2, ?length_iota in Aur. rewrite ?L1, ?L2, ?length_iota in Adr.
  assert (Bn1 : forall i j, RegPivotArith.bin (get M1 i j)) by (intros; apply get_binary; exact B1).
  assert (Bn2 : forall i j, RegPivotArith.bin (get M2 i j)) by (intros; apply get_binary; exact B2).
  set (C1 := keep_idx n1 [c1]) in *. set (R2 := keep_idx m2 [r2]) in *.
  split.
  - apply (regular_bf_as_submat _ _ M m1 n1 M1
             (fun i => i)
             (fun j => if Nat.eqb j c1 then (n1 - 1 + j0)%nat else RelProofs.index_of j C1) WM W1); [| | |exact H].
    + intros i Hi. lia.
    + intros j Hj. destruct (Nat.eqb_spec j c1) as [_|Ne]; [lia|].
      pose proof (RelProofs.index_of_lt j C1 (In_keep1 n1 c1 j Hj Ne)) as Q. rewrite L1 in Q. lia.
    + intros i j Hi Hj. destruct (Nat.eqb_spec j c1) as [->|Ne].
      * rewrite (Aur i j0 Hi Hj0). apply mod2_mul_1_r; auto.
      * pose proof (In_keep1 n1 c1 j Hj Ne) as I.
        pose proof (RelProofs.index_of_lt j C1 I) as Q. rewrite L1 in Q.
        rewrite (Aul i _ Hi Q). rewrite (RelProofs.nth_index_of j C1 I).
        rewrite (RelProofs.nth_iota m1 0 i Hi). reflexivity.
  - apply (regular_bf_as_submat _ _ M m2 n2 M2
             (fun i => if Nat.eqb i r2 then i0 else (m1 + RelProofs.index_of i R2)%nat)
             (fun j => (n1 - 1 + j)%nat) WM W2); [| | |exact H].
    + intros i Hi. destruct (Nat.eqb_spec i r2) as [_|Ne]; [lia|].
      pose proof (RelProofs.index_of_lt i R2 (In_keep1 m2 r2 i Hi Ne)) as Q. rewrite L2 in Q. lia.
    + intros j Hj. lia.
    + intros i j Hi Hj. destruct (Nat.eqb_spec i r2) as [->|Ne].
      * rewrite (Aur i0 j Hi0 Hj). apply mod2_mul_1_l; auto.
      * pose proof (In_keep1 m2 r2 i Hi Ne) as I.
        pose proof (RelProofs.index_of_lt i R2 I) as Q. rewrite L2 in Q.
        rewrite (Adr _ j Q Hj). rewrite (RelProofs.nth_index_of i R2 I).
        rewrite (RelProofs.nth_iota n2 0 j Hj). reflexivity.
Qed.

Print Assumptions regular_bf_submat.
Print Assumptions regular_bf_transpose.
Print Assumptions regular_bf_add_line.
Print Assumptions regular_bf_twosum_row_col.
Print Assumptions regular_bf_twosum_col_row.
Print Assumptions regular_bf_twosum_row_col_conv.
Print Assumptions regular_bf_twosum_col_row_conv.
