(* RelPivot7.v -- C10, kind 7 of judge_rel: the binary pivot.  The judge verifies that M' is the binary pivot of the 0/1
   matrix M on a 1-entry and demands equal regularity verdicts; by RegPivot.v this demand is a theorem about the
   definition. *)
From Cmr Require Import Base Det BaseProofs PivotModel PivotProofs TuModel SpModel RelModel RelProofs RelPivot.
From Cmr Require RegPivot.
Local Open Scope Z_scope.

Lemma mt2_nonzero : forall x, (x = 0 \/ x = 1) -> modulo_ternary x 2 =? 0 = false -> x = 1.
Proof. intros x [-> | ->] H; [|reflexivity]. rewrite modulo_ternary_0 in H. discriminate. Qed.

(* kind 7: binary pivot on a 1-entry *)
Theorem judge_rel_kind7 : forall rec p1 p2 m n M m' n' M' v v' rest,
  rel_input rec = Some ((7, p1, p2, (m, n, M), (m', n', M'), v, v'), rest) ->
  judge_rel rec = 0 ->
  exists r c, p1 = [r; c] /\ 0 <= r < Z.of_nat m /\ 0 <= c < Z.of_nat n /\ m' = m /\ n' = n /\
    is_binary M = true /\ get M (Z.to_nat r) (Z.to_nat c) = 1 /\
    M' = reduce 2 (pivot_raw m n M (Z.to_nat r) (Z.to_nat c)) /\
    same_at v v' V_REG V_REG = true /\
    regular_bf m' n' M' = regular_bf m n M.
Proof.
  intros rec p1 p2 m n M m' n' M' v v' rest Hdec HJ.
  pose proof (rel_input_wf _ _ _ _ _ _ _ _ _ _ _ _ _ Hdec) as Hwf.
  unfold judge_rel in HJ. unfold rel_input in Hdec. rewrite Hdec in HJ.
  cbv beta iota zeta in HJ.
  change (7 =? 1) with false in HJ. change (7 =? 2) with false in HJ. change (7 =? 3) with false in HJ.
  change (7 =? 4) with false in HJ. change (7 =? 5) with false in HJ. change (7 =? 6) with false in HJ.
  change (7 =? 7) with true in HJ.
  cbv iota in HJ. cbn [orb] in HJ.
  destruct p1 as [|r [|c [|? ?]]]; try discriminate.
  match type of HJ with (if negb ?C then _ else _) = _ => destruct C eqn:C1 end; cbn [negb] in HJ; [|discriminate].
  destruct (same_at v v' V_REG V_REG) eqn:S; [|discriminate].
  repeat (apply andb_true_iff in C1; let H := fresh "K" in destruct C1 as [C1 H]).
  apply Nat.eqb_eq in C1. apply Nat.eqb_eq in K6. subst m' n'.
  apply mat_eqb_eq in K. apply negb_true_iff in K0.
  apply Z.leb_le in K1. apply Z.leb_le in K2. apply Z.ltb_lt in K3. apply Z.ltb_lt in K4.
  assert (Hpv : get M (Z.to_nat r) (Z.to_nat c) = 1).
  { apply mt2_nonzero; [|exact K0]. apply get_binary. exact K5. }
  exists r, c. repeat apply conj; auto; try lia.
  subst M'. apply RegPivot.regular_bf_bpivot_std; auto; apply Nat.ltb_lt; lia.
Qed.

(* hence: on an accepted kind-7 record the two regularity verdicts the judge compares are verdicts about matrices whose
   regularity (by the definition) is equal *)
Corollary judge_rel_kind7_verdicts : forall rec p1 p2 m n M m' n' M' v v' rest,
  rel_input rec = Some ((7, p1, p2, (m, n, M), (m', n', M'), v, v'), rest) ->
  judge_rel rec = 0 ->
  regular_bf m' n' M' = regular_bf m n M /\
  (is01 (vget v V_REG) -> is01 (vget v' V_REG) -> vget v V_REG = vget v' V_REG).
Proof.
  intros rec p1 p2 m n M m' n' M' v v' rest Hdec HJ.
  destruct (judge_rel_kind7 _ _ _ _ _ _ _ _ _ _ _ _ Hdec HJ) as (r & c & _ & _ & _ & _ & _ & _ & _ & _ & S & T).
  split; [exact T|]. intros D1 D2. apply (same_at_spec v v' V_REG V_REG); [exact S | unfold V_REG; intros; lia | exact D1 | exact D2].
Qed.

Print Assumptions judge_rel_kind7.
Print Assumptions judge_rel_kind7_verdicts.
