(* GraphicRegular.v -- graphic and cographic matrices are regular, for the executable certificate checker:
     check_graph_cert m n M G forest coforest = true  ->  regular_bf m n M = true          (graphic)
     check_graph_cert n m (transpose m n M) G forest coforest = true -> regular_bf m n M = true  (cographic)
   Route: sign every nonzero of column j by the direction in which the forest edge of its row is traversed by the
   path that path_of finds for column j.  The signed matrix S passes check_network_cert with the same graph, the
   same forest/coforest and no arc reversals, hence is totally unimodular (NetworkTU.network_cert_tu_bf); it is a
   signing of M by construction; regular_bf_spec concludes. *)
From Coq Require Import List ZArith Bool Lia Permutation.
From Cmr Require Import Base Det BaseProofs GraphModel GraphProofs TuModel RegularProofs RegPivotArith.
From Cmr Require NetworkTU TuClosure.
Import ListNotations.
Local Open Scope Z_scope.

(* ------------------------------------------------------------------------------------------ *)
(* 1. The signing read off the certificate                                                      *)
(* ------------------------------------------------------------------------------------------ *)

(* without reversals the arcs are the edges *)
Lemma orient_nil : forall es, map (orient []) es = es.
Proof.
  intros es. rewrite <- (map_id es) at 2. apply map_ext. intros e. reflexivity.
Qed.

(* the direction (+1 forwards, -1 backwards) of the first step of p whose edge has the identifier of t;
   +1 when there is none (never used on the support) *)
Definition step_sign (t : edge) (p : list (edge * bool)) : Z :=
  match find (fun q : edge * bool => Nat.eqb (e_id (fst q)) (e_id t)) p with
  | Some q => if snd q then 1 else -1
  | None => 1
  end.

(* the path the checker computes for column j *)
Definition col_steps (m : nat) (M : mat) (T C : list edge) (j : nat) : list (edge * bool) :=
  match nth_error C j with
  | Some f =>
    match path_of (map (fun i => nth i T dflt) (col_support m M j)) (e_u f) (e_v f) with
    | Some p => p
    | None => []
    end
  | None => []
  end.

Definition sign_by_paths (m n : nat) (M : mat) (T C : list edge) : mat :=
  mk_mat m n (fun i j => if get M i j =? 0 then 0 else step_sign (nth i T dflt) (col_steps m M T C j)).

Lemma step_sign_pm1 : forall t p, step_sign t p = 1 \/ step_sign t p = -1.
Proof.
  intros t p. unfold step_sign.
  destruct (find _ p) as [q|]; [destruct (snd q)|]; auto.
Qed.

Lemma sbp_get : forall m n M T C i j, (i < m)%nat -> (j < n)%nat ->
  get (sign_by_paths m n M T C) i j =
  if get M i j =? 0 then 0 else step_sign (nth i T dflt) (col_steps m M T C j).
Proof. intros m n M T C i j Hi Hj. unfold sign_by_paths. now rewrite get_mk_mat. Qed.

Lemma sbp_wf : forall m n M T C, wf_mat m n (sign_by_paths m n M T C) = true.
Proof. intros. apply wf_mk_mat. Qed.

(* same support, column by column *)
Lemma sbp_support : forall m n M T C j, (j < n)%nat ->
  col_support m (sign_by_paths m n M T C) j = col_support m M j.
Proof.
  intros m n M T C j Hj. unfold col_support. apply filter_ext_in. intros i Hi.
  apply in_iota in Hi. rewrite (sbp_get m n) by lia.
  destruct (get M i j =? 0) eqn:E; [reflexivity|].
  destruct (step_sign_pm1 (nth i T dflt) (col_steps m M T C j)) as [-> | ->]; reflexivity.
Qed.

Lemma sbp_signing : forall m n M T C, wf_mat m n M = true -> signing_of M (sign_by_paths m n M T C).
Proof.
  intros m n M T C Hwf. apply (signing_of_intro m n); [exact Hwf | apply sbp_wf |].
  intros i j Hi Hj. rewrite (sbp_get m n) by assumption. unfold sign_entry.
  destruct (get M i j =? 0) eqn:E.
  - apply Z.eqb_eq in E. left. split; [exact E | reflexivity].
  - apply Z.eqb_neq in E. right. split; [exact E | apply step_sign_pm1].
Qed.

(* ------------------------------------------------------------------------------------------ *)
(* 2. The signed matrix passes the network certificate check                                    *)
(* ------------------------------------------------------------------------------------------ *)

Theorem graph_cert_network_signing : forall m n M G forest coforest,
  wf_mat m n M = true ->
  check_graph_cert m n M G forest coforest = true ->
  exists S, signing_of M S /\ check_network_cert m n S G [] forest coforest = true.
Proof.
  intros m n M G forest coforest Hwf H. unfold check_graph_cert in H.
  apply andb_true_iff in H. destruct H as [Hpre Hcols].
  destruct (lookup_all (g_edges G) forest) as [T|] eqn:ET; [|discriminate].
  destruct (lookup_all (g_edges G) coforest) as [C|] eqn:EC; [|discriminate].
  apply andb_true_iff in Hcols. destruct Hcols as [Hacyc Hcols].
  exists (sign_by_paths m n M T C). split; [apply sbp_signing; exact Hwf|].
  unfold check_network_cert. rewrite orient_nil, ET, EC.
  apply andb_true_iff. split; [exact Hpre|].
  apply andb_true_iff. split; [exact Hacyc|].
  apply forallb_forall. intros j Hj.
  rewrite forallb_forall in Hcols. specialize (Hcols j Hj). cbv beta in Hcols.
  assert (Hjn : (j < n)%nat) by (apply in_iota in Hj; lia).
  destruct (nth_error C j) as [f|] eqn:EF; [|discriminate].
  cbv zeta in Hcols. cbv zeta.
  change {| e_id := 0; e_u := 0; e_v := 0 |} with dflt in *.
  rewrite (sbp_support m n) by exact Hjn.
  remember (path_of (map (fun i => nth i T dflt) (col_support m M j)) (e_u f) (e_v f)) as po eqn:EP.
  destruct po as [p|]; [|discriminate]. symmetry in EP.
  apply forallb_forall. intros i Hi.
  assert (Hi' := Hi). apply col_support_In in Hi'. destruct Hi' as [Him Hnz].
  destruct (path_of_sound _ _ _ _ EP) as [_ Hperm].
  assert (Hin : In (nth i T dflt) (map fst p)).
  { apply (Permutation_in _ (Permutation_sym Hperm)).
    apply (in_map (fun i => nth i T dflt)). exact Hi. }
  apply in_map_iff in Hin. destruct Hin as [q0 [Eq0 Hq0]].
  assert (Hget : get (sign_by_paths m n M T C) i j = step_sign (nth i T dflt) p).
  { rewrite (sbp_get m n) by assumption.
    apply Z.eqb_neq in Hnz. rewrite Hnz.
    unfold col_steps. rewrite EF, EP. reflexivity. }
  rewrite Hget. unfold step_sign.
  destruct (find (fun q : edge * bool => Nat.eqb (e_id (fst q)) (e_id (nth i T dflt))) p) as [q|] eqn:EFnd.
  - destruct (find_some _ _ EFnd) as [Hqp Hqid].
    apply existsb_exists. exists q. split; [exact Hqp|].
    apply andb_true_iff. split; [exact Hqid | apply Z.eqb_refl].
  - exfalso. pose proof (find_none _ _ EFnd q0 Hq0) as Hf. cbv beta in Hf.
    rewrite Eq0, Nat.eqb_refl in Hf. discriminate.
Qed.

(* ------------------------------------------------------------------------------------------ *)
(* 3. Graphic matrices are regular                                                              *)
(* ------------------------------------------------------------------------------------------ *)

Theorem graph_cert_regular : forall m n M G forest coforest,
  wf_mat m n M = true -> is_binary M = true ->
  check_graph_cert m n M G forest coforest = true -> regular_bf m n M = true.
Proof.
  intros m n M G forest coforest Hwf Hbin H.
  destruct (graph_cert_network_signing m n M G forest coforest Hwf H) as [S [HS HN]].
  apply (proj2 (regular_bf_spec m n M Hwf)). split; [exact Hbin|].
  exists S. split; [exact HS|].
  eapply NetworkTU.network_cert_tu_bf. exact HN.
Qed.

(* ------------------------------------------------------------------------------------------ *)
(* 4. Cographic matrices are regular                                                            *)
(* ------------------------------------------------------------------------------------------ *)

Lemma get_transpose' : forall m n M i j,
  (i < n)%nat -> (j < m)%nat -> get (transpose m n M) i j = get M j i.
Proof. intros m n M i j Hi Hj. unfold transpose. now rewrite get_mk_mat. Qed.

Lemma wf_transpose' : forall m n M, wf_mat n m (transpose m n M) = true.
Proof. intros. apply wf_mk_mat. Qed.

Lemma is_binary_transpose' : forall m n M, is_binary M = true -> is_binary (transpose m n M) = true.
Proof. intros m n M H. unfold transpose. apply is_binary_mk_mat. intros i j. apply get_binary. exact H. Qed.

(* a signing of the transpose, transposed, is a signing of the matrix *)
Lemma signing_of_transpose : forall m n M S', wf_mat m n M = true ->
  signing_of (transpose m n M) S' -> signing_of M (transpose n m S').
Proof.
  intros m n M S' Hwf HS.
  apply (signing_of_intro m n); [exact Hwf | apply wf_transpose' |].
  intros i j Hi Hj. rewrite get_transpose' by assumption.
  rewrite <- (get_transpose' m n M j i) by assumption.
  apply signing_of_get. exact HS.
Qed.

Theorem graph_cert_regular_transpose : forall m n M G forest coforest,
  check_graph_cert n m (transpose m n M) G forest coforest = true ->
  wf_mat m n M = true -> is_binary M = true -> regular_bf m n M = true.
Proof.
  intros m n M G forest coforest H Hwf Hbin.
  destruct (graph_cert_network_signing n m (transpose m n M) G forest coforest (wf_transpose' m n M) H)
    as [S' [HS' HN]].
  apply (proj2 (regular_bf_spec m n M Hwf)). split; [exact Hbin|].
  exists (transpose n m S'). split; [apply signing_of_transpose; assumption|].
  rewrite TuClosure.tu_bf_transpose.
  eapply NetworkTU.network_cert_tu_bf. exact HN.
Qed.

(* ------------------------------------------------------------------------------------------ *)
(* 5. What a "graphic: yes" record accepted by judge_graphic means                              *)
(* ------------------------------------------------------------------------------------------ *)

Lemma dbind_inv : forall (A B : Type) (d : dec A) (f : A -> dec B) l b r,
  dbind d f l = Some (b, r) -> exists a r1, d l = Some (a, r1) /\ f a r1 = Some (b, r).
Proof.
  intros A B d f l b r H. unfold dbind in H.
  destruct (d l) as [[a r1]|]; [|discriminate]. exists a, r1. split; [reflexivity | exact H].
Qed.

Lemma graphic_input_wf : forall rec tr m0 n0 M0 rc v cert w rest,
  graphic_input rec = Some ((tr, (m0, n0, M0), rc, v, cert, w), rest) -> wf_mat m0 n0 M0 = true.
Proof.
  intros rec tr m0 n0 M0 rc v cert w rest H. unfold graphic_input in H.
  apply dbind_inv in H. destruct H as [tr' [r1 [_ H]]].
  apply dbind_inv in H. destruct H as [x [r2 [Hx H]]].
  apply dbind_inv in H. destruct H as [rc' [r3 [_ H]]].
  apply dbind_inv in H. destruct H as [v' [r4 [_ H]]].
  apply dbind_inv in H. destruct H as [h [r5 [_ H]]].
  apply dbind_inv in H. destruct H as [cert' [r6 [_ H]]].
  apply dbind_inv in H. destruct H as [w' [r7 [_ H]]].
  unfold dend in H. destruct r7; [|discriminate]. inversion H; subst.
  eapply dmat_wf. exact Hx.
Qed.

(* the accepted certificate of a "yes" record *)
Lemma judge_graphic_yes_cert : forall rec tr m0 n0 M0 rc cert w rest,
  graphic_input rec = Some ((tr, (m0, n0, M0), rc, 1, cert, w), rest) ->
  judge_graphic rec = 0 ->
  let '(m, n, M) := oriented tr m0 n0 M0 in
  is_binary M = true ->
  exists G f c, cert = Some (G, f, c) /\ check_graph_cert m n M G f c = true.
Proof.
  intros rec tr m0 n0 M0 rc cert w rest Hdec Hj.
  unfold judge_graphic in Hj. unfold graphic_input in Hdec. rewrite Hdec in Hj.
  unfold oriented.
  destruct (if tr then (n0, m0, transpose m0 n0 M0) else (m0, n0, M0)) as [[m n] M] eqn:Ho.
  intros Hbin. rewrite Hbin in Hj. cbn [negb] in Hj.
  destruct (rc =? 0) eqn:Hrc; cbn [negb] in Hj; [|discriminate].
  change ((1 =? 0) || (1 =? 1)) with true in Hj. cbn [negb] in Hj.
  change (1 =? 1) with true in Hj. change (1 =? 0) with false in Hj.
  destruct (Nat.leb m 4 && negb (Bool.eqb true (graphic_bf m n M))) eqn:H92; [discriminate|].
  assert (Hfin : match cert with
                 | Some (G, f, c) => if check_graph_cert m n M G f c then 0 else 93
                 | None => 94
                 end = 0).
  { destruct w as [|Gw fw cw rw|rsw csw].
    - exact Hj.
    - rewrite andb_false_r in Hj. exact Hj.
    - destruct (increasing_in m rsw && increasing_in n csw && Nat.leb (length rsw) 4 &&
                negb (graphic_bf (length rsw) (length csw) (submat M rsw csw)) && true); [discriminate|exact Hj]. }
  destruct cert as [[[G f] c]|]; [|discriminate].
  destruct (check_graph_cert m n M G f c) eqn:Hc; [|discriminate].
  exists G, f, c. split; [reflexivity | exact Hc].
Qed.

(* the matrix the verdict is about (M0, or its transpose for the transposed entry point) is regular *)
Theorem judge_graphic_yes_regular : forall rec tr m0 n0 M0 rc cert w rest,
  graphic_input rec = Some ((tr, (m0, n0, M0), rc, 1, cert, w), rest) ->
  judge_graphic rec = 0 ->
  let '(m, n, M) := oriented tr m0 n0 M0 in
  is_binary M = true -> regular_bf m n M = true.
Proof.
  intros rec tr m0 n0 M0 rc cert w rest Hdec Hj.
  pose proof (graphic_input_wf _ _ _ _ _ _ _ _ _ _ Hdec) as Hwf0.
  pose proof (judge_graphic_yes_cert _ _ _ _ _ _ _ _ _ Hdec Hj) as Hc.
  unfold oriented in *. destruct tr.
  - intros Hbin. destruct (Hc Hbin) as [G [f [c [_ HG]]]].
    eapply graph_cert_regular; [apply wf_transpose' | exact Hbin | exact HG].
  - intros Hbin. destruct (Hc Hbin) as [G [f [c [_ HG]]]].
    eapply graph_cert_regular; [exact Hwf0 | exact Hbin | exact HG].
Qed.

(* ... and so is the input matrix M0 itself, in both cases (regularity of a cographic matrix) *)
Theorem judge_graphic_yes_input_regular : forall rec tr m0 n0 M0 rc cert w rest,
  graphic_input rec = Some ((tr, (m0, n0, M0), rc, 1, cert, w), rest) ->
  judge_graphic rec = 0 ->
  is_binary M0 = true -> regular_bf m0 n0 M0 = true.
Proof.
  intros rec tr m0 n0 M0 rc cert w rest Hdec Hj Hbin.
  pose proof (graphic_input_wf _ _ _ _ _ _ _ _ _ _ Hdec) as Hwf0.
  pose proof (judge_graphic_yes_cert _ _ _ _ _ _ _ _ _ Hdec Hj) as Hc.
  unfold oriented in Hc. destruct tr.
  - destruct (Hc (is_binary_transpose' m0 n0 M0 Hbin)) as [G [f [c [_ HG]]]].
    eapply graph_cert_regular_transpose; [exact HG | exact Hwf0 | exact Hbin].
  - destruct (Hc Hbin) as [G [f [c [_ HG]]]].
    eapply graph_cert_regular; [exact Hwf0 | exact Hbin | exact HG].
Qed.

Print Assumptions graph_cert_network_signing.
Print Assumptions graph_cert_regular.
Print Assumptions graph_cert_regular_transpose.
Print Assumptions judge_graphic_yes_regular.
Print Assumptions judge_graphic_yes_input_regular.

(* non-vacuity: the accepted triangle certificate of GraphProofs.v *)
Example tri_regular : regular_bf 2 1 [[1]; [1]] = true :=
  graph_cert_regular 2 1 [[1]; [1]] tri [0; 1]%nat [2]%nat eq_refl eq_refl tri_graph_accept.
Example tri_regular_computes : regular_bf 2 1 [[1]; [1]] = true.
Proof. vm_compute. reflexivity. Qed.
Check tri_regular.
