(* Properties_C19.v — C19: purity.  The environment's only state that survives a call is the scratch-stack allocator;
   the theorems say that a well-bracketed call returns it to exactly the state it found (so the next call starts from
   the same abstract state whatever happened before), and give the decision rules for the history / repetition /
   scratch-content / thread records.  That no code reads scratch bytes before writing them, and that there are no
   data races, is observed (poison patterns, MemorySanitizer, ThreadSanitizer), not proved: see DESIGN.md. *)
From Cmr Require Import Base StackModel StackProofs TimeoutModel TimeoutProofs.
Local Open Scope Z_scope.

(* after any well-bracketed call the allocator state is identical to the one before it, from every reachable state *)
Theorem C19_environment_state_restored : forall dbg ops s s', Inv s ->
  s_run dbg ops s = Some s' -> pending ops [] = Some [] -> s' = s.
Proof. exact balanced_restores. Qed.
Print Assumptions C19_environment_state_restored.

(* ... hence two histories of well-bracketed calls leave the same state: the next call cannot tell them apart *)
Theorem C19_history_independent_state : forall dbg (h1 h2 : list sop) s s1 s2, Inv s ->
  s_run dbg h1 s = Some s1 -> pending h1 [] = Some [] ->
  s_run dbg h2 s = Some s2 -> pending h2 [] = Some [] -> s1 = s2.
Proof.
  intros dbg h1 h2 s s1 s2 HI R1 P1 R2 P2.
  rewrite (balanced_restores dbg h1 s s1 HI R1 P1), (balanced_restores dbg h2 s s2 HI R2 P2). reflexivity.
Qed.
Print Assumptions C19_history_independent_state.

Theorem C19_judge_hist_sound : forall rec, judge_hist rec = 0 ->
  exists calls, hist_input rec = Some (calls, []) /\ Forall hcall_ok calls.
Proof. exact judge_hist_sound. Qed.
Print Assumptions C19_judge_hist_sound.

Theorem C19_judge_threads_sound : forall rec, judge_threads rec = 0 ->
  exists nt nc, rec = [nt; nc; nt * nc; 0; 0].
Proof. exact judge_threads_sound. Qed.
Print Assumptions C19_judge_threads_sound.

Example C19_example_accept : judge_hist [2;  2; -1; 1; 1; 1; 1; 0; 0;  11; 3; 1; 1; 1; 1; 0; 0] = 0.
Proof. vm_compute. reflexivity. Qed.
Example C19_example_poison : judge_hist [1;  6; -1; 1; 1; 1; 0; 0; 0] = 72.
Proof. vm_compute. reflexivity. Qed.

(* ---------- the judge accepts EXACTLY the records that satisfy its specification (JudgeComplete3.v): completeness besides soundness,
   a record of a correct answer is never rejected ---------- *)
From Cmr Require JudgeComplete3.
Theorem C19_judge_hist_accepts_exactly_the_specification :
    forall (rec : list Z) (calls : list TimeoutModel.hcall) (rest : list Z),
    TimeoutProofs.hist_input rec = Some (calls, rest) ->
    TimeoutModel.judge_hist rec = 0%Z <-> JudgeComplete3.hist_spec calls.
Proof. exact JudgeComplete3.judge_hist_iff. Qed.
Print Assumptions C19_judge_hist_accepts_exactly_the_specification.
Theorem C19_judge_threads_accepts_exactly_the_specification :
    forall rec : list Z, TimeoutModel.judge_threads rec = 0%Z <-> JudgeComplete3.threads_spec rec.
Proof. exact JudgeComplete3.judge_threads_iff. Qed.
Print Assumptions C19_judge_threads_accepts_exactly_the_specification.
