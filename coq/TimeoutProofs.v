(* TimeoutProofs.v — C18 / C19: which check point gives up under the injected clock, and soundness of the
   decision rules of judge_tlimit, judge_hist and judge_threads. *)
From Cmr Require Import Base TimeoutModel.
Local Open Scope Z_scope.

(* ---------- the injected schedule fires exactly the checks that straddle the jump ---------- *)

Lemma fires_spec : forall k s c, 0 <= s -> s < c -> c < LIMIT ->
  (fires k s c = true <-> exists j, k = Some j /\ s < j /\ j <= c).
Proof.
  intros k s c Hs Hsc Hc. unfold fires, expired, clk, LIMIT, JUMP in *.
  destruct k as [j|].
  - destruct (j <=? s) eqn:E1; destruct (j <=? c) eqn:E2;
      rewrite ?Z.leb_le, ?Z.leb_gt in *; split.
    + intros H. apply Z.leb_le in H. lia.
    + intros [j' [Hj [H1 H2]]]. inversion Hj; subst j'. lia.
    + intros H. apply Z.leb_le in H. lia.
    + intros [j' [Hj [H1 H2]]]. inversion Hj; subst j'. lia.
    + intros _. exists j. repeat split; lia.
    + intros _. apply Z.leb_le. lia.
    + intros H. apply Z.leb_le in H. lia.
    + intros [j' [Hj [H1 H2]]]. inversion Hj; subst j'. lia.
  - split.
    + intros H. apply Z.leb_le in H. lia.
    + intros [j [Hj _]]. discriminate.
Qed.

(* without injection no check gives up *)
Lemma no_jump_never_fires : forall s c, 0 <= s -> s < c -> c < LIMIT -> fires None s c = false.
Proof.
  intros s c Hs Hsc Hc. destruct (fires None s c) eqn:E; [|reflexivity].
  apply fires_spec in E; try assumption. destruct E as [j [Hj _]]. discriminate.
Qed.

(* every check point can be made the first one that gives up: jump exactly at its own clock read *)
Lemma jump_at_check_fires : forall s c, 0 <= s -> s < c -> c < LIMIT -> fires (Some c) s c = true.
Proof. intros s c Hs Hsc Hc. apply fires_spec; try assumption. exists c. repeat split; lia. Qed.

(* ... and no check made before that read gives up *)
Lemma earlier_checks_silent : forall k s c, 0 <= s -> s < c -> c < k -> c < LIMIT -> fires (Some k) s c = false.
Proof.
  intros k s c Hs Hsc Hck Hc. destruct (fires (Some k) s c) eqn:E; [|reflexivity].
  apply fires_spec in E; try assumption. destruct E as [j [Hj [H1 H2]]]. inversion Hj; subst j. lia.
Qed.

(* ---------- decision rules ---------- *)

Lemma first_code_0 : forall (A : Type) (f : A -> Z) l, first_code f l = 0 <-> Forall (fun x => f x = 0) l.
Proof.
  intros A f l. induction l as [|x r IH]; cbn [first_code].
  - split; [constructor | reflexivity].
  - destruct (f x =? 0) eqn:E.
    + apply Z.eqb_eq in E. rewrite IH. split.
      * intros H. constructor; assumption.
      * intros H. inversion H; assumption.
    + apply Z.eqb_neq in E. split.
      * intros H. contradiction.
      * intros H. inversion H; subst. contradiction.
Qed.

Definition trun_ok (r : trun) : Prop :=
  t_usageB r = 0 /\ t_usageC r = 0 /\ t_leaked r = 0 /\ t_modified r = 0 /\ t_sameC r = 1 /\
  (t_timeouts r = 0 -> t_sameB r = 1) /\ (t_timeouts r <> 0 -> t_nonnull r = 0).

Lemma trun_code_0 : forall r, trun_code r = 0 <-> trun_ok r.
Proof.
  intros r. unfold trun_code, trun_ok.
  destruct (t_usageB r =? 0) eqn:E1; cbn [negb].
  2:{ apply Z.eqb_neq in E1. split; [discriminate | intros H; destruct H as [H _]; contradiction]. }
  destruct (t_leaked r =? 0) eqn:E2; cbn [negb].
  2:{ apply Z.eqb_neq in E2. split; [discriminate | intros H; destruct H as [_ [_ [H _]]]; contradiction]. }
  apply Z.eqb_eq in E1. apply Z.eqb_eq in E2.
  destruct (t_timeouts r =? 0) eqn:E3; cbn [negb andb].
  - apply Z.eqb_eq in E3.
    destruct (t_sameB r =? 1) eqn:E4; cbn [negb].
    2:{ apply Z.eqb_neq in E4. split; [discriminate|]. intros H. destruct H as [_ [_ [_ [_ [_ [H _]]]]]].
        specialize (H E3). contradiction. }
    apply Z.eqb_eq in E4.
    destruct (t_modified r =? 0) eqn:E5; cbn [negb].
    2:{ apply Z.eqb_neq in E5. split; [discriminate | intros H; destruct H as [_ [_ [_ [H _]]]]; contradiction]. }
    destruct (t_usageC r =? 0) eqn:E6; cbn [negb].
    2:{ apply Z.eqb_neq in E6. split; [discriminate | intros H; destruct H as [_ [H _]]; contradiction]. }
    destruct (t_sameC r =? 1) eqn:E7; cbn [negb].
    2:{ apply Z.eqb_neq in E7. split; [discriminate | intros H; destruct H as [_ [_ [_ [_ [H _]]]]]; contradiction]. }
    apply Z.eqb_eq in E5. apply Z.eqb_eq in E6. apply Z.eqb_eq in E7.
    split; [intros _|reflexivity]. repeat split; try assumption; intros HH; try assumption; contradiction.
  - apply Z.eqb_neq in E3.
    destruct (t_nonnull r =? 0) eqn:E4; cbn [negb].
    2:{ apply Z.eqb_neq in E4. split; [discriminate|]. intros H. destruct H as [_ [_ [_ [_ [_ [_ H]]]]]].
        specialize (H E3). contradiction. }
    apply Z.eqb_eq in E4.
    destruct (t_modified r =? 0) eqn:E5; cbn [negb].
    2:{ apply Z.eqb_neq in E5. split; [discriminate | intros H; destruct H as [_ [_ [_ [H _]]]]; contradiction]. }
    destruct (t_usageC r =? 0) eqn:E6; cbn [negb].
    2:{ apply Z.eqb_neq in E6. split; [discriminate | intros H; destruct H as [_ [H _]]; contradiction]. }
    destruct (t_sameC r =? 1) eqn:E7; cbn [negb].
    2:{ apply Z.eqb_neq in E7. split; [discriminate | intros H; destruct H as [_ [_ [_ [_ [H _]]]]]; contradiction]. }
    apply Z.eqb_eq in E5. apply Z.eqb_eq in E6. apply Z.eqb_eq in E7.
    split; [intros _|reflexivity]. repeat split; try assumption; intros HH; try assumption; contradiction.
Qed.

Definition tlimit_input := (sub <- dZ ;; N <- dZ ;; runs <- dlist dtrun ;; dend (sub, N, runs)).

Theorem judge_tlimit_sound : forall rec, judge_tlimit rec = 0 ->
  exists sub N runs, tlimit_input rec = Some ((sub, N, runs), []) /\
    Forall (fun r => 0 <= t_k r <= N) runs /\ Forall trun_ok runs.
Proof.
  intros rec H. unfold judge_tlimit in H. fold tlimit_input in H.
  destruct (tlimit_input rec) as [[[[sub N] runs] rest]|] eqn:E; [|discriminate].
  assert (rest = []) as ->.
  { unfold tlimit_input, dbind in E.
    destruct (dZ rec) as [[a r1]|]; [|discriminate].
    destruct (dZ r1) as [[b r2]|]; [|discriminate].
    destruct (dlist dtrun r2) as [[c r3]|]; [|discriminate].
    unfold dend in E. destruct r3; [|discriminate]. inversion E. reflexivity. }
  destruct (ks_in_range N runs) eqn:E1; cbn [negb] in H; [|discriminate].
  exists sub, N, runs. split; [reflexivity|]. split.
  - unfold ks_in_range in E1. rewrite forallb_forall in E1. apply Forall_forall. intros r Hr.
    specialize (E1 r Hr). apply andb_true_iff in E1. destruct E1 as [A B].
    apply Z.leb_le in A. apply Z.leb_le in B. lia.
  - apply first_code_0 in H. eapply Forall_impl; [|exact H]. intros r Hr. apply trun_code_0. exact Hr.
Qed.

Definition hcall_ok (c : hcall) : Prop :=
  h_modified c = 0 /\ h_usage c = 0 /\ h_p00 c = 1 /\ h_pff c = 1 /\ h_hist c = 1 /\ h_repeat c = 1.

Lemma hcall_code_0 : forall c, hcall_code c = 0 <-> hcall_ok c.
Proof.
  intros c. unfold hcall_code, hcall_ok.
  destruct (h_modified c =? 0) eqn:E1; cbn [negb].
  2:{ apply Z.eqb_neq in E1. split; [discriminate | intros H; destruct H as [H _]; contradiction]. }
  destruct (h_usage c =? 0) eqn:E2; cbn [negb].
  2:{ apply Z.eqb_neq in E2. split; [discriminate | intros H; destruct H as [_ [H _]]; contradiction]. }
  destruct (h_p00 c =? 1) eqn:E3; cbn [negb andb].
  2:{ apply Z.eqb_neq in E3. split; [discriminate | intros H; destruct H as [_ [_ [H _]]]; contradiction]. }
  destruct (h_pff c =? 1) eqn:E4; cbn [negb].
  2:{ apply Z.eqb_neq in E4. split; [discriminate | intros H; destruct H as [_ [_ [_ [H _]]]]; contradiction]. }
  destruct (h_hist c =? 1) eqn:E5; cbn [negb].
  2:{ apply Z.eqb_neq in E5. split; [discriminate | intros H; destruct H as [_ [_ [_ [_ [H _]]]]]; contradiction]. }
  destruct (h_repeat c =? 1) eqn:E6; cbn [negb].
  2:{ apply Z.eqb_neq in E6. split; [discriminate | intros H; destruct H as [_ [_ [_ [_ [_ H]]]]]; contradiction]. }
  apply Z.eqb_eq in E1. apply Z.eqb_eq in E2. apply Z.eqb_eq in E3. apply Z.eqb_eq in E4.
  apply Z.eqb_eq in E5. apply Z.eqb_eq in E6.
  split; [intros _|reflexivity]. repeat split; assumption.
Qed.

Definition hist_input := (calls <- dlist dhcall ;; dend calls).

Theorem judge_hist_sound : forall rec, judge_hist rec = 0 ->
  exists calls, hist_input rec = Some (calls, []) /\ Forall hcall_ok calls.
Proof.
  intros rec H. unfold judge_hist in H. fold hist_input in H.
  destruct (hist_input rec) as [[calls rest]|] eqn:E; [|discriminate].
  assert (rest = []) as ->.
  { unfold hist_input, dbind in E.
    destruct (dlist dhcall rec) as [[c r3]|]; [|discriminate].
    unfold dend in E. destruct r3; [|discriminate]. inversion E. reflexivity. }
  exists calls. split; [reflexivity|].
  apply first_code_0 in H. eapply Forall_impl; [|exact H]. intros c Hc. apply hcall_code_0. exact Hc.
Qed.

Theorem judge_threads_sound : forall rec, judge_threads rec = 0 ->
  exists nt nc, rec = [nt; nc; nt * nc; 0; 0].
Proof.
  intros rec H. unfold judge_threads in H.
  destruct rec as [|nt [|nc [|total [|mism [|modi [|x r]]]]]]; try discriminate.
  destruct (total =? nt * nc) eqn:E1; cbn [negb] in H; [|discriminate].
  destruct (modi =? 0) eqn:E2; cbn [negb] in H; [|discriminate].
  destruct (mism =? 0) eqn:E3; cbn [negb] in H; [|discriminate].
  apply Z.eqb_eq in E1. apply Z.eqb_eq in E2. apply Z.eqb_eq in E3. subst.
  exists nt, nc. reflexivity.
Qed.
