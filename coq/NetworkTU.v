(* NetworkTU.v -- network matrices are totally unimodular, for the executable certificate checker:
     check_network_cert m n M G rev forest coforest = true  ->  TUmx (mx_of m n M).
   Route: node-arc incidence matrices D_T (forest arcs) and D_C (coforest arcs) on the nodes 0..N-1;
   [D_T | D_C] is TU (TUmx_incidence); D_T * M = D_C (telescoping along the tree paths,
   NetworkSpec.check_network_cert_potential); D_T has a square row submatrix of determinant +-1
   (leaf induction on the forest, forest_unimodular); hence M is TU (TUmx_factor_rows). *)
From Coq Require Import ZArith List.
From mathcomp Require Import all_ssreflect all_fingroup all_algebra.
From mathcomp Require Import ssrZ zify.
From Cmr Require Import Base Det BaseProofs GraphModel GraphProofs NetworkSpec TuProofs TuClosure TuIncidence.
Set Implicit Arguments. Unset Strict Implicit. Unset Printing Implicit Defensive.
Import GRing.Theory.
Local Open Scope ring_scope.
Import mathcomp.ssreflect.seq.
Delimit Scope nat_scope with N.

(* entry of the node-arc incidence matrix: +1 at the head, -1 at the tail (0 for a loop) *)
Definition incZ (e : edge) (v : nat) : Z := (e_v e == v)%:R - (e_u e == v)%:R.

Lemma zsumE (f : nat -> Z) k : zsum f k = \sum_(i < k) f i.
Proof.
elim: k => [|k IH]; first by rewrite big_ord0.
by rewrite big_ord_recr /= -IH.
Qed.

Lemma col_pm_inc N q (c : 'I_q -> edge) :
  col_pm (\matrix_(v < N, j < q) incZ (c j) v : 'M[Z]_(N, q)).
Proof.
split.
- by move=> i j; rewrite mxE /incZ; case: eqP => _; case: eqP => _;
     rewrite ?subrr ?subr0 ?sub0r ?inE ?eqxx ?orbT.
- move=> i i' j; rewrite !mxE /incZ.
  case: (e_v (c j) =P i) => [a|_]; last by do ?[case: eqP => _].
  case: (e_v (c j) =P i') => [b|_]; last by do ?[case: eqP => _].
  by move=> _ _; apply: val_inj => /=; rewrite -a b.
- move=> i i' j; rewrite !mxE /incZ.
  case: (e_u (c j) =P i) => [a|_]; last by do ?[case: eqP => _].
  case: (e_u (c j) =P i') => [b|_]; last by do ?[case: eqP => _].
  by move=> _ _; apply: val_inj => /=; rewrite -a b.
Qed.

Lemma sign_pm1 (k : nat) : (-1 : Z) ^+ k \in [:: 1; -1].
Proof. by rewrite -signr_odd; case: (odd k). Qed.

(* ------------------------------------------------------------------------------------------ *)
(* the incidence matrix of a forest has a square row submatrix of determinant +-1              *)
(* ------------------------------------------------------------------------------------------ *)

Lemma forest_unimodular N L : is_forest L ->
  forall k (c : 'I_k -> edge), injective c ->
  (forall e, In e L <-> exists j, c j = e) ->
  (forall e, In e L -> (e_u e < N)%N /\ (e_v e < N)%N) ->
  exists R : 'I_k -> 'I_N, \det (\matrix_(i, j) incZ (c j) (R i)) \in [:: 1; -1].
Proof.
elim=> [|l1 e l2 loop deg HF IH] k c cinj cim bnd.
- case: k c cinj cim => [|k] c _ cim.
    have R : 'I_0 -> 'I_N by case.
    by exists R; rewrite det_mx00 inE eqxx.
  by have /cim : exists j, c j = c ord0 by exists ord0.
- have [z [zE [nloop Hz]]] := forest_leaf_facts l1 e l2 loop deg.
  have [j0 cj0] : exists j, c j = e by apply/cim; apply/in_mid_iff; left.
  move: j0 cj0; case: k c cinj cim => [|k] c cinj cim j0 cj0; first by case: (j0).
  have He : In e (l1 ++ e :: l2)%list by apply/in_mid_iff; left.
  pose c' (j : 'I_k) := c (lift j0 j).
  have c'inj : injective c' by move=> a b /cinj /lift_inj.
  have c'im e' : In e' (l1 ++ l2)%list <-> exists j, c' j = e'.
    split.
      move=> He'.
      have /cim [j cj] : In e' (l1 ++ e :: l2)%list by apply/in_mid_iff; right.
      have ne : j != j0.
        apply/eqP => ej; have [a b] := Hz _ He'; move: a b.
        by rewrite -cj ej cj0; case: zE => ->.
      case: (unliftP j0 j) ne cj => [j' ->|->] ne cj; last by rewrite eqxx in ne.
      by exists j'.
    case=> j <-.
    have /cim /in_mid_iff [] // : exists j1, c j1 = c' j by exists (lift j0 j).
    rewrite -cj0 => /cinj /eqP.
    by rewrite eq_sym (negbTE (neq_lift j0 j)).
  have bnd' e' : In e' (l1 ++ l2)%list -> (e_u e' < N)%N /\ (e_v e' < N)%N.
    by move=> He'; apply: bnd; apply/in_mid_iff; right.
  have [R' dR'] := IH k c' c'inj c'im bnd'.
  have zN : (z < N)%N by have [a b] := bnd e He; case: zE => ->.
  pose R (i : 'I_k.+1) : 'I_N := if unlift ord0 i is Some i' then R' i' else Ordinal zN.
  exists R.
  set A := (\matrix_(i, j) _).
  have row0 j : j != j0 -> A ord0 j = 0.
    case: (unliftP j0 j) => [j' ->|->] ne; last by rewrite eqxx in ne.
    rewrite mxE /R unlift_none /= /incZ.
    have Hin : In (c (lift j0 j')) (l1 ++ l2)%list by apply/c'im; exists j'.
    have [/eqP /negbTE a /eqP /negbTE b] := Hz _ Hin.
    by rewrite a b ?subrr.
  have A00 : A ord0 j0 \in [:: 1; -1].
    rewrite mxE /R unlift_none /= cj0 /incZ.
    move/eqP: nloop => nloop.
    case: zE => ->; rewrite eqxx.
      by rewrite eq_sym (negbTE nloop).
    by rewrite (negbTE nloop).
  rewrite (expand_det_row A ord0) (bigD1 j0) //= big1 ?addr0; last first.
    by move=> j ne; rewrite row0 // mul0r.
  apply: pm1_mul => //; rewrite /cofactor; apply: pm1_mul; first exact: sign_pm1.
  suff -> : row' ord0 (col' j0 A) = \matrix_(i, j) incZ (c' j) (R' i) by [].
  by apply/matrixP => i j; rewrite !mxE /R liftK.
Qed.

(* ------------------------------------------------------------------------------------------ *)
(* the main theorem                                                                             *)
(* ------------------------------------------------------------------------------------------ *)

(* node-arc incidence matrices of the forest arcs T (m of them) and of the coforest arcs C (n of them) on
   the nodes 0 .. node_bound T - 1 *)
Definition inc_forest (m : nat) (T : list edge) : 'M[Z]_(node_bound T, m) :=
  \matrix_(v, i) incZ (List.nth i T dflt) v.
Definition inc_coforest (n : nat) (T C : list edge) : 'M[Z]_(node_bound T, n) :=
  \matrix_(v, j) incZ (List.nth j C dflt) v.

(* (3) telescoping: D_T * M = D_C *)
Lemma inc_forest_mul m n (M : mat) (T C : list edge) :
  potential_spec m n M T C -> inc_forest m T *m mx_of m n M = inc_coforest n T C.
Proof.
move=> pot; apply/matrixP => v j; rewrite !mxE.
have := pot (fun x => (x == v :> nat)%:R) j (ltP (ltn_ord j)).
rewrite zsumE => E.
transitivity (pd (fun x => (x == v :> nat)%:R : Z) (List.nth j C dflt)); last by [].
by rewrite -E; apply: eq_bigr => i _; rewrite !mxE.
Qed.

Lemma TUmx_inc_both m n (T C : list edge) : TUmx (row_mx (inc_forest m T) (inc_coforest n T C)).
Proof.
pose cc (j : 'I_(m + n)) : edge :=
  match fintype.split j with inl i => List.nth i T dflt | inr i => List.nth i C dflt end.
have -> : row_mx (inc_forest m T) (inc_coforest n T C) =
          \matrix_(v < node_bound T, j < m + n) incZ (cc j) v.
  apply/matrixP => v j; rewrite -[j]splitK [RHS]mxE /cc unsplitK.
  case: (fintype.split j) => j' /=; first by rewrite row_mxEl mxE.
  by rewrite row_mxEr mxE.
exact: TUmx_incidence (col_pm_inc (node_bound T) cc).
Qed.

Lemma inc_forest_unimodular m (T : list edge) :
  length T = m -> NoDup T -> is_forest T ->
  exists R : 'I_m -> 'I_(node_bound T), \det (mxsub R id (inc_forest m T)) \in [:: 1; -1].
Proof.
move=> lenT ndT forT.
pose cT (i : 'I_m) : edge := List.nth i T dflt.
have cinj : injective cT.
  move=> a b E; apply: val_inj; apply: (nth_inj_NoDup T a b ndT) E; rewrite lenT; exact/ltP.
have cim e : In e T <-> exists j, cT j = e.
  split.
    move=> /In_nth_iff [i [lt <-]]; rewrite lenT in lt.
    by exists (Ordinal (introT ltP lt)).
  case=> j <-; apply/In_nth_iff; exists j; split=> //.
  rewrite lenT; exact/ltP.
have bnd e : In e T -> (e_u e < node_bound T)%N /\ (e_v e < node_bound T)%N.
  by move=> /node_bound_spec [/ltP a /ltP b].
have [R dR] := forest_unimodular forT cinj cim bnd.
exists R.
suff -> : mxsub R id (inc_forest m T) = \matrix_(i, j) incZ (cT j) (R i) by [].
by apply/matrixP => i j; rewrite !mxE.
Qed.

(* (4) a matrix satisfying the potential identity with respect to a forest is TU *)
Theorem network_TU_of_spec m n (M : mat) (T C : list edge) :
  length T = m -> NoDup T -> is_forest T -> potential_spec m n M T C -> TUmx (mx_of m n M).
Proof.
move=> lenT ndT forT pot.
have [R dR] := inc_forest_unimodular lenT ndT forT.
apply: (TUmx_factor_rows dR).
rewrite (inc_forest_mul pot); exact: TUmx_inc_both.
Qed.

Theorem network_cert_TU_gen m n (M : mat) G rv forest coforest :
  check_network_cert m n M G rv forest coforest = true -> TUmx (mx_of m n M).
Proof.
move=> /check_network_cert_potential [T [C [_ [lenT [_ [_ [ndT [HF pot]]]]]]]].
exact: (network_TU_of_spec lenT ndT HF pot).
Qed.

(* the statement as asked for (the well-formedness hypothesis is not needed) *)
Theorem network_cert_TU m n (M : mat) G rv forest coforest :
  check_network_cert m n M G rv forest coforest = true -> wf_mat m n M = true ->
  TUmx (mx_of m n M).
Proof. by move=> H _; apply: network_cert_TU_gen H. Qed.

Corollary network_cert_tu_bf m n (M : mat) G rv forest coforest :
  check_network_cert m n M G rv forest coforest = true -> tu_bf m n M = true.
Proof. by move=> /network_cert_TU_gen /tu_bfP. Qed.

(* transposed entry point of the judge: a certified network matrix of the transpose *)
Corollary network_cert_tu_bf_transpose m n (M : mat) G rv forest coforest :
  check_network_cert n m (transpose m n M) G rv forest coforest = true -> tu_bf m n M = true.
Proof. by move=> /network_cert_tu_bf; rewrite tu_bf_transpose. Qed.

Print Assumptions forest_unimodular.
Print Assumptions inc_forest_mul.
Print Assumptions inc_forest_unimodular.
Print Assumptions network_TU_of_spec.
Print Assumptions network_cert_TU_gen.
Print Assumptions network_cert_TU.
Print Assumptions network_cert_tu_bf.
Print Assumptions network_cert_tu_bf_transpose.

(* non-vacuity: the theorem instantiated on the accepted triangle certificate of GraphProofs.v *)
Example tri_network_TU := network_cert_TU_gen tri_network_accept.
Example tri_network_rev_TU := network_cert_TU_gen tri_network_accept_rev.
Check tri_network_TU.
Check tri_network_rev_TU.
