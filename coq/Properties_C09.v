(* Properties_C09.v — C09: Camion signing keeps support, is idempotent, gives TU on regular supports. *)
From Cmr Require Import Base Det TuModel SpModel CamionModel BaseProofs CamionProofs.
Local Open Scope Z_scope.

(* Whenever the judge accepts a record of (test, sign a copy, test the output, sign the output again) on a matrix
   over {-1,0,1}: all four calls succeed; signing keeps shape and support; the test answers yes exactly when signing
   leaves the matrix unchanged (and so does the wasCamionSigned flag); the output passes the test; signing the
   output again changes nothing; a TU matrix (proved determinant oracle) is always reported Camion-signed; when the
   support is regular (proved signing oracle, sizes up to 20 entries) the output is TU and a "yes" implies TU;
   a returned violator has two nonzeros per line and determinant -2 or +2.
   The unbounded statements "regular support => output TU" (Camion's theorem) are NOT proved here: they are checked
   against the proved oracles on every instance of the correspondence stream. *)
Theorem C09_judge_sound : forall rec m n M rc1 v viol rc2 was Sg viol2 rc3 v' rc4 was2 S2 rest,
  camion_input rec = Some (((m, n, M), (rc1, v, viol), (rc2, was, Sg, viol2), (rc3, v'), (rc4, was2, S2)), rest) ->
  is_ternary M = true ->
  judge_camion rec = 0 ->
  rc1 = 0 /\ rc2 = 0 /\ rc3 = 0 /\ rc4 = 0 /\
  exists Sm,
    Sg = Some (m, n, Sm) /\
    same_support M Sm = true /\
    (v = 1 <-> Sm = M) /\ (v = 0 \/ v = 1) /\
    (was = 1 <-> Sm = M) /\
    v' = 1 /\
    S2 = Some (m, n, Sm) /\ was2 = 1 /\
    ((m * n <= 42)%nat -> tu_bf m n M = true -> v = 1) /\
    ((m * n <= 20)%nat -> regular_bf m n (support M) = true ->
       tu_bf m n Sm = true /\ (v = 1 -> tu_bf m n M = true)) /\
    (v = 0 -> forall rs cs, viol = Some (rs, cs) -> check_camion_violator m n M rs cs = true).
Proof. exact judge_camion_sound. Qed.
Print Assumptions C09_judge_sound.

(* what an accepted violator is; in particular it passes the TU certificate check of C07, so it refutes TU *)
Theorem C09_violator_spec : forall m n M rs cs,
  check_camion_violator m n M rs cs = true ->
  length rs = length cs /\ all_lt m rs = true /\ all_lt n cs = true /\ nodupn rs = true /\ nodupn cs = true /\
  two_per_line (length rs) (submat M rs cs) = true /\
  (det (length rs) (submat M rs cs) = 2 \/ det (length rs) (submat M rs cs) = -2) /\
  check_violator m n M rs cs = true.
Proof. exact check_camion_violator_spec. Qed.
Print Assumptions C09_violator_spec.

Example C09_nonvacuous : check_camion_violator 2 2 [[1;1];[1;-1]] [0;1]%nat [0;1]%nat = true.
Proof. vm_compute; reflexivity. Qed.

(* ---------- the judge accepts EXACTLY the records that satisfy its specification: besides soundness (above) also completeness,
   i.e. a record of a correct answer is never rejected (JudgeComplete2.v) ---------- *)
From Cmr Require JudgeComplete2.
Theorem C09_judge_camion_accepts_exactly_the_specification :
    forall (rec : list Z) (m n : nat) (M : mat) (rc1 v : Z) (viol : option (list nat * list nat))
    (rc2 was : Z) (Sg : option (nat * nat * mat)) (viol2 : option (list nat * list nat))
    (rc3 v' rc4 was2 : Z) (S2 : option (nat * nat * mat)) (rest : list Z),
    CamionProofs.camion_input rec =
    Some (m, n, M, (rc1, v, viol), (rc2, was, Sg, viol2), (rc3, v'), (rc4, was2, S2), rest) ->
    CamionModel.judge_camion rec = 0%Z <->
    JudgeComplete2.camion_spec m n M rc1 v viol rc2 was Sg viol2 rc3 v' rc4 was2 S2.
Proof. exact JudgeComplete2.judge_camion_iff. Qed.
Print Assumptions C09_judge_camion_accepts_exactly_the_specification.

(* ---------- every size: supports certified regular.  The case carries a matrix N with the input's support that is certified
   totally unimodular (network matrix with its digraph, or series-parallel).  A matrix accepted as a +-1 row/column scaling of N
   really is one (the signs are verified entry by entry) and is therefore totally unimodular; an accepted `camion_cert` record
   has a signed output that IS totally unimodular and a "yes" of the signedness test only for a totally unimodular input ---------- *)
From Cmr Require GraphModel TuNetModel CamionCertModel CamionCertProofs RelModel.
Theorem C09_scalings_of_a_TU_matrix_are_TU : forall m n N M,
  CamionCertModel.is_scaling_of m n N M = true -> tu_bf m n M = tu_bf m n N.
Proof. exact CamionCertProofs.is_scaling_of_tu. Qed.
Print Assumptions C09_scalings_of_a_TU_matrix_are_TU.

Theorem C09_certified_support_judge_sound : forall rec m n M rc1 v viol rc2 was Sg viol2 rc3 v' rc4 was2 S2 mN nN N w rest,
  CamionCertModel.camion_cert_input rec =
    Some (((m, n, M), (rc1, v, viol), (rc2, was, Sg, viol2), (rc3, v'), (rc4, was2, S2), (mN, nN, N), w), rest) ->
  CamionCertModel.camion_certified m n M mN nN N w = true ->
  CamionCertModel.judge_camion_cert rec = 0 ->
  rc1 = 0 /\ rc2 = 0 /\ tu_bf m n N = true /\
  exists Sm, Sg = Some (m, n, Sm) /\ CamionCertModel.is_scaling_of m n N Sm = true /\ tu_bf m n Sm = true /\
             (v = 1 \/ v = 0) /\ (v = 1 <-> CamionCertModel.is_scaling_of m n N M = true) /\ (v = 1 -> tu_bf m n M = true).
Proof. exact CamionCertProofs.judge_camion_cert_sound. Qed.
Print Assumptions C09_certified_support_judge_sound.

(* ---------- Camion's uniqueness theorem (CamionUnique.v): two totally unimodular matrices with the same support differ by
   multiplying rows and columns by -1 ---------- *)
From Cmr Require CamionModel CamionUnique.
Theorem C09_TU_signing_is_unique_up_to_scaling : forall m n (M N : mat),
  wf_mat m n M = true -> wf_mat m n N = true ->
  tu_bf m n M = true -> tu_bf m n N = true -> CamionModel.same_support M N = true ->
  exists rs cs : list Z, length rs = m /\ length cs = n /\
    forallb RelModel.is_pm1' rs = true /\ forallb RelModel.is_pm1' cs = true /\
    forall i j, (i < m)%nat -> (j < n)%nat -> get N i j = (nthZ rs i * nthZ cs j * get M i j)%Z.
Proof. exact CamionUnique.tu_signing_unique_std. Qed.
Print Assumptions C09_TU_signing_is_unique_up_to_scaling.

(* ---------- with uniqueness and the completeness of the sign propagation (CamionCertComplete.v) the certified judge decides both
   directions: on a support certified regular, "is a scaling of the certified matrix" IS total unimodularity; an accepted record has a
   totally unimodular output and the test verdict "yes" exactly for a totally unimodular input; and a correct answer is accepted ---------- *)
From Cmr Require CamionCertComplete.
Theorem C09_scaling_test_decides_total_unimodularity : forall m n N M,
  wf_mat m n N = true -> wf_mat m n M = true -> is_ternary M = true -> CamionModel.same_support M N = true ->
  tu_bf m n N = true -> (CamionCertModel.is_scaling_of m n N M = true <-> tu_bf m n M = true).
Proof. exact CamionCertComplete.is_scaling_of_iff_tu. Qed.
Print Assumptions C09_scaling_test_decides_total_unimodularity.

Theorem C09_certified_support_verdict_is_definition :
  forall rec m n M rc1 v viol rc2 was Sg viol2 rc3 v' rc4 was2 S2 mN nN N w rest,
  CamionCertModel.camion_cert_input rec =
    Some (((m, n, M), (rc1, v, viol), (rc2, was, Sg, viol2), (rc3, v'), (rc4, was2, S2), (mN, nN, N), w), rest) ->
  CamionCertModel.camion_certified m n M mN nN N w = true ->
  CamionCertModel.judge_camion_cert rec = 0 ->
  rc1 = 0 /\ rc2 = 0 /\
  exists Sm, Sg = Some (m, n, Sm) /\ tu_bf m n Sm = true /\ (v = 1 \/ v = 0) /\ (v = 1 <-> tu_bf m n M = true).
Proof. exact CamionCertComplete.judge_camion_cert_sound_full. Qed.
Print Assumptions C09_certified_support_verdict_is_definition.

Theorem C09_certified_support_correct_answers_are_accepted :
  forall rec m n M rc1 v viol rc2 was Sg viol2 rc3 v' rc4 was2 S2 mN nN N w rest,
  CamionCertModel.camion_cert_input rec =
    Some (((m, n, M), (rc1, v, viol), (rc2, was, Sg, viol2), (rc3, v'), (rc4, was2, S2), (mN, nN, N), w), rest) ->
  CamionCertModel.camion_certified m n M mN nN N w = true ->
  rc1 = 0 -> rc2 = 0 ->
  (exists Sm, Sg = Some (m, n, Sm) /\ wf_mat m n Sm = true /\ CamionModel.same_support M Sm = true /\ tu_bf m n Sm = true) ->
  (v = 1 <-> tu_bf m n M = true) -> (v = 0 \/ v = 1) ->
  CamionCertModel.judge_camion_cert rec = 0.
Proof. exact CamionCertComplete.judge_camion_cert_complete. Qed.
Print Assumptions C09_certified_support_correct_answers_are_accepted.
