(* TuModel.v — reference semantics and judges for CMRtuTest (C01, C07) and CMRregularTest (C02).
   No proofs here. *)
From Cmr Require Import Base Det.
Local Open Scope Z_scope.

(* positions in the configuration vector printed by the harness (see harness/drive.c) *)
Definition cfg_get (cfg : list Z) (i : nat) : Z := nthZ cfg i.
Definition cfg_algorithm cfg := cfg_get cfg 0.
Definition cfg_stopflags cfg : bool :=
  negb (cfg_get cfg 5 =? 0) || negb (cfg_get cfg 6 =? 0) || negb (cfg_get cfg 7 =? 0).
Definition cfg_want_sub cfg : bool := negb (cfg_get cfg 15 =? 0).

(* record: ncfg cfg M rc verdict(0/1, 2 = not written) hasSub [nr rows nc cols] *)
Definition judge_tu (rec : list Z) : Z :=
  match (cfg <- dlist dZ ;; x <- dmat ;; rc <- dZ ;; v <- dZ ;; h <- dbool ;;
         sub <- (if h then (rs <- dlist dnat ;; cs <- dlist dnat ;; dret (Some (rs, cs))) else dret None) ;;
         dend (cfg, x, rc, v, sub)) rec with
  | Some ((cfg, (m, n, M), rc, v, sub), _) =>
    if negb (rc =? 0) then 30
    else
      let t := tu_bf m n M in
      if v =? 2 then (if cfg_stopflags cfg then 0 else 31)
      else if negb ((v =? 0) || (v =? 1)) then 1
      else if negb (Bool.eqb (v =? 1) t) then 32
      else if v =? 1 then (match sub with None => 0 | Some _ => 37 end)
      else if negb (cfg_want_sub cfg) then 0
      else match sub with
           | None => 33
           | Some (rs, cs) =>
             if negb (check_violator m n M rs cs) then 34
             else if negb (is_ternary M) then (if Nat.eqb (length rs) 1 then 0 else 36)
             else if cfg_algorithm cfg =? 0 then (if check_min_violator m n M rs cs then 0 else 35)
             else 0
           end
  | None => 1
  end.

(* the same record judged without the brute-force oracle, for matrices of any size: a "not TU" answer given together
   with a requested submatrix must be certified by that submatrix (|det| >= 2, checked with the verified checker);
   "TU" answers are only required to be well-formed (they are certified through the decomposition tree, C03/C04) *)
Definition judge_tu_cert (rec : list Z) : Z :=
  match (cfg <- dlist dZ ;; x <- dmat ;; rc <- dZ ;; v <- dZ ;; h <- dbool ;;
         sub <- (if h then (rs <- dlist dnat ;; cs <- dlist dnat ;; dret (Some (rs, cs))) else dret None) ;;
         dend (cfg, x, rc, v, sub)) rec with
  | Some ((cfg, (m, n, M), rc, v, sub), _) =>
    if negb (rc =? 0) then 30
    else if v =? 2 then (if cfg_stopflags cfg then 0 else 31)
    else if negb ((v =? 0) || (v =? 1)) then 1
    else if v =? 1 then (match sub with None => 0 | Some _ => 37 end)
    else if negb (cfg_want_sub cfg) then 0
    else match sub with
         | None => 33
         | Some (rs, cs) => if check_violator m n M rs cs then 0 else 34
         end
  | None => 1
  end.

(* ---------- regularity of 0/1 matrices: signable to a TU matrix ---------- *)

Fixpoint signings_row (r : list Z) : list (list Z) :=
  match r with
  | [] => [[]]
  | x :: r' => let rest := signings_row r' in
               if x =? 0 then map (cons 0) rest else map (cons 1) rest ++ map (cons (-1)) rest
  end.

(* sign the rows one after another; a prefix that is not TU cannot be completed (TU is hereditary) *)
Fixpoint sign_search (n : nat) (done todo : mat) : bool :=
  match todo with
  | [] => tu_bf (length done) n done
  | r :: todo' =>
    existsb (fun sr => let d := done ++ [sr] in tu_bf (length d) n d && sign_search n d todo')
            (signings_row r)
  end.

Definition regular_bf (m n : nat) (M : mat) : bool := is_binary M && sign_search n [] M.

(* record: ncfg cfg M rc verdict(0/1/2) *)
Definition judge_regular (rec : list Z) : Z :=
  match (cfg <- dlist dZ ;; x <- dmat ;; rc <- dZ ;; v <- dZ ;; dend (cfg, x, rc, v)) rec with
  | Some ((cfg, (m, n, M), rc, v), _) =>
    if negb (rc =? 0) then 50
    else if v =? 2 then (if cfg_stopflags cfg then 0 else 51)
    else if negb ((v =? 0) || (v =? 1)) then 1
    else if Bool.eqb (v =? 1) (regular_bf m n M) then 0 else 52
  | None => 1
  end.
