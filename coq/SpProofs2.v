(* SpProofs2.v — consequences of SP heredity for submatrices given by index lists, the violator check
   and the reported reduced submatrix. *)
From Coq Require Import Setoid Arith PeanoNat.
From Cmr Require Import Base Det BaseProofs SpModel SpProofs.
Local Open Scope Z_scope.

(* ------------------------------------------------------------------------------------------ *)
(* 1. Masks built by mapping over iota                                                        *)
(* ------------------------------------------------------------------------------------------ *)

Lemma live_map_iota (f : nat -> bool) k : forall s i,
  live (map f (iota s k)) i = true <-> (i < k)%nat /\ f (s + i)%nat = true.
Proof.
  unfold live. induction k as [|k IH]; intros s [|i]; cbn [iota map nth].
  - split; [discriminate | intros [H _]; lia].
  - split; [discriminate | intros [H _]; lia].
  - rewrite Nat.add_0_r. split; [intros H; split; [lia | exact H] | tauto].
  - rewrite IH. replace (S s + i)%nat with (s + S i)%nat by lia.
    split; intros [H1 H2]; split; auto; lia.
Qed.

Lemma live_all_true k i : live (all_true k) i = true <-> (i < k)%nat.
Proof. unfold all_true. rewrite live_map_iota. tauto. Qed.

Lemma memn_In x l : memn x l = true <-> In x l.
Proof.
  induction l as [|y l IH]; cbn [memn In]; [split; [discriminate | tauto]|].
  rewrite orb_true_iff, Nat.eqb_eq, IH. split; intros [H|H]; auto.
Qed.

Lemma mask_of_live k l i : live (mask_of k l) i = true <-> (i < k)%nat /\ In i l.
Proof. unfold mask_of. rewrite live_map_iota. cbn [Nat.add]. rewrite memn_In. tauto. Qed.

Lemma nodupn_NoDup l : nodupn l = true -> NoDup l.
Proof.
  induction l as [|x l IH]; cbn [nodupn]; [constructor|].
  intros H. apply andb_true_iff in H. destruct H as [H1 H2]. constructor; auto.
  intros I. apply memn_In in I. rewrite I in H1. discriminate.
Qed.

Lemma all_lt_In k l x : all_lt k l = true -> In x l -> (x < k)%nat.
Proof.
  unfold all_lt. rewrite forallb_forall. intros H I. apply Nat.ltb_lt. apply H, I.
Qed.

(* ------------------------------------------------------------------------------------------ *)
(* 2. Entries of submat                                                                       *)
(* ------------------------------------------------------------------------------------------ *)

Lemma nthR_map (f : nat -> list Z) l : forall i, (i < length l)%nat -> nthR (map f l) i = f (nth i l 0%nat).
Proof.
  induction l as [|x l IH]; intros [|i] H; cbn [length map nthR nth] in *; try lia; auto.
  apply IH. lia.
Qed.

Lemma nthZ_map (f : nat -> Z) l : forall j, (j < length l)%nat -> nthZ (map f l) j = f (nth j l 0%nat).
Proof.
  induction l as [|x l IH]; intros [|j] H; cbn [length map nthZ nth] in *; try lia; auto.
  apply IH. lia.
Qed.

Lemma get_submat M rs cs i j : (i < length rs)%nat -> (j < length cs)%nat ->
  get (submat M rs cs) i j = get M (nth i rs 0%nat) (nth j cs 0%nat).
Proof.
  intros Hi Hj. unfold get at 1. unfold submat.
  rewrite (nthR_map (fun i => map (fun j => get M i j) cs)) by exact Hi.
  rewrite (nthZ_map (fun j => get M (nth i rs 0%nat) j)) by exact Hj. reflexivity.
Qed.

(* ------------------------------------------------------------------------------------------ *)
(* 3. Heredity for submatrices given by index lists                                           *)
(* ------------------------------------------------------------------------------------------ *)

Lemma emb_submat ternary M m n rs cs :
  nodupn rs = true -> nodupn cs = true -> all_lt m rs = true -> all_lt n cs = true ->
  emb ternary (get M) (get (submat M rs cs)) (all_true m) (all_true n)
      (all_true (length rs)) (all_true (length cs))
      (fun i => nth i rs 0%nat) (fun j => nth j cs 0%nat) (fun _ => 1) (fun _ => 1).
Proof.
  intros Dr Dc Lr Lc. apply nodupn_NoDup in Dr. apply nodupn_NoDup in Dc.
  unfold emb. repeat apply conj; auto using sign_ok_one.
  - intros i Li. apply live_all_true in Li. apply live_all_true.
    eapply all_lt_In; [exact Lr | apply nth_In; exact Li].
  - intros i i' Li Li' E. apply live_all_true in Li. apply live_all_true in Li'.
    eapply (proj1 (NoDup_nth rs 0%nat) Dr); eauto.
  - intros j Lj. apply live_all_true in Lj. apply live_all_true.
    eapply all_lt_In; [exact Lc | apply nth_In; exact Lj].
  - intros j j' Lj Lj' E. apply live_all_true in Lj. apply live_all_true in Lj'.
    eapply (proj1 (NoDup_nth cs 0%nat) Dc); eauto.
  - intros i j Li Lj. apply live_all_true in Li. apply live_all_true in Lj.
    rewrite get_submat by assumption. ring.
Qed.

Theorem SP_submat : forall ternary M m n rs cs,
  nodupn rs = true -> nodupn cs = true -> all_lt m rs = true -> all_lt n cs = true ->
  SPred ternary M (all_true m, all_true n) ->
  SPred ternary (submat M rs cs) (all_true (length rs), all_true (length cs)).
Proof.
  intros ternary M m n rs cs Dr Dc Lr Lc H.
  eapply (SP_emb ternary M (all_true m, all_true n) H (submat M rs cs)).
  cbn [fst snd]. apply emb_submat; assumption.
Qed.

(* the same, phrased with the model's own oracle *)
Corollary sp_of_sub_hereditary : forall ternary M m n rs cs,
  nodupn rs = true -> nodupn cs = true -> all_lt m rs = true -> all_lt n cs = true ->
  sp_greedy ternary m n M = true -> sp_of_sub ternary M rs cs = true.
Proof.
  intros ternary M m n rs cs Dr Dc Lr Lc H. unfold sp_of_sub.
  apply sp_greedy_correct. eapply SP_submat; eauto. apply sp_greedy_correct, H.
Qed.

(* ------------------------------------------------------------------------------------------ *)
(* 4. The violator check                                                                      *)
(* ------------------------------------------------------------------------------------------ *)

Theorem check_sp_violator_sound : forall ternary m n M rs cs,
  check_sp_violator ternary m n M rs cs = true -> ~ SPred ternary M (all_true m, all_true n).
Proof.
  intros ternary m n M rs cs H Hsp. unfold check_sp_violator in H. cbv zeta in H.
  apply andb_true_iff in H. destruct H as [H _].
  apply andb_true_iff in H. destruct H as [H G].
  apply andb_true_iff in H. destruct H as [H Dc].
  apply andb_true_iff in H. destruct H as [H Dr].
  apply andb_true_iff in H. destruct H as [H Lc].
  apply andb_true_iff in H. destruct H as [K Lr].
  apply Nat.eqb_eq in K.
  pose proof (SP_submat ternary M m n rs cs Dr Dc Lr Lc Hsp) as S.
  rewrite K in S. apply sp_greedy_correct in S. rewrite S in G. discriminate.
Qed.

(* ------------------------------------------------------------------------------------------ *)
(* 5. The reported reduced submatrix                                                          *)
(* ------------------------------------------------------------------------------------------ *)

Lemma sub_mask_mask_of k l : sub_mask (mask_of k l) (all_true k).
Proof. intros i H. apply mask_of_live in H. apply live_all_true. tauto. Qed.

Theorem reduced_witness : forall ternary M m n rr rcs,
  all_lt m rr = true -> all_lt n rcs = true ->
  irreducible ternary M (mask_of m rr) (mask_of n rcs) = true ->
  (rr <> [] \/ rcs <> []) -> ~ SPred ternary M (all_true m, all_true n).
Proof.
  intros ternary M m n rr rcs Lr Lc Hirr Hne.
  eapply SP_witness_gen; [apply sub_mask_mask_of | apply sub_mask_mask_of | exact Hirr |].
  destruct (is_empty (mask_of m rr) (mask_of n rcs)) eqn:E; auto. exfalso.
  apply is_empty_iff in E. destruct E as [E1 E2]. destruct Hne as [N|N].
  - destruct rr as [|x rr]; [congruence|].
    assert (L : live (mask_of m (x :: rr)) x = true).
    { apply mask_of_live. split; [eapply all_lt_In; [exact Lr | left; auto] | left; auto]. }
    rewrite E1 in L. discriminate.
  - destruct rcs as [|x rcs]; [congruence|].
    assert (L : live (mask_of n (x :: rcs)) x = true).
    { apply mask_of_live. split; [eapply all_lt_In; [exact Lc | left; auto] | left; auto]. }
    rewrite E2 in L. discriminate.
Qed.

Theorem reduced_empty : forall m n rr rcs,
  rr = [] -> rcs = [] -> is_empty (mask_of m rr) (mask_of n rcs) = true.
Proof.
  intros m n rr rcs -> ->. apply is_empty_iff. split; intros i.
  - destruct (live (mask_of m []) i) eqn:L; auto. apply mask_of_live in L. destruct L as [_ []].
  - destruct (live (mask_of n []) i) eqn:L; auto. apply mask_of_live in L. destruct L as [_ []].
Qed.

(* contrapositive form: for a series-parallel matrix an irreducible reported reduced submatrix is empty *)
Corollary reduced_SP_empty : forall ternary M m n rr rcs,
  all_lt m rr = true -> all_lt n rcs = true ->
  irreducible ternary M (mask_of m rr) (mask_of n rcs) = true ->
  SPred ternary M (all_true m, all_true n) -> rr = [] /\ rcs = [].
Proof.
  intros ternary M m n rr rcs Lr Lc Hirr Hsp.
  destruct rr as [|x rr]; [destruct rcs as [|y rcs]; [auto|] |]; exfalso;
    (eapply reduced_witness; [exact Lr | exact Lc | exact Hirr | | exact Hsp]);
    [right | left]; discriminate.
Qed.

(* non-vacuity *)
Example violator_wheel3 :
  check_sp_violator true 4 4 [[1;1;0;0];[1;0;1;0];[0;1;1;0];[0;0;0;1]] [0;1;2]%nat [0;1;2]%nat = true.
Proof. vm_compute. reflexivity. Qed.

Example reduced_wheel3 :
  irreducible true [[1;1;0;0];[1;0;1;0];[0;1;1;0];[0;0;0;1]] (mask_of 4 [0;1;2]%nat) (mask_of 4 [2;0;1]%nat) = true.
Proof. vm_compute. reflexivity. Qed.

Print Assumptions SP_submat.
Print Assumptions check_sp_violator_sound.
Print Assumptions reduced_witness.
Print Assumptions reduced_empty.
Print Assumptions reduced_SP_empty.
