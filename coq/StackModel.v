(* StackModel.v — C11/C18/C19: the scratch-stack allocator of src/cmr/env.c (_CMRallocStack, _CMRfreeStack,
   CMRgetStackUsage) as a state machine over chunk lists.  No proofs here.

   C state: stacks[0..numStacks-1] with capacities FIRST_STACK_SIZE << k and a free-byte counter `top` each, and
   currentStack.  Stacks above currentStack are always completely free, and their number (numStacks) is not observable,
   so the model keeps only stacks currentStack, currentStack-1, ..., 0 (head = current stack).  Each stack is the list
   of the byte counts taken by its live chunks, most recent first; top(k) = cap k - sum of that list. *)
From Cmr Require Import Base.
Local Open Scope Z_scope.

Definition FIRST_STACK_SIZE : Z := 4096.
Definition WORD : Z := 8.                       (* sizeof(void* ) = sizeof(size_t) on the platform of the check *)
Definition cap (k : nat) : Z := FIRST_STACK_SIZE * 2 ^ (Z.of_nat k).
(* bookkeeping bytes in front of every chunk: the size field, plus the protection slot in assertion-enabled builds *)
Definition ovh (dbg : bool) : Z := if dbg then 2 * WORD else WORD.
(* "if (size < 4) size = 4" and rounding up to a multiple of the pointer size *)
Definition round_size (sz : Z) : Z := (Z.max sz 4 + WORD - 1) / WORD * WORD.
Definition chunk (dbg : bool) (sz : Z) : Z := round_size sz + ovh dbg.

Definition sstate := list (list Z).
Definition s_init : sstate := [[]].

Definition used (l : list Z) : Z := fold_right Z.add 0 l.
Fixpoint caps_below (k : nat) : Z := match k with O => 0 | S j => caps_below j + cap j end.
(* CMRgetStackUsage: full capacity of every stack below the current one plus the used bytes of the current one *)
Definition usage (s : sstate) : Z :=
  match s with [] => 0 | h :: lower => caps_below (length lower) + used h end.
Definition level (s : sstate) : nat := (length s - 1)%nat.

(* the while loop of _CMRallocStack once the current stack is too small: open further (empty) stacks until one is
   large enough; fuel 64 suffices for every request below 2^40 bytes (the function's own assertion) *)
Fixpoint grow (fuel : nat) (req : Z) (s : sstate) : option sstate :=
  match fuel with
  | O => None
  | S f => let s' := [] :: s in
           if req <=? cap (length s) then Some s' else grow f req s'
  end.

Definition s_alloc (dbg : bool) (sz : Z) (s : sstate) : option sstate :=
  match s with
  | [] => None
  | h :: lower =>
    let c := chunk dbg sz in
    if c <=? cap (length lower) - used h then Some ((c :: h) :: lower)
    else match grow 64 c s with
         | Some (h' :: l') => Some ((c :: h') :: l')
         | _ => None
         end
  end.

(* the while loop of _CMRfreeStack: leave stacks that became empty, but never stack 0 *)
Fixpoint unwind (s : sstate) : sstate :=
  match s with
  | [] :: lower => match lower with [] => s | _ => unwind lower end
  | _ => s
  end.

Definition s_free (s : sstate) : option sstate :=
  match s with
  | (c :: h) :: lower => Some (unwind (h :: lower))
  | _ => None                                     (* nothing to free: the C code would read garbage *)
  end.

(* operations of a trace: (1, size) = alloc of `size` bytes, (2, _) = free *)
Inductive sop := SAlloc (sz : Z) | SFree.

Definition s_step (dbg : bool) (s : sstate) (o : sop) : option sstate :=
  match o with SAlloc sz => s_alloc dbg sz s | SFree => s_free s end.

Fixpoint s_run (dbg : bool) (ops : list sop) (s : sstate) : option sstate :=
  match ops with
  | [] => Some s
  | o :: r => match s_step dbg s o with Some s' => s_run dbg r s' | None => None end
  end.

(* the abstract LIFO discipline: sizes of the chunks a trace leaves allocated on top of what was there before
   (most recent first); None if it frees something it did not allocate *)
Fixpoint pending (ops : list sop) (acc : list Z) : option (list Z) :=
  match ops with
  | [] => Some acc
  | SAlloc sz :: r => pending r (sz :: acc)
  | SFree :: r => match acc with [] => None | _ :: a => pending r a end
  end.

(* ---------- judge for traced runs ----------
   record: dbg n (kind size usage_after)*n
   0 = the trace is well bracketed, the model's usage equals the implementation's after every event, and the trace ends
       at the initial state;  2 = usage differs at some event;  3 = free with nothing allocated / request the model
       cannot serve;  4 = trace ends with chunks still allocated;  1 = malformed *)
Fixpoint replay (dbg : bool) (ev : list (Z * Z * Z)) (s : sstate) : Z + sstate :=
  match ev with
  | [] => inr s
  | (k, sz, u) :: r =>
    match (if k =? 1 then s_alloc dbg sz s else s_free s) with
    | None => inl 3
    | Some s' => if usage s' =? u then replay dbg r s' else inl 2
    end
  end.

Definition dev : dec (Z * Z * Z) := k <- dZ ;; sz <- dZ ;; u <- dZ ;; dret (k, sz, u).

Definition judge_stack (rec : list Z) : Z :=
  match (d <- dbool ;; ev <- dlist dev ;; dend (d, ev)) rec with
  | Some ((d, ev), _) =>
    if negb (forallb (fun e => let '(k, sz, _) := e in ((k =? 1) && (0 <=? sz) && (sz <? 2 ^ 40)) || (k =? 2)) ev) then 1
    else match replay d ev s_init with
         | inl c => c
         | inr s => if list_eqb zlist_eqb s s_init then 0 else 4
         end
  | None => 1
  end.
