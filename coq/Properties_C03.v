From Cmr Require Import Base Det TreeModel.
Theorem placeholder_C03 : True. Proof. exact I. Qed.
