(* Properties_C03.v — C03: every returned Seymour decomposition tree recomposes to the matrices it claims.
   Statements closed by `exact`; proofs in TreeProofs.v (over KsumProofs, PivotProofs, SpProofs). *)
From Cmr Require Import Base Det BaseProofs PivotModel PivotProofs TuModel SpModel SpProofs SpProofs2
  GraphModel GraphProofs KsumModel KsumProofs TreeModel TreeProofs.
Local Open Scope Z_scope.

(* the tree checker accepts exactly the trees all of whose nodes (with their children) pass the node check *)
Theorem C03_checker_covers_every_node : forall t,
  check_tree t = 0 <-> Forall_tree (fun P Cs => check_node P Cs = 0) t.
Proof. exact check_tree_all_nodes_iff. Qed.
Print Assumptions C03_checker_covers_every_node.

(* What an accepted node guarantees, by node type (all sizes):
   - 1-sum: at least two children; the parent is, under the jointly bijective child-to-parent maps, the block-diagonal
     matrix of the children;
   - 2-, Delta-, Y-, 3-sum: two children that have the documented shape; the documented block formula (KsumModel.ksum,
     proved equal to [A a b^T; d c^T D] etc. in Properties_C12) applied with the recorded special rows/columns gives a
     matrix Mc which equals the parent matrix under the child-to-parent maps of the kept lines (bijective onto the
     parent's rows and columns);
   - pivot node: pairwise distinct in-range pivots; the child is the parent after the recorded pivots (PivotModel,
     Properties_C13) with the documented element maps; the child is a leaf, a Delta-, 3- or Y-sum;
   - series-parallel node: the recorded reductions are genuine one after another (SpModel.apply_reds) and the child is
     exactly the submatrix of the surviving lines (no child: everything was removed);
   - other types are leaves. *)
Theorem C03_node_recomposes : forall P Cs,
  check_node P Cs = 0 ->
  node_common P Cs /\ check_flags P = 0 /\
  ((t_type P = T_ONESUM /\ onesum_spec P Cs) \/
   (is_sum_type (t_type P) = true /\ sum_spec P Cs) \/
   (t_type P = T_PIVOTS /\ pivot_spec P Cs) \/
   (t_type P = T_SP /\ sp_spec P Cs) \/
   (is_inner_type (t_type P) = false /\ t_links P = [] /\ Cs = [])).
Proof. exact check_node_sound. Qed.
Print Assumptions C03_node_recomposes.

(* the recorded reductions of an accepted series-parallel node form a chain of genuine SP steps *)
Theorem C03_sp_node_steps : forall P Cs, sp_spec P Cs ->
  exists lr lc,
    apply_reds (t_tern P) (t_M P) (all_true (t_m P)) (all_true (t_n P)) (node_reds P) = Some (lr, lc) /\
    sp_steps (t_tern P) (t_M P) (all_true (t_m P), all_true (t_n P)) (lr, lc).
Proof.
  intros P Cs [lr [lc [H _]]]. exists lr, lc. split; [exact H|].
  exact (proj1 (apply_reds_sound _ _ _ _ _ _ _ H)).
Qed.
Print Assumptions C03_sp_node_steps.

(* whenever the judge accepts a record carrying a tree: the root's matrix is the input (its support for the binary
   tree of a ternary TU test) and every node of the tree passes the node check above *)
Theorem C03_judge_sound : forall rec cfg bot m n M tr rest,
  tree_input rec = Some ((cfg, bot, (m, n, M), 0, Some tr), rest) ->
  judge_tree rec = 0 ->
  t_m (info tr) = m /\ t_n (info tr) = n /\
  t_M (info tr) = (if bot then support M else M) /\
  check_tree tr = 0 /\
  Forall_tree (fun P Cs => check_node P Cs = 0) tr.
Proof. exact judge_tree_sound. Qed.
Print Assumptions C03_judge_sound.

(* ---------- the judge accepts EXACTLY the records that satisfy its specification (JudgeComplete3.v): completeness besides soundness,
   a record of a correct answer is never rejected ---------- *)
From Cmr Require JudgeComplete3.
Theorem C03_judge_tree_accepts_exactly_the_specification :
    forall (rec cfg : list Z) (bot : bool) (m n : nat) (M : mat) (rc : Z) (t : option TreeModel.tree)
    (rest : list Z),
    TreeProofs.tree_input rec = Some (cfg, bot, (m, n, M), rc, t, rest) ->
    TreeModel.judge_tree rec = 0%Z <-> JudgeComplete3.tree_spec bot m n M rc t.
Proof. exact JudgeComplete3.judge_tree_iff. Qed.
Print Assumptions C03_judge_tree_accepts_exactly_the_specification.
