(* JudgeComplete1.v — COMPLETENESS of the judges: a record that satisfies the specification is accepted (the judge never
   raises an alarm on a correct answer).  Together with the soundness theorems of TuJudgeProofs / BalancedProofs /
   TuNetProofs / RegCertProofs / BalancedCertProofs / EquiProofs / EquiCertProofs / CtuProofs this gives, for every judge,
   `judge_X rec = 0 <-> X_spec <decoded fields>`.  Plain Coq, no axioms. *)
From Cmr Require Import Base Det BaseProofs TuModel TuJudgeProofs SpModel BalancedProofs GraphModel TuNetModel TuNetProofs
  RegCertModel RegCertProofs BalancedCertModel BalancedCertProofs EquiModel EquiProofs EquiCertModel EquiCertProofs
  CtuModel CtuProofs.
Local Open Scope Z_scope.

(* reduce the comparisons between literals and the boolean connectives, nothing else (never an oracle) *)
Ltac zb := cbn [Z.eqb Pos.eqb negb orb andb Bool.eqb].
Ltac zb_in H := cbn [Z.eqb Pos.eqb negb orb andb Bool.eqb] in H.

(* ------------------------------------------------------------------------------------------ *)
(* 1. judge_tu                                                                                  *)
(* ------------------------------------------------------------------------------------------ *)

(* literally the conclusion of TuJudgeProofs.judge_tu_sound *)
Definition tu_spec (cfg : list Z) (m n : nat) (M : mat) (rc v : Z) (sub : option (list nat * list nat)) : Prop :=
  rc = 0 /\
  (v = 0 \/ v = 1 \/ (v = 2 /\ cfg_stopflags cfg = true)) /\
  (v = 1 -> tu_bf m n M = true /\ sub = None) /\
  (v = 0 -> tu_bf m n M = false /\
            (cfg_want_sub cfg = true ->
             exists rs cs, sub = Some (rs, cs) /\ check_violator m n M rs cs = true /\
               (is_ternary M = false -> length rs = 1%nat) /\
               (is_ternary M = true -> cfg_algorithm cfg = 0 -> check_min_violator m n M rs cs = true))).

Theorem judge_tu_complete : forall rec cfg m n M rc v sub rest,
  tu_input rec = Some ((cfg, (m, n, M), rc, v, sub), rest) ->
  tu_spec cfg m n M rc v sub ->
  judge_tu rec = 0.
Proof.
  intros rec cfg m n M rc v sub rest Hdec (Hrc & Hv & H1 & H0).
  unfold judge_tu. unfold tu_input in Hdec. rewrite Hdec. cbv beta iota zeta.
  subst rc. zb.
  destruct Hv as [Hv | [Hv | [Hv Hs]]]; subst v; zb.
  - (* v = 0 *)
    destruct (H0 eq_refl) as [Ht Hw]. rewrite Ht. zb.
    destruct (cfg_want_sub cfg) eqn:Ew; zb; [|reflexivity].
    destruct (Hw eq_refl) as (rs & cs & Es & Hc & Hn & Hm). subst sub. rewrite Hc. zb.
    destruct (is_ternary M) eqn:Et; zb.
    + destruct (cfg_algorithm cfg =? 0) eqn:Ea; [|reflexivity].
      apply Z.eqb_eq in Ea. rewrite (Hm eq_refl Ea). reflexivity.
    + rewrite (Hn eq_refl). reflexivity.
  - (* v = 1 *)
    destruct (H1 eq_refl) as [Ht Es]. rewrite Ht. subst sub. zb. reflexivity.
  - (* v = 2 *)
    rewrite Hs. reflexivity.
Qed.

Corollary judge_tu_iff : forall rec cfg m n M rc v sub rest,
  tu_input rec = Some ((cfg, (m, n, M), rc, v, sub), rest) ->
  (judge_tu rec = 0 <-> tu_spec cfg m n M rc v sub).
Proof.
  intros rec cfg m n M rc v sub rest Hdec. split.
  - intros HJ. exact (judge_tu_sound _ _ _ _ _ _ _ _ _ Hdec HJ).
  - intros HS. exact (judge_tu_complete _ _ _ _ _ _ _ _ _ Hdec HS).
Qed.

Print Assumptions judge_tu_complete.
Print Assumptions judge_tu_iff.

(* ------------------------------------------------------------------------------------------ *)
(* 2. judge_regular                                                                             *)
(* ------------------------------------------------------------------------------------------ *)

(* literally the conclusion of TuJudgeProofs.judge_regular_sound *)
Definition regular_spec (cfg : list Z) (m n : nat) (M : mat) (rc v : Z) : Prop :=
  rc = 0 /\ (v = 0 \/ v = 1 \/ (v = 2 /\ cfg_stopflags cfg = true)) /\
  (v = 1 -> regular_bf m n M = true) /\ (v = 0 -> regular_bf m n M = false).

Theorem judge_regular_complete : forall rec cfg m n M rc v rest,
  regular_input rec = Some ((cfg, (m, n, M), rc, v), rest) ->
  regular_spec cfg m n M rc v ->
  judge_regular rec = 0.
Proof.
  intros rec cfg m n M rc v rest Hdec (Hrc & Hv & H1 & H0).
  unfold judge_regular. unfold regular_input in Hdec. rewrite Hdec. cbv beta iota zeta.
  subst rc. zb.
  destruct Hv as [Hv | [Hv | [Hv Hs]]]; subst v; zb.
  - rewrite (H0 eq_refl). reflexivity.
  - rewrite (H1 eq_refl). reflexivity.
  - rewrite Hs. reflexivity.
Qed.

Corollary judge_regular_iff : forall rec cfg m n M rc v rest,
  regular_input rec = Some ((cfg, (m, n, M), rc, v), rest) ->
  (judge_regular rec = 0 <-> regular_spec cfg m n M rc v).
Proof.
  intros rec cfg m n M rc v rest Hdec. split.
  - intros HJ. exact (judge_regular_sound _ _ _ _ _ _ _ _ Hdec HJ).
  - intros HS. exact (judge_regular_complete _ _ _ _ _ _ _ _ Hdec HS).
Qed.

Print Assumptions judge_regular_complete.
Print Assumptions judge_regular_iff.

(* ------------------------------------------------------------------------------------------ *)
(* 3. judge_balanced                                                                            *)
(* ------------------------------------------------------------------------------------------ *)

(* The conclusion of BalancedProofs.judge_balanced_sound says, for a matrix that is not ternary, only `v = 0`; the judge checks
   more there: with wantSub the returned submatrix must be a single in-range entry outside {-1,0,1}, without wantSub no
   submatrix may be returned.  STRENGTHENED: the last conjunct (the ternary part is literally that of judge_balanced_sound). *)
Definition balanced_spec (alg : Z) (ws : bool) (m n : nat) (M : mat) (rc v : Z)
           (sub : option (list nat * list nat)) : Prop :=
  (alg = 2 /\ rc <> 0) \/
  (rc = 0 /\ (v = 0 \/ v = 1) /\
   (is_ternary M = true ->
      (v = 1 <-> balanced_bf m n M = true) /\
      (v = 1 -> sub = None) /\
      (v = 0 -> ws = true ->
         exists rs cs, sub = Some (rs, cs) /\ check_unbalanced m n M rs cs = true) /\
      (v = 0 -> forall rs cs, sub = Some (rs, cs) -> check_unbalanced m n M rs cs = true)) /\
   (is_ternary M = false ->
      v = 0 /\
      (ws = true -> exists r c, sub = Some ([r], [c]) /\ is_ternary_entry (get M r c) = false /\
                                (r < m)%nat /\ (c < n)%nat) /\
      (ws = false -> sub = None))).

Theorem judge_balanced_complete : forall rec alg sp ws m n M rc v sub rest,
  balanced_input rec = Some ((alg, sp, ws, (m, n, M), rc, v, sub), rest) ->
  balanced_spec alg ws m n M rc v sub ->
  judge_balanced rec = 0.
Proof.
  intros rec alg sp ws m n M rc v sub rest Hdec HS.
  unfold judge_balanced. unfold balanced_input in Hdec. rewrite Hdec. cbv beta iota zeta.
  destruct HS as [[Ha Hrc] | (Hrc & Hv & HT & HN)].
  - subst alg. apply Z.eqb_neq in Hrc. rewrite Hrc. reflexivity.
  - subst rc. zb. rewrite andb_false_r.
    destruct (is_ternary M) eqn:Et; zb.
    + destruct (HT eq_refl) as (Hiff & H1 & H0a & H0b).
      destruct Hv as [Hv|Hv]; subst v; zb.
      * destruct (balanced_bf m n M) eqn:Eb.
        { assert (0 = 1) by (apply Hiff; reflexivity). discriminate. }
        zb. destruct sub as [[rs cs]|].
        { rewrite (H0b eq_refl rs cs eq_refl). reflexivity. }
        destruct ws; [|reflexivity].
        destruct (H0a eq_refl eq_refl) as (rs & cs & E & _). discriminate E.
      * rewrite (proj1 Hiff eq_refl). zb. rewrite (H1 eq_refl). reflexivity.
    + destruct (HN eq_refl) as (Hv0 & Hw1 & Hw0). subst v. zb.
      destruct ws.
      * destruct (Hw1 eq_refl) as (r & c & Es & He & Hr & Hc). subst sub.
        rewrite He. apply Nat.ltb_lt in Hr, Hc. rewrite Hr, Hc. reflexivity.
      * rewrite (Hw0 eq_refl). reflexivity.
Qed.

(* soundness for the strengthened specification *)
Theorem judge_balanced_sound_strong : forall rec alg sp ws m n M rc v sub rest,
  balanced_input rec = Some ((alg, sp, ws, (m, n, M), rc, v, sub), rest) ->
  judge_balanced rec = 0 ->
  balanced_spec alg ws m n M rc v sub.
Proof.
  intros rec alg sp ws m n M rc v sub rest Hdec HJ.
  destruct (judge_balanced_sound _ _ _ _ _ _ _ _ _ _ _ Hdec HJ) as [H | (Hrc & Hv & HT & HN)]; [left; exact H|].
  right. split; [exact Hrc|]. split; [exact Hv|]. split; [exact HT|].
  intros Et. pose proof (HN Et) as Hv0. split; [exact Hv0|].
  unfold judge_balanced in HJ. unfold balanced_input in Hdec. rewrite Hdec in HJ. cbv beta iota zeta in HJ.
  subst rc v. rewrite Et in HJ. zb_in HJ. rewrite andb_false_r in HJ.
  destruct sub as [[rs cs]|].
  - destruct rs as [|r [|r' rs]]; try discriminate HJ.
    destruct cs as [|c [|c' cs]]; try discriminate HJ.
    destruct ws; zb_in HJ; [|discriminate HJ].
    destruct (is_ternary_entry (get M r c)) eqn:He; zb_in HJ; [discriminate HJ|].
    destruct (Nat.ltb r m) eqn:Hr; zb_in HJ; [|discriminate HJ].
    destruct (Nat.ltb c n) eqn:Hc; [|discriminate HJ].
    apply Nat.ltb_lt in Hr, Hc. split.
    + intros _. exists r, c. repeat split; assumption.
    + intros H; discriminate H.
  - destruct ws; [discriminate HJ|]. split; [intros H; discriminate H | intros _; reflexivity].
Qed.

Corollary judge_balanced_iff : forall rec alg sp ws m n M rc v sub rest,
  balanced_input rec = Some ((alg, sp, ws, (m, n, M), rc, v, sub), rest) ->
  (judge_balanced rec = 0 <-> balanced_spec alg ws m n M rc v sub).
Proof.
  intros rec alg sp ws m n M rc v sub rest Hdec. split.
  - intros HJ. exact (judge_balanced_sound_strong _ _ _ _ _ _ _ _ _ _ _ Hdec HJ).
  - intros HS. exact (judge_balanced_complete _ _ _ _ _ _ _ _ _ _ _ Hdec HS).
Qed.

Print Assumptions judge_balanced_complete.
Print Assumptions judge_balanced_sound_strong.
Print Assumptions judge_balanced_iff.

(* ------------------------------------------------------------------------------------------ *)
(* 4. judge_tu_net (w.r.t. tu_certified)                                                        *)
(* ------------------------------------------------------------------------------------------ *)

(* the conclusion of TuNetProofs.judge_tu_net_sound_gen, under the hypothesis of that theorem (the record certifies its
   matrix); a record that certifies nothing is accepted whatever it says *)
Definition tu_net_spec (cfg : list Z) (m n : nat) (M : mat) (rc v : Z) (sub : option (list nat * list nat))
           (w : witness) : Prop :=
  tu_certified m n M w = true ->
  rc = 0 /\ tu_bf m n M = true /\ (v = 2 -> cfg_stopflags cfg = true) /\ (v <> 2 -> v = 1 /\ sub = None).

Theorem judge_tu_net_complete : forall rec cfg m n M rc v sub w rest,
  tu_net_input rec = Some ((cfg, (m, n, M), rc, v, sub, w), rest) ->
  tu_net_spec cfg m n M rc v sub w ->
  judge_tu_net rec = 0.
Proof.
  intros rec cfg m n M rc v sub w rest Hdec HS.
  unfold judge_tu_net. rewrite Hdec. cbv beta iota zeta.
  destruct ((rc =? 0) && (v =? 1) && (match sub with None => true | Some _ => false end)); [reflexivity|].
  destruct (tu_certified m n M w) eqn:Ec; zb; [|reflexivity].
  destruct (HS Ec) as (Hrc & _ & H2 & Hn2). subst rc. zb.
  destruct (v =? 2) eqn:E2.
  - apply Z.eqb_eq in E2. rewrite (H2 E2). reflexivity.
  - apply Z.eqb_neq in E2. destruct (Hn2 E2) as [Hv Es]. subst v sub. reflexivity.
Qed.

(* the two halves separately: nothing certified => accepted; certified and the stated answer => accepted *)
Corollary judge_tu_net_complete_uncertified : forall rec cfg m n M rc v sub w rest,
  tu_net_input rec = Some ((cfg, (m, n, M), rc, v, sub, w), rest) ->
  tu_certified m n M w = false ->
  judge_tu_net rec = 0.
Proof.
  intros rec cfg m n M rc v sub w rest Hdec Hc. eapply judge_tu_net_complete; [exact Hdec|].
  intros H. rewrite Hc in H. discriminate H.
Qed.

Corollary judge_tu_net_complete_certified : forall rec cfg m n M rc v sub w rest,
  tu_net_input rec = Some ((cfg, (m, n, M), rc, v, sub, w), rest) ->
  tu_certified m n M w = true ->
  rc = 0 -> (v = 2 -> cfg_stopflags cfg = true) -> (v <> 2 -> v = 1 /\ sub = None) ->
  judge_tu_net rec = 0.
Proof.
  intros rec cfg m n M rc v sub w rest Hdec Hc H0 H2 Hn2. eapply judge_tu_net_complete; [exact Hdec|].
  intros _. split; [exact H0|]. split; [exact (tu_certified_tu_bf _ _ _ _ Hc)|]. split; assumption.
Qed.

Corollary judge_tu_net_iff : forall rec cfg m n M rc v sub w rest,
  tu_net_input rec = Some ((cfg, (m, n, M), rc, v, sub, w), rest) ->
  (judge_tu_net rec = 0 <-> tu_net_spec cfg m n M rc v sub w).
Proof.
  intros rec cfg m n M rc v sub w rest Hdec. split.
  - intros HJ Hc. exact (judge_tu_net_sound_gen _ _ _ _ _ _ _ _ _ _ Hdec Hc HJ).
  - intros HS. exact (judge_tu_net_complete _ _ _ _ _ _ _ _ _ _ Hdec HS).
Qed.

(* in the shape of judge_tu_net_sound_gen *)
Corollary judge_tu_net_iff_certified : forall rec cfg m n M rc v sub w rest,
  tu_net_input rec = Some ((cfg, (m, n, M), rc, v, sub, w), rest) ->
  tu_certified m n M w = true ->
  (judge_tu_net rec = 0 <->
   rc = 0 /\ tu_bf m n M = true /\ (v = 2 -> cfg_stopflags cfg = true) /\ (v <> 2 -> v = 1 /\ sub = None)).
Proof.
  intros rec cfg m n M rc v sub w rest Hdec Hc. rewrite (judge_tu_net_iff _ _ _ _ _ _ _ _ _ _ Hdec).
  unfold tu_net_spec. split; [intros H; exact (H Hc) | intros H _; exact H].
Qed.

Print Assumptions judge_tu_net_complete.
Print Assumptions judge_tu_net_complete_uncertified.
Print Assumptions judge_tu_net_complete_certified.
Print Assumptions judge_tu_net_iff.
Print Assumptions judge_tu_net_iff_certified.

(* ------------------------------------------------------------------------------------------ *)
(* 5. judge_regular_cert                                                                        *)
(* ------------------------------------------------------------------------------------------ *)

Definition regular_cert_spec (cfg : list Z) (m n : nat) (M : mat) (rc v : Z) (tr : bool) (w : witness) : Prop :=
  regular_certified tr m n M w = true ->
  rc = 0 /\ regular_bf m n M = true /\ (v = 2 -> cfg_stopflags cfg = true) /\ (v <> 2 -> v = 1).

Theorem judge_regular_cert_complete : forall rec cfg m n M rc v tr w rest,
  regular_cert_input rec = Some ((cfg, (m, n, M), rc, v, tr, w), rest) ->
  regular_cert_spec cfg m n M rc v tr w ->
  judge_regular_cert rec = 0.
Proof.
  intros rec cfg m n M rc v tr w rest Hdec HS.
  unfold judge_regular_cert. rewrite Hdec. cbv beta iota zeta.
  destruct ((rc =? 0) && (v =? 1)); [reflexivity|].
  destruct (regular_certified tr m n M w) eqn:Ec; zb; [|reflexivity].
  destruct (HS Ec) as (Hrc & _ & H2 & Hn2). subst rc. zb.
  destruct (v =? 2) eqn:E2.
  - apply Z.eqb_eq in E2. rewrite (H2 E2). reflexivity.
  - apply Z.eqb_neq in E2. rewrite (Hn2 E2). reflexivity.
Qed.

Corollary judge_regular_cert_iff : forall rec cfg m n M rc v tr w rest,
  regular_cert_input rec = Some ((cfg, (m, n, M), rc, v, tr, w), rest) ->
  (judge_regular_cert rec = 0 <-> regular_cert_spec cfg m n M rc v tr w).
Proof.
  intros rec cfg m n M rc v tr w rest Hdec. split.
  - intros HJ Hc. exact (judge_regular_cert_sound_gen _ _ _ _ _ _ _ _ _ _ Hdec Hc HJ).
  - intros HS. exact (judge_regular_cert_complete _ _ _ _ _ _ _ _ _ _ Hdec HS).
Qed.

Corollary judge_regular_cert_iff_certified : forall rec cfg m n M rc v tr w rest,
  regular_cert_input rec = Some ((cfg, (m, n, M), rc, v, tr, w), rest) ->
  regular_certified tr m n M w = true ->
  (judge_regular_cert rec = 0 <->
   rc = 0 /\ regular_bf m n M = true /\ (v = 2 -> cfg_stopflags cfg = true) /\ (v <> 2 -> v = 1)).
Proof.
  intros rec cfg m n M rc v tr w rest Hdec Hc. rewrite (judge_regular_cert_iff _ _ _ _ _ _ _ _ _ _ Hdec).
  unfold regular_cert_spec. split; [intros H; exact (H Hc) | intros H _; exact H].
Qed.

Print Assumptions judge_regular_cert_complete.
Print Assumptions judge_regular_cert_iff.
Print Assumptions judge_regular_cert_iff_certified.

(* ------------------------------------------------------------------------------------------ *)
(* 6. judge_balanced_cert                                                                       *)
(* ------------------------------------------------------------------------------------------ *)

Definition balanced_cert_spec (alg : Z) (m n : nat) (M : mat) (rc v : Z) (sub : option (list nat * list nat))
           (w : witness) : Prop :=
  tu_certified m n M w = true ->
  (alg = 2 /\ rc <> 0) \/
  (rc = 0 /\ balanced_bf m n M = true /\ v = 1 /\ sub = None).

Theorem judge_balanced_cert_complete : forall rec alg sp ws m n M rc v sub w rest,
  balanced_cert_input rec = Some ((alg, sp, ws, (m, n, M), rc, v, sub, w), rest) ->
  balanced_cert_spec alg m n M rc v sub w ->
  judge_balanced_cert rec = 0.
Proof.
  intros rec alg sp ws m n M rc v sub w rest Hdec HS.
  unfold judge_balanced_cert. rewrite Hdec. cbv beta iota zeta.
  destruct ((alg =? 2) && negb (rc =? 0)) eqn:Eg; [reflexivity|].
  destruct ((rc =? 0) && (v =? 1) && (match sub with None => true | Some _ => false end)) eqn:Ef; [reflexivity|].
  destruct (tu_certified m n M w) eqn:Ec; zb; [|reflexivity].
  destruct (HS Ec) as [[Ha Hrc] | (Hrc & _ & Hv & Es)].
  - subst alg. apply Z.eqb_neq in Hrc. rewrite Hrc in Eg. discriminate Eg.
  - subst rc v sub. discriminate Ef.
Qed.

Corollary judge_balanced_cert_iff : forall rec alg sp ws m n M rc v sub w rest,
  balanced_cert_input rec = Some ((alg, sp, ws, (m, n, M), rc, v, sub, w), rest) ->
  (judge_balanced_cert rec = 0 <-> balanced_cert_spec alg m n M rc v sub w).
Proof.
  intros rec alg sp ws m n M rc v sub w rest Hdec. split.
  - intros HJ Hc. exact (judge_balanced_cert_sound _ _ _ _ _ _ _ _ _ _ _ _ Hdec Hc HJ).
  - intros HS. exact (judge_balanced_cert_complete _ _ _ _ _ _ _ _ _ _ _ _ Hdec HS).
Qed.

Corollary judge_balanced_cert_iff_certified : forall rec alg sp ws m n M rc v sub w rest,
  balanced_cert_input rec = Some ((alg, sp, ws, (m, n, M), rc, v, sub, w), rest) ->
  tu_certified m n M w = true ->
  (judge_balanced_cert rec = 0 <->
   (alg = 2 /\ rc <> 0) \/ (rc = 0 /\ balanced_bf m n M = true /\ v = 1 /\ sub = None)).
Proof.
  intros rec alg sp ws m n M rc v sub w rest Hdec Hc. rewrite (judge_balanced_cert_iff _ _ _ _ _ _ _ _ _ _ _ _ Hdec).
  unfold balanced_cert_spec. split; [intros H; exact (H Hc) | intros H _; exact H].
Qed.

Print Assumptions judge_balanced_cert_complete.
Print Assumptions judge_balanced_cert_iff.
Print Assumptions judge_balanced_cert_iff_certified.

(* ------------------------------------------------------------------------------------------ *)
(* 7. judge_equimod                                                                             *)
(* ------------------------------------------------------------------------------------------ *)

(* literally the conclusion of EquiProofs.judge_equimod_sound (wf_mat m n M is a property of the decoder, EquiProofs proves
   it from dmat_wf; completeness does not use it) *)
Definition equimod_spec (variant kin : Z) (m n : nat) (M : mat) (rc v kout : Z) : Prop :=
  (0 <= variant <= 3 /\ 0 <= kin /\ wf_mat m n M = true) /\
  ((rc = 5 /\ 1000 <= max_abs M) \/
   (rc = 0 /\ (v = 0 \/ v = 1) /\
    (variant_kreq variant kin <> 0 ->
       (v = 1 <-> equi_yes (variant_strong variant) m n M (variant_kreq variant kin) = true)) /\
    (variant_kreq variant kin = 0 ->
       (v = 1 <-> equi_any (variant_strong variant) m n M <> [])) /\
    (v = 1 -> variant < 2 -> equi_yes (variant_strong variant) m n M kout = true))).

Theorem judge_equimod_complete : forall rec variant kin m n M rc v kout rest,
  equimod_input rec = Some ((variant, kin, (m, n, M), rc, v, kout), rest) ->
  equimod_spec variant kin m n M rc v kout ->
  judge_equimod rec = 0.
Proof.
  intros rec variant kin m n M rc v kout rest Hdec ((Hvar & Hkin & _) & HS).
  unfold judge_equimod. unfold equimod_input in Hdec. rewrite Hdec. cbv beta iota zeta.
  fold (variant_strong variant). fold (variant_kreq variant kin).
  set (strong := variant_strong variant) in *. set (kreq := variant_kreq variant kin) in *.
  assert (Er : (0 <=? variant) && (variant <=? 3) && (0 <=? kin) = true).
  { rewrite !andb_true_iff, !Z.leb_le. lia. }
  rewrite Er. zb.
  destruct HS as [[Hrc Hmax] | (Hrc & Hv & H1 & H2 & H3)].
  - subst rc. zb. apply Z.ltb_ge in Hmax. rewrite Hmax. reflexivity.
  - subst rc. zb.
    destruct (kreq =? 0) eqn:Ek.
    + apply Z.eqb_eq in Ek. specialize (H2 Ek).
      destruct Hv as [Hv|Hv]; subst v; zb.
      * destruct (equi_any strong m n M) as [|a l] eqn:Ea; zb; [reflexivity|].
        assert (0 = 1) by (apply H2; discriminate). discriminate.
      * destruct (equi_any strong m n M) as [|a l] eqn:Ea; zb.
        { exfalso. apply (proj1 H2 eq_refl). reflexivity. }
        destruct (variant <? 2) eqn:El; zb; [|reflexivity].
        apply Z.ltb_lt in El. rewrite (H3 eq_refl El). reflexivity.
    + apply Z.eqb_neq in Ek. specialize (H1 Ek).
      destruct Hv as [Hv|Hv]; subst v; zb.
      * destruct (equi_yes strong m n M kreq) eqn:Ey; zb; [|reflexivity].
        assert (0 = 1) by (apply H1; reflexivity). discriminate.
      * rewrite (proj1 H1 eq_refl). zb.
        destruct (variant <? 2) eqn:El; zb; [|reflexivity].
        apply Z.ltb_lt in El. rewrite (H3 eq_refl El). reflexivity.
Qed.

Corollary judge_equimod_iff : forall rec variant kin m n M rc v kout rest,
  equimod_input rec = Some ((variant, kin, (m, n, M), rc, v, kout), rest) ->
  (judge_equimod rec = 0 <-> equimod_spec variant kin m n M rc v kout).
Proof.
  intros rec variant kin m n M rc v kout rest Hdec. split.
  - intros HJ. exact (judge_equimod_sound _ _ _ _ _ _ _ _ _ _ Hdec HJ).
  - intros HS. exact (judge_equimod_complete _ _ _ _ _ _ _ _ _ _ Hdec HS).
Qed.

Print Assumptions judge_equimod_complete.
Print Assumptions judge_equimod_iff.

(* ------------------------------------------------------------------------------------------ *)
(* 8. judge_equi_cert                                                                           *)
(* ------------------------------------------------------------------------------------------ *)

(* The conclusion of EquiCertProofs.judge_equi_cert_sound (stated for variant 0 or 2, a certificate that checks, rc <> 5) does
   not mention the range check `0 <= kin` that the judge performs first (a record with kin < 0 is answered 1 = malformed, even
   when the rest is correct).  STRENGTHENED: the first conjunct `0 <= kin`; the rest is literally that conclusion. *)
Definition equi_cert_spec (variant kin : Z) (m n : nat) (M : mat) (rc v kout : Z) (d : list Z) : Prop :=
  let k := Z.abs (fold_right Z.mul 1 d) in
  0 <= kin /\
  rc = 0 /\ 0 < k /\ Equimodular m n M k /\ (forall k', Equimodular m n M k' -> k' = k) /\
  (v = 0 \/ v = 1) /\
  (variant = 0 -> (v = 1 <-> kin = 0 \/ kin = k)) /\
  (variant = 2 -> (v = 1 <-> k = 1)) /\
  (variant = 0 -> v = 1 -> kout = k).

(* completeness needs neither `the certificate checks` (a certificate that does not check is accepted at once) nor rc <> 5 *)
Theorem judge_equi_cert_complete : forall rec variant kin m n M rc v kout d ops xr xc X B w rest,
  equi_cert_input rec = Some ((variant, kin, (m, n, M), rc, v, kout, d, ops, (xr, xc, X), B, w), rest) ->
  variant = 0 \/ variant = 2 ->
  equi_cert_spec variant kin m n M rc v kout d ->
  judge_equi_cert rec = 0.
Proof.
  intros rec variant kin m n M rc v kout d ops xr xc X B w rest Hdec Hvar HS.
  unfold equi_cert_spec in HS. cbv zeta in HS.
  destruct HS as (Hkin & Hrc & _ & _ & _ & Hv & H0 & H2 & Hk).
  unfold judge_equi_cert. rewrite Hdec. cbv beta iota zeta.
  change (equi_cert_k d) with (Z.abs (fold_right Z.mul 1 d)).
  set (k := Z.abs (fold_right Z.mul 1 d)) in *.
  assert (Er : (0 <=? variant) && (variant <=? 3) && (0 <=? kin) = true).
  { rewrite !andb_true_iff, !Z.leb_le. lia. }
  rewrite Er. zb.
  destruct (equi_cert_check m n M d ops xr xc X B w); zb;
    [|destruct ((variant =? 1) || (variant =? 3)); reflexivity].
  subst rc.
  destruct Hvar as [Hvar|Hvar]; subst variant; zb; unfold equi_cert_truth; zb.
  - specialize (H0 eq_refl). specialize (Hk eq_refl).
    destruct Hv as [Hv|Hv]; subst v; zb.
    + destruct ((kin =? 0) || (kin =? k)) eqn:Et; zb; [|reflexivity].
      apply orb_true_iff in Et. rewrite !Z.eqb_eq in Et.
      assert (0 = 1) by (apply H0; exact Et). discriminate.
    + assert (Et : (kin =? 0) || (kin =? k) = true).
      { apply orb_true_iff. rewrite !Z.eqb_eq. apply H0. reflexivity. }
      rewrite Et. zb. rewrite (Hk eq_refl), Z.eqb_refl. reflexivity.
  - specialize (H2 eq_refl).
    destruct Hv as [Hv|Hv]; subst v; zb.
    + destruct (k =? 1) eqn:Et; zb; [|reflexivity].
      apply Z.eqb_eq in Et. assert (0 = 1) by (apply H2; exact Et). discriminate.
    + assert (Et : k = 1) by (apply H2; reflexivity). rewrite Et. reflexivity.
Qed.

(* soundness for the strengthened specification (hypotheses of judge_equi_cert_sound) *)
Theorem judge_equi_cert_sound_strong : forall rec variant kin m n M rc v kout d ops xr xc X B w rest,
  equi_cert_input rec = Some ((variant, kin, (m, n, M), rc, v, kout, d, ops, (xr, xc, X), B, w), rest) ->
  variant = 0 \/ variant = 2 ->
  equi_cert_check m n M d ops xr xc X B w = true ->
  judge_equi_cert rec = 0 -> rc <> 5 ->
  equi_cert_spec variant kin m n M rc v kout d.
Proof.
  intros rec variant kin m n M rc v kout d ops xr xc X B w rest Hdec Hvar Hchk HJ Hrc.
  unfold equi_cert_spec. cbv zeta. split.
  - unfold judge_equi_cert in HJ. rewrite Hdec in HJ. cbv beta iota zeta in HJ.
    destruct ((0 <=? variant) && (variant <=? 3) && (0 <=? kin)) eqn:Er; cbn [negb] in HJ; [|discriminate HJ].
    apply andb_true_iff in Er. destruct Er as [_ Er]. now apply Z.leb_le in Er.
  - exact (judge_equi_cert_sound _ _ _ _ _ _ _ _ _ _ _ _ _ _ _ _ _ Hdec Hvar Hchk HJ Hrc).
Qed.

Corollary judge_equi_cert_iff : forall rec variant kin m n M rc v kout d ops xr xc X B w rest,
  equi_cert_input rec = Some ((variant, kin, (m, n, M), rc, v, kout, d, ops, (xr, xc, X), B, w), rest) ->
  variant = 0 \/ variant = 2 ->
  equi_cert_check m n M d ops xr xc X B w = true ->
  rc <> 5 ->
  (judge_equi_cert rec = 0 <-> equi_cert_spec variant kin m n M rc v kout d).
Proof.
  intros rec variant kin m n M rc v kout d ops xr xc X B w rest Hdec Hvar Hchk Hrc. split.
  - intros HJ. exact (judge_equi_cert_sound_strong _ _ _ _ _ _ _ _ _ _ _ _ _ _ _ _ _ Hdec Hvar Hchk HJ Hrc).
  - intros HS. exact (judge_equi_cert_complete _ _ _ _ _ _ _ _ _ _ _ _ _ _ _ _ _ Hdec Hvar HS).
Qed.

(* the cases in which nothing is claimed are accepted: strong variants, a certificate that does not check, CMR_ERROR_OVERFLOW
   (always provided the parameters are in range, which the judge checks first) *)
Theorem judge_equi_cert_complete_unclaimed : forall rec variant kin m n M rc v kout d ops xr xc X B w rest,
  equi_cert_input rec = Some ((variant, kin, (m, n, M), rc, v, kout, d, ops, (xr, xc, X), B, w), rest) ->
  0 <= variant <= 3 -> 0 <= kin ->
  (variant = 1 \/ variant = 3) \/ equi_cert_check m n M d ops xr xc X B w = false \/ rc = 5 ->
  judge_equi_cert rec = 0.
Proof.
  intros rec variant kin m n M rc v kout d ops xr xc X B w rest Hdec Hvar Hkin H.
  unfold judge_equi_cert. rewrite Hdec. cbv beta iota zeta.
  assert (Er : (0 <=? variant) && (variant <=? 3) && (0 <=? kin) = true).
  { rewrite !andb_true_iff, !Z.leb_le. lia. }
  rewrite Er. zb.
  destruct ((variant =? 1) || (variant =? 3)) eqn:Es; [reflexivity|].
  destruct H as [H | [H | H]].
  - apply orb_false_iff in Es. rewrite !Z.eqb_neq in Es. lia.
  - rewrite H. reflexivity.
  - destruct (equi_cert_check m n M d ops xr xc X B w); zb; [|reflexivity]. subst rc. reflexivity.
Qed.

Print Assumptions judge_equi_cert_complete.
Print Assumptions judge_equi_cert_sound_strong.
Print Assumptions judge_equi_cert_iff.
Print Assumptions judge_equi_cert_complete_unclaimed.

(* ------------------------------------------------------------------------------------------ *)
(* 9. judge_ctu_compl                                                                           *)
(* ------------------------------------------------------------------------------------------ *)

(* the conclusion of CtuProofs.judge_ctu_compl_sound_dense under its domain hypotheses (outside the documented domain the
   judge accepts everything): the call succeeded and the rest of the record is exactly one well-formed CSR matrix of the
   shape of M whose dense form is the DEFINITION complement_spec *)
Definition ctu_compl_spec (m n : nat) (M : mat) (r c : option nat) (rc : Z) (rest : list Z) : Prop :=
  is_binary M = true -> opt_lt r m = true -> opt_lt c n = true ->
  rc = 0 /\ dcsr_dense rest = Some ((m, n, complement_spec m n M r c), []).

Theorem judge_ctu_compl_complete : forall rec m n M r c rc rest,
  ctu_compl_input rec = Some ((m, n, M, r, c, rc), rest) ->
  ctu_compl_spec m n M r c rc rest ->
  judge_ctu_compl rec = 0.
Proof.
  intros rec m n M r c rc rest Hdec HS.
  pose proof (ctu_compl_input_wf _ _ _ _ _ _ _ _ Hdec) as HW.
  unfold judge_ctu_compl. unfold ctu_compl_input in Hdec. rewrite Hdec. cbv beta iota zeta.
  destruct (is_binary M) eqn:HB; zb; [|reflexivity].
  destruct (opt_lt r m) eqn:Hr; zb; [|reflexivity].
  destruct (opt_lt c n) eqn:Hc; zb; [|reflexivity].
  destruct (HS HB Hr Hc) as [Hrc Hd]. subst rc. zb.
  unfold dbind. rewrite Hd. unfold dend. cbv beta iota.
  rewrite !Nat.eqb_refl. zb.
  rewrite (complement_model_eq_spec m n M r c HW HB Hr Hc).
  rewrite (proj2 (mat_eqb_eq _ _) eq_refl). reflexivity.
Qed.

Corollary judge_ctu_compl_iff : forall rec m n M r c rc rest,
  ctu_compl_input rec = Some ((m, n, M, r, c, rc), rest) ->
  (judge_ctu_compl rec = 0 <-> ctu_compl_spec m n M r c rc rest).
Proof.
  intros rec m n M r c rc rest Hdec. split.
  - intros HJ HB Hr Hc. exact (judge_ctu_compl_sound_dense _ _ _ _ _ _ _ _ Hdec HB Hr Hc HJ).
  - intros HS. exact (judge_ctu_compl_complete _ _ _ _ _ _ _ _ Hdec HS).
Qed.

(* in the shape of judge_ctu_compl_sound': the CSR form *)
Corollary judge_ctu_compl_complete_csr : forall rec m n M r c rc rest s,
  ctu_compl_input rec = Some ((m, n, M, r, c, rc), rest) ->
  rc = 0 -> dcsr rest = Some (s, []) -> csr_wf s = true -> c_rows s = m -> c_cols s = n ->
  dense_of_csr s = complement_spec m n M r c ->
  judge_ctu_compl rec = 0.
Proof.
  intros rec m n M r c rc rest s Hdec Hrc Es Ewf Em En Ed.
  apply (judge_ctu_compl_complete _ _ _ _ _ _ _ _ Hdec). intros _ _ _. split; [exact Hrc|].
  unfold dcsr_dense. rewrite Es, Ewf, Em, En, Ed. reflexivity.
Qed.

Print Assumptions judge_ctu_compl_complete.
Print Assumptions judge_ctu_compl_iff.
Print Assumptions judge_ctu_compl_complete_csr.

(* ------------------------------------------------------------------------------------------ *)
(* 10. judge_ctu_test                                                                           *)
(* ------------------------------------------------------------------------------------------ *)

(* the conclusion of CtuProofs.judge_ctu_test_sound under its domain hypothesis *)
Definition ctu_test_spec (m n : nat) (M : mat) (rc : Z) (v : bool) (r c : option nat) : Prop :=
  is_binary M = true ->
  rc = 0 /\ v = ctu_bf m n M /\
  (v = false -> opt_lt r m = true /\ opt_lt c n = true /\ tu_bf m n (complement_model m n M r c) = false).

Theorem judge_ctu_test_complete : forall rec m n M rc v r c rest,
  ctu_test_input rec = Some ((m, n, M, rc, v, r, c), rest) ->
  ctu_test_spec m n M rc v r c ->
  judge_ctu_test rec = 0.
Proof.
  intros rec m n M rc v r c rest Hdec HS.
  unfold judge_ctu_test. unfold ctu_test_input in Hdec. rewrite Hdec. cbv beta iota zeta.
  destruct (is_binary M) eqn:HB; zb; [|reflexivity].
  destruct (HS HB) as (Hrc & Hv & Hf). subst rc. zb.
  rewrite <- Hv. rewrite Bool.eqb_reflx. zb.
  destruct v; [reflexivity|].
  destruct (Hf eq_refl) as (Hr & Hc & Ht). rewrite Hr, Hc, Ht. reflexivity.
Qed.

Corollary judge_ctu_test_iff : forall rec m n M rc v r c rest,
  ctu_test_input rec = Some ((m, n, M, rc, v, r, c), rest) ->
  (judge_ctu_test rec = 0 <-> ctu_test_spec m n M rc v r c).
Proof.
  intros rec m n M rc v r c rest Hdec. split.
  - intros HJ HB. exact (judge_ctu_test_sound _ _ _ _ _ _ _ _ _ Hdec HB HJ).
  - intros HS. exact (judge_ctu_test_complete _ _ _ _ _ _ _ _ _ Hdec HS).
Qed.

Print Assumptions judge_ctu_test_complete.
Print Assumptions judge_ctu_test_iff.

(* ------------------------------------------------------------------------------------------ *)
(* 11. judge_tu_cert                                                                            *)
(* ------------------------------------------------------------------------------------------ *)

(* literally the conclusion of TuJudgeProofs.judge_tu_cert_sound *)
Definition tu_cert_spec (cfg : list Z) (m n : nat) (M : mat) (rc v : Z) (sub : option (list nat * list nat)) : Prop :=
  rc = 0 /\
  (v = 0 \/ v = 1 \/ (v = 2 /\ cfg_stopflags cfg = true)) /\
  (v = 1 -> sub = None) /\
  (v = 0 -> cfg_want_sub cfg = true ->
     exists rs cs, sub = Some (rs, cs) /\ check_violator m n M rs cs = true).

Theorem judge_tu_cert_complete : forall rec cfg m n M rc v sub rest,
  tu_input rec = Some ((cfg, (m, n, M), rc, v, sub), rest) ->
  tu_cert_spec cfg m n M rc v sub ->
  judge_tu_cert rec = 0.
Proof.
  intros rec cfg m n M rc v sub rest Hdec (Hrc & Hv & H1 & H0).
  unfold judge_tu_cert. unfold tu_input in Hdec. rewrite Hdec. cbv beta iota zeta.
  subst rc. zb.
  destruct Hv as [Hv | [Hv | [Hv Hs]]]; subst v; zb.
  - destruct (cfg_want_sub cfg) eqn:Ew; zb; [|reflexivity].
    destruct (H0 eq_refl eq_refl) as (rs & cs & Es & Hc). subst sub. rewrite Hc. reflexivity.
  - rewrite (H1 eq_refl). reflexivity.
  - rewrite Hs. reflexivity.
Qed.

Corollary judge_tu_cert_iff : forall rec cfg m n M rc v sub rest,
  tu_input rec = Some ((cfg, (m, n, M), rc, v, sub), rest) ->
  (judge_tu_cert rec = 0 <-> tu_cert_spec cfg m n M rc v sub).
Proof.
  intros rec cfg m n M rc v sub rest Hdec. split.
  - intros HJ. exact (judge_tu_cert_sound _ _ _ _ _ _ _ _ _ Hdec HJ).
  - intros HS. exact (judge_tu_cert_complete _ _ _ _ _ _ _ _ _ Hdec HS).
Qed.

(* a record accepted by the oracle judge is accepted by the certificate judge (the latter checks a subset) *)
Corollary judge_tu_implies_tu_cert : forall rec cfg m n M rc v sub rest,
  tu_input rec = Some ((cfg, (m, n, M), rc, v, sub), rest) ->
  judge_tu rec = 0 -> judge_tu_cert rec = 0.
Proof.
  intros rec cfg m n M rc v sub rest Hdec HJ.
  destruct (judge_tu_sound _ _ _ _ _ _ _ _ _ Hdec HJ) as (Hrc & Hv & H1 & H0).
  apply (judge_tu_cert_complete _ _ _ _ _ _ _ _ _ Hdec).
  split; [exact Hrc|]. split; [exact Hv|]. split.
  - intros E. exact (proj2 (H1 E)).
  - intros E Hw. destruct (proj2 (H0 E) Hw) as (rs & cs & Es & Hc & _). exists rs, cs. split; assumption.
Qed.

Print Assumptions judge_tu_cert_complete.
Print Assumptions judge_tu_cert_iff.
Print Assumptions judge_tu_implies_tu_cert.
